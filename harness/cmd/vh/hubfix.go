package main

import (
	"bytes"
	"context"
	"errors"
	"go.uber.org/zap/zapcore"
	"io"
	"net/http"
	"net/url"
	"strings"
	"sync"
	"sync/atomic"
	"time"

	"verifharness/pkg/h"
	"verifharness/pkg/jws"

	"github.com/dunglas/mercure"
	"go.uber.org/zap"
)

// ---------- fake ResponseWriter: supports Flush and SetWriteDeadline (http.ResponseController) ----------

type fakeRW struct {
	mu       sync.Mutex
	hdr      http.Header
	status   int
	body     bytes.Buffer
	deadline time.Time
	failAt   int // fail the n-th Write (1-based); 0 = never
	writes   int
	onWrite  func(p []byte)
	gateFn   func()   // called before every write, outside the lock (stalled writer)
	events   []string // trace of writes/flushes for the timed family
	// holdFail: the first failing write parks until the harness releases it, so that connections that
	// die because of the same publication die in a defined order (the model's: connection order)
	holdFail bool
	failCh   chan struct{}
	failed   bool
	// deadlineErr: SetWriteDeadline fails (the connection was torn down under the handler): the first call — the one
	// SubscribeHandler makes right after registration — returns at once, a later one (made before a write) parks like
	// a failing write
	deadlineErr bool
	dlCalls     int
	// flushErr: flushing fails (the client reset the connection while it was being registered): the flush that follows
	// the headers returns at once, a later one (after a write) parks like a failing write
	flushErr bool
	flCalls  int
}

// FlushError is what http.ResponseController.Flush calls when the writer has it.
func (w *fakeRW) FlushError() error {
	w.mu.Lock()
	defer w.mu.Unlock()
	if w.flushErr {
		w.flCalls++
		if w.flCalls > 1 && w.holdFail && !w.failed {
			w.failed = true
			ch := make(chan struct{})
			w.failCh = ch
			w.mu.Unlock()
			<-ch
			w.mu.Lock()
		}

		return errConnClosed
	}

	return nil
}

// failParked reports whether a failing write is parked, waiting for release.
func (w *fakeRW) failParked() bool {
	w.mu.Lock()
	defer w.mu.Unlock()

	return w.failCh != nil
}

func (w *fakeRW) releaseFail() {
	w.mu.Lock()
	defer w.mu.Unlock()
	if w.failCh != nil {
		close(w.failCh)
		w.failCh = nil
	}
}

// zapNop: every other call returns a logger that really encodes every entry and every field it is given (JSON encoder,
// debug level, output discarded) — so the code that only runs when a log level is enabled (logger.Check(…) branches,
// MarshalLogObject of subscribers and updates) is part of what the families execute — and the calls in between return
// zap.NewNop(), for which every level is disabled (code that only behaves when logging is off is executed too).
// Deterministic: the choice depends on the number of loggers created so far.
var zapCalls atomic.Int64

func zapNop() *zap.Logger {
	if zapCalls.Add(1)%2 == 0 {
		return zap.NewNop()
	}

	return zap.New(zapcore.NewCore(zapcore.NewJSONEncoder(zap.NewProductionEncoderConfig()), zapcore.AddSync(io.Discard), zapcore.DebugLevel))
}

func newRW() *fakeRW { return &fakeRW{hdr: http.Header{}} }

func (w *fakeRW) Header() http.Header { return w.hdr }

func (w *fakeRW) WriteHeader(s int) {
	w.mu.Lock()
	defer w.mu.Unlock()
	if w.status == 0 {
		w.status = s
	}
}

var errDeadline = errors.New("i/o timeout (write deadline exceeded)")
var errInjected = errors.New("injected write error")

func (w *fakeRW) Write(p []byte) (int, error) {
	if w.gateFn != nil && w.started() {
		w.gateFn()
	}
	w.mu.Lock()
	defer w.mu.Unlock()
	if w.status == 0 {
		w.status = 200
	}
	w.writes++
	if w.failAt != 0 && w.writes >= w.failAt {
		if w.holdFail && !w.failed {
			w.failed = true
			ch := make(chan struct{})
			w.failCh = ch
			w.mu.Unlock()
			<-ch
			w.mu.Lock()
		}

		return 0, errInjected
	}
	if !w.deadline.IsZero() && !time.Now().Before(w.deadline) {
		return 0, errDeadline
	}
	w.body.Write(p)
	if w.onWrite != nil {
		w.onWrite(p)
	}

	return len(p), nil
}

// started: the first write (the ":\n" that flushes the headers) is never gated.
func (w *fakeRW) started() bool {
	w.mu.Lock()
	defer w.mu.Unlock()

	return w.writes > 0
}

func (w *fakeRW) Flush() {}

var errConnClosed = errors.New("use of closed network connection (injected)")

func (w *fakeRW) SetWriteDeadline(t time.Time) error {
	w.mu.Lock()
	defer w.mu.Unlock()
	if w.deadlineErr {
		w.dlCalls++
		if w.dlCalls > 1 && w.holdFail && !w.failed {
			w.failed = true
			ch := make(chan struct{})
			w.failCh = ch
			w.mu.Unlock()
			<-ch
			w.mu.Lock()
		}

		return errConnClosed
	}
	w.deadline = t

	return nil
}

func (w *fakeRW) Status() int {
	w.mu.Lock()
	defer w.mu.Unlock()
	if w.status == 0 {
		return 200
	}

	return w.status
}

func (w *fakeRW) Body() string {
	w.mu.Lock()
	defer w.mu.Unlock()

	return w.body.String()
}

// ---------- requests ----------

// authParts is the credential-carrying part of a request, in the model's vocabulary.
type authParts struct {
	Headers []string `json:"headers"` // nil = header absent
	Query   []string `json:"query"`   // nil = parameter absent
	Cookies []string `json:"cookies"` // cookies named like the hub's cookie, in order
	Origin  string   `json:"origin"`
	Referer string   `json:"referer"`
	// QSpell: how the query credential is spelt on the wire — 0: authorization=v; 1: the key percent-encoded
	// (%61uthorization=v); 2: an empty value written without '=' (authorization). net/url parses all three
	// to the same parameter.
	QSpell int `json:"query_spelling,omitempty"`
	// BodyAuth: a field `authorization=<value>` in the form-encoded body of a POST. The body is not a credential
	// carrier: the field must change nothing.
	BodyAuth string `json:"body_authorization,omitempty"`
}

// encode renders the query string with the credential spelt as QSpell says.
func (a authParts) encode(q url.Values) string {
	s := q.Encode()
	switch a.QSpell {
	case 1:
		s = strings.ReplaceAll(s, "authorization=", "%61uthorization=")
	case 2:
		parts := strings.Split(s, "&")
		for i, p := range parts {
			if p == "authorization=" {
				parts[i] = "authorization"
			}
		}
		s = strings.Join(parts, "&")
	}

	return s
}

const hubURL = "/.well-known/mercure"

func (a authParts) apply(r *http.Request, cookieName string, q url.Values) {
	if a.Headers != nil {
		r.Header["Authorization"] = append([]string(nil), a.Headers...)
	}
	for _, v := range a.Query {
		q.Add("authorization", v)
	}
	for _, c := range a.Cookies {
		r.AddCookie(&http.Cookie{Name: cookieName, Value: c})
	}
	if a.Origin != "" {
		r.Header.Set("Origin", a.Origin)
	}
	if a.Referer != "" {
		r.Header.Set("Referer", a.Referer)
	}
}

// wire renders the model's AuthReq fields: hdrs query cookie origin referer refOrigin.
func (a authParts) wire(isPost bool) []string {
	opt := func(l []string) string {
		if l == nil {
			return "~"
		}

		return h.HexList(l)
	}
	cookie := "~"
	if len(a.Cookies) > 0 {
		cookie = h.Hex(a.Cookies[0])
	}
	refO := "~"
	if a.Referer != "" {
		// net/url is the trusted base for Referer parsing (DESIGN §7)
		if u, err := url.Parse(a.Referer); err == nil {
			refO = h.Hex(u.Scheme + "://" + u.Host)
		}
	}

	return []string{h.B(isPost), opt(a.Headers), opt(a.Query), cookie, h.Hex(a.Origin), h.Hex(a.Referer), refO}
}

// ---------- hub fixture ----------

type hubCfg struct {
	PubAlg        string   `json:"pub_alg"`
	SubAlg        string   `json:"sub_alg"` // "" = no subscriber key
	Anonymous     bool     `json:"anonymous"`
	Origins       []string `json:"origins"`
	CookieName    string   `json:"cookie_name"`
	Compat7       bool     `json:"compat7"`
	Subscriptions bool     `json:"subscriptions"`
	Bolt          bool     `json:"bolt"`
	// Cors: the CORS origins option (WithCORSOrigins); not a publish origin: it must not influence authorisation
	Cors []string `json:"cors_origins,omitempty"`
}

type fixture struct {
	cfg     hubCfg
	hub     *mercure.Hub
	pubKey  *jws.Key
	subKey  *jws.Key
	tr      mercure.Transport
	cookie  string
	tokSeen map[string]bool
}

func (c hubCfg) options(f *fixture) []mercure.Option {
	opts := []mercure.Option{mercure.WithLogger(zapNop()), mercure.WithPublisherJWT(f.pubKey.ConfigKey(), c.PubAlg)}
	if c.SubAlg != "" {
		opts = append(opts, mercure.WithSubscriberJWT(f.subKey.ConfigKey(), c.SubAlg))
	}
	if c.Anonymous {
		opts = append(opts, mercure.WithAnonymous())
	}
	if len(c.Origins) > 0 {
		opts = append(opts, mercure.WithPublishOrigins(c.Origins))
	}
	if c.CookieName != "" {
		opts = append(opts, mercure.WithCookieName(c.CookieName))
	}
	if len(c.Cors) > 0 {
		opts = append(opts, mercure.WithCORSOrigins(c.Cors))
	}
	if c.Compat7 {
		opts = append(opts, mercure.WithProtocolVersionCompatibility(7))
	}
	if c.Subscriptions {
		opts = append(opts, mercure.WithSubscriptions())
	}

	return opts
}

func newFixture(c hubCfg, tr mercure.Transport, extra ...mercure.Option) *fixture {
	f := &fixture{cfg: c, tokSeen: map[string]bool{}}
	f.pubKey = jws.NewKey(c.PubAlg, 11)
	if c.SubAlg != "" {
		f.subKey = jws.NewKey(c.SubAlg, 22)
	}
	if tr == nil {
		tr = mercure.NewLocalTransport()
	}
	f.tr = tr
	opts := append(c.options(f), mercure.WithTransport(tr))
	opts = append(opts, extra...)
	hub, err := mercure.NewHub(opts...)
	if err != nil {
		panic(err)
	}
	f.hub = hub
	f.cookie = c.CookieName
	if f.cookie == "" {
		f.cookie = "mercureAuthorization"
	}

	return f
}

func (f *fixture) cfgLine() string {
	sa := f.cfg.SubAlg

	return h.Line("hub.cfg", h.Hex(f.cfg.PubAlg), h.B(f.cfg.SubAlg != ""), h.Hex(sa), h.B(f.cfg.Anonymous),
		h.HexList(f.cfg.Origins), h.B(f.cfg.Compat7), h.B(f.cfg.Subscriptions))
}

func optL(l []string) string {
	if l == nil {
		return "~"
	}

	return h.HexList(l)
}

// tokLine: the abstract facts of a token string, recomputed by the harness's own decoder.
func (f *fixture) tokLine(tok string, now time.Time) string {
	fa := jws.Analyse(tok, map[string]*jws.Key{"p": f.pubKey, "s": f.subKey}, now)
	c := fa.Claims
	ns := c.Namespaced
	nsP, nsS, nsPay := "~", "~", ""
	if ns != nil {
		nsP, nsS, nsPay = optL(ns.Publish), optL(ns.Subscribe), jws.PayloadJSON(ns.Payload)
	}
	exp := "-"
	if fa.ExpMs >= 0 {
		exp = h.Itoa(int(fa.ExpMs))
	}

	return h.Line("tok", h.Hex(tok), h.B(fa.WellFormed), h.Hex(fa.Alg), h.B(fa.SigOK["p"]), h.B(fa.SigOK["s"]),
		h.B(fa.ExpOK), h.B(fa.NbfOK), optL(c.Mercure.Publish), optL(c.Mercure.Subscribe), h.Hex(jws.PayloadJSON(c.Mercure.Payload)),
		h.B(ns != nil), nsP, nsS, h.Hex(nsPay), exp)
}

// candidate token strings carried by a request (what validateJWT may be applied to)
func (a authParts) tokens() []string {
	var ts []string
	for _, hd := range a.Headers {
		if strings.HasPrefix(hd, "Bearer ") {
			ts = append(ts, hd[7:])
		}
	}
	ts = append(ts, a.Query...)
	ts = append(ts, a.Cookies...)

	return ts
}

func validUTF8Tokens(ts []string) []string {
	var out []string
	for _, t := range ts {
		out = append(out, t)
	}

	return out
}

// doPublish sends a form POST through Hub.ServeHTTP.
func (f *fixture) doPublish(a authParts, contentType, body, rawQuery string) *fakeRW {
	r, _ := http.NewRequest(http.MethodPost, "http://hub.test"+hubURL, strings.NewReader(body))
	if contentType != "" {
		r.Header.Set("Content-Type", contentType)
	}
	q, _ := url.ParseQuery(rawQuery)
	a.apply(r, f.cookie, q)
	r.URL.RawQuery = a.encode(q)
	w := newRW()
	f.hub.ServeHTTP(w, r)

	return w
}

// doGet sends a GET whose context is already cancelled (a subscribe returns right after registration).
func (f *fixture) doGet(a authParts, path string, q url.Values, hdr http.Header) *fakeRW {
	ctx, cancel := context.WithCancel(context.Background())
	cancel()
	r, _ := http.NewRequestWithContext(ctx, http.MethodGet, "http://hub.test"+path, nil)
	for k, v := range hdr {
		r.Header[k] = v
	}
	if q == nil {
		q = url.Values{}
	}
	a.apply(r, f.cookie, q)
	r.URL.RawQuery = a.encode(q)
	w := newRW()
	f.hub.ServeHTTP(w, r)

	return w
}
