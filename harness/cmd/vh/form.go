package main

import (
	"encoding/hex"
	"fmt"
	"net/http"
	"net/http/httptest"
	"net/url"
	"sort"
	"strings"
	"unicode/utf8"

	"verifharness/pkg/h"
)

func init() { register("form", "C12", runForm) }

// form — `url.ParseQuery` (what r.ParseForm does with an application/x-www-form-urlencoded body) against the Lean
// model `Form.parseQuery`, on raw bytes; and the fields PublishHandler reads (`Form.fieldsOf`) against the same
// fields taken from Go's own parse.

type formCase struct {
	Body string `json:"body_hex"`
}

var formAtoms = []string{"a", "b", "topic", "data", "id", "type", "retry", "private", "=", "=", "&", "&", ";", "+", "%", "%20", "%2B", "%26", "%3D", "%3d", "%zz", "%4", "%41", "%C3%A9", "%c3", "%FF", "%00", "%0A", "%0D%0A", " ", "é", "日本", "😀", "1", "42", "-", ".", "~", "_", "*", "/", "?", "#", ":", "@", "\n", "\x00"}

func canonValues(v map[string][]string) string {
	keys := make([]string, 0, len(v))
	for k := range v {
		keys = append(keys, k)
	}
	sort.Strings(keys)
	var parts []string
	for _, k := range keys {
		vs := make([]string, len(v[k]))
		for i, x := range v[k] {
			vs[i] = hex.EncodeToString([]byte(x))
		}
		parts = append(parts, hex.EncodeToString([]byte(k))+"="+strings.Join(vs, ","))
	}

	return strings.Join(parts, ";")
}

// canonModel: the model answers pairs in order of appearance; group them by key like url.Values
func canonModel(ans string) string {
	i := strings.IndexByte(ans, '|')
	if i < 0 {
		return ans
	}
	m := map[string][]string{}
	if ans[i+1:] != "" {
		for _, kv := range strings.Split(ans[i+1:], ",") {
			p := strings.SplitN(kv, "=", 2)
			k, _ := hex.DecodeString(p[0])
			v, _ := hex.DecodeString(p[1])
			m[string(k)] = append(m[string(k)], string(v))
		}
	}

	return ans[:i] + "|" + canonValues(m)
}

// goFields: the fields PublishHandler reads, taken from the real `http.Request.ParseForm` of a POST with this
// body (net/http's parsePostForm: the form-size limit, then url.ParseQuery) — the call PublishHandler makes.
func goFields(body string) string {
	req := httptest.NewRequest(http.MethodPost, "/.well-known/mercure", strings.NewReader(body))
	req.Header.Set("Content-Type", "application/x-www-form-urlencoded")
	err := req.ParseForm()
	form := req.PostForm
	for _, k := range []string{"topic", "retry", "data", "id", "type"} {
		vs := form[k]
		if k != "topic" && len(vs) > 1 {
			vs = vs[:1]
		}
		for _, v := range vs {
			if !utf8.ValidString(v) {
				return "non-utf8"
			}
		}
	}

	return fmt.Sprintf("%s %s %s %s %s %s %s", h.B(err == nil), h.HexList(form["topic"]), h.Hex(form.Get("retry")), h.B(len(form["private"]) != 0), h.Hex(form.Get("data")), h.Hex(form.Get("id")), h.Hex(form.Get("type")))
}

func runFormCase(c *h.Ctx, r *h.Report, body string) {
	form, err := url.ParseQuery(body)
	impl := h.B(err != nil) + "|" + canonValues(form)
	ans := c.Driver.Ask([]string{h.Line("form.parse", hex.EncodeToString([]byte(body))), h.Line("form.fields", hex.EncodeToString([]byte(body)))})
	r.Evaluations += 2
	if got := canonModel(ans[0]); got != impl {
		r.Disagree(h.Disagreement{Class: "C12.form-decoding", Case: formCase{hex.EncodeToString([]byte(body))}, Model: got, Impl: impl + "  <= url.ParseQuery(" + fmt.Sprintf("%q", body) + ")"})
	}
	if gf := goFields(body); ans[1] != gf {
		r.Disagree(h.Disagreement{Class: "C12.form-fields", Case: formCase{hex.EncodeToString([]byte(body))}, Model: ans[1], Impl: gf + "  <= fields of " + fmt.Sprintf("%q", body)})
	}
	if err != nil {
		r.Count("body:error")
	} else {
		r.Count("body:ok")
	}
}

func runForm(c *h.Ctx, r *h.Report) {
	r.Rule = "request bodies as raw bytes: (a) pairs from a vocabulary of field names and values (UTF-8 text, line breaks, every separator, NUL) encoded with url.QueryEscape in the order given — the round trip the theorem speaks of; (b) the same with one byte changed, a separator doubled, an escape truncated or made invalid (%zz, %4, trailing %), a ';', '+' and raw non-ASCII bytes, keys without '=', empty keys, repeated keys; (c) random strings over a vocabulary of separators and escapes. `url.ParseQuery` (error flag and per-key value lists) against `Form.parseQuery`, and the fields PublishHandler reads (topic list, first retry / data / id / type, presence of private) against `Form.fieldsOf`. Non-trivial = body with a repeated key or an error; distinct by content."
	if c.Replay != "" {
		var rp struct {
			Case formCase `json:"case"`
		}
		readReplay(c.Replay, &rp)
		b, _ := hex.DecodeString(rp.Case.Body)
		runFormCase(c, r, string(b))

		return
	}
	for _, b := range []string{"", "&", "=", "==", "a", "a=", "=b", "a=b&a=c&b", "topic=x;y", "a=%", "a=%4", "a=%zz&b=1", "%=1", "a=1&&b=2&", "a=b=c", "+=+", "a=%00", "topic=%C3%A9&topic=%c3", "private"} {
		runFormCase(c, r, b)
	}
	// bodies around net/http's form-size limit (10 MiB) and other large sizes: parsed as a whole or not at all
	for _, sz := range []int{1 << 20, 1<<20 + 1, 3 << 19, 10<<20 - 1, 10 << 20, 10<<20 + 1} {
		pre, post := "topic=t&data=", "&private=on&id=last&type=ty"
		body := pre + padString(sz-len(pre)-len(post)) + post
		if mf, gf := c.Driver.Ask1(h.Line("form.fields", hex.EncodeToString([]byte(body)))), goFields(body); mf != gf {
			r.Disagree(h.Disagreement{Class: "C12.form-fields", Case: map[string]any{"large_body_bytes": len(body), "shape": pre + "<pad>" + post}, Model: short(mf), Impl: short(gf)})
		}
		r.Evaluations++
		r.Count(fmt.Sprintf("large-body:%d", len(body)))
	}
	n := c.Scale(6000, 100000)
	for i := 0; i < n; i++ {
		rr := c.Rand.Fork()
		var body string
		switch rr.Intn(3) {
		case 0, 1:
			var parts []string
			for k := rr.Intn(6); k >= 0; k-- {
				key := h.Pick(rr, []string{"topic", "topic", "data", "id", "type", "retry", "private", "x", "", "é"})
				val := ""
				for m := rr.Intn(4); m > 0; m-- {
					val += h.Pick(rr, []string{"a", "b c", "é", "日本", "😀", "&", "=", ";", "+", "%", "\n", "\r\n", "\x00", "1", "https://example.com/a?b=c&d#e", "{x}", "*"})
				}
				parts = append(parts, url.QueryEscape(key)+"="+url.QueryEscape(val))
			}
			body = strings.Join(parts, "&")
			if rr.Intn(3) == 0 && len(body) > 0 { // (b) one mutation
				bs := []byte(body)
				p := rr.Intn(len(bs))
				switch rr.Intn(6) {
				case 0:
					bs[p] = h.Pick(rr, []byte{'%', ';', '&', '=', '+', 0xff, 'z', ' '})
				case 1:
					bs = append(bs[:p], bs[p+1:]...)
				case 2:
					bs = append(bs[:p], append([]byte{h.Pick(rr, []byte{'%', '&', ';', '='})}, bs[p:]...)...)
				case 3:
					bs = bs[:p]
				case 4:
					bs = append(bs, '%')
				default:
					bs = append(bs, []byte("&"+h.Pick(rr, formAtoms))...)
				}
				body = string(bs)
			}
		default:
			for k := rr.Intn(10); k >= 0; k-- {
				body += h.Pick(rr, formAtoms)
			}
		}
		runFormCase(c, r, body)
		if strings.Count(body, "topic=") > 1 {
			r.Nontrivial(body)
		}
		if i < 3 {
			r.Sample(formCase{hex.EncodeToString([]byte(body))})
		}
	}
}

// padString: n bytes of unreserved characters (no escaping needed), not constant so that a cut is visible.
func padString(n int) string {
	if n <= 0 {
		return ""
	}
	b := make([]byte, n)
	for i := range b {
		b[i] = "abcdefghijklmnopqrstuvwxyz0123456789"[i%36]
	}

	return string(b)
}

func short(s string) string {
	if len(s) > 300 {
		return fmt.Sprintf("%s…(%d bytes)…%s", s[:120], len(s), s[len(s)-120:])
	}

	return s
}
