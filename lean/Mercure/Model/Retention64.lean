import Mercure.Model.Hub
/-
  Mercure.Model.Retention64 — bolt.go `cleanup` at machine width: the size, the last sequence number
  and the stored keys are uint64; the guard is an unsigned comparison and the bound an unsigned
  subtraction. `Props/C10` shows that this computes exactly the `Nat`-level `retain` used everywhere
  else in the model, for every 64-bit size — "for all sizes" includes those above 2^63.
-/
namespace Mercure.Retention64

/-- `if t.size == 0 || t.size >= lastID { return nil }; removeUntil := lastID - t.size` (the frequency
    tests are the coin of `rPublish`). `none` = nothing is deleted. -/
def removeUntil (size lastID : BitVec 64) : Option (BitVec 64) :=
  if size == 0#64 || lastID.ule size then none else some (lastID - size)

/-- the loop condition `binary.BigEndian.Uint64(k[:8]) <= removeUntil` -/
def deletes (size lastID key : BitVec 64) : Bool :=
  match removeUntil size lastID with
  | none => false
  | some b => key.ule b

/-- The variant with signed 64-bit arithmetic (`int64(lastID) - int64(size) <= 0 ⇒ return`): what a
    well-meant rewrite of the guard computes. -/
def deletesSigned (size lastID key : BitVec 64) : Bool :=
  let r := lastID - size
  if r.sle 0#64 then false else key.ule r

end Mercure.Retention64
