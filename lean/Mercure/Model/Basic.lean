/-
  Mercure.Model.Basic — conventions shared by every model module.

  Go `string` (valid UTF-8)  ↦  `Str := List Char` (sequence of Unicode scalars).
  All models are total, computable, core-only (no Mathlib) so that the driver links.
-/
namespace Mercure

abbrev Str := List Char

/-- Lexicographic order on scalar values; equals Go's byte order on valid UTF-8. -/
def strLe : Str → Str → Bool
  | [], _ => true
  | _ :: _, [] => false
  | a :: as, b :: bs => if a.toNat < b.toNat then true else if b.toNat < a.toNat then false else strLe as bs

def sortStrs (l : List Str) : List Str := l.mergeSort strLe

/-- The UTF-8 encoding of a string (kernel-reducible, unlike `String.toUTF8`). -/
def utf8Bytes (s : Str) : List UInt8 := s.flatMap String.utf8EncodeChar

/-- `strings.Contains(s, string(c))` -/
def containsChar (s : Str) (c : Char) : Bool := s.any (· == c)

/-- isPrefixOf on Str -/
def hasPrefix (p s : Str) : Bool := p.isPrefixOf s

def joinWith (sep : Str) : List Str → Str
  | [] => []
  | [x] => x
  | x :: xs => x ++ sep ++ joinWith sep xs

/-- remove duplicates keeping first occurrences -/
def dedup [DecidableEq α] : List α → List α
  | [] => []
  | x :: xs => x :: (dedup xs).filter (· ≠ x)

end Mercure
