package main

import (
	"context"
	"fmt"
	"os"
	"os/exec"
	"regexp"
	"strings"
	"sync"
	"time"

	"verifharness/pkg/h"

	"github.com/dunglas/mercure"
)

func init() { register("race", "C14", runRace) }

// raceChild: an unsteered stress of the public transport API, meant to run in a binary built with
// -race. Every shared access the operations make is exercised from several goroutines.
func raceChild(kind string, seed uint64) {
	rr := h.NewRand(seed)
	dir := ""
	var tr mercure.Transport
	if kind == "bolt" {
		dir = scratchDir()
		defer os.RemoveAll(dir)
		tr = newBolt(dir, 5, 1)
	} else {
		tr = mercure.NewLocalTransport()
	}
	store, _ := mercure.NewTopicSelectorStoreLRU(100, 4)
	var wg sync.WaitGroup
	stop := time.Now().Add(700 * time.Millisecond)
	for g := 0; g < 6; g++ {
		wg.Add(1)
		r := rr.Fork()
		go func(g int) {
			defer wg.Done()
			defer func() { recover() }()
			for k := 0; time.Now().Before(stop); k++ {
				switch r.Intn(7) {
				case 5, 6:
					tr.(mercure.TransportSubscribers).GetSubscribers()
				case 0, 1, 2:
					tr.Dispatch(&mercure.Update{Topics: []string{fmt.Sprintf("t%d", r.Intn(3))}, Event: mercure.Event{Data: "d"}})
				case 3:
					s := mercure.NewLocalSubscriber(h.Pick(r, []string{"", "earliest"}), zapNop(), store)
					s.SetTopics([]string{fmt.Sprintf("t%d", r.Intn(3)), "t{x}"}, nil)
					if tr.AddSubscriber(s) == nil {
						go func() {
							for range s.Receive() {
							}
						}()
						if r.Bool() {
							s.Disconnect()
							tr.RemoveSubscriber(s)
						}
					}
				case 4:
					tr.(mercure.TransportSubscribers).GetSubscribers()
				}
			}
		}(g)
	}
	wg.Wait()
	// matching outside any transport lock, as the handlers (canDispatch / canReceive) and concurrent history replays
	// (dispatchHistory runs s.Match inside a read transaction, not under the transport lock) do: several goroutines,
	// template selectors, one shared selector store — hits (recency updates) and misses (insertions, evictions)
	small, _ := mercure.NewTopicSelectorStoreLRU(8, 2)
	for _, st := range []*mercure.TopicSelectorStore{store, small} {
		var subs []*mercure.LocalSubscriber
		for i := 0; i < 3; i++ {
			s := mercure.NewLocalSubscriber("", zapNop(), st)
			s.SetTopics([]string{fmt.Sprintf("https://example.com/r%d/{id}", i), "https://example.com/{a}/{b}/x"}, []string{fmt.Sprintf("https://example.com/r%d/{id}", i)})
			subs = append(subs, s)
		}
		stop2 := time.Now().Add(250 * time.Millisecond)
		for g := 0; g < 6; g++ {
			wg.Add(1)
			r := rr.Fork()
			go func() {
				defer wg.Done()
				for time.Now().Before(stop2) {
					u := &mercure.Update{Topics: []string{fmt.Sprintf("https://example.com/r%d/%d", r.Intn(3), r.Intn(40))}, Private: r.Bool()}
					h.Pick(r, subs).Match(u)
				}
			}()
		}
		wg.Wait()
	}
	tr.Close()
}

var raceFrame = regexp.MustCompile(`(?m)^  (\S+)\(\)$`)

func runRace(c *h.Ctx, r *h.Report) {
	r.Rule = "dynamic cross-check of the lock discipline: the harness rebuilt with -race runs an unsteered stress (6 goroutines x Dispatch / AddSubscriber with and without history / Disconnect / RemoveSubscriber / GetSubscribers, then Close) on both transports in child processes; any report of the race detector is a violation, keyed by the two conflicting functions. Non-trivial = a child run that completed; distinct by (transport, seed)."
	if !raceEnabled {
		r.Notes = append(r.Notes, "this binary was not built with -race: the race family did nothing")
		r.Evaluations = 1

		return
	}
	n := c.Scale(3, 20)
	for _, kind := range []string{"local", "bolt"} {
		for i := 0; i < n; i++ {
			seed := c.Rand.U64()
			ctx, cancel := context.WithTimeout(context.Background(), 25*time.Second)
			cmd := exec.CommandContext(ctx, os.Args[0], "race-child", kind, fmt.Sprint(seed))
			cmd.Env = append(os.Environ(), "GORACE=halt_on_error=1 exitcode=66")
			out, err := cmd.CombinedOutput()
			hung := ctx.Err() != nil
			cancel()
			if hung {
				r.Violate(h.Violation{Key: "C14:operations-hang-under-concurrency",
					What:   fmt.Sprintf("an unsteered mix of Dispatch / AddSubscriber / Disconnect / RemoveSubscriber / GetSubscribers / Close on the %s transport did not finish within 25 s (0.7 s of work): some operation hangs", kind),
					Replay: map[string]any{"family": "race", "kind": kind, "seed": seed}})

				continue
			}
			r.Evaluations++
			r.Nontrivial(fmt.Sprint(kind, seed))
			r.Count("child:" + kind)
			if strings.Contains(string(out), "WARNING: DATA RACE") {
				fs := raceFrame.FindAllStringSubmatch(string(out), 12)
				var top []string
				for _, f := range fs {
					fn := f[1]
					if strings.Contains(fn, "runtime.") || strings.Contains(fn, "sync/atomic") {
						continue
					}
					top = append(top, fn[strings.LastIndex(fn, "/")+1:])
					if len(top) == 4 {
						break
					}
				}
				first := ""
				if len(top) > 0 {
					first = top[0]
				}
				txt := string(out)
				if len(txt) > 3000 {
					txt = txt[:3000]
				}
				if strings.Contains(txt, "AssignUUID") {
					// the ids the hub generates come out of unsynchronised shared state: two publications can be handed
					// the same "fresh" id (C12: the id a subscriber sees identifies one update)
					r.Violate(h.Violation{Key: "C12:update-ids-generated-through-a-data-race",
						What:   fmt.Sprintf("concurrent publications without an id race inside AssignUUID on the %s transport (frames: %s)", kind, strings.Join(top, " <- ")),
						Replay: map[string]any{"family": "race", "kind": kind, "seed": seed, "report": txt}})
				}
				r.Violate(h.Violation{Key: "C14:data-race:" + first,
					What:   fmt.Sprintf("the race detector reports unsynchronised memory access on the %s transport (frames: %s)", kind, strings.Join(top, " <- ")),
					Replay: map[string]any{"family": "race", "kind": kind, "seed": seed, "report": txt}})
			} else if i := strings.Index(string(out), "fatal error: "); err != nil && i >= 0 {
				// e.g. "concurrent map writes": the runtime kills the process, nothing can recover it
				msg := strings.SplitN(string(out)[i:], "\n", 2)[0]
				txt := string(out)[i:]
				if len(txt) > 3000 {
					txt = txt[:3000]
				}
				r.Violate(h.Violation{Key: "C14:" + msg,
					What:   fmt.Sprintf("the runtime aborted the process during a concurrent mix of operations on the %s transport: %s", kind, msg),
					Replay: map[string]any{"family": "race", "kind": kind, "seed": seed, "report": txt}})
			} else if err != nil {
				r.Notes = append(r.Notes, fmt.Sprintf("race child %s/%d failed: %v: %s", kind, seed, err, clip(string(out))))
			}
			r.Sample(map[string]any{"kind": kind, "seed": seed})
		}
	}
}
