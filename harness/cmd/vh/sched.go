package main

import (
	"encoding/binary"
	"fmt"
	"os"
	"runtime"
	"strings"

	"verifharness/pkg/h"
	"verifharness/verifsched"

	"github.com/dunglas/mercure"
	"go.etcd.io/bbolt"
)

func init() {
	register("sched", "C14", runSched)
}

type schedSub struct {
	Topics []int  `json:"topics"`
	Req    string `json:"req"` // "-" | "e" | update number
}

type schedOp struct {
	Op    string `json:"op"` // dispatch | add | remove | close | list | disconnect | recv
	Sub   int    `json:"sub,omitempty"`
	ID    int    `json:"id,omitempty"`
	Topic int    `json:"topic,omitempty"`
}

// Sticky: when the explicit schedule is exhausted keep running the same thread until it finishes or
// blocks, then the lowest unfinished one (instead of round robin) — used by the systematic enumeration.
type schedPhase struct {
	Sticky   bool       `json:"sticky,omitempty"`
	Restart  bool       `json:"restart,omitempty"` // close + reopen the transport before this phase
	Pre      []schedOp  `json:"pre,omitempty"`     // run sequentially first (history, registrations)
	Subs     []schedSub `json:"subs,omitempty"`    // subscribers created for this phase (indices continue)
	Ops      []schedOp  `json:"ops"`               // run concurrently, one thread each
	Schedule []int      `json:"schedule"`          // thread picks; exhausted => round robin
}

type schedCase struct {
	Kind   string       `json:"kind"` // bolt | local
	Size   int          `json:"size"`
	Cap    int          `json:"cap"`
	Phases []schedPhase `json:"phases"`
}

type opTrace struct {
	op         schedOp
	phase      int
	first, end int // global step numbers of the first executed step and of completion (-1: never)
	ret        string
}

type schedRun struct {
	executed   []int // thread of every executed (non-blocked) step of the last phase
	traces     []opTrace
	cs         schedCase
	dir        string
	bolt       *mercure.BoltTransport
	local      *mercure.LocalTransport
	tr         mercure.Transport
	subs       []*mercure.LocalSubscriber
	recvd      [][]string
	lines      []string
	impl       []string
	store      *mercure.TopicSelectorStore
	panics     []string
	dead       bool
	extra      []h.Violation // oracle findings recorded while the schedule runs
	deadLabels []string      // what the blocked threads of a deadlocked schedule are waiting for
	deadClose  bool          // one of them is a Close call
	atRemoval  map[int]int   // updates a subscriber held when its RemoveSubscriber returned
}

// padBolt grows the file (and hence bbolt's mmap) once, before any reader can be parked inside a read
// transaction: a later write that needed to remap would really block behind that reader.
func padBolt(path string) {
	if _, err := os.Stat(path); err == nil {
		return
	}
	db, err := bbolt.Open(path, 0o600, nil)
	if err != nil {
		panic(err)
	}
	db.Update(func(tx *bbolt.Tx) error {
		b, _ := tx.CreateBucket([]byte("pad"))

		return b.Put([]byte("k"), make([]byte, 1<<20))
	})
	db.Update(func(tx *bbolt.Tx) error { return tx.DeleteBucket([]byte("pad")) })
	db.Close()
}

func (sr *schedRun) open() {
	if sr.cs.Kind == "bolt" {
		padBolt(sr.dir + "/h.db")
		t, err := mercure.NewBoltTransport(zapNop(), sr.dir+"/h.db", "", uint64(sr.cs.Size), 1)
		if err != nil {
			panic(err)
		}
		sr.bolt, sr.tr = t, t
	} else {
		sr.local = mercure.NewLocalTransport()
		sr.tr = sr.local
	}
}

func (sr *schedRun) emit(line, got string) {
	if os.Getenv("VERIF_SCHED_TRACE") != "" {
		fmt.Fprintf(os.Stderr, "%s => %s\n", strings.ReplaceAll(line, "\t", " "), got)
	}
	sr.lines = append(sr.lines, line)
	sr.impl = append(sr.impl, got)
}

func retString(err error) string {
	switch {
	case err == nil:
		return "ok"
	case err == mercure.ErrClosedTransport:
		return "closed"
	default:
		return "dberr"
	}
}

func (sr *schedRun) opFunc(o schedOp, ret *string) func() {
	return func() {
		switch o.Op {
		case "dispatch":
			u := &mercure.Update{Topics: []string{fmt.Sprintf("t%d", o.Topic)}, Event: mercure.Event{ID: fmt.Sprintf("u%d", o.ID)}}
			*ret = retString(sr.tr.Dispatch(u))
		case "dispatchfail":
			// a publication whose write transaction fails (bbolt refuses a key over 32 KiB): refused, and — to the
			// model — without any effect. Meaningful on the persistent transport only.
			if sr.bolt != nil {
				u := &mercure.Update{Topics: []string{fmt.Sprintf("t%d", o.Topic)}, Event: mercure.Event{ID: strings.Repeat("k", 40000)}}
				*ret = retString(sr.tr.Dispatch(u))
			}
		case "add":
			*ret = retString(sr.tr.AddSubscriber(sr.subs[o.Sub]))
		case "remove":
			*ret = retString(sr.tr.RemoveSubscriber(sr.subs[o.Sub]))
		case "close":
			*ret = retString(sr.tr.Close())
		case "list":
			last, subs, _ := sr.tr.(mercure.TransportSubscribers).GetSubscribers()
			var ids []string
			for _, s := range subs {
				for i, x := range sr.subs {
					if &x.Subscriber == s {
						ids = append(ids, h.Itoa(i))
					}
				}
			}
			*ret = "listed:" + last + ":" + strings.Join(ids, ",")
		case "disconnect":
			sr.subs[o.Sub].Disconnect()
			*ret = "ok"
		case "recv":
			verifsched.Yield("recv")
			select {
			case u, ok := <-sr.subs[o.Sub].Receive():
				if ok {
					sr.recvd[o.Sub] = append(sr.recvd[o.Sub], u.ID)
					*ret = "got:" + u.ID
				} else {
					*ret = "got:-:0"
				}
			default:
				*ret = "got:-:1"
			}
		}
	}
}

func opLine(o schedOp) string {
	switch o.Op {
	case "dispatch":
		return h.Line("sys.op", "dispatch", h.Itoa(o.ID), h.Itoa(o.Topic))
	case "add", "remove", "disconnect", "recv":
		return h.Line("sys.op", o.Op, h.Itoa(o.Sub))
	default:
		return h.Line("sys.op", o.Op)
	}
}

func (sr *schedRun) obs() string {
	var ss []string
	for i, s := range sr.subs {
		disc, ready, lq, resp := mercure.VerifSubState(s)
		// peek the channel: drain and remember (the run is over)
		var out []string
		closed := false
	loop:
		for {
			select {
			case u, ok := <-s.Receive():
				if !ok {
					closed = true

					break loop
				}
				out = append(out, u.ID)
			default:
				break loop
			}
		}
		ss = append(ss, fmt.Sprintf("recv=[%s] out=[%s] closed=%s disc=%s ready=%s lq=[%s] resp=%s", strings.Join(sr.recvd[i], ","), strings.Join(out, ","),
			h.B(closed), h.B(disc), h.B(ready), strings.Join(lq, ","), resp))
	}
	last, subs, _ := sr.tr.(mercure.TransportSubscribers).GetSubscribers()
	var idx []string
	for _, s := range subs {
		for i, x := range sr.subs {
			if &x.Subscriber == s {
				idx = append(idx, h.Itoa(i))
			}
		}
	}
	db := ""
	lastSeq := 0
	if sr.bolt != nil {
		func() {
			defer func() { recover() }()
			seqs, ids := mercure.VerifBoltKeys(sr.bolt)
			// the value stored under a key is the update that was accepted under that id
			if ks, vs := mercure.VerifBoltValueIDs(sr.bolt); len(ks) == len(vs) {
				for i := range ks {
					if ks[i] != vs[i] {
						for _, k := range []string{"C09", "C10", "C07"} {
							sr.extra = append(sr.extra, h.Violation{Key: k + ":stored-value-is-not-the-accepted-update",
								What: fmt.Sprintf("the history entry with key id %q holds a value whose id is %q: what a replay delivers is not what was accepted", ks[i], vs[i])})
						}

						break
					}
				}
			}
			var p []string
			for i := range seqs {
				p = append(p, fmt.Sprintf("%d:%s", seqs[i], ids[i]))
			}
			db = strings.Join(p, ",")
		}()
		lastSeq = int(mercure.VerifBoltLastSeq(sr.bolt))
	}
	closed := retString(sr.trClosedProbe()) == "closed"
	if closed && sr.bolt != nil {
		// the file is released: read it back with bbolt directly
		if d, err := bbolt.Open(sr.dir+"/h.db", 0o600, &bbolt.Options{ReadOnly: true}); err == nil {
			var p []string
			d.View(func(tx *bbolt.Tx) error {
				if b := tx.Bucket([]byte("updates")); b != nil {
					b.ForEach(func(k, _ []byte) error {
						p = append(p, fmt.Sprintf("%d:%s", binary.BigEndian.Uint64(k[:8]), k[8:]))

						return nil
					})
				}

				return nil
			})
			d.Close()
			db = strings.Join(p, ",")
		}
	}
	pn := "-"
	if len(sr.panics) > 0 {
		pn = sr.panics[0]
	}

	return fmt.Sprintf("subs=%s index=%s db=%s last=%s lastSeq=%d closed=%s panic=%s", strings.Join(ss, ";"), strings.Join(idx, ","), db, last, lastSeq, h.B(closed), pn)
}

// trClosedProbe: RemoveSubscriber of an unknown subscriber only tests the closed flag.
func (sr *schedRun) trClosedProbe() error {
	s := mercure.NewLocalSubscriber("", zapNop(), sr.store)

	return sr.tr.RemoveSubscriber(s)
}

func runSchedCase(c *h.Ctx, r *h.Report, cs schedCase) (disagreed bool) {
	_, d := runSchedCaseT(c, r, cs)

	return d
}

// runSchedCaseT also returns the executed trace (thread per non-blocked step) of the last phase.
func runSchedCaseT(c *h.Ctx, r *h.Report, cs schedCase) (trace []int, disagreed bool) {
	sr := &schedRun{cs: cs}
	defer func() { trace = sr.executed }()
	if cs.Kind == "bolt" {
		sr.dir = scratchDir()
		defer os.RemoveAll(sr.dir)
	}
	sr.store, _ = mercure.NewTopicSelectorStoreLRU(0, 0)
	verifsched.SetBufLen(cs.Cap)
	sr.open()
	sr.emit(h.Line("sys.new", cs.Kind, h.Itoa(cs.Size), "facts"), "ok")
	steps := 0
	for pi, ph := range cs.Phases {
		sr.atRemoval = nil
		if ph.Restart {
			sr.tr.Close()
			sr.open()
			sr.emit("sys.restart", "ok")
			sr.subs, sr.recvd = nil, nil
		} else if pi > 0 {
			// same transport, threads of the previous phase are gone
		}
		for _, sb := range ph.Subs {
			leid := ""
			switch sb.Req {
			case "-":
			case "e":
				leid = "earliest"
			default:
				leid = "u" + sb.Req
			}
			s := mercure.NewLocalSubscriber(leid, zapNop(), sr.store)
			var tps, tn []string
			for _, t := range sb.Topics {
				tps = append(tps, fmt.Sprintf("t%d", t))
				tn = append(tn, h.Itoa(t))
			}
			s.SetTopics(tps, nil)
			sr.subs = append(sr.subs, s)
			sr.recvd = append(sr.recvd, nil)
			tl := strings.Join(tn, ",")
			if tl == "" {
				tl = "-"
			}
			sr.emit(h.Line("sys.sub", tl, sb.Req, h.Itoa(cs.Cap)), "ok")
		}
		// sequential set-up (no scheduler installed: Yield is a no-op)
		if len(ph.Pre) > 0 {
			for _, o := range ph.Pre {
				var ret string
				func() {
					defer func() {
						if p := recover(); p != nil {
							msg := fmt.Sprint(p)
							sr.panics = append(sr.panics, msg)
							if strings.Contains(msg, "block for ever") {
								// sequential set-up, nobody else runs: the operation would hang
								sr.dead = true
								sr.deadLabels = append(sr.deadLabels, strings.TrimPrefix(msg, "send would block for ever: "))
								sr.panics = sr.panics[:len(sr.panics)-1]
							}
						}
					}()
					sr.opFunc(o, &ret)()
				}()
				if o.Op == "dispatchfail" {
					continue // refused: nothing happened as far as the model is concerned
				}
				sr.emit(opLine(o), "ok")
			}
			sr.emit("sys.runall", "ok")
		}
		if sr.dead || len(sr.panics) > 0 {
			break
		}
		// concurrent part
		sc := verifsched.New()
		verifsched.Install(sc)
		n := len(ph.Ops)
		rets := make([]string, n)
		done := make([]bool, n)
		label := make([]string, n)
		tbase := len(sr.traces)
		for i, o := range ph.Ops {
			sc.Spawn(sr.opFunc(o, &rets[i]))
			sr.emit(opLine(o), "ok")
			sr.traces = append(sr.traces, opTrace{op: o, phase: pi, first: -1, end: -1})
		}
		show := func(i int) string {
			if done[i] {
				return "done:" + rets[i]
			}

			return label[i]
		}
		removeReturned := func(i int) {
			o := ph.Ops[i]
			if o.Op != "remove" || rets[i] != "ok" || o.Sub >= len(sr.subs) {
				return
			}
			// C05: what a subscriber holds when its removal returns is all it will ever get — unless its
			// own registration (history replay) is still under way
			registered := false
			for _, p := range ph.Pre {
				registered = registered || (p.Op == "add" && p.Sub == o.Sub)
			}
			for _, t := range sr.traces[tbase:] {
				if t.op.Op == "add" && t.op.Sub == o.Sub && t.end >= 0 {
					registered = true
				}
				if t.op.Op == "add" && t.op.Sub == o.Sub && t.end < 0 && t.first >= 0 {
					registered = false

					break
				}
			}
			if registered {
				if sr.atRemoval == nil {
					sr.atRemoval = map[int]int{}
				}
				sr.atRemoval[o.Sub] = len(sr.recvd[o.Sub]) + mercure.VerifSubPending(sr.subs[o.Sub])
			}
		}
		closeReturned := func(i int) {
			// C15 at the instant a Close call returns (every other thread is parked): whatever was
			// registered before THIS call began has been ended — also when another Close is under way
			me := sr.traces[tbase+i]
			was := map[int]bool{}
			for _, o := range ph.Pre {
				if o.Op == "add" {
					was[o.Sub] = true
				}
			}
			// "the close" is the first Close call: a registration that overlaps it is covered by neither
			// clause of the property (DESIGN §15.5, observations), whichever Close call returns later
			began := me.first
			for _, t := range sr.traces[tbase:] {
				if t.op.Op == "close" && t.first >= 0 && t.first < began {
					began = t.first
				}
			}
			for _, t := range sr.traces[tbase:] {
				if t.op.Op == "add" && t.ret == "ok" && t.end >= 0 && began >= 0 && t.end < began {
					was[t.op.Sub] = true
				}
			}
			for _, t := range sr.traces[tbase:] {
				// a subscriber whose removal has started is no longer (reliably) registered
				if t.op.Op == "remove" && t.first >= 0 {
					delete(was, t.op.Sub)
				}
			}
			for _, o := range ph.Pre {
				if o.Op == "remove" {
					delete(was, o.Sub)
				}
			}
			for si := range was {
				if si < len(sr.subs) && !mercure.VerifSubDisconnected(sr.subs[si]) {
					sr.extra = append(sr.extra, h.Violation{Key: "C15:close-returned-before-registered-subscriber-was-ended",
						What: fmt.Sprintf("a Close call returned (step %d) while subscriber %d, registered before that call began, still has an open stream", steps, si)})
				}
			}
		}
		for i := range ph.Ops {
			ev := sc.Step(i) // run to the first synchronisation operation
			if ev.Done {
				done[i] = true
				if ph.Ops[i].Op == "close" && ev.Panic == "" {
					closeReturned(i)
				}
				removeReturned(i)
			}
			label[i] = ev.Label
		}
		var ls []string
		for i := range ph.Ops {
			ls = append(ls, show(i))
		}
		sr.emit("sys.labels", strings.Join(ls, " "))
		sched := append([]int(nil), ph.Schedule...)
		blockedSet := map[int]bool{}
		lastPick := 0
		sr.executed = nil
		for k := 0; ; k++ {
			all := true
			for i := range done {
				all = all && done[i]
			}
			if all || len(sr.panics) > 0 {
				break
			}
			var i int
			if k < len(sched) {
				i = sched[k] % n
			} else if ph.Sticky {
				i = lastPick
				if done[i] || blockedSet[i] {
					for j := 0; j < n; j++ {
						if !done[j] && !blockedSet[j] {
							i = j

							break
						}
					}
				}
			} else {
				i = k % n
			}
			if done[i] {
				continue
			}
			lastPick = i
			ev := sc.Step(i)
			steps++
			if !ev.Blocked && sr.traces[tbase+i].first < 0 {
				sr.traces[tbase+i].first = steps
			}
			if ev.Done {
				sr.traces[tbase+i].end = steps
				sr.traces[tbase+i].ret = rets[i]
				if ph.Ops[i].Op == "close" && ev.Panic == "" {
					closeReturned(i)
				}
				if ev.Panic == "" {
					removeReturned(i)
				}
			}
			moved := "1"
			if ev.Blocked {
				moved = "0"
				blockedSet[i] = true
			} else {
				blockedSet = map[int]bool{}
				sr.executed = append(sr.executed, i)
			}
			pn := "-"
			if ev.Panic != "" {
				sr.panics = append(sr.panics, ev.Panic)
				if ph.Ops[i].Op == "dispatch" {
					// a publication that does not complete: whatever a subscriber does or fails to do (here: it is
					// being disconnected) must not abort the hub's publish, nor keep the update from the subscribers behind it
					sr.extra = append(sr.extra, h.Violation{Key: "C13:publication-aborted-by-a-subscriber-being-disconnected",
						What: fmt.Sprintf("Dispatch of update %d panics (%s) while a subscriber is disconnected concurrently: the publication does not complete and subscribers after it in the fan-out are not served", ph.Ops[i].ID, ev.Panic)})
				}
				pn = ev.Panic
				done[i] = true
				rets[i] = "panic"
			} else if ev.Done {
				done[i] = true
			}
			label[i] = ev.Label
			next := show(i)
			if ev.Panic != "" {
				// the model reports the panic and leaves the thread where it was
				sr.emit(h.Line("sys.step", h.Itoa(i)), "PANIC "+pn)
			} else {
				sr.emit(h.Line("sys.step", h.Itoa(i)), fmt.Sprintf("moved=%s next=%s panic=%s", moved, next, pn))
			}
			unfinished := 0
			for j := range done {
				if !done[j] {
					unfinished++
				}
			}
			if unfinished > 0 && len(blockedSet) == unfinished {
				// every unfinished thread has tried and failed to acquire its lock since the last progress
				sr.dead = true
				for j := range done {
					if !done[j] {
						sr.deadLabels = append(sr.deadLabels, label[j])
						if ph.Ops[j].Op == "close" {
							sr.deadClose = true // a Close call is among the threads that wait for ever
						}
					}
				}

				break
			}
			if steps > 5000 {
				sr.dead = true

				break
			}
		}
		verifsched.Install(nil)
		if sr.dead || len(sr.panics) > 0 {
			break
		}
	}
	finalObs := ""
	if !sr.dead && len(sr.panics) == 0 {
		finalObs = sr.obs()
		if os.Getenv("VH_DEBUG") != "" {
			fmt.Fprintln(os.Stderr, "DEBUG obs:", finalObs, "atRemoval:", sr.atRemoval, "dead:", sr.dead)
		}
		sr.emit("sys.obs", finalObs)
	}
	func() {
		defer func() { recover() }()
		if len(sr.panics) == 0 && !sr.dead {
			sr.tr.Close()
		}
	}()
	ans := c.Driver.Ask(sr.lines)
	for i := range sr.lines {
		r.Evaluations++
		want := sr.impl[i]
		got := ans[i]
		if strings.HasPrefix(want, "PANIC ") {
			// the model must report the same panic
			if !strings.Contains(got, "panic="+strings.TrimPrefix(want, "PANIC ")) {
				r.Disagree(h.Disagreement{Class: "sys.step(panic)", Case: cs, Model: got, Impl: want, At: i, Ops: clipAll(sr.lines[max(0, i-6) : i+1])})
				disagreed = true
			}

			break
		}
		if got != want {
			r.Disagree(h.Disagreement{Class: "sys." + strings.SplitN(strings.TrimPrefix(sr.lines[i], "sys."), "\t", 2)[0], Case: cs, Model: clip(got), Impl: clip(want), At: i, Ops: clipAll(sr.lines[max(0, i-6) : i+1])})
			disagreed = true

			break
		}
	}
	// the properties' oracles on the implementation alone
	rp := map[string]any{"family": "sched", "case": cs}
	for _, p := range sr.panics {
		r.Violate(h.Violation{Key: "C14:panic:" + p, What: "a schedule of transport/subscriber operations panics: " + p, Replay: rp})
		if strings.Contains(p, "close of closed channel") {
			// the subscriber's channel is closed twice (Disconnect and the overflow path, or two Disconnects): when the
			// side that panics is the handler's shutdown, RemoveSubscriber and SubscriberDisconnected never run — the
			// connected-subscribers gauge stays one too high for ever (C20), the subscriber stays listed
			r.Violate(h.Violation{Key: "C20:shutdown-aborted-by-a-double-close", What: "the subscriber channel is closed twice: " + p + " (a shutdown aborted by this panic never decrements the gauge)", Replay: rp})
		}
	}
	if len(sr.panics) > 0 {
		for _, v := range sr.extra {
			if strings.HasPrefix(v.Key, "C13:publication-aborted") {
				v.Replay = rp
				r.Violate(v)
			}
		}
	}
	if finalObs != "" && len(sr.panics) == 0 {
		for _, v := range schedOracles(sr, finalObs) {
			v.Replay = rp
			r.Violate(v)
		}
	}
	if sr.dead {
		r.Violate(h.Violation{Key: "C14:deadlock", What: fmt.Sprintf("no operation can make progress: every unfinished thread is waiting (%s)", strings.Join(sr.deadLabels, ", ")), Replay: rp})
		for _, l := range sr.deadLabels {
			if strings.Contains(l, "liveMutex") || strings.Contains(l, "outMutex") {
				// a thread waits for ever for one of a subscriber's own mutexes: the subscriber is neither served nor cut
				// off, whatever operation holds it (C13: a slow or dead subscriber is cut off, not starved)
				r.Violate(h.Violation{Key: "C13:operation-blocked-forever-on-a-subscriber-mutex", What: "an operation waits for ever before " + l + " (every unfinished thread waits: " + strings.Join(sr.deadLabels, ", ") + ")", Replay: rp})

				break
			}
		}
		if sr.deadClose {
			// C15: closing the hub ends every stream and returns — here the Close call itself waits for ever
			r.Violate(h.Violation{Key: "C15:close-never-returns", What: fmt.Sprintf("Close is blocked for ever, with every other unfinished operation (%s): the streams it has not reached are never ended, the database is never released", strings.Join(sr.deadLabels, ", ")), Replay: rp})
		}
		for _, l := range sr.deadLabels {
			if strings.HasSuffix(l, "<-") {
				// not a lock: a hub operation waits for ever on a channel of a subscriber (C13: nothing a subscriber
				// does or fails to do may block the hub; C15: such a thread also keeps Close from finishing)
				r.Violate(h.Violation{Key: "C13:hub-operation-blocked-forever-on-a-subscriber-channel", What: "a hub operation is blocked for ever before " + l + " while every other thread waits", Replay: rp})
				r.Violate(h.Violation{Key: "C15:hub-operation-blocked-forever-on-a-subscriber-channel", What: "a hub operation is blocked for ever before " + l + " while every other thread waits", Replay: rp})

				break
			}
		}
	}
	r.Count(fmt.Sprintf("steps:%d-%d", steps/20*20, steps/20*20+19))

	return sr.executed, disagreed
}

// enumerateSchedules: systematic exploration of every schedule of a small configuration with at most
// `bound` preemptions (a preemption = switching away from a thread that could continue).
// pairConfigs: two operations on one registered subscriber, the one with the check-then-act window first, so that
// a single preemption (inside the window) followed by the whole of the other operation is enough.
func pairConfigs() []schedCase {
	d := func(id int) schedOp { return schedOp{Op: "dispatch", ID: id, Topic: 0} }
	var out []schedCase
	for _, kind := range []string{"bolt", "local"} {
		for _, capacity := range []int{1, 1000} {
			sub := []schedSub{{Topics: []int{0}, Req: "-"}}
			two := []schedSub{{Topics: []int{0}, Req: "-"}, {Topics: []int{0}, Req: "-"}}
			pre := []schedOp{{Op: "add", Sub: 0}}
			pre2 := []schedOp{{Op: "add", Sub: 0}, {Op: "add", Sub: 1}}
			for _, ops := range [][]schedOp{
				{d(1), {Op: "disconnect", Sub: 0}}, {{Op: "disconnect", Sub: 0}, d(1)},
				{d(1), {Op: "remove", Sub: 0}}, {d(1), {Op: "close"}}, {{Op: "close"}, d(1)},
				{{Op: "disconnect", Sub: 0}, {Op: "disconnect", Sub: 0}}, {d(1), d(2)}, {{Op: "list"}, {Op: "close"}},
			} {
				out = append(out, schedCase{Kind: kind, Cap: capacity, Phases: []schedPhase{{Subs: sub, Pre: pre, Ops: ops}}})
			}
			if capacity == 1 {
				// the buffer is already full: the next publication overflows it (the transport ends the stream) while the
				// client side ends it too
				full := []schedOp{{Op: "add", Sub: 0}, d(1)}
				out = append(out, schedCase{Kind: kind, Cap: capacity, Phases: []schedPhase{{Subs: sub, Pre: full, Ops: []schedOp{d(2), {Op: "disconnect", Sub: 0}}}}},
					schedCase{Kind: kind, Cap: capacity, Phases: []schedPhase{{Subs: sub, Pre: full, Ops: []schedOp{{Op: "disconnect", Sub: 0}, d(2)}}}})
			}
			// a second subscriber behind the first: what the first one's end does to the fan-out
			out = append(out, schedCase{Kind: kind, Cap: capacity, Phases: []schedPhase{{Subs: two, Pre: pre2, Ops: []schedOp{d(1), {Op: "disconnect", Sub: 0}}}}})
			req := "1"
			if kind == "local" {
				req = "-"
			}
			if kind == "bolt" {
				// a registration with the id of the last stored update, racing a publication, right after a publication
				// whose write transaction failed
				out = append(out, schedCase{Kind: kind, Cap: capacity, Phases: []schedPhase{{Pre: []schedOp{d(1), {Op: "dispatchfail"}}, Subs: []schedSub{{Topics: []int{0}, Req: req}}, Ops: []schedOp{{Op: "add", Sub: 0}, d(2)}}}})
			}
			if kind == "bolt" {
				// a registration asking for an id that is not in the history (the whole history is scanned, the
				// "can't find" branch is taken inside the read transaction), racing Close
				out = append(out, schedCase{Kind: kind, Cap: capacity, Phases: []schedPhase{{Pre: []schedOp{d(1)}, Subs: []schedSub{{Topics: []int{0}, Req: "77"}}, Ops: []schedOp{{Op: "add", Sub: 0}, {Op: "close"}}}}},
					schedCase{Kind: kind, Cap: capacity, Phases: []schedPhase{{Pre: []schedOp{d(1)}, Subs: []schedSub{{Topics: []int{0}, Req: "77"}}, Ops: []schedOp{{Op: "close"}, {Op: "add", Sub: 0}}}}})
			}
			out = append(out, schedCase{Kind: kind, Cap: capacity, Phases: []schedPhase{{Pre: []schedOp{d(1)}, Subs: []schedSub{{Topics: []int{0}, Req: req}}, Ops: []schedOp{{Op: "add", Sub: 0}, {Op: "disconnect", Sub: 0}}}}},
				schedCase{Kind: kind, Cap: capacity, Phases: []schedPhase{{Pre: []schedOp{d(1)}, Subs: []schedSub{{Topics: []int{0}, Req: req}}, Ops: []schedOp{{Op: "add", Sub: 0}, {Op: "close"}}}}})
		}
	}

	return out
}

func enumerateSchedules(c *h.Ctx, r *h.Report, base schedCase, bound int) int {
	last := len(base.Phases) - 1
	n := len(base.Phases[last].Ops)
	seen := map[string]bool{}
	count := 0
	var explore func(prefix []int, from, left int)
	explore = func(prefix []int, from, left int) {
		cs := base
		cs.Phases = append([]schedPhase(nil), base.Phases...)
		ph := cs.Phases[last]
		ph.Sticky = true
		ph.Schedule = append([]int(nil), prefix...)
		cs.Phases[last] = ph
		trace, _ := runSchedCaseT(c, r, cs)
		key := fmt.Sprint(trace)
		if seen[key] {
			return
		}
		seen[key] = true
		count++
		r.Nontrivial(fmt.Sprint(cs.Kind, cs.Cap, cs.Size, trace))
		if left == 0 {
			return
		}
		for p := from; p < len(trace); p++ {
			for t := 0; t < n; t++ {
				if t == trace[p] {
					continue
				}
				np := append(append([]int(nil), trace[:p]...), t)
				explore(np, p+1, left-1)
			}
		}
	}
	explore(nil, 0, bound)

	return count
}

// smallConfigs: the configurations enumerated systematically in the thorough tier.
func smallConfigs() []schedCase {
	d := func(id int) schedOp { return schedOp{Op: "dispatch", ID: id, Topic: 0} }
	var out []schedCase
	for _, kind := range []string{"bolt", "local"} {
		for _, capacity := range []int{1, 1000} {
			req := "1"
			if kind == "local" {
				req = "-"
			}
			out = append(out,
				schedCase{Kind: kind, Cap: capacity, Phases: []schedPhase{{Pre: []schedOp{d(1)}, Subs: []schedSub{{Topics: []int{0}, Req: req}}, Ops: []schedOp{{Op: "add", Sub: 0}, d(2)}}}},
				schedCase{Kind: kind, Cap: capacity, Phases: []schedPhase{{Pre: []schedOp{d(1)}, Subs: []schedSub{{Topics: []int{0}, Req: req}}, Ops: []schedOp{{Op: "add", Sub: 0}, d(2), {Op: "close"}}}}},
				schedCase{Kind: kind, Cap: capacity, Phases: []schedPhase{{Subs: []schedSub{{Topics: []int{0}, Req: "-"}}, Pre: []schedOp{{Op: "add", Sub: 0}}, Ops: []schedOp{{Op: "disconnect", Sub: 0}, {Op: "close"}, d(1)}}}},
				schedCase{Kind: kind, Cap: capacity, Phases: []schedPhase{{Subs: []schedSub{{Topics: []int{0}, Req: "-"}}, Pre: []schedOp{{Op: "add", Sub: 0}}, Ops: []schedOp{d(1), d(2), {Op: "recv", Sub: 0}}}}},
			)
		}
	}
	// after a restart
	out = append(out, schedCase{Kind: "bolt", Cap: 1000, Phases: []schedPhase{
		{Pre: []schedOp{d(1), d(2)}, Ops: []schedOp{{Op: "list"}}, Schedule: []int{0}},
		{Restart: true, Subs: []schedSub{{Topics: []int{0}, Req: "2"}}, Ops: []schedOp{{Op: "add", Sub: 0}, d(3)}}}})

	return out
}

// genJunctionCase targets the replay/live junction: a reconnecting subscriber (Last-Event-ID =
// some stored id, often the last one, or 'earliest'), registered concurrently with 1-2 publishes,
// optionally right after a restart, with the publish placed between registration and the history
// scan in a good share of the schedules.
func genJunctionCase(rr *h.Rand) schedCase {
	cs := schedCase{Kind: "bolt", Cap: h.Pick(rr, []int{1, 1, 2, 3, 1000}), Size: h.Pick(rr, []int{0, 0, 0, 1, 2})}
	nextID := 1
	var first schedPhase
	hist := rr.Intn(4)
	for k := 0; k < hist; k++ {
		first.Pre = append(first.Pre, schedOp{Op: "dispatch", ID: nextID, Topic: 0})
		nextID++
	}
	mk := func(restart bool) schedPhase {
		ph := schedPhase{Restart: restart}
		req := "e"
		if nextID > 1 && rr.Chance(3, 4) {
			req = h.Itoa(nextID - 1) // the last stored id
			if rr.Chance(1, 3) {
				req = h.Itoa(1 + rr.Intn(nextID-1))
			}
		}
		ph.Subs = []schedSub{{Topics: []int{0}, Req: req}}
		ph.Ops = []schedOp{{Op: "add", Sub: 0}, {Op: "dispatch", ID: nextID, Topic: 0}}
		nextID++
		for extra := rr.Intn(3); extra > 0; extra-- {
			ph.Ops = append(ph.Ops, schedOp{Op: "dispatch", ID: nextID, Topic: 0})
			nextID++
		}
		if rr.Chance(1, 3) {
			ph.Ops = append(ph.Ops, schedOp{Op: "recv", Sub: 0})
		}
		// the adder runs k steps (3 = just registered, before db.View), then a publisher runs to the end
		k := h.Pick(rr, []int{3, 3, 3, 2, 4, 5, 1})
		for i := 0; i < k; i++ {
			ph.Schedule = append(ph.Schedule, 0)
		}
		for i := 0; i < 14; i++ {
			ph.Schedule = append(ph.Schedule, 1)
		}
		if len(ph.Ops) > 2 && ph.Ops[2].Op == "dispatch" && rr.Bool() {
			for i := 0; i < 14; i++ { // a second publisher also runs before the subscriber goes live
				ph.Schedule = append(ph.Schedule, 2)
			}
		}
		for i := 0; i < 40; i++ {
			ph.Schedule = append(ph.Schedule, rr.Intn(len(ph.Ops)))
		}

		return ph
	}
	if rr.Chance(1, 3) {
		first.Ops = []schedOp{{Op: "list"}}
		first.Schedule = []int{0}
		cs.Phases = []schedPhase{first, mk(true)}
	} else {
		ph := mk(false)
		ph.Pre = first.Pre
		cs.Phases = []schedPhase{ph}
	}

	return cs
}

// genCloseCase: 2-4 registered subscribers, some of them already ended (disconnected, or overflowed with a
// small buffer) but not yet removed from the list, then Close concurrently with other operations: C15's
// "every subscriber registered before the close began has its stream ended".
func genCloseCase(rr *h.Rand) schedCase {
	cs := schedCase{Kind: h.Pick(rr, []string{"bolt", "local"}), Cap: h.Pick(rr, []int{1, 2, 1000})}
	ph := schedPhase{}
	ns := 2 + rr.Intn(3)
	for s := 0; s < ns; s++ {
		ph.Subs = append(ph.Subs, schedSub{Topics: []int{rr.Intn(2)}, Req: "-"})
		ph.Pre = append(ph.Pre, schedOp{Op: "add", Sub: s})
	}
	nextID := 1
	if cs.Cap < 1000 && rr.Bool() { // the subscribers of topic 0 overflow
		for k := 0; k <= cs.Cap; k++ {
			ph.Pre = append(ph.Pre, schedOp{Op: "dispatch", ID: nextID, Topic: 0})
			nextID++
		}
	}
	for s := 0; s < ns-1; s++ {
		if rr.Chance(1, 3) {
			ph.Pre = append(ph.Pre, schedOp{Op: "disconnect", Sub: s})
		}
	}
	ph.Ops = []schedOp{{Op: "close"}}
	if rr.Bool() { // two overlapping Close calls: the second must not return before the first has finished
		ph.Ops = append(ph.Ops, schedOp{Op: "close"})
	}
	for k := rr.Intn(3); k > 0; k-- {
		switch rr.Intn(4) {
		case 0:
			ph.Ops = append(ph.Ops, schedOp{Op: "dispatch", ID: nextID, Topic: rr.Intn(2)})
			nextID++
		case 1:
			ph.Ops = append(ph.Ops, schedOp{Op: "disconnect", Sub: rr.Intn(ns)})
		case 2:
			ph.Ops = append(ph.Ops, schedOp{Op: "remove", Sub: rr.Intn(ns)})
		default:
			ph.Ops = append(ph.Ops, schedOp{Op: "list"})
		}
	}
	for k := 0; k < 40; k++ {
		t := rr.Intn(len(ph.Ops))
		for b := 1 + rr.Intn(6); b > 0; b-- {
			ph.Schedule = append(ph.Schedule, t)
		}
	}
	cs.Phases = []schedPhase{ph}

	return cs
}

// genRemoveCase: registered subscribers, publications racing with the removal of one of them (C05: a removed
// subscriber receives nothing more; the recipient set is decided atomically with the hand-over).
func genRemoveCase(rr *h.Rand) schedCase {
	cs := schedCase{Kind: h.Pick(rr, []string{"bolt", "local", "local"}), Cap: h.Pick(rr, []int{2, 3, 1000})}
	ph := schedPhase{}
	ns := 2 + rr.Intn(2)
	for s := 0; s < ns; s++ {
		ph.Subs = append(ph.Subs, schedSub{Topics: []int{0}, Req: "-"})
		ph.Pre = append(ph.Pre, schedOp{Op: "add", Sub: s})
	}
	nextID := 1
	ph.Ops = []schedOp{{Op: "dispatch", ID: nextID, Topic: 0}, {Op: "remove", Sub: rr.Intn(ns)}}
	nextID++
	if rr.Bool() {
		ph.Ops = append(ph.Ops, schedOp{Op: "dispatch", ID: nextID, Topic: 0})
	}
	// the publisher gets as far as the lookup of the recipients, then the removal runs to its end
	k := h.Pick(rr, []int{3, 3, 4, 2, 5})
	for i := 0; i < k; i++ {
		ph.Schedule = append(ph.Schedule, 0)
	}
	for i := 0; i < 6; i++ {
		ph.Schedule = append(ph.Schedule, 1)
	}
	for i := 0; i < 40; i++ {
		ph.Schedule = append(ph.Schedule, rr.Intn(len(ph.Ops)))
	}
	cs.Phases = []schedPhase{ph}

	return cs
}

func genSchedCase(rr *h.Rand) schedCase {
	if rr.Chance(1, 4) {
		return genJunctionCase(rr)
	}
	if rr.Chance(1, 10) {
		return genRemoveCase(rr)
	}
	if rr.Chance(1, 6) {
		return genCloseCase(rr)
	}
	cs := schedCase{Kind: h.Pick(rr, []string{"bolt", "bolt", "local"}), Cap: h.Pick(rr, []int{1, 2, 3, 1000})}
	if cs.Kind == "bolt" && rr.Chance(1, 3) {
		cs.Size = 1 + rr.Intn(3)
	}
	nextID := 1
	nsub := 0
	nph := 1
	if cs.Kind == "bolt" && rr.Chance(1, 3) {
		nph = 2
	}
	for p := 0; p < nph; p++ {
		ph := schedPhase{Restart: p > 0}
		// history
		for k := rr.Intn(4); k > 0; k-- {
			ph.Pre = append(ph.Pre, schedOp{Op: "dispatch", ID: nextID, Topic: rr.Intn(2)})
			nextID++
		}
		base := nsub
		if p > 0 {
			base, nsub = 0, 0
		}
		ns := 1 + rr.Intn(2)
		for k := 0; k < ns; k++ {
			sb := schedSub{Topics: []int{0}, Req: "-"}
			if rr.Bool() {
				sb.Topics = []int{0, 1}
			}
			if cs.Kind == "bolt" && rr.Chance(2, 3) {
				switch rr.Intn(3) {
				case 0:
					sb.Req = "e"
				default:
					sb.Req = h.Itoa(1 + rr.Intn(max(nextID-1, 1)))
				}
			}
			ph.Subs = append(ph.Subs, sb)
			nsub++
		}
		// some subscribers are registered up front, the others join concurrently
		joined := map[int]bool{}
		for s := base; s < nsub; s++ {
			if rr.Chance(1, 3) {
				ph.Pre = append(ph.Pre, schedOp{Op: "add", Sub: s})
				joined[s] = true
			}
		}
		nops := 2 + rr.Intn(3)
		for k := 0; k < nops; k++ {
			switch x := rr.Intn(12); {
			case x < 4:
				ph.Ops = append(ph.Ops, schedOp{Op: "dispatch", ID: nextID, Topic: rr.Intn(2)})
				nextID++
			case x < 7:
				s := base + rr.Intn(nsub-base)
				if !joined[s] {
					ph.Ops = append(ph.Ops, schedOp{Op: "add", Sub: s})
					joined[s] = true
				} else {
					ph.Ops = append(ph.Ops, schedOp{Op: "disconnect", Sub: s})
				}
			case x < 8:
				ph.Ops = append(ph.Ops, schedOp{Op: "close"})
			case x < 9:
				ph.Ops = append(ph.Ops, schedOp{Op: "remove", Sub: base + rr.Intn(nsub-base)})
			case x < 10:
				ph.Ops = append(ph.Ops, schedOp{Op: "list"})
			case x < 11:
				ph.Ops = append(ph.Ops, schedOp{Op: "disconnect", Sub: base + rr.Intn(nsub-base)})
			default:
				ph.Ops = append(ph.Ops, schedOp{Op: "recv", Sub: base + rr.Intn(nsub-base)})
			}
		}
		for k := 0; k < 60; k++ {
			// bursts: stay on one thread for a while (few preemptions), then switch
			t := rr.Intn(len(ph.Ops))
			for b := 1 + rr.Intn(6); b > 0; b-- {
				ph.Schedule = append(ph.Schedule, t)
			}
		}
		cs.Phases = append(cs.Phases, ph)
	}

	return cs
}

func runSched(c *h.Ctx, r *h.Report) {
	// one thread of the schedule runs at a time anyway; a single P also makes sync.Pool reuse (and so any
	// aliasing of pooled objects between operations) deterministic
	runtime.GOMAXPROCS(1)
	r.Rule = "controlled schedules at the granularity of synchronisation operations: /repo's bolt.go, local.go and localsubscriber.go are rewritten (go/ast, into a build overlay) so that every lock acquisition, atomic access, channel operation, close, Once.Do, bbolt transaction and subscriber-list call first yields to a cooperative scheduler; exactly one goroutine runs at a time, following a generated schedule (bursts with few preemptions, then round robin; additionally EVERY schedule with at most 1 preemption (quick tier) / 2 preemptions (thorough tier) of 61 small configurations, enumerated systematically). 2-4 concurrent operations from {Dispatch, AddSubscriber (with/without Last-Event-ID), RemoveSubscriber, Close, GetSubscribers, subscriber Disconnect, consumer receive} on both transports, after a sequential prelude (history, registrations, optional restart), channel capacity in {1,2,3,1000}, retention in {0..3}. The Lean model runs as an acceptor: for every step it must predict the next synchronisation label, whether the thread was blocked, the return value, and at the end the whole observable state. Oracles on the implementation alone: no panic, no deadlock. Non-trivial = schedule with at least one preemption inside an operation; distinct by content."
	if c.Replay != "" {
		var rp struct {
			Case schedCase `json:"case"`
		}
		readReplay(c.Replay, &rp)
		runSchedCase(c, r, rp.Case)

		return
	}
	if c.Thorough() {
		total := 0
		for _, cfg := range append(smallConfigs(), pairConfigs()...) {
			total += enumerateSchedules(c, r, cfg, 2)
		}
		r.CountN("systematic:schedules-with-at-most-2-preemptions", total)
	} else {
		// every schedule with at most ONE preemption of the small configurations: the check-then-act windows of
		// two operations on one subscriber
		total := 0
		for _, cfg := range append(smallConfigs(), pairConfigs()...) {
			total += enumerateSchedules(c, r, cfg, 1)
		}
		r.CountN("systematic:schedules-with-at-most-1-preemption", total)
	}
	n := c.Scale(500, 20000)
	for i := 0; i < n; i++ {
		cs := genSchedCase(c.Rand.Fork())
		runSchedCase(c, r, cs)
		r.Nontrivial(fmt.Sprint(cs))
		if i < 3 {
			r.Sample(cs)
		}
	}
}

// schedOracles: the properties' oracles on the implementation's final state alone (last phase).
func schedOracles(sr *schedRun, obs string) (vs []h.Violation) {
	cs := sr.cs
	last := cs.Phases[len(cs.Phases)-1]
	lastPhase := len(cs.Phases) - 1
	f := map[string]string{}
	for _, kv := range strings.Split(obs, " ") {
		if i := strings.IndexByte(kv, '='); i > 0 {
			f[kv[:i]] = kv[i+1:]
		}
	}
	subsPart := obs[len("subs="):strings.Index(obs, " index=")]
	var subs []map[string]string
	if subsPart != "" {
		for _, sp := range strings.Split(subsPart, ";") {
			m := map[string]string{}
			for _, kv := range strings.Split(sp, " ") {
				if i := strings.IndexByte(kv, '='); i > 0 {
					m[kv[:i]] = strings.Trim(kv[i+1:], "[]")
				}
			}
			subs = append(subs, m)
		}
	}
	list := func(s string) []string {
		if s == "" {
			return nil
		}

		return strings.Split(s, ",")
	}
	// topic of every update of the case
	topic := map[string]int{}
	for _, ph := range cs.Phases {
		for _, o := range append(append([]schedOp(nil), ph.Pre...), ph.Ops...) {
			if o.Op == "dispatch" {
				topic[fmt.Sprintf("u%d", o.ID)] = o.Topic
			}
		}
	}
	// DB order (Bolt, no retention): the single total order of accepted updates
	var dbOrder []string
	for _, e := range list(f["db"]) {
		dbOrder = append(dbOrder, e[strings.IndexByte(e, ':')+1:])
	}
	added := map[int]bool{}
	for _, o := range last.Pre {
		if o.Op == "add" {
			added[o.Sub] = true
		}
	}
	for _, t := range sr.traces {
		if t.phase == lastPhase && t.op.Op == "add" && t.ret == "ok" {
			added[t.op.Sub] = true
		}
	}
	for si, sb := range subs {
		if si >= len(last.Subs) {
			break
		}
		spec := last.Subs[si]
		// a registration that returned without error has handed over the negotiated Last-Event-ID: the
		// HTTP handler waits for it before sending the response headers — for ever if it never comes
		if added[si] && spec.Req != "-" && sb["resp"] == "-" {
			for _, k := range []string{"C13", "C14", "C15"} {
				vs = append(vs, h.Violation{Key: k + ":registered-subscriber-never-told-its-last-event-id", What: fmt.Sprintf("AddSubscriber returned without error for subscriber %d (Last-Event-ID %q) but no response id was handed over: its handler would wait for ever before sending headers, its stream is never ended", si, spec.Req)})
			}
		}
		stream := append(list(sb["recv"]), list(sb["out"])...)
		if n, ok := sr.atRemoval[si]; ok && len(stream)+len(list(sb["lq"])) > n {
			vs = append(vs, h.Violation{Key: "C05:removed-subscriber-received-an-update-after-its-removal-returned", What: fmt.Sprintf("subscriber %d held %d update(s) when RemoveSubscriber returned and %d at the end: %v", si, n, len(stream)+len(list(sb["lq"])), stream)})
		}
		seen := map[string]bool{}
		for _, id := range stream {
			if seen[id] {
				vs = append(vs, h.Violation{Key: "C07:update-duplicated-in-stream", What: fmt.Sprintf("subscriber %d (Last-Event-ID %q) received %s twice: stream %v", si, spec.Req, id, stream)})
			}
			seen[id] = true
			ok := false
			for _, t := range spec.Topics {
				ok = ok || t == topic[id]
			}
			if !ok {
				vs = append(vs, h.Violation{Key: "C05:delivered-to-non-matching-subscriber", What: fmt.Sprintf("subscriber %d (topics %v) received %s (topic %d)", si, spec.Topics, id, topic[id])})
			}
		}
		// C13 / C15: a subscriber flagged disconnected must have its stream ended
		if sb["disc"] == "1" && sb["closed"] == "0" {
			vs = append(vs, h.Violation{Key: "C13:disconnected-but-stream-not-ended", What: fmt.Sprintf("subscriber %d is flagged disconnected (its buffer overflowed) but its channel was never closed: its consumer drains the buffer and then waits forever", si)})
		}
		if cs.Kind == "bolt" && cs.Size == 0 && added[si] {
			// gap-free prefix of the ideal sequence: a contiguous run of the matching stored updates
			var F []string
			pos := map[string]int{}
			for _, id := range dbOrder {
				for _, t := range spec.Topics {
					if t == topic[id] {
						pos[id] = len(F)
						F = append(F, id)
					}
				}
			}
			if len(stream) > 0 {
				a, known := pos[stream[0]]
				contiguous := known
				for k, id := range stream {
					if !known || a+k >= len(F) || F[a+k] != id {
						contiguous = false
					}
				}
				if !contiguous && len(seen) == len(stream) {
					// C06: one order for every subscriber and the history; C07: no gap at the junction
					vs = append(vs, h.Violation{Key: "C06:stream-order-differs-from-history-order", What: fmt.Sprintf("subscriber %d (Last-Event-ID %q) received %v; the matching stored updates in history order are %v", si, spec.Req, stream, F)})
					vs = append(vs, h.Violation{Key: "C07:stream-not-a-contiguous-run-of-history", What: fmt.Sprintf("subscriber %d (Last-Event-ID %q) received %v; the matching stored updates in history order are %v", si, spec.Req, stream, F)})
				}
				// start of the run
				wantStart := -1
				switch spec.Req {
				case "e":
					wantStart = 0
				case "-":
				default:
					req := "u" + spec.Req
					for k, id := range dbOrder {
						if id == req {
							wantStart = 0
							for _, later := range dbOrder[:k+1] {
								if _, ok := pos[later]; ok {
									wantStart = pos[later] + 1
								}
							}
						}
					}
				}
				if contiguous && wantStart >= 0 && a != wantStart && (spec.Req == "e" || requestedBeforePhase(cs, spec.Req)) {
					vs = append(vs, h.Violation{Key: "C07:replay-does-not-start-after-requested-id", What: fmt.Sprintf("subscriber %d asked for everything after %q: stream %v, matching history %v", si, spec.Req, stream, F)})
				}
				// completeness at quiescence
				indexed := false
				for _, id := range list(f["index"]) {
					indexed = indexed || id == h.Itoa(si)
				}
				if contiguous && indexed && sb["disc"] == "0" && sb["ready"] == "1" && a+len(stream) != len(F) {
					vs = append(vs, h.Violation{Key: "C06:connected-subscriber-missed-an-update", What: fmt.Sprintf("subscriber %d is connected and ready but its stream %v stops before the end of the matching history %v", si, stream, F)})
					vs = append(vs, h.Violation{Key: "C05:accepted-update-not-handed-to-a-connected-matching-subscriber", What: fmt.Sprintf("subscriber %d is connected, ready and matches, but its stream %v stops before the end of the matching accepted updates %v", si, stream, F)})
				}
			}
		}
	}
	// C15: a publish or subscribe attempted after a Close call has returned is rejected
	for _, c := range sr.traces {
		if c.phase != lastPhase || c.op.Op != "close" || c.end < 0 {
			continue
		}
		for _, t := range sr.traces {
			if t.phase == lastPhase && (t.op.Op == "dispatch" || t.op.Op == "add") && t.first > c.end && t.end >= 0 && t.ret == "ok" {
				vs = append(vs, h.Violation{Key: "C15:operation-after-close-accepted", What: fmt.Sprintf("%s started at step %d, after a Close call had returned at step %d, and was accepted", t.op.Op, t.first, c.end)})
			}
		}
	}
	vs = append(vs, sr.extra...)
	// C15: after Close returned, every subscriber registered before the close BEGAN has its stream ended
	// (a registration that overlaps the close is covered by neither clause of the property)
	if f["closed"] == "1" {
		closeFirst := -1
		for _, t := range sr.traces {
			if t.phase == lastPhase && t.op.Op == "close" && t.first >= 0 && (closeFirst < 0 || t.first < closeFirst) {
				closeFirst = t.first
			}
		}
		before := map[int]bool{}
		for _, o := range last.Pre {
			if o.Op == "add" {
				before[o.Sub] = true
			}
		}
		for _, t := range sr.traces {
			if t.phase == lastPhase && t.op.Op == "add" && t.ret == "ok" && closeFirst >= 0 && t.end >= 0 && t.end < closeFirst {
				before[t.op.Sub] = true
			}
		}
		for _, id := range list(f["index"]) {
			var si int
			fmt.Sscan(id, &si)
			if si < len(subs) && before[si] && subs[si]["closed"] == "0" {
				vs = append(vs, h.Violation{Key: "C15:registered-subscriber-not-ended-by-close", What: fmt.Sprintf("the transport is closed but subscriber %d, registered before the close began, still has an open stream", si)})
			}
		}
	}

	return vs
}

// requestedBeforePhase: the requested id was published in an earlier phase or in the prelude (so a
// client can actually know it).
func requestedBeforePhase(cs schedCase, req string) bool {
	for pi, ph := range cs.Phases {
		for _, o := range ph.Pre {
			if o.Op == "dispatch" && h.Itoa(o.ID) == req {
				return true
			}
		}
		if pi < len(cs.Phases)-1 {
			for _, o := range ph.Ops {
				if o.Op == "dispatch" && h.Itoa(o.ID) == req {
					return true
				}
			}
		}
	}

	return false
}
