import Mercure.Lemmas.Hub
import Mercure.Lemmas.SysSafety
import Mercure.Generated.Facts
/-
  C15 — Closing the hub ends every stream and rejects later operations (operation-level part;
  the interleavings of an in-flight close are in the region-level model).
-/
namespace Mercure.C15
open Mercure

variable (M : Str → Str → Bool) (tokP tokS : Str → Option Claims)

/-- Every subscriber registered before the close has its stream ended. -/
theorem close_ends_registered (st : HubSt) (ho : st.closed = false) :
    ∀ c ∈ (st.close M).conns, c.label ∈ st.index → c.closedOut = true :=
  Mercure.close_ends_registered M st ho

/-- Closing twice is harmless. -/
theorem close_idempotent (st : HubSt) : (st.close M).close M = st.close M :=
  Mercure.close_idempotent M st

/-- A publish attempted after close is rejected and has no effect at all. -/
theorem after_close_publish_rejected (st : HubSt) (r : PubReq) :
    ((st.close M).publish M tokP r).1 = st.close M ∧ ((st.close M).publish M tokP r).2.status ≠ 200 :=
  Mercure.closed_publish_noop M tokP (st.close M) (Mercure.close_closed M st) r

/-- A subscribe attempted after close is rejected and registers nothing. -/
theorem after_close_subscribe_rejected (st : HubSt) (label : Nat) (r : SubReq) :
    let res := (st.close M).connect M tokS label r
    res.2.status ≠ 200 ∧ res.1.conns = (st.close M).conns ∧ res.1.index = (st.close M).index ∧
    res.1.db = (st.close M).db ∧ res.1.accepted = (st.close M).accepted ∧ res.1.closed = true :=
  Mercure.closed_connect_rejected M tokS (st.close M) (Mercure.close_closed M st) label r

/-- The history file can be reopened at once: same content, and the hub reports the id of the last
    stored update as its last event id. -/
theorem reopen_keeps_history (st : HubSt) (hk : st.kind = .bolt) :
    (st.restart M).db = st.db ∧ (st.restart M).seq = st.seq ∧ (st.restart M).closed = false ∧
    (st.restart M).lastEventID = (match st.db.getLast? with | some e => e.2.id | none => earliest) :=
  Mercure.restart_keeps_history M st hk

/-- …and (no retention) it contains every acknowledged update: the stored history is exactly the
    sequence of accepted updates, after any history including closes and restarts. -/
theorem history_is_accepted (cfg : HubCfg) (cap : Nat) (ops : List HubOp) :
    let st := HubSt.reach M tokP tokS cfg .bolt 0 cap ops
    st.db.map (·.2) = st.accepted :=
  Mercure.reach_db_accepted M tokP tokS cfg cap ops

/-! ### region level: Close racing with the other operations (Mercure.Sys, every schedule) -/

open Mercure.Sys in
/-- When Close has returned, every subscriber it found registered is flagged disconnected (its
    stream is ended, or is being ended by the thread whose send overflowed it)… -/
theorem region_close_flags_registered (kind : Sys.Kind) (size : Nat) (subs : List Sys.Sub) (ops : List Sys.Op)
    (wf : Sys.WellFormed subs ops) (sched : List Nat)
    (hd : (Sys.reach Sys.Flags.repaired kind size subs ops sched).tr.onceDone = true) :
    ∀ s ∈ (Sys.reach Sys.Flags.repaired kind size subs ops sched).tr.walked,
      (Sys.getSub (Sys.reach Sys.Flags.repaired kind size subs ops sched) s).disconnected = true :=
  Sys.Safety.close_flags_registered kind size subs ops wf sched hd

/-- …and once every operation has returned its stream is ended, whatever was in flight when the
    close started. -/
theorem region_close_ends_registered (kind : Sys.Kind) (size : Nat) (subs : List Sys.Sub) (ops : List Sys.Op)
    (wf : Sys.WellFormed subs ops) (sched : List Nat)
    (hq : (Sys.reach Sys.Flags.repaired kind size subs ops sched).allDone = true)
    (hd : (Sys.reach Sys.Flags.repaired kind size subs ops sched).tr.onceDone = true) :
    ∀ s ∈ (Sys.reach Sys.Flags.repaired kind size subs ops sched).tr.walked,
      (Sys.getSub (Sys.reach Sys.Flags.repaired kind size subs ops sched) s).outClosed = true :=
  Sys.Safety.close_ends_registered kind size subs ops wf sched hq hd

/-- Closed stays closed, and an operation that starts after the close is rejected with
    ErrClosedTransport and changes neither the transport nor any subscriber. -/
theorem region_after_close_rejected (σ : Sys.Sys) (i : Nat) (th : Sys.Thread) (hth : σ.threads[i]? = some th)
    (hp : σ.panic = none) (hc : σ.tr.closedCh = true)
    (h : (∃ u, th.stack = [.tDispatch u 0 []]) ∨ (∃ s, th.stack = [.tAdd s 0 0 [] .earliest]) ∨ (∃ s, th.stack = [.tRemove s 0])) :
    (Sys.step σ i).σ.tr = σ.tr ∧ (Sys.step σ i).σ.subs = σ.subs ∧
    ((Sys.step σ i).σ.threads[i]?.bind (·.ret)) = some .errClosed :=
  Sys.Safety.after_close_rejected σ i th hth hp hc h

theorem region_closed_is_stable (σ : Sys.Sys) (i : Nat) (h : σ.tr.closedCh = true) :
    (Sys.step σ i).σ.tr.closedCh = true :=
  Sys.Safety.closed_is_stable σ i h

/-- The obligation against /repo (regenerated from local.go / bolt.go on every run): `Close` walks the
    whole subscriber list — the callback it gives to `Walk` is a function literal that only ever returns
    `true` (`Walk` stops at the first `false`) — as the model's close frame, which visits every
    registered subscriber, assumes. -/
theorem repo_close_visits_every_subscriber : Facts.closeWalksAll = true := by decide

end Mercure.C15

#print axioms Mercure.C15.close_ends_registered
#print axioms Mercure.C15.close_idempotent
#print axioms Mercure.C15.after_close_publish_rejected
#print axioms Mercure.C15.after_close_subscribe_rejected
#print axioms Mercure.C15.reopen_keeps_history
#print axioms Mercure.C15.history_is_accepted
#print axioms Mercure.C15.region_close_flags_registered
#print axioms Mercure.C15.region_close_ends_registered
#print axioms Mercure.C15.region_after_close_rejected
#print axioms Mercure.C15.region_closed_is_stable
#print axioms Mercure.C15.repo_close_visits_every_subscriber
