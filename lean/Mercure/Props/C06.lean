import Mercure.Lemmas.Hub
import Mercure.Lemmas.SysStream
import Mercure.Model.Sys
import Mercure.Generated.Facts
/-
  C06 — Live delivery is exactly-once and in one consistent order.

  Two layers: operation level (Mercure.Hub model) and region level (Mercure.Sys: every interleaving
  of any number of concurrent publishers, registrations, disconnections, removals, consumers and
  Close, at the granularity of the synchronisation operations of the code in /repo).
-/
namespace Mercure.C06
open Mercure

/-- Persistent transport: the stored history is exactly the sequence of accepted updates — the one
    total order every stream is a subsequence of — after any history of operations. -/
theorem history_is_the_accepted_order (M : Str → Str → Bool) (tokP tokS : Str → Option Claims)
    (cfg : HubCfg) (cap : Nat) (ops : List HubOp) :
    let st := HubSt.reach M tokP tokS cfg .bolt 0 cap ops
    st.db.map (·.2) = st.accepted :=
  Mercure.reach_db_accepted M tokP tokS cfg cap ops

/-- Everything written to a stream was handed to that connection exactly through the channel
    (nothing appears on a stream that was not enqueued for it). -/
theorem written_was_enqueued (M : Str → Str → Bool) (tokP tokS : Str → Option Claims)
    (cfg : HubCfg) (kind : Kind) (size cap : Nat) (ops : List HubOp) :
    ∀ c ∈ (HubSt.reach M tokP tokS cfg kind size cap ops).conns,
      ∀ u, (u ∈ c.written ∨ u ∈ c.out ∨ c.inflight = some u) → u ∈ c.enq :=
  Mercure.reach_written_enq M tokP tokS cfg kind size cap ops

/-- The obligation against /repo: on both transports the whole fan-out of an update happens under
    the exclusive transport lock (one publisher at a time ⇒ one order for every subscriber). -/
theorem repo_flags : Facts.sysFlags.localMatchLocked = true := by decide

/-! ### region level: every schedule -/

open Mercure.Sys in
/-- FIFO: what the consumer has taken plus what is buffered is exactly what was sent, in order. -/
theorem fifo (kind : Sys.Kind) (size : Nat) (subs : List Sys.Sub) (ops : List Sys.Op)
    (wf : Sys.WellFormed subs ops) (sched : List Nat) :
    ∀ b ∈ (Sys.reach Sys.Flags.repaired kind size subs ops sched).subs, b.received ++ b.out = b.enq :=
  Sys.Stream.fifo size subs ops kind wf sched

/-- Bolt: the stored history is the sequence of accepted updates with sequence numbers 1..n —
    the single total order. -/
theorem bolt_one_total_order (subs : List Sys.Sub) (ops : List Sys.Op) (wf : Sys.WellFormed subs ops) (sched : List Nat) :
    (Sys.reach Sys.Flags.repaired .bolt 0 subs ops sched).tr.db.map (·.2) = (Sys.reach Sys.Flags.repaired .bolt 0 subs ops sched).tr.accepted ∧
    (Sys.reach Sys.Flags.repaired .bolt 0 subs ops sched).tr.db.map (·.1) = List.range' 1 (Sys.reach Sys.Flags.repaired .bolt 0 subs ops sched).tr.accepted.length :=
  Sys.Stream.db_is_accepted subs ops wf sched

/-- **Bolt, exactly once and in that order, under every schedule**: what a subscriber has been sent
    is always a gap-free prefix of (what it is owed from the history, then every update accepted
    after it was indexed) filtered to what it matches — no duplicate, no gap, no reordering… -/
theorem bolt_exactly_once_in_order (subs : List Sys.Sub) (ops : List Sys.Op) (wf : Sys.WellFormed subs ops) (sched : List Nat) :
    ∀ b ∈ (Sys.reach Sys.Flags.repaired .bolt 0 subs ops sched).subs, ∀ k, b.joinedAt = some k →
      b.enq <+: Sys.ideal b (Sys.reach Sys.Flags.repaired .bolt 0 subs ops sched).tr.accepted k :=
  Sys.Stream.bolt_stream_prefix_of_ideal subs ops wf sched

/-- …and all of it once every operation has returned, for a subscriber that stays connected and keeps up. -/
theorem bolt_nothing_missed (subs : List Sys.Sub) (ops : List Sys.Op) (wf : Sys.WellFormed subs ops) (sched : List Nat)
    (hq : (Sys.reach Sys.Flags.repaired .bolt 0 subs ops sched).allDone = true) :
    ∀ s, s ∈ (Sys.reach Sys.Flags.repaired .bolt 0 subs ops sched).tr.index →
      let b := Sys.getSub (Sys.reach Sys.Flags.repaired .bolt 0 subs ops sched) s
      b.ready = true → b.disconnected = false → ∀ k, b.joinedAt = some k →
      b.enq = Sys.ideal b (Sys.reach Sys.Flags.repaired .bolt 0 subs ops sched).tr.accepted k :=
  Sys.Stream.bolt_stream_complete subs ops wf sched hq

/-- Local transport: a subscriber is sent exactly the matching updates that entered fan-out after
    it was indexed, each once, in the one order in which updates entered fan-out (shared by every
    subscriber: the fan-out runs under the transport lock)… -/
theorem local_exactly_once_in_order (size : Nat) (subs : List Sys.Sub) (ops : List Sys.Op) (wf : Sys.WellFormed subs ops) (sched : List Nat) :
    ∀ b ∈ (Sys.reach Sys.Flags.repaired .local size subs ops sched).subs, ∀ k, b.joinedAt = some k →
      b.enq <+: ((Sys.reach Sys.Flags.repaired .local size subs ops sched).tr.accepted.drop k).filter b.matches :=
  Sys.Stream.local_stream_prefix size subs ops wf sched

/-- …all of them at quiescence. -/
theorem local_nothing_missed (size : Nat) (subs : List Sys.Sub) (ops : List Sys.Op) (wf : Sys.WellFormed subs ops) (sched : List Nat)
    (hq : (Sys.reach Sys.Flags.repaired .local size subs ops sched).allDone = true) :
    ∀ s, s ∈ (Sys.reach Sys.Flags.repaired .local size subs ops sched).tr.index →
      let b := Sys.getSub (Sys.reach Sys.Flags.repaired .local size subs ops sched) s
      b.ready = true → b.disconnected = false → ∀ k, b.joinedAt = some k →
      b.enq = ((Sys.reach Sys.Flags.repaired .local size subs ops sched).tr.accepted.drop k).filter b.matches :=
  Sys.Stream.local_stream_complete size subs ops wf sched hq

/-- Nothing is sent to a subscriber before it is indexed. -/
theorem nothing_before_registration (kind : Sys.Kind) (size : Nat) (subs : List Sys.Sub) (ops : List Sys.Op)
    (wf : Sys.WellFormed subs ops) (sched : List Nat) :
    ∀ b ∈ (Sys.reach Sys.Flags.repaired kind size subs ops sched).subs, b.joinedAt = none → b.enq = [] :=
  Sys.Stream.nothing_before_indexed size subs ops kind wf sched

end Mercure.C06

#print axioms Mercure.C06.history_is_the_accepted_order
#print axioms Mercure.C06.written_was_enqueued
#print axioms Mercure.C06.repo_flags
#print axioms Mercure.C06.fifo
#print axioms Mercure.C06.bolt_one_total_order
#print axioms Mercure.C06.bolt_exactly_once_in_order
#print axioms Mercure.C06.bolt_nothing_missed
#print axioms Mercure.C06.local_exactly_once_in_order
#print axioms Mercure.C06.local_nothing_missed
#print axioms Mercure.C06.nothing_before_registration
