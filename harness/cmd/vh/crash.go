package main

import (
	"bufio"
	"encoding/binary"
	"fmt"
	"os"
	"os/exec"
	"strings"
	"sync"
	"syscall"

	"verifharness/pkg/h"
	"verifharness/verifsched"

	"github.com/dunglas/mercure"
	"go.etcd.io/bbolt"
)

func init() { register("crash", "C09", runCrash) }

// crashChild: publish u1..uN on a Bolt transport with one '*' watcher; at the killAt-th
// synchronisation point the process SIGKILLs itself. Everything acknowledged / delivered so far has
// been written (unbuffered) to stdout.
func crashChild(dir string, size, n, killAt int) {
	padBolt(dir + "/h.db")
	t, err := mercure.NewBoltTransport(zapNop(), dir+"/h.db", "", uint64(size), 1)
	if err != nil {
		panic(err)
	}
	store, _ := mercure.NewTopicSelectorStoreLRU(0, 0)
	s := mercure.NewLocalSubscriber("", zapNop(), store)
	s.SetTopics([]string{"t0"}, nil)
	if err := t.AddSubscriber(s); err != nil {
		panic(err)
	}
	// a second matching subscriber: there are synchronisation points between the two deliveries
	s2 := mercure.NewLocalSubscriber("", zapNop(), store)
	s2.SetTopics([]string{"t0"}, nil)
	if err := t.AddSubscriber(s2); err != nil {
		panic(err)
	}
	var mu sync.Mutex
	say := func(line string) {
		mu.Lock()
		os.Stdout.WriteString(line + "\n")
		mu.Unlock()
	}
	// what has been handed to the subscriber = what is in its channel: logged at every
	// synchronisation point (so that nothing handed over before the kill goes unreported)
	drainLog := func() {
		for _, x := range []*mercure.LocalSubscriber{s, s2} {
		loop:
			for {
				select {
				case u, ok := <-x.Receive():
					if !ok {
						break loop
					}
					say("deliver " + u.ID)
				default:
					break loop
				}
			}
		}
	}
	count, yields := 0, 0
	verifsched.OnYield = func(label string) {
		count++
		yields++
		drainLog()
		if count == killAt {
			say(fmt.Sprintf("kill-before %s yields=%d", label, yields))
			syscall.Kill(os.Getpid(), syscall.SIGKILL)
			select {}
		}
	}
	// kill points inside the write transaction and inside bbolt's Commit: not synchronisation points (the
	// model's db.Update is one step), so the parent is told how many synchronisation points were passed
	bbolt.VerifKillPoint = verifsched.KillPoint
	verifsched.OnKillPoint = func(label string) {
		count++
		drainLog()
		if count == killAt {
			say(fmt.Sprintf("kill-inside %s yields=%d", label, yields))
			syscall.Kill(os.Getpid(), syscall.SIGKILL)
			select {}
		}
	}
	for i := 1; i <= n; i++ {
		id := fmt.Sprintf("u%d", i)
		if err := t.Dispatch(&mercure.Update{Topics: []string{"t0"}, Event: mercure.Event{ID: id, Data: strings.Repeat("x", 100)}}); err == nil {
			say("ack " + id)
		}
		drainLog()
	}
	say(fmt.Sprintf("completed points=%d yields=%d", count, yields))
	syscall.Kill(os.Getpid(), syscall.SIGKILL) // no clean close either
	select {}
}

type crashCase struct {
	Size   int `json:"size"`
	N      int `json:"publishes"`
	KillAt int `json:"kill_at_yield"`
}

func runCrashCase(c *h.Ctx, r *h.Report, cs crashCase) {
	dir := scratchDir()
	defer os.RemoveAll(dir)
	cmd := exec.Command(os.Args[0], "crash-child", dir, h.Itoa(cs.Size), h.Itoa(cs.N), h.Itoa(cs.KillAt))
	out, _ := cmd.Output()
	var acked, delivered []string
	killedBefore, completed := "", false
	killedInside, yieldsPassed := "", -1
	sc := bufio.NewScanner(strings.NewReader(string(out)))
	for sc.Scan() {
		f := strings.Fields(sc.Text())
		if len(f) < 2 {
			continue
		}
		switch f[0] {
		case "ack":
			acked = append(acked, f[1])
		case "deliver":
			delivered = append(delivered, f[1])
		case "kill-before":
			killedBefore = f[1]
			for _, x := range f[2:] {
				fmt.Sscanf(x, "yields=%d", &yieldsPassed)
			}
		case "kill-inside":
			killedInside = f[1]
			killedBefore = "inside:" + f[1]
			for _, x := range f[2:] {
				fmt.Sscanf(x, "yields=%d", &yieldsPassed)
			}
		case "completed":
			completed = true
		}
	}
	r.Evaluations++
	rp := map[string]any{"family": "crash", "case": cs, "child_log": string(out)}
	// reopen
	var seqs []uint64
	var ids []string
	db, err := bbolt.Open(dir+"/h.db", 0o600, &bbolt.Options{ReadOnly: true})
	if err != nil {
		r.Violate(h.Violation{Key: "C09:database-does-not-reopen", What: fmt.Sprintf("after a kill before %q the database does not reopen: %v", killedBefore, err), Replay: rp})

		return
	}
	db.View(func(tx *bbolt.Tx) error {
		if b := tx.Bucket([]byte("updates")); b != nil {
			b.ForEach(func(k, _ []byte) error {
				seqs = append(seqs, binary.BigEndian.Uint64(k[:8]))
				ids = append(ids, string(k[8:]))

				return nil
			})
		}

		return nil
	})
	db.Close()
	t2, err := mercure.NewBoltTransport(zapNop(), dir+"/h.db", "", uint64(cs.Size), 1)
	lastID := "?"
	if err == nil {
		lastID, _, _ = t2.GetSubscribers()
		// the restarted hub itself must see that history: a replay from 'earliest' through the real
		// transport returns exactly what is stored, and one more publication is appended after it
		store, _ := mercure.NewTopicSelectorStoreLRU(0, 0)
		replay := func() []string {
			sub := mercure.NewLocalSubscriber("earliest", zapNop(), store)
			sub.SetTopics([]string{"t0"}, nil)
			if t2.AddSubscriber(sub) != nil {
				return []string{"<AddSubscriber failed>"}
			}
			got := []string{}
			for {
				select {
				case u, ok := <-sub.Receive():
					if !ok {
						return got
					}
					got = append(got, u.ID)
				default: // AddSubscriber replays the history synchronously: nothing more is coming
					sub.Disconnect()
					t2.RemoveSubscriber(sub)

					return got
				}
			}
		}
		if got := replay(); strings.Join(got, ",") != strings.Join(ids, ",") {
			r.Violate(h.Violation{Key: "C09:restarted-hub-does-not-replay-the-stored-history",
				What: fmt.Sprintf("after the kill the file holds %v but the restarted hub replays %v from 'earliest'", ids, got), Replay: rp})
		}
		next := fmt.Sprintf("u%d", len(ids)+1000)
		if derr := t2.Dispatch(&mercure.Update{Topics: []string{"t0"}, Event: mercure.Event{ID: next, Data: "after restart"}}); derr == nil {
			want := append(append([]string{}, ids...), next)
			if cs.Size > 0 && len(want) > cs.Size {
				want = want[len(want)-cs.Size:]
			}
			if got := replay(); strings.Join(got, ",") != strings.Join(want, ",") {
				r.Violate(h.Violation{Key: "C09:publication-after-restart-not-appended",
					What: fmt.Sprintf("after kill + restart the history was %v; publishing %s then gives %v, expected %v", ids, next, got, want), Replay: rp})
			}
			if l, _, _ := t2.GetSubscribers(); l != next {
				r.Violate(h.Violation{Key: "C09:last-event-id-after-restart", What: fmt.Sprintf("after restart and one publication the hub reports %q, not %q", l, next), Replay: rp})
			}
		} else {
			r.Violate(h.Violation{Key: "C09:publication-after-restart-refused", What: fmt.Sprintf("Dispatch after kill + restart: %v", derr), Replay: rp})
		}
		t2.Close()
	} else {
		r.Violate(h.Violation{Key: "C09:database-does-not-reopen", What: fmt.Sprintf("NewBoltTransport fails after a kill before %q: %v", killedBefore, err), Replay: rp})
	}
	present := map[string]uint64{}
	for i, id := range ids {
		present[id] = seqs[i]
	}
	// the property's oracle on the implementation alone
	maxSeq := uint64(0)
	if len(seqs) > 0 {
		maxSeq = seqs[len(seqs)-1]
	}
	durable := func(kind, id string) {
		var k uint64
		fmt.Sscanf(id, "u%d", &k)
		if _, ok := present[id]; !ok {
			discarded := cs.Size > 0 && maxSeq > uint64(cs.Size) && k <= maxSeq-uint64(cs.Size)
			if !discarded {
				r.Violate(h.Violation{Key: "C09:" + kind + "-update-lost", What: fmt.Sprintf("%s %s is not in the history after the kill (stored: %v)", kind, id, ids), Replay: rp})
			}
		} else if present[id] != k {
			r.Violate(h.Violation{Key: "C09:position-changed", What: fmt.Sprintf("%s is stored at position %d, was published as number %d", id, present[id], k), Replay: rp})
		}
	}
	for _, id := range acked {
		durable("acknowledged", id)
	}
	for _, id := range delivered {
		durable("delivered", id)
	}
	for i := range seqs {
		if seqs[i] != seqs[0]+uint64(i) || ids[i] != fmt.Sprintf("u%d", seqs[i]) {
			r.Violate(h.Violation{Key: "C09:history-not-a-contiguous-run", What: fmt.Sprintf("stored %v at %v", ids, seqs), Replay: rp})
		}
	}
	if int(maxSeq) != len(acked) && int(maxSeq) != len(acked)+1 {
		r.Violate(h.Violation{Key: "C09:interrupted-publish-not-atomic", What: fmt.Sprintf("%d acknowledged, last stored sequence %d", len(acked), maxSeq), Replay: rp})
	}
	wantLast := "earliest"
	if len(ids) > 0 {
		wantLast = ids[len(ids)-1]
	}
	if lastID != wantLast && lastID != "?" {
		r.Violate(h.Violation{Key: "C09:last-event-id-after-restart", What: fmt.Sprintf("after restart the hub reports %q, the last stored update is %q", lastID, wantLast), Replay: rp})
	}

	// model: the same sequential execution stopped after killAt-1 steps, then restart
	lines := []string{h.Line("sys.new", "bolt", h.Itoa(cs.Size), "facts"), h.Line("sys.sub", "0", "-", "1000"), h.Line("sys.sub", "0", "-", "1000"),
		h.Line("sys.op", "add", "0"), h.Line("sys.op", "add", "1"), "sys.runall"}
	for i := 1; i <= cs.N; i++ {
		lines = append(lines, h.Line("sys.op", "dispatch", h.Itoa(i), "0"))
	}
	// synchronisation steps the model executes before the crash: a kill before the y-th synchronisation point
	// = y-1 steps; a kill inside the transaction that follows the y-th point = y-1 steps (nothing committed)
	// unless bbolt had already written the meta page (= y steps: the transaction is durable)
	msteps := cs.KillAt - 1
	if yieldsPassed >= 0 {
		msteps = yieldsPassed - 1
		if killedInside == "commit:after-meta" {
			msteps = yieldsPassed
		}
	} else if completed {
		msteps = 1 << 20
	}
	lines = append(lines, h.Line("sys.seqsteps", h.Itoa(msteps)), "sys.restart", "sys.obs")
	ans := c.Driver.Ask(lines)
	model := ans[len(ans)-1]
	var p []string
	for i := range seqs {
		p = append(p, fmt.Sprintf("%d:%s", seqs[i], ids[i]))
	}
	implObs := fmt.Sprintf("db=%s last=%s", strings.Join(p, ","), lastID)
	mdb := model[strings.Index(model, "db="):]
	mdb = mdb[:strings.Index(mdb, " lastSeq=")]
	if mdb != implObs {
		r.Disagree(h.Disagreement{Class: "C09.crash-restart", Case: cs, Model: mdb, Impl: implObs + " (killed before " + killedBefore + ")"})
	}
	if killedBefore != "" {
		r.Count("kill-before:" + killedBefore)
		r.Nontrivial(fmt.Sprint(cs.Size, killedBefore, len(acked) > 0))
	}
	if completed {
		r.Count("completed-then-killed")
	}
	r.Sample(map[string]any{"case": cs, "killed_before": killedBefore, "acked": len(acked), "delivered": len(delivered), "stored": len(ids)})
}

func runCrash(c *h.Ctx, r *h.Report) {
	r.Rule = "the instrumented Bolt transport runs in a child process that publishes u1..uN (one '*' watcher logging deliveries, acknowledgements logged after Dispatch returns) and SIGKILLs itself when it reaches the k-th point — every synchronisation point inside and around every publish (closed test, lock, before the write transaction, before MatchAny, each step of the fan-out, …) and every kill point inside the write transaction (before the bucket is fetched, the sequence taken, the Put, the retention cleanup, each Delete) and inside bbolt's own Commit (before the dirty pages are written, between the data pages and the meta page, after the meta page; instrumented copy of bbolt's tx.go), retention off/on — and is also killed right after completing (no clean close). The parent reopens the file with bbolt and through NewBoltTransport: everything acknowledged or delivered is stored at its position (or legitimately discarded by retention), the stored keys are a contiguous run, the interrupted publish is wholly present or absent, the restarted hub reports the last stored id, replays exactly the stored history from 'earliest' and appends one more publication after it; and the exact stored content is compared with the model's crash+restart of the same execution. A process kill leaves the page cache intact: torn or reordered writes of a power loss are not simulated (bbolt's on-disk atomicity is assumed). Non-trivial = kill inside a publish; distinct by (retention, synchronisation point, some ack before)."
	if c.Replay != "" {
		var rp struct {
			Case crashCase `json:"case"`
		}
		readReplay(c.Replay, &rp)
		runCrashCase(c, r, rp.Case)

		return
	}
	sizes := []int{0, 2}
	n := 4
	if c.Thorough() {
		sizes = []int{0, 1, 3}
		n = 12
	}
	var cases []crashCase
	for _, size := range sizes {
		// a publish is 14 synchronisation points (closed?, t.Lock, db.Update, sl.MatchAny, 5 of s.Dispatch per
		// subscriber) plus 7 or more kill points inside the transaction (bucket, sequence, Put, cleanup, each
		// Delete, three inside bbolt's Commit); beyond the last point the child completes and is killed then
		for k := 1; k <= 24*n+2; k++ {
			cases = append(cases, crashCase{Size: size, N: n, KillAt: k})
		}
	}
	var wg sync.WaitGroup
	sem := make(chan struct{}, 8)
	var mu sync.Mutex
	for _, cs := range cases {
		_ = mu
		wg.Add(0)
		sem <- struct{}{}
		runCrashCase(c, r, cs) // the driver is sequential; children are short-lived
		<-sem
	}
	wg.Wait()
}
