import Mercure.Model.Selector
/-
  Mercure.Model.Template — what `topicselector.go` asks of yosida95/uritemplate v3:
      uritemplate.New(sel)                  (is `sel` a valid RFC 6570 template?)
      tpl.Regexp().MatchString(topic)       (the regular expression the library builds from the template)
  Until now these two were the *parameter* `TemplateOracle` (answers supplied by the harness from the
  library itself). This module is an executable model of both, so that the oracle becomes a definition:
  `Template.oracle`. The theorems of C01/C02/C05/C11 stay parametric in the oracle, hence hold for this one.

  parse.go: a state machine over the runes of the template (states: default / operator / variable
  name / variable list / prefix length); `unread` re-dispatches the same rune in the next state.
  expression.go `regexp`: per expression
      (?:FIRST( CLASS* (?:SEP CLASS*){0,max} | * ))?         CLASS = [allowed] | %XX
  per literal run `(?:QuoteMeta(lit))`, the whole anchored with ^…$. `MatchString` is language
  membership, decided below by a backtracking matcher over that structure (no regexp engine involved).
  The prefix length `{var:3}` is parsed and validated but, as in the library, not used by the regexp.
-/
namespace Mercure.Template

inductive Op where | simple | plus | hash | dot | slash | semi | query | amp
  deriving DecidableEq, Repr

structure VarSpec where
  name    : Str
  maxlen  : Nat := 0
  explode : Bool := false
  deriving DecidableEq, Repr

inductive Item where
  | lit (s : Str)
  | expr (op : Op) (vars : List VarSpec)
  deriving DecidableEq, Repr

/-! ### character classes (escape.go, parse.go) -/

def inR (n lo hi : Nat) : Bool := lo ≤ n && n ≤ hi

/-- `rangeVarchar` -/
def isVarchar (c : Char) : Bool :=
  let n := c.toNat
  inR n 0x30 0x39 || inR n 0x41 0x5A || n == 0x5F || inR n 0x61 0x7A

/-- `rangeLiterals` -/
def isLiteral (c : Char) : Bool :=
  let n := c.toNat
  n == 0x21 || inR n 0x23 0x24 || inR n 0x26 0x3B || n == 0x3D || inR n 0x3F 0x5B || n == 0x5D || n == 0x5F ||
  inR n 0x61 0x7A || n == 0x7E || inR n 0xA0 0xD7FF || inR n 0xE000 0xF8FF || inR n 0xF900 0xFDCF || inR n 0xFDF0 0xFFEF ||
  inR n 0x10000 0x1FFFD || inR n 0x20000 0x2FFFD || inR n 0x30000 0x3FFFD || inR n 0x40000 0x4FFFD ||
  inR n 0x50000 0x5FFFD || inR n 0x60000 0x6FFFD || inR n 0x70000 0x7FFFD || inR n 0x80000 0x8FFFD ||
  inR n 0x90000 0x9FFFD || inR n 0xA0000 0xAFFFD || inR n 0xB0000 0xBFFFD || inR n 0xC0000 0xCFFFD ||
  inR n 0xD0000 0xDFFFD || inR n 0xE1000 0xEFFFD || inR n 0xF0000 0xFFFFD || inR n 0x100000 0x10FFFD

/-- `rangeUnreserved` / `reUnreserved` -/
def isUnreserved (c : Char) : Bool :=
  let n := c.toNat
  inR n 0x2D 0x2E || inR n 0x30 0x39 || inR n 0x41 0x5A || n == 0x5F || inR n 0x61 0x7A || n == 0x7E

/-- `rangeReserved` / `reReserved` -/
def isReserved (c : Char) : Bool :=
  let n := c.toNat
  n == 0x21 || inR n 0x23 0x24 || inR n 0x26 0x2C || n == 0x2F || inR n 0x3A 0x3B || n == 0x3D || inR n 0x3F 0x40 ||
  n == 0x5B || n == 0x5D

/-- `ishex` / `[[:xdigit:]]` -/
def isHex (c : Char) : Bool :=
  let n := c.toNat
  inR n 0x30 0x39 || inR n 0x41 0x46 || inR n 0x61 0x66

/-! ### parse.go -/

/-- `isValidVarname` (on the accumulated name; every character is ASCII) -/
def validVarname (name : Str) : Bool :=
  name != [] && name.head? != some '.' && name.getLast? != some '.' &&
  -- no two consecutive dots strictly inside
  (let rec noDD : Str → Bool
    | a :: b :: rest => !(a == '.' && b == '.') && noDD (b :: rest)
    | _ => true
   noDD name)

inductive PState where
  | dflt (lit : Str) (pct : Nat)                       -- literal run so far (reversed); hex digits still owed to a '%'
  | oper
  | varName (op : Op) (vars : List VarSpec) (name : Str) (pct : Nat)   -- name so far (reversed)
  | varList (op : Op) (vars : List VarSpec)
  | pfx (op : Op) (vars : List VarSpec) (maxlen : Nat)                 -- prefix length of the last variable
  deriving Repr

abbrev PAcc := PState × List Item      -- items reversed

def flushLit (lit : Str) (acc : List Item) : List Item :=
  if lit == [] then acc else .lit lit.reverse :: acc

def setMaxlen (vars : List VarSpec) (m : Nat) : List VarSpec :=
  match vars.reverse with
  | [] => []
  | v :: rest => ({ v with maxlen := m } :: rest).reverse

/-- state "variable list": `,` `}` or an error -/
def stepVarList (op : Op) (vars : List VarSpec) (acc : List Item) (c : Char) : Option PAcc :=
  if c == ',' then some (.varName op vars [] 0, acc)
  else if c == '}' then some (.dflt [] 0, .expr op vars :: acc)
  else none

/-- state "variable name" -/
def stepVarName (op : Op) (vars : List VarSpec) (name : Str) (pct : Nat) (acc : List Item) (c : Char) : Option PAcc :=
  if pct > 0 then
    if isHex c then some (.varName op vars (c :: name) (pct - 1), acc) else none
  else if c == ':' || c == '*' then
    if !validVarname name.reverse then none
    else if c == '*' then some (.varList op (vars ++ [{ name := name.reverse, explode := true }]), acc)
    else some (.pfx op (vars ++ [{ name := name.reverse }]) 0, acc)
  else if c == ',' || c == '}' then
    if !validVarname name.reverse then none
    else stepVarList op (vars ++ [{ name := name.reverse }]) acc c      -- unread
  else if c == '%' then some (.varName op vars (c :: name) 2, acc)
  else if c == '.' then
    if name == [] || name.head? == some '.' then none else some (.varName op vars (c :: name) 0, acc)
  else if isVarchar c then some (.varName op vars (c :: name) 0, acc)
  else none

def opOf (c : Char) : Option Op :=
  if c == '+' then some .plus else if c == '#' then some .hash else if c == '.' then some .dot
  else if c == '/' then some .slash else if c == ';' then some .semi else if c == '?' then some .query
  else if c == '&' then some .amp else none

def stepChar : PAcc → Char → Option PAcc
  | (.dflt lit pct, acc), c =>
    if pct > 0 then (if isHex c then some (.dflt (c :: lit) (pct - 1), acc) else none)
    else if c == '{' then some (.oper, flushLit lit acc)
    else if c == '%' then some (.dflt (c :: lit) 2, acc)
    else if isLiteral c then some (.dflt (c :: lit) 0, acc)
    else none
  | (.oper, acc), c =>
    match opOf c with
    | some op => some (.varName op [] [] 0, acc)
    | none =>
      if c == '=' || c == ',' || c == '!' || c == '@' || c == '|' then none
      else stepVarName .simple [] [] 0 acc c                               -- unread
  | (.varName op vars name pct, acc), c => stepVarName op vars name pct acc c
  | (.varList op vars, acc), c => stepVarList op vars acc c
  | (.pfx op vars m, acc), c =>
    if c.isDigit then
      let m' := m * 10 + (c.toNat - 48)
      if m' == 0 || m' > 9999 then none else some (.pfx op vars m', acc)
    else if m == 0 then none
    else stepVarList op (setMaxlen vars m) acc c                           -- unread

def parseLoop : PAcc → Str → Option PAcc
  | st, [] => some st
  | st, c :: cs => match stepChar st c with
    | some st' => parseLoop st' cs
    | none => none

/-- `uritemplate.New`: the items of the template, `none` when the library returns an error. -/
def parse (s : Str) : Option (List Item) :=
  match parseLoop (.dflt [] 0, []) s with
  | some (.dflt lit 0, acc) => some (flushLit lit acc).reverse
  | _ => none

/-! ### expression.go `init` + `regexp` -/

def Op.first : Op → Str
  | .simple => [] | .plus => [] | .hash => ['#'] | .dot => ['.'] | .slash => ['/'] | .semi => [';']
  | .query => ['?'] | .amp => ['&']

def Op.sep : Op → Char
  | .simple => ',' | .plus => ',' | .hash => ',' | .dot => '.' | .slash => '/' | .semi => ';'
  | .query => '&' | .amp => '&'

def Op.named : Op → Bool
  | .semi => true | .query => true | .amp => true | _ => false

/-- `allow` includes the reserved set (operators `+` and `#`) -/
def Op.allowR : Op → Bool
  | .plus => true | .hash => true | _ => false

/-- membership in the bracket expression `runeClassToRegexp` writes -/
def inClass (allowR named : Bool) (c : Char) : Bool :=
  (!allowR && (c == ',' || (named && c == '='))) || isUnreserved c || (allowR && isReserved c)

/-- The repetition of an expression: `none` = no `(?:SEP …)` group at all, `some none` = `*`,
    `some (some k)` = `{0,k}`. -/
def sepBound (vars : List VarSpec) : Option (Option Nat) :=
  match vars with
  | [] => none
  | v :: _ =>
    if vars.length > 1 || v.explode then
      if vars.any (·.explode) then some none else some (some (vars.length - 1))
    else none

def firstNamed (op : Op) (vars : List VarSpec) : Bool :=
  op.named || (match vars with | v :: _ => v.explode | [] => false)

def restNamed (op : Op) (vars : List VarSpec) : Bool :=
  op.named || vars.any (·.explode)

/-! ### matching: membership in the language of the generated regular expression -/

/-- Remaining separators allowed: `none` = unbounded. -/
abbrev Seps := Option Nat

def Seps.canUse : Seps → Bool
  | none => true
  | some k => k > 0

def Seps.use : Seps → Seps
  | none => none
  | some k => some (k - 1)

mutual
/-- the items still to match against the rest of the input -/
def matchItems : List Item → Str → Bool
  | [], s => s == []
  | .lit l :: rest, s => l.isPrefixOf s && matchItems rest (s.drop l.length)
  | .expr op vars :: rest, s =>
    -- the whole group is optional
    matchItems rest s ||
    (op.first.isPrefixOf s &&
      matchBody op vars rest (firstNamed op vars)
        (match sepBound vars with | none => some 0 | some b => b) (s.drop op.first.length))
termination_by items s => (items.length, s.length + 1)
decreasing_by
  all_goals simp_wf
  all_goals first
    | (apply Prod.Lex.left; omega)
    | (apply Prod.Lex.right; omega)

/-- inside `CLASS* (?:SEP CLASS*)…`: at every position, stop here, take one more class token, or
    (if allowed) take a separator -/
def matchBody (op : Op) (vars : List VarSpec) (rest : List Item) (named : Bool) (seps : Seps) : Str → Bool
  | [] => matchItems rest []
  | c :: cs =>
    matchItems rest (c :: cs) ||
    (inClass op.allowR named c && matchBody op vars rest named seps cs) ||
    (match c, cs with
     | '%', a :: b :: cs' => isHex a && isHex b && matchBody op vars rest named seps cs'
     | _, _ => false) ||
    (c == op.sep && seps.canUse && matchBody op vars rest (restNamed op vars) seps.use cs)
termination_by s => (rest.length + 1, s.length)
decreasing_by
  all_goals simp_wf
  all_goals first
    | (apply Prod.Lex.left; omega)
    | (apply Prod.Lex.right; omega)
end

/-- `tpl.Regexp().MatchString(topic)` -/
def matchTemplate (items : List Item) (topic : Str) : Bool := matchItems items topic

def valid (sel : Str) : Bool := (parse sel).isSome

def expands (sel topic : Str) : Bool :=
  match parse sel with
  | some items => matchTemplate items topic
  | none => false

/-- The template library as a definition instead of a parameter. -/
def oracle : TemplateOracle := { valid := valid, expands := expands }

end Mercure.Template

/-! ### Level-1 expansion (escape.go `escapeExceptU`, value.go for string values) — used by the theorems only -/
namespace Mercure.Template

def hexUpper (n : Nat) : Char := if n < 10 then Char.ofNat (48 + n) else Char.ofNat (55 + n)

/-- `pctEncode`: every UTF-8 byte of the rune as `%XX` (upper-case digits) -/
def pctEncode (c : Char) : Str :=
  (String.utf8EncodeChar c).flatMap (fun b => ['%', hexUpper (b.toNat / 16), hexUpper (b.toNat % 16)])

/-- `escapeExceptU` -/
def escapeU (v : Str) : Str := v.flatMap (fun c => if isUnreserved c then [c] else pctEncode c)

/-- A template whose expressions are all of the form `{name}` (simple operator, one variable, no
    modifier) — the shape of nearly every selector in use (`https://example.com/books/{id}`). -/
def Level1 : List Item → Prop
  | [] => True
  | .lit _ :: rest => Level1 rest
  | .expr op vars :: rest => op = .simple ∧ (∃ n, vars = [{ name := n }]) ∧ Level1 rest

/-- RFC 6570 §3.2.2 simple string expansion: a defined variable is replaced by its value with
    everything but unreserved characters percent-encoded; an undefined one by nothing. -/
def expand1 (vals : Str → Option Str) : List Item → Str
  | [] => []
  | .lit l :: rest => l ++ expand1 vals rest
  | .expr _ vars :: rest =>
    (match vars with
     | [v] => (match vals v.name with | some x => escapeU x | none => [])
     | _ => []) ++ expand1 vals rest

/-- the strings `CLASS*` matches for a simple expression: unreserved characters, `,`, `%XX` -/
inductive ClassStr : Str → Prop
  | nil : ClassStr []
  | char (c : Char) (w : Str) : (isUnreserved c = true ∨ c = ',') → ClassStr w → ClassStr (c :: w)
  | pct (a b : Char) (w : Str) : isHex a = true → isHex b = true → ClassStr w → ClassStr ('%' :: a :: b :: w)

end Mercure.Template
