import Mercure.Model.Basic
/-
  Mercure.Model.Config — configuration → effective options:
  the Caddy module (caddy/mercure.go: UnmarshalCaddyfile, populateJWTConfig, Provision → hub options)
  and the legacy viper options (config.go: ValidateConfig, NewHubFromViper), both ending in
  hub.go's option functions (createJWTKeyfunc, validateOrigins, WithProtocolVersionCompatibility)
  and NewHub's defaults.

  Argument *classes* replace raw text where a library decides (PEM parsing, URL parsing, duration
  parsing): the harness classifies each generated argument itself.
-/
namespace Mercure.Config

/-- What the key text is good for. An HMAC secret is any non-empty text; a PEM public key is good
    for exactly one family. -/
inductive KeyClass where
  | absent          -- directive missing or empty key
  | text            -- some text that is not a PEM public key
  | rsaPem | ecPem | edPem
  deriving DecidableEq, Repr

inductive AlgFamily where | hmac | rsa | ec | ed | unsupported
  deriving DecidableEq, Repr

/-- jwt.GetSigningMethod + the type switch of createJWTKeyfunc. -/
def algFamily (alg : Str) : AlgFamily :=
  let a := String.ofList alg
  if a == "HS256" || a == "HS384" || a == "HS512" then .hmac
  else if a == "RS256" || a == "RS384" || a == "RS512" then .rsa
  else if a == "ES256" || a == "ES384" || a == "ES512" then .ec
  else if a == "EdDSA" then .ed
  else .unsupported

/-- createJWTKeyfunc succeeds iff the key is usable with the algorithm's family. -/
def keyfuncOk (k : KeyClass) (alg : Str) : Bool :=
  match algFamily alg, k with
  | .hmac, .absent => true        -- an empty secret is accepted by createJWTKeyfunc itself (callers guard it)
  | .hmac, _ => true
  | .rsa, .rsaPem => true
  | .ec, .ecPem => true
  | .ed, .edPem => true
  | _, _ => false

structure Effective where
  anonymous      : Bool
  subscriptions  : Bool
  wt             : Nat            -- ms; 0 = disabled
  dt             : Nat
  hb             : Nat
  pubAlg         : Str
  subAlg         : Option Str     -- none = no subscriber key function
  publishOrigins : List Str
  corsOrigins    : List Str
  cookieName     : Str
  compat7        : Bool
  deriving DecidableEq, Repr

def defaultWT : Nat := 600000
def defaultDT : Nat := 5000
def defaultHB : Nat := 40000
def defaultCookie : Str := "mercureAuthorization".toList
def hs256 : Str := "HS256".toList

inductive Err where
  | noPublisherKey | noSubscriberKey | badPublisherKey | badSubscriberKey | badOrigin | badVersion | badDirective
  deriving DecidableEq, Repr

/-- An origin with the verdict of `validateOrigins` ("*", "null", or scheme://host[:port] only). -/
structure Origin where
  text  : Str
  valid : Bool
  deriving DecidableEq, Repr

/-- The Caddy module's fields after `UnmarshalCaddyfile` (JWKS URLs need the network: excluded). -/
structure Caddy where
  anonymous     : Bool := false
  subscriptions : Bool := false
  wt            : Option Nat := none
  dt            : Option Nat := none
  hb            : Option Nat := none
  pubKey        : KeyClass := .absent
  pubAlg        : Option Str := none     -- second argument of publisher_jwt
  subKey        : KeyClass := .absent
  subAlg        : Option Str := none
  publishOrigins : List Origin := []
  corsOrigins   : List Origin := []
  cookieName    : Option Str := none
  compat        : Option Nat := none     -- protocol_version_compatibility N
  badArgs       : Bool := false          -- some directive lacked its argument / had an unparsable one
  deriving Repr

/-- `UnmarshalCaddyfile` + `Provision` (caddy/mercure.go). -/
def provisionCaddy (c : Caddy) : Except Err Effective :=
  if c.badArgs then .error .badDirective else
  match c.compat with
  | some v => if v != 7 then .error .badVersion else go c true
  | none => go c false
where
  go (c : Caddy) (compat7 : Bool) : Except Err Effective :=
    -- populateJWTConfig
    if c.pubKey == .absent then .error .noPublisherKey else
    let pubAlg := match c.pubAlg with | some a => if a == [] then hs256 else a | none => hs256
    if c.subKey == .absent && !c.anonymous then .error .noSubscriberKey else
    let subAlg := match c.subAlg with | some a => if a == [] then hs256 else a | none => hs256
    -- options
    if !keyfuncOk c.pubKey pubAlg then .error .badPublisherKey else
    if c.subKey != .absent && !keyfuncOk c.subKey subAlg then .error .badSubscriberKey else
    if !(c.publishOrigins.all (·.valid)) || !(c.corsOrigins.all (·.valid)) then .error .badOrigin else
    .ok { anonymous := c.anonymous, subscriptions := c.subscriptions,
          wt := c.wt.getD defaultWT, dt := c.dt.getD defaultDT, hb := c.hb.getD defaultHB,
          pubAlg := pubAlg, subAlg := if c.subKey == .absent then none else some subAlg,
          publishOrigins := c.publishOrigins.map (·.text), corsOrigins := c.corsOrigins.map (·.text),
          cookieName := (match c.cookieName with | some n => if n == [] then defaultCookie else n | none => defaultCookie),
          compat7 := compat7 }

/-- The legacy viper options (after SetConfigDefaults when `defaults` is true). `none` = key not set. -/
structure Legacy where
  defaults      : Bool := true           -- SetConfigDefaults / InitConfig was applied
  jwtKey        : KeyClass := .absent
  jwtAlg        : Option Str := none
  pubKey        : KeyClass := .absent
  pubAlg        : Option Str := none
  subKey        : KeyClass := .absent
  subAlg        : Option Str := none
  anonymous     : Bool := false
  subscriptions : Bool := false
  wt            : Option Nat := none     -- ms, as set by the user
  dt            : Option Nat := none
  hb            : Option Nat := none
  publishOrigins : List Origin := []
  corsOrigins   : List Origin := []
  deriving Repr

/-- Flags regenerated from config.go: which repairs are in. -/
structure LegacyFlags where
  requireSubscriberKey : Bool   -- ValidateConfig rejects "no subscriber key and not anonymous"
  zeroMeansDisabled    : Bool   -- heartbeat_interval / dispatch_timeout set to 0 are passed on (not replaced by the hub default)
  deriving DecidableEq, Repr

def firstKey (a b : KeyClass) : KeyClass := if a != .absent then a else b

/-- `ValidateConfig` + `NewHubFromViper` (config.go). -/
def provisionLegacy (fl : LegacyFlags) (l : Legacy) : Except Err Effective :=
  if l.pubKey == .absent && l.jwtKey == .absent then .error .noPublisherKey else
  if fl.requireSubscriberKey && l.subKey == .absent && l.jwtKey == .absent && !l.anonymous then .error .noSubscriberKey else
  let jwtAlgDefault : Str := match l.jwtAlg with | some a => if a == [] then hs256 else a | none => hs256
  let pk := firstKey l.pubKey l.jwtKey
  let pa := match l.pubAlg with | some a => if a == [] then jwtAlgDefault else a | none => jwtAlgDefault
  let sk := firstKey l.subKey l.jwtKey
  let sa := match l.subAlg with | some a => if a == [] then jwtAlgDefault else a | none => jwtAlgDefault
  if !keyfuncOk pk pa then .error .badPublisherKey else
  if sk != .absent && !keyfuncOk sk sa then .error .badSubscriberKey else
  if !(l.publishOrigins.all (·.valid)) || !(l.corsOrigins.all (·.valid)) then .error .badOrigin else
  -- durations: viper defaults (600 s, 5 s, 40 s) apply when SetConfigDefaults ran
  let get (u : Option Nat) (d : Nat) : Option Nat := match u with | some x => some x | none => if l.defaults then some d else none
  let wtV := (get l.wt defaultWT).getD 0
  let dtV := get l.dt defaultDT
  let hbV := get l.hb defaultHB
  .ok { anonymous := l.anonymous, subscriptions := l.subscriptions,
        wt := if wtV != defaultWT then wtV else defaultWT,
        dt := (match dtV with
               | some x => if x != 0 || fl.zeroMeansDisabled then x else defaultDT
               | none => defaultDT),
        hb := (match hbV with
               | some x => if x != 0 || fl.zeroMeansDisabled then x else defaultHB
               | none => defaultHB),
        pubAlg := pa, subAlg := if sk == .absent then none else some sa,
        publishOrigins := l.publishOrigins.map (·.text), corsOrigins := l.corsOrigins.map (·.text),
        cookieName := defaultCookie, compat7 := false }

/-! ### where a role's verification key comes from (caddy/mercure.go populateJWTConfig + Provision) -/

/-- A role verifies either with the keys of the JWK Set at its own `…_jwks_url` (then its `…_jwt` directive is not
    looked at), or with the key of its `…_jwt` directive, or — subscribers only, when anonymous — with nothing. -/
inductive KeySource where
  | jwks (url : Str)
  | key (k : KeyClass)
  | none
  deriving Repr

/-- The source for one role: a function of that role's directives only. -/
def roleKeySource (jwksURL : Option Str) (k : KeyClass) : KeySource :=
  match jwksURL with
  | some u => if u == [] then (if k == .absent then .none else .key k) else .jwks u
  | Option.none => if k == .absent then .none else .key k

end Mercure.Config
