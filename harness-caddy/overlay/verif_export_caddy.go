//go:build verif

package caddy

import "github.com/dunglas/mercure"

// VerifHub exposes the hub a provisioned Mercure module built (injected with -overlay; not part of /repo).
func VerifHub(m *Mercure) *mercure.Hub { return m.hub }
