import Mercure.Lemmas.Token
/-
  Property theorems about reading a token's bytes (part of C03). Statements by the task owner; proofs in Lemmas/Token.lean.
  `b64encode`, `headerJSON`, `mint` are the issuer's side (defined in Lemmas/Token.lean): RawURLEncoding without padding,
  the header {"alg":"…","typ":"JWT"}, the three segments joined with '.'.
-/
namespace Mercure.C03Token
open Mercure Mercure.TokenBytes Mercure.ClaimsJson

/-- base64url (no padding) decodes back to the bytes that were encoded — for every byte string. -/
theorem b64_roundtrip (bs : List UInt8) : b64decode (b64encode bs) = some bs :=
  Mercure.TokenBytes.b64decode_b64encode bs

/-- Three dot-free segments joined with '.' split back into themselves. -/
theorem split_join (a b c : Str) (ha : '.' ∉ a) (hb : '.' ∉ b) (hc : '.' ∉ c) :
    splitDots (a ++ '.' :: b ++ '.' :: c) = [a, b, c] :=
  Mercure.TokenBytes.splitDots_join a b c ha hb hc

/-- **The rights read from a token are the ones its issuer encoded**: for every registered algorithm name, all selector
    lists (nil / empty / any strings), with or without the namespaced claim and `exp`, and any signature bytes — what
    `ParseUnverified` + the claims decoding extract from the compact serialisation is that algorithm and those claims. -/
theorem derive_mint (alg : String) (halg : alg ∈ knownAlgs)
    (p s : Option (List Str)) (ns : Option (Option (List Str) × Option (List Str))) (e : Option Nat) (sig : List UInt8) :
    ∃ c, derive (mint alg.toList (encode p s ns e) sig) = .ok alg.toList c ∧
      ({ mercure := c.mercure.toClaim, namespaced := c.namespaced.map M.toClaim, exp := c.exp.map (·.1) } : Claims) =
        { mercure := { publish := p, subscribe := s, payload := [] },
          namespaced := ns.map fun (np, nsub) => { publish := np, subscribe := nsub, payload := [] },
          exp := e } :=
  Mercure.TokenBytes.derive_mint alg halg p s ns e sig

/-- fewer or more than three segments, or a character outside the alphabet: the token is malformed (grants nothing) -/
theorem malformed_examples :
    (match derive "a.b".toList with | .malformed => true | _ => false) = true ∧
    (match derive "a.b.c.d".toList with | .malformed => true | _ => false) = true ∧
    (match derive "e30=.e30.e30".toList with | .malformed => true | _ => false) = true := by decide +kernel

end Mercure.C03Token

#print axioms Mercure.C03Token.b64_roundtrip
#print axioms Mercure.C03Token.split_join
#print axioms Mercure.C03Token.derive_mint
#print axioms Mercure.C03Token.malformed_examples
