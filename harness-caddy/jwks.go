package main

import (
	"context"
	"crypto/ed25519"
	"encoding/json"
	"fmt"
	"net/http"
	"net/http/httptest"
	"strings"

	"verifharness/pkg/h"
	"verifharness/pkg/jws"

	"github.com/caddyserver/caddy/v2"
	"github.com/caddyserver/caddy/v2/caddyconfig/caddyfile"
	"github.com/dunglas/mercure"
	mcaddy "github.com/dunglas/mercure/caddy"
)

// jwksStage — key sets per role (publisher_jwks_url / subscriber_jwks_url). Two JWK Sets, each with its own Ed25519 key,
// are served on the loopback interface; the module is provisioned with every combination of the two URLs (and of a
// literal key for the other role); tokens signed with the key of set A and with the key of set B are then presented on
// the publish and on the subscribe endpoint. Implementation alone: each role verifies with its OWN key set — a token
// whose key is only in the other role's set grants nothing — and a role without key set keeps its configured key.
func jwksStage(r *h.Report) {
	type set struct {
		kid string
		key *jws.Key
		url string
	}
	mk := func(kid string, seed uint64) *set {
		k := jws.NewKey("EdDSA", seed)
		pub := k.Ed.Public().(ed25519.PublicKey)
		doc, _ := json.Marshal(map[string]any{"keys": []map[string]string{{"kty": "OKP", "crv": "Ed25519", "x": jws.B64(pub), "kid": kid, "alg": "EdDSA", "use": "sig"}}})
		srv := httptest.NewServer(http.HandlerFunc(func(w http.ResponseWriter, _ *http.Request) {
			w.Header().Set("Content-Type", "application/json")
			w.Write(doc)
		}))

		return &set{kid, k, srv.URL}
	}
	a, b := mk("key-of-set-a", 41), mk("key-of-set-b", 42)
	mint := func(s *set, claims string) string {
		hdr, _ := json.Marshal(map[string]string{"alg": "EdDSA", "typ": "JWT", "kid": s.kid})
		si := jws.B64(hdr) + "." + jws.B64([]byte(claims))

		return si + "." + jws.B64(ed25519.Sign(s.key.Ed, []byte(si)))
	}
	accepts := func(hub *mercure.Hub, publisher bool, s *set) bool {
		method := http.MethodGet
		if publisher {
			method = http.MethodPost
		}
		req, _ := http.NewRequest(method, "http://hub.test/.well-known/mercure?topic=t", nil)
		req.Header.Set("Authorization", "Bearer "+mint(s, `{"mercure":{"publish":["*"],"subscribe":["*"],"payload":"jwks"}}`))

		return strings.HasPrefix(mercure.VerifAuthorize(hub, req, publisher), "ok")
	}
	hmacKey := "aDiuNYysDgJJAF7U9YqukGjeLbiudJSIDSHf5KkZaDiuNYysDgJJAF7U"
	type combo struct {
		pub, sub *set // nil = the role uses the literal key
	}
	for _, cb := range []combo{{a, b}, {b, a}, {a, a}, {a, nil}, {nil, b}} {
		var ds []string
		if cb.pub != nil {
			ds = append(ds, "publisher_jwks_url "+cb.pub.url)
		} else {
			ds = append(ds, "publisher_jwt "+hmacKey)
		}
		if cb.sub != nil {
			ds = append(ds, "subscriber_jwks_url "+cb.sub.url)
		} else {
			ds = append(ds, "subscriber_jwt "+hmacKey)
		}
		ds = append(ds, "transport local")
		text := "mercure {\n\t" + strings.Join(ds, "\n\t") + "\n}"
		m := &mcaddy.Mercure{}
		if err := m.UnmarshalCaddyfile(caddyfile.NewTestDispenser(text)); err != nil {
			r.Notes = append(r.Notes, "jwks stage: unmarshal: "+err.Error())

			continue
		}
		ctx, cancel := caddy.NewContext(caddy.Context{Context: context.Background()})
		if err := m.Provision(ctx); err != nil {
			cancel()
			r.Notes = append(r.Notes, "jwks stage: provision: "+err.Error())

			continue
		}
		hub := mcaddy.VerifHub(m)
		r.Evaluations++
		r.Count("key sets per role (JWKS): configuration provisioned")
		for _, role := range []struct {
			publisher bool
			own       *set
			name      string
		}{{true, cb.pub, "publisher"}, {false, cb.sub, "subscriber"}} {
			for _, s := range []*set{a, b} {
				want := role.own == s // its own set's key, nothing else (a literal-key role accepts neither)
				if got := accepts(hub, role.publisher, s); got != want {
					for _, k := range []string{"C19", "C03"} {
						r.Violate(h.Violation{Key: k + ":role-verifies-with-a-key-set-that-is-not-its-own",
							What:   fmt.Sprintf("%s endpoint: a token signed with %s is accepted=%v, expected %v (each role verifies with its own key set only):\n%s", role.name, s.kid, got, want, text),
							Replay: map[string]any{"family": "cfgcaddy", "stage": "jwks", "caddyfile": text}})
					}
				}
			}
		}
		m.Cleanup()
		cancel()
	}
}
