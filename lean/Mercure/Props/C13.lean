import Mercure.Lemmas.SysSafety
import Mercure.Generated.Facts
/-
  C13 — A slow or dead subscriber never blocks the hub and is cut off, not starved.
  Over the region-level model (Mercure.Sys: every interleaving of the synchronisation operations of
  Dispatch / AddSubscriber with history / Ready / Disconnect / Close / RemoveSubscriber / consumer),
  for the code in /repo (flags regenerated from the sources on every run).

  Partial by nature: "bounded time" is proved as "never waits for a consumer"; wall-clock bounds
  belong to the runtime.
-/
namespace Mercure.C13
open Mercure.Sys

/-- Parked before a channel send (live fan-out or the flush of the live queue) a publisher always
    moves: whether a consumer reads or not, the send either succeeds or overflows at once. -/
theorem send_never_waits (σ : Sys) (i : Nat) (th : Thread) (hth : σ.threads[i]? = some th) (hp : σ.panic = none)
    (h : (∃ s u hist rest, th.stack = .sDispatch s u hist 5 :: rest) ∨ (∃ s q rest, th.stack = .sReady s 3 q :: rest)) :
    (step σ i).moved = true :=
  Safety.send_never_waits σ i th hth hp h

/-- A thread only ever waits for a lock held by another thread, for open read transactions
    (db.Close) or for a running Once — never for the state of a subscriber's buffer. -/
theorem waits_only_for_locks (σ : Sys) (i : Nat) (th : Thread) (hth : σ.threads[i]? = some th) (hp : σ.panic = none)
    (hne : th.stack ≠ []) (hw : (step σ i).moved = false) :
    σ.tr.writer.isSome ∨ σ.tr.onceRunning.isSome ∨ σ.tr.readers > 0 ∨
    (∃ b ∈ σ.subs, b.liveOwner.isSome ∨ b.outOwner.isSome) :=
  Safety.waits_only_for_locks σ i th hth hp hne hw

/-- **Cut off, not starved**: under every schedule, once every operation has returned a subscriber
    is flagged disconnected (overflow during live delivery, during replay or while queued before
    go-live; client; hub) exactly when its stream has been ended — its consumer, having read what
    was buffered, sees the end of the stream. -/
theorem overflow_ends_the_stream (kind : Kind) (size : Nat) (subs : List Sub) (ops : List Op)
    (wf : WellFormed subs ops) (sched : List Nat)
    (hq : (reach Flags.repaired kind size subs ops sched).allDone = true) :
    ∀ b ∈ (reach Flags.repaired kind size subs ops sched).subs, b.disconnected = b.outClosed :=
  Safety.flag_iff_closed_at_quiescence kind size subs ops wf sched hq

/-- The obligation against /repo: the synchronisation code is the repaired variant (regenerated). -/
theorem repo_flags : Facts.sysFlags = Flags.repaired := by decide

/-- Witness for the code as found (finding F6): one subscriber with a buffer of 1, two updates —
    the second overflows: flagged, never closed. -/
theorem C13_counterexample_found :
    let σ := reach Flags.found .local 0 [Sub.fresh [0] .none 1] [.add 0, .dispatch ⟨1, 0⟩, .dispatch ⟨2, 0⟩]
      ((List.replicate 12 0) ++ (List.replicate 12 1) ++ (List.replicate 12 2))
    σ.allDone = true ∧ (getSub σ 0).disconnected = true ∧ (getSub σ 0).outClosed = false := by
  decide +kernel

end Mercure.C13

#print axioms Mercure.C13.send_never_waits
#print axioms Mercure.C13.waits_only_for_locks
#print axioms Mercure.C13.overflow_ends_the_stream
#print axioms Mercure.C13.repo_flags
#print axioms Mercure.C13.C13_counterexample_found
