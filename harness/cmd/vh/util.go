package main

import (
	"encoding/json"
	"os"

	"github.com/yosida95/uritemplate/v3"
)

type uritemplateT = uritemplate.Template

func tplOf(s string) *uritemplate.Template {
	t, err := uritemplate.New(s)
	if err != nil {
		panic(err)
	}

	return t
}

// readReplay loads {"family":…, "case":…} (or the check's wrapper around it).
func readReplay(path string, into any) {
	b, err := os.ReadFile(path)
	if err != nil {
		panic(err)
	}
	var w struct {
		Replay json.RawMessage `json:"replay"`
	}
	if json.Unmarshal(b, &w) == nil && len(w.Replay) > 0 {
		b = w.Replay
	}
	if err := json.Unmarshal(b, into); err != nil {
		panic(err)
	}
}
