#!/bin/bash
# Build the framework from files on disk only (offline).
set -e
cd "$(dirname "$0")"
export GOFLAGS=-mod=mod GOPROXY=off
unset GOSUMDB
mkdir -p .build evidence replays
cp /repo/go.sum harness/go.sum
(cd harness && go build -o ../.build/extract ./cmd/extract)
./.build/extract lean/Mercure/Generated/Facts.lean .build/facts.json /repo
(cd lean && lake build Mercure driver)
echo '{"Replace": {"/repo/verif_export_verif.go": "/verif/harness/overlay/verif_export.go"}}' > .build/overlay.json
export GOEXPERIMENT=synctest; (cd harness && go build -tags verif -overlay ../.build/overlay.json -o ../.build/vh ./cmd/vh)
echo setup done
