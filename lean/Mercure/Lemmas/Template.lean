import Mercure.Model.Template
/-
  Lemmas about Mercure.Model.Template — the Lean model of uritemplate.New + Template.Regexp().MatchString.
  (core Lean only: no Mathlib)
-/
namespace Mercure.Template

/-- unfolding equations for the mutually recursive matcher (they are defined by well-founded recursion) -/
theorem matchItems_nil (s : Str) : matchItems [] s = (s == []) := matchItems.eq_1 s

theorem matchItems_lit (l : Str) (rest : List Item) (s : Str) :
    matchItems (.lit l :: rest) s = (l.isPrefixOf s && matchItems rest (s.drop l.length)) :=
  matchItems.eq_2 s l rest

theorem matchItems_expr (op : Op) (vars : List VarSpec) (rest : List Item) (s : Str) :
    matchItems (.expr op vars :: rest) s =
      (matchItems rest s ||
       (op.first.isPrefixOf s &&
        matchBody op vars rest (firstNamed op vars)
          (match sepBound vars with | none => some 0 | some b => b) (s.drop op.first.length))) :=
  matchItems.eq_3 s op vars rest

theorem matchBody_nil (op : Op) (vars : List VarSpec) (rest : List Item) (named : Bool) (seps : Seps) :
    matchBody op vars rest named seps [] = matchItems rest [] :=
  matchBody.eq_1 op vars rest named seps

theorem matchBody_cons (op : Op) (vars : List VarSpec) (rest : List Item) (named : Bool) (seps : Seps)
    (c : Char) (cs : Str) :
    matchBody op vars rest named seps (c :: cs) =
      (matchItems rest (c :: cs) ||
       (inClass op.allowR named c && matchBody op vars rest named seps cs) ||
       (match c, cs with
        | '%', a :: b :: cs' => isHex a && isHex b && matchBody op vars rest named seps cs'
        | _, _ => false) ||
       (c == op.sep && seps.canUse && matchBody op vars rest (restNamed op vars) seps.use cs)) := by
  rw [matchBody.eq_def]
  rfl

theorem matchBody_pct (op : Op) (vars : List VarSpec) (rest : List Item) (named : Bool) (seps : Seps)
    (a b : Char) (cs : Str) :
    matchBody op vars rest named seps ('%' :: a :: b :: cs) =
      (matchItems rest ('%' :: a :: b :: cs) ||
       (inClass op.allowR named '%' && matchBody op vars rest named seps (a :: b :: cs)) ||
       (isHex a && isHex b && matchBody op vars rest named seps cs) ||
       ('%' == op.sep && seps.canUse && matchBody op vars rest (restNamed op vars) seps.use (a :: b :: cs))) :=
  matchBody.eq_2 op vars rest named seps a b cs

/-- a literal-only template matches exactly itself -/
theorem matchItems_single_lit (l t : Str) : matchItems [.lit l] t = true ↔ t = l := by
  rw [matchItems_lit, matchItems_nil]
  constructor
  · intro h
    rw [Bool.and_eq_true] at h
    obtain ⟨h1, h2⟩ := h
    rw [List.isPrefixOf_iff_prefix] at h1
    obtain ⟨r, rfl⟩ := h1
    rw [List.drop_left] at h2
    have : r = [] := by simpa using h2
    subst this
    simp
  · rintro rfl
    simp


/-! ### class strings -/

theorem ClassStr.append {a b : Str} (ha : ClassStr a) (hb : ClassStr b) : ClassStr (a ++ b) := by
  induction ha with
  | nil => simpa using hb
  | char c w hc _ ih => exact ClassStr.char c _ hc ih
  | pct x y w hx hy _ ih => exact ClassStr.pct x y _ hx hy ih

theorem isHex_hexUpper : ∀ n : Fin 16, isHex (hexUpper n.val) = true := by decide

theorem isHex_hexUpper' (n : Nat) (h : n < 16) : isHex (hexUpper n) = true :=
  isHex_hexUpper ⟨n, h⟩

theorem classStr_pctBytes (bs : List UInt8) :
    ClassStr (bs.flatMap (fun b => ['%', hexUpper (b.toNat / 16), hexUpper (b.toNat % 16)])) := by
  induction bs with
  | nil => exact ClassStr.nil
  | cons b bs ih =>
    rw [List.flatMap_cons]
    have hb : b.toNat < 256 := UInt8.toNat_lt b
    exact ClassStr.pct _ _ _ (isHex_hexUpper' _ (by omega)) (isHex_hexUpper' _ (by omega)) ih

theorem classStr_pctEncode (c : Char) : ClassStr (pctEncode c) := classStr_pctBytes _

/-- what `escapeU` produces is a class string -/
theorem classStr_escapeU (v : Str) : ClassStr (escapeU v) := by
  unfold escapeU
  induction v with
  | nil => exact ClassStr.nil
  | cons c cs ih =>
    rw [List.flatMap_cons]
    refine ClassStr.append ?_ ih
    split
    · next h => exact ClassStr.char c [] (Or.inl h) ClassStr.nil
    · exact classStr_pctEncode c

/-! ### the body of a simple expression consumes class strings -/

theorem inClass_simple_of_class (named : Bool) (c : Char) (h : isUnreserved c = true ∨ c = ',') :
    inClass Op.simple.allowR named c = true := by
  rcases h with h | rfl
  · simp [inClass, h]
  · simp [inClass, Op.allowR]

/-- key lemma: a class string in front of an input the remaining items match is consumed by the body -/
theorem matchBody_classStr_append (vars : List VarSpec) (rest : List Item) (named : Bool) (seps : Seps)
    {w : Str} (hw : ClassStr w) (s : Str) (hs : matchItems rest s = true) :
    matchBody .simple vars rest named seps (w ++ s) = true := by
  induction hw with
  | nil =>
    cases s with
    | nil => rw [List.append_nil, matchBody_nil]; exact hs
    | cons c cs => rw [List.nil_append, matchBody_cons, hs]; simp
  | char c w hc _ ih =>
    rw [List.cons_append, matchBody_cons, ih, inClass_simple_of_class named c hc]; simp
  | pct a b w ha hb _ ih =>
    show matchBody .simple vars rest named seps ('%' :: a :: b :: (w ++ s)) = true
    rw [matchBody_pct, ih, ha, hb]; simp

theorem simple_expr_matches (v : VarSpec) (rest : List Item)
    {w : Str} (hw : ClassStr w) (s : Str) (hs : matchItems rest s = true) :
    matchItems (.expr .simple [v] :: rest) (w ++ s) = true := by
  rw [matchItems_expr]
  have : matchBody .simple [v] rest (firstNamed .simple [v])
      (match sepBound [v] with | none => some 0 | some b => b)
      (List.drop (Op.first .simple).length (w ++ s)) = true := by
    simp only [Op.first, List.length_nil, List.drop_zero]
    exact matchBody_classStr_append _ _ _ _ hw s hs
  rw [this]; simp [Op.first]

/-- **An expansion always matches** (level-1 templates): whatever values the variables take —
    any scalar sequence, or undefined — the expansion of the template is matched by the template. -/
theorem expansion_matches (items : List Item) (h : Level1 items) (vals : Str → Option Str) :
    matchItems items (expand1 vals items) = true := by
  induction items with
  | nil => simp [expand1, matchItems_nil]
  | cons it rest ih =>
    cases it with
    | lit l =>
      have hr : Level1 rest := h
      rw [matchItems_lit]
      simp only [expand1]
      rw [List.drop_left, ih hr]
      simp [List.isPrefixOf_iff_prefix]
    | expr op vars =>
      obtain ⟨rfl, ⟨n, rfl⟩, hr⟩ := h
      simp only [expand1]
      apply simple_expr_matches _ _ _ _ (ih hr)
      split
      · exact classStr_escapeU _
      · exact ClassStr.nil

/-! ### `literal{var}` -/

theorem inClass_ff (c : Char) : inClass false false c = true → (isUnreserved c = true ∨ c = ',') := by
  intro h
  simp [inClass] at h
  rcases h with h | h
  · exact Or.inr h
  · exact Or.inl h

theorem body_classStr (v : VarSpec) :
    ∀ (n : Nat) (s : Str), s.length ≤ n → matchBody .simple [v] [] false (some 0) s = true → ClassStr s := by
  intro n
  induction n with
  | zero =>
    intro s hl _
    cases s with
    | nil => exact ClassStr.nil
    | cons c cs => simp at hl
  | succ n ih =>
    intro s hl h
    cases s with
    | nil => exact ClassStr.nil
    | cons c cs =>
      rw [matchBody_cons] at h
      simp only [matchItems_nil, Seps.canUse, Op.allowR] at h
      simp only [Bool.or_eq_true, Bool.and_eq_true] at h
      simp only [List.length_cons] at hl
      rcases h with ((h | h) | h) | h
      · simp at h
      · exact ClassStr.char c cs (inClass_ff c h.1) (ih cs (by omega) h.2)
      · split at h
        · next a b cs' =>
          simp only [Bool.and_eq_true] at h
          exact ClassStr.pct a b cs' h.1.1 h.1.2 (ih cs' (by simp only [List.length_cons] at hl; omega) h.2)
        · simp at h
      · simp at h

/-- **`literal{var}` matches exactly prefix + class string**: the topic must start with the literal and
    continue with unreserved characters, commas and `%XX` triplets only — no `/`, `?`, `#`, `:`, space,
    non-ASCII character or stray `%`. -/
theorem lit_var_matches_iff (p : Str) (v : VarSpec) (hv : v.explode = false) (t : Str) :
    matchItems [.lit p, .expr .simple [v]] t = true ↔ ∃ w, t = p ++ w ∧ ClassStr w := by
  constructor
  · intro h
    rw [matchItems_lit, Bool.and_eq_true, List.isPrefixOf_iff_prefix] at h
    obtain ⟨⟨w, rfl⟩, h2⟩ := h
    refine ⟨w, rfl, ?_⟩
    rw [List.drop_left, matchItems_expr, matchItems_nil] at h2
    have hsb : sepBound [v] = none := by simp [sepBound, hv]
    have hfn : firstNamed .simple [v] = false := by simp [firstNamed, Op.named, hv]
    rw [hsb, hfn] at h2
    simp only [Op.first, List.length_nil, List.drop_zero, Bool.or_eq_true, Bool.and_eq_true] at h2
    rcases h2 with h2 | h2
    · have : w = [] := by simpa using h2
      subst this; exact ClassStr.nil
    · exact body_classStr v _ w (Nat.le_refl _) h2.2
  · rintro ⟨w, rfl, hw⟩
    rw [matchItems_lit, List.drop_left]
    have := simple_expr_matches v [] hw [] (by simp [matchItems_nil])
    rw [List.append_nil] at this
    rw [this]
    simp [List.isPrefixOf_iff_prefix]

end Mercure.Template
