#!/bin/bash
# Rebuild extract + driver + harness (hooks on) against /repo's working tree.
set -e
cd /verif
export GOFLAGS=-mod=mod GOPROXY=off GOEXPERIMENT=synctest
unset GOSUMDB
mkdir -p .build
cp /repo/go.sum harness/go.sum
(cd harness && go build -o ../.build/extract ./cmd/extract && go build -o ../.build/instrument ./cmd/instrument)
bdir=$(cd harness && go list -m -f '{{.Dir}}' go.etcd.io/bbolt)
./.build/instrument -bbolt "$bdir" .build/bbolt_tx.go
echo '{"Replace": {"/repo/verif_export_verif.go": "/verif/harness/overlay/verif_export.go", "'$bdir'/tx.go": "/verif/.build/bbolt_tx.go"}}' > .build/overlay.json
(cd harness && go build -tags verif -overlay ../.build/overlay.json -o ../.build/vh ./cmd/vh)
# instrumented build (controlled schedules): the three files with the hub's synchronisation are rewritten into an overlay
rm -rf .build/instr && ./.build/instrument /repo .build/instr bolt.go local.go localsubscriber.go
echo '{"Replace": {"/repo/verif_export_verif.go": "/verif/harness/overlay/verif_export.go", "/repo/bolt.go": "/verif/.build/instr/bolt.go", "/repo/local.go": "/verif/.build/instr/local.go", "/repo/localsubscriber.go": "/verif/.build/instr/localsubscriber.go", "'$bdir'/tx.go": "/verif/.build/bbolt_tx.go"}}' > .build/overlay-instr.json
(cd harness && go build -tags verif -overlay ../.build/overlay-instr.json -o ../.build/vhs ./cmd/vh)
# race-detector build (dynamic cross-check of the lock discipline)
(cd harness && CGO_ENABLED=1 go build -race -tags verif -overlay ../.build/overlay.json -o ../.build/vhr ./cmd/vh)
./.build/extract lean/Mercure/Generated/Facts.lean .build/facts.json /repo
(cd lean && lake build driver 2>&1 | grep -v "^✔" | grep -v "Build completed" || true)
