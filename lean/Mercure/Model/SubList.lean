import Mercure.Model.Basic
/-
  Mercure.Model.SubList — subscriberlist.go (encode / decode) and kevburnsjr/skipfilter
  (Add / Remove / MatchAny / Walk with the per-signature cached bitmaps and their LRU).
-/
namespace Mercure

def escChar : Char := Char.ofNat 0     -- escape = '\x00'
def delimChar : Char := Char.ofNat 1   -- delim  = '\x01'

/-- `replacer.Replace` (subscriberlist.go:21-24): single-scalar patterns, so a per-scalar map. -/
def escapeTopic : Str → Str
  | [] => []
  | c :: cs =>
    if c = escChar then escChar :: escChar :: escapeTopic cs
    else if c = delimChar then escChar :: delimChar :: escapeTopic cs
    else c :: escapeTopic cs

/-- `encode` (subscriberlist.go:34-49). Sorts a copy (the Go code sorts in place). -/
def encode (topics : List Str) (priv : Bool) : Str :=
  joinWith [delimChar] ([if priv then '1' else '0'] :: (sortStrs topics).map escapeTopic)

structure DecSt where
  privateExtracted : Bool := false
  inEscape : Bool := false
  builder : Str := []           -- reversed
  priv : Bool := false
  topics : List Str := []       -- reversed

def decodeStep (st : DecSt) (c : Char) : DecSt :=
  if st.inEscape then { st with builder := c :: st.builder, inEscape := false }
  else if c = escChar then { st with inEscape := true }
  else if c = delimChar then
    if !st.privateExtracted then
      { st with priv := (st.builder.reverse == ['1']), builder := [], privateExtracted := true }
    else { st with topics := st.builder.reverse :: st.topics, builder := [] }
  else { st with builder := c :: st.builder }

/-- `decode` (subscriberlist.go:51-90). -/
def decode (f : Str) : List Str × Bool :=
  let st := f.foldl decodeStep {}
  ((st.builder.reverse :: st.topics).reverse, st.priv)

/-! ### skipfilter -/

structure Filter where
  i   : Nat
  set : List Nat         -- ascending ids
  deriving Repr, DecidableEq

structure SkipFilter (V : Type) where
  next  : Nat := 0
  list  : List (Nat × V) := []        -- ascending ids
  cache : List (Str × Filter) := []   -- most recently used first
  cap   : Nat
  deriving Repr

namespace SkipFilter
variable {V : Type}

def new (size : Nat) : SkipFilter V := { cap := if size == 0 then 100000 else size }

def add (sf : SkipFilter V) (v : V) : SkipFilter V :=
  { sf with list := sf.list ++ [(sf.next, v)], next := sf.next + 1 }

/-- Remove by identity; the model identifies a value by its id (`idx[value]`). -/
def removeId (sf : SkipFilter V) (id : Nat) : SkipFilter V :=
  { sf with list := sf.list.filter (·.1 != id) }

def insertSorted (x : Nat) : List Nat → List Nat
  | [] => [x]
  | y :: ys => if x < y then x :: y :: ys else if x = y then y :: ys else y :: insertSorted x ys

/-- getFilter: fetch-or-create the cached filter for `k`, extend it to `next`. -/
def lookupFilter (cache : List (Str × Filter)) (k : Str) : Filter × List (Str × Filter) :=
  match cache.find? (fun e => e.1 == k) with
  | some e => (e.2, cache.filter (fun e => e.1 != k))
  | none => ({ i := 0, set := [] }, cache)

def extendFilter (test : V → Str → Bool) (sf : SkipFilter V) (k : Str) (f : Filter) : Filter :=
  if f.i < sf.next then
    { i := sf.next,
      set := (sf.list.filter (fun (e : Nat × V) => decide (f.i ≤ e.1) && test e.2 k)).foldl
               (fun s (e : Nat × V) => insertSorted e.1 s) f.set }
  else f

def getFilter (test : V → Str → Bool) (sf : SkipFilter V) (k : Str) : Filter × SkipFilter V :=
  let fc := lookupFilter sf.cache k
  let f' := extendFilter test sf k fc.1
  let cache'' := (k, f') :: fc.2
  let cache3 := if cache''.length > sf.cap then cache''.dropLast else cache''
  (f', { sf with cache := cache3 })

/-- MatchAny for one filter key: values whose id is in the filter's set and still in the list;
    ids no longer in the list are purged from the (shared, cached) filter. -/
def matchAny (test : V → Str → Bool) (sf : SkipFilter V) (k : Str) : List (Nat × V) × SkipFilter V :=
  let r := getFilter test sf k
  let f := r.1
  let sf1 := r.2
  let found := sf1.list.filter (fun (e : Nat × V) => f.set.contains e.1)
  let liveIds := sf1.list.map (fun (e : Nat × V) => e.1)
  let f2 : Filter := { f with set := f.set.filter (liveIds.contains ·) }
  -- the purge mutates the filter object, which is still in the cache unless it was evicted at once
  let cache2 := sf1.cache.map (fun (e : Str × Filter) => if e.1 == k then (k, f2) else e)
  (found, { sf1 with cache := cache2 })

/-- An arbitrary eviction (⊇ what the LRU can do). -/
def evict (sf : SkipFilter V) (k : Str) : SkipFilter V :=
  { sf with cache := sf.cache.filter (·.1 != k) }

def walkAll (sf : SkipFilter V) : List (Nat × V) := sf.list

end SkipFilter

/-- Operations on the index; `evict` may drop any cached signature at any time (⊇ what the LRU does). -/
inductive SfOp (V : Type) where
  | add (v : V)
  | remove (id : Nat)
  | dispatch (k : Str)
  | evict (k : Str)

def sfApply {V : Type} (test : V → Str → Bool) (sf : SkipFilter V) : SfOp V → SkipFilter V
  | .add v => sf.add v
  | .remove id => sf.removeId id
  | .dispatch k => (sf.matchAny test k).2
  | .evict k => sf.evict k

def sfRun {V : Type} (test : V → Str → Bool) (cap : Nat) (ops : List (SfOp V)) : SkipFilter V :=
  ops.foldl (sfApply test) (SkipFilter.new cap)

end Mercure
