import Mercure.Model.Sys
/-
  Lemmas for C06 / C07 over the region-level model (`Mercure.Sys`), repaired flags.
  Put helper lemmas in this namespace only.
-/
namespace Mercure.Sys.Stream
open Mercure.Sys
set_option linter.unusedSimpArgs false

/-! #### part P1 -/
/-! ### get / set -/

theorem zipIdx_map_getElem? {α : Type} (l : List α) (s : Nat) (f : α → α) (j : Nat) :
    (l.zipIdx.map (fun p => if p.2 == s then f p.1 else p.1))[j]? =
      (l[j]?).map (fun x => if j = s then f x else x) := by
  simp [List.getElem?_map, List.getElem?_zipIdx]
  cases l[j]? <;> simp

@[simp] theorem setSub_tr (σ : Sys) (s f) : (setSub σ s f).tr = σ.tr := rfl
@[simp] theorem setSub_threads (σ : Sys) (s f) : (setSub σ s f).threads = σ.threads := rfl
@[simp] theorem setSub_flags (σ : Sys) (s f) : (setSub σ s f).flags = σ.flags := rfl
@[simp] theorem setSub_panic (σ : Sys) (s f) : (setSub σ s f).panic = σ.panic := rfl
@[simp] theorem setTr_tr (σ : Sys) (f) : (setTr σ f).tr = f σ.tr := rfl
@[simp] theorem setTr_subs (σ : Sys) (f) : (setTr σ f).subs = σ.subs := rfl
@[simp] theorem setTr_threads (σ : Sys) (f) : (setTr σ f).threads = σ.threads := rfl
@[simp] theorem setTr_flags (σ : Sys) (f) : (setTr σ f).flags = σ.flags := rfl
@[simp] theorem setTr_panic (σ : Sys) (f) : (setTr σ f).panic = σ.panic := rfl
@[simp] theorem setThread_tr (σ : Sys) (i f) : (setThread σ i f).tr = σ.tr := rfl
@[simp] theorem setThread_subs (σ : Sys) (i f) : (setThread σ i f).subs = σ.subs := rfl
@[simp] theorem setThread_flags (σ : Sys) (i f) : (setThread σ i f).flags = σ.flags := rfl
@[simp] theorem setThread_panic (σ : Sys) (i f) : (setThread σ i f).panic = σ.panic := rfl
@[simp] theorem getSub_setTr (σ : Sys) (f s) : getSub (setTr σ f) s = getSub σ s := rfl
@[simp] theorem getSub_setThread (σ : Sys) (i f s) : getSub (setThread σ i f) s = getSub σ s := rfl

@[simp] theorem setSub_subs_length (σ : Sys) (s f) : (setSub σ s f).subs.length = σ.subs.length := by
  simp [setSub]

theorem setSub_subs_getElem? (σ : Sys) (s f j) :
    (setSub σ s f).subs[j]? = (σ.subs[j]?).map (fun x => if j = s then f x else x) := by
  simp only [setSub]; exact zipIdx_map_getElem? _ _ _ _

theorem getSub_setSub (σ : Sys) (s : Nat) (f : Sub → Sub) (j : Nat) (hs : s < σ.subs.length) :
    getSub (setSub σ s f) j = if j = s then f (getSub σ s) else getSub σ j := by
  unfold getSub
  simp only [List.getD_eq_getElem?_getD, setSub_subs_getElem?]
  by_cases hj : j = s
  · subst hj; simp [List.getElem?_eq_getElem hs]
  · simp [hj]

theorem setThread_getElem? (σ : Sys) (i : Nat) (f : Thread → Thread) (j : Nat) :
    (setThread σ i f).threads[j]? = (σ.threads[j]?).map (fun x => if j = i then f x else x) := by
  simp only [setThread]; exact zipIdx_map_getElem? _ _ _ _

@[simp] theorem setThread_threads_length (σ : Sys) (i f) : (setThread σ i f).threads.length = σ.threads.length := by
  simp [setThread]

theorem mem_subs_iff_getSub {σ : Sys} {b : Sub} : b ∈ σ.subs ↔ ∃ s, s < σ.subs.length ∧ getSub σ s = b := by
  constructor
  · intro h
    obtain ⟨s, hs, rfl⟩ := List.getElem_of_mem h
    exact ⟨s, hs, by simp [getSub, List.getD_eq_getElem?_getD, List.getElem?_eq_getElem hs]⟩
  · rintro ⟨s, hs, rfl⟩
    simp [getSub, List.getD_eq_getElem?_getD, List.getElem?_eq_getElem hs]

/-! #### part P2 -/
/-- Thread `i` replaces its stack (no administrative transitions yet). -/
def plain (σ : Sys) (i : Nat) (stack : List Frame) (last : Option Bool) (r : Option Ret) : Sys :=
  setThread σ i (fun t => retOf stack t r last)

def flushStack (s : Nat) (q : List Upd) (rest : List Frame) : List Frame :=
  match q with
  | [] => .sReady s 6 [] :: rest
  | _ :: _ => .sReady s 3 q :: rest

def recipsOf (σ : Sys) (u : Upd) : List Nat := σ.tr.index.filter (fun s => (getSub σ s).matches u)

def endViewTr (t : Tr) : Tr :=
  match t.kind with
  | .bolt => { t with readers := t.readers - 1 }
  | Kind.«local» => t

def updSub (σ : Sys) : Option (Nat × (Sub → Sub)) → Sys
  | none => σ
  | some (s, f) => setSub σ s f

/-- Canonical form of a transition's effect: one subscriber update, one transport update, thread `i`'s new stack. -/
def upd (σ : Sys) (i : Nat) (sf : Option (Nat × (Sub → Sub))) (g : Tr → Tr) (st : List Frame)
    (l : Option Bool) (r : Option Ret) : Sys :=
  plain (setTr (updSub σ sf) g) i st l r

/-- The transitions of `step` under the repaired flags, flattened. -/
inductive Trans (σ : Sys) (i : Nat) : List Frame → Sys → Prop
  -- s.Dispatch
  | sD0a {s u h rest} : (getSub σ s).disconnected = true →
      Trans σ i (.sDispatch s u h 0 :: rest) (upd σ i none id rest (some false) none)
  | sD0b {s u h rest} : (getSub σ s).disconnected = false →
      Trans σ i (.sDispatch s u h 0 :: rest) (upd σ i none id (.sDispatch s u h 1 :: rest) none none)
  | sD1a {s u h rest} : h = false → (getSub σ s).ready = false →
      Trans σ i (.sDispatch s u h 1 :: rest) (upd σ i none id (.sDispatch s u h 2 :: rest) none none)
  | sD1b {s u h rest} : (h = true ∨ (getSub σ s).ready = true) →
      Trans σ i (.sDispatch s u h 1 :: rest) (upd σ i none id (.sDispatch s u h 3 :: rest) none none)
  | sD2a {s u h rest} : (getSub σ s).liveOwner = none → (getSub σ s).ready = false →
      Trans σ i (.sDispatch s u h 2 :: rest)
        (upd σ i (some (s, fun b => { b with liveQueue := b.liveQueue ++ [u] })) id rest (some true) none)
  | sD2b {s u h rest} : (getSub σ s).liveOwner = none → (getSub σ s).ready = true →
      Trans σ i (.sDispatch s u h 2 :: rest) (upd σ i none id (.sDispatch s u h 3 :: rest) none none)
  | sD3 {s u h rest} : (getSub σ s).outOwner = none →
      Trans σ i (.sDispatch s u h 3 :: rest)
        (upd σ i (some (s, fun b => { b with outOwner := some i })) id (.sDispatch s u h 4 :: rest) none none)
  | sD4a {s u h rest} : (getSub σ s).disconnected = true →
      Trans σ i (.sDispatch s u h 4 :: rest)
        (upd σ i (some (s, fun b => { b with outOwner := none })) id rest (some false) none)
  | sD4b {s u h rest} : (getSub σ s).disconnected = false →
      Trans σ i (.sDispatch s u h 4 :: rest) (upd σ i none id (.sDispatch s u h 5 :: rest) none none)
  | sD5a {s u h rest} : (getSub σ s).outClosed = false → (getSub σ s).out.length < (getSub σ s).cap →
      Trans σ i (.sDispatch s u h 5 :: rest)
        (upd σ i (some (s, fun b => { b with out := b.out ++ [u], enq := b.enq ++ [u], outOwner := none })) id rest (some true) none)
  | sD5b {s u h rest} : (getSub σ s).outClosed = false → ¬ (getSub σ s).out.length < (getSub σ s).cap →
      Trans σ i (.sDispatch s u h 5 :: rest) (upd σ i none id (.sDispatch s u h 6 :: rest) none none)
  | sD6 {s u h rest} :
      Trans σ i (.sDispatch s u h 6 :: rest)
        (upd σ i (some (s, fun b => { b with disconnected := true })) id (.sDispatch s u h 7 :: rest) none none)
  | sD7 {s u h rest pc} : (getSub σ s).outClosed = false →
      Trans σ i (.sDispatch s u h (pc + 7) :: rest)
        (upd σ i (some (s, fun b => { b with outClosed := true, outOwner := none })) id rest (some false) none)
  -- s.Ready
  | sR0 {s q rest} : (getSub σ s).liveOwner = none →
      Trans σ i (.sReady s 0 q :: rest)
        (upd σ i (some (s, fun b => { b with liveOwner := some i })) id (.sReady s 1 [] :: rest) none none)
  | sR1 {s q rest} : (getSub σ s).outOwner = none →
      Trans σ i (.sReady s 1 q :: rest)
        (upd σ i (some (s, fun b => { b with outOwner := some i })) id (.sReady s 2 (getSub σ s).liveQueue :: rest) none none)
  | sR2a {s q rest} : (getSub σ s).disconnected = true →
      Trans σ i (.sReady s 2 q :: rest)
        (upd σ i (some (s, fun b => { b with outOwner := none, liveOwner := none })) id rest none none)
  | sR2b {s q rest} : (getSub σ s).disconnected = false →
      Trans σ i (.sReady s 2 q :: rest) (upd σ i none id (flushStack s q rest) none none)
  | sR3nil {s rest} :
      Trans σ i (.sReady s 3 [] :: rest) (upd σ i none id (.sReady s 6 [] :: rest) none none)
  | sR3a {s u q' rest} : (getSub σ s).outClosed = false → (getSub σ s).out.length < (getSub σ s).cap →
      Trans σ i (.sReady s 3 (u :: q') :: rest)
        (upd σ i (some (s, fun b => { b with out := b.out ++ [u], enq := b.enq ++ [u] })) id (flushStack s q' rest) none none)
  | sR3b {s u q' rest} : (getSub σ s).outClosed = false → ¬ (getSub σ s).out.length < (getSub σ s).cap →
      Trans σ i (.sReady s 3 (u :: q') :: rest) (upd σ i none id (.sReady s 4 (u :: q') :: rest) none none)
  | sR4 {s q rest} :
      Trans σ i (.sReady s 4 q :: rest)
        (upd σ i (some (s, fun b => { b with disconnected := true })) id (.sReady s 5 q :: rest) none none)
  | sR5 {s q rest} : (getSub σ s).outClosed = false →
      Trans σ i (.sReady s 5 q :: rest)
        (upd σ i (some (s, fun b => { b with outClosed := true, outOwner := none, liveOwner := none })) id rest none none)
  | sR6 {s q rest pc} :
      Trans σ i (.sReady s (pc + 6) q :: rest)
        (upd σ i (some (s, fun b => { b with ready := true, outOwner := none, liveOwner := none })) id rest none none)
  -- s.Disconnect
  | sX0a {s rest} : (getSub σ s).disconnected = true →
      Trans σ i (.sDisconnect s 0 :: rest) (upd σ i none id rest none none)
  | sX0b {s rest} : (getSub σ s).disconnected = false →
      Trans σ i (.sDisconnect s 0 :: rest) (upd σ i none id (.sDisconnect s 1 :: rest) none none)
  | sX1 {s rest} : (getSub σ s).outOwner = none →
      Trans σ i (.sDisconnect s 1 :: rest)
        (upd σ i (some (s, fun b => { b with outOwner := some i })) id (.sDisconnect s 2 :: rest) none none)
  | sX2a {s rest} : (getSub σ s).disconnected = true →
      Trans σ i (.sDisconnect s 2 :: rest) (upd σ i (some (s, fun b => { b with outOwner := none })) id rest none none)
  | sX2b {s rest} : (getSub σ s).disconnected = false →
      Trans σ i (.sDisconnect s 2 :: rest) (upd σ i none id (.sDisconnect s 3 :: rest) none none)
  | sX3 {s rest} :
      Trans σ i (.sDisconnect s 3 :: rest)
        (upd σ i (some (s, fun b => { b with disconnected := true })) id (.sDisconnect s 4 :: rest) none none)
  | sX4 {s rest pc} : (getSub σ s).outClosed = false →
      Trans σ i (.sDisconnect s (pc + 4) :: rest)
        (upd σ i (some (s, fun b => { b with outClosed := true, outOwner := none })) id rest none none)
  -- t.Dispatch
  | tD0a {u rs rest} : σ.tr.closedCh = true →
      Trans σ i (.tDispatch u 0 rs :: rest) (upd σ i none id rest none (some .errClosed))
  | tD0b {u rs rest} : σ.tr.closedCh = false →
      Trans σ i (.tDispatch u 0 rs :: rest) (upd σ i none id (.tDispatch u 1 [] :: rest) none none)
  | tD1 {u rs rest} : σ.tr.writer = none →
      Trans σ i (.tDispatch u 1 rs :: rest)
        (upd σ i none (fun t => { t with writer := some i }) (.tDispatch u 2 [] :: rest) none none)
  | tD2ba {u rs rest} : σ.tr.kind = .bolt → σ.tr.dbClosed = true →
      Trans σ i (.tDispatch u 2 rs :: rest)
        (upd σ i none (fun t => { t with writer := none }) rest none (some .errDb))
  | tD2bb {u rs rest} : σ.tr.kind = .bolt → σ.tr.dbClosed = false →
      Trans σ i (.tDispatch u 2 rs :: rest)
        (upd σ i none (fun t => { t with seq := t.seq + 1, lastSeq := t.seq + 1, lastId := Resp.id u.id, bucket := true, db := retain t.size (t.seq + 1) (t.db ++ [(t.seq + 1, u)]), accepted := t.accepted ++ [u] }) (.tDispatch u 3 [] :: rest) none none)
  | tD3b {u rs rest pc} : σ.tr.kind = .bolt →
      Trans σ i (.tDispatch u (pc + 3) rs :: rest) (upd σ i none id (.tDispatch u 9 (recipsOf σ u) :: rest) none none)
  | tD2l {u rs rest pc} : σ.tr.kind = Kind.«local» →
      Trans σ i (.tDispatch u (pc + 2) rs :: rest)
        (upd σ i none (fun t => { t with accepted := t.accepted ++ [u] }) (.tDispatch u 9 (recipsOf σ u) :: rest) none none)
  -- t.AddSubscriber
  | tA0a {s ts sc rp rest} : σ.tr.closedCh = true →
      Trans σ i (.tAdd s 0 ts sc rp :: rest) (upd σ i none id rest none (some .errClosed))
  | tA0b {s ts sc rp rest} : σ.tr.closedCh = false →
      Trans σ i (.tAdd s 0 ts sc rp :: rest) (upd σ i none id (.tAdd s 1 0 [] .earliest :: rest) none none)
  | tA1 {s ts sc rp rest} : σ.tr.writer = none →
      Trans σ i (.tAdd s 1 ts sc rp :: rest)
        (upd σ i none (fun t => { t with writer := some i }) (.tAdd s 2 0 [] .earliest :: rest) none none)
  | tA2lr {s ts sc rp rest} : σ.tr.kind = Kind.«local» → (getSub σ s).req ≠ .none →
      Trans σ i (.tAdd s 2 ts sc rp :: rest)
        (upd σ i (some (s, fun b => { b with joinedAt := some σ.tr.accepted.length })) (fun t => { t with index := t.index ++ [s] }) (.tAdd s 4 0 [] .earliest :: rest) none none)
  | tA2ln {s ts sc rp rest} : σ.tr.kind = Kind.«local» → (getSub σ s).req = .none →
      Trans σ i (.tAdd s 2 ts sc rp :: rest)
        (upd σ i (some (s, fun b => { b with joinedAt := some σ.tr.accepted.length })) (fun t => { t with index := t.index ++ [s] }) (.sReady s 0 [] :: .tAdd s 7 0 [] .earliest :: rest) none none)
  | tA2br {s ts sc rp rest} : σ.tr.kind = .bolt → (getSub σ s).req ≠ .none →
      Trans σ i (.tAdd s 2 ts sc rp :: rest)
        (upd σ i (some (s, fun b => { b with joinedAt := some σ.tr.accepted.length })) (fun t => { t with index := t.index ++ [s], writer := none }) (.tAdd s 3 σ.tr.lastSeq [] .earliest :: rest) none none)
  | tA2bn {s ts sc rp rest} : σ.tr.kind = .bolt → (getSub σ s).req = .none →
      Trans σ i (.tAdd s 2 ts sc rp :: rest)
        (upd σ i (some (s, fun b => { b with joinedAt := some σ.tr.accepted.length })) (fun t => { t with index := t.index ++ [s], writer := none }) (.sReady s 0 [] :: .tAdd s 7 0 [] .earliest :: rest) none none)
  | tA3a {s ts sc rp rest} : σ.tr.dbClosed = true →
      Trans σ i (.tAdd s 3 ts sc rp :: rest) (upd σ i none id rest none (some .errDb))
  | tA3b {s ts sc rp rest} : σ.tr.dbClosed = false → σ.tr.bucket = false →
      Trans σ i (.tAdd s 3 ts sc rp :: rest)
        (upd σ i none (fun t => { t with readers := t.readers + 1 }) (.tAdd s 4 ts [] .earliest :: rest) none none)
  | tA3c {s ts sc rp rest} : σ.tr.dbClosed = false → σ.tr.bucket = true →
      Trans σ i (.tAdd s 3 ts sc rp :: rest)
        (upd σ i none (fun t => { t with readers := t.readers + 1 })
          (scanLoop σ.flags (getSub σ s) s ts ((scanFrom σ.tr.db (getSub σ s).req).2.length + 1)
            (scanFrom σ.tr.db (getSub σ s).req).2 (scanFrom σ.tr.db (getSub σ s).req).1 ++ rest) none none)
  | tA4 {s ts sc rp rest pc} :
      Trans σ i (.tAdd s (pc + 4) ts sc rp :: rest)
        (upd σ i (some (s, fun b => { b with resp := some rp })) endViewTr (.sReady s 0 [] :: .tAdd s 7 0 [] .earliest :: rest) none none)
  -- t.RemoveSubscriber
  | tM0a {s rest} : σ.tr.closedCh = true →
      Trans σ i (.tRemove s 0 :: rest) (upd σ i none id rest none (some .errClosed))
  | tM0b {s rest} : σ.tr.closedCh = false →
      Trans σ i (.tRemove s 0 :: rest) (upd σ i none id (.tRemove s 1 :: rest) none none)
  | tM1 {s rest} : σ.tr.writer = none →
      Trans σ i (.tRemove s 1 :: rest) (upd σ i none (fun t => { t with writer := some i }) (.tRemove s 2 :: rest) none none)
  | tM2 {s rest pc} :
      Trans σ i (.tRemove s (pc + 2) :: rest)
        (upd σ i none (fun t => { t with index := t.index.filter (· != s), writer := none }) rest none (some .ok))
  -- t.Close
  | tC0a {td rest} : σ.tr.onceDone = true →
      Trans σ i (.tClose 0 td :: rest) (upd σ i none id rest none (some .ok))
  | tC0b {td rest} : σ.tr.onceDone = false → σ.tr.onceRunning = none →
      Trans σ i (.tClose 0 td :: rest) (upd σ i none (fun t => { t with onceRunning := some i }) (.tClose 1 [] :: rest) none none)
  | tC1b {td rest} : σ.tr.kind = .bolt →
      Trans σ i (.tClose 1 td :: rest) (upd σ i none (fun t => { t with closedCh := true }) (.tClose 2 [] :: rest) none none)
  | tC2b {td rest} : σ.tr.kind = .bolt → σ.tr.writer = none →
      Trans σ i (.tClose 2 td :: rest) (upd σ i none (fun t => { t with writer := some i }) (.tClose 3 [] :: rest) none none)
  | tC3b {td rest} : σ.tr.kind = .bolt →
      Trans σ i (.tClose 3 td :: rest) (upd σ i none (fun t => { t with walked := t.index }) (.tClose 9 σ.tr.index :: rest) none none)
  | tC4b {td rest pc} : σ.tr.kind = .bolt → ¬ σ.tr.readers > 0 →
      Trans σ i (.tClose (pc + 4) td :: rest)
        (upd σ i none (fun t => { t with dbClosed := true, writer := none, onceRunning := none, onceDone := true }) rest none (some .ok))
  | tC1l {td rest} : σ.tr.kind = Kind.«local» → σ.tr.writer = none →
      Trans σ i (.tClose 1 td :: rest) (upd σ i none (fun t => { t with writer := some i }) (.tClose 2 [] :: rest) none none)
  | tC2l {td rest} : σ.tr.kind = Kind.«local» →
      Trans σ i (.tClose 2 td :: rest) (upd σ i none (fun t => { t with closedCh := true }) (.tClose 3 [] :: rest) none none)
  | tC3l {td rest pc} : σ.tr.kind = Kind.«local» →
      Trans σ i (.tClose (pc + 3) td :: rest) (upd σ i none (fun t => { t with walked := t.index }) (.tClose 9 σ.tr.index :: rest) none none)
  -- list / recv
  | tL {rest} : σ.tr.writer = none →
      Trans σ i (.tList :: rest) (upd σ i none id rest none (some (.listed σ.tr.lastId σ.tr.index)))
  | uRa {s u more rest} : (getSub σ s).out = u :: more →
      Trans σ i (.uRecv s :: rest)
        (upd σ i (some (s, fun b => { b with out := more, received := b.received ++ [u] })) id rest none (some (.got (some u) true)))
  | uRb {s rest} : (getSub σ s).out = [] →
      Trans σ i (.uRecv s :: rest) (upd σ i none id rest none (some (.got none (!(getSub σ s).outClosed))))

/-! #### part P3 -/
macro "tr_close" th:ident hth:ident hp:ident hst:ident : tactic => `(tactic| first
      | exact Or.inl rfl
      | exact Or.inr (Or.inl ⟨_, rfl⟩)
      | (right; right; refine ⟨$th, $hth, $hp, _, _, ?_, ?_, rfl⟩; omega; rw [$hst:ident]; constructor <;> simp_all; done)
      | (exfalso; simp_all; done))

theorem step_trans {σ : Sys} {i : Nat} (hfl : σ.flags = Flags.repaired) :
    (step σ i).σ = σ ∨ (∃ msg, (step σ i).σ = { σ with panic := some msg }) ∨
      ∃ th, σ.threads[i]? = some th ∧ σ.panic = none ∧
        ∃ n σp, 2 ≤ n ∧ Trans σ i th.stack σp ∧ (step σ i).σ = normalize i n σp := by
  have f1 : σ.flags.closeOnOverflow = true := by rw [hfl]; rfl
  have f2 : σ.flags.readyGuard = true := by rw [hfl]; rfl
  have f3 : σ.flags.disconnectRecheck = true := by rw [hfl]; rfl
  have f4 : σ.flags.localMatchLocked = true := by rw [hfl]; rfl
  have f6 : σ.flags.cutBeforeDispatch = true := by rw [hfl]; rfl
  unfold step
  split
  · exact Or.inl rfl
  rename_i hp
  have hp : σ.panic = none := by simpa using hp
  split
  · exact Or.inl rfl
  rename_i th hth
  split
  · exact Or.inl rfl
  rename_i fr rest hst
  cases fr with
  | sDispatch s u h pc =>
    rcases pc with _|_|_|_|_|_|_|pc
    all_goals simp only [f1, f2, f3, f4, f6]
    all_goals repeat' split
    all_goals first
      | tr_close th hth hp hst
      | (right; right; refine ⟨th, hth, hp, _, _, ?_, ?_, rfl⟩; omega; rw [hst]; constructor <;> (cases h <;> simp_all); done)
  | sReady s pc q =>
    rcases pc with _|_|_|_|_|_|pc
    all_goals simp only [f1, f2, f3, f4, f6]
    all_goals repeat' split
    all_goals first
      | tr_close th hth hp hst
  | sDisconnect s pc =>
    rcases pc with _|_|_|_|pc
    all_goals simp only [f1, f2, f3, f4, f6]
    all_goals repeat' split
    all_goals first
      | tr_close th hth hp hst
  | tDispatch u pc rs =>
    rcases hk : σ.tr.kind with _ | _
    all_goals rcases pc with _|_|_|pc
    all_goals simp only [f1, f2, f3, f4, f6, hk]
    all_goals repeat' split
    all_goals first
      | tr_close th hth hp hst
  | tAdd s pc ts sc rp =>
    rcases pc with _|_|_|_|pc
    case succ.succ.succ.succ =>
      right; right
      refine ⟨th, hth, hp, (setSub σ s (fun b => { b with resp := some rp })).subs.length + 8, _, by omega,
        hst ▸ Trans.tA4 (pc := pc) (rest := rest), ?_⟩
      simp only [upd, updSub, plain, setTr, endViewTr, setSub_tr]
      rcases hk : σ.tr.kind with _ | _ <;> simp only [hk] <;> rfl
    all_goals simp only [f1, f2, f3, f4, f6]
    all_goals repeat' split
    all_goals first
      | tr_close th hth hp hst
  | tRemove s pc =>
    rcases pc with _|_|pc
    all_goals simp only [f1, f2, f3, f4, f6]
    all_goals repeat' split
    all_goals first
      | tr_close th hth hp hst
  | tClose pc td =>
    rcases hk : σ.tr.kind with _ | _
    all_goals rcases pc with _|_|_|_|pc
    all_goals simp only [f1, f2, f3, f4, f6, hk]
    all_goals repeat' split
    all_goals first
      | tr_close th hth hp hst
      | (right; right; refine ⟨th, hth, hp, _, _, ?_, ?_, rfl⟩; omega; rw [hst]; exact Trans.tC3l (pc := 0) hk)
  | tList =>
    simp only [f1, f2, f3, f4, f6]
    repeat' split
    all_goals first
      | tr_close th hth hp hst
  | uRecv s =>
    simp only [f1, f2, f3, f4, f6]
    repeat' split
    all_goals first
      | tr_close th hth hp hst

/-! #### part P4 -/
@[simp] theorem plain_tr (σ : Sys) (i st l r) : (plain σ i st l r).tr = σ.tr := rfl
@[simp] theorem plain_subs (σ : Sys) (i st l r) : (plain σ i st l r).subs = σ.subs := rfl
@[simp] theorem plain_flags (σ : Sys) (i st l r) : (plain σ i st l r).flags = σ.flags := rfl
@[simp] theorem plain_panic (σ : Sys) (i st l r) : (plain σ i st l r).panic = σ.panic := rfl
@[simp] theorem getSub_plain (σ : Sys) (i st l r s) : getSub (plain σ i st l r) s = getSub σ s := rfl

theorem plain_threads (σ : Sys) (i st l r j) :
    (plain σ i st l r).threads[j]? = (σ.threads[j]?).map (fun t => if j = i then retOf st t r l else t) :=
  setThread_getElem? _ _ _ _

@[simp] theorem updSub_tr (σ : Sys) (sf) : (updSub σ sf).tr = σ.tr := by
  cases sf with | none => rfl | some p => rfl
@[simp] theorem updSub_threads (σ : Sys) (sf) : (updSub σ sf).threads = σ.threads := by
  cases sf with | none => rfl | some p => rfl
@[simp] theorem updSub_flags (σ : Sys) (sf) : (updSub σ sf).flags = σ.flags := by
  cases sf with | none => rfl | some p => rfl
@[simp] theorem updSub_panic (σ : Sys) (sf) : (updSub σ sf).panic = σ.panic := by
  cases sf with | none => rfl | some p => rfl
@[simp] theorem updSub_subs_length (σ : Sys) (sf) : (updSub σ sf).subs.length = σ.subs.length := by
  cases sf with | none => rfl | some p => exact setSub_subs_length _ _ _
@[simp] theorem updSub_none (σ : Sys) : updSub σ none = σ := rfl
@[simp] theorem updSub_some (σ : Sys) (s f) : updSub σ (some (s, f)) = setSub σ s f := rfl

@[simp] theorem upd_tr (σ : Sys) (i sf g st l r) : (upd σ i sf g st l r).tr = g σ.tr := by
  simp [upd]
@[simp] theorem upd_subs (σ : Sys) (i sf g st l r) : (upd σ i sf g st l r).subs = (updSub σ sf).subs := rfl
@[simp] theorem upd_flags (σ : Sys) (i sf g st l r) : (upd σ i sf g st l r).flags = σ.flags := by
  simp [upd]
@[simp] theorem upd_panic (σ : Sys) (i sf g st l r) : (upd σ i sf g st l r).panic = σ.panic := by
  simp [upd]
@[simp] theorem getSub_upd (σ : Sys) (i sf g st l r s) : getSub (upd σ i sf g st l r) s = getSub (updSub σ sf) s := rfl

theorem upd_threads (σ : Sys) (i sf g st l r j) :
    (upd σ i sf g st l r).threads[j]? = (σ.threads[j]?).map (fun t => if j = i then retOf st t r l else t) := by
  simp only [upd, plain_threads, setTr_threads, updSub_threads]

theorem getSub_updSub_cases (σ : Sys) (sf : Option (Nat × (Sub → Sub))) (s' : Nat) :
    getSub (updSub σ sf) s' = getSub σ s' ∨
      ∃ s f, sf = some (s, f) ∧ s' = s ∧ getSub (updSub σ sf) s' = f (getSub σ s) := by
  cases sf with
  | none => exact Or.inl rfl
  | some p =>
    obtain ⟨s, f⟩ := p
    simp only [updSub_some]
    unfold getSub
    simp only [List.getD_eq_getElem?_getD, setSub_subs_getElem?]
    by_cases h : s' = s
    · subst h
      cases hs : σ.subs[s']? with
      | none => left; simp
      | some b => right; exact ⟨s', f, rfl, rfl, by simp [hs]⟩
    · left; simp [h]

/-- Administrative transitions under the repaired flags, flattened. -/
inductive Adm (σ : Sys) (i : Nat) (th : Thread) : Sys → Prop
  | d9c {u s rs rest} : th.stack = .tDispatch u 9 (s :: rs) :: rest →
      Adm σ i th (upd σ i none id (.sDispatch s u false 0 :: .tDispatch u 9 rs :: rest) none none)
  | d9nB {u rest} : σ.tr.kind = .bolt → th.stack = .tDispatch u 9 [] :: rest →
      Adm σ i th (upd σ i none (fun t => { t with writer := none }) rest none (some .ok))
  | d9nL {u rest} : σ.tr.kind = Kind.«local» → th.stack = .tDispatch u 9 [] :: rest →
      Adm σ i th (upd σ i none (fun t => { t with writer := none, lastId := Resp.id u.id }) rest none (some .ok))
  | a8n {s ts rp rest} : th.stack = .tAdd s 8 ts [] rp :: rest →
      Adm σ i th (upd σ i none id (.tAdd s 4 ts [] rp :: rest) none none)
  | a8f {s ts e more rp rest} : th.stack = .tAdd s 8 ts (e :: more) rp :: rest → th.last = some false →
      Adm σ i th (upd σ i none id (.tAdd s 4 ts [] rp :: rest) none none)
  | a8t {s ts e more rp rest} : th.stack = .tAdd s 8 ts (e :: more) rp :: rest → th.last ≠ some false →
      Adm σ i th (upd σ i none id (scanLoop σ.flags (getSub σ s) s ts (more.length + 1) more rp ++ rest) none none)
  | a7B {s ts sc rp rest} : σ.tr.kind = .bolt → th.stack = .tAdd s 7 ts sc rp :: rest →
      Adm σ i th (upd σ i none id rest none (some .ok))
  | a7L {s ts sc rp rest} : σ.tr.kind = Kind.«local» → th.stack = .tAdd s 7 ts sc rp :: rest →
      Adm σ i th (upd σ i none (fun t => { t with writer := none }) rest none (some .ok))
  | c9c {s more rest} : th.stack = .tClose 9 (s :: more) :: rest →
      Adm σ i th (upd σ i none id (.sDisconnect s 0 :: .tClose 9 more :: rest) none none)
  | c9nB {rest} : σ.tr.kind = .bolt → th.stack = .tClose 9 [] :: rest →
      Adm σ i th (upd σ i none id (.tClose 4 [] :: rest) none none)
  | c9nL {rest} : σ.tr.kind = Kind.«local» → th.stack = .tClose 9 [] :: rest →
      Adm σ i th (upd σ i none (fun t => { t with writer := none, onceRunning := none, onceDone := true }) rest none (some .ok))

def isAdminFr : Frame → Bool
  | .tDispatch _ 9 _ => true
  | .tAdd _ 8 _ _ _ => true
  | .tAdd _ 7 _ _ _ => true
  | .tClose 9 _ => true
  | _ => false

def topParked : List Frame → Bool
  | [] => true
  | fr :: _ => !isAdminFr fr

theorem admin_adm {σ σ' : Sys} {i : Nat} {th : Thread} (hfl : σ.flags = Flags.repaired)
    (hth : σ.threads[i]? = some th) (h : admin σ i = some σ') : Adm σ i th σ' := by
  have f4 : σ.flags.localMatchLocked = true := by rw [hfl]; rfl
  have f6 : σ.flags.cutBeforeDispatch = true := by rw [hfl]; rfl
  unfold admin at h
  simp only [hth] at h
  split at h
  all_goals (try simp only [f4, f6] at h)
  all_goals repeat' split at h
  all_goals first
    | (exfalso; simp_all; done)
    | (simp only [Option.some.injEq] at h; subst h
       first
        | exact Adm.a8f ‹_› (by simp_all)
        | exact Adm.a8t ‹_› (by simp_all)
        | exact Adm.d9c ‹_›
        | exact Adm.d9nB ‹_› ‹_›
        | exact Adm.d9nL ‹_› ‹_›
        | exact Adm.a8n ‹_›
        | exact Adm.a7B ‹_› ‹_›
        | exact Adm.a7L ‹_› ‹_›
        | exact Adm.c9c ‹_›
        | exact Adm.c9nB ‹_› ‹_›
        | exact Adm.c9nL ‹_› ‹_›)

theorem isAdminFr_tDispatch (u pc rs) : isAdminFr (.tDispatch u pc rs) = decide (pc = 9) := by
  unfold isAdminFr; split <;> simp_all
theorem isAdminFr_tClose (pc td) : isAdminFr (.tClose pc td) = decide (pc = 9) := by
  unfold isAdminFr; split <;> simp_all
theorem isAdminFr_tAdd (s pc ts sc rp) : isAdminFr (.tAdd s pc ts sc rp) = decide (pc = 8 ∨ pc = 7) := by
  unfold isAdminFr; split <;> simp_all
  rename_i h1 h2
  exact ⟨fun h => h1 _ _ _ _ rfl h rfl rfl rfl, fun h => h2 _ _ _ _ rfl h rfl rfl rfl⟩

theorem admin_none_iff {σ : Sys} {i : Nat} {th : Thread} (hth : σ.threads[i]? = some th) :
    admin σ i = none ↔ topParked th.stack = true := by
  unfold admin
  simp only [hth]
  split
  all_goals repeat' split
  all_goals (try (rename_i hst; simp [hst, topParked, isAdminFr]; done))
  all_goals (try (rename_i hst _ ; simp [hst, topParked, isAdminFr]; done))
  all_goals (try (rename_i hst _ _ ; simp [hst, topParked, isAdminFr]; done))
  all_goals (try (rename_i hst _ _ _ ; simp [hst, topParked, isAdminFr]; done))
  all_goals (try (rename_i hst _ _ _ _; simp [hst, topParked, isAdminFr]; done))
  rename_i h1 h2 h3 h4
  simp only [true_iff]
  match hs : th.stack with
  | [] => rfl
  | fr :: rest =>
    cases fr <;> simp only [topParked, isAdminFr_tDispatch, isAdminFr_tClose, isAdminFr_tAdd] <;> simp [isAdminFr]
    · rintro rfl; exact h1 _ _ _ hs
    · constructor <;> rintro rfl
      · exact h2 _ _ _ _ _ hs
      · exact h3 _ _ _ _ _ hs
    · rintro rfl; exact h4 _ _ hs

/-! #### part P5 -/
theorem adm_frame {σ σ' : Sys} {i : Nat} {th} (h : Adm σ i th σ') :
    σ'.subs = σ.subs ∧ σ'.flags = σ.flags ∧ σ'.panic = σ.panic := by
  cases h <;> exact ⟨rfl, rfl, rfl⟩

theorem admin_frame {σ σ' : Sys} {i : Nat} (hfl : σ.flags = Flags.repaired) (h : admin σ i = some σ') :
    σ'.subs = σ.subs ∧ σ'.flags = σ.flags ∧ σ'.panic = σ.panic := by
  cases hth : σ.threads[i]? with
  | none => simp [admin, hth] at h
  | some th => exact adm_frame (admin_adm hfl hth h)

theorem normalize_frame (i : Nat) : ∀ (n : Nat) (σ : Sys), σ.flags = Flags.repaired →
    (normalize i n σ).subs = σ.subs ∧ (normalize i n σ).flags = σ.flags ∧ (normalize i n σ).panic = σ.panic
  | 0, σ, _ => ⟨rfl, rfl, rfl⟩
  | n + 1, σ, hfl => by
    unfold normalize
    split
    · rename_i σ' h
      have h1 := admin_frame hfl h
      have h2 := normalize_frame i n σ' (h1.2.1.trans hfl)
      exact ⟨h2.1.trans h1.1, h2.2.1.trans h1.2.1, h2.2.2.trans h1.2.2⟩
    · exact ⟨rfl, rfl, rfl⟩

theorem normalize_inv {I : Sys → Prop} {i : Nat} (hI : ∀ σ σ', I σ → admin σ i = some σ' → I σ') :
    ∀ (n : Nat) (σ : Sys), I σ → I (normalize i n σ)
  | 0, _, h => h
  | n + 1, σ, h => by
    unfold normalize
    split
    · rename_i σ' ha; exact normalize_inv hI n σ' (hI σ σ' h ha)
    · exact h

theorem run_inv {I : Sys → Prop} (hstep : ∀ σ i, I σ → I (step σ i).σ) :
    ∀ (sched : List Nat) (σ : Sys), I σ → I (run σ sched)
  | [], _, h => h
  | i :: is, σ, h => run_inv hstep is _ (hstep σ i h)

theorem trans_frame {σ σp : Sys} {i : Nat} {st : List Frame} (h : Trans σ i st σp) :
    σp.subs.length = σ.subs.length ∧ σp.flags = σ.flags ∧ σp.panic = σ.panic := by
  cases h <;> refine ⟨?_, ?_, ?_⟩ <;> first | rfl | simp

theorem mem_setSub {σ : Sys} {s : Nat} {f : Sub → Sub} {b : Sub} (h : b ∈ (setSub σ s f).subs) :
    b ∈ σ.subs ∨ (s < σ.subs.length ∧ b = f (getSub σ s)) := by
  obtain ⟨j, hj, rfl⟩ := List.getElem_of_mem h
  have h1 := setSub_subs_getElem? σ s f j
  rw [List.getElem?_eq_getElem hj] at h1
  have hj' : j < σ.subs.length := by simpa using hj
  rw [List.getElem?_eq_getElem hj'] at h1
  simp only [Option.map_some, Option.some.injEq] at h1
  rw [h1]
  by_cases hjs : j = s
  · subst hjs
    right
    refine ⟨hj', ?_⟩
    simp [getSub, List.getD_eq_getElem?_getD, List.getElem?_eq_getElem hj']
  · left; simp [hjs]

theorem getSub_mem {σ : Sys} {s : Nat} (h : s < σ.subs.length) : getSub σ s ∈ σ.subs :=
  mem_subs_iff_getSub.2 ⟨s, h, rfl⟩

/-! ### FIFO -/
def Fifo (σ : Sys) : Prop := ∀ b ∈ σ.subs, b.received ++ b.out = b.enq

theorem fifo_trans {σ σp : Sys} {i : Nat} {st : List Frame} (h : Trans σ i st σp) (hF : Fifo σ) : Fifo σp := by
  cases h <;> intro b hb <;> simp only [upd_subs, updSub_none, updSub_some] at hb <;>
  first
  | exact hF b hb
  | (rcases mem_setSub hb with h | ⟨hs, rfl⟩
     · exact hF b h
     · have := hF _ (getSub_mem hs)
       first | (simp_all; done) | (simp only [← List.append_assoc, this]) | (simp_all [← List.append_assoc]; done))

theorem fifo_step {σ : Sys} (i : Nat) (hfl : σ.flags = Flags.repaired) (hF : Fifo σ) : Fifo (step σ i).σ := by
  rcases step_trans (i := i) hfl with h | ⟨msg, h⟩ | ⟨th, _, _, n, σp, _, ht, h⟩
  · rw [h]; exact hF
  · rw [h]; exact hF
  · rw [h]; intro b hb; rw [(normalize_frame i n σp ((trans_frame ht).2.1.trans hfl)).1] at hb; exact fifo_trans ht hF b hb

theorem step_flags {σ : Sys} (i : Nat) (hfl : σ.flags = Flags.repaired) : (step σ i).σ.flags = Flags.repaired := by
  rcases step_trans (i := i) hfl with h | ⟨msg, h⟩ | ⟨th, _, _, n, σp, _, ht, h⟩
  · rw [h]; exact hfl
  · rw [h]; exact hfl
  · rw [h, (normalize_frame i n σp ((trans_frame ht).2.1.trans hfl)).2.1]; exact (trans_frame ht).2.1.trans hfl


theorem fifo' (size : Nat) (subs : List Sub) (ops : List Op) (kind : Kind) (wf : WellFormed subs ops) (sched : List Nat) :
    ∀ b ∈ (reach Flags.repaired kind size subs ops sched).subs, b.received ++ b.out = b.enq := by
  have h := run_inv (I := fun σ => σ.flags = Flags.repaired ∧ Fifo σ)
    (fun σ i h => ⟨step_flags i h.1, fifo_step i h.1 h.2⟩) sched (Sys.init Flags.repaired kind size subs ops)
    ⟨rfl, by
      intro b hb
      obtain ⟨t, r, c, rfl⟩ := wf.fresh b hb
      rfl⟩
  exact h.2

/-! #### part P6 -/
@[simp] theorem endViewTr_kind (t : Tr) : (endViewTr t).kind = t.kind := by unfold endViewTr; split <;> rfl
@[simp] theorem endViewTr_size (t : Tr) : (endViewTr t).size = t.size := by unfold endViewTr; split <;> rfl
@[simp] theorem endViewTr_db (t : Tr) : (endViewTr t).db = t.db := by unfold endViewTr; split <;> rfl
@[simp] theorem endViewTr_accepted (t : Tr) : (endViewTr t).accepted = t.accepted := by unfold endViewTr; split <;> rfl
@[simp] theorem endViewTr_seq (t : Tr) : (endViewTr t).seq = t.seq := by unfold endViewTr; split <;> rfl
@[simp] theorem endViewTr_lastSeq (t : Tr) : (endViewTr t).lastSeq = t.lastSeq := by unfold endViewTr; split <;> rfl
@[simp] theorem endViewTr_bucket (t : Tr) : (endViewTr t).bucket = t.bucket := by unfold endViewTr; split <;> rfl
@[simp] theorem endViewTr_writer (t : Tr) : (endViewTr t).writer = t.writer := by unfold endViewTr; split <;> rfl
@[simp] theorem endViewTr_index (t : Tr) : (endViewTr t).index = t.index := by unfold endViewTr; split <;> rfl
@[simp] theorem endViewTr_closedCh (t : Tr) : (endViewTr t).closedCh = t.closedCh := by unfold endViewTr; split <;> rfl
@[simp] theorem endViewTr_dbClosed (t : Tr) : (endViewTr t).dbClosed = t.dbClosed := by unfold endViewTr; split <;> rfl

/-! ### the DB is the accepted sequence (Bolt, no retention) -/
structure DbOk (σ : Sys) : Prop where
  kind : σ.tr.kind = .bolt
  size : σ.tr.size = 0
  snd : σ.tr.db.map (·.2) = σ.tr.accepted
  fst : σ.tr.db.map (·.1) = List.range' 1 σ.tr.accepted.length
  seq : σ.tr.seq = σ.tr.accepted.length
  lastSeq : σ.tr.lastSeq = σ.tr.seq
  bucket : σ.tr.bucket = false → σ.tr.accepted = []

theorem dbOk_of_tr {σ σ' : Sys} (h : DbOk σ) (h1 : σ'.tr.kind = σ.tr.kind) (h2 : σ'.tr.size = σ.tr.size)
    (h3 : σ'.tr.db = σ.tr.db) (h4 : σ'.tr.accepted = σ.tr.accepted) (h5 : σ'.tr.seq = σ.tr.seq)
    (h6 : σ'.tr.lastSeq = σ.tr.lastSeq) (h7 : σ'.tr.bucket = σ.tr.bucket) : DbOk σ' := by
  constructor
  · rw [h1]; exact h.kind
  · rw [h2]; exact h.size
  · rw [h3, h4]; exact h.snd
  · rw [h3, h4]; exact h.fst
  · rw [h5, h4]; exact h.seq
  · rw [h6, h5]; exact h.lastSeq
  · rw [h7, h4]; exact h.bucket

theorem dbOk_trans {σ σp : Sys} {i : Nat} {st : List Frame} (h : Trans σ i st σp) (hD : DbOk σ) : DbOk σp := by
  cases h
  case tD2bb u rs rest hk hc =>
    constructor <;> simp only [upd_tr]
    · exact hD.kind
    · exact hD.size
    · simp [retain, hD.size, hD.snd]
    · simp [retain, hD.size, hD.fst, hD.seq, List.range'_concat, Nat.add_comm]
    · simp [hD.seq]
    · simp
  all_goals first
    | (exfalso; have := hD.kind; simp_all; done)
    | exact dbOk_of_tr hD (by simp) (by simp) (by simp) (by simp) (by simp) (by simp) (by simp)

theorem dbOk_adm {σ σ' : Sys} {i : Nat} {th} (h : Adm σ i th σ') (hD : DbOk σ) : DbOk σ' := by
  cases h <;> exact dbOk_of_tr hD rfl rfl rfl rfl rfl rfl rfl

/-! #### part P7 -/
/-! ### stack shapes -/

/-- Valid stacks of a thread running `op` (`n` = number of subscribers), including the transient
    shapes between a return and the end of the administrative transitions. -/
inductive VS (n : Nat) : Op → List Frame → Prop
  | done (op) : VS n op []
  | tD (u pc) : pc ≤ 3 → VS n (.dispatch u) [.tDispatch u pc []]
  | tD9 (u rs) : (∀ x ∈ rs, x < n) → VS n (.dispatch u) [.tDispatch u 9 rs]
  | tDs (u s pc rs) : s < n → (∀ x ∈ rs, x < n) → VS n (.dispatch u) [.sDispatch s u false pc, .tDispatch u 9 rs]
  | tA (s pc ts rp) : s < n → pc ≤ 4 → VS n (.add s) [.tAdd s pc ts [] rp]
  | tA7 (s) : s < n → VS n (.add s) [.tAdd s 7 0 [] .earliest]
  | tA8 (s ts sc rp) : s < n → VS n (.add s) [.tAdd s 8 ts sc rp]
  | tAs (s pc ts e more rp) : s < n → VS n (.add s) [.sDispatch s e.2 true pc, .tAdd s 8 ts (e :: more) rp]
  | tAr (s pc q) : s < n → VS n (.add s) [.sReady s pc q, .tAdd s 7 0 [] .earliest]
  | tM (s pc) : VS n (.remove s) [.tRemove s pc]
  | tC (pc) : VS n .close [.tClose pc []]
  | tC9 (more) : (∀ x ∈ more, x < n) → VS n .close [.tClose 9 more]
  | tCs (s pc more) : s < n → (∀ x ∈ more, x < n) → VS n .close [.sDisconnect s pc, .tClose 9 more]
  | tX (s pc) : s < n → VS n (.disconnect s) [.sDisconnect s pc]
  | tL : VS n .list [.tList]
  | uR (s) : s < n → VS n (.recv s) [.uRecv s]

structure Shape (σ : Sys) : Prop where
  vs : ∀ (i : Nat) (th : Thread), σ.threads[i]? = some th → VS σ.subs.length th.op th.stack
  idx : ∀ s ∈ σ.tr.index, s < σ.subs.length

def Parked (σ : Sys) : Prop := ∀ (i : Nat) (th : Thread), σ.threads[i]? = some th → topParked th.stack = true

theorem scanLoop_shape (fl : Flags) (sb : Sub) (s ts : Nat) (rp : Resp) : ∀ (fuel : Nat) (todo : List (Nat × Upd)),
    scanLoop fl sb s ts fuel todo rp = [.tAdd s 4 ts [] rp] ∨
    ∃ e more, scanLoop fl sb s ts fuel todo rp = [.sDispatch s e.2 true 0, .tAdd s 8 ts (e :: more) rp]
  | 0, [] => by simp [scanLoop]
  | 0, _ :: _ => by simp [scanLoop]
  | _ + 1, [] => by simp [scanLoop]
  | fuel + 1, e :: more => by
    unfold scanLoop
    split
    · exact Or.inl rfl
    · split
      · exact Or.inr ⟨e, more, rfl⟩
      · split
        · exact Or.inl rfl
        · exact scanLoop_shape fl sb s ts rp fuel more

theorem vs_scanLoop {n : Nat} (fl : Flags) (sb : Sub) (s ts : Nat) (rp : Resp) (fuel : Nat) (todo : List (Nat × Upd))
    (hs : s < n) : VS n (.add s) (scanLoop fl sb s ts fuel todo rp ++ []) := by
  rcases scanLoop_shape fl sb s ts rp fuel todo with h | ⟨e, more, h⟩ <;> rw [h]
  · exact VS.tA _ _ _ _ hs (by omega)
  · exact VS.tAs _ _ _ _ _ _ hs

/-- The thread's new stack is valid and nothing else about shapes changed. -/
theorem shape_upd {σ : Sys} {i : Nat} {th : Thread} {sf g} {st : List Frame} {l r}
    (hS : Shape σ) (hth : σ.threads[i]? = some th)
    (h3 : ∀ s ∈ (g σ.tr).index, s < σ.subs.length)
    (hvs : VS σ.subs.length th.op st) : Shape (upd σ i sf g st l r) := by
  constructor
  · intro j th' hj
    rw [upd_threads] at hj
    simp only [upd_subs, updSub_subs_length]
    by_cases hji : j = i
    · subst hji
      simp only [hth, Option.map_some, if_true, Option.some.injEq] at hj
      subst hj
      exact hvs
    · cases hj' : σ.threads[j]? with
      | none => simp [hj'] at hj
      | some t =>
        simp only [hj', Option.map_some, hji, if_false, Option.some.injEq] at hj
        subst hj
        exact hS.vs j _ hj'
  · intro s hs
    simp only [upd_subs, upd_tr, updSub_subs_length] at *
    exact h3 s hs

/-! #### part P8 -/
theorem mem_recipsOf {σ : Sys} {u : Upd} {x : Nat} (h : x ∈ recipsOf σ u) : x ∈ σ.tr.index := by
  unfold recipsOf at h; exact (List.mem_filter.1 h).1

theorem shape_trans {σ σp : Sys} {i : Nat} {th : Thread} (hS : Shape σ) (hth : σ.threads[i]? = some th)
    (h : Trans σ i th.stack σp) : Shape σp := by
  have hvs := hS.vs i th hth
  have hidx := hS.idx
  generalize hst : th.stack = st at h hvs
  generalize hop : th.op = op at hvs
  cases h <;> cases hvs <;> refine shape_upd hS hth ?_ ?_
  all_goals first
    | exact hidx
    | (intro x hx; simp at hx; first | exact hidx x hx | (rcases hx with hx | rfl; exact hidx x hx; assumption) | exact hidx x hx.1)
    | skip
  all_goals try rw [hop]
  all_goals first
    | exact VS.tA7 _ ‹_›
    | (constructor <;> first | assumption | omega | (intro x hx; first | exact hidx x hx | exact hidx x (mem_recipsOf hx)))
    | exact vs_scanLoop _ _ _ _ _ _ _ ‹_›
    | skip
  all_goals (unfold flushStack; split <;> constructor <;> assumption)


theorem shape_adm {σ σ' : Sys} {i : Nat} {th : Thread} (hS : Shape σ) (hth : σ.threads[i]? = some th)
    (h : Adm σ i th σ') : Shape σ' := by
  have hvs := hS.vs i th hth
  have hidx := hS.idx
  generalize hop : th.op = op at hvs
  cases h <;> (first | (rename_i hst; rw [hst] at hvs) | (rename_i hst _; rw [hst] at hvs)) <;> cases hvs <;>
    (refine shape_upd hS hth hidx ?_; rw [hop]) <;>
    first
    | exact vs_scanLoop _ _ _ _ _ _ _ ‹_›
    | exact VS.tA7 _ ‹_›
    | (constructor <;> first | assumption | omega)
    | (rename_i ha; simp only [List.mem_cons, forall_eq_or_imp] at ha; constructor <;> first | assumption | exact ha.1 | exact ha.2)

/-! #### part P9 -/
@[simp] theorem retOf_stack (st t r l) : (retOf st t r l).stack = st := rfl
@[simp] theorem retOf_op (st t r l) : (retOf st t r l).op = t.op := rfl
@[simp] theorem retOf_last (st t r l) : (retOf st t r l).last = l := rfl

theorem upd_threads_self {σ : Sys} {i : Nat} {th : Thread} (sf g st l r) (hth : σ.threads[i]? = some th) :
    (upd σ i sf g st l r).threads[i]? = some (retOf st th r l) := by
  rw [upd_threads, hth]; simp

theorem upd_threads_other {σ : Sys} {i j : Nat} (sf g st l r) (hji : j ≠ i) :
    (upd σ i sf g st l r).threads[j]? = σ.threads[j]? := by
  rw [upd_threads]; cases σ.threads[j]? <;> simp [hji]

theorem adm_other {σ σ' : Sys} {i j : Nat} {th} (h : Adm σ i th σ') (hji : j ≠ i) :
    σ'.threads[j]? = σ.threads[j]? := by
  cases h <;> exact upd_threads_other _ _ _ _ _ hji

theorem trans_other {σ σp : Sys} {i j : Nat} {st} (h : Trans σ i st σp) (hji : j ≠ i) :
    σp.threads[j]? = σ.threads[j]? := by
  cases h <;> exact upd_threads_other _ _ _ _ _ hji

/-- After a transition or an administrative step thread `i` still exists, with the same `op`. -/
theorem adm_self {σ σ' : Sys} {i : Nat} {th} (hth : σ.threads[i]? = some th) (h : Adm σ i th σ') :
    ∃ th', σ'.threads[i]? = some th' ∧ th'.op = th.op := by
  cases h <;> exact ⟨_, upd_threads_self _ _ _ _ _ hth, rfl⟩

theorem trans_self {σ σp : Sys} {i : Nat} {th st} (hth : σ.threads[i]? = some th) (h : Trans σ i st σp) :
    ∃ th', σp.threads[i]? = some th' ∧ th'.op = th.op := by
  cases h <;> exact ⟨_, upd_threads_self _ _ _ _ _ hth, rfl⟩

theorem topParked_scanLoop (fl sb s ts rp fuel todo rest) :
    topParked (scanLoop fl sb s ts fuel todo rp ++ rest) = true := by
  rcases scanLoop_shape fl sb s ts rp fuel todo with h | ⟨e', m', h⟩ <;> rw [h] <;> rfl

theorem adm_parked_self {σ σ' : Sys} {i : Nat} {th : Thread} (hS : Shape σ) (hth : σ.threads[i]? = some th)
    (h : Adm σ i th σ') : ∃ th', σ'.threads[i]? = some th' ∧ topParked th'.stack = true := by
  have hvs := hS.vs i th hth
  generalize hop : th.op = op at hvs
  cases h <;> (first | (rename_i hst; rw [hst] at hvs) | (rename_i hst _; rw [hst] at hvs)) <;> cases hvs <;>
    refine ⟨_, upd_threads_self _ _ _ _ _ hth, ?_⟩ <;> simp only [retOf_stack]
  all_goals first
    | rfl
    | exact topParked_scanLoop _ _ _ _ _ _ _ _

theorem normalize_of_parked {σ : Sys} {i : Nat} {th : Thread} (hth : σ.threads[i]? = some th)
    (hp : topParked th.stack = true) (n : Nat) : normalize i n σ = σ := by
  cases n with
  | zero => rfl
  | succ n => unfold normalize; rw [(admin_none_iff hth).2 hp]

theorem normalize_parked {σ : Sys} {i : Nat} {th : Thread} (hS : Shape σ) (hfl : σ.flags = Flags.repaired)
    (hth : σ.threads[i]? = some th)
    (hoth : ∀ (j : Nat) (t : Thread), j ≠ i → σ.threads[j]? = some t → topParked t.stack = true) (n : Nat) :
    Parked (normalize i (n + 1) σ) := by
  unfold normalize
  split
  · rename_i σ' ha
    have hA := admin_adm hfl hth ha
    obtain ⟨th', h1, h2⟩ := adm_parked_self hS hth hA
    rw [normalize_of_parked h1 h2]
    intro j t hj
    by_cases hji : j = i
    · subst hji; rw [h1] at hj; cases hj; exact h2
    · rw [adm_other hA hji] at hj; exact hoth j t hji hj
  · rename_i ha
    intro j t hj
    by_cases hji : j = i
    · subst hji; rw [hth] at hj; cases hj; exact (admin_none_iff hth).1 ha
    · exact hoth j t hji hj

/-! #### part P10 -/
/-! ### lock discipline -/

def OwnStep (i : Nat) (o o' : Option Nat) : Prop := o' = o ∨ (o = none ∧ o' = some i) ∨ (o = some i ∧ o' = none)

/-- What a frame of thread `i` guarantees about the locks it holds. -/
def FI (σ : Sys) (i : Nat) : Frame → Prop
  | .sDispatch s _ h pc =>
    (4 ≤ pc → (getSub σ s).outOwner = some i) ∧ (pc = 5 → (getSub σ s).disconnected = false) ∧
    (h = false → 3 ≤ pc → (getSub σ s).ready = true) ∧ (pc = 2 → h = false) ∧
    (7 ≤ pc → (getSub σ s).disconnected = true)
  | .sReady s pc _ =>
    (1 ≤ pc → (getSub σ s).liveOwner = some i) ∧ (2 ≤ pc → (getSub σ s).outOwner = some i) ∧
    (pc = 3 → (getSub σ s).disconnected = false)
  | .sDisconnect s pc => 2 ≤ pc → (getSub σ s).outOwner = some i
  | .tDispatch _ pc _ => 2 ≤ pc → σ.tr.writer = some i
  | .tAdd _ pc _ _ _ =>
    (σ.tr.kind = .bolt → pc = 2 → σ.tr.writer = some i) ∧ (σ.tr.kind = Kind.«local» → 2 ≤ pc → σ.tr.writer = some i)
  | .tRemove _ pc => 2 ≤ pc → σ.tr.writer = some i
  | .tClose pc _ =>
    (σ.tr.kind = .bolt → 3 ≤ pc → σ.tr.writer = some i) ∧ (σ.tr.kind = Kind.«local» → 2 ≤ pc → σ.tr.writer = some i)
  | .tList => True
  | .uRecv _ => True

def K (σ : Sys) : Prop := ∀ (i : Nat) (th : Thread), σ.threads[i]? = some th → ∀ fr ∈ th.stack, FI σ i fr

structure GuarK (i : Nat) (σ σ' : Sys) : Prop where
  out : ∀ s, OwnStep i (getSub σ s).outOwner (getSub σ' s).outOwner
  live : ∀ s, OwnStep i (getSub σ s).liveOwner (getSub σ' s).liveOwner
  disc : ∀ s, (getSub σ' s).disconnected = (getSub σ s).disconnected ∨ (getSub σ s).outOwner = some i
  discMono : ∀ s, (getSub σ s).disconnected = true → (getSub σ' s).disconnected = true
  ready : ∀ s, (getSub σ' s).ready = (getSub σ s).ready ∨ (getSub σ' s).ready = true
  writer : OwnStep i σ.tr.writer σ'.tr.writer
  kind : σ'.tr.kind = σ.tr.kind

theorem OwnStep.keep {i j : Nat} {o o' : Option Nat} (h : OwnStep i o o') (hji : j ≠ i) (ho : o = some j) : o' = some j := by
  rcases h with h | ⟨h, _⟩ | ⟨h, _⟩
  · rw [h, ho]
  · rw [ho] at h; cases h
  · rw [ho] at h; cases h; exact absurd rfl hji

theorem FI_stable {σ σ' : Sys} {i j : Nat} (hG : GuarK i σ σ') (hji : j ≠ i) (fr : Frame) (h : FI σ j fr) : FI σ' j fr := by
  cases fr with
  | sDispatch s u hh pc =>
    obtain ⟨h1, h2, h3, h4, h5⟩ := h
    refine ⟨fun hp => (hG.out s).keep hji (h1 hp), fun hp => ?_, fun hh' hp => ?_, h4, fun hp => hG.discMono s (h5 hp)⟩
    · rcases hG.disc s with hd | hd
      · rw [hd]; exact h2 hp
      · have := h1 (by omega); rw [this] at hd; cases hd; exact absurd rfl hji
    · rcases hG.ready s with hr | hr
      · rw [hr]; exact h3 hh' hp
      · exact hr
  | sReady s pc q =>
    obtain ⟨h1, h2, h3⟩ := h
    refine ⟨fun hp => (hG.live s).keep hji (h1 hp), fun hp => (hG.out s).keep hji (h2 hp), fun hp => ?_⟩
    rcases hG.disc s with hd | hd
    · rw [hd]; exact h3 hp
    · have := h2 (by omega); rw [this] at hd; cases hd; exact absurd rfl hji
  | sDisconnect s pc => exact fun hp => (hG.out s).keep hji (h hp)
  | tDispatch u pc rs => exact fun hp => hG.writer.keep hji (h hp)
  | tAdd s pc ts sc rp =>
    exact ⟨fun hk hp => hG.writer.keep hji (h.1 (hG.kind ▸ hk) hp), fun hk hp => hG.writer.keep hji (h.2 (hG.kind ▸ hk) hp)⟩
  | tRemove s pc => exact fun hp => hG.writer.keep hji (h hp)
  | tClose pc td =>
    exact ⟨fun hk hp => hG.writer.keep hji (h.1 (hG.kind ▸ hk) hp), fun hk hp => hG.writer.keep hji (h.2 (hG.kind ▸ hk) hp)⟩
  | tList => trivial
  | uRecv s => trivial

theorem getSub_setSub_cases (σ : Sys) (s : Nat) (f : Sub → Sub) (s' : Nat) :
    getSub (setSub σ s f) s' = getSub σ s' ∨ (s' = s ∧ getSub (setSub σ s f) s' = f (getSub σ s)) := by
  unfold getSub
  simp only [List.getD_eq_getElem?_getD, setSub_subs_getElem?]
  by_cases h : s' = s
  · subst h
    cases σ.subs[s']? <;> simp
  · left; simp [h]

/-! #### part P11 -/
theorem guarK_upd {i : Nat} {σ : Sys} {sf : Option (Nat × (Sub → Sub))} {g : Tr → Tr} {st l r}
    (hsf : ∀ s f, sf = some (s, f) →
      OwnStep i (getSub σ s).outOwner (f (getSub σ s)).outOwner ∧
      OwnStep i (getSub σ s).liveOwner (f (getSub σ s)).liveOwner ∧
      ((f (getSub σ s)).disconnected = (getSub σ s).disconnected ∨ (getSub σ s).outOwner = some i) ∧
      ((f (getSub σ s)).ready = (getSub σ s).ready ∨ (f (getSub σ s)).ready = true) ∧
      ((getSub σ s).disconnected = true → (f (getSub σ s)).disconnected = true))
    (hw : OwnStep i σ.tr.writer (g σ.tr).writer) (hk : (g σ.tr).kind = σ.tr.kind) :
    GuarK i σ (upd σ i sf g st l r) := by
  refine ⟨fun s' => ?_, fun s' => ?_, fun s' => ?_, fun s' => ?_, fun s' => ?_, by simpa using hw, by simpa using hk⟩ <;>
    rw [getSub_upd] <;>
    rcases getSub_updSub_cases σ sf s' with h | ⟨s, f, hsf', rfl, h⟩ <;> rw [h]
  · exact Or.inl rfl
  · exact (hsf _ f hsf').1
  · exact Or.inl rfl
  · exact (hsf _ f hsf').2.1
  · exact Or.inl rfl
  · exact (hsf _ f hsf').2.2.1
  · exact id
  · exact (hsf _ f hsf').2.2.2.2
  · exact Or.inl rfl
  · exact (hsf _ f hsf').2.2.2.1

theorem trans_guarK {σ σp : Sys} {i : Nat} {st : List Frame} (h : Trans σ i st σp)
    (hfi : ∀ fr ∈ st, FI σ i fr) : GuarK i σ σp := by
  cases h
  all_goals simp only [List.mem_cons, forall_eq_or_imp, FI] at hfi
  all_goals refine guarK_upd (fun s f h => ?_) ?_ ?_
  all_goals first
    | (cases h; done)
    | (cases h; simp_all [OwnStep]; done)
    | (simp; done)
    | (simp_all [OwnStep]; done)
    | skip

theorem adm_guarK {σ σ' : Sys} {i : Nat} {th : Thread} (h : Adm σ i th σ')
    (hfi : ∀ fr ∈ th.stack, FI σ i fr) : GuarK i σ σ' := by
  cases h
  all_goals (first | (rename_i hst; rw [hst] at hfi) | (rename_i hst _; rw [hst] at hfi))
  all_goals simp only [List.mem_cons, forall_eq_or_imp, FI] at hfi
  all_goals refine guarK_upd (fun s f h => ?_) ?_ ?_
  all_goals first
    | (cases h; done)
    | (simp; done)
    | (simp_all [OwnStep]; done)

theorem getSub_setSub_self (σ : Sys) (s : Nat) (f : Sub → Sub) (hs : s < σ.subs.length) :
    getSub (setSub σ s f) s = f (getSub σ s) := by
  rw [getSub_setSub _ _ _ _ hs]; simp

theorem K_self_trans {σ σp : Sys} {i : Nat} {st : List Frame} {op : Op} (h : Trans σ i st σp)
    (hfi : ∀ fr ∈ st, FI σ i fr) (hvs : VS σ.subs.length op st) :
    ∀ th', σp.threads[i]? = some th' → ∀ fr ∈ th'.stack, FI σp i fr := by
  intro th' hth'
  rw [← Option.mem_def] at hth'
  cases h <;> cases hvs
  all_goals simp only [upd_threads, Option.mem_def, Option.map_eq_some_iff, if_true] at hth'
  all_goals obtain ⟨th, -, rfl⟩ := hth'
  all_goals simp only [retOf_stack]
  all_goals simp only [List.mem_cons, forall_eq_or_imp, FI, List.not_mem_nil, false_imp_iff, implies_true, and_true] at hfi ⊢
  all_goals first
    | (simp_all [getSub_setSub_self]; done)
    | skip
  · unfold flushStack; split <;> simp_all [FI, getSub_setSub_self]
  · unfold flushStack; split <;> simp_all [FI, getSub_setSub_self]
  · rename_i s ts rp _ _ _ _
    rcases scanLoop_shape σ.flags (getSub σ s) s ts (scanFrom σ.tr.db (getSub σ s).req).1
      ((scanFrom σ.tr.db (getSub σ s).req).2.length + 1) (scanFrom σ.tr.db (getSub σ s).req).2 with h | ⟨e, more, h⟩ <;>
      rw [h] <;> simp_all [FI]

/-! #### part P12 -/
theorem K_self_adm {σ σ' : Sys} {i : Nat} {th : Thread} {op : Op} (h : Adm σ i th σ')
    (hfi : ∀ fr ∈ th.stack, FI σ i fr) (hvs : VS σ.subs.length op th.stack) :
    ∀ th', σ'.threads[i]? = some th' → ∀ fr ∈ th'.stack, FI σ' i fr := by
  intro th' hth'
  rw [← Option.mem_def] at hth'
  cases h <;> (first | (rename_i hst; rw [hst] at hfi hvs) | (rename_i hst _; rw [hst] at hfi hvs)) <;> cases hvs
  all_goals simp only [upd_threads, Option.mem_def, Option.map_eq_some_iff, if_true] at hth'
  all_goals obtain ⟨th0, -, rfl⟩ := hth'
  all_goals simp only [retOf_stack]
  all_goals simp only [List.mem_cons, forall_eq_or_imp, FI, List.not_mem_nil, false_imp_iff, implies_true, and_true] at hfi ⊢
  all_goals first
    | (simp_all; done)
    | skip
  rename_i s ts e more rp _ _
  rcases scanLoop_shape σ.flags (getSub σ s) s ts rp (more.length + 1) more with h | ⟨e', more', h⟩ <;>
    rw [h] <;> simp_all [FI]

theorem K_trans {σ σp : Sys} {i : Nat} {th : Thread} (hS : Shape σ) (hK : K σ) (hth : σ.threads[i]? = some th)
    (h : Trans σ i th.stack σp) : K σp := by
  intro j t hj fr hfr
  by_cases hji : j = i
  · subst hji
    exact K_self_trans h (hK j th hth) (hS.vs j th hth) t hj fr hfr
  · rw [trans_other h hji] at hj
    exact FI_stable (trans_guarK h (hK i th hth)) hji fr (hK j t hj fr hfr)

theorem K_adm {σ σ' : Sys} {i : Nat} {th : Thread} (hS : Shape σ) (hK : K σ) (hth : σ.threads[i]? = some th)
    (h : Adm σ i th σ') : K σ' := by
  intro j t hj fr hfr
  by_cases hji : j = i
  · subst hji
    exact K_self_adm h (hK j th hth) (hS.vs j th hth) t hj fr hfr
  · rw [adm_other h hji] at hj
    exact FI_stable (adm_guarK h (hK i th hth)) hji fr (hK j t hj fr hfr)

/-! #### part P13 -/
/-! ### thread identities -/

def AddUnique (σ : Sys) : Prop :=
  ∀ (i j : Nat) (ti tj : Thread) (s : Nat), σ.threads[i]? = some ti → σ.threads[j]? = some tj →
    ti.op = .add s → tj.op = .add s → i = j

def OpsEq (σ σ' : Sys) : Prop := ∀ j : Nat, (σ'.threads[j]?).map (·.op) = (σ.threads[j]?).map (·.op)

theorem upd_opsEq (σ : Sys) (i sf g st l r) : OpsEq σ (upd σ i sf g st l r) := by
  intro j
  rw [upd_threads]
  cases σ.threads[j]? with
  | none => rfl
  | some t => by_cases h : j = i <;> simp [h]

theorem trans_opsEq {σ σp : Sys} {i : Nat} {st} (h : Trans σ i st σp) : OpsEq σ σp := by
  cases h <;> exact upd_opsEq _ _ _ _ _ _ _

theorem adm_opsEq {σ σ' : Sys} {i : Nat} {th} (h : Adm σ i th σ') : OpsEq σ σ' := by
  cases h <;> exact upd_opsEq _ _ _ _ _ _ _

theorem addUnique_of_opsEq {σ σ' : Sys} (h : OpsEq σ σ') (hU : AddUnique σ) : AddUnique σ' := by
  intro i j ti tj s hi hj hti htj
  have h1 := h i
  have h2 := h j
  rw [hi] at h1
  rw [hj] at h2
  cases hi' : σ.threads[i]? with
  | none => simp [hi'] at h1
  | some ti' =>
    cases hj' : σ.threads[j]? with
    | none => simp [hj'] at h2
    | some tj' =>
      simp only [hi', hj', Option.map_some, Option.some.injEq] at h1 h2
      exact hU i j ti' tj' s hi' hj' (h1 ▸ hti) (h2 ▸ htj)

/-! ### joined -/

def joined (σ : Sys) (s : Nat) : Prop := (getSub σ s).joinedAt ≠ none

def FN (σ : Sys) : Frame → Prop
  | .sDispatch s _ _ _ => joined σ s
  | .sReady s _ _ => joined σ s
  | .tDispatch _ _ rs => ∀ s ∈ rs, joined σ s
  | .tAdd s pc _ _ _ => 3 ≤ pc → joined σ s
  | _ => True

structure NInv (σ : Sys) : Prop where
  idx : ∀ s ∈ σ.tr.index, joined σ s
  fr : ∀ (i : Nat) (th : Thread), σ.threads[i]? = some th → ∀ fr ∈ th.stack, FN σ fr
  none : ∀ s, (getSub σ s).joinedAt = none →
    (getSub σ s).enq = [] ∧ (getSub σ s).liveQueue = [] ∧ (getSub σ s).ready = false
  le : ∀ s k, (getSub σ s).joinedAt = some k → k ≤ σ.tr.accepted.length

theorem joined_upd {σ : Sys} {i sf g st l r}
    (hsf : ∀ s f, sf = some (s, f) → (getSub σ s).joinedAt ≠ none → (f (getSub σ s)).joinedAt ≠ none)
    (s' : Nat) (h : joined σ s') : joined (upd σ i sf g st l r) s' := by
  unfold joined at *
  rw [getSub_upd]
  rcases getSub_updSub_cases σ sf s' with h1 | ⟨s, f, hsf', rfl, h1⟩ <;> rw [h1]
  · exact h
  · exact hsf _ f hsf' h

theorem trans_joinedMono {σ σp : Sys} {i : Nat} {st} (h : Trans σ i st σp) (s' : Nat) (hj : joined σ s') :
    joined σp s' := by
  cases h
  all_goals refine joined_upd (fun s f h => ?_) s' hj
  all_goals first
    | (cases h; done)
    | (cases h; simp; done)
    | (cases h; exact id)

theorem adm_joinedMono {σ σ' : Sys} {i : Nat} {th} (h : Adm σ i th σ') (s' : Nat) (hj : joined σ s') :
    joined σ' s' := by
  cases h <;> exact hj

theorem FN_mono {σ σ' : Sys} (h : ∀ s, joined σ s → joined σ' s) (fr : Frame) (hf : FN σ fr) : FN σ' fr := by
  cases fr <;> simp only [FN] at hf ⊢
  · exact h _ hf
  · exact h _ hf
  · exact fun s hs => h _ (hf s hs)
  · exact fun hp => h _ (hf hp)

/-! #### part P14 -/
theorem NInv_upd {σ : Sys} {i : Nat} {th : Thread} {sf g st l r} (hN : NInv σ) (hth : σ.threads[i]? = some th)
    (hmono : ∀ s', joined σ s' → joined (upd σ i sf g st l r) s')
    (hidx : ∀ s ∈ (g σ.tr).index, joined (upd σ i sf g st l r) s)
    (hfr : ∀ fr ∈ st, FN (upd σ i sf g st l r) fr)
    (hnone : ∀ s f, sf = some (s, f) → (f (getSub σ s)).joinedAt = none →
      (f (getSub σ s)).enq = [] ∧ (f (getSub σ s)).liveQueue = [] ∧ (f (getSub σ s)).ready = false)
    (hle : ∀ s f, sf = some (s, f) → ∀ k, (f (getSub σ s)).joinedAt = some k → k ≤ (g σ.tr).accepted.length)
    (hacc : σ.tr.accepted.length ≤ (g σ.tr).accepted.length) :
    NInv (upd σ i sf g st l r) := by
  refine ⟨by simpa using hidx, ?_, ?_, ?_⟩
  · intro j t hj fr hfr'
    by_cases hji : j = i
    · subst hji
      rw [upd_threads_self _ _ _ _ _ hth] at hj
      cases hj
      exact hfr fr hfr'
    · rw [upd_threads_other _ _ _ _ _ hji] at hj
      exact FN_mono hmono fr (hN.fr j t hj fr hfr')
  · intro s'
    rw [getSub_upd]
    rcases getSub_updSub_cases σ sf s' with h1 | ⟨s, f, hsf', rfl, h1⟩ <;> rw [h1]
    · exact hN.none s'
    · exact hnone _ f hsf'
  · intro s' k
    rw [getSub_upd, upd_tr]
    rcases getSub_updSub_cases σ sf s' with h1 | ⟨s, f, hsf', rfl, h1⟩ <;> rw [h1]
    · exact fun h => Nat.le_trans (hN.le s' k h) hacc
    · exact hle _ f hsf' k

theorem NInv_trans {σ σp : Sys} {i : Nat} {th : Thread} (hS : Shape σ) (hN : NInv σ)
    (hth : σ.threads[i]? = some th) (h : Trans σ i th.stack σp) : NInv σp := by
  have hvs := hS.vs i th hth
  have hfn := hN.fr i th hth
  have hmono := trans_joinedMono h
  have hnone := hN.none
  have hle := hN.le
  have hidx := hN.idx
  generalize th.stack = st at h hvs hfn
  generalize th.op = op at hvs
  cases h <;> cases hvs
  all_goals simp only [List.mem_cons, forall_eq_or_imp, FN, List.not_mem_nil, false_imp_iff, implies_true, and_true] at hfn
  all_goals refine NInv_upd hN hth hmono ?_ ?_ (fun s f h => ?_) (fun s f h => ?_) ?_
  all_goals first
    | (cases h; done)
    | (simp; done)
    | (intro x hx; simp only [upd_tr, id] at hx; exact hmono x (hidx x hx))
    | (cases h; exact fun k hk => hle _ k hk)
    | (cases h; simp_all [joined]; done)
    | (simp_all [FN, joined, getSub_setSub_self]; done)
    | (cases h; intro k hk; rw [endViewTr_accepted]; exact hle _ k hk)
    | (intro fr hfr; simp only [List.mem_cons, List.not_mem_nil, or_false] at hfr; subst hfr
       intro s hs; exact hmono s (hidx s (mem_recipsOf hs)))
    | (intro x hx; simp only [upd_tr, List.mem_append, List.mem_cons, List.not_mem_nil, or_false] at hx
       rcases hx with hx | rfl
       · exact hmono x (hidx x hx)
       · simp [joined, getSub_setSub_self, *])
    | (unfold flushStack; split <;> simp_all [FN, joined, getSub_setSub_self]; done)
    | skip
  rename_i s ts rp _ _ _ _
  rcases scanLoop_shape σ.flags (getSub σ s) s ts (scanFrom σ.tr.db (getSub σ s).req).1
      ((scanFrom σ.tr.db (getSub σ s).req).2.length + 1) (scanFrom σ.tr.db (getSub σ s).req).2 with h | ⟨e, more, h⟩ <;>
      rw [h] <;> simp_all [FN, joined]

/-! #### part P15 -/
theorem NInv_adm {σ σ' : Sys} {i : Nat} {th : Thread} (hS : Shape σ) (hN : NInv σ)
    (hth : σ.threads[i]? = some th) (h : Adm σ i th σ') : NInv σ' := by
  have hvs := hS.vs i th hth
  have hfn := hN.fr i th hth
  have hmono := adm_joinedMono h
  have hidx := hN.idx
  generalize th.op = op at hvs
  cases h <;> (first | (rename_i hst; rw [hst] at hfn hvs) | (rename_i hst _; rw [hst] at hfn hvs)) <;> cases hvs
  all_goals simp only [List.mem_cons, forall_eq_or_imp, FN, List.not_mem_nil, false_imp_iff, implies_true, and_true] at hfn
  all_goals refine NInv_upd hN hth hmono ?_ ?_ (fun s f h => ?_) (fun s f h => ?_) ?_
  all_goals first
    | (cases h; done)
    | (simp; done)
    | (intro x hx; exact hmono x (hidx x hx))
    | (simp_all [FN, joined]; done)
    | skip
  rename_i s ts e more rp _ _
  rcases scanLoop_shape σ.flags (getSub σ s) s ts rp (more.length + 1) more with h | ⟨e', more', h⟩ <;>
      rw [h] <;> simp_all [FN, joined]

/-! #### part P16 -/
/-! ### what a step of thread `i` (running `op`) may change -/

structure GuarS (i : Nat) (op : Op) (σ σ' : Sys) : Prop where
  trw : (σ'.tr.accepted = σ.tr.accepted ∧ σ'.tr.index = σ.tr.index ∧ σ'.tr.db = σ.tr.db ∧
          σ'.tr.lastSeq = σ.tr.lastSeq ∧ σ'.tr.bucket = σ.tr.bucket) ∨ σ.tr.writer = some i
  lq : ∀ s, (getSub σ' s).liveQueue = (getSub σ s).liveQueue ∨ σ.tr.writer = some i
  rdy : ∀ s, (getSub σ' s).ready = (getSub σ s).ready ∨ op = .add s
  jn : ∀ s, (getSub σ' s).joinedAt = (getSub σ s).joinedAt ∨ op = .add s
  enq : ∀ s, (getSub σ' s).enq = (getSub σ s).enq ∨ ((getSub σ s).ready = true ∧ σ.tr.writer = some i) ∨ op = .add s
  lq2 : ∀ s, (getSub σ' s).liveQueue = (getSub σ s).liveQueue ∨ (getSub σ s).liveOwner = none
  discMono : ∀ s, (getSub σ s).disconnected = true → (getSub σ' s).disconnected = true
  imm : ∀ s, (getSub σ' s).topics = (getSub σ s).topics ∧ (getSub σ' s).req = (getSub σ s).req
  accMono : ∃ w, σ'.tr.accepted = σ.tr.accepted ++ w

theorem guarS_upd {i : Nat} {op : Op} {σ : Sys} {sf : Option (Nat × (Sub → Sub))} {g : Tr → Tr} {st l r}
    (hsf : ∀ s f, sf = some (s, f) →
      ((f (getSub σ s)).liveQueue = (getSub σ s).liveQueue ∨ σ.tr.writer = some i) ∧
      ((f (getSub σ s)).ready = (getSub σ s).ready ∨ op = .add s) ∧
      ((f (getSub σ s)).joinedAt = (getSub σ s).joinedAt ∨ op = .add s) ∧
      ((f (getSub σ s)).enq = (getSub σ s).enq ∨ ((getSub σ s).ready = true ∧ σ.tr.writer = some i) ∨ op = .add s) ∧
      (f (getSub σ s)).topics = (getSub σ s).topics ∧ (f (getSub σ s)).req = (getSub σ s).req ∧
      ((f (getSub σ s)).liveQueue = (getSub σ s).liveQueue ∨ (getSub σ s).liveOwner = none) ∧
      ((getSub σ s).disconnected = true → (f (getSub σ s)).disconnected = true))
    (hg : ((g σ.tr).accepted = σ.tr.accepted ∧ (g σ.tr).index = σ.tr.index ∧ (g σ.tr).db = σ.tr.db ∧
          (g σ.tr).lastSeq = σ.tr.lastSeq ∧ (g σ.tr).bucket = σ.tr.bucket) ∨ σ.tr.writer = some i)
    (hacc : ∃ w, (g σ.tr).accepted = σ.tr.accepted ++ w) :
    GuarS i op σ (upd σ i sf g st l r) := by
  refine ⟨by simpa using hg, fun s' => ?_, fun s' => ?_, fun s' => ?_, fun s' => ?_, fun s' => ?_, fun s' => ?_,
    fun s' => ?_, by simpa using hacc⟩ <;>
    rw [getSub_upd] <;>
    rcases getSub_updSub_cases σ sf s' with h | ⟨s, f, hsf', rfl, h⟩ <;> rw [h]
  · exact Or.inl rfl
  · exact (hsf _ f hsf').1
  · exact Or.inl rfl
  · exact (hsf _ f hsf').2.1
  · exact Or.inl rfl
  · exact (hsf _ f hsf').2.2.1
  · exact Or.inl rfl
  · exact (hsf _ f hsf').2.2.2.1
  · exact Or.inl rfl
  · exact (hsf _ f hsf').2.2.2.2.2.2.1
  · exact id
  · exact (hsf _ f hsf').2.2.2.2.2.2.2
  · exact ⟨rfl, rfl⟩
  · exact ⟨(hsf _ f hsf').2.2.2.2.1, (hsf _ f hsf').2.2.2.2.2.1⟩

theorem trans_guarS {σ σp : Sys} {i : Nat} {st : List Frame} {op : Op} (h : Trans σ i st σp)
    (hfi : ∀ fr ∈ st, FI σ i fr) (hvs : VS σ.subs.length op st) : GuarS i op σ σp := by
  cases h <;> cases hvs
  all_goals simp only [List.mem_cons, forall_eq_or_imp, FI, List.not_mem_nil, false_imp_iff, implies_true, and_true] at hfi
  all_goals refine guarS_upd (fun s f h => ?_) ?_ ?_
  all_goals first
    | (cases h; done)
    | exact ⟨[_], rfl⟩
    | exact ⟨[], (List.append_nil _).symm⟩
    | (cases h; simp_all; done)
    | (simp_all; done)
    | skip

theorem adm_guarS {σ σ' : Sys} {i : Nat} {th : Thread} {op : Op} (h : Adm σ i th σ')
    (hfi : ∀ fr ∈ th.stack, FI σ i fr) : GuarS i op σ σ' := by
  cases h
  all_goals (first | (rename_i hst; rw [hst] at hfi) | (rename_i hst _; rw [hst] at hfi))
  all_goals simp only [List.mem_cons, forall_eq_or_imp, FI] at hfi
  all_goals refine guarS_upd (fun s f h => ?_) ?_ ?_
  all_goals first
    | (cases h; done)
    | exact ⟨[], (List.append_nil _).symm⟩
    | (simp_all; done)

/-! #### part P17 -/
/-! ### recipients, registration uniqueness -/

def RT (σ : Sys) : List Frame → Prop
  | [.tDispatch u _ rs] => rs.Nodup ∧ ∀ s ∈ rs, s ∈ σ.tr.index ∧ (getSub σ s).matches u = true
  | [.sDispatch s' _ _ _, .tDispatch u _ rs] =>
    (s' :: rs).Nodup ∧ ∀ s ∈ s' :: rs, s ∈ σ.tr.index ∧ (getSub σ s).matches u = true
  | _ => True

def AdderU (σ : Sys) : List Frame → Prop
  | [.tAdd s pc _ _ _] => pc ≤ 2 → (getSub σ s).joinedAt = none
  | _ => True

structure GInv (σ : Sys) : Prop where
  rt : ∀ (j : Nat) (th : Thread), σ.threads[j]? = some th → RT σ th.stack
  au : ∀ (j : Nat) (th : Thread), σ.threads[j]? = some th → AdderU σ th.stack
  nodup : σ.tr.index.Nodup

theorem matches_congr {b b' : Sub} (h : b'.topics = b.topics) (u : Upd) : b'.matches u = b.matches u := by
  simp [Sub.matches, h]

theorem RT_congr {σ σ' : Sys} (hm : ∀ s, (getSub σ' s).topics = (getSub σ s).topics)
    (hi : σ'.tr.index = σ.tr.index) (st : List Frame) : RT σ' st ↔ RT σ st := by
  unfold RT
  split <;> simp only [hi, matches_congr (hm _)]

theorem RT_stable {σ σ' : Sys} {i j : Nat} {op opj : Op} {st : List Frame} (hG : GuarS i op σ σ') (hji : j ≠ i)
    (hvs : VS σ.subs.length opj st) (hfi : ∀ fr ∈ st, FI σ j fr) (h : RT σ st) : RT σ' st := by
  rcases hG.trw with ⟨-, hidx, -⟩ | hw
  · exact (RT_congr (fun s => (hG.imm s).1) hidx st).2 h
  · cases hvs
    all_goals simp only [RT] at h ⊢
    all_goals simp only [List.mem_cons, forall_eq_or_imp, FI, List.not_mem_nil, false_imp_iff, implies_true, and_true] at hfi
    · rename_i u pc hpc
      simp
    · have := hfi (by omega); rw [hw] at this; cases this; exact absurd rfl hji
    · have := hfi.2 (by omega); rw [hw] at this; cases this; exact absurd rfl hji

theorem AdderU_stable {σ σ' : Sys} {i j : Nat} {ti tj : Thread} (hU : AddUnique σ) (hG : GuarS i ti.op σ σ') (hji : j ≠ i)
    (hi : σ.threads[i]? = some ti) (hj : σ.threads[j]? = some tj)
    (hvs : VS σ.subs.length tj.op tj.stack) (h : AdderU σ tj.stack) : AdderU σ' tj.stack := by
  generalize hop : tj.op = opj at hvs
  generalize hst : tj.stack = st at hvs h
  cases hvs <;> simp only [AdderU] at h ⊢
  · rename_i s pc ts rp hs _
    intro hp
    rcases hG.jn s with hjn | hjn
    · rw [hjn]; exact h hp
    · exact absurd (hU j i tj ti s hj hi hop hjn) hji
  all_goals omega

/-! #### part P18 -/
theorem RT_recips {σ : Sys} (hnd : σ.tr.index.Nodup) (u : Upd) (pc : Nat) :
    RT σ [.tDispatch u pc (recipsOf σ u)] := by
  simp only [RT, recipsOf]
  refine ⟨hnd.filter _, fun s hs => ?_⟩
  simpa using List.mem_filter.1 hs

theorem GInv_self_trans {σ σp : Sys} {i : Nat} {th : Thread} {st : List Frame} {op : Op} (h : Trans σ i st σp)
    (hth : σ.threads[i]? = some th)
    (hvs : VS σ.subs.length op st) (hfi : ∀ fr ∈ st, FI σ i fr) (hrt : RT σ st) (hau : AdderU σ st)
    (hnd : σ.tr.index.Nodup) (hidx : ∀ s ∈ σ.tr.index, joined σ s) :
    (∀ th', σp.threads[i]? = some th' → RT σp th'.stack ∧ AdderU σp th'.stack) ∧ σp.tr.index.Nodup := by
  have hG := trans_guarS h hfi hvs
  have hm : ∀ s, (getSub σp s).topics = (getSub σ s).topics := fun s => (hG.imm s).1
  cases h <;> cases hvs
  all_goals refine ⟨fun th' hth' => ?_, ?_⟩
  all_goals first
    | (rw [upd_threads_self _ _ _ _ _ hth] at hth'; cases hth'; simp only [retOf_stack]; refine ⟨?_, ?_⟩)
    | skip
  all_goals first
    | (simp only [RT]; done)
    | (simp only [AdderU]; done)
    | (simp only [upd_tr, id]; exact hnd)
    | (rw [RT_congr hm (by simp)]; first | exact hrt | exact RT_recips hnd _ _ | (simp_all [RT]; done))
    | (simp [AdderU]; done)
    | (simp only [AdderU] at hau ⊢; simp_all; done)
    | (simp only [upd_tr, endViewTr_index]; exact hnd)
    | (simp only [upd_tr]; exact hnd.filter _)
    | (simp only [upd_tr, AdderU] at hau ⊢
       rw [List.nodup_append]
       refine ⟨hnd, by simp, ?_⟩
       intro a ha b hb
       simp only [List.mem_cons, List.not_mem_nil, or_false] at hb
       subst hb
       intro hab; subst hab
       exact hidx _ ha (hau (by omega)))
    | (unfold flushStack; split <;> simp [RT, AdderU]; done)
    | skip
  all_goals (
    rename_i s ts rp _ _ _ _
    rcases scanLoop_shape σ.flags (getSub σ s) s ts (scanFrom σ.tr.db (getSub σ s).req).1
      ((scanFrom σ.tr.db (getSub σ s).req).2.length + 1) (scanFrom σ.tr.db (getSub σ s).req).2 with h | ⟨e, more, h⟩ <;>
      rw [h] <;> simp [RT, AdderU])

theorem GInv_trans {σ σp : Sys} {i : Nat} {th : Thread} (hS : Shape σ) (hK : K σ) (hN : NInv σ) (hU : AddUnique σ)
    (hGI : GInv σ) (hth : σ.threads[i]? = some th) (h : Trans σ i th.stack σp) : GInv σp := by
  have hself := GInv_self_trans h hth (hS.vs i th hth) (hK i th hth) (hGI.rt i th hth) (hGI.au i th hth) hGI.nodup hN.idx
  have hG := trans_guarS h (hK i th hth) (hS.vs i th hth)
  refine ⟨fun j t hj => ?_, fun j t hj => ?_, hself.2⟩
  · by_cases hji : j = i
    · subst hji; exact (hself.1 t hj).1
    · rw [trans_other h hji] at hj
      exact RT_stable hG hji (hS.vs j t hj) (hK j t hj) (hGI.rt j t hj)
  · by_cases hji : j = i
    · subst hji; exact (hself.1 t hj).2
    · rw [trans_other h hji] at hj
      exact AdderU_stable hU hG hji hth hj (hS.vs j t hj) (hGI.au j t hj)

/-! #### part P19 -/
theorem RT_AdderU_scanLoop (σ' : Sys) (fl sb s ts fuel todo rp) :
    RT σ' (scanLoop fl sb s ts fuel todo rp ++ []) ∧ AdderU σ' (scanLoop fl sb s ts fuel todo rp ++ []) := by
  rcases scanLoop_shape fl sb s ts rp fuel todo with h | ⟨e', more', h⟩ <;> rw [h] <;> simp [RT, AdderU]

theorem GInv_self_adm {σ σ' : Sys} {i : Nat} {th : Thread} {op : Op} (h : Adm σ i th σ')
    (hth : σ.threads[i]? = some th) (hvs : VS σ.subs.length op th.stack) (hrt : RT σ th.stack) :
    (∀ th', σ'.threads[i]? = some th' → RT σ' th'.stack ∧ AdderU σ' th'.stack) ∧ σ'.tr.index = σ.tr.index := by
  cases h <;> (first | (rename_i hst; rw [hst] at hrt hvs) | (rename_i hst _; rw [hst] at hrt hvs)) <;> cases hvs
  all_goals refine ⟨fun th' hth' => ?_, rfl⟩
  all_goals (rw [upd_threads_self _ _ _ _ _ hth] at hth'; cases hth'; simp only [retOf_stack]; refine ⟨?_, ?_⟩)
  all_goals first
    | (simp only [RT]; done)
    | (simp only [AdderU]; done)
    | (simp [AdderU]; done)
    | (rw [RT_congr (σ := σ) (fun s => rfl) rfl]; exact hrt)
    | skip
  · simpa [RT] using hrt
  · exact (RT_AdderU_scanLoop _ _ _ _ _ _ _ _).1
  · exact (RT_AdderU_scanLoop _ _ _ _ _ _ _ _).2

theorem GInv_adm {σ σ' : Sys} {i : Nat} {th : Thread} (hS : Shape σ) (hK : K σ) (hU : AddUnique σ)
    (hGI : GInv σ) (hth : σ.threads[i]? = some th) (h : Adm σ i th σ') : GInv σ' := by
  have hself := GInv_self_adm h hth (hS.vs i th hth) (hGI.rt i th hth)
  have hG : GuarS i th.op σ σ' := adm_guarS h (hK i th hth)
  refine ⟨fun j t hj => ?_, fun j t hj => ?_, hself.2 ▸ hGI.nodup⟩
  · by_cases hji : j = i
    · subst hji; exact (hself.1 t hj).1
    · rw [adm_other h hji] at hj
      exact RT_stable hG hji (hS.vs j t hj) (hK j t hj) (hGI.rt j t hj)
  · by_cases hji : j = i
    · subst hji; exact (hself.1 t hj).2
    · rw [adm_other h hji] at hj
      exact AdderU_stable hU hG hji hth hj (hS.vs j t hj) (hGI.au j t hj)

/-! #### part P20 -/
/-! ### the update in flight -/

/-- The update the fan-out described by a stack still owes subscriber `s`. -/
def pendT (σ : Sys) (s : Nat) : List Frame → List Upd
  | [.tDispatch u pc rs] =>
    if pc = 3 then (if σ.tr.kind = .bolt ∧ s ∈ σ.tr.index ∧ (getSub σ s).matches u = true then [u] else [])
    else if s ∈ rs then [u] else []
  | [.sDispatch s' _ _ _, .tDispatch u _ rs] => if s' = s ∨ s ∈ rs then [u] else []
  | _ => []

def pend (σ : Sys) (s : Nat) : List Upd :=
  match σ.tr.writer with
  | none => []
  | some j =>
    match σ.threads[j]? with
    | none => []
    | some th => pendT σ s th.stack

/-- Stacks that are not a fan-out. -/
def nonD : List Frame → Prop
  | [.tDispatch _ _ _] => False
  | [.sDispatch _ _ _ _, .tDispatch _ _ _] => False
  | _ => True

theorem pendT_nonD {σ : Sys} {s : Nat} {st : List Frame} (h : nonD st) : pendT σ s st = [] := by
  unfold nonD at h
  split at h
  · exact h.elim
  · exact h.elim
  · rename_i h1 h2
    unfold pendT
    split
    · exact absurd rfl (h1 _ _ _)
    · exact absurd rfl (h2 _ _ _ _ _ _ _)
    · rfl

theorem pendT_congr {σ σ' : Sys} (hk : σ'.tr.kind = σ.tr.kind) (hi : σ'.tr.index = σ.tr.index)
    (hm : ∀ s, (getSub σ' s).topics = (getSub σ s).topics) (s : Nat) (st : List Frame) :
    pendT σ' s st = pendT σ s st := by
  unfold pendT
  split <;> simp only [hk, hi, matches_congr (hm _)]

theorem pend_of_writer {σ : Sys} {i : Nat} {th : Thread} (hw : σ.tr.writer = some i) (hth : σ.threads[i]? = some th)
    (s : Nat) : pend σ s = pendT σ s th.stack := by
  simp [pend, hw, hth]

theorem pend_of_none {σ : Sys} (hw : σ.tr.writer = none) (s : Nat) : pend σ s = [] := by
  simp [pend, hw]

/-- The in-flight update is unchanged by a step of a thread that is not (and does not become) a fan-out. -/
theorem pend_upd_nonD {σ : Sys} {i : Nat} {th : Thread} {sf g st l r} (hth : σ.threads[i]? = some th)
    (hw : OwnStep i σ.tr.writer (g σ.tr).writer) (h1 : ∀ σ' s, pendT σ' s th.stack = [])
    (h2 : ∀ σ' s, pendT σ' s st = [])
    (hc : σ.tr.writer ≠ some i → (g σ.tr).kind = σ.tr.kind ∧ (g σ.tr).index = σ.tr.index ∧
      ∀ s f, sf = some (s, f) → (f (getSub σ s)).topics = (getSub σ s).topics)
    (s : Nat) : pend (upd σ i sf g st l r) s = pend σ s := by
  have hself : (upd σ i sf g st l r).threads[i]? = some (retOf st th r l) := upd_threads_self _ _ _ _ _ hth
  rcases hw with hw | ⟨hw1, hw2⟩ | ⟨hw1, hw2⟩
  · by_cases hwi : σ.tr.writer = some i
    · rw [pend_of_writer hwi hth, pend_of_writer (by simpa [hw] using hwi) hself, h1]
      exact h2 _ _
    · obtain ⟨hk, hi, ht⟩ := hc hwi
      unfold pend
      simp only [upd_tr, hw]
      cases hwj : σ.tr.writer with
      | none => rfl
      | some j =>
        have hji : j ≠ i := fun h => hwi (h ▸ hwj)
        simp only [upd_threads_other _ _ _ _ _ hji]
        cases σ.threads[j]? with
        | none => rfl
        | some tj =>
          refine pendT_congr (by simpa using hk) (by simpa using hi) (fun s' => ?_) s _
          rw [getSub_upd]
          rcases getSub_updSub_cases σ sf s' with h | ⟨s0, f, hsf, rfl, h⟩ <;> rw [h]
          exact ht _ f hsf
  · rw [pend_of_none hw1, pend_of_writer (by simpa using hw2) hself]
    exact h2 _ _
  · rw [pend_of_writer hw1 hth, pend_of_none (by simpa using hw2), h1]

/-! #### part P21 -/
/-! ### local transport: the stream invariant -/

def FL : Frame → Prop
  | .sDispatch _ _ h _ => h = false
  | .tAdd _ pc _ _ _ => pc ≠ 3 ∧ pc ≠ 8
  | _ => True

def AdderL (σ : Sys) : List Frame → Prop
  | [.tAdd s pc _ _ _] =>
    pc = 4 → (getSub σ s).joinedAt = some σ.tr.accepted.length ∧ (getSub σ s).ready = false ∧ (getSub σ s).liveQueue = []
  | [.sReady s _ q, .tAdd _ _ _ _ _] =>
    (getSub σ s).joinedAt = some σ.tr.accepted.length ∧ (getSub σ s).ready = false ∧ (getSub σ s).liveQueue = [] ∧ q = []
  | _ => True

/-- Per-subscriber claims. -/
def SL (σ : Sys) (s : Nat) : Prop :=
  ((getSub σ s).ready = false → (getSub σ s).enq = []) ∧
  (∀ k, (getSub σ s).joinedAt = some k →
     (getSub σ s).enq <+: (σ.tr.accepted.drop k).filter (getSub σ s).matches ∧
     ((getSub σ s).ready = true → (getSub σ s).disconnected = false → s ∈ σ.tr.index →
        (getSub σ s).enq ++ pend σ s = (σ.tr.accepted.drop k).filter (getSub σ s).matches))

structure LInv (σ : Sys) : Prop where
  kind : σ.tr.kind = Kind.«local»
  fl : ∀ (j : Nat) (th : Thread), σ.threads[j]? = some th → ∀ fr ∈ th.stack, FL fr
  adder : ∀ (j : Nat) (th : Thread), σ.threads[j]? = some th → AdderL σ th.stack
  sl : ∀ s, SL σ s

theorem filter_matches_congr {b b' : Sub} (h : b'.topics = b.topics) (l : List Upd) :
    l.filter b'.matches = l.filter b.matches := by
  congr 1; funext u; exact matches_congr h u

theorem SL_same {σ σ' : Sys} {s : Nat} (h : SL σ s)
    (henq : (getSub σ' s).enq = (getSub σ s).enq) (hr : (getSub σ' s).ready = (getSub σ s).ready)
    (hj : (getSub σ' s).joinedAt = (getSub σ s).joinedAt) (ht : (getSub σ' s).topics = (getSub σ s).topics)
    (hd : (getSub σ s).disconnected = true → (getSub σ' s).disconnected = true)
    (hA : σ'.tr.accepted = σ.tr.accepted) (hi : s ∈ σ'.tr.index → s ∈ σ.tr.index)
    (hp : (getSub σ' s).ready = true → (getSub σ' s).disconnected = false → s ∈ σ'.tr.index →
      pend σ' s = pend σ s) : SL σ' s := by
  unfold SL at *
  have hm : (getSub σ' s).matches = (getSub σ s).matches := by funext u; exact matches_congr ht u
  rw [henq, hj, hA, hm]
  refine ⟨hr ▸ h.1, fun k hk => ⟨(h.2 k hk).1, fun h1 h2 h3 => ?_⟩⟩
  rw [hp h1 h2 h3]
  refine (h.2 k hk).2 (hr ▸ h1) ?_ (hi h3)
  cases hd' : (getSub σ s).disconnected with
  | false => rfl
  | true => rw [hd hd'] at h2; cases h2

theorem SL_upd_same {σ : Sys} {i : Nat} {sf g st l r} (s' : Nat) (h : SL σ s')
    (hsf : ∀ s f, sf = some (s, f) → (f (getSub σ s)).enq = (getSub σ s).enq ∧
      (f (getSub σ s)).ready = (getSub σ s).ready ∧ (f (getSub σ s)).joinedAt = (getSub σ s).joinedAt ∧
      (f (getSub σ s)).topics = (getSub σ s).topics ∧
      ((getSub σ s).disconnected = true → (f (getSub σ s)).disconnected = true))
    (hA : (g σ.tr).accepted = σ.tr.accepted) (hi : s' ∈ (g σ.tr).index → s' ∈ σ.tr.index)
    (hp : (getSub (upd σ i sf g st l r) s').ready = true → (getSub (upd σ i sf g st l r) s').disconnected = false →
      s' ∈ (g σ.tr).index → pend (upd σ i sf g st l r) s' = pend σ s') : SL (upd σ i sf g st l r) s' := by
  have hc := getSub_updSub_cases σ sf s'
  refine SL_same h ?_ ?_ ?_ ?_ ?_ (by simpa using hA) (by simpa using hi) (by simpa using hp)
  all_goals rw [getSub_upd]
  all_goals rcases hc with h1 | ⟨s0, f, hsf', rfl, h1⟩ <;> rw [h1]
  all_goals first | rfl | exact id | skip
  · exact (hsf _ f hsf').1
  · exact (hsf _ f hsf').2.1
  · exact (hsf _ f hsf').2.2.1
  · exact (hsf _ f hsf').2.2.2.1
  · exact (hsf _ f hsf').2.2.2.2

/-! #### part P21b -/
theorem getSub_upd_ne {σ : Sys} {i s0 : Nat} {f g st l r} {s' : Nat} (hne : s' ≠ s0) :
    getSub (upd σ i (some (s0, f)) g st l r) s' = getSub σ s' := by
  rw [getSub_upd]
  rcases getSub_updSub_cases σ (some (s0, f)) s' with h | ⟨s, f', hsf, rfl, h⟩
  · exact h
  · cases hsf; exact absurd rfl hne

theorem SL_upd_ne {σ : Sys} {i s0 : Nat} {f g st l r} (s' : Nat) (h : SL σ s') (hne : s' ≠ s0)
    (hA : (g σ.tr).accepted = σ.tr.accepted) (hi : s' ∈ (g σ.tr).index → s' ∈ σ.tr.index)
    (hp : pend (upd σ i (some (s0, f)) g st l r) s' = pend σ s') : SL (upd σ i (some (s0, f)) g st l r) s' := by
  have e := getSub_upd_ne (σ := σ) (i := i) (f := f) (g := g) (st := st) (l := l) (r := r) hne
  exact SL_same h (by rw [e]) (by rw [e]) (by rw [e]) (by rw [e]) (by rw [e]; exact id) (by simpa using hA)
    (by simpa using hi) (fun _ _ _ => hp)

theorem SL_send {σ σ' : Sys} {s : Nat} {u : Upd} (h : SL σ s)
    (henq : (getSub σ' s).enq = (getSub σ s).enq ++ [u]) (hr : (getSub σ' s).ready = (getSub σ s).ready)
    (hj : (getSub σ' s).joinedAt = (getSub σ s).joinedAt) (ht : (getSub σ' s).topics = (getSub σ s).topics)
    (hA : σ'.tr.accepted = σ.tr.accepted)
    (hready : (getSub σ s).ready = true) (hdisc : (getSub σ s).disconnected = false) (hidx : s ∈ σ.tr.index)
    (hp : pend σ s = [u]) (hp' : pend σ' s = []) : SL σ' s := by
  unfold SL at *
  have hm : (getSub σ' s).matches = (getSub σ s).matches := by funext u; exact matches_congr ht u
  rw [henq, hj, hA, hm, hr, hp']
  refine ⟨fun hr' => (by rw [hready] at hr'; cases hr'), fun k hk => ?_⟩
  have := (h.2 k hk).2 hready hdisc hidx
  rw [hp] at this
  rw [← this]
  exact ⟨List.prefix_refl _, fun _ _ _ => by simp⟩

theorem SL_accept {σ σ' : Sys} {s : Nat} {u : Upd} (h : SL σ s) (hb : getSub σ' s = getSub σ s)
    (hA : σ'.tr.accepted = σ.tr.accepted ++ [u]) (hi : σ'.tr.index = σ.tr.index)
    (hle : ∀ k, (getSub σ s).joinedAt = some k → k ≤ σ.tr.accepted.length)
    (hp : pend σ s = [])
    (hp' : s ∈ σ.tr.index → pend σ' s = if (getSub σ s).matches u = true then [u] else []) : SL σ' s := by
  unfold SL at *
  rw [hb, hA, hi]
  refine ⟨h.1, fun k hk => ?_⟩
  have hk' := hle k hk
  rw [List.drop_append_of_le_length hk', List.filter_append]
  refine ⟨(h.2 k hk).1.trans (List.prefix_append _ _), fun h1 h2 h3 => ?_⟩
  have := (h.2 k hk).2 h1 h2 h3
  rw [hp, List.append_nil] at this
  rw [hp' h3, this]
  congr 1
  by_cases hm : (getSub σ s).matches u = true <;> simp [hm]

theorem SL_ready {σ σ' : Sys} {s : Nat} (h : SL σ s)
    (henq : (getSub σ' s).enq = (getSub σ s).enq) (hj : (getSub σ' s).joinedAt = (getSub σ s).joinedAt)
    (hA : σ'.tr.accepted = σ.tr.accepted)
    (hnr : (getSub σ s).ready = false) (hjn : (getSub σ s).joinedAt = some σ.tr.accepted.length)
    (hp' : pend σ' s = []) : SL σ' s := by
  unfold SL at *
  rw [henq, hj, hA, hp', h.1 hnr, hjn]
  refine ⟨fun _ => rfl, fun k hk => ?_⟩
  cases hk
  simp

theorem SL_join {σ' : Sys} {s : Nat}
    (henq : (getSub σ' s).enq = []) (hr : (getSub σ' s).ready = false) : SL σ' s := by
  unfold SL
  rw [henq, hr]
  exact ⟨fun _ => rfl, fun k _ => ⟨List.nil_prefix, fun h => by cases h⟩⟩

/-! #### part P22 -/
theorem pend_upd_writer {σ : Sys} {i : Nat} {th : Thread} {sf g st l r} (hth : σ.threads[i]? = some th)
    (hw : σ.tr.writer = some i) (hw' : (g σ.tr).writer = some i) (s : Nat)
    (hp : pendT (upd σ i sf g st l r) s st = pendT σ s th.stack) : pend (upd σ i sf g st l r) s = pend σ s := by
  rw [pend_of_writer hw hth, pend_of_writer (by simpa using hw') (upd_threads_self _ _ _ _ _ hth)]
  exact hp

theorem SL_trans {σ σp : Sys} {i : Nat} {th : Thread} (hS : Shape σ) (hK : K σ) (hN : NInv σ) (_hU : AddUnique σ)
    (hGI : GInv σ) (hL : LInv σ) (hP : Parked σ) (hth : σ.threads[i]? = some th)
    (h : Trans σ i th.stack σp) (s' : Nat) : SL σp s' := by
  have hvs := hS.vs i th hth
  have hfi := hK i th hth
  have hfl := hL.fl i th hth
  have had := hL.adder i th hth
  have hrt := hGI.rt i th hth
  have hpk := hP i th hth
  have hsl := hL.sl s'
  have hkind := hL.kind
  have hau := hGI.au i th hth
  generalize hst : th.stack = st at h hvs hfi hfl had hrt hpk hau
  generalize hop : th.op = op at hvs
  cases h <;> cases hvs
  all_goals simp only [List.mem_cons, forall_eq_or_imp, FI, FL, List.not_mem_nil, false_imp_iff, implies_true, and_true] at hfi hfl
  all_goals first
    | (exfalso; simp_all [topParked, isAdminFr, AdderL]; done)
    | (refine SL_upd_same s' hsl (fun s f h => ?_) ?_ ?_ ?_
       · first | (cases h; done) | (cases h; simp; done)
       · simp
       · first | (simp; done) | (intro h; exact (List.mem_filter.1 h).1)
       · intro hr hd hidx
         first
         | (refine pend_upd_nonD hth ?_ ?_ ?_ ?_ s'
            · simp_all [OwnStep]
            · rw [hst]; intro σ' s; simp [pendT]
            · intro σ' s; first | (simp [pendT]; done) | (unfold flushStack; split <;> simp [pendT])
            · intro hw; simp_all)
         | (refine pend_upd_writer hth ?_ ?_ s' ?_
            · simp_all
            · simp_all
            · rw [hst]; simp [pendT]; done)
         | (refine pend_upd_writer hth ?_ ?_ s' ?_
            · simp_all
            · simp_all
            · rw [hst]
              rename_i s _ _ _ _ _ _
              have hne : s ≠ s' := by
                rintro rfl
                simp_all [getSub_setSub_self]
              simp [pendT, hne]; done))
    | skip
  case sD0a.tDs =>
    rename_i s u hd rs hrs hs
    refine SL_upd_same s' hsl (fun s f h => by cases h) rfl id ?_
    intro hr hdd hidx
    have hw : σ.tr.writer = some i := by simp_all
    refine pend_upd_writer hth hw hw s' ?_
    rw [hst]
    have hne : s ≠ s' := by rintro rfl; simp_all
    simp [pendT, hne]
  case sD4a.tDs =>
    rename_i s u hd rs hrs hs
    refine SL_upd_same s' hsl (fun s f h => by cases h; simp) rfl id ?_
    intro hr hdd hidx
    have hw : σ.tr.writer = some i := by simp_all
    refine pend_upd_writer hth hw hw s' ?_
    rw [hst]
    have hne : s ≠ s' := by rintro rfl; simp_all [getSub_setSub_self]
    simp [pendT, hne]
  case sD5a.tDs =>
    rename_i s u hoc hlen rs hrs hs
    have hw : σ.tr.writer = some i := by simp_all
    simp only [RT] at hrt
    by_cases hss : s' = s
    · subst hss
      refine SL_send (u := u) hsl ?_ ?_ ?_ ?_ rfl (by simp_all) (by simp_all) (hrt.2 s' (by simp)).1 ?_ ?_
      · simp [getSub_setSub_self _ _ _ hs]
      · simp [getSub_setSub_self _ _ _ hs]
      · simp [getSub_setSub_self _ _ _ hs]
      · simp [getSub_setSub_self _ _ _ hs]
      · rw [pend_of_writer hw hth, hst]; simp [pendT]
      · rw [pend_of_writer (by simpa using hw) (upd_threads_self _ _ _ _ _ hth)]
        have : s' ∉ rs := (List.nodup_cons.1 hrt.1).1
        simp [pendT, this]
    · refine SL_upd_ne s' hsl hss rfl id ?_
      refine pend_upd_writer hth hw hw s' ?_
      rw [hst]
      have hne : s ≠ s' := fun h => hss h.symm
      simp [pendT, hne]
  case sR6.tAr =>
    rename_i s q pc hs
    simp only [AdderL] at had
    have hw : σ.tr.writer = some i := by simp_all
    by_cases hss : s' = s
    · subst hss
      refine SL_ready hsl ?_ ?_ rfl had.2.1 had.1 ?_
      · simp [getSub_setSub_self _ _ _ hs]
      · simp [getSub_setSub_self _ _ _ hs]
      · rw [pend_of_writer (by simpa using hw) (upd_threads_self _ _ _ _ _ hth)]
        simp [pendT]
    · refine SL_upd_ne s' hsl hss rfl id ?_
      refine pend_upd_writer hth hw hw s' ?_
      rw [hst]; simp [pendT]
  case tD2l.tD =>
    rename_i u pc hk hpc
    have hw : σ.tr.writer = some i := by simp_all
    refine SL_accept (u := u) hsl rfl rfl rfl (hN.le s') ?_ ?_
    · rw [pend_of_writer hw hth, hst]
      simp [pendT, hkind]
    · intro hidx
      rw [pend_of_writer (by simpa using hw) (upd_threads_self _ _ _ _ _ hth)]
      simp [pendT, recipsOf, hidx]
  case tA2lr.tA =>
    rename_i s ts rp hk hreq hs _
    have hw : σ.tr.writer = some i := by simp_all
    have hjn : (getSub σ s).joinedAt = none := by simp_all [AdderU]
    by_cases hss : s' = s
    · subst hss
      have := hN.none s' hjn
      refine SL_join ?_ ?_
      · simp [getSub_setSub_self _ _ _ hs, this]
      · simp [getSub_setSub_self _ _ _ hs, this]
    · refine SL_upd_ne s' hsl hss rfl ?_ ?_
      · simp [hss]
      · refine pend_upd_writer hth hw (by simpa using hw) s' ?_
        rw [hst]; simp [pendT]
  case tA2ln.tA =>
    rename_i s ts rp hk hreq hs _
    have hw : σ.tr.writer = some i := by simp_all
    have hjn : (getSub σ s).joinedAt = none := by simp_all [AdderU]
    by_cases hss : s' = s
    · subst hss
      have := hN.none s' hjn
      refine SL_join ?_ ?_
      · simp [getSub_setSub_self _ _ _ hs, this]
      · simp [getSub_setSub_self _ _ _ hs, this]
    · refine SL_upd_ne s' hsl hss rfl ?_ ?_
      · simp [hss]
      · refine pend_upd_writer hth hw (by simpa using hw) s' ?_
        rw [hst]; simp [pendT]

/-! #### part P23 -/
theorem pendT_scanLoop (σ' : Sys) (s' : Nat) (fl sb s ts fuel todo rp) :
    pendT σ' s' (scanLoop fl sb s ts fuel todo rp ++ []) = [] := by
  rcases scanLoop_shape fl sb s ts rp fuel todo with h | ⟨e', more', h⟩ <;> rw [h] <;> simp [pendT]

theorem SL_adm {σ σ' : Sys} {i : Nat} {th : Thread} (hS : Shape σ) (hK : K σ)
    (hL : LInv σ) (hth : σ.threads[i]? = some th)
    (h : Adm σ i th σ') (s' : Nat) : SL σ' s' := by
  have hvs := hS.vs i th hth
  have hfi := hK i th hth
  have hsl := hL.sl s'
  have hkind := hL.kind
  generalize hop : th.op = op at hvs
  cases h <;> (first | (rename_i hst; rw [hst] at hfi hvs) | (rename_i hst _; rw [hst] at hfi hvs)) <;> cases hvs
  all_goals simp only [List.mem_cons, forall_eq_or_imp, FI, List.not_mem_nil, false_imp_iff, implies_true, and_true] at hfi
  all_goals first
    | (exfalso; simp_all; done)
    | (refine SL_upd_same s' hsl (fun s f h => ?_) ?_ ?_ ?_
       · cases h
       · simp
       · simp
       · intro hr hd hidx
         first
         | (refine pend_upd_nonD hth ?_ ?_ ?_ ?_ s'
            · simp_all [OwnStep]
            · rw [hst]; intro σ' s; simp [pendT]
            · intro σ' s; first | (simp [pendT]; done) | exact pendT_scanLoop _ _ _ _ _ _ _ _ _
            · intro hw; simp_all)
         | (refine pend_upd_writer hth ?_ ?_ s' ?_
            · simp_all
            · simp_all
            · rw [hst]; simp [pendT]
              first | done | (intro h; simp [eq_comm]) ))
    | skip
  rename_i u s rs _
  have hw : σ.tr.writer = some i := hfi (by omega)
  refine SL_upd_same s' hsl (fun s f h => by cases h) rfl id ?_
  intro hr hd hidx
  refine pend_upd_writer hth hw hw s' ?_
  rw [hst]
  by_cases h1 : s' = s <;> simp [pendT, h1, eq_comm]

/-! #### part P24 -/
theorem AdderL_stable {σ σ' : Sys} {i j : Nat} {ti tj : Thread} (hU : AddUnique σ) (hkind : σ.tr.kind = Kind.«local»)
    (hG : GuarS i ti.op σ σ') (hji : j ≠ i)
    (hi : σ.threads[i]? = some ti) (hj : σ.threads[j]? = some tj)
    (hvs : VS σ.subs.length tj.op tj.stack) (hfi : ∀ fr ∈ tj.stack, FI σ j fr)
    (h : AdderL σ tj.stack) : AdderL σ' tj.stack := by
  generalize hop : tj.op = opj at hvs
  generalize hst : tj.stack = st at hvs h hfi
  have key : ∀ s, opj = .add s → σ.tr.writer = some j →
      (getSub σ' s).joinedAt = (getSub σ s).joinedAt ∧ (getSub σ' s).ready = (getSub σ s).ready ∧
      (getSub σ' s).liveQueue = (getSub σ s).liveQueue ∧ σ'.tr.accepted = σ.tr.accepted := by
    intro s hs hw
    have hne : ti.op ≠ .add s := fun h => hji (hU j i tj ti s hj hi (hop.trans hs) h)
    have hwi : σ.tr.writer ≠ some i := by rw [hw]; intro h; cases h; exact hji rfl
    refine ⟨(hG.jn s).resolve_right hne, (hG.rdy s).resolve_right hne, (hG.lq s).resolve_right hwi, ?_⟩
    exact (hG.trw.resolve_right hwi).1
  cases hvs <;> simp only [AdderL] at h ⊢
  all_goals simp only [List.mem_cons, forall_eq_or_imp, FI, List.not_mem_nil, false_imp_iff, implies_true, and_true] at hfi
  · rename_i s pc ts rp hs _
    intro hp
    obtain ⟨k1, k2, k3, k4⟩ := key s rfl (hfi.2 hkind (by omega))
    rw [k1, k2, k3, k4]; exact h hp
  · intro hp; omega
  · intro hp; omega
  · rename_i s pc q hs
    obtain ⟨k1, k2, k3, k4⟩ := key s rfl (hfi.2.2 hkind (by omega))
    rw [k1, k2, k3, k4]; exact h

/-! #### part P25 -/
theorem LInv_self_trans {σ σp : Sys} {i : Nat} {th : Thread} {st : List Frame} {op : Op} (h : Trans σ i st σp)
    (hth : σ.threads[i]? = some th) (hN : NInv σ)
    (hvs : VS σ.subs.length op st) (hfl : ∀ fr ∈ st, FL fr) (had : AdderL σ st) (hau : AdderU σ st)
    (hpk : topParked st = true) (hkind : σ.tr.kind = Kind.«local») :
    ∀ th', σp.threads[i]? = some th' → (∀ fr ∈ th'.stack, FL fr) ∧ AdderL σp th'.stack := by
  intro th' hth'
  have hnone := hN.none
  cases h <;> cases hvs
  all_goals (rw [upd_threads_self _ _ _ _ _ hth] at hth'; cases hth'; simp only [retOf_stack])
  all_goals simp only [List.mem_cons, forall_eq_or_imp, FL, List.not_mem_nil, false_imp_iff, implies_true, and_true] at hfl
  all_goals first
    | (exfalso; simp_all [topParked, isAdminFr]; done)
    | skip
  all_goals refine ⟨?_, ?_⟩
  all_goals first
    | (simp_all [FL]; done)
    | (simp only [AdderL]; done)
    | (simp [AdderL]; done)
    | (simp_all [AdderL, AdderU, getSub_setSub_self]; done)
    | (unfold flushStack; split <;> simp_all [FL, AdderL, getSub_setSub_self]; done)
    | skip

theorem LInv_self_adm {σ σ' : Sys} {i : Nat} {th : Thread} {op : Op} (h : Adm σ i th σ')
    (hth : σ.threads[i]? = some th)
    (hvs : VS σ.subs.length op th.stack) (hfl : ∀ fr ∈ th.stack, FL fr) :
    ∀ th', σ'.threads[i]? = some th' → (∀ fr ∈ th'.stack, FL fr) ∧ AdderL σ' th'.stack := by
  intro th' hth'
  cases h <;> (first | (rename_i hst; rw [hst] at hfl hvs) | (rename_i hst _; rw [hst] at hfl hvs)) <;> cases hvs
  all_goals (rw [upd_threads_self _ _ _ _ _ hth] at hth'; cases hth'; simp only [retOf_stack])
  all_goals simp only [List.mem_cons, forall_eq_or_imp, FL, List.not_mem_nil, false_imp_iff, implies_true, and_true] at hfl
  all_goals first
    | (exfalso; simp_all; done)
    | skip
  all_goals refine ⟨?_, ?_⟩
  all_goals first
    | (simp_all [FL]; done)
    | (simp only [AdderL]; done)
    | (simp [AdderL]; done)
    | skip

/-! #### part P26 -/
theorem LInv_trans {σ σp : Sys} {i : Nat} {th : Thread} (hS : Shape σ) (hK : K σ) (hN : NInv σ) (hU : AddUnique σ)
    (hGI : GInv σ) (hL : LInv σ) (hP : Parked σ) (hth : σ.threads[i]? = some th)
    (h : Trans σ i th.stack σp) : LInv σp := by
  have hself := LInv_self_trans h hth hN (hS.vs i th hth) (hL.fl i th hth) (hL.adder i th hth) (hGI.au i th hth)
    (hP i th hth) hL.kind
  have hG := trans_guarS h (hK i th hth) (hS.vs i th hth)
  have hGK := trans_guarK h (hK i th hth)
  refine ⟨hGK.kind.trans hL.kind, fun j t hj => ?_, fun j t hj => ?_, SL_trans hS hK hN hU hGI hL hP hth h⟩
  · by_cases hji : j = i
    · subst hji; exact (hself t hj).1
    · rw [trans_other h hji] at hj; exact hL.fl j t hj
  · by_cases hji : j = i
    · subst hji; exact (hself t hj).2
    · rw [trans_other h hji] at hj
      exact AdderL_stable hU hL.kind hG hji hth hj (hS.vs j t hj) (hK j t hj) (hL.adder j t hj)

theorem LInv_adm {σ σ' : Sys} {i : Nat} {th : Thread} (hS : Shape σ) (hK : K σ) (hU : AddUnique σ)
    (hL : LInv σ) (hth : σ.threads[i]? = some th) (h : Adm σ i th σ') : LInv σ' := by
  have hself := LInv_self_adm h hth (hS.vs i th hth) (hL.fl i th hth)
  have hG : GuarS i th.op σ σ' := adm_guarS h (hK i th hth)
  have hGK := adm_guarK h (hK i th hth)
  refine ⟨hGK.kind.trans hL.kind, fun j t hj => ?_, fun j t hj => ?_, SL_adm hS hK hL hth h⟩
  · by_cases hji : j = i
    · subst hji; exact (hself t hj).1
    · rw [adm_other h hji] at hj; exact hL.fl j t hj
  · by_cases hji : j = i
    · subst hji; exact (hself t hj).2
    · rw [adm_other h hji] at hj
      exact AdderL_stable hU hL.kind hG hji hth hj (hS.vs j t hj) (hK j t hj) (hL.adder j t hj)

/-! ### the base invariant and its preservation by `step` -/

structure Base (σ : Sys) : Prop where
  flags : σ.flags = Flags.repaired
  shape : Shape σ
  k : K σ
  n : NInv σ
  u : AddUnique σ
  g : GInv σ

theorem Base_trans {σ σp : Sys} {i : Nat} {th : Thread} (hB : Base σ) (hth : σ.threads[i]? = some th)
    (h : Trans σ i th.stack σp) : Base σp :=
  ⟨(trans_frame h).2.1.trans hB.flags, shape_trans hB.shape hth h, K_trans hB.shape hB.k hth h,
   NInv_trans hB.shape hB.n hth h, addUnique_of_opsEq (trans_opsEq h) hB.u,
   GInv_trans hB.shape hB.k hB.n hB.u hB.g hth h⟩

theorem Base_adm {σ σ' : Sys} {i : Nat} {th : Thread} (hB : Base σ) (hth : σ.threads[i]? = some th)
    (h : Adm σ i th σ') : Base σ' :=
  ⟨(adm_frame h).2.1.trans hB.flags, shape_adm hB.shape hth h, K_adm hB.shape hB.k hth h,
   NInv_adm hB.shape hB.n hth h, addUnique_of_opsEq (adm_opsEq h) hB.u,
   GInv_adm hB.shape hB.k hB.u hB.g hth h⟩

/-- Generic preservation: an invariant `J` (implying `Base`) preserved by the flattened transitions and
    by the administrative transitions is preserved by `step`, together with `Parked`. -/
theorem step_preserves {J : Sys → Prop} (hJB : ∀ σ, J σ → Base σ)
    (hpanic : ∀ σ msg, J σ → J { σ with panic := some msg })
    (htrans : ∀ σ i th σp, J σ → Parked σ → σ.threads[i]? = some th → Trans σ i th.stack σp → J σp)
    (hadm : ∀ σ i th σ', J σ → σ.threads[i]? = some th → Adm σ i th σ' → J σ')
    (σ : Sys) (i : Nat) (hJ : J σ) (hP : Parked σ) : J (step σ i).σ ∧ Parked (step σ i).σ := by
  have hfl := (hJB σ hJ).flags
  rcases step_trans (i := i) hfl with h | ⟨msg, h⟩ | ⟨th, hth, _, n, σp, hn, ht, h⟩
  · rw [h]; exact ⟨hJ, hP⟩
  · rw [h]; exact ⟨hpanic σ msg hJ, hP⟩
  · rw [h]
    have hJp := htrans σ i th σp hJ hP hth ht
    obtain ⟨th', hth', _⟩ := trans_self hth ht
    constructor
    · refine normalize_inv (I := J) ?_ n σp hJp
      intro σ1 σ2 h1 h2
      cases ht1 : σ1.threads[i]? with
      | none => simp [admin, ht1] at h2
      | some t1 => exact hadm σ1 i t1 σ2 h1 ht1 (admin_adm (hJB σ1 h1).flags ht1 h2)
    · obtain ⟨m, rfl⟩ : ∃ m, n = m + 1 := ⟨n - 1, by omega⟩
      refine normalize_parked (hJB σp hJp).shape (hJB σp hJp).flags hth' ?_ m
      intro j t hji hj
      rw [trans_other ht hji] at hj
      exact hP j t hj

/-! #### part P27 -/
/-! ### the initial state -/

theorem init_threads (fl : Flags) (kind : Kind) (size : Nat) (subs : List Sub) (ops : List Op) (i : Nat) (th : Thread)
    (h : (Sys.init fl kind size subs ops).threads[i]? = some th) :
    ∃ o, ops[i]? = some o ∧ th.op = o ∧ th.stack = o.start ∧ th.last = none := by
  simp only [Sys.init, List.getElem?_map, Option.map_eq_some_iff] at h
  obtain ⟨o, ho, rfl⟩ := h
  exact ⟨o, ho, rfl, rfl, rfl⟩

theorem init_getSub (fl : Flags) (kind : Kind) (size : Nat) {subs : List Sub} {ops : List Op}
    (wf : WellFormed subs ops) (s : Nat) :
    (getSub (Sys.init fl kind size subs ops) s).enq = [] ∧ (getSub (Sys.init fl kind size subs ops) s).liveQueue = [] ∧
    (getSub (Sys.init fl kind size subs ops) s).ready = false ∧ (getSub (Sys.init fl kind size subs ops) s).joinedAt = none := by
  unfold getSub
  simp only [Sys.init, List.getD_eq_getElem?_getD]
  cases h : subs[s]? with
  | none => exact ⟨rfl, rfl, rfl, rfl⟩
  | some b =>
    obtain ⟨t, r, c, rfl⟩ := wf.fresh b (List.mem_of_getElem? h)
    exact ⟨rfl, rfl, rfl, rfl⟩

theorem nodup_filterMap_index {α β : Type} (f : α → Option β) : ∀ (l : List α) (i j : Nat) (a b : α) (x : β),
    (l.filterMap f).Nodup → l[i]? = some a → l[j]? = some b → f a = some x → f b = some x → i = j
  | [], i, j, a, b, x, _, hi, _, _, _ => by simp at hi
  | c :: l, i, j, a, b, x, hnd, hi, hj, ha, hb => by
    have hmem : ∀ (k : Nat) (d : α), l[k]? = some d → f d = some x → x ∈ l.filterMap f := by
      intro k d hk hd
      exact List.mem_filterMap.2 ⟨d, List.mem_of_getElem? hk, hd⟩
    cases i with
    | zero =>
      cases j with
      | zero => rfl
      | succ j =>
        simp only [List.getElem?_cons_zero, Option.some.injEq] at hi
        simp only [List.getElem?_cons_succ] at hj
        subst hi
        rw [List.filterMap_cons, ha, List.nodup_cons] at hnd
        exact absurd (hmem j b hj hb) hnd.1
    | succ i =>
      cases j with
      | zero =>
        simp only [List.getElem?_cons_zero, Option.some.injEq] at hj
        simp only [List.getElem?_cons_succ] at hi
        subst hj
        rw [List.filterMap_cons, hb, List.nodup_cons] at hnd
        exact absurd (hmem i a hi ha) hnd.1
      | succ j =>
        simp only [List.getElem?_cons_succ] at hi hj
        have hnd' : (l.filterMap f).Nodup := by
          rw [List.filterMap_cons] at hnd
          split at hnd
          · exact hnd
          · exact (List.nodup_cons.1 hnd).2
        rw [nodup_filterMap_index f l i j a b x hnd' hi hj ha hb]

theorem vs_start {n : Nat} (o : Op)
    (h : match o with | .add s | .remove s | .disconnect s | .recv s => s < n | _ => True) : VS n o o.start := by
  cases o <;> simp only [Op.start] <;> first | (constructor <;> first | assumption | omega) | constructor

theorem Base_init {kind : Kind} {size : Nat} {subs : List Sub} {ops : List Op} (wf : WellFormed subs ops) :
    Base (Sys.init Flags.repaired kind size subs ops) ∧ Parked (Sys.init Flags.repaired kind size subs ops) := by
  have hth := init_threads Flags.repaired kind size subs ops
  have hsub := init_getSub Flags.repaired kind size wf
  refine ⟨⟨rfl, ⟨?_, ?_⟩, ?_, ⟨?_, ?_, ?_, ?_⟩, ?_, ⟨?_, ?_, ?_⟩⟩, ?_⟩
  · intro i th h
    obtain ⟨o, ho, h1, h2, -⟩ := hth i th h
    rw [h1, h2]
    exact vs_start o (wf.inRange o (List.mem_of_getElem? ho))
  · intro s hs; simp [Sys.init] at hs
  · intro i th h fr hfr
    obtain ⟨o, ho, h1, h2, -⟩ := hth i th h
    rw [h2] at hfr
    cases o <;> simp only [Op.start, List.mem_cons, List.not_mem_nil, or_false] at hfr <;> subst hfr <;> simp [FI]
  · intro s hs; simp [Sys.init] at hs
  · intro i th h fr hfr
    obtain ⟨o, ho, h1, h2, -⟩ := hth i th h
    rw [h2] at hfr
    cases o <;> simp only [Op.start, List.mem_cons, List.not_mem_nil, or_false] at hfr <;> subst hfr <;> simp [FN]
  · intro s _; exact ⟨(hsub s).1, (hsub s).2.1, (hsub s).2.2.1⟩
  · intro s k hk; rw [(hsub s).2.2.2] at hk; cases hk
  · intro i j ti tj s hi hj h1 h2
    obtain ⟨o1, ho1, e1, -, -⟩ := hth i ti hi
    obtain ⟨o2, ho2, e2, -, -⟩ := hth j tj hj
    refine nodup_filterMap_index _ ops i j o1 o2 s wf.addOnce ho1 ho2 ?_ ?_
    · rw [← e1, h1]
    · rw [← e2, h2]
  · intro i th h
    obtain ⟨o, ho, h1, h2, -⟩ := hth i th h
    rw [h2]
    cases o <;> simp [Op.start, RT]
  · intro i th h
    obtain ⟨o, ho, h1, h2, -⟩ := hth i th h
    rw [h2]
    cases o <;> simp [Op.start, AdderU, (hsub _).2.2.2]
  · simp [Sys.init]
  · intro i th h
    obtain ⟨o, ho, h1, h2, -⟩ := hth i th h
    rw [h2]
    cases o <;> rfl

/-! #### part P28 -/
/-! ### local transport: the theorems -/

theorem LInv_init {size : Nat} {subs : List Sub} {ops : List Op} (wf : WellFormed subs ops) :
    LInv (Sys.init Flags.repaired Kind.«local» size subs ops) := by
  have hth := init_threads Flags.repaired Kind.«local» size subs ops
  have hsub := init_getSub Flags.repaired Kind.«local» size wf
  refine ⟨rfl, ?_, ?_, ?_⟩
  · intro i th h fr hfr
    obtain ⟨o, ho, h1, h2, -⟩ := hth i th h
    rw [h2] at hfr
    cases o <;> simp only [Op.start, List.mem_cons, List.not_mem_nil, or_false] at hfr <;> subst hfr <;> simp [FL]
  · intro i th h
    obtain ⟨o, ho, h1, h2, -⟩ := hth i th h
    rw [h2]
    cases o <;> simp [Op.start, AdderL]
  · intro s
    unfold SL
    rw [(hsub s).1, (hsub s).2.2.2]
    exact ⟨fun _ => rfl, fun k hk => by cases hk⟩

def JL (σ : Sys) : Prop := Base σ ∧ LInv σ

theorem Base_panic (σ : Sys) (msg : String) (h : Base σ) : Base { σ with panic := some msg } :=
  ⟨h.flags, ⟨h.shape.vs, h.shape.idx⟩, h.k, ⟨h.n.idx, h.n.fr, h.n.none, h.n.le⟩, h.u, ⟨h.g.rt, h.g.au, h.g.nodup⟩⟩

theorem JL_panic (σ : Sys) (msg : String) (h : JL σ) : JL { σ with panic := some msg } :=
  ⟨Base_panic σ msg h.1, ⟨h.2.kind, h.2.fl, h.2.adder, h.2.sl⟩⟩

theorem JL_reach (size : Nat) (subs : List Sub) (ops : List Op) (wf : WellFormed subs ops) (sched : List Nat) :
    JL (reach Flags.repaired Kind.«local» size subs ops sched) ∧
    Parked (reach Flags.repaired Kind.«local» size subs ops sched) := by
  refine run_inv (I := fun σ => JL σ ∧ Parked σ) ?_ sched _ ⟨⟨(Base_init wf).1, LInv_init wf⟩, (Base_init wf).2⟩
  intro σ i h
  refine step_preserves (J := JL) (fun σ h => h.1) JL_panic ?_ ?_ σ i h.1 h.2
  · intro σ i th σp hJ hP hth ht
    exact ⟨Base_trans hJ.1 hth ht, LInv_trans hJ.1.shape hJ.1.k hJ.1.n hJ.1.u hJ.1.g hJ.2 hP hth ht⟩
  · intro σ i th σ' hJ hth ha
    exact ⟨Base_adm hJ.1 hth ha, LInv_adm hJ.1.shape hJ.1.k hJ.1.u hJ.2 hth ha⟩

theorem local_stream_prefix' (size : Nat) (subs : List Sub) (ops : List Op) (wf : WellFormed subs ops) (sched : List Nat) :
    ∀ b ∈ (reach Flags.repaired .local size subs ops sched).subs, ∀ k, b.joinedAt = some k →
      b.enq <+: ((reach Flags.repaired .local size subs ops sched).tr.accepted.drop k).filter b.matches := by
  intro b hb k hk
  obtain ⟨s, hs, rfl⟩ := mem_subs_iff_getSub.1 hb
  exact (((JL_reach size subs ops wf sched).1.2.sl s).2 k hk).1

theorem pend_of_allDone {σ : Sys} (h : σ.allDone = true) (s : Nat) : pend σ s = [] := by
  cases hw : σ.tr.writer with
  | none => simp [pend, hw]
  | some j =>
    cases ht : σ.threads[j]? with
    | none => simp [pend, hw, ht]
    | some th =>
      have : th.stack = [] := by
        have := List.all_eq_true.1 h th (List.mem_of_getElem? ht)
        simpa [Thread.finished] using this
      simp [pend, hw, ht, this, pendT]

theorem local_stream_complete' (size : Nat) (subs : List Sub) (ops : List Op) (wf : WellFormed subs ops) (sched : List Nat)
    (hq : (reach Flags.repaired .local size subs ops sched).allDone = true) :
    ∀ s, s ∈ (reach Flags.repaired .local size subs ops sched).tr.index →
      let b := getSub (reach Flags.repaired .local size subs ops sched) s
      b.ready = true → b.disconnected = false → ∀ k, b.joinedAt = some k →
      b.enq = ((reach Flags.repaired .local size subs ops sched).tr.accepted.drop k).filter b.matches := by
  intro s hs b hr hd k hk
  have := (((JL_reach size subs ops wf sched).1.2.sl s).2 k hk).2 hr hd hs
  rw [pend_of_allDone hq, List.append_nil] at this
  exact this

/-! #### part P29 -/
theorem Base_reach (kind : Kind) (size : Nat) (subs : List Sub) (ops : List Op) (wf : WellFormed subs ops) (sched : List Nat) :
    Base (reach Flags.repaired kind size subs ops sched) ∧ Parked (reach Flags.repaired kind size subs ops sched) := by
  refine run_inv (I := fun σ => Base σ ∧ Parked σ) ?_ sched _ (Base_init wf)
  intro σ i h
  exact step_preserves (J := Base) (fun σ h => h) Base_panic
    (fun σ i th σp hJ _ hth ht => Base_trans hJ hth ht) (fun σ i th σ' hJ hth ha => Base_adm hJ hth ha) σ i h.1 h.2

theorem nothing_before_indexed' (size : Nat) (subs : List Sub) (ops : List Op) (kind : Kind) (wf : WellFormed subs ops)
    (sched : List Nat) :
    ∀ b ∈ (reach Flags.repaired kind size subs ops sched).subs, b.joinedAt = none → b.enq = [] := by
  intro b hb hj
  obtain ⟨s, hs, rfl⟩ := mem_subs_iff_getSub.1 hb
  exact ((Base_reach kind size subs ops wf sched).1.n.none s hj).1

def JD (σ : Sys) : Prop := Base σ ∧ DbOk σ

theorem DbOk_panic (σ : Sys) (msg : String) (h : DbOk σ) : DbOk { σ with panic := some msg } :=
  ⟨h.kind, h.size, h.snd, h.fst, h.seq, h.lastSeq, h.bucket⟩

theorem DbOk_init (subs : List Sub) (ops : List Op) : DbOk (Sys.init Flags.repaired .bolt 0 subs ops) :=
  ⟨rfl, rfl, rfl, rfl, rfl, rfl, fun _ => rfl⟩

theorem JD_reach (subs : List Sub) (ops : List Op) (wf : WellFormed subs ops) (sched : List Nat) :
    JD (reach Flags.repaired .bolt 0 subs ops sched) ∧ Parked (reach Flags.repaired .bolt 0 subs ops sched) := by
  refine run_inv (I := fun σ => JD σ ∧ Parked σ) ?_ sched _ ⟨⟨(Base_init wf).1, DbOk_init subs ops⟩, (Base_init wf).2⟩
  intro σ i h
  exact step_preserves (J := JD) (fun σ h => h.1) (fun σ msg h => ⟨Base_panic σ msg h.1, DbOk_panic σ msg h.2⟩)
    (fun σ i th σp hJ _ hth ht => ⟨Base_trans hJ.1 hth ht, dbOk_trans ht hJ.2⟩)
    (fun σ i th σ' hJ hth ha => ⟨Base_adm hJ.1 hth ha, dbOk_adm ha hJ.2⟩) σ i h.1 h.2

theorem db_is_accepted' (subs : List Sub) (ops : List Op) (wf : WellFormed subs ops) (sched : List Nat) :
    (reach Flags.repaired .bolt 0 subs ops sched).tr.db.map (·.2) = (reach Flags.repaired .bolt 0 subs ops sched).tr.accepted ∧
    (reach Flags.repaired .bolt 0 subs ops sched).tr.db.map (·.1) = List.range' 1 (reach Flags.repaired .bolt 0 subs ops sched).tr.accepted.length :=
  ⟨(JD_reach subs ops wf sched).1.2.snd, (JD_reach subs ops wf sched).1.2.fst⟩

/-! #### part P30 -/
/-! ### Bolt: the history scan computes the owed updates -/

theorem takeWhile_seq (k : Nat) : ∀ (l : List (Nat × Upd)) (c : Nat), l.map (·.1) = List.range' (c + 1) l.length →
    (l.takeWhile (fun e => decide (e.1 ≤ k))).map (·.2) = (l.map (·.2)).take (k - c)
  | [], c, _ => by simp
  | e :: l, c, h => by
    simp only [List.map_cons, List.length_cons, List.range'_succ, List.cons.injEq] at h
    obtain ⟨h1, h2⟩ := h
    have ih := takeWhile_seq k l (c + 1) h2
    by_cases hk : e.1 ≤ k
    · have : k - c = (k - (c + 1)) + 1 := by omega
      simp [List.takeWhile_cons, hk, ih, this]
    · have : k - c = 0 := by omega
      simp [List.takeWhile_cons, hk, this]

theorem scanFrom_go_spec (n k : Nat) : ∀ (l : List (Nat × Upd)) (c : Nat) (last : Resp),
    l.map (·.1) = List.range' (c + 1) l.length →
    ((scanFrom.go n l last).2.takeWhile (fun e => decide (e.1 ≤ k))).map (·.2) =
      owed ((l.map (·.2)).take (k - c)) (.id n)
  | [], c, last, _ => by simp [scanFrom.go, owed]
  | e :: l, c, last, h => by
    simp only [List.map_cons, List.length_cons, List.range'_succ, List.cons.injEq] at h
    obtain ⟨h1, h2⟩ := h
    unfold scanFrom.go
    by_cases hn : e.2.id = n
    · simp only [hn, beq_self_eq_true, if_true]
      rw [takeWhile_seq k l (c + 1) h2]
      by_cases hk : k - c = 0
      · have : k - (c + 1) = 0 := by omega
        simp [hk, this, owed]
      · obtain ⟨m, hm⟩ : ∃ m, k - c = m + 1 := ⟨k - c - 1, by omega⟩
        have : k - (c + 1) = m := by omega
        simp [hm, this, List.dropWhile_cons, hn, owed]
    · have hne : (e.2.id == n) = false := by simpa using hn
      simp only [hne, Bool.false_eq_true, if_false]
      rw [scanFrom_go_spec n k l (c + 1) _ h2]
      by_cases hk : k - c = 0
      · have : k - (c + 1) = 0 := by omega
        simp [hk, this, owed]
      · obtain ⟨m, hm⟩ : ∃ m, k - c = m + 1 := ⟨k - c - 1, by omega⟩
        have : k - (c + 1) = m := by omega
        simp [hm, this, List.dropWhile_cons, hn, owed]

theorem scanFrom_spec (db : List (Nat × Upd)) (A : List Upd) (req : Req) (k : Nat)
    (h1 : db.map (·.2) = A) (h2 : db.map (·.1) = List.range' 1 A.length) :
    ((scanFrom db req).2.takeWhile (fun e => decide (e.1 ≤ k))).map (·.2) = owed (A.take k) req := by
  have hlen : A.length = db.length := by rw [← h1]; simp
  rw [hlen] at h2
  cases req with
  | none => simp [scanFrom, owed]
  | earliest =>
    simp only [scanFrom, owed]
    rw [takeWhile_seq k db 0 (by simpa using h2), h1]; simp
  | id n =>
    simp only [scanFrom]
    rw [scanFrom_go_spec n k db 0 _ (by simpa using h2), h1]; simp

/-- The matching entries with sequence number ≤ `k`. -/
def filt (b : Sub) (k : Nat) (l : List (Nat × Upd)) : List Upd :=
  ((l.takeWhile (fun e => decide (e.1 ≤ k))).map (·.2)).filter b.matches

theorem filt_cons_le {b : Sub} {k : Nat} {e : Nat × Upd} {l} (h1 : e.1 ≤ k) (h2 : b.matches e.2 = true) :
    filt b k (e :: l) = e.2 :: filt b k l := by
  simp [filt, List.takeWhile_cons, h1, h2]

theorem filt_cons_skip {b : Sub} {k : Nat} {e : Nat × Upd} {l} (h1 : e.1 ≤ k) (h2 : b.matches e.2 = false) :
    filt b k (e :: l) = filt b k l := by
  simp [filt, List.takeWhile_cons, h1, h2]

theorem filt_cons_gt {b : Sub} {k : Nat} {e : Nat × Upd} {l} (h1 : ¬ e.1 ≤ k) :
    filt b k (e :: l) = [] := by
  simp [filt, List.takeWhile_cons, h1]

theorem scanLoop_spec (sb : Sub) (s k : Nat) (rp : Resp) : ∀ (fuel : Nat) (todo : List (Nat × Upd)), todo.length < fuel →
    (scanLoop Flags.repaired sb s k fuel todo rp = [.tAdd s 4 k [] rp] ∧ filt sb k todo = []) ∨
    ∃ e more, scanLoop Flags.repaired sb s k fuel todo rp = [.sDispatch s e.2 true 0, .tAdd s 8 k (e :: more) rp] ∧
      e.1 ≤ k ∧ sb.matches e.2 = true ∧ filt sb k todo = filt sb k (e :: more)
  | 0, _, h => by omega
  | fuel + 1, [], _ => by left; simp [scanLoop, filt]
  | fuel + 1, e :: more, h => by
    unfold scanLoop
    by_cases hk : e.1 ≤ k
    · have hk' : ¬ (e.1 > k) := by omega
      simp only [Flags.repaired, Bool.true_and, decide_eq_true_eq, hk', if_false, Bool.not_true, Bool.false_and,
        Bool.false_eq_true]
      by_cases hm : sb.matches e.2 = true
      · simp only [hm, if_true]
        right; exact ⟨e, more, rfl, hk, hm, rfl⟩
      · have hm' : sb.matches e.2 = false := by simpa using hm
        simp only [hm', Bool.false_eq_true, if_false]
        rw [filt_cons_skip hk hm']
        exact scanLoop_spec sb s k rp fuel more (by simp at h; omega)
    · have hk' : e.1 > k := by omega
      simp only [Flags.repaired, Bool.true_and, decide_eq_true_eq, hk', if_true]
      exact Or.inl ⟨trivial, filt_cons_gt hk⟩

/-! #### part P31 -/
/-! ### Bolt: the stream invariant -/

def Hof (σ : Sys) (s k : Nat) : List Upd :=
  (owed (σ.tr.accepted.take k) (getSub σ s).req).filter (getSub σ s).matches
def Lof (σ : Sys) (s k : Nat) : List Upd := (σ.tr.accepted.drop k).filter (getSub σ s).matches

def SB (σ : Sys) (s : Nat) : Prop := ∀ k, (getSub σ s).joinedAt = some k →
  (getSub σ s).enq <+: Hof σ s k ++ Lof σ s k ∧
  ((getSub σ s).disconnected = false →
    ((getSub σ s).ready = true → s ∈ σ.tr.index → (getSub σ s).enq ++ pend σ s = Hof σ s k ++ Lof σ s k) ∧
    ((getSub σ s).ready = false → (getSub σ s).liveQueue ++ pend σ s <+: Lof σ s k ∧
      (s ∈ σ.tr.index → (getSub σ s).liveQueue ++ pend σ s = Lof σ s k)))

def AdderB (σ : Sys) (last : Option Bool) : List Frame → Prop
  | [.tAdd s pc ts sc _] =>
    (pc = 3 → (getSub σ s).joinedAt = some ts ∧ (getSub σ s).ready = false ∧ (getSub σ s).enq = []) ∧
    (pc = 4 → (getSub σ s).joinedAt = some ts ∧ (getSub σ s).ready = false ∧
      ((getSub σ s).disconnected = false → (getSub σ s).enq = Hof σ s ts)) ∧
    (pc = 8 → (getSub σ s).joinedAt = some ts ∧ (getSub σ s).ready = false ∧
      (last = some false → (getSub σ s).disconnected = true) ∧
      ∃ e more, sc = e :: more ∧
        ((getSub σ s).disconnected = false → (getSub σ s).enq ++ filt (getSub σ s) ts more = Hof σ s ts))
  | [.sDispatch s _ _ _, .tAdd _ _ ts sc _] =>
    (getSub σ s).joinedAt = some ts ∧ (getSub σ s).ready = false ∧
    ∃ e more, sc = e :: more ∧ e.1 ≤ ts ∧ (getSub σ s).matches e.2 = true ∧
      ((getSub σ s).disconnected = false → (getSub σ s).enq ++ filt (getSub σ s) ts (e :: more) = Hof σ s ts)
  | [.sReady s pc q, .tAdd _ _ _ _ _] =>
    (getSub σ s).ready = false ∧ ∃ k, (getSub σ s).joinedAt = some k ∧
      (pc ≤ 1 → (getSub σ s).disconnected = false → (getSub σ s).enq = Hof σ s k) ∧
      (2 ≤ pc → (getSub σ s).disconnected = false → (getSub σ s).enq ++ q = Hof σ s k ++ (getSub σ s).liveQueue) ∧
      (6 ≤ pc → q = [])
  | _ => True

structure BInv (σ : Sys) : Prop where
  adder : ∀ (j : Nat) (th : Thread), σ.threads[j]? = some th → AdderB σ th.last th.stack
  sb : ∀ s, SB σ s

theorem Hof_congr {σ σ' : Sys} {s k : Nat} {w : List Upd} (hA : σ'.tr.accepted = σ.tr.accepted ++ w)
    (hk : k ≤ σ.tr.accepted.length) (ht : (getSub σ' s).topics = (getSub σ s).topics)
    (hr : (getSub σ' s).req = (getSub σ s).req) : Hof σ' s k = Hof σ s k := by
  unfold Hof
  have hm : (getSub σ' s).matches = (getSub σ s).matches := by funext u; exact matches_congr ht u
  rw [hA, hr, hm, List.take_append_of_le_length hk]

theorem filt_congr {b b' : Sub} (ht : b'.topics = b.topics) (k l) : filt b' k l = filt b k l := by
  unfold filt
  have hm : b'.matches = b.matches := by funext u; exact matches_congr ht u
  rw [hm]

theorem ideal_eq (σ : Sys) (s k : Nat) : ideal (getSub σ s) σ.tr.accepted k = Hof σ s k ++ Lof σ s k := by
  simp [ideal, Hof, Lof, List.filter_append]

/-! #### part P32 -/
theorem disc_false_of_mono {b b' : Sub} (hm : b.disconnected = true → b'.disconnected = true)
    (h : b'.disconnected = false) : b.disconnected = false := by
  cases hd : b.disconnected with
  | false => rfl
  | true => rw [hm hd] at h; cases h

theorem AdderB_stable {σ σ' : Sys} {i j : Nat} {ti tj : Thread} (hU : AddUnique σ) (hN : NInv σ)
    (hG : GuarS i ti.op σ σ') (hji : j ≠ i)
    (hi : σ.threads[i]? = some ti) (hj : σ.threads[j]? = some tj)
    (hvs : VS σ.subs.length tj.op tj.stack) (hfi : ∀ fr ∈ tj.stack, FI σ j fr)
    (h : AdderB σ tj.last tj.stack) : AdderB σ' tj.last tj.stack := by
  generalize hop : tj.op = opj at hvs
  generalize hst : tj.stack = st at hvs h hfi
  generalize tj.last = last at h
  obtain ⟨w, hw⟩ := hG.accMono
  have key : ∀ s, opj = .add s → (getSub σ s).ready = false →
      (getSub σ' s).joinedAt = (getSub σ s).joinedAt ∧ (getSub σ' s).ready = (getSub σ s).ready ∧
      (getSub σ' s).enq = (getSub σ s).enq ∧ (getSub σ' s).topics = (getSub σ s).topics ∧
      ((getSub σ' s).disconnected = false → (getSub σ s).disconnected = false) ∧
      ((getSub σ s).disconnected = true → (getSub σ' s).disconnected = true) ∧
      (∀ k, (getSub σ s).joinedAt = some k → Hof σ' s k = Hof σ s k) ∧
      (∀ k l, filt (getSub σ' s) k l = filt (getSub σ s) k l) := by
    intro s hs hr
    have hne : ti.op ≠ .add s := fun h => hji (hU j i tj ti s hj hi (hop.trans hs) h)
    refine ⟨(hG.jn s).resolve_right hne, (hG.rdy s).resolve_right hne, ?_, (hG.imm s).1,
      disc_false_of_mono (hG.discMono s), hG.discMono s, fun k hk => ?_, fun k l => filt_congr (hG.imm s).1 k l⟩
    · rcases hG.enq s with h1 | ⟨h1, _⟩ | h1
      · exact h1
      · rw [hr] at h1; cases h1
      · exact absurd h1 hne
    · exact Hof_congr hw (hN.le s k hk) (hG.imm s).1 (hG.imm s).2
  cases hvs <;> simp only [AdderB] at h ⊢
  all_goals simp only [List.mem_cons, forall_eq_or_imp, FI, List.not_mem_nil, false_imp_iff, implies_true, and_true] at hfi
  · -- tA
    rename_i s pc ts rp hs hpc
    refine ⟨fun hp => ?_, fun hp => ?_, fun hp => by omega⟩
    · obtain ⟨h1, h2, h3⟩ := h.1 hp
      obtain ⟨k1, k2, k3, -⟩ := key s rfl h2
      rw [k1, k2, k3]; exact ⟨h1, h2, h3⟩
    · obtain ⟨h1, h2, h3⟩ := h.2.1 hp
      obtain ⟨k1, k2, k3, -, k5, -, k7, -⟩ := key s rfl h2
      rw [k1, k2, k3, k7 _ h1]; exact ⟨h1, h2, fun hd => h3 (k5 hd)⟩
  · -- tA7
    refine ⟨fun hp => by omega, fun hp => by omega, fun hp => by omega⟩
  · -- tA8
    rename_i s ts sc rp hs
    refine ⟨fun hp => by omega, fun hp => by omega, fun _ => ?_⟩
    obtain ⟨h1, h2, h3, e, more, h4, h5⟩ := h.2.2 trivial
    obtain ⟨k1, k2, k3, -, k5, k6, k7, k8⟩ := key s rfl h2
    refine ⟨k1 ▸ h1, k2 ▸ h2, fun hl => k6 (h3 hl), e, more, h4, fun hd => ?_⟩
    rw [k3, k8, k7 _ h1]; exact h5 (k5 hd)
  · -- tAs
    rename_i s pc ts e more rp hs
    obtain ⟨h1, h2, e', more', h4, h5, h6, h7⟩ := h
    obtain ⟨k1, k2, k3, k4, k5, k6, k7, k8⟩ := key s rfl h2
    refine ⟨k1 ▸ h1, k2 ▸ h2, e', more', h4, h5, (matches_congr k4 _).trans h6, fun hd => ?_⟩
    rw [k3, k8, k7 _ h1]; exact h7 (k5 hd)
  · -- tAr
    rename_i s pc q hs
    obtain ⟨h2, k, h1, h3, h4, h5⟩ := h
    obtain ⟨k1, k2, k3, k4, k5, k6, k7, k8⟩ := key s rfl h2
    rw [k1, k2, k3]
    refine ⟨h2, k, h1, fun hp hd => by rw [k7 _ h1]; exact h3 hp (k5 hd), fun hp hd => ?_, h5⟩
    rw [k7 _ h1]
    have hlq : (getSub σ' s).liveQueue = (getSub σ s).liveQueue := by
      rcases hG.lq2 s with hq | hq
      · exact hq
      · have := hfi.1.1 (by omega); rw [hq] at this; cases this
    rw [hlq]; exact h4 hp (k5 hd)

/-! #### part P32b -/
/-- Subscriber `s` looks the same in `σ'` as in `σ` as far as the adder's invariant is concerned. -/
structure Same (σ σ' : Sys) (s : Nat) : Prop where
  jn : (getSub σ' s).joinedAt = (getSub σ s).joinedAt
  rdy : (getSub σ' s).ready = (getSub σ s).ready
  enq : (getSub σ' s).enq = (getSub σ s).enq
  lq : (getSub σ' s).liveQueue = (getSub σ s).liveQueue
  topics : (getSub σ' s).topics = (getSub σ s).topics
  req : (getSub σ' s).req = (getSub σ s).req
  disc : (getSub σ s).disconnected = true → (getSub σ' s).disconnected = true
  acc : σ'.tr.accepted = σ.tr.accepted

theorem Same.hof {σ σ' : Sys} {s : Nat} (h : Same σ σ' s) (k : Nat) : Hof σ' s k = Hof σ s k := by
  unfold Hof
  have hm : (getSub σ' s).matches = (getSub σ s).matches := by funext u; exact matches_congr h.topics u
  rw [h.acc, h.req, hm]

theorem Same.filt {σ σ' : Sys} {s : Nat} (h : Same σ σ' s) (k l) : filt (getSub σ' s) k l = filt (getSub σ s) k l :=
  filt_congr h.topics k l

theorem Same.disc' {σ σ' : Sys} {s : Nat} (h : Same σ σ' s) (hd : (getSub σ' s).disconnected = false) :
    (getSub σ s).disconnected = false := disc_false_of_mono h.disc hd

theorem same_upd {σ : Sys} {i : Nat} {sf g st l r}
    (hsf : ∀ s f, sf = some (s, f) →
      (f (getSub σ s)).joinedAt = (getSub σ s).joinedAt ∧ (f (getSub σ s)).ready = (getSub σ s).ready ∧
      (f (getSub σ s)).enq = (getSub σ s).enq ∧ (f (getSub σ s)).liveQueue = (getSub σ s).liveQueue ∧
      (f (getSub σ s)).topics = (getSub σ s).topics ∧ (f (getSub σ s)).req = (getSub σ s).req ∧
      ((getSub σ s).disconnected = true → (f (getSub σ s)).disconnected = true))
    (hA : (g σ.tr).accepted = σ.tr.accepted) (s' : Nat) : Same σ (upd σ i sf g st l r) s' := by
  have hc := getSub_updSub_cases σ sf s'
  refine ⟨?_, ?_, ?_, ?_, ?_, ?_, ?_, by simpa using hA⟩
  all_goals rw [getSub_upd]
  all_goals rcases hc with h1 | ⟨s0, f, hsf', rfl, h1⟩ <;> rw [h1]
  all_goals first | rfl | exact id | skip
  · exact (hsf _ f hsf').1
  · exact (hsf _ f hsf').2.1
  · exact (hsf _ f hsf').2.2.1
  · exact (hsf _ f hsf').2.2.2.1
  · exact (hsf _ f hsf').2.2.2.2.1
  · exact (hsf _ f hsf').2.2.2.2.2.1
  · exact (hsf _ f hsf').2.2.2.2.2.2

theorem AdderB_transport {σ σ' : Sys} (hs : ∀ s, Same σ σ' s) (last : Option Bool) (st : List Frame)
    (h : AdderB σ last st) : AdderB σ' last st := by
  unfold AdderB at *
  split
  · rename_i s pc ts sc rp
    have e := hs s
    simp only [] at h
    rw [e.jn, e.rdy, e.enq, e.hof]
    simp only [e.filt]
    refine ⟨h.1, fun hp => ?_, fun hp => ?_⟩
    · obtain ⟨h1, h2, h3⟩ := h.2.1 hp
      exact ⟨h1, h2, fun hd => h3 (e.disc' hd)⟩
    · obtain ⟨h1, h2, h3, e', more, h4, h5⟩ := h.2.2 hp
      exact ⟨h1, h2, fun hl => e.disc (h3 hl), e', more, h4, fun hd => h5 (e.disc' hd)⟩
  · rename_i s u hh pc s2 pc2 ts sc rp
    have e := hs s
    simp only [] at h
    obtain ⟨h1, h2, e', more, h4, h5, h6, h7⟩ := h
    rw [e.jn, e.rdy, e.enq, e.hof]
    simp only [e.filt]
    exact ⟨h1, h2, e', more, h4, h5, (matches_congr e.topics _).trans h6, fun hd => h7 (e.disc' hd)⟩
  · rename_i s pc q s2 pc2 ts sc rp
    have e := hs s
    simp only [] at h
    obtain ⟨h2, k, h1, h3, h4, h5⟩ := h
    rw [e.rdy, e.jn, e.enq, e.lq]
    exact ⟨h2, k, h1, fun hp hd => by rw [e.hof]; exact h3 hp (e.disc' hd),
      fun hp hd => by rw [e.hof]; exact h4 hp (e.disc' hd), h5⟩
  · trivial

/-! #### part P32c -/
theorem AdderB_ret_false {σ σ' : Sys} {s s2 : Nat} {u pc ts e more rp last pc2} (hS : ∀ s', Same σ σ' s')
    (had : AdderB σ last [.sDispatch s u true pc, .tAdd s2 pc2 ts (e :: more) rp])
    (hd : (getSub σ' s).disconnected = true) :
    AdderB σ' (some false) [.tAdd s 8 ts (e :: more) rp] := by
  have had' := AdderB_transport hS _ _ had
  simp only [AdderB] at had' ⊢
  obtain ⟨h1, h2, e', more', h4, h5, h6, h7⟩ := had'
  refine ⟨fun hp => by omega, fun hp => by omega, fun _ => ⟨h1, h2, fun _ => hd, e', more', h4, fun hd' => ?_⟩⟩
  rw [hd] at hd'; cases hd'

/-- Everything but `enq` is unchanged. -/
structure SameX (σ σ' : Sys) (s : Nat) : Prop where
  jn : (getSub σ' s).joinedAt = (getSub σ s).joinedAt
  rdy : (getSub σ' s).ready = (getSub σ s).ready
  lq : (getSub σ' s).liveQueue = (getSub σ s).liveQueue
  topics : (getSub σ' s).topics = (getSub σ s).topics
  req : (getSub σ' s).req = (getSub σ s).req
  disc : (getSub σ' s).disconnected = (getSub σ s).disconnected
  acc : σ'.tr.accepted = σ.tr.accepted

theorem SameX.hof {σ σ' : Sys} {s : Nat} (h : SameX σ σ' s) (k : Nat) : Hof σ' s k = Hof σ s k := by
  unfold Hof
  have hm : (getSub σ' s).matches = (getSub σ s).matches := by funext u; exact matches_congr h.topics u
  rw [h.acc, h.req, hm]

theorem AdderB_ret_true {σ σ' : Sys} {s s2 : Nat} {pc ts e more rp last pc2} (hS : SameX σ σ' s)
    (had : AdderB σ last [.sDispatch s e.2 true pc, .tAdd s2 pc2 ts (e :: more) rp])
    (henq : (getSub σ' s).enq = (getSub σ s).enq ++ [e.2]) :
    AdderB σ' (some true) [.tAdd s 8 ts (e :: more) rp] := by
  simp only [AdderB] at had ⊢
  obtain ⟨h1, h2, e', more', h4, h5, h6, h7⟩ := had
  cases h4
  refine ⟨fun hp => by omega, fun hp => by omega, fun _ => ⟨hS.jn ▸ h1, hS.rdy ▸ h2, fun h => (by cases h), e, more, rfl,
    fun hd => ?_⟩⟩
  rw [hS.disc] at hd
  rw [henq, hS.hof, filt_congr hS.topics, ← h7 hd, filt_cons_le h5 h6]
  simp

theorem AdderB_flush {σ σ' : Sys} {s s2 : Nat} {u q' last pc2 ts sc rp} (hS : SameX σ σ' s)
    (had : AdderB σ last [.sReady s 3 (u :: q'), .tAdd s2 pc2 ts sc rp])
    (henq : (getSub σ' s).enq = (getSub σ s).enq ++ [u]) :
    AdderB σ' none (flushStack s q' [.tAdd s2 pc2 ts sc rp]) := by
  simp only [AdderB] at had
  obtain ⟨h2, k, h1, h3, h4, h5⟩ := had
  have key : (getSub σ' s).disconnected = false →
      (getSub σ' s).enq ++ q' = Hof σ' s k ++ (getSub σ' s).liveQueue := by
    intro hd
    rw [hS.disc] at hd
    rw [henq, hS.hof, hS.lq, ← h4 (by omega) hd]; simp
  unfold flushStack
  split <;> simp only [AdderB]
  · exact ⟨hS.rdy ▸ h2, k, hS.jn ▸ h1, fun hp => by omega, fun _ => key, fun _ => trivial⟩
  · exact ⟨hS.rdy ▸ h2, k, hS.jn ▸ h1, fun hp => by omega, fun _ => key, fun hp => by omega⟩

theorem AdderB_sR_step {σ σ' : Sys} {s pc pc' : Nat} {q q' : List Upd} {X : Frame} {last : Option Bool}
    (hS : ∀ s', Same σ σ' s') (had : AdderB σ last [.sReady s pc q, X])
    (hX : ∃ s2 pc2 ts sc rp, X = .tAdd s2 pc2 ts sc rp)
    (c1 : pc' ≤ 1 → pc ≤ 1)
    (c2 : 2 ≤ pc' → (2 ≤ pc ∧ q' = q) ∨ (pc ≤ 1 ∧ q' = (getSub σ s).liveQueue))
    (c3 : 6 ≤ pc' → q' = []) : AdderB σ' none [.sReady s pc' q', X] := by
  obtain ⟨s2, pc2, ts, sc, rp, rfl⟩ := hX
  have had' := AdderB_transport hS _ _ had
  simp only [AdderB] at had' ⊢
  obtain ⟨h2, k, h1, h3, h4, h5⟩ := had'
  refine ⟨h2, k, h1, fun hp hd => h3 (c1 hp) hd, fun hp hd => ?_, c3⟩
  rcases c2 hp with ⟨hp', rfl⟩ | ⟨hp', rfl⟩
  · exact h4 hp' hd
  · rw [h3 hp' hd, (hS s).lq]

/-! #### part P33 -/
theorem AdderB_self_trans {σ σp : Sys} {i : Nat} {th : Thread} {st : List Frame} {op : Op} (h : Trans σ i st σp)
    (hth : σ.threads[i]? = some th) (hfl : σ.flags = Flags.repaired) (hD : DbOk σ) (hN : NInv σ)
    (hvs : VS σ.subs.length op st) (hfi : ∀ fr ∈ st, FI σ i fr) (had : AdderB σ th.last st) (hau : AdderU σ st)
    (hpk : topParked st = true) :
    ∀ th', σp.threads[i]? = some th' → AdderB σp th'.last th'.stack := by
  intro th' hth'
  have hG := trans_guarS h hfi hvs
  have hkind := hD.kind
  cases h <;> cases hvs
  all_goals (rw [upd_threads_self _ _ _ _ _ hth] at hth'; cases hth'; simp only [retOf_stack, retOf_last])
  all_goals simp only [List.mem_cons, forall_eq_or_imp, FI, List.not_mem_nil, false_imp_iff, implies_true, and_true] at hfi
  all_goals first
    | (simp only [AdderB]; done)
    | (exfalso; simp_all [topParked, isAdminFr]; done)
    | (simp [AdderB]; done)
    | skip
  -- history dispatch: steps that stay in the frame
  case sD0b.tAs.refl | sD1b.tAs.refl | sD3.tAs.refl | sD4b.tAs.refl | sD5b.tAs.refl | sD6.tAs.refl =>
    refine AdderB_transport (fun s' => same_upd (fun s f h => ?_) rfl s') _ _ had
    first | (cases h; done) | (cases h; simp)
  -- history dispatch: returns `false` (the subscriber is disconnected)
  case sD0a.tAs.refl | sD4a.tAs.refl | sD7.tAs.refl =>
    refine AdderB_ret_false (fun s' => same_upd (fun s f h => ?_) rfl s') had ?_
    all_goals first | (cases h; done) | (cases h; simp; done) | (simp_all [getSub_setSub_self]; done)
  case sD5a.tAs.refl =>
    rename_i s hoc hlen ts e more rp hs
    refine AdderB_ret_true ⟨?_, ?_, ?_, ?_, ?_, ?_, ?_⟩ had ?_ <;> simp [getSub_setSub_self _ _ _ hs]
  -- Ready
  case sR0.tAr.refl | sR1.tAr.refl | sR3nil.tAr.refl | sR3b.tAr.refl | sR4.tAr.refl =>
    refine AdderB_sR_step (fun s' => same_upd (fun s f h => ?_) rfl s') had ⟨_, _, _, _, _, rfl⟩ ?_ ?_ ?_
    all_goals first | (cases h; done) | (cases h; simp; done) | (intro hp; omega) | (intro hp; simp; done) | skip
    all_goals (intro hp; first | (left; exact ⟨by omega, rfl⟩) | (right; exact ⟨by omega, rfl⟩))
  case sR2b.tAr.refl =>
    unfold flushStack
    split
    · refine AdderB_sR_step (fun s' => same_upd (fun s f h => ?_) rfl s') had ⟨_, _, _, _, _, rfl⟩ ?_ ?_ ?_
      · cases h
      · intro hp; omega
      · intro hp; left; exact ⟨by omega, rfl⟩
      · intro _; rfl
    · refine AdderB_sR_step (fun s' => same_upd (fun s f h => ?_) rfl s') had ⟨_, _, _, _, _, rfl⟩ ?_ ?_ ?_
      · cases h
      · intro hp; omega
      · intro hp; left; exact ⟨by omega, rfl⟩
      · intro hp; omega
  case sR3a.tAr.refl =>
    rename_i s u q' hoc hlen hs
    refine AdderB_flush ⟨?_, ?_, ?_, ?_, ?_, ?_, ?_⟩ had ?_ <;> simp [getSub_setSub_self _ _ _ hs]
  case tA2br.tA.refl =>
    rename_i s ts rp hk hreq hs hpc
    have hjn : (getSub σ s).joinedAt = none := by simpa [AdderU] using hau
    have hn := hN.none s hjn
    simp only [AdderB]
    refine ⟨fun _ => ⟨?_, ?_, ?_⟩, fun hp => by omega, fun hp => by omega⟩
    · simp [getSub_setSub_self _ _ _ hs, hD.lastSeq, hD.seq]
    · simp [getSub_setSub_self _ _ _ hs, hn]
    · simp [getSub_setSub_self _ _ _ hs, hn]
  case tA2bn.tA.refl =>
    rename_i s ts rp hk hreq hs hpc
    have hjn : (getSub σ s).joinedAt = none := by simpa [AdderU] using hau
    have hn := hN.none s hjn
    simp only [AdderB]
    refine ⟨?_, σ.tr.accepted.length, ?_, fun _ _ => ?_, fun hp => by omega, fun hp => by omega⟩
    · simp [getSub_setSub_self _ _ _ hs, hn]
    · simp [getSub_setSub_self _ _ _ hs]
    · simp [Hof, getSub_setSub_self _ _ _ hs, hn, hreq, owed]
  case tA3b.tA.refl =>
    rename_i s ts rp hdc hb hs hpc
    have hS : ∀ s', Same σ (upd σ i none (fun t => { t with readers := t.readers + 1 })
        [Frame.tAdd s 4 ts [] Resp.earliest] none none) s' :=
      fun s' => same_upd (fun s f h => by cases h) rfl s'
    have had' := AdderB_transport hS _ _ had
    simp only [AdderB] at had' ⊢
    obtain ⟨h1, h2, h3⟩ := had'.1 (by first | trivial | rfl)
    refine ⟨fun hp => by omega, fun _ => ⟨h1, h2, fun _ => ?_⟩, fun hp => by omega⟩
    rw [h3, (hS s).hof]
    have hA : σ.tr.accepted = [] := hD.bucket hb
    unfold Hof
    rw [hA]
    cases (getSub σ s).req <;> simp [owed]
  case tA4.tA.refl =>
    rename_i s ts rp pc hs hpc
    obtain rfl : pc = 0 := by omega
    have hS : ∀ s', Same σ (upd σ i (some (s, fun b => { b with resp := some rp })) endViewTr
        [Frame.sReady s 0 [], Frame.tAdd s 7 0 [] Resp.earliest] none none) s' :=
      fun s' => same_upd (fun s f h => by cases h; exact ⟨rfl, rfl, rfl, rfl, rfl, rfl, id⟩) (endViewTr_accepted _) s'
    have had' := AdderB_transport hS _ _ had
    simp only [AdderB] at had' ⊢
    obtain ⟨h1, h2, h3⟩ := had'.2.1 (by first | trivial | rfl)
    exact ⟨h2, ts, h1, fun _ hd => h3 hd, fun hp => by omega, fun hp => by omega⟩
  case tA3c.tA.refl =>
    rename_i s ts rp hdc hb hs hpc
    have hS : ∀ st' s', Same σ (upd σ i none (fun t => { t with readers := t.readers + 1 }) st' none none) s' :=
      fun st' s' => same_upd (fun s f h => by cases h) rfl s'
    have hsc := scanFrom_spec σ.tr.db σ.tr.accepted (getSub σ s).req ts hD.snd hD.fst
    have hH : Hof σ s ts = filt (getSub σ s) ts (scanFrom σ.tr.db (getSub σ s).req).2 := by
      unfold Hof filt; rw [hsc]
    simp only [AdderB] at had
    obtain ⟨h1, h2, h3⟩ := had.1 trivial
    rcases scanLoop_spec (getSub σ s) s ts (scanFrom σ.tr.db (getSub σ s).req).1
        ((scanFrom σ.tr.db (getSub σ s).req).2.length + 1) (scanFrom σ.tr.db (getSub σ s).req).2 (by omega) with
      ⟨k1, k2⟩ | ⟨e0, more, k1, k2, k3, k4⟩
    · rw [hfl, k1]
      simp only [List.cons_append, List.nil_append, AdderB]
      have e := hS [Frame.tAdd s 4 ts [] (scanFrom σ.tr.db (getSub σ s).req).fst] s
      refine ⟨fun hp => by omega, fun _ => ⟨e.jn ▸ h1, e.rdy ▸ h2, fun _ => ?_⟩, fun hp => by omega⟩
      rw [e.enq, e.hof, h3, hH, k2]
    · rw [hfl, k1]
      simp only [List.cons_append, List.nil_append, AdderB]
      have e := hS [Frame.sDispatch s e0.snd true 0, Frame.tAdd s 8 ts (e0 :: more) (scanFrom σ.tr.db (getSub σ s).req).fst] s
      refine ⟨e.jn ▸ h1, e.rdy ▸ h2, e0, more, rfl, k2, (matches_congr e.topics _).trans k3, fun _ => ?_⟩
      rw [e.enq, e.hof, e.filt, h3, hH, k4]; simp

/-! #### part P34 -/
theorem AdderB_self_adm {σ σ' : Sys} {i : Nat} {th : Thread} {op : Op} (h : Adm σ i th σ')
    (hth : σ.threads[i]? = some th) (hfl : σ.flags = Flags.repaired)
    (hvs : VS σ.subs.length op th.stack) (had : AdderB σ th.last th.stack) :
    ∀ th', σ'.threads[i]? = some th' → AdderB σ' th'.last th'.stack := by
  intro th' hth'
  cases h <;> (first | (rename_i hst; rw [hst] at had hvs) | (rename_i hst hl; rw [hst] at had hvs)) <;> cases hvs
  all_goals (rw [upd_threads_self _ _ _ _ _ hth] at hth'; cases hth'; simp only [retOf_stack, retOf_last])
  all_goals first
    | (simp only [AdderB]; done)
    | (simp [AdderB]; done)
    | skip
  case a8n.tA.refl => omega
  case a8n.tA8.refl =>
    simp only [AdderB] at had
    obtain ⟨-, -, -, e, more, h4, -⟩ := had.2.2 (by first | trivial | rfl)
    cases h4
  case a8f.tA8.refl =>
    rename_i s ts e more rp hs
    have hS : ∀ st' s', Same σ (upd σ i none id st' none none) s' :=
      fun st' s' => same_upd (fun s f h => by cases h) rfl s'
    have had' := AdderB_transport (hS [Frame.tAdd s 4 ts [] rp]) _ _ had
    simp only [AdderB] at had' ⊢
    obtain ⟨h1, h2, h3, e', more', h4, h5⟩ := had'.2.2 (by first | trivial | rfl)
    refine ⟨fun hp => by omega, fun _ => ⟨h1, h2, fun hd => ?_⟩, fun hp => by omega⟩
    rw [h3 hl] at hd; cases hd
  case a8t.tA8.refl =>
    rename_i s ts e more rp hs
    have hS : ∀ st' s', Same σ (upd σ i none id st' none none) s' :=
      fun st' s' => same_upd (fun s f h => by cases h) rfl s'
    simp only [AdderB] at had
    obtain ⟨h1, h2, h3, e', more', h4, h5⟩ := had.2.2 (by first | trivial | rfl)
    cases h4
    rcases scanLoop_spec (getSub σ s) s ts rp (more.length + 1) more (by omega) with
      ⟨k1, k2⟩ | ⟨e0, more0, k1, k2, k3, k4⟩
    · rw [hfl, k1]
      simp only [List.cons_append, List.nil_append, AdderB]
      have e := hS [Frame.tAdd s 4 ts [] rp] s
      refine ⟨fun hp => by omega, fun _ => ⟨e.jn ▸ h1, e.rdy ▸ h2, fun hd => ?_⟩, fun hp => by omega⟩
      rw [e.enq, e.hof, ← h5 (e.disc' hd), k2]; simp
    · rw [hfl, k1]
      simp only [List.cons_append, List.nil_append, AdderB]
      have e := hS [Frame.sDispatch s e0.snd true 0, Frame.tAdd s 8 ts (e0 :: more0) rp] s
      refine ⟨e.jn ▸ h1, e.rdy ▸ h2, e0, more0, rfl, k2, (matches_congr e.topics _).trans k3, fun hd => ?_⟩
      rw [e.enq, e.hof, e.filt, ← h5 (e.disc' hd), k4]

/-! #### part P35 -/
theorem Same.lof {σ σ' : Sys} {s : Nat} (h : Same σ σ' s) (k : Nat) : Lof σ' s k = Lof σ s k := by
  unfold Lof
  have hm : (getSub σ' s).matches = (getSub σ s).matches := by funext u; exact matches_congr h.topics u
  rw [h.acc, hm]

theorem SB_same {σ σ' : Sys} {s : Nat} (h : SB σ s) (hS : Same σ σ' s)
    (hi : s ∈ σ'.tr.index → s ∈ σ.tr.index)
    (hp : (getSub σ' s).disconnected = false → pend σ' s = pend σ s) : SB σ' s := by
  intro k hk
  rw [hS.jn] at hk
  obtain ⟨h1, h2⟩ := h k hk
  rw [hS.enq, hS.hof, hS.lof, hS.rdy, hS.lq]
  refine ⟨h1, fun hd => ?_⟩
  rw [hp hd]
  obtain ⟨h3, h4⟩ := h2 (hS.disc' hd)
  exact ⟨fun hr hidx => h3 hr (hi hidx), fun hr => ⟨(h4 hr).1, fun hidx => (h4 hr).2 (hi hidx)⟩⟩

theorem SB_upd_same {σ : Sys} {i : Nat} {sf g st l r} (s' : Nat) (h : SB σ s')
    (hsf : ∀ s f, sf = some (s, f) →
      (f (getSub σ s)).joinedAt = (getSub σ s).joinedAt ∧ (f (getSub σ s)).ready = (getSub σ s).ready ∧
      (f (getSub σ s)).enq = (getSub σ s).enq ∧ (f (getSub σ s)).liveQueue = (getSub σ s).liveQueue ∧
      (f (getSub σ s)).topics = (getSub σ s).topics ∧ (f (getSub σ s)).req = (getSub σ s).req ∧
      ((getSub σ s).disconnected = true → (f (getSub σ s)).disconnected = true))
    (hA : (g σ.tr).accepted = σ.tr.accepted) (hi : s' ∈ (g σ.tr).index → s' ∈ σ.tr.index)
    (hp : (getSub (upd σ i sf g st l r) s').disconnected = false → pend (upd σ i sf g st l r) s' = pend σ s') :
    SB (upd σ i sf g st l r) s' :=
  SB_same h (same_upd hsf hA s') (by simpa using hi) hp

theorem same_upd_ne {σ : Sys} {i s0 : Nat} {f g st l r} {s' : Nat} (hne : s' ≠ s0)
    (hA : (g σ.tr).accepted = σ.tr.accepted) : Same σ (upd σ i (some (s0, f)) g st l r) s' := by
  have e := getSub_upd_ne (σ := σ) (i := i) (f := f) (g := g) (st := st) (l := l) (r := r) hne
  exact ⟨by rw [e], by rw [e], by rw [e], by rw [e], by rw [e], by rw [e], by rw [e]; exact id, by simpa using hA⟩

theorem SB_upd_ne {σ : Sys} {i s0 : Nat} {f g st l r} (s' : Nat) (h : SB σ s') (hne : s' ≠ s0)
    (hA : (g σ.tr).accepted = σ.tr.accepted) (hi : s' ∈ (g σ.tr).index → s' ∈ σ.tr.index)
    (hp : pend (upd σ i (some (s0, f)) g st l r) s' = pend σ s') : SB (upd σ i (some (s0, f)) g st l r) s' :=
  SB_same h (same_upd_ne hne hA) (by simpa using hi) (fun _ => hp)

/-- A live send: the in-flight update reaches the channel. -/
theorem SB_send_live {σ σ' : Sys} {s : Nat} {u : Upd} (h : SB σ s) (hS : SameX σ σ' s)
    (henq : (getSub σ' s).enq = (getSub σ s).enq ++ [u])
    (hready : (getSub σ s).ready = true) (hdisc : (getSub σ s).disconnected = false) (hidx : s ∈ σ.tr.index)
    (hp : pend σ s = [u]) (hp' : pend σ' s = []) : SB σ' s := by
  intro k hk
  rw [hS.jn] at hk
  obtain ⟨h1, h2⟩ := h k hk
  have h3 := (h2 hdisc).1 hready hidx
  rw [hp] at h3
  have hl : Lof σ' s k = Lof σ s k := by
    unfold Lof
    have hm : (getSub σ' s).matches = (getSub σ s).matches := by funext u; exact matches_congr hS.topics u
    rw [hS.acc, hm]
  rw [henq, hS.hof, hl, hS.rdy, hp', ← h3]
  refine ⟨List.prefix_refl _, fun _ => ⟨fun _ _ => by simp, fun hr => ?_⟩⟩
  rw [hready] at hr; cases hr

/-- A send by the registering thread (history replay or queue flush): only the prefix claim moves. -/
theorem SB_send_adder {σ σ' : Sys} {s : Nat} {u : Upd} (h : SB σ s) (hS : SameX σ σ' s)
    (henq : (getSub σ' s).enq = (getSub σ s).enq ++ [u])
    (hnr : (getSub σ s).ready = false)
    (hpre : ∀ k, (getSub σ s).joinedAt = some k → (getSub σ s).enq ++ [u] <+: Hof σ s k ++ Lof σ s k)
    (hi : s ∈ σ'.tr.index → s ∈ σ.tr.index)
    (hp' : pend σ' s = pend σ s) : SB σ' s := by
  intro k hk
  rw [hS.jn] at hk
  obtain ⟨h1, h2⟩ := h k hk
  have hl : Lof σ' s k = Lof σ s k := by
    unfold Lof
    have hm : (getSub σ' s).matches = (getSub σ s).matches := by funext u; exact matches_congr hS.topics u
    rw [hS.acc, hm]
  rw [henq, hS.hof, hl, hS.rdy, hp', hS.lq, hS.disc]
  refine ⟨hpre k hk, fun hd => ⟨fun hr => ?_, fun hr => ?_⟩⟩
  · rw [hnr] at hr; cases hr
  · exact ⟨((h2 hd).2 hr).1, fun hidx => ((h2 hd).2 hr).2 (hi hidx)⟩

/-- The in-flight update is put on the live queue. -/
theorem SB_enqueue {σ σ' : Sys} {s : Nat} {u : Upd} (h : SB σ s)
    (hj : (getSub σ' s).joinedAt = (getSub σ s).joinedAt) (hr : (getSub σ' s).ready = (getSub σ s).ready)
    (he : (getSub σ' s).enq = (getSub σ s).enq) (ht : (getSub σ' s).topics = (getSub σ s).topics)
    (hq : (getSub σ' s).req = (getSub σ s).req) (hd : (getSub σ' s).disconnected = (getSub σ s).disconnected)
    (hA : σ'.tr.accepted = σ.tr.accepted)
    (hlq : (getSub σ' s).liveQueue = (getSub σ s).liveQueue ++ [u])
    (hnr : (getSub σ s).ready = false)
    (hi : s ∈ σ'.tr.index → s ∈ σ.tr.index)
    (hp : pend σ s = [u]) (hp' : pend σ' s = []) : SB σ' s := by
  intro k hk
  rw [hj] at hk
  obtain ⟨h1, h2⟩ := h k hk
  have hm : (getSub σ' s).matches = (getSub σ s).matches := by funext u; exact matches_congr ht u
  have hl : Lof σ' s k = Lof σ s k := by unfold Lof; rw [hA, hm]
  have hh : Hof σ' s k = Hof σ s k := by unfold Hof; rw [hA, hq, hm]
  rw [he, hh, hl, hr, hd, hlq, hp']
  refine ⟨h1, fun hd' => ⟨fun hr' => ?_, fun hr' => ?_⟩⟩
  · rw [hnr] at hr'; cases hr'
  · have := (h2 hd').2 hr'
    rw [hp] at this
    rw [List.append_nil]
    exact ⟨this.1, fun hidx => this.2 (hi hidx)⟩

/-! #### part P36 -/
theorem SB_accept {σ σ' : Sys} {s : Nat} {u : Upd} (h : SB σ s) (hb : getSub σ' s = getSub σ s)
    (hA : σ'.tr.accepted = σ.tr.accepted ++ [u]) (hi : σ'.tr.index = σ.tr.index)
    (hle : ∀ k, (getSub σ s).joinedAt = some k → k ≤ σ.tr.accepted.length)
    (hp : pend σ s = [])
    (hp' : pend σ' s = if s ∈ σ.tr.index ∧ (getSub σ s).matches u = true then [u] else []) : SB σ' s := by
  intro k hk
  rw [hb] at hk
  obtain ⟨h1, h2⟩ := h k hk
  have hk' := hle k hk
  have hh : Hof σ' s k = Hof σ s k := by
    unfold Hof; rw [hb, hA, List.take_append_of_le_length hk']
  have hl : Lof σ' s k = Lof σ s k ++ [u].filter (getSub σ s).matches := by
    unfold Lof; rw [hb, hA, List.drop_append_of_le_length hk', List.filter_append]
  rw [hb, hh, hl, hp', hi]
  simp only [hp, List.append_nil] at h2
  refine ⟨?_, fun hd => ⟨fun hr hidx => ?_, fun hr => ⟨?_, fun hidx => ?_⟩⟩⟩
  · rw [← List.append_assoc]; exact h1.trans (List.prefix_append _ _)
  · rw [← List.append_assoc, ← (h2 hd).1 hr hidx]
    by_cases hm : (getSub σ s).matches u = true <;> simp [hm, hidx]
  · by_cases hidx : s ∈ σ.tr.index
    · rw [← ((h2 hd).2 hr).2 hidx]
      by_cases hm : (getSub σ s).matches u = true <;> simp [hm, hidx]
    · simp only [hidx, false_and, if_false, List.append_nil]
      exact ((h2 hd).2 hr).1.trans (List.prefix_append _ _)
  · rw [← ((h2 hd).2 hr).2 hidx]
    by_cases hm : (getSub σ s).matches u = true <;> simp [hm, hidx]

theorem SB_join {σ' : Sys} {s : Nat} (henq : (getSub σ' s).enq = []) (hr : (getSub σ' s).ready = false)
    (hlq : (getSub σ' s).liveQueue = []) (hj : (getSub σ' s).joinedAt = some σ'.tr.accepted.length)
    (hp' : pend σ' s = []) : SB σ' s := by
  intro k hk
  rw [hj] at hk; cases hk
  have hl : Lof σ' s σ'.tr.accepted.length = [] := by simp [Lof]
  rw [henq, hr, hlq, hp', hl]
  exact ⟨List.nil_prefix, fun _ => ⟨fun h => (by cases h), fun _ => ⟨List.prefix_refl _, fun _ => rfl⟩⟩⟩

theorem SB_ready {σ σ' : Sys} {s : Nat} (h : SB σ s)
    (hj : (getSub σ' s).joinedAt = (getSub σ s).joinedAt) (ht : (getSub σ' s).topics = (getSub σ s).topics)
    (hq : (getSub σ' s).req = (getSub σ s).req) (hdc : (getSub σ' s).disconnected = (getSub σ s).disconnected)
    (hA : σ'.tr.accepted = σ.tr.accepted)
    (he : (getSub σ' s).enq = (getSub σ s).enq) (hr' : (getSub σ' s).ready = true)
    (hnr : (getSub σ s).ready = false)
    (hflush : ∀ k, (getSub σ s).joinedAt = some k → (getSub σ s).disconnected = false →
      (getSub σ s).enq = Hof σ s k ++ (getSub σ s).liveQueue)
    (hi : s ∈ σ'.tr.index → s ∈ σ.tr.index) (hp' : pend σ' s = pend σ s) : SB σ' s := by
  intro k hk
  rw [hj] at hk
  obtain ⟨h1, h2⟩ := h k hk
  have hm : (getSub σ' s).matches = (getSub σ s).matches := by funext u; exact matches_congr ht u
  have hl : Lof σ' s k = Lof σ s k := by unfold Lof; rw [hA, hm]
  have hh : Hof σ' s k = Hof σ s k := by unfold Hof; rw [hA, hq, hm]
  rw [he, hh, hl, hr', hp', hdc]
  refine ⟨h1, fun hd => ⟨fun _ hidx => ?_, fun hr => by cases hr⟩⟩
  rw [hflush k hk hd, List.append_assoc, ((h2 hd).2 hnr).2 (hi hidx)]

/-! #### part P37 -/
theorem SB_trans {σ σp : Sys} {i : Nat} {th : Thread} (hS : Shape σ) (hK : K σ) (hN : NInv σ)
    (hGI : GInv σ) (hD : DbOk σ) (hB : BInv σ) (hP : Parked σ) (hth : σ.threads[i]? = some th)
    (h : Trans σ i th.stack σp) (s' : Nat) : SB σp s' := by
  have hvs := hS.vs i th hth
  have hfi := hK i th hth
  have had := hB.adder i th hth
  have hrt := hGI.rt i th hth
  have hau := hGI.au i th hth
  have hpk := hP i th hth
  have hsb := hB.sb s'
  have hkind := hD.kind
  generalize hst : th.stack = st at h hvs hfi had hrt hpk hau
  generalize hop : th.op = op at hvs
  cases h <;> cases hvs
  all_goals simp only [List.mem_cons, forall_eq_or_imp, FI, List.not_mem_nil, false_imp_iff, implies_true, and_true] at hfi
  all_goals first
    | (exfalso; simp_all [topParked, isAdminFr]; done)
    | (refine SB_upd_same s' hsb (fun s f h => ?_) ?_ ?_ ?_
       · first | (cases h; done) | (cases h; simp; done)
       · first | (simp; done)
       · first | (simp; done) | (intro h; exact (List.mem_filter.1 h).1)
       · intro hd
         first
         | (refine pend_upd_nonD hth ?_ ?_ ?_ ?_ s'
            · simp_all [OwnStep]
            · rw [hst]; intro σ' s; simp [pendT]
            · intro σ' s; first | (simp [pendT]; done) | (unfold flushStack; split <;> simp [pendT]) | exact pendT_scanLoop _ _ _ _ _ _ _ _ _
            · intro hw; simp_all)
         | (refine pend_upd_writer hth ?_ ?_ s' ?_
            · simp_all
            · simp_all
            · rw [hst]; simp [pendT]; done))
    | skip
  case sD0a.tDs =>
    rename_i s u hd rs hrs hs
    have hw : σ.tr.writer = some i := by simp_all
    refine SB_upd_same s' hsb (fun s f h => by cases h) rfl id ?_
    intro hdd
    refine pend_upd_writer hth hw hw s' ?_
    rw [hst]
    have hne : s ≠ s' := by rintro rfl; simp_all
    simp [pendT, hne]
  case sD4a.tDs =>
    rename_i s u hd rs hrs hs
    have hw : σ.tr.writer = some i := by simp_all
    refine SB_upd_same s' hsb (fun s f h => by cases h; simp) rfl id ?_
    intro hdd
    refine pend_upd_writer hth hw hw s' ?_
    rw [hst]
    have hne : s ≠ s' := by rintro rfl; simp_all [getSub_setSub_self]
    simp [pendT, hne]
  case sD7.tDs =>
    rename_i s u pc hoc rs hrs hs
    have hw : σ.tr.writer = some i := by simp_all
    have hd : (getSub σ s).disconnected = true := by simp_all
    refine SB_upd_same s' hsb (fun s f h => by cases h; simp) rfl id ?_
    intro hdd
    refine pend_upd_writer hth hw hw s' ?_
    rw [hst]
    have hne : s ≠ s' := by rintro rfl; simp_all [getSub_setSub_self]
    simp [pendT, hne]
  case sD2a.tDs =>
    rename_i s u hlo hnr rs hrs hs
    have hw : σ.tr.writer = some i := by simp_all
    simp only [RT] at hrt
    by_cases hss : s' = s
    · subst hss
      have hnot : s' ∉ rs := (List.nodup_cons.1 hrt.1).1
      refine SB_enqueue (u := u) hsb ?_ ?_ ?_ ?_ ?_ ?_ rfl ?_ hnr id ?_ ?_
      any_goals simp [getSub_setSub_self _ _ _ hs]
      · rw [pend_of_writer hw hth, hst]; simp [pendT]
      · rw [pend_of_writer (by simpa using hw) (upd_threads_self _ _ _ _ _ hth)]
        simp [pendT, hnot]
    · refine SB_upd_ne s' hsb hss rfl id ?_
      refine pend_upd_writer hth hw hw s' ?_
      rw [hst]
      have hne : s ≠ s' := fun h => hss h.symm
      simp [pendT, hne]
  case sD5a.tDs =>
    rename_i s u hoc hlen rs hrs hs
    have hw : σ.tr.writer = some i := by simp_all
    simp only [RT] at hrt
    by_cases hss : s' = s
    · subst hss
      have hnot : s' ∉ rs := (List.nodup_cons.1 hrt.1).1
      refine SB_send_live (u := u) hsb ⟨?_, ?_, ?_, ?_, ?_, ?_, rfl⟩ ?_ (by simp_all) (by simp_all)
        (hrt.2 s' (by simp)).1 ?_ ?_
      any_goals simp [getSub_setSub_self _ _ _ hs]
      · rw [pend_of_writer hw hth, hst]; simp [pendT]
      · rw [pend_of_writer (by simpa using hw) (upd_threads_self _ _ _ _ _ hth)]
        simp [pendT, hnot]
    · refine SB_upd_ne s' hsb hss rfl id ?_
      refine pend_upd_writer hth hw hw s' ?_
      rw [hst]
      have hne : s ≠ s' := fun h => hss h.symm
      simp [pendT, hne]
  case sD5a.tAs =>
    rename_i s hoc hlen ts e more rp hs
    have hquiet : pend (upd σ i (some (s, fun b => { b with out := b.out ++ [e.2], enq := b.enq ++ [e.2], outOwner := none }))
        id [Frame.tAdd s 8 ts (e :: more) rp] (some true) none) s' = pend σ s' := by
      refine pend_upd_nonD hth (Or.inl rfl) ?_ ?_ ?_ s'
      · rw [hst]; intro σ' s; simp [pendT]
      · intro σ' s; simp [pendT]
      · intro _; exact ⟨rfl, rfl, fun s f h => by cases h; rfl⟩
    by_cases hss : s' = s
    · subst hss
      simp only [AdderB] at had
      obtain ⟨h1, h2, e', more', h4, h5, h6, h7⟩ := had
      cases h4
      have hdisc : (getSub σ s').disconnected = false := by simp_all
      refine SB_send_adder (u := e.2) hsb ⟨?_, ?_, ?_, ?_, ?_, ?_, rfl⟩ ?_ h2 ?_ id hquiet
      any_goals simp [getSub_setSub_self _ _ _ hs]
      intro k hk
      rw [h1] at hk; cases hk
      rw [← h7 hdisc, filt_cons_le h5 h6]
      have : (getSub σ s').enq ++ e.2 :: filt (getSub σ s') ts more
          = ((getSub σ s').enq ++ [e.2]) ++ filt (getSub σ s') ts more := by simp
      rw [this, List.append_assoc]
      exact List.prefix_append _ _
    · exact SB_upd_ne s' hsb hss rfl id hquiet
  case sR3a.tAr =>
    rename_i s u q' hoc hlen hs
    have hquiet : ∀ st', (∀ σ' s, pendT σ' s st' = []) →
        pend (upd σ i (some (s, fun b => { b with out := b.out ++ [u], enq := b.enq ++ [u] }))
        id st' none none) s' = pend σ s' := by
      intro st' hq
      refine pend_upd_nonD hth (Or.inl rfl) ?_ hq ?_ s'
      · rw [hst]; intro σ' s; simp [pendT]
      · intro _; exact ⟨rfl, rfl, fun s f h => by cases h; rfl⟩
    have hq' : ∀ σ' s0, pendT σ' s0 (flushStack s q' [Frame.tAdd s 7 0 [] Resp.earliest]) = [] := by
      intro σ' s0; unfold flushStack; split <;> simp [pendT]
    by_cases hss : s' = s
    · subst hss
      simp only [AdderB] at had
      obtain ⟨h2, k, h1, h3, h4, h5⟩ := had
      have hdisc : (getSub σ s').disconnected = false := by simp_all
      refine SB_send_adder (u := u) hsb ⟨?_, ?_, ?_, ?_, ?_, ?_, rfl⟩ ?_ h2 ?_ id (hquiet _ hq')
      any_goals simp [getSub_setSub_self _ _ _ hs]
      intro k' hk'
      rw [h1] at hk'; cases hk'
      have hq := ((hsb k h1).2 hdisc).2 h2
      have e1 := h4 (by omega) hdisc
      have : (getSub σ s').enq ++ [u] <+: Hof σ s' k ++ (getSub σ s').liveQueue := by
        rw [← e1]
        have : (getSub σ s').enq ++ u :: q' = ((getSub σ s').enq ++ [u]) ++ q' := by simp
        rw [this]; exact List.prefix_append _ _
      refine this.trans ?_
      rw [List.prefix_append_right_inj]
      exact (List.prefix_append _ _).trans hq.1
    · exact SB_upd_ne s' hsb hss rfl id (hquiet _ hq')
  case sR6.tAr =>
    rename_i s q pc hs
    have hquiet : pend (upd σ i (some (s, fun b => { b with ready := true, outOwner := none, liveOwner := none }))
        id [Frame.tAdd s 7 0 [] Resp.earliest] none none) s' = pend σ s' := by
      refine pend_upd_nonD hth (Or.inl rfl) ?_ ?_ ?_ s'
      · rw [hst]; intro σ' s; simp [pendT]
      · intro σ' s; simp [pendT]
      · intro _; exact ⟨rfl, rfl, fun s f h => by cases h; rfl⟩
    by_cases hss : s' = s
    · subst hss
      simp only [AdderB] at had
      obtain ⟨h2, k, h1, h3, h4, h5⟩ := had
      refine SB_ready hsb ?_ ?_ ?_ ?_ rfl ?_ ?_ h2 ?_ id hquiet
      any_goals simp [getSub_setSub_self _ _ _ hs]
      intro k' hk' hd
      rw [h1] at hk'; cases hk'
      have := h4 (by omega) hd
      rw [h5 (by omega), List.append_nil] at this
      exact this
    · exact SB_upd_ne s' hsb hss rfl id hquiet
  case tD2bb.tD =>
    rename_i u hk hdc hpc
    have hw : σ.tr.writer = some i := by simp_all
    refine SB_accept (u := u) hsb rfl (by simp) (by simp) (hN.le s') ?_ ?_
    · rw [pend_of_writer hw hth, hst]; simp [pendT]
    · rw [pend_of_writer (by simpa using hw) (upd_threads_self _ _ _ _ _ hth)]
      simp [pendT, hkind]
  case tD3b.tD =>
    rename_i u pc hk hpc
    obtain rfl : pc = 0 := by omega
    have hw : σ.tr.writer = some i := by simp_all
    refine SB_upd_same s' hsb (fun s f h => by cases h) rfl id ?_
    intro _
    refine pend_upd_writer hth hw hw s' ?_
    rw [hst]
    simp [pendT, recipsOf, hkind]
  case tA2br.tA | tA2bn.tA =>
    rename_i s ts rp hk hreq hs hpc
    have hw : σ.tr.writer = some i := by simp_all
    have hjn : (getSub σ s).joinedAt = none := by simpa [AdderU] using hau
    have hn := hN.none s hjn
    by_cases hss : s' = s
    · subst hss
      refine SB_join ?_ ?_ ?_ ?_ (pend_of_none (by simp) _)
      all_goals simp [getSub_setSub_self _ _ _ hs, hn]
    · refine SB_upd_ne s' hsb hss rfl ?_ ?_
      · simp [hss]
      · rw [pend_of_none (by simp), pend_of_writer hw hth, hst]; simp [pendT]

/-! #### part P38 -/
theorem SB_adm {σ σ' : Sys} {i : Nat} {th : Thread} (hS : Shape σ) (hK : K σ) (hD : DbOk σ)
    (hB : BInv σ) (hth : σ.threads[i]? = some th)
    (h : Adm σ i th σ') (s' : Nat) : SB σ' s' := by
  have hvs := hS.vs i th hth
  have hfi := hK i th hth
  have hsb := hB.sb s'
  have hkind := hD.kind
  generalize hop : th.op = op at hvs
  cases h <;> (first | (rename_i hst; rw [hst] at hfi hvs) | (rename_i hst _; rw [hst] at hfi hvs)) <;> cases hvs
  all_goals simp only [List.mem_cons, forall_eq_or_imp, FI, List.not_mem_nil, false_imp_iff, implies_true, and_true] at hfi
  all_goals first
    | (exfalso; simp_all; done)
    | (refine SB_upd_same s' hsb (fun s f h => ?_) ?_ ?_ ?_
       · cases h
       · simp
       · simp
       · intro hd
         first
         | (refine pend_upd_nonD hth ?_ ?_ ?_ ?_ s'
            · simp_all [OwnStep]
            · rw [hst]; intro σ' s; simp [pendT]
            · intro σ' s; first | (simp [pendT]; done) | exact pendT_scanLoop _ _ _ _ _ _ _ _ _
            · intro hw; simp_all)
         | (refine pend_upd_writer hth ?_ ?_ s' ?_
            · simp_all
            · simp_all
            · rw [hst]; simp [pendT]
              first | done | (intro h; simp [eq_comm]) ))
    | skip
  rename_i u s rs _
  have hw : σ.tr.writer = some i := hfi (by omega)
  refine SB_upd_same s' hsb (fun s f h => by cases h) rfl id ?_
  intro _
  refine pend_upd_writer hth hw hw s' ?_
  rw [hst]
  by_cases h1 : s' = s <;> simp [pendT, h1, eq_comm]

/-! ### Bolt: assembling -/

theorem BInv_trans {σ σp : Sys} {i : Nat} {th : Thread} (hB0 : Base σ) (hD : DbOk σ) (hB : BInv σ) (hP : Parked σ)
    (hth : σ.threads[i]? = some th) (h : Trans σ i th.stack σp) : BInv σp := by
  have hself := AdderB_self_trans h hth hB0.flags hD hB0.n (hB0.shape.vs i th hth) (hB0.k i th hth)
    (hB.adder i th hth) (hB0.g.au i th hth) (hP i th hth)
  have hG := trans_guarS h (hB0.k i th hth) (hB0.shape.vs i th hth)
  refine ⟨fun j t hj => ?_, SB_trans hB0.shape hB0.k hB0.n hB0.g hD hB hP hth h⟩
  by_cases hji : j = i
  · subst hji; exact hself t hj
  · rw [trans_other h hji] at hj
    exact AdderB_stable hB0.u hB0.n hG hji hth hj (hB0.shape.vs j t hj) (hB0.k j t hj) (hB.adder j t hj)

theorem BInv_adm {σ σ' : Sys} {i : Nat} {th : Thread} (hB0 : Base σ) (hD : DbOk σ) (hB : BInv σ)
    (hth : σ.threads[i]? = some th) (h : Adm σ i th σ') : BInv σ' := by
  have hself := AdderB_self_adm h hth hB0.flags (hB0.shape.vs i th hth) (hB.adder i th hth)
  have hG : GuarS i th.op σ σ' := adm_guarS h (hB0.k i th hth)
  refine ⟨fun j t hj => ?_, SB_adm hB0.shape hB0.k hD hB hth h⟩
  by_cases hji : j = i
  · subst hji; exact hself t hj
  · rw [adm_other h hji] at hj
    exact AdderB_stable hB0.u hB0.n hG hji hth hj (hB0.shape.vs j t hj) (hB0.k j t hj) (hB.adder j t hj)

theorem BInv_init {subs : List Sub} {ops : List Op} (wf : WellFormed subs ops) :
    BInv (Sys.init Flags.repaired .bolt 0 subs ops) := by
  have hth := init_threads Flags.repaired .bolt 0 subs ops
  have hsub := init_getSub Flags.repaired .bolt 0 wf
  refine ⟨?_, ?_⟩
  · intro i th h
    obtain ⟨o, ho, h1, h2, h3⟩ := hth i th h
    rw [h2]
    cases o <;> simp [Op.start, AdderB]
  · intro s k hk
    rw [(hsub s).2.2.2] at hk; cases hk

def JB (σ : Sys) : Prop := Base σ ∧ DbOk σ ∧ BInv σ

theorem JB_reach (subs : List Sub) (ops : List Op) (wf : WellFormed subs ops) (sched : List Nat) :
    JB (reach Flags.repaired .bolt 0 subs ops sched) ∧ Parked (reach Flags.repaired .bolt 0 subs ops sched) := by
  refine run_inv (I := fun σ => JB σ ∧ Parked σ) ?_ sched _
    ⟨⟨(Base_init wf).1, DbOk_init subs ops, BInv_init wf⟩, (Base_init wf).2⟩
  intro σ i h
  exact step_preserves (J := JB) (fun σ h => h.1)
    (fun σ msg h => ⟨Base_panic σ msg h.1, DbOk_panic σ msg h.2.1, ⟨h.2.2.adder, h.2.2.sb⟩⟩)
    (fun σ i th σp hJ hP hth ht =>
      ⟨Base_trans hJ.1 hth ht, dbOk_trans ht hJ.2.1, BInv_trans hJ.1 hJ.2.1 hJ.2.2 hP hth ht⟩)
    (fun σ i th σ' hJ hth ha => ⟨Base_adm hJ.1 hth ha, dbOk_adm ha hJ.2.1, BInv_adm hJ.1 hJ.2.1 hJ.2.2 hth ha⟩)
    σ i h.1 h.2

theorem bolt_stream_prefix_of_ideal' (subs : List Sub) (ops : List Op) (wf : WellFormed subs ops) (sched : List Nat) :
    ∀ b ∈ (reach Flags.repaired .bolt 0 subs ops sched).subs, ∀ k, b.joinedAt = some k →
      b.enq <+: ideal b (reach Flags.repaired .bolt 0 subs ops sched).tr.accepted k := by
  intro b hb k hk
  obtain ⟨s, hs, rfl⟩ := mem_subs_iff_getSub.1 hb
  rw [ideal_eq]
  exact ((JB_reach subs ops wf sched).1.2.2.sb s k hk).1

theorem bolt_stream_complete' (subs : List Sub) (ops : List Op) (wf : WellFormed subs ops) (sched : List Nat)
    (hq : (reach Flags.repaired .bolt 0 subs ops sched).allDone = true) :
    ∀ s, s ∈ (reach Flags.repaired .bolt 0 subs ops sched).tr.index →
      let b := getSub (reach Flags.repaired .bolt 0 subs ops sched) s
      b.ready = true → b.disconnected = false → ∀ k, b.joinedAt = some k →
      b.enq = ideal b (reach Flags.repaired .bolt 0 subs ops sched).tr.accepted k := by
  intro s hs b hr hd k hk
  have := (((JB_reach subs ops wf sched).1.2.2.sb s k hk).2 hd).1 hr hs
  rw [pend_of_allDone hq, List.append_nil] at this
  rw [ideal_eq]
  exact this

variable (size : Nat) (subs : List Sub) (ops : List Op)

/-- FIFO: what the consumer has taken plus what is buffered is exactly what was sent, in order. -/
theorem fifo (kind : Kind) (wf : WellFormed subs ops) (sched : List Nat) :
    ∀ b ∈ (reach Flags.repaired kind size subs ops sched).subs, b.received ++ b.out = b.enq := by
  exact fifo' size subs ops kind wf sched

/-- Bolt, no retention: the stored history is the sequence of accepted updates — one total order. -/
theorem db_is_accepted (wf : WellFormed subs ops) (sched : List Nat) :
    (reach Flags.repaired .bolt 0 subs ops sched).tr.db.map (·.2) = (reach Flags.repaired .bolt 0 subs ops sched).tr.accepted ∧
    (reach Flags.repaired .bolt 0 subs ops sched).tr.db.map (·.1) = List.range' 1 (reach Flags.repaired .bolt 0 subs ops sched).tr.accepted.length := by
  exact db_is_accepted' subs ops wf sched

/-- **Bolt: what a subscriber is sent is always a gap-free prefix of its ideal sequence** — the
    stored updates it is owed (after its Last-Event-ID, or all for `earliest`) followed by every
    update accepted after it was indexed, those it matches, each once, in history order — under
    every interleaving of publishers, registrations, disconnections and Close. -/
theorem bolt_stream_prefix_of_ideal (wf : WellFormed subs ops) (sched : List Nat) :
    ∀ b ∈ (reach Flags.repaired .bolt 0 subs ops sched).subs, ∀ k, b.joinedAt = some k →
      b.enq <+: ideal b (reach Flags.repaired .bolt 0 subs ops sched).tr.accepted k := by
  exact bolt_stream_prefix_of_ideal' subs ops wf sched

/-- A subscriber that has not been indexed yet has been sent nothing. -/
theorem nothing_before_indexed (kind : Kind) (wf : WellFormed subs ops) (sched : List Nat) :
    ∀ b ∈ (reach Flags.repaired kind size subs ops sched).subs, b.joinedAt = none → b.enq = [] := by
  exact nothing_before_indexed' size subs ops kind wf sched

/-- **…and the whole of it at quiescence** for a subscriber that is registered, live and keeping up. -/
theorem bolt_stream_complete (wf : WellFormed subs ops) (sched : List Nat)
    (hq : (reach Flags.repaired .bolt 0 subs ops sched).allDone = true) :
    ∀ s, s ∈ (reach Flags.repaired .bolt 0 subs ops sched).tr.index →
      let b := getSub (reach Flags.repaired .bolt 0 subs ops sched) s
      b.ready = true → b.disconnected = false → ∀ k, b.joinedAt = some k →
      b.enq = ideal b (reach Flags.repaired .bolt 0 subs ops sched).tr.accepted k := by
  exact bolt_stream_complete' subs ops wf sched hq

/-- Local transport: exactly the matching updates that entered fan-out after the subscriber was
    indexed, each once, in one order shared by every subscriber. -/
theorem local_stream_prefix (wf : WellFormed subs ops) (sched : List Nat) :
    ∀ b ∈ (reach Flags.repaired .local size subs ops sched).subs, ∀ k, b.joinedAt = some k →
      b.enq <+: ((reach Flags.repaired .local size subs ops sched).tr.accepted.drop k).filter b.matches := by
  exact local_stream_prefix' size subs ops wf sched

theorem local_stream_complete (wf : WellFormed subs ops) (sched : List Nat)
    (hq : (reach Flags.repaired .local size subs ops sched).allDone = true) :
    ∀ s, s ∈ (reach Flags.repaired .local size subs ops sched).tr.index →
      let b := getSub (reach Flags.repaired .local size subs ops sched) s
      b.ready = true → b.disconnected = false → ∀ k, b.joinedAt = some k →
      b.enq = ((reach Flags.repaired .local size subs ops sched).tr.accepted.drop k).filter b.matches := by
  exact local_stream_complete' size subs ops wf sched hq

end Mercure.Sys.Stream

#print axioms Mercure.Sys.Stream.fifo
#print axioms Mercure.Sys.Stream.db_is_accepted
#print axioms Mercure.Sys.Stream.nothing_before_indexed
#print axioms Mercure.Sys.Stream.local_stream_prefix
#print axioms Mercure.Sys.Stream.local_stream_complete
#print axioms Mercure.Sys.Stream.bolt_stream_prefix_of_ideal
#print axioms Mercure.Sys.Stream.bolt_stream_complete
