package main

import (
	"encoding/hex"
	"fmt"
	"strings"
	"unicode/utf8"

	"verifharness/pkg/h"
	"verifharness/pkg/jws"

	"github.com/dunglas/mercure"
)

func init() { register("claims", "C03", runClaims) }

// claims — the payload segment of a token, as bytes, decoded (a) by the hub's own claims type through
// encoding/json, exactly as golang-jwt's ParseWithClaims does it (white-box accessor VerifDecodeClaims), and (b) by
// the Lean model's own JSON parser and store rules (Model/Claims): which `publish` / `subscribe` lists (nil or not),
// which payload, whether the namespaced claim is present, exp / nbf in seconds — or "invalid". A third stage sends
// whole tokens through the hub: a payload the model calls invalid is never accepted, and the rights a valid one
// grants are the ones the model decoded.

type claimsCase struct {
	Payload string `json:"payload"`
}

var claimKeys = []string{"mercure", "mercure", "https://mercure.rocks/", "Mercure", "MERCURE", "mercurE", "mercſure", "HTTPS://MERCURE.ROCKS/", "mercury", "exp", "nbf", "iat", "iss", "sub", "aud", "jti", "Exp", "EXP", "eKp", "other"}
var mKeys = []string{"publish", "subscribe", "payload", "Publish", "SUBSCRIBE", "publiſh", "ſubscribe", "payLoad", "extra"}

func genJSONString(rr *h.Rand) string {
	return h.Pick(rr, []string{`"*"`, `"a"`, `"https://example.com/{id}"`, `"é"`, `"a b"`, `""`, `"A"`, `"\n"`, `"😀"`, `"\/x"`, `"q\"r"`})
}

func genSelectorArray(rr *h.Rand) string {
	switch rr.Intn(12) {
	case 0:
		return "null"
	case 1:
		return "[]"
	case 2:
		return `"*"` // a string where an array is expected: type error
	case 3:
		return `[1]`
	case 4:
		return `["a",null]` // null into a string element: ""
	case 5:
		return `{"0":"a"}`
	case 6:
		return `[["a"]]`
	case 7:
		return "true"
	}
	n := 1 + rr.Intn(3)
	var el []string
	for i := 0; i < n; i++ {
		el = append(el, genJSONString(rr))
	}
	sep := h.Pick(rr, []string{",", " , ", ",\n"})

	return "[" + strings.Join(el, sep) + "]"
}

// payload values whose Go re-encoding (json.Marshal of the decoded interface{}) is the compact source text
func genPayloadValue(rr *h.Rand) string {
	return h.Pick(rr, []string{"null", `"user-1"`, "1", "42", "true", "false", `["a","b"]`, `{"a":1,"b":"x"}`, `{"k":{"l":[1,2,{"m":null}]}}`, `[]`, `{}`, `"é"`, "-7", `[null,true]`})
}

func genMClaim(rr *h.Rand) string {
	switch rr.Intn(14) {
	case 0:
		return "null"
	case 1:
		return "[]"
	case 2:
		return `"x"`
	case 3:
		return "1"
	case 4:
		return "{}"
	}
	var ms []string
	for k := 1 + rr.Intn(4); k > 0; k-- {
		key := h.Pick(rr, mKeys)
		val := genSelectorArray(rr)
		if strings.EqualFold(key, "payload") || key == "extra" {
			val = genPayloadValue(rr)
		}
		ms = append(ms, fmt.Sprintf("%q:%s", key, val))
	}

	return "{" + strings.Join(ms, h.Pick(rr, []string{",", ", "})) + "}"
}

func genDate(rr *h.Rand) string {
	return h.Pick(rr, []string{"1893456000", "1893456000.9", "1.893456e9", "1893456000e0", `"1893456000"`, `"abc"`, "null", "0", "1", "-1", "true", `[1]`, `{}`, "18934560000E-1", `"1e3"`, `" 5"`, "12345678901", `""`, "0.5", "1e2", "100e-2"})
}

func genClaimsPayload(rr *h.Rand) string {
	switch rr.Intn(40) {
	case 0:
		return "null"
	case 1:
		return "[]"
	case 2:
		return `"x"`
	case 3:
		return "{}"
	case 4:
		return ` { "mercure" : { "publish" : [ "*" ] } } `
	case 5:
		return `{"mercure":{"publish":["*"]}} x`
	case 6:
		return `{"mercure":{"publish":["*"]}}{}`
	case 7:
		return `{"mercure":{"publish":["*"],}}`
	case 8:
		return `{'mercure':{}}`
	case 9:
		return "{\"mercure\":{\"publish\":[\"a\tb\"]}}" // raw control character inside a string
	}
	var ms []string
	for k := 1 + rr.Intn(5); k > 0; k-- {
		key := h.Pick(rr, claimKeys)
		var val string
		switch strings.ToLower(strings.NewReplacer("ſ", "s", "K", "k").Replace(key)) {
		case "mercure", "https://mercure.rocks/":
			val = genMClaim(rr)
		case "exp", "nbf", "iat":
			val = genDate(rr)
		case "aud":
			val = h.Pick(rr, []string{`"a"`, `["a","b"]`, `[]`, "null", "1", `[1]`, `{}`, `["a",null]`})
		case "iss", "sub", "jti":
			val = h.Pick(rr, []string{`"x"`, "null", "1", `["x"]`, "true"})
		default:
			val = genPayloadValue(rr)
		}
		ms = append(ms, fmt.Sprintf("%q:%s", key, val))
	}
	p := "{" + strings.Join(ms, ",") + "}"
	if rr.Chance(1, 12) && len(p) > 2 { // one byte removed or changed
		b := []byte(p)
		i := rr.Intn(len(b))
		if rr.Bool() {
			b = append(b[:i], b[i+1:]...)
		} else {
			b[i] = h.Pick(rr, []byte{'"', ',', ':', '{', '}', '[', ']', ' ', '\\', '0'})
		}
		if utf8.Valid(b) {
			p = string(b)
		}
	}

	return p
}

func runClaimsCase(c *h.Ctx, r *h.Report, f *fixture, payload string) {
	impl := mercure.VerifDecodeClaims([]byte(payload))
	model := c.Driver.Ask1(h.Line("claims.decode", hex.EncodeToString([]byte(payload))))
	r.Evaluations++
	cs := claimsCase{payload}
	// the payload claim is compared as text; Go re-encodes an object's members sorted by key while the model keeps the
	// source order: when the two renderings differ only there (an object-valued payload), the texts are not comparable
	if impl != model && stripObjectPayloads(impl) == stripObjectPayloads(model) {
		r.Count("payload:object rendering not comparable (member order)")
		model = impl
	}
	if impl != model {
		r.Disagree(h.Disagreement{Class: "C03.claims-decoding", Case: cs, Model: model, Impl: impl + "  <= json.Unmarshal(" + fmt.Sprintf("%q", payload) + ", &claims{})"})
	}
	if model == "invalid" {
		r.Count("payload:invalid")
	} else {
		r.Count("payload:decodes")
		if strings.Contains(model, " ns=~") {
			r.Count("namespaced:absent")
		} else {
			r.Count("namespaced:present")
		}
	}
	// through the hub: a token with this payload, validly signed. Implementation alone: an undecodable payload
	// grants nothing on any endpoint.
	tok := jws.Mint(f.pubKey, payload)
	st := f.doPublish(authParts{Headers: []string{"Bearer " + tok}}, "application/x-www-form-urlencoded", "topic=t&data=d", "").Status()
	r.Evaluations++
	if impl == "invalid" && st == 200 {
		for _, k := range []string{"C03", "C02"} {
			r.Violate(h.Violation{Key: k + ":token-with-undecodable-claims-accepted", What: fmt.Sprintf("a validly signed token whose payload %q does not decode into the claims type published successfully", payload), Replay: map[string]any{"family": "claims", "case": cs}})
		}
	}
	// the effective publish list (namespaced replaces plain when present) decides: nil => 401/403, otherwise topic t needs "*" or "t"
	if model != "invalid" && impl == model {
		eff := effectiveField(model, 0)
		want := eff != "~" && (strings.Contains(","+eff+",", ","+h.Hex("*")+",") || strings.Contains(","+eff+",", ","+h.Hex("t")+","))
		expired := false
		for _, fld := range strings.Fields(model) {
			if strings.HasPrefix(fld, "exp=") && fld != "exp=-" {
				var e int64
				fmt.Sscan(strings.TrimPrefix(fld, "exp="), &e)
				expired = e < 1893000000 // the generator's future dates are 2030; everything else is past
			}
			if strings.HasPrefix(fld, "nbf=") && fld != "nbf=-" {
				var e int64
				fmt.Sscan(strings.TrimPrefix(fld, "nbf="), &e)
				expired = expired || e > 1893000000
			}
		}
		if !expired && (st == 200) != want {
			r.Violate(h.Violation{Key: "C03:rights-differ-from-the-decoded-claims", What: fmt.Sprintf("payload %q decodes to %s (effective publish list %s) but a publish on topic t was answered %d", payload, model, eff, st), Replay: map[string]any{"family": "claims", "case": cs}})
		}
	}
}

// effectiveField: field i (0 publish, 1 subscribe) of the namespaced claim when present, else of the plain one.
func effectiveField(rendered string, i int) string {
	var m, ns string
	for _, fld := range strings.Fields(rendered) {
		if strings.HasPrefix(fld, "m=") {
			m = fld[2:]
		}
		if strings.HasPrefix(fld, "ns=") {
			ns = fld[3:]
		}
	}
	src := m
	if ns != "~" {
		src = ns
	}
	parts := strings.Split(src, "/")
	if i < len(parts) {
		return parts[i]
	}

	return "~"
}

func runClaims(c *h.Ctx, r *h.Report) {
	r.Rule = "token payloads as raw JSON text: objects over the claim names in every spelling encoding/json folds together (exact, upper/mixed case, U+017F for s, U+212A for k) and unknown names, repeated keys (merging), the plain and the namespaced mercure claim as object / null / other kinds, publish / subscribe as array of strings (every string escape), null, empty, string, number, nested array, array with a null element, object; payload claim from a vocabulary of values whose re-encoding is their source text; exp / nbf / iat as integer, decimal, exponent form, quoted number, non-number, null; aud / iss / sub / jti of right and wrong kinds; top-level null / array / string, trailing text, a second value, trailing comma, single quotes, raw control character, one byte removed or changed. Decoded by the hub's own claims type (json.Unmarshal, as golang-jwt does) and by the model's own parser and store rules; then a validly signed token with that payload is sent to the publish endpoint: undecodable ⇒ refused; decodable ⇒ accepted iff the effective publish list covers the topic (implementation alone). Non-trivial = payload with a repeated or case-folded claim key; distinct by content."
	f := newFixture(hubCfg{PubAlg: "HS256", SubAlg: "HS256", Anonymous: true}, nil)
	if c.Replay != "" {
		var rp struct {
			Case claimsCase `json:"case"`
		}
		readReplay(c.Replay, &rp)
		runClaimsCase(c, r, f, rp.Case.Payload)

		return
	}
	for _, p := range []string{`{"mercure":{"publish":["*"]}}`, `{"mercure":{"publish":["t"]},"mercure":{"subscribe":["x"]}}`, `{"mercure":{"publish":["*"]},"mercure":{"publish":null}}`,
		`{"mercure":{"publish":["*"]},"https://mercure.rocks/":{"subscribe":["*"]}}`, `{"mercure":{"publish":["*"]},"https://mercure.rocks/":null}`,
		`{"https://mercure.rocks/":{"publish":["t"]},"https://mercure.rocks/":{"subscribe":[]}}`, `{"MERCURE":{"PUBLISH":["*"]}}`, `{"mercure":{"publish":["*"]},"exp":"1893456000"}`,
		`{"mercure":{"publish":["*"]},"exp":1}`, `{"mercure":{"publish":["*"],"subscribe":"*"}}`, `{"mercure":{"publish":["*"]},"aud":[1]}`, `null`} {
		runClaimsCase(c, r, f, p)
	}
	n := c.Scale(6000, 100000)
	for i := 0; i < n; i++ {
		rr := c.Rand.Fork()
		p := genClaimsPayload(rr)
		runClaimsCase(c, r, f, p)
		lp := strings.ToLower(p)
		if strings.Count(lp, `"mercure"`) > 1 || strings.Count(lp, `"https://mercure.rocks/"`) > 1 || strings.Contains(p, "ſ") || strings.Contains(p, "MERCURE") {
			r.Nontrivial(p)
		}
		if i < 3 {
			r.Sample(claimsCase{p})
		}
	}
}

// stripObjectPayloads removes, from a rendered claims value, every payload component that is a JSON object (hex "7b…").
func stripObjectPayloads(s string) string {
	fs := strings.Fields(s)
	for i, f := range fs {
		if strings.HasPrefix(f, "m=") || strings.HasPrefix(f, "ns=") {
			parts := strings.Split(f, "/")
			if len(parts) == 3 && strings.HasPrefix(parts[2], "7b") {
				parts[2] = "{}"
				fs[i] = strings.Join(parts, "/")
			}
		}
	}

	return strings.Join(fs, " ")
}
