import Mercure.Model.Timed
/-
  Mercure.Lemmas.Timed — invariants of the timed connection loop (`Mercure.Timed.loop`), used by C16.
-/
namespace Mercure.Timed

/-! ### minimum of the candidate instants -/

def minOf (l : List Nat) : Option Nat :=
  l.foldl (fun m x => match m with | none => some x | some y => some (min x y)) (none : Option Nat)

theorem foldl_min_some (l : List Nat) (y : Nat) :
    ∃ t, l.foldl (fun m x => match m with | none => some x | some y => some (min x y)) (some y) = some t ∧
      (t = y ∨ t ∈ l) ∧ t ≤ y ∧ ∀ x ∈ l, t ≤ x := by
  induction l generalizing y with
  | nil => exact ⟨y, rfl, Or.inl rfl, Nat.le_refl _, by simp⟩
  | cons a l ih =>
    simp only [List.foldl_cons]
    obtain ⟨t, h1, h2, h3, h4⟩ := ih (min a y)
    refine ⟨t, h1, ?_, by omega, ?_⟩
    · rcases h2 with h | h
      · by_cases hay : a ≤ y
        · right; simp; left; omega
        · left; omega
      · right; simp [h]
    · intro x hx
      simp at hx
      rcases hx with rfl | hx
      · omega
      · exact h4 x hx

theorem minOf_none {l : List Nat} (h : minOf l = none) : l = [] := by
  cases l with
  | nil => rfl
  | cons a l =>
    obtain ⟨t, h1, _⟩ := foldl_min_some l a
    simp [minOf, h1] at h

theorem minOf_some {l : List Nat} {t : Nat} (h : minOf l = some t) : t ∈ l ∧ ∀ x ∈ l, t ≤ x := by
  cases l with
  | nil => simp [minOf] at h
  | cons a l =>
    obtain ⟨t', h1, h2, h3, h4⟩ := foldl_min_some l a
    simp only [minOf, List.foldl_cons, h1, Option.some.injEq] at h
    subst h
    refine ⟨?_, ?_⟩
    · rcases h2 with h | h <;> simp [h]
    · intro x hx
      simp at hx
      rcases hx with rfl | hx
      · exact h3
      · exact h4 x hx

/-! ### one iteration of the loop, as a relation -/

inductive Next where
  | stop (s : St)
  | cont (s : St) (arr : List (Nat × Nat))

/-- `t` is not later than any candidate instant. -/
structure IsNext (close : Option Nat) (s : St) (arr : List (Nat × Nat)) (t : Nat) : Prop where
  le_disc : ∀ x, s.discDue = some x → t ≤ x
  le_hb : ∀ x, s.hbDue = some x → t ≤ x
  le_arr : ∀ a rest, arr = a :: rest → t ≤ a.1
  le_close : ∀ x, close = some x → t ≤ x

def Next.st : Next → St
  | .stop s => s
  | .cont s _ => s

/-- One iteration under the choice number `n`. Any case that is ready at the instant `t` (the minimum of
    the candidate instants, so a ready case is due exactly at `t`) may fire: the constructors carry no
    priority side-condition, only the fact that `select` picked that case (`pick … n = some k`). -/
inductive Step (c : Cfg) (close : Option Nat) (hz : Nat) (n : Nat) (s : St) (arr : List (Nat × Nat)) : Next → Prop
  | done : s.done = true → Step c close hz n s arr (.stop s)
  | idle : s.done = false → s.discDue = none → s.hbDue = none → arr = [] → close = none →
      Step c close hz n s arr (.stop s)
  | horizon (t : Nat) : s.done = false → IsNext close s arr t → hz < t → Step c close hz n s arr (.stop s)
  | close (t : Nat) : s.done = false → IsNext close s arr t → t ≤ hz → close = some t →
      pick (ready close s arr t) n = some .close →
      Step c close hz n s arr (.stop { s with trace := (t, .clientClose) :: s.trace, done := true })
  | disc (t : Nat) : s.done = false → IsNext close s arr t → t ≤ hz → s.discDue = some t →
      pick (ready close s arr t) n = some .disc →
      Step c close hz n s arr (.stop { s with trace := (t, .selfClose) :: s.trace, done := true })
  | hb (t : Nat) : s.done = false → IsNext close s arr t → t ≤ hz → s.hbDue = some t →
      pick (ready close s arr t) n = some .hb →
      Step c close hz n s arr (.cont (s.write c t .comment true) arr)
  | arr (t id : Nat) (rest : List (Nat × Nat)) : s.done = false → IsNext close s arr t → t ≤ hz →
      arr = (t, id) :: rest → pick (ready close s arr t) n = some .arr →
      Step c close hz n s arr (.cont (s.write c t (.event id) true) rest)

theorem optLe_true {a : Option Nat} {t : Nat} : optLe a t = true ↔ ∃ x, a = some x ∧ x ≤ t := by
  cases a <;> simp [optLe]

theorem optLe_false {a : Option Nat} {t : Nat} (h : ¬ optLe a t = true) : ∀ x, a = some x → t < x := by
  intro x hx; subst hx; simp [optLe] at h; exact h

theorem arrReady_true {arr : List (Nat × Nat)} {t : Nat} :
    arrReady arr t = true ↔ ∃ ta id rest, arr = (ta, id) :: rest ∧ ta ≤ t := by
  cases arr with
  | nil => simp [arrReady]
  | cons a rest => obtain ⟨ta, id⟩ := a; simp [arrReady]

theorem mem_cands {s : St} {arr : List (Nat × Nat)} {close : Option Nat} {x : Nat} :
    x ∈ (s.discDue.toList ++ s.hbDue.toList ++ (arr.head?.map (·.1)).toList ++ close.toList) ↔
      s.discDue = some x ∨ s.hbDue = some x ∨ (∃ a rest, arr = a :: rest ∧ x = a.1) ∨ close = some x := by
  cases arr <;> simp [Option.mem_toList]

theorem nextInstant_eq (close : Option Nat) (s : St) (arr : List (Nat × Nat)) :
    nextInstant close s arr =
      minOf (s.discDue.toList ++ s.hbDue.toList ++ (arr.head?.map (·.1)).toList ++ close.toList) := rfl

/-! ### `pick` and `ready` -/

theorem pick_none {ks : List Kind} {n : Nat} (h : pick ks n = none) : ks = [] := by
  unfold pick at h
  by_cases h0 : ks.length = 0
  · exact List.eq_nil_of_length_eq_zero h0
  · simp only [h0, if_false] at h
    have h1 := Nat.mod_lt n (Nat.pos_of_ne_zero h0)
    rw [List.getElem?_eq_none_iff] at h
    omega

theorem pick_mem {ks : List Kind} {n : Nat} {k : Kind} (h : pick ks n = some k) : k ∈ ks := by
  unfold pick at h
  split at h
  · cases h
  · exact List.mem_of_getElem? h

theorem pick_of_mem {ks : List Kind} {k : Kind} (h : k ∈ ks) : ∃ n, pick ks n = some k := by
  obtain ⟨i, hi, he⟩ := List.getElem_of_mem h
  refine ⟨i, ?_⟩
  unfold pick
  have h0 : ks.length ≠ 0 := by omega
  simp only [h0, if_false, Nat.mod_eq_of_lt hi]
  rw [List.getElem?_eq_getElem hi, he]

theorem mem_ready {close : Option Nat} {s : St} {arr : List (Nat × Nat)} {t : Nat} {k : Kind} :
    k ∈ ready close s arr t ↔
      (k = .close ∧ optLe close t = true) ∨ (k = .disc ∧ optLe s.discDue t = true) ∨
      (k = .hb ∧ optLe s.hbDue t = true) ∨ (k = .arr ∧ arrReady arr t = true) := by
  unfold ready
  by_cases h1 : optLe close t = true <;> by_cases h2 : optLe s.discDue t = true <;>
    by_cases h3 : optLe s.hbDue t = true <;> by_cases h4 : arrReady arr t = true <;> simp [h1, h2, h3, h4]

/-- With choice number 0 and the client not gone, a due disconnection timer wins. -/
theorem pick_zero_disc {close : Option Nat} {s : St} {arr : List (Nat × Nat)} {t : Nat}
    (h1 : ¬ optLe close t = true) (h2 : optLe s.discDue t = true) :
    pick (ready close s arr t) 0 = some .disc := by
  simp [ready, pick, h1, h2]

theorem loop_zero (c : Cfg) (close : Option Nat) (hz : Nat) (s : St) (arr : List (Nat × Nat)) (ch : List Nat) :
    loop c close hz 0 s arr ch = s := by
  rw [loop]

theorem loop_succ (c : Cfg) (close : Option Nat) (hz fuel : Nat) (s : St) (arr : List (Nat × Nat))
    (ch : List Nat) :
    ∃ n, Step c close hz (ch.headD 0) s arr n ∧
      loop c close hz (fuel + 1) s arr ch =
        (match n with | .stop s' => s' | .cont s' arr' => loop c close hz fuel s' arr' ch.tail) := by
  rw [loop]
  by_cases hd : s.done = true
  · exact ⟨.stop s, .done hd, by simp [hd]⟩
  simp only [hd, Bool.false_eq_true, if_false]
  have hd' : s.done = false := by simpa using hd
  split
  · rename_i hm
    rw [nextInstant_eq] at hm
    have hm' := minOf_none hm
    have h1 : s.discDue = none := by
      cases h : s.discDue with
      | none => rfl
      | some x => have : x ∈ ([] : List Nat) := by rw [← hm']; exact mem_cands.2 (Or.inl h)
                  simp at this
    have h2 : s.hbDue = none := by
      cases h : s.hbDue with
      | none => rfl
      | some x => have : x ∈ ([] : List Nat) := by rw [← hm']; exact mem_cands.2 (Or.inr (Or.inl h))
                  simp at this
    have h3 : arr = [] := by
      cases h : arr with
      | nil => rfl
      | cons a r => have : a.1 ∈ ([] : List Nat) := by
                      rw [← hm']; exact mem_cands.2 (Or.inr (Or.inr (Or.inl ⟨a, r, h, rfl⟩)))
                    simp at this
    have h4 : close = none := by
      cases h : close with
      | none => rfl
      | some x => have : x ∈ ([] : List Nat) := by rw [← hm']; exact mem_cands.2 (Or.inr (Or.inr (Or.inr h)))
                  simp at this
    exact ⟨.stop s, .idle hd' h1 h2 h3 h4, rfl⟩
  · rename_i t hm
    rw [nextInstant_eq] at hm
    obtain ⟨hmem, hle⟩ := minOf_some hm
    have hn : IsNext close s arr t :=
      ⟨fun x h => hle x (mem_cands.2 (Or.inl h)),
       fun x h => hle x (mem_cands.2 (Or.inr (Or.inl h))),
       fun a r h => hle a.1 (mem_cands.2 (Or.inr (Or.inr (Or.inl ⟨a, r, h, rfl⟩)))),
       fun x h => hle x (mem_cands.2 (Or.inr (Or.inr (Or.inr h))))⟩
    by_cases hh : t > hz
    · exact ⟨.stop s, .horizon t hd' hn hh, by simp [hh]⟩
    have hh' : t ≤ hz := by omega
    simp only [hh, if_false]
    split
    · rename_i hp
      have hr := pick_none hp
      have hnone : ∀ k, ¬ k ∈ ready close s arr t := by rw [hr]; simp
      exfalso
      rcases mem_cands.1 hmem with h | h | ⟨a, r, h, ha⟩ | h
      · exact hnone .disc (mem_ready.2 (Or.inr (Or.inl ⟨rfl, optLe_true.2 ⟨t, h, Nat.le_refl _⟩⟩)))
      · exact hnone .hb (mem_ready.2 (Or.inr (Or.inr (Or.inl ⟨rfl, optLe_true.2 ⟨t, h, Nat.le_refl _⟩⟩))))
      · obtain ⟨a1, id⟩ := a
        exact hnone .arr (mem_ready.2 (Or.inr (Or.inr (Or.inr
          ⟨rfl, arrReady_true.2 ⟨a1, id, r, h, by simp at ha; omega⟩⟩))))
      · exact hnone .close (mem_ready.2 (Or.inl ⟨rfl, optLe_true.2 ⟨t, h, Nat.le_refl _⟩⟩))
    · rename_i k hp
      rcases mem_ready.1 (pick_mem hp) with ⟨hk, hr⟩ | ⟨hk, hr⟩ | ⟨hk, hr⟩ | ⟨hk, hr⟩ <;> subst hk
      · obtain ⟨x, hx, hxt⟩ := optLe_true.1 hr
        have : x = t := by have := hn.le_close x hx; omega
        subst this
        exact ⟨_, .close x hd' hn hh' hx hp, by simp [fire]⟩
      · obtain ⟨x, hx, hxt⟩ := optLe_true.1 hr
        have : x = t := by have := hn.le_disc x hx; omega
        subst this
        exact ⟨_, .disc x hd' hn hh' hx hp, by simp [fire]⟩
      · obtain ⟨x, hx, hxt⟩ := optLe_true.1 hr
        have : x = t := by have := hn.le_hb x hx; omega
        subst this
        exact ⟨_, .hb x hd' hn hh' hx hp, by simp [fire]⟩
      · obtain ⟨ta, id, rest, ha, hta⟩ := arrReady_true.1 hr
        have : ta = t := by have := hn.le_arr _ _ ha; simp at this; omega
        subst this
        subst ha
        exact ⟨_, .arr ta id rest hd' hn hh' rfl hp, by simp [fire]⟩

/-! ### induction principles -/

theorem loop_safe {c : Cfg} {close : Option Nat} {hz : Nat} (Inv : St → Prop)
    (hcont : ∀ n s arr s' arr', Inv s → Step c close hz n s arr (.cont s' arr') → Inv s')
    (hstop : ∀ n s arr s', Inv s → Step c close hz n s arr (.stop s') → Inv s') :
    ∀ fuel s arr ch, Inv s → Inv (loop c close hz fuel s arr ch) := by
  intro fuel
  induction fuel with
  | zero => intro s arr ch h; rw [loop_zero]; exact h
  | succ n ih =>
    intro s arr ch h
    obtain ⟨nx, hs, he⟩ := loop_succ c close hz n s arr ch
    rw [he]
    cases nx with
    | stop s' => exact hstop _ s arr s' h hs
    | cont s' arr' => exact ih s' arr' ch.tail (hcont _ s arr s' arr' h hs)

/-! ### writes -/

def isW : Ev → Bool
  | .comment => true
  | .event _ => true
  | _ => false

def isE : Ev → Bool
  | .selfClose => true
  | .clientClose => true
  | .endWrite => true
  | _ => false

theorem write_cases (c : Cfg) (s : St) (t : Nat) (e : Ev) :
    (writeOk c t = true ∧ s.write c t e true =
      { s with trace := (t, e) :: s.trace, hbDue := if c.hb = 0 then s.hbDue else some (t + c.hb) }) ∨
    (writeOk c t = false ∧ s.write c t e true =
      { s with trace := (t, .endWrite) :: (t, .failed) :: s.trace, done := true }) := by
  unfold St.write
  cases h : writeOk c t
  · right; simp
  · left; by_cases h0 : c.hb = 0 <;> simp [h0]

theorem writeOk_of_deadline {c : Cfg} {d : Nat} (hd : c.deadline = some d) (t : Nat) :
    writeOk c t = decide (t < d) := by
  simp [writeOk, hd]

theorem writeOk_of_no_deadline {c : Cfg} (hd : c.deadline = none) (t : Nat) : writeOk c t = true := by
  simp [writeOk, hd]

/-- Entries appended by one iteration. -/
theorem step_forall {c : Cfg} {close : Option Nat} {hz n : Nat} (P : Nat × Ev → Prop)
    {s : St} {arr : List (Nat × Nat)} {nx : Next} (hs : Step c close hz n s arr nx)
    (h : ∀ p ∈ s.trace, P p) :
    (∀ t, P (t, .clientClose)) → (∀ t, s.discDue = some t → P (t, .selfClose)) →
    (∀ t e, isW e = true → writeOk c t = true → P (t, e)) →
    (∀ t, writeOk c t = false → P (t, .failed) ∧ P (t, .endWrite)) →
    ∀ p ∈ nx.st.trace, P p := by
  intro h1 h2 h3 h4
  cases hs with
  | done _ => exact h
  | idle _ _ _ _ _ => exact h
  | horizon t _ _ _ => exact h
  | close t _ _ _ _ _ => simp only [Next.st, List.mem_cons]; rintro p (rfl | hp); exact h1 t; exact h p hp
  | disc t _ _ _ hd _ => simp only [Next.st, List.mem_cons]; rintro p (rfl | hp); exact h2 t hd; exact h p hp
  | hb t _ _ _ _ _ =>
    rcases write_cases c s t .comment with ⟨hok, hw⟩ | ⟨hok, hw⟩ <;> simp only [Next.st, hw, List.mem_cons]
    · rintro p (rfl | hp); exact h3 t _ rfl hok; exact h p hp
    · rintro p (rfl | rfl | hp); exact (h4 t hok).2; exact (h4 t hok).1; exact h p hp
  | arr t id rest _ _ _ _ _ =>
    rcases write_cases c s t (.event id) with ⟨hok, hw⟩ | ⟨hok, hw⟩ <;> simp only [Next.st, hw, List.mem_cons]
    · rintro p (rfl | hp); exact h3 t _ rfl hok; exact h p hp
    · rintro p (rfl | rfl | hp); exact (h4 t hok).2; exact (h4 t hok).1; exact h p hp

theorem step_discDue {c : Cfg} {close : Option Nat} {hz n : Nat} {s : St} {arr : List (Nat × Nat)} {nx : Next}
    (hs : Step c close hz n s arr nx) : nx.st.discDue = s.discDue := by
  cases hs with
  | done _ => rfl
  | idle _ _ _ _ _ => rfl
  | horizon t _ _ _ => rfl
  | close t _ _ _ _ _ => rfl
  | disc t _ _ _ _ _ => rfl
  | hb t _ _ _ _ _ =>
    rcases write_cases c s t .comment with ⟨_, hw⟩ | ⟨_, hw⟩ <;> simp only [Next.st, hw]
  | arr t id rest _ _ _ _ _ =>
    rcases write_cases c s t (.event id) with ⟨_, hw⟩ | ⟨_, hw⟩ <;> simp only [Next.st, hw]

/-- A property of trace entries established by every kind of step holds of the whole trace. -/
theorem loop_forall {c : Cfg} {close : Option Nat} {hz : Nat} (P : Nat × Ev → Prop) (dd : Option Nat)
    (h1 : ∀ t, P (t, .clientClose)) (h2 : ∀ t, dd = some t → P (t, .selfClose))
    (h3 : ∀ t e, isW e = true → writeOk c t = true → P (t, e))
    (h4 : ∀ t, writeOk c t = false → P (t, .failed) ∧ P (t, .endWrite))
    (fuel : Nat) (s : St) (arr : List (Nat × Nat)) (ch : List Nat) (hdd : s.discDue = dd)
    (h : ∀ p ∈ s.trace, P p) :
    ∀ p ∈ (loop c close hz fuel s arr ch).trace, P p := by
  have := loop_safe (c := c) (close := close) (hz := hz)
    (Inv := fun s => s.discDue = dd ∧ ∀ p ∈ s.trace, P p) ?_ ?_ fuel s arr ch ⟨hdd, h⟩
  · exact this.2
  · intro n s arr s' arr' ⟨hd, h⟩ hs
    exact ⟨(step_discDue hs).trans hd, step_forall P hs h h1 (fun t ht => h2 t (hd ▸ ht)) h3 h4⟩
  · intro n s arr s' ⟨hd, h⟩ hs
    exact ⟨(step_discDue hs).trans hd, step_forall P hs h h1 (fun t ht => h2 t (hd ▸ ht)) h3 h4⟩

theorem mem_runCh {c : Cfg} {arr : List (Nat × Nat)} {close : Option Nat} {hz : Nat} {ch : List Nat}
    {p : Nat × Ev} :
    p ∈ runCh c arr close hz ch ↔ p ∈ (loop c close hz (fuelFor c arr hz) (init c) arr ch).trace := by
  simp [runCh]

/-- `run` is the trace under the empty list of choices (every tie resolved by index 0). -/
theorem run_eq_runCh_nil (c : Cfg) (arr : List (Nat × Nat)) (close : Option Nat) (hz : Nat) :
    run c arr close hz = runCh c arr close hz [] := rfl

theorem init_discDue_none {c : Cfg} (hw : c.wt = 0) : (init c).discDue = none := by simp [init, hw]

theorem init_discDue {c : Cfg} {d : Nat} (hw : c.wt ≠ 0) (hd : c.deadline = some d) :
    (init c).discDue = some (d - c.dt) := by simp [init, hw, hd]

/-- C16/2 -/
theorem run_write_lt (c : Cfg) (arr : List (Nat × Nat)) (close : Option Nat) (hz d : Nat) (ch : List Nat)
    (hd : c.deadline = some d) (hpos : 0 < d) :
    ∀ p ∈ runCh c arr close hz ch, isW p.2 = true → p.1 < d := by
  intro p hp
  refine loop_forall (fun p => isW p.2 = true → p.1 < d) (init c).discDue ?_ ?_ ?_ ?_ _ _ _ _ rfl ?_ p
    (mem_runCh.1 hp)
  · intro t; simp [isW]
  · intro t _; simp [isW]
  · intro t e _ hok _; simpa [writeOk_of_deadline hd] using hok
  · intro t _; simp [isW]
  · intro p hp; simp [init] at hp; subst hp; intro _; exact hpos

/-- C16/6 -/
theorem run_no_selfClose (c : Cfg) (arr : List (Nat × Nat)) (close : Option Nat) (hz : Nat) (ch : List Nat)
    (hw : c.wt = 0) :
    ∀ p ∈ runCh c arr close hz ch, p.2 ≠ .selfClose := by
  intro p hp
  refine loop_forall (fun p => p.2 ≠ .selfClose) none ?_ ?_ ?_ ?_ _ _ _ _ (init_discDue_none hw) ?_ p
    (mem_runCh.1 hp)
  · intro t; simp
  · intro t h; simp at h
  · intro t e he _; cases e <;> simp [isW] at he ⊢
  · intro t _; simp
  · intro p hp; simp [init] at hp; subst hp; simp

/-- C16/8 -/
theorem run_no_end (c : Cfg) (arr : List (Nat × Nat)) (close : Option Nat) (hz : Nat) (ch : List Nat)
    (hw : c.wt = 0) (hd : c.deadline = none) :
    ∀ p ∈ runCh c arr close hz ch, p.2 ≠ .selfClose ∧ p.2 ≠ .failed ∧ p.2 ≠ .endWrite := by
  intro p hp
  refine loop_forall (fun p => p.2 ≠ .selfClose ∧ p.2 ≠ .failed ∧ p.2 ≠ .endWrite) none ?_ ?_ ?_ ?_ _ _ _ _
    (init_discDue_none hw) ?_ p (mem_runCh.1 hp)
  · intro t; simp
  · intro t h; simp at h
  · intro t e he _; cases e <;> simp [isW] at he ⊢
  · intro t h; simp [writeOk_of_no_deadline hd] at h
  · intro p hp; simp [init] at hp; subst hp; simp

/-- C16/7 (the part that holds for every expiry, including 0) -/
theorem run_failed (c : Cfg) (arr : List (Nat × Nat)) (close : Option Nat) (hz e : Nat) (ch : List Nat)
    (hd : c.deadline = some e) :
    ∀ t, (t, Ev.failed) ∈ runCh c arr close hz ch →
      e ≤ t ∧ (runCh c arr close hz ch).getLast? = some (t, .endWrite) := by
  have key := loop_safe (c := c) (close := close) (hz := hz)
    (Inv := fun s => (∀ t, (t, Ev.failed) ∉ s.trace) ∨
      (s.done = true ∧ ∃ t, e ≤ t ∧ s.trace.head? = some (t, .endWrite) ∧
        ∀ t', (t', Ev.failed) ∈ s.trace → t' = t)) ?_ ?_
    (fuelFor c arr hz) (init c) arr ch (Or.inl (by simp [init]))
  · intro t ht
    rw [mem_runCh] at ht
    rcases key with h | ⟨_, t0, h1, h2, h3⟩
    · exact absurd ht (h t)
    · have := h3 t ht
      subst this
      exact ⟨h1, by rw [runCh, List.getLast?_reverse]; exact h2⟩
  · intro n s arr s' arr' h hs
    have hw : ∀ t ev, s.done = false → ev ≠ Ev.failed →
        (∀ t1, (t1, Ev.failed) ∉ (s.write c t ev true).trace) ∨
        ((s.write c t ev true).done = true ∧ ∃ t0, e ≤ t0 ∧
          (s.write c t ev true).trace.head? = some (t0, .endWrite) ∧
          ∀ t', (t', Ev.failed) ∈ (s.write c t ev true).trace → t' = t0) := by
      intro t ev hdn hev
      have hnf : ∀ t, (t, Ev.failed) ∉ s.trace := by
        rcases h with h | ⟨hd', _⟩
        · exact h
        · rw [hdn] at hd'; cases hd'
      rcases write_cases c s t ev with ⟨hok, hw⟩ | ⟨hok, hw⟩ <;> rw [hw]
      · left; intro t'; simp only [List.mem_cons, not_or]
        refine ⟨?_, hnf t'⟩
        intro heq; cases heq; exact hev rfl
      · right
        refine ⟨rfl, t, ?_, rfl, ?_⟩
        · simpa [writeOk_of_deadline hd] using hok
        · intro t'; simp only [List.mem_cons]
          rintro (h | h | h)
          · cases h
          · cases h; rfl
          · exact absurd h (hnf t')
    cases hs with
    | hb t hdn _ _ _ _ => exact hw t .comment hdn (by simp)
    | arr t id rest hdn _ _ _ _ => exact hw t (.event id) hdn (by simp)
  · intro n s arr s' h hs
    have hnf : s.done = false → ∀ t, (t, Ev.failed) ∉ s.trace := by
      intro hdn
      rcases h with h | ⟨hd', _⟩
      · exact h
      · rw [hdn] at hd'; cases hd'
    cases hs with
    | done _ => exact h
    | idle _ _ _ _ _ => exact h
    | horizon t _ _ _ => exact h
    | close t hdn _ _ _ _ => left; intro t'; simpa using hnf hdn t'
    | disc t hdn _ _ _ _ => left; intro t'; simpa using hnf hdn t'

/-! ### successful write times and chains -/

/-- Times of the successful writes of a trace (same order as the trace). -/
def wtimes (tr : List (Nat × Ev)) : List Nat := (tr.filter (fun p => isW p.2)).map (·.1)

theorem wtimes_cons_w {t : Nat} {e : Ev} {tr : List (Nat × Ev)} (h : isW e = true) :
    wtimes ((t, e) :: tr) = t :: wtimes tr := by simp [wtimes, h]

theorem wtimes_cons_nw {t : Nat} {e : Ev} {tr : List (Nat × Ev)} (h : isW e = false) :
    wtimes ((t, e) :: tr) = wtimes tr := by simp [wtimes, h]

theorem wtimes_reverse (tr : List (Nat × Ev)) : wtimes tr.reverse = (wtimes tr).reverse := by
  simp [wtimes, List.filter_reverse]

def ChainL (R : Nat → Nat → Prop) : List Nat → Prop
  | [] => True
  | [_] => True
  | a :: b :: l => R a b ∧ ChainL R (b :: l)

theorem chainL_cons {R : Nat → Nat → Prop} {a : Nat} {l : List Nat} :
    ChainL R (a :: l) ↔ (∀ b, l.head? = some b → R a b) ∧ ChainL R l := by
  cases l <;> simp [ChainL]

theorem chainL_concat {R : Nat → Nat → Prop} {b : Nat} {l : List Nat} :
    ChainL R (l ++ [b]) ↔ ChainL R l ∧ ∀ a, l.getLast? = some a → R a b := by
  induction l with
  | nil => simp [ChainL]
  | cons x l ih =>
    rw [List.cons_append, chainL_cons, chainL_cons, ih]
    cases l with
    | nil => simp [ChainL]
    | cons y l =>
      simp only [List.cons_append, List.head?_cons, Option.some.injEq, forall_eq', List.getLast?_cons_cons]
      constructor
      · rintro ⟨h1, h2, h3⟩; exact ⟨⟨h1, h2⟩, h3⟩
      · rintro ⟨⟨h1, h2⟩, h3⟩; exact ⟨h1, h2, h3⟩

theorem chainL_reverse {R : Nat → Nat → Prop} {l : List Nat} :
    ChainL R l.reverse ↔ ChainL (fun a b => R b a) l := by
  induction l with
  | nil => simp [ChainL]
  | cons x l ih =>
    rw [List.reverse_cons, chainL_concat, chainL_cons, ih, List.getLast?_reverse]
    exact and_comm

/-- After a write, the state either has the new entry and a re-armed heartbeat, or is done with the
    same successful writes. -/
theorem wtimes_write (c : Cfg) (s : St) (t : Nat) (e : Ev) (he : isW e = true) :
    (writeOk c t = true ∧ (s.write c t e true).done = s.done ∧
      (s.write c t e true).discDue = s.discDue ∧
      (s.write c t e true).trace = (t, e) :: s.trace ∧
      wtimes (s.write c t e true).trace = t :: wtimes s.trace ∧
      (s.write c t e true).hbDue = if c.hb = 0 then s.hbDue else some (t + c.hb)) ∨
    (writeOk c t = false ∧ (s.write c t e true).done = true ∧
      (s.write c t e true).discDue = s.discDue ∧
      (s.write c t e true).trace = (t, .endWrite) :: (t, .failed) :: s.trace ∧
      wtimes (s.write c t e true).trace = wtimes s.trace) := by
  rcases write_cases c s t e with ⟨hok, hw⟩ | ⟨hok, hw⟩ <;> rw [hw]
  · exact Or.inl ⟨hok, rfl, rfl, rfl, wtimes_cons_w he, rfl⟩
  · refine Or.inr ⟨hok, rfl, rfl, rfl, ?_⟩
    show wtimes (_ :: _ :: _) = _
    rw [wtimes_cons_nw (by rfl), wtimes_cons_nw (by rfl)]

/-- C16/3 -/
theorem run_heartbeat_gap (c : Cfg) (arr : List (Nat × Nat)) (close : Option Nat) (hz : Nat) (ch : List Nat)
    (hh : c.hb ≠ 0) :
    ChainL (fun a b => b ≤ a + c.hb) (wtimes (runCh c arr close hz ch)) := by
  have key := loop_safe (c := c) (close := close) (hz := hz)
    (Inv := fun s => ChainL (fun a b => a ≤ b + c.hb) (wtimes s.trace) ∧
      (s.done = false → ∃ last, (wtimes s.trace).head? = some last ∧ s.hbDue = some (last + c.hb))) ?_ ?_
    (fuelFor c arr hz) (init c) arr ch ?_
  · rw [runCh, wtimes_reverse, chainL_reverse]; exact key.1
  · intro n s arr s' arr' ⟨h1, h2⟩ hs
    have hw : ∀ t e, isW e = true → s.done = false → (∀ x, s.hbDue = some x → t ≤ x) →
        ChainL (fun a b => a ≤ b + c.hb) (wtimes (s.write c t e true).trace) ∧
        ((s.write c t e true).done = false → ∃ last, (wtimes (s.write c t e true).trace).head? = some last ∧
          (s.write c t e true).hbDue = some (last + c.hb)) := by
      intro t e he hdn hle
      obtain ⟨last, hl1, hl2⟩ := h2 hdn
      rcases wtimes_write c s t e he with ⟨_, w1, _, _, w2, w3⟩ | ⟨_, w1, _, _, w2⟩
      · rw [w2, w3, chainL_cons]
        refine ⟨⟨?_, h1⟩, fun _ => ⟨t, rfl, by simp [hh]⟩⟩
        intro b hb
        rw [hl1] at hb; cases hb
        exact hle _ hl2
      · rw [w2, w1]; exact ⟨h1, fun h => by cases h⟩
    cases hs with
    | hb t hdn hn _ _ _ => exact hw t .comment rfl hdn hn.le_hb
    | arr t id rest hdn hn _ _ _ => exact hw t (.event id) rfl hdn hn.le_hb
  · intro n s arr s' ⟨h1, h2⟩ hs
    cases hs with
    | done _ => exact ⟨h1, h2⟩
    | idle _ _ _ _ _ => exact ⟨h1, h2⟩
    | horizon t _ _ _ => exact ⟨h1, h2⟩
    | close t hdn _ _ _ _ =>
      refine ⟨?_, fun h => by cases h⟩
      show ChainL _ (wtimes (_ :: _)); rw [wtimes_cons_nw (by rfl)]; exact h1
    | disc t hdn _ _ _ _ =>
      refine ⟨?_, fun h => by cases h⟩
      show ChainL _ (wtimes (_ :: _)); rw [wtimes_cons_nw (by rfl)]; exact h1
  · refine ⟨by simp [init, wtimes, isW, ChainL], fun _ => ⟨0, by simp [init, wtimes, isW], by simp [init, hh]⟩⟩

/-! ### time is monotone and the fuel of `runCh` suffices -/

/-- Arrivals are sorted; while the loop runs, the heartbeat timer is armed one interval after the
    latest successful write, which is not after any remaining arrival. -/
def Mono (c : Cfg) (s : St) (arr : List (Nat × Nat)) : Prop :=
  arr.Pairwise (fun a b => a.1 ≤ b.1) ∧
  (s.done = false → (c.hb = 0 ∧ s.hbDue = none) ∨
    (c.hb ≠ 0 ∧ ∃ last, (wtimes s.trace).head? = some last ∧ s.hbDue = some (last + c.hb) ∧
      ∀ a ∈ arr, last ≤ a.1))

/-- Remaining arrivals + heartbeats that still fit before the horizon (+1 while running). -/
def mu (c : Cfg) (hz : Nat) (s : St) (arr : List (Nat × Nat)) : Nat :=
  if s.done then 0
  else arr.length + (match s.hbDue with | some due => (hz + c.hb - due) / c.hb | none => 0) + 1

theorem le_all_of_head {arr : List (Nat × Nat)} {t : Nat} (hp : arr.Pairwise (fun a b => a.1 ≤ b.1))
    (h : ∀ a rest, arr = a :: rest → t ≤ a.1) : ∀ a ∈ arr, t ≤ a.1 := by
  cases arr with
  | nil => simp
  | cons a rest =>
    have h1 := h a rest rfl
    rw [List.pairwise_cons] at hp
    intro b hb
    rcases List.mem_cons.1 hb with rfl | hb
    · exact h1
    · exact Nat.le_trans h1 (hp.1 b hb)

theorem div_step {hb hz t : Nat} (h0 : hb ≠ 0) (ht : t ≤ hz) :
    (hz + hb - (t + hb)) / hb < (hz + hb - t) / hb := by
  have e1 : hz + hb - (t + hb) = hz - t := by omega
  have e2 : hz + hb - t = (hz - t) + hb := by omega
  rw [e1, e2, Nat.add_div_right _ (Nat.pos_of_ne_zero h0)]
  exact Nat.lt_succ_self _

/-- Whatever case fires, the measure decreases: a heartbeat consumes one of the intervals that fit before
    the horizon, an arrival consumes an element of `arr` and can only push the heartbeat timer later. -/
theorem mono_cont {c : Cfg} {close : Option Nat} {hz n : Nat} {s s' : St} {arr arr' : List (Nat × Nat)}
    (hm : Mono c s arr) (hs : Step c close hz n s arr (.cont s' arr')) :
    Mono c s' arr' ∧ mu c hz s' arr' < mu c hz s arr := by
  obtain ⟨hp, hm⟩ := hm
  cases hs with
  | hb t hdn hn hle hhb _ =>
    rcases hm hdn with ⟨_, h2⟩ | ⟨h0, last, hl1, hl2, hl3⟩
    · rw [h2] at hhb; cases hhb
    have htl : t = last + c.hb := by rw [hl2] at hhb; cases hhb; rfl
    rcases wtimes_write c s t .comment rfl with ⟨_, w1, _, _, w2, w3⟩ | ⟨_, w1, _, _, w2⟩
    · refine ⟨⟨hp, fun _ => Or.inr ⟨h0, t, by rw [w2]; rfl, by rw [w3]; simp [h0], ?_⟩⟩, ?_⟩
      · exact le_all_of_head hp hn.le_arr
      · simp only [mu, w1, hdn, w3, h0, hhb, if_false, Bool.false_eq_true]
        have := div_step h0 hle
        omega
    · refine ⟨⟨hp, fun h => by rw [w1] at h; cases h⟩, ?_⟩
      simp only [mu, w1, hdn, if_true, if_false, Bool.false_eq_true]
      omega
  | arr t id rest hdn hn hle harr _ =>
    subst harr
    rw [List.pairwise_cons] at hp
    rcases wtimes_write c s t (.event id) rfl with ⟨_, w1, _, _, w2, w3⟩ | ⟨_, w1, _, _, w2⟩
    · rcases hm hdn with ⟨h0, h2⟩ | ⟨h0, last, hl1, hl2, hl3⟩
      · refine ⟨⟨hp.2, fun _ => Or.inl ⟨h0, by rw [w3]; simp [h0, h2]⟩⟩, ?_⟩
        simp only [mu, w1, hdn, w3, h0, h2, if_true, if_false, Bool.false_eq_true, List.length_cons]
        omega
      · refine ⟨⟨hp.2, fun _ => Or.inr ⟨h0, t, by rw [w2]; rfl, by rw [w3]; simp [h0], hp.1⟩⟩, ?_⟩
        simp only [mu, w1, hdn, w3, h0, hl2, if_false, Bool.false_eq_true, List.length_cons]
        have hlt : last ≤ t := hl3 _ (List.mem_cons_self ..)
        have : (hz + c.hb - (t + c.hb)) / c.hb ≤ (hz + c.hb - (last + c.hb)) / c.hb :=
          Nat.div_le_div_right (by omega)
        omega
    · refine ⟨⟨hp.2, fun h => by rw [w1] at h; cases h⟩, ?_⟩
      simp only [mu, w1, hdn, if_true, if_false, Bool.false_eq_true]
      omega

/-- Total-correctness induction, relative to a predicate `Q` on the choice numbers actually used
    (`Q := fun _ => True` for "every resolution", `Q := (· = 0)` for the fixed order of `run`). -/
theorem loop_totalQ {c : Cfg} {close : Option Nat} {hz : Nat} (Q : Nat → Prop) (Inv : St → Prop)
    (Post : St → Prop)
    (hcont : ∀ n s arr s' arr', Q n → Mono c s arr → Inv s → Step c close hz n s arr (.cont s' arr') → Inv s')
    (hstop : ∀ n s arr s', Q n → Mono c s arr → Inv s → Step c close hz n s arr (.stop s') → Post s')
    (hQ0 : Q 0) :
    ∀ fuel s arr ch, (∀ n ∈ ch, Q n) → Mono c s arr → Inv s → mu c hz s arr < fuel →
      Post (loop c close hz fuel s arr ch) := by
  intro fuel
  induction fuel with
  | zero => intro s arr ch _ _ _ h; exact absurd h (Nat.not_lt_zero _)
  | succ n ih =>
    intro s arr ch hch hm h hf
    obtain ⟨nx, hs, he⟩ := loop_succ c close hz n s arr ch
    rw [he]
    have hq : Q (ch.headD 0) := by
      cases ch with
      | nil => exact hQ0
      | cons a l => exact hch a (List.mem_cons_self ..)
    have hq' : ∀ n ∈ ch.tail, Q n := fun n hn => hch n (List.mem_of_mem_tail hn)
    cases nx with
    | stop s' => exact hstop _ s arr s' hq hm h hs
    | cont s' arr' =>
      obtain ⟨hm', hlt⟩ := mono_cont hm hs
      exact ih s' arr' ch.tail hq' hm' (hcont _ s arr s' arr' hq hm h hs) (by omega)

theorem loop_total {c : Cfg} {close : Option Nat} {hz : Nat} (Inv : St → Prop) (Post : St → Prop)
    (hcont : ∀ n s arr s' arr', Mono c s arr → Inv s → Step c close hz n s arr (.cont s' arr') → Inv s')
    (hstop : ∀ n s arr s', Mono c s arr → Inv s → Step c close hz n s arr (.stop s') → Post s') :
    ∀ fuel s arr ch, Mono c s arr → Inv s → mu c hz s arr < fuel → Post (loop c close hz fuel s arr ch) := by
  intro fuel s arr ch
  exact loop_totalQ (fun _ => True) Inv Post (fun n s arr s' arr' _ => hcont n s arr s' arr')
    (fun n s arr s' _ => hstop n s arr s') trivial fuel s arr ch (fun _ _ => trivial)

theorem mono_init (c : Cfg) {arr : List (Nat × Nat)} (hp : arr.Pairwise (fun a b => a.1 ≤ b.1)) :
    Mono c (init c) arr := by
  refine ⟨hp, fun _ => ?_⟩
  by_cases h0 : c.hb = 0
  · exact Or.inl ⟨h0, by simp [init, h0]⟩
  · exact Or.inr ⟨h0, 0, by simp [init, wtimes, isW], by simp [init, h0], by simp⟩

theorem mu_init (c : Cfg) (arr : List (Nat × Nat)) (hz : Nat) :
    mu c hz (init c) arr < fuelFor c arr hz := by
  by_cases h0 : c.hb = 0
  · simp [mu, init, fuelFor, h0]
  · simp [mu, init, fuelFor, h0]

/-- C16/4 -/
theorem run_heartbeat_until_horizon (c : Cfg) (arr : List (Nat × Nat)) (close : Option Nat) (hz : Nat)
    (ch : List Nat) (hs : arr.Pairwise (fun a b => a.1 ≤ b.1)) (hh : c.hb ≠ 0) :
    (∃ p ∈ runCh c arr close hz ch, isE p.2 = true) ∨
    ∃ t, (wtimes (runCh c arr close hz ch)).getLast? = some t ∧ hz < t + c.hb := by
  have key := loop_total (c := c) (close := close) (hz := hz)
    (Inv := fun s => s.done = true → ∃ p ∈ s.trace, isE p.2 = true)
    (Post := fun s => (∃ p ∈ s.trace, isE p.2 = true) ∨
      ∃ t, (wtimes s.trace).head? = some t ∧ hz < t + c.hb) ?_ ?_
    (fuelFor c arr hz) (init c) arr ch (mono_init c hs)
    (by simp [init]) (mu_init c arr hz)
  · rcases key with ⟨p, hp, hpe⟩ | ⟨t, h1, h2⟩
    · exact Or.inl ⟨p, mem_runCh.2 hp, hpe⟩
    · exact Or.inr ⟨t, by rw [runCh, wtimes_reverse, List.getLast?_reverse]; exact h1, h2⟩
  · intro n s arr s' arr' _ _ hst
    have hw : ∀ t e, isW e = true → s.done = false →
        (s.write c t e true).done = true → ∃ p ∈ (s.write c t e true).trace, isE p.2 = true := by
      intro t e he hdn
      rcases wtimes_write c s t e he with ⟨_, w1, _, _, _, _⟩ | ⟨_, _, _, w2, _⟩
      · rw [w1, hdn]; intro h; cases h
      · intro _; rw [w2]; exact ⟨(t, .endWrite), by simp, rfl⟩
    cases hst with
    | hb t hdn _ _ _ _ => exact hw t .comment rfl hdn
    | arr t id rest hdn _ _ _ _ => exact hw t (.event id) rfl hdn
  · intro n s arr s' hm h hst
    cases hst with
    | done hdn => exact Or.inl (h hdn)
    | idle hdn _ h2 _ _ =>
      rcases hm.2 hdn with ⟨h0, _⟩ | ⟨_, last, _, hl2, _⟩
      · exact absurd h0 hh
      · rw [h2] at hl2; cases hl2
    | horizon t hdn hn hlt =>
      rcases hm.2 hdn with ⟨h0, _⟩ | ⟨_, last, hl1, hl2, _⟩
      · exact absurd h0 hh
      · have := hn.le_hb _ hl2
        exact Or.inr ⟨last, hl1, by omega⟩
    | close t _ _ _ _ _ => exact Or.inl ⟨(t, .clientClose), by simp, rfl⟩
    | disc t _ _ _ _ _ => exact Or.inl ⟨(t, .selfClose), by simp, rfl⟩

/-! ### C16/5 — the disconnection timer under ties

  At the instant `d - dt` the disconnection timer can tie with the heartbeat timer or with arrivals:
  `select` may serve those first (still at the instant `d - dt`), any number of times, before it serves
  the disconnection timer. Such a write succeeds when `d - dt < d`; when `d - dt = d` (dispatch timeout 0,
  or a deadline of 0) it is a write at the deadline itself: it fails and the handler returns through the
  write-failure path instead of the timer. With the fixed order of `run` (choice 0) the timer always wins. -/

theorem run_self_disconnect_Q (Q : Nat → Prop) (hQ0 : Q 0)
    (c : Cfg) (arr : List (Nat × Nat)) (close : Option Nat) (hz d : Nat) (ch : List Nat)
    (hch : ∀ n ∈ ch, Q n)
    (hs : arr.Pairwise (fun a b => a.1 ≤ b.1)) (hw : c.wt ≠ 0) (hd : c.deadline = some d)
    (hhz : d - c.dt ≤ hz) (hc : ∀ x, close = some x → d - c.dt < x) :
    ∃ tr, (runCh c arr close hz ch = tr ++ [(d - c.dt, .selfClose)] ∨
        (¬ d - c.dt < d ∧ (∃ n, Q n ∧ n ≠ 0) ∧
          runCh c arr close hz ch = tr ++ [(d - c.dt, .failed), (d - c.dt, .endWrite)])) ∧
      ∀ p ∈ tr, isE p.2 = false ∧ p.2 ≠ .failed ∧ p.1 ≤ d - c.dt := by
  have key := loop_totalQ (c := c) (close := close) (hz := hz) Q
    (Inv := fun s =>
      (s.done = false ∧ s.discDue = some (d - c.dt) ∧
        ∀ p ∈ s.trace, isE p.2 = false ∧ p.2 ≠ .failed ∧ p.1 ≤ d - c.dt) ∨
      (s.done = true ∧ ∃ tr, (s.trace = (d - c.dt, .selfClose) :: tr ∨
          (¬ d - c.dt < d ∧ (∃ n, Q n ∧ n ≠ 0) ∧
            s.trace = (d - c.dt, .endWrite) :: (d - c.dt, .failed) :: tr)) ∧
        ∀ p ∈ tr, isE p.2 = false ∧ p.2 ≠ .failed ∧ p.1 ≤ d - c.dt))
    (Post := fun s => ∃ tr, (s.trace = (d - c.dt, .selfClose) :: tr ∨
          (¬ d - c.dt < d ∧ (∃ n, Q n ∧ n ≠ 0) ∧
            s.trace = (d - c.dt, .endWrite) :: (d - c.dt, .failed) :: tr)) ∧
        ∀ p ∈ tr, isE p.2 = false ∧ p.2 ≠ .failed ∧ p.1 ≤ d - c.dt) ?_ ?_ hQ0
    (fuelFor c arr hz) (init c) arr ch hch (mono_init c hs)
    (Or.inl ⟨rfl, init_discDue hw hd, by simp [init, isE]⟩) (mu_init c arr hz)
  · obtain ⟨tr, h1, h2⟩ := key
    refine ⟨tr.reverse, ?_, fun p hp => h2 p (List.mem_reverse.1 hp)⟩
    rcases h1 with h1 | ⟨ha, hb, h1⟩
    · exact Or.inl (by rw [runCh, h1, List.reverse_cons])
    · exact Or.inr ⟨ha, hb, by rw [runCh, h1]; simp⟩
  · intro n s arr s' arr' hq _ h hst
    have hwr : ∀ t e k, isW e = true → s.done = false → IsNext close s arr t → k ≠ Kind.disc →
        pick (ready close s arr t) n = some k →
        ((s.write c t e true).done = false ∧ (s.write c t e true).discDue = some (d - c.dt) ∧
          ∀ p ∈ (s.write c t e true).trace, isE p.2 = false ∧ p.2 ≠ .failed ∧ p.1 ≤ d - c.dt) ∨
        ((s.write c t e true).done = true ∧ ∃ tr, ((s.write c t e true).trace = (d - c.dt, .selfClose) :: tr ∨
          (¬ d - c.dt < d ∧ (∃ n, Q n ∧ n ≠ 0) ∧
            (s.write c t e true).trace = (d - c.dt, .endWrite) :: (d - c.dt, .failed) :: tr)) ∧
          ∀ p ∈ tr, isE p.2 = false ∧ p.2 ≠ .failed ∧ p.1 ≤ d - c.dt) := by
      intro t e k he hdn hn hk hp
      rcases h with ⟨_, h2, h3⟩ | ⟨h1, _⟩
      · have htd := hn.le_disc _ h2
        rcases wtimes_write c s t e he with ⟨_, w1, w2, w3, _, _⟩ | ⟨hok, w1, _, w3, _⟩
        · refine Or.inl ⟨w1.trans hdn, w2.trans h2, ?_⟩
          rw [w3]; intro p hp
          rcases List.mem_cons.1 hp with rfl | hp
          · refine ⟨?_, ?_, htd⟩ <;> cases e <;> simp [isW, isE] at he ⊢
          · exact h3 p hp
        · rw [writeOk_of_deadline hd] at hok
          have hnlt : ¬ t < d := by simpa using hok
          have hteq : t = d - c.dt := by omega
          subst hteq
          refine Or.inr ⟨w1, s.trace, Or.inr ⟨by omega, ⟨n, hq, ?_⟩, w3⟩, h3⟩
          intro hn0
          subst hn0
          have hcl : ¬ optLe close (d - c.dt) = true := by
            intro hcl
            obtain ⟨x, hx, hxt⟩ := optLe_true.1 hcl
            have := hc x hx
            omega
          have hdi : optLe s.discDue (d - c.dt) = true := optLe_true.2 ⟨_, h2, Nat.le_refl _⟩
          rw [pick_zero_disc hcl hdi] at hp
          cases hp
          exact hk rfl
      · rw [hdn] at h1; cases h1
    cases hst with
    | hb t hdn hn _ _ hp => exact hwr t .comment .hb rfl hdn hn (by simp) hp
    | arr t id rest hdn hn _ _ hp => exact hwr t (.event id) .arr rfl hdn hn (by simp) hp
  · intro n s arr s' _ _ h hst
    cases hst with
    | done hdn =>
      rcases h with ⟨h1, _⟩ | ⟨_, h2⟩
      · rw [hdn] at h1; cases h1
      · exact h2
    | idle hdn h1 _ _ _ =>
      rcases h with ⟨_, h2, _⟩ | ⟨h2, _⟩
      · rw [h1] at h2; cases h2
      · rw [hdn] at h2; cases h2
    | horizon t hdn hn hlt =>
      rcases h with ⟨_, h2, _⟩ | ⟨h2, _⟩
      · have := hn.le_disc _ h2; omega
      · rw [hdn] at h2; cases h2
    | close t hdn hn _ hcl _ =>
      rcases h with ⟨_, h2, _⟩ | ⟨h2, _⟩
      · have := hn.le_disc _ h2; have := hc t hcl; omega
      · rw [hdn] at h2; cases h2
    | disc t hdn _ _ hdd _ =>
      rcases h with ⟨_, h2, h3⟩ | ⟨h2, _⟩
      · rw [h2] at hdd; cases hdd
        exact ⟨s.trace, Or.inl rfl, h3⟩
      · rw [hdn] at h2; cases h2

/-- C16/5 for every resolution of the ties, in full generality: the connection ends exactly at `d - dt`,
    by the disconnection timer — or, only when `d - dt = d`, by a write that lost nothing but the race
    against the timer at that very instant and hit the deadline. Nothing before the end is later than `d - dt`. -/
theorem run_self_disconnect_tie (c : Cfg) (arr : List (Nat × Nat)) (close : Option Nat) (hz d : Nat)
    (ch : List Nat)
    (hs : arr.Pairwise (fun a b => a.1 ≤ b.1)) (hw : c.wt ≠ 0) (hd : c.deadline = some d)
    (hhz : d - c.dt ≤ hz) (hc : ∀ x, close = some x → d - c.dt < x) :
    ∃ tr, (runCh c arr close hz ch = tr ++ [(d - c.dt, .selfClose)] ∨
        (¬ d - c.dt < d ∧
          runCh c arr close hz ch = tr ++ [(d - c.dt, .failed), (d - c.dt, .endWrite)])) ∧
      ∀ p ∈ tr, isE p.2 = false ∧ p.2 ≠ .failed ∧ p.1 ≤ d - c.dt := by
  obtain ⟨tr, h1, h2⟩ := run_self_disconnect_Q (fun _ => True) trivial c arr close hz d ch
    (fun _ _ => trivial) hs hw hd hhz hc
  refine ⟨tr, ?_, h2⟩
  rcases h1 with h1 | ⟨ha, _, h1⟩
  · exact Or.inl h1
  · exact Or.inr ⟨ha, h1⟩

/-- C16/5 for every resolution of the ties, with the old conclusion; the new hypothesis is
    `d - c.dt < d` (the disconnection instant is strictly before the deadline: `dt ≠ 0` and `d ≠ 0`). -/
theorem run_self_disconnect (c : Cfg) (arr : List (Nat × Nat)) (close : Option Nat) (hz d : Nat)
    (ch : List Nat)
    (hs : arr.Pairwise (fun a b => a.1 ≤ b.1)) (hw : c.wt ≠ 0) (hd : c.deadline = some d)
    (hhz : d - c.dt ≤ hz) (hc : ∀ x, close = some x → d - c.dt < x) (hlt : d - c.dt < d) :
    ∃ tr, runCh c arr close hz ch = tr ++ [(d - c.dt, .selfClose)] ∧
      ∀ p ∈ tr, isE p.2 = false ∧ p.2 ≠ .failed ∧ p.1 ≤ d - c.dt := by
  obtain ⟨tr, h1, h2⟩ := run_self_disconnect_tie c arr close hz d ch hs hw hd hhz hc
  rcases h1 with h1 | ⟨ha, _⟩
  · exact ⟨tr, h1, h2⟩
  · exact absurd hlt ha

/-- C16/5 exactly as before (no extra hypothesis) for the fixed order of `run`. -/
theorem run_self_disconnect_fixed (c : Cfg) (arr : List (Nat × Nat)) (close : Option Nat) (hz d : Nat)
    (hs : arr.Pairwise (fun a b => a.1 ≤ b.1)) (hw : c.wt ≠ 0) (hd : c.deadline = some d)
    (hhz : d - c.dt ≤ hz) (hc : ∀ x, close = some x → d - c.dt < x) :
    ∃ tr, run c arr close hz = tr ++ [(d - c.dt, .selfClose)] ∧
      ∀ p ∈ tr, isE p.2 = false ∧ p.2 ≠ .failed ∧ p.1 ≤ d - c.dt := by
  obtain ⟨tr, h1, h2⟩ := run_self_disconnect_Q (fun n => n = 0) rfl c arr close hz d []
    (fun _ h => by cases h) hs hw hd hhz hc
  rcases h1 with h1 | ⟨_, ⟨n, hn0, hn1⟩, _⟩
  · exact ⟨tr, h1, h2⟩
  · exact absurd hn0 hn1

/-- Without `d - c.dt < d` the old statement of C16/5 fails for some resolution of the ties: with
    dispatch timeout 0 the disconnection timer and the heartbeat are both due at 1000 = the deadline; if
    `select` serves the heartbeat first, that write fails and the handler returns through the failed write. -/
theorem self_disconnect_tie_counterexample :
    let c : Cfg := { wt := 1000, dt := 0, hb := 1000, exp := none }
    c.deadline = some 1000 ∧
    runCh c [] none 2000 [0] = [(0, .comment), (1000, .selfClose)] ∧
    runCh c [] none 2000 [1] = [(0, .comment), (1000, .failed), (1000, .endWrite)] ∧
    ¬ (∃ tr, runCh c [] none 2000 [1] = tr ++ [(1000 - c.dt, .selfClose)]) := by
  refine ⟨by decide +kernel, by decide +kernel, by decide +kernel, ?_⟩
  rintro ⟨tr, h⟩
  have h2 : (runCh { wt := 1000, dt := 0, hb := 1000, exp := none } [] none 2000 [1]).getLast? =
      some (1000, Ev.endWrite) := by decide +kernel
  rw [h] at h2
  simp at h2

/-- C16/7 with the missing hypothesis `0 < e`. -/
theorem run_ends_on_first_write_after_expiry (c : Cfg) (arr : List (Nat × Nat)) (close : Option Nat)
    (hz e : Nat) (ch : List Nat) (hd : c.deadline = some e) (hpos : 0 < e) :
    ∀ t, (t, Ev.failed) ∈ runCh c arr close hz ch →
      e ≤ t ∧ (runCh c arr close hz ch).getLast? = some (t, .endWrite) ∧
      (∀ p ∈ runCh c arr close hz ch, isW p.2 = true → p.1 < e) := by
  intro t ht
  obtain ⟨h1, h2⟩ := run_failed c arr close hz e ch hd t ht
  exact ⟨h1, h2, run_write_lt c arr close hz e ch hd hpos⟩

/-- The third conjunct of C16/7 as stated (without `0 < e`) fails when the token is already expired
    at t0: the failed write exists, yet the initial comment is a successful write at time 0 = e. -/
theorem expiry_zero_counterexample :
    let c : Cfg := { wt := 0, dt := 0, hb := 1, exp := some 0 }
    run c [] none 1 = [(0, .comment), (1, .failed), (1, .endWrite)] ∧
    (1, Ev.failed) ∈ run c [] none 1 ∧
    ¬ (∀ p ∈ run c [] none 1, isW p.2 = true → p.1 < 0) := by
  refine ⟨by decide +kernel, by decide +kernel, ?_⟩
  intro h
  exact Nat.not_lt_zero _ (h (0, .comment) (by decide +kernel) rfl)

/-! ### `runAll` enumerates exactly the traces `runCh … ch`, `ch` ranging over all lists of choices -/

theorem loop_done_eq {c : Cfg} {close : Option Nat} {hz fuel : Nat} {s : St} {arr : List (Nat × Nat)}
    (ch : List Nat) (hd : s.done = true) :
    loop c close hz (fuel + 1) s arr ch = s ∧ loopAll c close hz (fuel + 1) s arr = [s] := by
  rw [loop, loopAll]; simp [hd]

theorem loop_idle_eq {c : Cfg} {close : Option Nat} {hz fuel : Nat} {s : St} {arr : List (Nat × Nat)}
    (ch : List Nat) (hd : s.done = false) (hn : nextInstant close s arr = none) :
    loop c close hz (fuel + 1) s arr ch = s ∧ loopAll c close hz (fuel + 1) s arr = [s] := by
  rw [loop, loopAll]; simp [hd, hn]

theorem loop_hz_eq {c : Cfg} {close : Option Nat} {hz fuel t : Nat} {s : St} {arr : List (Nat × Nat)}
    (ch : List Nat) (hd : s.done = false) (hn : nextInstant close s arr = some t) (hh : t > hz) :
    loop c close hz (fuel + 1) s arr ch = s ∧ loopAll c close hz (fuel + 1) s arr = [s] := by
  rw [loop, loopAll]; simp [hd, hn, hh]

theorem loop_noready_eq {c : Cfg} {close : Option Nat} {hz fuel t : Nat} {s : St} {arr : List (Nat × Nat)}
    (ch : List Nat) (hd : s.done = false) (hn : nextInstant close s arr = some t) (hh : ¬ t > hz)
    (hr : ready close s arr t = []) :
    loop c close hz (fuel + 1) s arr ch = s ∧ loopAll c close hz (fuel + 1) s arr = [s] := by
  rw [loop, loopAll]; simp [hd, hn, hh, hr, pick]

theorem loop_fire_eq {c : Cfg} {close : Option Nat} {hz fuel t : Nat} {s : St} {arr : List (Nat × Nat)}
    {ch : List Nat} {k : Kind} (hd : s.done = false) (hn : nextInstant close s arr = some t) (hh : ¬ t > hz)
    (hp : pick (ready close s arr t) (ch.headD 0) = some k) :
    loop c close hz (fuel + 1) s arr ch =
      (match fire c s arr t k with
        | (s', none) => s'
        | (s', some arr') => loop c close hz fuel s' arr' ch.tail) := by
  rw [loop]; simp only [hd, hn, hh, hp, Bool.false_eq_true, if_false]
  rfl

theorem loopAll_fire_eq {c : Cfg} {close : Option Nat} {hz fuel t : Nat} {s : St} {arr : List (Nat × Nat)}
    (hd : s.done = false) (hn : nextInstant close s arr = some t) (hh : ¬ t > hz)
    (hr : ready close s arr t ≠ []) :
    loopAll c close hz (fuel + 1) s arr =
      (ready close s arr t).flatMap fun k =>
        match fire c s arr t k with
        | (s', none) => [s']
        | (s', some arr') => loopAll c close hz fuel s' arr' := by
  rw [loopAll]; simp only [hd, hn, hh, Bool.false_eq_true, if_false]
  rfl

/-- Every final state enumerated by `loopAll` is the final state of `loop` under some choices. -/
theorem loopAll_sound (c : Cfg) (close : Option Nat) (hz : Nat) :
    ∀ fuel s arr s', s' ∈ loopAll c close hz fuel s arr → ∃ ch, loop c close hz fuel s arr ch = s' := by
  intro fuel
  induction fuel with
  | zero =>
    intro s arr s' h
    rw [loopAll] at h
    exact ⟨[], by rw [loop_zero]; exact (List.mem_singleton.1 h).symm⟩
  | succ n ih =>
    intro s arr s' h
    by_cases hd : s.done = true
    · obtain ⟨e1, e2⟩ := loop_done_eq (c := c) (close := close) (hz := hz) (fuel := n) (arr := arr) [] hd
      rw [e2] at h; exact ⟨[], by rw [e1]; exact (List.mem_singleton.1 h).symm⟩
    have hd' : s.done = false := by simpa using hd
    cases hn : nextInstant close s arr with
    | none =>
      obtain ⟨e1, e2⟩ := loop_idle_eq (c := c) (hz := hz) (fuel := n) [] hd' hn
      rw [e2] at h; exact ⟨[], by rw [e1]; exact (List.mem_singleton.1 h).symm⟩
    | some t =>
      by_cases hh : t > hz
      · obtain ⟨e1, e2⟩ := loop_hz_eq (c := c) (fuel := n) [] hd' hn hh
        rw [e2] at h; exact ⟨[], by rw [e1]; exact (List.mem_singleton.1 h).symm⟩
      by_cases hr : ready close s arr t = []
      · obtain ⟨e1, e2⟩ := loop_noready_eq (c := c) (fuel := n) [] hd' hn hh hr
        rw [e2] at h; exact ⟨[], by rw [e1]; exact (List.mem_singleton.1 h).symm⟩
      rw [loopAll_fire_eq hd' hn hh hr, List.mem_flatMap] at h
      obtain ⟨k, hk, hs'⟩ := h
      obtain ⟨i, hi⟩ := pick_of_mem hk
      cases hf : fire c s arr t k with
      | mk s1 o =>
        rw [hf] at hs'
        cases o with
        | none =>
          refine ⟨[i], ?_⟩
          rw [loop_fire_eq (ch := [i]) hd' hn hh hi, hf]
          exact (List.mem_singleton.1 hs').symm
        | some arr' =>
          obtain ⟨ch', hch'⟩ := ih s1 arr' s' hs'
          refine ⟨i :: ch', ?_⟩
          rw [loop_fire_eq (ch := i :: ch') hd' hn hh hi, hf]
          exact hch'

/-- The final state of `loop` under any choices is enumerated by `loopAll`. -/
theorem loop_mem_loopAll (c : Cfg) (close : Option Nat) (hz : Nat) :
    ∀ fuel s arr ch, loop c close hz fuel s arr ch ∈ loopAll c close hz fuel s arr := by
  intro fuel
  induction fuel with
  | zero => intro s arr ch; rw [loop_zero, loopAll]; simp
  | succ n ih =>
    intro s arr ch
    by_cases hd : s.done = true
    · obtain ⟨e1, e2⟩ := loop_done_eq (c := c) (close := close) (hz := hz) (fuel := n) (arr := arr) ch hd
      rw [e1, e2]; simp
    have hd' : s.done = false := by simpa using hd
    cases hn : nextInstant close s arr with
    | none =>
      obtain ⟨e1, e2⟩ := loop_idle_eq (c := c) (hz := hz) (fuel := n) ch hd' hn
      rw [e1, e2]; simp
    | some t =>
      by_cases hh : t > hz
      · obtain ⟨e1, e2⟩ := loop_hz_eq (c := c) (fuel := n) ch hd' hn hh
        rw [e1, e2]; simp
      cases hp : pick (ready close s arr t) (ch.headD 0) with
      | none =>
        obtain ⟨e1, e2⟩ := loop_noready_eq (c := c) (fuel := n) ch hd' hn hh (pick_none hp)
        rw [e1, e2]; simp
      | some k =>
        have hk := pick_mem hp
        have hr : ready close s arr t ≠ [] := by intro h; rw [h] at hk; simp at hk
        rw [loop_fire_eq hd' hn hh hp, loopAll_fire_eq hd' hn hh hr, List.mem_flatMap]
        refine ⟨k, hk, ?_⟩
        cases hf : fire c s arr t k with
        | mk s1 o =>
          cases o with
          | none => simp
          | some arr' => exact ih s1 arr' ch.tail

/-- Soundness of the acceptor: every accepted trace is the trace under some resolution of the ties. -/
theorem runAll_sound (c : Cfg) (arr : List (Nat × Nat)) (close : Option Nat) (hz : Nat) :
    ∀ tr ∈ runAll c arr close hz, ∃ ch, tr = runCh c arr close hz ch := by
  intro tr h
  rw [runAll, List.mem_map] at h
  obtain ⟨s', hs', rfl⟩ := h
  obtain ⟨ch, hch⟩ := loopAll_sound c close hz _ _ _ s' hs'
  exact ⟨ch, by rw [runCh, hch]⟩

/-- Completeness of the acceptor: the trace under any resolution of the ties is accepted. -/
theorem runCh_mem_runAll (c : Cfg) (arr : List (Nat × Nat)) (close : Option Nat) (hz : Nat) (ch : List Nat) :
    runCh c arr close hz ch ∈ runAll c arr close hz := by
  rw [runAll, List.mem_map]
  exact ⟨_, loop_mem_loopAll c close hz _ _ _ ch, rfl⟩

theorem mem_runAll_iff (c : Cfg) (arr : List (Nat × Nat)) (close : Option Nat) (hz : Nat)
    (tr : List (Nat × Ev)) :
    tr ∈ runAll c arr close hz ↔ ∃ ch, tr = runCh c arr close hz ch :=
  ⟨runAll_sound c arr close hz tr, fun ⟨ch, h⟩ => h ▸ runCh_mem_runAll c arr close hz ch⟩

end Mercure.Timed
