/-
  Mercure.Model.Basic — conventions shared by every model module.

  Go `string` (valid UTF-8)  ↦  `Str := List Char` (sequence of Unicode scalars).
  All models are total, computable, core-only (no Mathlib) so that the driver links.
-/
namespace Mercure

abbrev Str := List Char

/-- Lexicographic order on scalar values; equals Go's byte order on valid UTF-8. -/
def strLe : Str → Str → Bool
  | [], _ => true
  | _ :: _, [] => false
  | a :: as, b :: bs => if a.toNat < b.toNat then true else if b.toNat < a.toNat then false else strLe as bs

def insertStr (x : Str) : List Str → List Str
  | [] => [x]
  | y :: ys => if strLe x y then x :: y :: ys else y :: insertStr x ys

/-- `sort.Strings` (insertion sort: structural, so the kernel can evaluate it; stability is
    irrelevant because equal strings are indistinguishable). -/
def sortStrs (l : List Str) : List Str := l.foldr insertStr []

theorem mem_insertStr {x y : Str} {l : List Str} : y ∈ insertStr x l ↔ y = x ∨ y ∈ l := by
  induction l with
  | nil => simp [insertStr]
  | cons z zs ih =>
    unfold insertStr
    split
    · simp
    · simp [ih]; constructor
      · rintro (h | h | h) <;> simp [h]
      · rintro (h | h | h) <;> simp [h]

theorem mem_sortStrs {y : Str} {l : List Str} : y ∈ sortStrs l ↔ y ∈ l := by
  induction l with
  | nil => simp [sortStrs]
  | cons z zs ih =>
    have : sortStrs (z :: zs) = insertStr z (sortStrs zs) := rfl
    rw [this, mem_insertStr, ih]; simp

/-- The UTF-8 encoding of a string (kernel-reducible, unlike `String.toUTF8`). -/
def utf8Bytes (s : Str) : List UInt8 := s.flatMap String.utf8EncodeChar

/-- `strings.Contains(s, string(c))` -/
def containsChar (s : Str) (c : Char) : Bool := s.any (· == c)

/-- isPrefixOf on Str -/
def hasPrefix (p s : Str) : Bool := p.isPrefixOf s

def joinWith (sep : Str) : List Str → Str
  | [] => []
  | [x] => x
  | x :: xs => x ++ sep ++ joinWith sep xs

/-- remove duplicates keeping first occurrences -/
def dedup [DecidableEq α] : List α → List α
  | [] => []
  | x :: xs => x :: (dedup xs).filter (· ≠ x)

end Mercure
