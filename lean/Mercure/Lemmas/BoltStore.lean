import Mercure.Model.BoltStore
import Mercure.Lemmas.Json
/-
  Lemmas about Mercure.Model.BoltStore — the byte-level bucket refines the abstract history.
  (core Lean only: no Mathlib). The JSON round trip `RT` is `Lemmas/Json.parseUpdate_update` (`rt_holds` below).
-/
namespace Mercure.BoltStore
open Mercure

/-- the JSON round trip (Lemmas/Json.parseUpdate_update) -/
def RT : Prop := ∀ (d : Bool) (u : Update), u.retry < 2 ^ 64 → Json.parseUpdate (Json.update d u) = some (d, u)

/-- `RT` holds: it is `Lemmas/Json.parseUpdate_update`. -/
theorem rt_holds : RT := fun d u h => Json.parseUpdate_update d u h

theorem be64_length (n : Nat) : (be64 n).length = 8 := rfl

theorem toNat_ofNat_mod (x : Nat) : (UInt8.ofNat (x % 256)).toNat = x % 256 := by
  simp [UInt8.toNat_ofNat']

theorem be64Val_be64 (n : Nat) (h : n < 2 ^ 64) (rest : Bytes) : be64Val (be64 n ++ rest) = n := by
  simp only [be64Val, be64, List.cons_append, List.take, List.nil_append, List.foldl, toNat_ofNat_mod] at *
  omega

theorem keyIdBytes_mkKey (seq : Nat) (id : Str) : keyIdBytes (mkKey seq id) = utf8Bytes id := by
  simp [keyIdBytes, mkKey, be64]

/-- big-endian value of a byte list -/
def valr : Bytes → Nat
  | [] => 0
  | a :: as => a.toNat * 256 ^ as.length + valr as

theorem valr_lt : ∀ l : Bytes, valr l < 256 ^ l.length
  | [] => by simp [valr]
  | a :: as => by
    have ih := valr_lt as
    have ha : a.toNat < 256 := a.toNat_lt
    simp only [valr, List.length_cons, Nat.pow_succ]
    have : (a.toNat + 1) * 256 ^ as.length ≤ 256 * 256 ^ as.length :=
      Nat.mul_le_mul_right _ ha
    rw [Nat.add_mul] at this
    omega

theorem bytesLt_valr : ∀ (l1 l2 : Bytes) (x y : Bytes), l1.length = l2.length → valr l1 ≠ valr l2 →
    bytesLt (l1 ++ x) (l2 ++ y) = decide (valr l1 < valr l2)
  | [], [], _, _, _, h => absurd rfl h
  | [], _ :: _, _, _, hl, _ => by simp at hl
  | _ :: _, [], _, _, hl, _ => by simp at hl
  | a :: as, b :: bs, x, y, hl, h => by
    have hl' : as.length = bs.length := by simpa using hl
    have h1 := valr_lt as
    rw [hl'] at h1
    have h2 := valr_lt bs
    simp only [valr, hl'] at h
    simp only [List.cons_append, bytesLt, valr, hl']
    by_cases hab : a < b
    · simp only [hab, if_true]
      have : (a.toNat + 1) * 256 ^ bs.length ≤ b.toNat * 256 ^ bs.length :=
        Nat.mul_le_mul_right _ (UInt8.lt_iff_toNat_lt.mp hab)
      rw [Nat.add_mul] at this
      symm; apply decide_eq_true; omega
    · by_cases hba : b < a
      · simp only [hab, hba, if_true, if_false]
        have : (b.toNat + 1) * 256 ^ bs.length ≤ a.toNat * 256 ^ bs.length :=
          Nat.mul_le_mul_right _ (UInt8.lt_iff_toNat_lt.mp hba)
        rw [Nat.add_mul] at this
        symm; apply decide_eq_false; omega
      · simp only [hab, hba, if_false]
        have e : a.toNat = b.toNat := by
          have h3 : ¬ a.toNat < b.toNat := fun h => hab (UInt8.lt_iff_toNat_lt.mpr h)
          have h4 : ¬ b.toNat < a.toNat := fun h => hba (UInt8.lt_iff_toNat_lt.mpr h)
          omega
        rw [bytesLt_valr as bs x y hl' (by intro h'; apply h; rw [e, h'])]
        rw [e]
        simp

theorem valr_be64 (n : Nat) (h : n < 2 ^ 64) : valr (be64 n) = n := by
  simp only [valr, be64, toNat_ofNat_mod, List.length_cons, List.length_nil] at *
  omega

theorem bytesLt_key (a b : Nat) (ha : a < 2 ^ 64) (hb : b < 2 ^ 64) (x y : Bytes) (hab : a ≠ b) :
    bytesLt (be64 a ++ x) (be64 b ++ y) = decide (a < b) := by
  have := bytesLt_valr (be64 a) (be64 b) x y rfl (by rw [valr_be64 a ha, valr_be64 b hb]; exact hab)
  rw [valr_be64 a ha, valr_be64 b hb] at this
  exact this

theorem utf8Bytes_injective : Function.Injective utf8Bytes := by
  intro a b h
  have h' : a.utf8Encode = b.utf8Encode := by
    simp only [List.utf8Encode]; exact congrArg _ h
  have := congrArg ByteArray.utf8Decode? h'
  simpa using this


/-! ### the bucket as the image of the abstract history -/

/-- the entry the hub writes for `(seq, u)` -/
def enc (d : Bool) (e : Nat × Update) : Bytes × Str := (mkKey e.1 e.2.id, Json.update d e.2)

theorem wf_iff (d : Bool) (b : Bucket) (db : List (Nat × Update)) :
    WellFormed d b db ↔ (b = db.map (enc d) ∧ db.Pairwise (fun x y => x.1 < y.1) ∧ ∀ e ∈ db, e.1 < 2 ^ 64) :=
  Iff.rfl

theorem put_append (k : Bytes) (v : Str) : ∀ b : Bucket,
    (∀ e ∈ b, bytesLt k e.1 = false ∧ bytesLt e.1 k = true) → put k v b = b ++ [(k, v)]
  | [], _ => rfl
  | e :: es, h => by
    have he := h e (List.mem_cons_self ..)
    have ih := put_append k v es (fun x hx => h x (List.mem_cons_of_mem _ hx))
    simp [put, he.1, he.2, ih]

/-- a publication appends: the new key sorts after every stored key -/
theorem put_wellFormed (d : Bool) (b : Bucket) (db : List (Nat × Update)) (seq : Nat) (u : Update)
    (wf : WellFormed d b db) (hnew : ∀ e ∈ db, e.1 < seq) (hseq : seq < 2 ^ 64) :
    WellFormed d (put (mkKey seq u.id) (Json.update d u) b) (db ++ [(seq, u)]) := by
  obtain ⟨hb, hp, hlt⟩ := (wf_iff d b db).mp wf
  rw [wf_iff]
  refine ⟨?_, ?_, ?_⟩
  · rw [put_append]
    · simp [hb, enc]
    · intro e he
      rw [hb] at he
      obtain ⟨x, hx, rfl⟩ := List.mem_map.mp he
      have h1 := hnew x hx
      have h2 := hlt x hx
      simp only [enc, mkKey]
      rw [bytesLt_key seq x.1 hseq h2 _ _ (by omega), bytesLt_key x.1 seq h2 hseq _ _ (by omega)]
      simp only [decide_eq_false_iff_not, decide_eq_true_eq]
      omega
  · rw [List.pairwise_append]
    refine ⟨hp, by simp, ?_⟩
    intro a ha c hc
    simp only [List.mem_singleton] at hc
    subst hc
    exact hnew a ha
  · intro e he
    rcases List.mem_append.mp he with h | h
    · exact hlt e h
    · simp only [List.mem_singleton] at h
      subst h; exact hseq

theorem absEntry_enc (rt : RT) (d : Bool) (e : Nat × Update) (h1 : e.1 < 2 ^ 64) (h2 : e.2.retry < 2 ^ 64) :
    absEntry (enc d e) = some e := by
  simp only [absEntry, enc, rt d e.2 h2, mkKey, be64Val_be64 e.1 h1, Option.map_some]

/-- reading the bucket the way the code does yields the abstract history -/
theorem abs_wellFormed (rt : RT) (d : Bool) (b : Bucket) (db : List (Nat × Update))
    (wf : WellFormed d b db) (hr : ∀ e ∈ db, e.2.retry < 2 ^ 64) : abs b = some db := by
  obtain ⟨hb, -, hlt⟩ := (wf_iff d b db).mp wf
  subst hb
  clear wf
  induction db with
  | nil => rfl
  | cons e es ih =>
    have ih' := ih (fun x hx => hr x (List.mem_cons_of_mem _ hx))
      (fun x hx => hlt x (List.mem_cons_of_mem _ hx))
    simp only [List.map_cons, abs, ih',
      absEntry_enc rt d e (hlt e (List.mem_cons_self ..)) (hr e (List.mem_cons_self ..))]

theorem deleteWhileLe_enc (d : Bool) (r : Nat) : ∀ db : List (Nat × Update),
    db.Pairwise (fun x y => x.1 < y.1) → (∀ e ∈ db, e.1 < 2 ^ 64) →
    deleteWhileLe r (db.map (enc d)) = (db.filter (fun e => e.1 > r)).map (enc d)
  | [], _, _ => rfl
  | e :: es, hp, hlt => by
    have hp' := List.pairwise_cons.mp hp
    have hv : be64Val (enc d e).1 = e.1 := by
      simp only [enc, mkKey]; exact be64Val_be64 e.1 (hlt e (List.mem_cons_self ..)) _
    simp only [List.map_cons, deleteWhileLe, hv]
    by_cases h : e.1 ≤ r
    · have hn : ¬ (e.1 > r) := by omega
      simp only [h, if_true, List.filter_cons, hn, decide_false]
      exact deleteWhileLe_enc d r es hp'.2 (fun x hx => hlt x (List.mem_cons_of_mem _ hx))
    · have hn : e.1 > r := by omega
      have hall : es.filter (fun e => decide (e.1 > r)) = es := by
        rw [List.filter_eq_self]
        intro a ha
        have := hp'.1 a ha
        simp only [decide_eq_true_eq]; omega
      simp [h, hn, hall]

/-- `cleanup` on bytes is `retain` on the abstract history -/
theorem cleanup_wellFormed (d : Bool) (b : Bucket) (db : List (Nat × Update)) (size last : Nat) (coin : Bool)
    (wf : WellFormed d b db) :
    WellFormed d (cleanup size coin last b) (if coin then retain size last db else db) := by
  obtain ⟨hb, hp, hlt⟩ := (wf_iff d b db).mp wf
  cases coin with
  | false => simpa [cleanup] using wf
  | true =>
    simp only [cleanup, retain, Bool.not_true, Bool.or_false, if_true]
    by_cases hc : (size == 0 || decide (size ≥ last)) = true
    · simp only [hc, if_true]; exact wf
    · simp only [hc]
      rw [wf_iff]
      refine ⟨?_, hp.filter _, ?_⟩
      · rw [hb]; exact deleteWhileLe_enc d _ db hp hlt
      · intro e he
        exact hlt e (List.mem_filter.mp he).1

theorem mem_retain {size last : Nat} {db : List (Nat × Update)} {e : Nat × Update}
    (h : e ∈ retain size last db) : e ∈ db := by
  unfold retain at h
  split at h
  · exact h
  · exact (List.mem_filter.mp h).1

/-- one publication at byte level is one `rPublish` -/
theorem persist_refines (d : Bool) (size : Nat) (st : St) (r : RSt) (cu : Bool × Update)
    (wf : WellFormed d st.bucket r.db) (hs : st.seq = r.seq) (hb : ∀ e ∈ r.db, e.1 ≤ r.seq)
    (hseq : r.seq + 1 < 2 ^ 64) :
    WellFormed d (persist size d st cu).bucket (rPublish size r cu).db ∧
    (persist size d st cu).seq = (rPublish size r cu).seq ∧
    (∀ e ∈ (rPublish size r cu).db, e.1 ≤ (rPublish size r cu).seq) := by
  have hput := put_wellFormed d st.bucket r.db (r.seq + 1) cu.2 wf
    (fun e he => Nat.lt_succ_of_le (hb e he)) hseq
  have hcl := cleanup_wellFormed d _ _ size (r.seq + 1) cu.1 hput
  refine ⟨?_, ?_, ?_⟩
  · simpa only [persist, rPublish, hs] using hcl
  · simp only [persist, rPublish, hs]
  · simp only [rPublish]
    intro e he
    have hmem : e ∈ r.db ++ [(r.seq + 1, cu.2)] := by
      split at he
      · exact mem_retain he
      · exact he
    rcases List.mem_append.mp hmem with h | h
    · exact Nat.le_succ_of_le (hb e h)
    · simp only [List.mem_singleton] at h
      subst h; exact Nat.le_refl _

theorem foldl_refines (d : Bool) (size : Nat) : ∀ (ps : List (Bool × Update)) (st : St) (r : RSt),
    WellFormed d st.bucket r.db → st.seq = r.seq → (∀ e ∈ r.db, e.1 ≤ r.seq) →
    r.seq + ps.length < 2 ^ 64 →
    WellFormed d (ps.foldl (persist size d) st).bucket (ps.foldl (rPublish size) r).db ∧
    (ps.foldl (persist size d) st).seq = (ps.foldl (rPublish size) r).seq
  | [], _, _, wf, hs, _, _ => ⟨wf, hs⟩
  | cu :: ps, st, r, wf, hs, hb, hlen => by
    simp only [List.length_cons] at hlen
    obtain ⟨h1, h2, h3⟩ := persist_refines d size st r cu wf hs hb (by omega)
    simp only [List.foldl_cons]
    apply foldl_refines d size ps _ _ h1 h2 h3
    have : (rPublish size r cu).seq = r.seq + 1 := rfl
    omega

/-- any publication history (fewer than 2^64 publications): the bytes in the bucket are those of the
    abstract retained history -/
theorem run_refines (d : Bool) (size : Nat) (ps : List (Bool × Update)) (hlen : ps.length < 2 ^ 64) :
    WellFormed d (ps.foldl (persist size d) {}).bucket (rRun size ps).db ∧
    (ps.foldl (persist size d) {}).seq = (rRun size ps).seq := by
  apply foldl_refines d size ps {} {}
  · exact ⟨rfl, List.Pairwise.nil, by intro e he; cases he⟩
  · rfl
  · intro e he; cases he
  · show 0 + ps.length < 2 ^ 64
    omega

def respMatches (r : Option Bytes) (rid : Str) : Prop :=
  match r with
  | none => rid = earliest
  | some bs => bs = utf8Bytes rid

def reqBytes (req : Str) : Option Bytes := if req == earliest then none else some (utf8Bytes req)

theorem decodeAll_enc (rt : RT) (d : Bool) : ∀ db : List (Nat × Update), (∀ e ∈ db, e.2.retry < 2 ^ 64) →
    decodeAll ((db.map (enc d)).map (·.2)) = some (db.map (·.2))
  | [], _ => rfl
  | e :: es, hr => by
    have ih := decodeAll_enc rt d es (fun x hx => hr x (List.mem_cons_of_mem _ hx))
    simp only [List.map_cons, decodeAll, enc, rt d e.2 (hr e (List.mem_cons_self ..))]
    rw [ih]

theorem be64Val_enc (d : Bool) (e : Nat × Update) (h : e.1 < 2 ^ 64) : be64Val (enc d e).1 = e.1 := by
  simp only [enc, mkKey]; exact be64Val_be64 e.1 h _

/-- the skipping phase: same response id, and the entries left are the image of a suffix of `db`
    whose updates are what `negotiate` replays -/
theorem skip_go (d : Bool) (req : Str) : ∀ (db : List (Nat × Update)) (last : Option Bytes) (last' : Str),
    respMatches last last' →
    ∃ rest, rest <:+ db ∧
      (scan.skip (some (utf8Bytes req)) (db.map (enc d)) last).2 = rest.map (enc d) ∧
      (negotiate.go req db last').2 = rest.map (·.2) ∧
      respMatches (scan.skip (some (utf8Bytes req)) (db.map (enc d)) last).1 (negotiate.go req db last').1
  | [], last, last', h => ⟨[], List.suffix_refl _, rfl, rfl, h⟩
  | e :: es, last, last', _ => by
    simp only [List.map_cons, scan.skip, negotiate.go]
    have hk : keyIdBytes (enc d e).1 = utf8Bytes e.2.id := keyIdBytes_mkKey _ _
    rw [hk]
    by_cases h : e.2.id = req
    · have h1 : (some (utf8Bytes e.2.id) == some (utf8Bytes req)) = true := by simp [h]
      have h2 : (e.2.id == req) = true := by simp [h]
      simp only [h1, h2, if_true]
      exact ⟨es, List.suffix_cons _ _, rfl, rfl, by simp [respMatches, h]⟩
    · have h1 : (some (utf8Bytes e.2.id) == some (utf8Bytes req)) = false := by
        have : utf8Bytes e.2.id ≠ utf8Bytes req := fun hh => h (utf8Bytes_injective hh)
        simp [this]
      have h2 : (e.2.id == req) = false := by simp [h]
      simp only [h1, h2, if_false, Bool.false_eq_true]
      obtain ⟨rest, hs, hh⟩ := skip_go d req es (some (utf8Bytes e.2.id)) e.2.id rfl
      exact ⟨rest, List.IsSuffix.trans hs (List.suffix_cons _ _), hh⟩

/-- both phases before the cut -/
theorem scan_todo (d : Bool) (b : Bucket) (db : List (Nat × Update)) (req : Str) (toSeq : Nat)
    (hb : b = db.map (enc d)) :
    ∃ rest, rest <:+ db ∧
      (scan (reqBytes req) toSeq b).2 =
        ((rest.map (enc d)).takeWhile (fun e => be64Val e.1 ≤ toSeq)).map (·.2) ∧
      (negotiate db req).2 = rest.map (·.2) ∧
      respMatches (scan (reqBytes req) toSeq b).1 (negotiate db req).1 := by
  subst hb
  by_cases h : req = earliest
  · subst h
    refine ⟨db, List.suffix_refl _, ?_, ?_, ?_⟩ <;> simp [scan, reqBytes, negotiate, respMatches]
  · have h' : (req == earliest) = false := by simp [h]
    obtain ⟨rest, hs, h1, h2, h3⟩ := skip_go d req db none earliest rfl
    refine ⟨rest, hs, ?_, ?_, ?_⟩
    · simp only [scan, reqBytes, h', Bool.false_eq_true, if_false]
      rw [← h1]
    · simp only [negotiate, h', Bool.false_eq_true, if_false]; exact h2
    · simp only [scan, reqBytes, negotiate, h', Bool.false_eq_true, if_false]; exact h3

theorem takeWhile_eq_self {α} (p : α → Bool) : ∀ l : List α, (∀ a ∈ l, p a = true) → l.takeWhile p = l
  | [], _ => rfl
  | a :: as, h => by
    simp [h a (List.mem_cons_self ..),
      takeWhile_eq_self p as (fun x hx => h x (List.mem_cons_of_mem _ hx))]

theorem takeWhile_enc (d : Bool) (toSeq : Nat) : ∀ rest : List (Nat × Update), (∀ e ∈ rest, e.1 < 2 ^ 64) →
    (rest.map (enc d)).takeWhile (fun e => be64Val e.1 ≤ toSeq) =
      (rest.takeWhile (fun e => e.1 ≤ toSeq)).map (enc d)
  | [], _ => rfl
  | e :: es, h => by
    have ih := takeWhile_enc d toSeq es (fun x hx => h x (List.mem_cons_of_mem _ hx))
    simp only [List.map_cons, List.takeWhile_cons, be64Val_enc d e (h e (List.mem_cons_self ..)), ih]
    split <;> simp

/-- **The history scan on bytes is `negotiate` on the abstract history** (sequential case: nothing
    stored after `toSeq`): same response id, and the values decode to exactly the updates to replay. -/
theorem scan_refines (rt : RT) (d : Bool) (b : Bucket) (db : List (Nat × Update)) (req : Str) (toSeq : Nat)
    (wf : WellFormed d b db) (hr : ∀ e ∈ db, e.2.retry < 2 ^ 64) (hto : ∀ e ∈ db, e.1 ≤ toSeq) :
    respMatches (scan (reqBytes req) toSeq b).1 (negotiate db req).1 ∧
    decodeAll (scan (reqBytes req) toSeq b).2 = some (negotiate db req).2 := by
  obtain ⟨hb, _, hlt⟩ := (wf_iff d b db).mp wf
  obtain ⟨rest, hs, h1, h2, h3⟩ := scan_todo d b db req toSeq hb
  refine ⟨h3, ?_⟩
  have hsub : ∀ e ∈ rest, e ∈ db := fun e he => hs.subset he
  rw [h1, h2, takeWhile_enc d toSeq rest (fun e he => hlt e (hsub e he))]
  have hall : rest.takeWhile (fun e => decide (e.1 ≤ toSeq)) = rest := by
    exact takeWhile_eq_self _ rest (fun e he => by simpa using hto e (hsub e he))
  rw [hall]
  exact decodeAll_enc rt d rest (fun e he => hr e (hsub e he))

theorem length_takeWhile_le_filter {α} (p : α → Bool) : ∀ l : List α,
    (l.takeWhile p).length ≤ (l.filter p).length
  | [] => Nat.le_refl _
  | a :: as => by
    have := length_takeWhile_le_filter p as
    simp only [List.takeWhile_cons, List.filter_cons]
    split <;> simp <;> omega

/-- with a cut: entries stored after `toSeq` are not replayed (they are dispatched live) -/
theorem scan_cut (rt : RT) (d : Bool) (b : Bucket) (db : List (Nat × Update)) (req : Str) (toSeq : Nat)
    (wf : WellFormed d b db) (hr : ∀ e ∈ db, e.2.retry < 2 ^ 64) :
    ∃ us, decodeAll (scan (reqBytes req) toSeq b).2 = some us ∧
      us.Sublist (negotiate db req).2 ∧ us.length ≤ (db.filter (fun e => e.1 ≤ toSeq)).length := by
  obtain ⟨hb, _, hlt⟩ := (wf_iff d b db).mp wf
  obtain ⟨rest, hs, h1, h2, _⟩ := scan_todo d b db req toSeq hb
  have hsub : ∀ e ∈ rest, e ∈ db := fun e he => hs.subset he
  refine ⟨(rest.takeWhile (fun e => e.1 ≤ toSeq)).map (·.2), ?_, ?_, ?_⟩
  · rw [h1, takeWhile_enc d toSeq rest (fun e he => hlt e (hsub e he))]
    exact decodeAll_enc rt d _ (fun e he => hr e (hsub e ((List.takeWhile_sublist _).subset he)))
  · rw [h2]
    exact (List.takeWhile_sublist _).map _
  · rw [List.length_map]
    exact Nat.le_trans (length_takeWhile_le_filter _ rest) (hs.sublist.filter _).length_le

/-- `getDBLastEventID` after a restart: the id of the last stored update -/
theorem lastEventId_refines (d : Bool) (st : St) (db : List (Nat × Update)) (wf : WellFormed d st.bucket db) :
    lastEventIdBytes st = db.getLast?.map (fun e => utf8Bytes e.2.id) := by
  obtain ⟨hb, _, _⟩ := (wf_iff d st.bucket db).mp wf
  simp only [lastEventIdBytes, hb, List.getLast?_map, Option.map_map]
  rfl

end Mercure.BoltStore
