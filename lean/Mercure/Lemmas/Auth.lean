import Mercure.Model.Subscribe
/-
  Mercure.Lemmas.Auth — helper lemmas about `validateTok`, `authorize`, `canDispatch`.
-/
namespace Mercure

theorem validateTok_ok_some {tok : Str → Option Claims} {s : Str} {c : Claims} :
    validateTok tok s = .ok (some c) ↔ tok s = some c := by
  unfold validateTok
  cases h : tok s <;> simp

theorem validateTok_ne_ok_none (tok : Str → Option Claims) (s : Str) :
    validateTok tok s ≠ .ok none := by
  unfold validateTok
  cases h : tok s <;> simp

theorem validateTok_of_none {tok : Str → Option Claims} {s : Str} (h : tok s = none) :
    validateTok tok s = .error .invalidJWT := by
  unfold validateTok; simp [h]

theorem validateTok_of_some {tok : Str → Option Claims} {s : Str} {c : Claims} (h : tok s = some c) :
    validateTok tok s = .ok (some c) := by
  unfold validateTok; simp [h]

/-- Whatever `authorize` grants was validated by `tok`. -/
theorem authorize_ok_some {minH minQ : Nat} {tok : Str → Option Claims} {r : AuthReq} {po : List Str}
    {c : Claims} (h : authorize minH minQ tok r po = .ok (some c)) : ∃ s, tok s = some c := by
  rcases r with ⟨ah, qa, ck, ip, o, rf, ro⟩
  unfold authorize at h
  rcases ah with _ | (_ | ⟨hd, _ | ⟨hd', hs⟩⟩) <;> simp at h
  · rcases qa with _ | (_ | ⟨q, _ | ⟨q', qs⟩⟩) <;> simp at h
    · rcases ck with _ | ck <;> simp at h
      cases ip <;> simp at h
      · exact ⟨_, validateTok_ok_some.mp h⟩
      · repeat' split at h
        all_goals first | exact ⟨_, validateTok_ok_some.mp h⟩ | simp_all
    · split at h
      · simp at h
      · exact ⟨_, validateTok_ok_some.mp h⟩
  · split at h
    · simp at h
    · exact ⟨_, validateTok_ok_some.mp h⟩

/-! ### canDispatch -/

/-- The three outcomes of the scan of one topic. -/
theorem canDispatchTopic_spec (M : Str → Str → Bool) (t : Str) (sels : List Str) :
    (canDispatchTopic M t sels = some true → ['*'] ∈ sels) ∧
    (canDispatchTopic M t sels = none → sels.any (fun x => x == ['*'] || M t x) = true) ∧
    (canDispatchTopic M t sels = some false → sels.any (fun x => x == ['*'] || M t x) = false) := by
  induction sels with
  | nil => simp [canDispatchTopic]
  | cons x xs ih =>
    unfold canDispatchTopic
    by_cases hx : x = ['*']
    · subst hx; simp
    · have hx' : (x == ['*']) = false := by simpa using hx
      simp only [hx', Bool.false_eq_true, if_false, List.any_cons, Bool.false_or]
      cases hm : M t x
      · simp only [Bool.false_eq_true, if_false, Bool.false_or]
        refine ⟨fun h => List.mem_cons_of_mem _ (ih.1 h), ih.2.1, ih.2.2⟩
      · simp

theorem any_star_of_mem {M : Str → Str → Bool} {sels : List Str} (h : ['*'] ∈ sels) (t : Str) :
    sels.any (fun x => x == ['*'] || M t x) = true := by
  rw [List.any_eq_true]; exact ⟨['*'], h, by simp⟩

theorem canDispatch_eq_all_any (M : Str → Str → Bool) (ts sels : List Str) :
    canDispatch M ts sels = ts.all (fun t => sels.any (fun x => x == ['*'] || M t x)) := by
  induction ts with
  | nil => simp [canDispatch]
  | cons t ts ih =>
    unfold canDispatch
    obtain ⟨h1, h2, h3⟩ := canDispatchTopic_spec M t sels
    cases h : canDispatchTopic M t sels with
    | none => simp only [List.all_cons, h2 h, Bool.true_and]; exact ih
    | some b =>
      cases b with
      | true =>
        have hs := h1 h
        symm; rw [List.all_eq_true]; intro t' _; exact any_star_of_mem hs t'
      | false => simp only [List.all_cons, h3 h, Bool.false_and]

theorem canDispatch_eq_true_iff (M : Str → Str → Bool) (ts sels : List Str) :
    canDispatch M ts sels = true ↔ ∀ t ∈ ts, ∃ p ∈ sels, p = ['*'] ∨ M t p = true := by
  rw [canDispatch_eq_all_any]; simp

end Mercure
