// instrument — rewrites (go/ast) the files of /repo that contain the hub's synchronisation
// (bolt.go, local.go, localsubscriber.go) into an overlay directory: before every lock
// acquisition, atomic access, channel operation / select, close(ch), Once.Do, bbolt transaction
// and SubscriberList call it inserts verifsched.Yield("<object>.<op>"); Lock/RLock become
// cooperative TryLock loops. Labels are object+operation, not line numbers, so a harmless re-layout
// keeps them. Nothing is written into /repo.
package main

import (
	"bytes"
	"fmt"
	"go/ast"
	"go/format"
	"go/parser"
	"go/token"
	"os"
	"path/filepath"
	"strings"
)

var fset = token.NewFileSet()

func exprStr(e ast.Expr) string {
	var b bytes.Buffer
	format.Node(&b, fset, e)

	return b.String()
}

// syncOps returns the labels of the synchronisation operations evaluated by expression e itself
// (function literals are not entered: their bodies are instrumented as statement lists).
func syncOps(e ast.Node) (labels []string) {
	if e == nil {
		return nil
	}
	ast.Inspect(e, func(n ast.Node) bool {
		switch v := n.(type) {
		case *ast.FuncLit:
			return false
		case *ast.UnaryExpr:
			if v.Op == token.ARROW {
				labels = append(labels, "<-"+exprStr(v.X))
			}
		case *ast.CallExpr:
			if id, ok := v.Fun.(*ast.Ident); ok && id.Name == "close" && len(v.Args) == 1 {
				labels = append(labels, "close("+exprStr(v.Args[0])+")")
			}
			if sel, ok := v.Fun.(*ast.SelectorExpr); ok {
				recv := exprStr(sel.X)
				switch {
				case recv == "atomic" && strings.HasPrefix(sel.Sel.Name, "Load") && len(v.Args) == 1:
					labels = append(labels, "load("+strings.TrimPrefix(exprStr(v.Args[0]), "&")+")")
				case recv == "atomic" && strings.HasPrefix(sel.Sel.Name, "Store") && len(v.Args) == 2:
					labels = append(labels, "store("+strings.TrimPrefix(exprStr(v.Args[0]), "&")+")")
				case recv == "atomic" && (strings.HasPrefix(sel.Sel.Name, "CompareAndSwap") || strings.HasPrefix(sel.Sel.Name, "Swap") || strings.HasPrefix(sel.Sel.Name, "Add")) && len(v.Args) >= 2:
					// read-modify-write operations are synchronisation points too: without a yield before them the
					// cooperative scheduler would run them when the thread is spawned, before anything can be interleaved
					labels = append(labels, "rmw("+strings.TrimPrefix(exprStr(v.Args[0]), "&")+")")
				case strings.HasSuffix(recv, ".subscribers") && (sel.Sel.Name == "Add" || sel.Sel.Name == "Remove" || sel.Sel.Name == "MatchAny" || sel.Sel.Name == "Walk"):
					labels = append(labels, "sl."+sel.Sel.Name)
				case recv == "sl" && sel.Sel.Name == "Walk":
					labels = append(labels, "sl.Walk")
				case strings.HasSuffix(recv, ".db") && (sel.Sel.Name == "Update" || sel.Sel.Name == "View"):
					labels = append(labels, "db."+sel.Sel.Name)
				}
			}
		}

		return true
	})

	return labels
}

func yieldStmt(label string) ast.Stmt {
	return &ast.ExprStmt{X: &ast.CallExpr{
		Fun:  &ast.SelectorExpr{X: ast.NewIdent("verifsched"), Sel: ast.NewIdent("Yield")},
		Args: []ast.Expr{&ast.BasicLit{Kind: token.STRING, Value: fmt.Sprintf("%q", label)}},
	}}
}

func call(fn string, args ...ast.Expr) ast.Stmt {
	return &ast.ExprStmt{X: &ast.CallExpr{Fun: &ast.SelectorExpr{X: ast.NewIdent("verifsched"), Sel: ast.NewIdent(fn)}, Args: args}}
}

func lit(s string) ast.Expr { return &ast.BasicLit{Kind: token.STRING, Value: fmt.Sprintf("%q", s)} }

// lockCall recognises X.Lock() / X.RLock() as a statement.
func lockCall(s ast.Stmt) (recv ast.Expr, kind string, ok bool) {
	es, isE := s.(*ast.ExprStmt)
	if !isE {
		return nil, "", false
	}
	c, isC := es.X.(*ast.CallExpr)
	if !isC || len(c.Args) != 0 {
		return nil, "", false
	}
	sel, isS := c.Fun.(*ast.SelectorExpr)
	if !isS || (sel.Sel.Name != "Lock" && sel.Sel.Name != "RLock") {
		return nil, "", false
	}

	return sel.X, sel.Sel.Name, true
}

// unlockCall recognises X.Unlock() / X.RUnlock().
func unlockCall(e ast.Expr) (recv ast.Expr, kind string, ok bool) {
	c, isC := e.(*ast.CallExpr)
	if !isC || len(c.Args) != 0 {
		return nil, "", false
	}
	sel, isS := c.Fun.(*ast.SelectorExpr)
	if !isS || (sel.Sel.Name != "Unlock" && sel.Sel.Name != "RUnlock") {
		return nil, "", false
	}

	return sel.X, sel.Sel.Name, true
}

func addr(e ast.Expr) ast.Expr {
	// a bare identifier is already a pointer receiver (t, s); a field needs &
	if _, ok := e.(*ast.Ident); ok {
		return e
	}

	return &ast.UnaryExpr{Op: token.AND, X: e}
}

func selectLabel(s *ast.SelectStmt) string {
	var parts []string
	for _, cc := range s.Body.List {
		c := cc.(*ast.CommClause)
		if c.Comm == nil {
			parts = append(parts, "default")

			continue
		}
		switch v := c.Comm.(type) {
		case *ast.SendStmt:
			parts = append(parts, exprStr(v.Chan)+"<-")
		case *ast.ExprStmt:
			parts = append(parts, exprStr(v.X))
		case *ast.AssignStmt:
			parts = append(parts, exprStr(v.Rhs[0]))
		}
	}

	return "select{" + strings.Join(parts, "|") + "}"
}

func instrList(list []ast.Stmt) []ast.Stmt {
	var out []ast.Stmt
	for _, s := range list {
		if recv, kind, ok := lockCall(s); ok {
			out = append(out, call(kind, addr(recv), lit(exprStr(recv)+"."+kind)))

			continue
		}
		// X.Unlock() / X.RUnlock() -> verifsched.Unlock(X) / RUnlock(X): not scheduling points, but the lock state
		// is tracked so that releasing a lock that is not held is a recoverable panic of the schedule (the
		// runtime's "Unlock of unlocked RWMutex" is a fatal error that would kill the harness)
		if es, ok := s.(*ast.ExprStmt); ok {
			if recv, kind, ok := unlockCall(es.X); ok {
				out = append(out, call(kind, addr(recv)))

				continue
			}
		}
		if ds, ok := s.(*ast.DeferStmt); ok {
			if recv, kind, ok := unlockCall(ds.Call); ok {
				ds.Call = &ast.CallExpr{Fun: &ast.SelectorExpr{X: ast.NewIdent("verifsched"), Sel: ast.NewIdent(kind)}, Args: []ast.Expr{addr(recv)}}
				out = append(out, ds)

				continue
			}
		}
		var header []ast.Node
		switch v := s.(type) {
		case *ast.IfStmt:
			header = []ast.Node{v.Init, v.Cond}
			v.Body.List = instrList(v.Body.List)
			if eb, ok := v.Else.(*ast.BlockStmt); ok {
				eb.List = instrList(eb.List)
			} else if ei, ok := v.Else.(*ast.IfStmt); ok {
				tmp := instrList([]ast.Stmt{ei})
				v.Else = &ast.BlockStmt{List: tmp}
			}
		case *ast.ForStmt:
			header = []ast.Node{v.Init, v.Cond}
			v.Body.List = instrList(v.Body.List)
		case *ast.RangeStmt:
			header = []ast.Node{v.X}
			v.Body.List = instrList(v.Body.List)
		case *ast.BlockStmt:
			v.List = instrList(v.List)
		case *ast.SwitchStmt:
			header = []ast.Node{v.Init, v.Tag}
			for _, cc := range v.Body.List {
				c := cc.(*ast.CaseClause)
				c.Body = instrList(c.Body)
			}
		case *ast.SelectStmt:
			out = append(out, yieldStmt(selectLabel(v)))
			for _, cc := range v.Body.List {
				c := cc.(*ast.CommClause)
				c.Body = instrList(c.Body)
			}
			out = append(out, s)

			continue
		case *ast.SendStmt:
			// ch <- v  ->  cooperative send (a send that can never proceed parks the thread as blocked)
			out = append(out, sendStmt(v))

			continue
		case *ast.DeferStmt:
			// deferred unlocks are not scheduling points; a deferred closure body is instrumented
			instrFuncLits(v.Call)
			out = append(out, s)

			continue
		case *ast.ExprStmt:
			// X.closedOnce.Do(f)  ->  verifsched.OnceDo(&X.closedOnce, "once.Do", f)
			if c, ok := v.X.(*ast.CallExpr); ok {
				if sel, ok := c.Fun.(*ast.SelectorExpr); ok && sel.Sel.Name == "Do" && strings.HasSuffix(exprStr(sel.X), "Once") && len(c.Args) == 1 {
					instrFuncLits(c.Args[0])
					out = append(out, call("OnceDo", addr(sel.X), lit("once.Do"), c.Args[0]))

					continue
				}
			}
			// db.Close(): parked while a read transaction is open
			if c, ok := v.X.(*ast.CallExpr); ok {
				if sel, ok := c.Fun.(*ast.SelectorExpr); ok && sel.Sel.Name == "Close" && strings.HasSuffix(exprStr(sel.X), ".db") {
					out = append(out, call("CloseWait", lit("db.Close")), s)

					continue
				}
			}
			header = []ast.Node{v.X}
		case *ast.AssignStmt:
			isDBClose := false
			for _, r := range v.Rhs {
				if c, ok := r.(*ast.CallExpr); ok {
					if sel, ok := c.Fun.(*ast.SelectorExpr); ok && sel.Sel.Name == "Close" && strings.HasSuffix(exprStr(sel.X), ".db") {
						isDBClose = true
					}
				}
				header = append(header, r)
			}
			if isDBClose {
				out = append(out, call("CloseWait", lit("db.Close")))
			}
		case *ast.ReturnStmt:
			for _, r := range v.Results {
				header = append(header, r)
			}
		}
		for _, hn := range header {
			if hn == nil || isNilNode(hn) {
				continue
			}
			if _, isAssign := s.(*ast.AssignStmt); !isAssign && containsDBClose(hn) {
				// db.Close() in the header of an if / switch / return: parked while a read transaction is open
				out = append(out, call("CloseWait", lit("db.Close")))
			}
			for _, l := range killOps(hn) {
				out = append(out, call("KillPoint", lit(l)))
			}
			for _, l := range syncOps(hn) {
				out = append(out, yieldStmt(l))
			}
			instrFuncLits(hn)
		}
		out = append(out, s)
	}

	return out
}

// killOps: the bbolt calls made inside a write transaction (and the call of cleanup): kill points of the
// crash family, not scheduling points.
func killOps(e ast.Node) (labels []string) {
	ast.Inspect(e, func(n ast.Node) bool {
		if _, ok := n.(*ast.FuncLit); ok {
			return false
		}
		if c, ok := n.(*ast.CallExpr); ok {
			if sel, ok := c.Fun.(*ast.SelectorExpr); ok {
				switch sel.Sel.Name {
				case "NextSequence", "SetSequence", "Put", "Delete", "CreateBucketIfNotExists":
					if r := exprStr(sel.X); r == "bucket" || r == "tx" || r == "b" {
						labels = append(labels, "tx:"+sel.Sel.Name)
					}
				case "cleanup":
					labels = append(labels, "tx:cleanup")
				}
			}
		}

		return true
	})

	return labels
}

// sendStmt builds { verifV := v; verifsched.Send("ch<-", func() bool { select { case ch <- verifV: return true; default: return false } }, func() { ch <- verifV }) }
func sendStmt(v *ast.SendStmt) ast.Stmt {
	ch, val := exprStr(v.Chan), exprStr(v.Value)
	src := fmt.Sprintf("package p\nfunc _() {\n{\nverifV := %s\nverifsched.Send(%q, func() bool {\nselect {\ncase %s <- verifV:\nreturn true\ndefault:\nreturn false\n}\n}, func() { %s <- verifV })\n}\n}\n", val, ch+"<-", ch, ch)
	f, err := parser.ParseFile(token.NewFileSet(), "", src, 0)
	if err != nil {
		fmt.Fprintln(os.Stderr, "instrument: send:", err)
		os.Exit(3)
	}
	blk := f.Decls[0].(*ast.FuncDecl).Body.List[0]
	// drop the positions of the snippet (they belong to another file set)
	ast.Inspect(blk, func(n ast.Node) bool { return true })

	return stripPos(blk).(ast.Stmt)
}

// stripPos re-parses nothing: it prints the node and parses it again inside the main file set, so that
// positions are consistent when the file is printed.
func stripPos(n ast.Node) ast.Node {
	var b bytes.Buffer
	format.Node(&b, token.NewFileSet(), n)
	f, err := parser.ParseFile(fset, "", "package p\nfunc _() {\n"+b.String()+"\n}\n", 0)
	if err != nil {
		fmt.Fprintln(os.Stderr, "instrument: reparse:", err)
		os.Exit(3)
	}

	return f.Decls[0].(*ast.FuncDecl).Body.List[0]
}

func containsDBClose(n ast.Node) bool {
	found := false
	ast.Inspect(n, func(x ast.Node) bool {
		if _, ok := x.(*ast.FuncLit); ok {
			return false
		}
		if c, ok := x.(*ast.CallExpr); ok {
			if sel, ok := c.Fun.(*ast.SelectorExpr); ok && sel.Sel.Name == "Close" && strings.HasSuffix(exprStr(sel.X), ".db") {
				found = true
			}
		}

		return true
	})

	return found
}

func isNilNode(n ast.Node) bool {
	switch v := n.(type) {
	case ast.Expr:
		return v == nil
	case ast.Stmt:
		return v == nil
	}

	return false
}

// instrFuncLits instruments the bodies of function literals inside n; the callback of db.View is
// bracketed with ViewEnter/ViewExit.
func instrFuncLits(n ast.Node) {
	ast.Inspect(n, func(x ast.Node) bool {
		if c, ok := x.(*ast.CallExpr); ok {
			if sel, ok := c.Fun.(*ast.SelectorExpr); ok && sel.Sel.Name == "View" && strings.HasSuffix(exprStr(sel.X), ".db") && len(c.Args) == 1 {
				if fl, ok := c.Args[0].(*ast.FuncLit); ok {
					fl.Body.List = instrList(fl.Body.List)
					fl.Body.List = append([]ast.Stmt{call("ViewEnter"), &ast.DeferStmt{Call: &ast.CallExpr{Fun: &ast.SelectorExpr{X: ast.NewIdent("verifsched"), Sel: ast.NewIdent("ViewExit")}}}}, fl.Body.List...)

					return false
				}
			}
		}
		if fl, ok := x.(*ast.FuncLit); ok {
			fl.Body.List = instrList(fl.Body.List)

			return false
		}

		return true
	})
}

// instrumentBbolt writes a copy of bbolt's tx.go with kill points inside Commit: before the dirty pages are
// written, between the data pages and the meta page, and after the meta page.
func instrumentBbolt(dir, out string) {
	src, err := os.ReadFile(filepath.Join(dir, "tx.go"))
	if err != nil {
		fmt.Fprintln(os.Stderr, "instrument:", err)
		os.Exit(3)
	}
	s := string(src)
	rep := func(old, new string) {
		if strings.Count(s, old) != 1 {
			fmt.Fprintf(os.Stderr, "instrument: bbolt tx.go: %q found %d times, expected once\n", old, strings.Count(s, old))
			os.Exit(3)
		}
		s = strings.Replace(s, old, new, 1)
	}
	rep("\tif err = tx.write(); err != nil {", "\tverifKill(\"commit:before-write\")\n\tif err = tx.write(); err != nil {")
	rep("\tif err = tx.writeMeta(); err != nil {", "\tverifKill(\"commit:before-meta\")\n\tif err = tx.writeMeta(); err != nil {")
	rep("\t// Finalize the transaction.\n\ttx.close()", "\tverifKill(\"commit:after-meta\")\n\t// Finalize the transaction.\n\ttx.close()")
	// no new import (the go command's module index does not see imports added by an overlay to a package of
	// the module cache): the hook is a package-level variable of bbolt itself, set by the harness
	s += "\n// VerifKillPoint is set by the verification harness (overlay; not part of bbolt).\nvar VerifKillPoint func(label string)\n\nfunc verifKill(label string) {\n\tif VerifKillPoint != nil {\n\t\tVerifKillPoint(label)\n\t}\n}\n"
	if err := os.WriteFile(out, []byte(s), 0o644); err != nil {
		fmt.Fprintln(os.Stderr, "instrument:", err)
		os.Exit(3)
	}
}

func main() {
	if len(os.Args) == 4 && os.Args[1] == "-bbolt" {
		instrumentBbolt(os.Args[2], os.Args[3])

		return
	}
	if len(os.Args) < 3 {
		fmt.Fprintln(os.Stderr, "usage: instrument <repo> <outdir> file.go…")
		os.Exit(2)
	}
	repo, out := os.Args[1], os.Args[2]
	os.MkdirAll(out, 0o755)
	for _, name := range os.Args[3:] {
		f, err := parser.ParseFile(fset, filepath.Join(repo, name), nil, parser.ParseComments)
		if err != nil {
			fmt.Fprintln(os.Stderr, "instrument:", err)
			os.Exit(3)
		}
		for _, d := range f.Decls {
			if fd, ok := d.(*ast.FuncDecl); ok && fd.Body != nil {
				fd.Body.List = instrList(fd.Body.List)
			}
		}
		// every use of the constant outBufferLength -> verifsched.BufLen(outBufferLength)
		// (so that a small capacity applies to any logic written in terms of the constant)
		var fix func(e *ast.Expr)
		fix = func(e *ast.Expr) {
			if id, ok := (*e).(*ast.Ident); ok && id.Name == "outBufferLength" {
				*e = &ast.CallExpr{Fun: &ast.SelectorExpr{X: ast.NewIdent("verifsched"), Sel: ast.NewIdent("BufLen")}, Args: []ast.Expr{id}}
			}
		}
		ast.Inspect(f, func(n ast.Node) bool {
			switch v := n.(type) {
			case *ast.GenDecl:
				if v.Tok == token.CONST {
					return false
				}
			case *ast.CallExpr:
				if sel, ok := v.Fun.(*ast.SelectorExpr); ok && sel.Sel.Name == "BufLen" {
					return false
				}
				for i := range v.Args {
					fix(&v.Args[i])
				}
			case *ast.BinaryExpr:
				fix(&v.X)
				fix(&v.Y)
			case *ast.AssignStmt:
				for i := range v.Rhs {
					fix(&v.Rhs[i])
				}
			case *ast.ReturnStmt:
				for i := range v.Results {
					fix(&v.Results[i])
				}
			case *ast.IndexExpr:
				fix(&v.Index)
			case *ast.SliceExpr:
				if v.Low != nil {
					fix(&v.Low)
				}
				if v.High != nil {
					fix(&v.High)
				}
			}

			return true
		})
		// add the import
		imp := &ast.ImportSpec{Path: &ast.BasicLit{Kind: token.STRING, Value: `"verifharness/verifsched"`}}
		for _, d := range f.Decls {
			if gd, ok := d.(*ast.GenDecl); ok && gd.Tok == token.IMPORT {
				gd.Specs = append(gd.Specs, imp)

				break
			}
		}
		var b bytes.Buffer
		b.WriteString("//go:build verif\n\n")
		if err := format.Node(&b, fset, f); err != nil {
			fmt.Fprintln(os.Stderr, "instrument:", err)
			os.Exit(3)
		}
		if err := os.WriteFile(filepath.Join(out, name), b.Bytes(), 0o644); err != nil {
			panic(err)
		}
	}
}
