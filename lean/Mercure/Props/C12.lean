import Mercure.Lemmas.BoltStore
import Mercure.Lemmas.Form
import Mercure.Lemmas.Event
import Mercure.Props.C02
import Mercure.Generated.Facts
/-
  C12 — Every update is written as exactly one SSE event decoding to what was published.
-/
namespace Mercure.C12
open Mercure

/-- For any data payload (empty, multi-line, CR / CRLF line ends, text that looks like SSE fields)
    and any id / type free of line breaks, the bytes written form exactly one event that the
    reference parser (W3C REC-eventsource-20150203) decodes to the published id, type, retry and
    data with line ends normalised to LF. -/
theorem parse_encode (e : Event) (hid : noLineBreak e.id) (hty : noLineBreak e.type) :
    parseSSE e.encode = [e.expected] :=
  Mercure.parse_encode e hid hty

/-- The stream contains nothing but such events and ':' comments, and decodes to exactly the
    events written, in order. -/
theorem parse_stream (cs : List Chunk)
    (h : ∀ e ∈ Chunk.events cs, noLineBreak e.id ∧ noLineBreak e.type) :
    parseSSE (cs.flatMap Chunk.bytes) = (Chunk.events cs).map Event.expected :=
  Mercure.parse_stream cs h

/-- The serialiser modelled is the one in /repo: the replacer pairs (in priority order) and the
    three format strings of `Event.String` are regenerated from event.go on every run. -/
theorem repo_event_format :
    Facts.eventReplacer = ["\r\n".toList, "\ndata: ".toList, "\r".toList, "\ndata: ".toList, "\n".toList, "\ndata: ".toList]
    ∧ Facts.eventFormats = ["event: %s\n".toList, "retry: %d\n".toList, "id: %s\ndata: %s\n\n".toList] := by
  decide +kernel

/-! non-vacuity: a payload with every kind of line end and field look-alikes -/
example : parseSSE ({ data := "a\r\nid: x\r\rdata: y\n".toList, id := "urn:1".toList, type := "t:u".toList, retry := 30 } : Event).encode
    = [{ id := "urn:1".toList, type := "t:u".toList, data := "a\nid: x\n\ndata: y\n".toList, retry := some 30 }] := by
  decide +kernel

/-! ### the persistent transport: stored as JSON, replayed from JSON -/

/-- What the Bolt transport stores for an update (`json.Marshal(*update)`) decodes
    (`json.Unmarshal` in `dispatchHistory`) to exactly that update — every id, topic, type, payload
    (any scalar sequence: quotes, backslashes, control characters, `<>&`, U+2028/9, astral characters,
    text that looks like an escape) and every 64-bit retry. So a replayed event is the published one. -/
theorem stored_value_roundtrip (debug : Bool) (u : Update) (h : u.retry < 2 ^ 64) :
    Json.parseUpdate (Json.update debug u) = some (debug, u) :=
  Json.parseUpdate_update debug u h

/-- Two different updates are never stored as the same bytes. -/
theorem stored_value_injective (d d' : Bool) (u u' : Update) (h : u.retry < 2 ^ 64) (h' : u'.retry < 2 ^ 64)
    (e : Json.update d u = Json.update d' u') : d = d' ∧ u = u' :=
  Json.update_injective d d' u u' h h' e

/-- The stored text never contains a raw control character (it is valid JSON whatever the payload). -/
theorem stored_strings_have_no_raw_control (s : Str) : ∀ c ∈ Json.escape s, 32 ≤ c.toNat :=
  Json.escape_no_control s

/-- A whole replay: decoding the values of a history scan yields the stored updates themselves,
    in order (byte-level `scan` + `decodeAll` = the abstract `negotiate`). -/
theorem replayed_events_are_the_stored_ones (debug : Bool) (b : BoltStore.Bucket) (db : List (Nat × Update))
    (req : Str) (toSeq : Nat) (wf : BoltStore.WellFormed debug b db)
    (hr : ∀ e ∈ db, e.2.retry < 2 ^ 64) (hto : ∀ e ∈ db, e.1 ≤ toSeq) :
    BoltStore.decodeAll (BoltStore.scan (BoltStore.reqBytes req) toSeq b).2 = some (negotiate db req).2 :=
  (BoltStore.scan_refines BoltStore.rt_holds debug b db req toSeq wf hr hto).2

/-- The JSON shape modelled is the one in /repo: the exported fields of `Update` (with the embedded
    `Event` flattened), their Go types, no struct tag, no custom (un)marshaller — regenerated from
    update.go / event.go on every run — and bolt.go stores `json.Marshal(*update)` and reads it back
    with `json.Unmarshal`. -/
theorem repo_json_fields :
    Facts.updateJSONFields = ["Topics:[]string", "Private:bool", "Debug:bool", "Data:string", "ID:string", "Type:string", "Retry:uint64"]
    ∧ Facts.updateJSONNames = Json.fieldNames
    ∧ Facts.boltValueCodec = "encoding/json" := by
  decide +kernel

/-! ### from the POST body to the subscriber's stream (Model/Form → Publish → Json → Event) -/

/-- The request `PublishHandler` sees for a form-encoded body. -/
def reqOfBody (auth : AuthReq) (body : Form.Bytes) : Option PubReq :=
  (Form.fieldsOf body).map fun f =>
    { auth := auth, formOk := f.formOk, topics := f.topics, retryStr := f.retry, priv := f.priv,
      data := f.data, id := f.id, type := f.type }

/-- What the hub reads from the body is what the publisher form-encoded: topics in order, data, id,
    type, the retry text, the private flag — for all UTF-8 strings. -/
theorem posted_fields_are_read_back (topics : List Str) (retry data id type : Str) (priv : Bool)
    (hlen : (Form.bodyOf topics retry data id type priv).length ≤ Form.maxFormSize) :
    Form.fieldsOf (Form.bodyOf topics retry data id type priv) =
      some { formOk := true, topics := topics, retry := retry, priv := priv, data := data, id := id, type := type } :=
  Form.fieldsOf_bodyOf topics retry data id type priv hlen

/-- **A body over net/http's form limit (10 MiB) is refused as a whole**: whatever credential comes with
    it, nothing is published — in particular no update built from a prefix of the body (a `data` cut
    short, an `id`, `type` or `private` field dropped because it came after the cut). -/
theorem oversized_body_refused (cfg : HubCfg) (M : Str → Str → Bool) (tok : Str → Option Claims) (auth : AuthReq)
    (body : Form.Bytes) (req : PubReq) (h : Form.maxFormSize < body.length)
    (hreq : reqOfBody auth body = some req) : ∀ u, publish cfg M tok req ≠ .accepted u := by
  intro u hacc
  unfold reqOfBody at hreq
  rw [Form.fieldsOf_too_large body h] at hreq
  simp only [Option.map_some, Option.some.injEq] at hreq
  subst hreq
  have := ((C02.publish_ok_iff cfg M tok _).1 ⟨u, hacc⟩).2.1
  simp at this

theorem form_roundtrip (kvs : List (Form.Bytes × Form.Bytes)) : Form.parseQuery (Form.encodePairs kvs) = (kvs, false) :=
  Form.parseQuery_encodePairs kvs

theorem parseUint64_toDigits (n : Nat) (h : n < 2 ^ 64) : parseUint64 (Nat.toDigits 10 n) = some n := by
  have hd := allDigits_toDigits n
  unfold allDigits at hd
  unfold parseUint64
  rw [if_pos hd]
  simp [Nat.ofDigitChars_ten_toDigits, h]

/-- **End to end**: a publisher form-encodes an update (any UTF-8 topics, data, id, type; any 64-bit
    retry; private or not) and the hub accepts the request (C02 says when). Then the update the hub
    builds carries exactly the posted fields; what the Bolt transport stores for it decodes to it; and
    the bytes written to a subscriber — live or replayed — form exactly one event that a conformant
    parser decodes to the posted id, type, retry and data (line ends normalised to LF). -/
theorem post_to_event (cfg : HubCfg) (M : Str → Str → Bool) (tok : Str → Option Claims) (auth : AuthReq)
    (topics : List Str) (data id type : Str) (retry : Nat) (priv debug : Bool) (hr : retry < 2 ^ 64)
    (hid : noLineBreak id) (hty : noLineBreak type) (req : PubReq) (u : Update)
    (hreq : reqOfBody auth (Form.bodyOf topics (Nat.toDigits 10 retry) data id type priv) = some req)
    (hacc : publish cfg M tok req = .accepted u) :
    u = { id := id, topics := topics, priv := priv, data := data, type := type, retry := retry } ∧
    Json.parseUpdate (Json.update debug u) = some (debug, u) ∧
    parseSSE ({ data := u.data, id := u.id, type := u.type, retry := u.retry } : Event).encode
      = [{ id := id, type := type, data := normaliseEOL data, retry := if retry = 0 then none else some retry }] := by
  -- an accepted request was not over the form limit (`oversized_body_refused`), so the whole body was parsed
  have hlen : (Form.bodyOf topics (Nat.toDigits 10 retry) data id type priv).length ≤ Form.maxFormSize := by
    apply Nat.le_of_not_lt
    intro hbig
    exact oversized_body_refused cfg M tok auth _ req hbig hreq u hacc
  unfold reqOfBody at hreq
  rw [Form.fieldsOf_bodyOf _ _ _ _ _ _ hlen] at hreq
  simp only [Option.map_some, Option.some.injEq] at hreq
  subst hreq
  obtain ⟨h1, h2, h3, h4, h5, h6⟩ := C02.publish_accepted_shape cfg M tok _ u hacc
  simp only at h1 h2 h3 h4 h5 h6
  have hne : Nat.toDigits 10 retry ≠ [] := Nat.toDigits_ne_nil
  rw [if_neg hne, parseUint64_toDigits retry hr] at h6
  have hu : u = { id := id, topics := topics, priv := priv, data := data, type := type, retry := retry } := by
    cases u
    simp only [Update.mk.injEq]
    simp only at h1 h2 h3 h4 h5 h6
    exact ⟨h4, h1, h2, h3, h5, (Option.some.inj h6).symm⟩
  refine ⟨hu, Json.parseUpdate_update debug u (by rw [hu]; exact hr), ?_⟩
  subst hu
  exact Mercure.parse_encode _ hid hty

/-! non-vacuity: a payload with quotes, a backslash, controls, HTML-sensitive and astral characters -/
def sampleUpdate : Update :=
  { id := "i\"d".toList, topics := ["a<b".toList, [Char.ofNat 0, Char.ofNat 0x2028]], priv := true,
    data := "x\r\n\\u0041\ty😀".toList, type := [], retry := 18446744073709551615 }

example : Json.parseUpdate (Json.update false sampleUpdate) = some (false, sampleUpdate) := by
  decide +kernel

end Mercure.C12

#print axioms Mercure.C12.parse_encode
#print axioms Mercure.C12.parse_stream
#print axioms Mercure.C12.repo_event_format
#print axioms Mercure.C12.stored_value_roundtrip
#print axioms Mercure.C12.stored_value_injective
#print axioms Mercure.C12.stored_strings_have_no_raw_control
#print axioms Mercure.C12.replayed_events_are_the_stored_ones
#print axioms Mercure.C12.repo_json_fields
#print axioms Mercure.C12.posted_fields_are_read_back
#print axioms Mercure.C12.form_roundtrip
#print axioms Mercure.C12.oversized_body_refused
#print axioms Mercure.C12.post_to_event
