import Mercure.Model.Config
import Mercure.Generated.Facts
/-
  C19 — Configuration is applied faithfully and fails closed.
  Over the model of the Caddy module (UnmarshalCaddyfile + Provision) and of the legacy viper options
  (ValidateConfig + NewHubFromViper), for every combination of directives / options and argument classes.
-/
namespace Mercure.C19
open Mercure.Config

/-! ### helpers -/

theorem ite_ok {α : Type} {p : Prop} [Decidable p] {x : Err} {t : Except Err α} {e : α}
    (h : (if p then Except.error x else t) = .ok e) : ¬ p ∧ t = .ok e := by
  by_cases hp : p
  · rw [if_pos hp] at h; cases h
  · rw [if_neg hp] at h; exact ⟨hp, h⟩

theorem not_ok_error {α : Type} {x : Except Err α} (h : ∀ e, x ≠ .ok e) : ∃ e, x = .error e := by
  cases x with
  | error e => exact ⟨e, rfl⟩
  | ok a => exact absurd rfl (h a)

theorem origins_ok {l₁ l₂ : List Origin}
    (h : ¬ ((!(l₁.all (·.valid)) || !(l₂.all (·.valid))) = true)) :
    (∀ o ∈ l₁, o.valid = true) ∧ (∀ o ∈ l₂, o.valid = true) := by
  simpa using h

theorem bnot_not {b : Bool} (h : ¬ (!b) = true) : b = true := by cases b <;> simp_all

theorem sub_ok {k : KeyClass} {b : Bool} (h : ¬ (k != .absent && !b) = true) (hk : k ≠ .absent) :
    b = true := by cases b <;> simp_all

/-- inversion of `provisionCaddy.go` -/
theorem go_ok (c : Caddy) (b : Bool) (e : Effective) (h : provisionCaddy.go c b = .ok e) :
    c.pubKey ≠ .absent ∧ ¬ (c.subKey = .absent ∧ c.anonymous = false) ∧
    keyfuncOk c.pubKey (match c.pubAlg with | some a => if a == [] then hs256 else a | none => hs256) = true ∧
    (c.subKey ≠ .absent → keyfuncOk c.subKey (match c.subAlg with | some a => if a == [] then hs256 else a | none => hs256) = true) ∧
    (∀ o ∈ c.publishOrigins, o.valid = true) ∧ (∀ o ∈ c.corsOrigins, o.valid = true) ∧
    e = { anonymous := c.anonymous, subscriptions := c.subscriptions,
          wt := c.wt.getD defaultWT, dt := c.dt.getD defaultDT, hb := c.hb.getD defaultHB,
          pubAlg := (match c.pubAlg with | some a => if a == [] then hs256 else a | none => hs256),
          subAlg := if c.subKey == .absent then none else some (match c.subAlg with | some a => if a == [] then hs256 else a | none => hs256),
          publishOrigins := c.publishOrigins.map (·.text), corsOrigins := c.corsOrigins.map (·.text),
          cookieName := (match c.cookieName with | some n => if n == [] then defaultCookie else n | none => defaultCookie),
          compat7 := b } := by
  unfold provisionCaddy.go at h
  dsimp only at h
  obtain ⟨h1, h⟩ := ite_ok h
  obtain ⟨h2, h⟩ := ite_ok h
  obtain ⟨h3, h⟩ := ite_ok h
  obtain ⟨h4, h⟩ := ite_ok h
  obtain ⟨h5, h⟩ := ite_ok h
  cases h
  obtain ⟨h5, h6⟩ := origins_ok h5
  refine ⟨?_, ?_, bnot_not h3, sub_ok h4, h5, h6, rfl⟩
  · simpa using h1
  · simpa using h2

/-- inversion of `provisionCaddy` -/
theorem caddy_ok (c : Caddy) (e : Effective) (h : provisionCaddy c = .ok e) :
    c.badArgs = false ∧ (c.compat = none ∨ c.compat = some 7) ∧
    provisionCaddy.go c (c.compat == some 7) = .ok e := by
  unfold provisionCaddy at h
  obtain ⟨hb, h⟩ := ite_ok h
  have hb : c.badArgs = false := by simpa using hb
  cases hc : c.compat with
  | none => rw [hc] at h; exact ⟨hb, .inl rfl, h⟩
  | some v =>
    rw [hc] at h
    obtain ⟨hv, h⟩ := ite_ok h
    have : v = 7 := by simpa using hv
    subst this
    exact ⟨hb, .inr rfl, h⟩

/-! ### Caddy module -/

/-- A configuration that lacks a publisher key is rejected at start-up. -/
theorem caddy_no_publisher_key_rejected (c : Caddy) (h : c.pubKey = .absent) :
    ∃ e, provisionCaddy c = .error e := by
  apply not_ok_error
  intro e he
  exact (go_ok _ _ _ (caddy_ok _ _ he).2.2).1 h

/-- …so is one that lacks a subscriber key without anonymous mode. -/
theorem caddy_no_subscriber_key_rejected (c : Caddy) (h : c.subKey = .absent) (ha : c.anonymous = false) :
    ∃ e, provisionCaddy c = .error e := by
  apply not_ok_error
  intro e he
  exact (go_ok _ _ _ (caddy_ok _ _ he).2.2).2.1 ⟨h, ha⟩

/-- Invalid origins, protocol versions other than 7 and malformed directives are rejected. -/
theorem caddy_invalid_rejected (c : Caddy)
    (h : c.badArgs = true ∨ (∃ v, c.compat = some v ∧ v ≠ 7) ∨
         (∃ o ∈ c.publishOrigins, o.valid = false) ∨ (∃ o ∈ c.corsOrigins, o.valid = false)) :
    ∃ e, provisionCaddy c = .error e := by
  apply not_ok_error
  intro e he
  obtain ⟨hb, hc, hg⟩ := caddy_ok _ _ he
  obtain ⟨_, _, _, _, hp, hco, _⟩ := go_ok _ _ _ hg
  rcases h with h | ⟨v, hv, hv7⟩ | ⟨o, ho, hov⟩ | ⟨o, ho, hov⟩
  · rw [hb] at h; cases h
  · rcases hc with hc | hc
    · rw [hc] at hv; cases hv
    · rw [hc] at hv; cases hv; exact hv7 rfl
  · rw [hp o ho] at hov; cases hov
  · rw [hco o ho] at hov; cases hov

/-- Whatever starts is exactly what was configured; omitted options take their defaults. -/
theorem caddy_effective (c : Caddy) (e : Effective) (h : provisionCaddy c = .ok e) :
    e.anonymous = c.anonymous ∧ e.subscriptions = c.subscriptions ∧
    e.wt = c.wt.getD defaultWT ∧ e.dt = c.dt.getD defaultDT ∧ e.hb = c.hb.getD defaultHB ∧
    e.publishOrigins = c.publishOrigins.map (·.text) ∧ e.corsOrigins = c.corsOrigins.map (·.text) ∧
    e.compat7 = (c.compat == some 7) ∧
    e.cookieName = (match c.cookieName with | some n => if n == [] then defaultCookie else n | none => defaultCookie) ∧
    e.pubAlg = (match c.pubAlg with | some a => if a == [] then hs256 else a | none => hs256) ∧
    e.subAlg = (if c.subKey == .absent then none
                else some (match c.subAlg with | some a => if a == [] then hs256 else a | none => hs256)) := by
  obtain ⟨_, _, hg⟩ := caddy_ok _ _ h
  obtain ⟨_, _, _, _, _, _, he⟩ := go_ok _ _ _ hg
  subst he
  exact ⟨rfl, rfl, rfl, rfl, rfl, rfl, rfl, rfl, rfl, rfl, rfl⟩

/-- Fail closed: a hub that starts has a usable publisher key and algorithm, a usable subscriber key
    unless anonymous subscribers are allowed, and only valid origins. -/
theorem caddy_fail_closed (c : Caddy) (e : Effective) (h : provisionCaddy c = .ok e) :
    c.pubKey ≠ .absent ∧ keyfuncOk c.pubKey e.pubAlg = true ∧
    (e.subAlg = none → e.anonymous = true) ∧
    (∀ a, e.subAlg = some a → keyfuncOk c.subKey a = true) ∧
    (∀ o ∈ c.publishOrigins, o.valid = true) ∧ (∀ o ∈ c.corsOrigins, o.valid = true) := by
  obtain ⟨_, _, hg⟩ := caddy_ok _ _ h
  obtain ⟨h1, h2, h3, h4, h5, h6, he⟩ := go_ok _ _ _ hg
  subst he
  refine ⟨h1, h3, ?_, ?_, h5, h6⟩
  · dsimp only
    intro hn
    by_cases hk : c.subKey = .absent
    · cases ha : c.anonymous with
      | true => rfl
      | false => exact absurd ⟨hk, ha⟩ h2
    · rw [if_neg (by simpa using hk)] at hn; cases hn
  · dsimp only
    intro a ha
    by_cases hk : c.subKey = .absent
    · rw [if_pos (by simpa using hk)] at ha; cases ha
    · rw [if_neg (by simpa using hk)] at ha
      cases ha
      exact h4 hk

/-- Omitted security options take their restrictive defaults. -/
theorem caddy_absent_is_restrictive (k k' : KeyClass) (e : Effective)
    (h : provisionCaddy { pubKey := k, subKey := k' } = .ok e) :
    e.anonymous = false ∧ e.subscriptions = false ∧ e.publishOrigins = [] ∧ e.corsOrigins = [] ∧
    e.compat7 = false ∧ e.cookieName = defaultCookie ∧ e.wt = defaultWT ∧ e.dt = defaultDT ∧ e.hb = defaultHB := by
  obtain ⟨_, _, hg⟩ := caddy_ok _ _ h
  obtain ⟨_, _, _, _, _, _, he⟩ := go_ok _ _ _ hg
  subst he
  exact ⟨rfl, rfl, rfl, rfl, rfl, rfl, rfl, rfl, rfl⟩

/-- Only the exact algorithm families are accepted, each with its own kind of key. -/
theorem keyfunc_families (k : KeyClass) (alg : Str) (h : keyfuncOk k alg = true) :
    (algFamily alg = .hmac) ∨ (algFamily alg = .rsa ∧ k = .rsaPem) ∨ (algFamily alg = .ec ∧ k = .ecPem) ∨
    (algFamily alg = .ed ∧ k = .edPem) := by
  unfold keyfuncOk at h
  cases hk : k <;> cases ha : algFamily alg <;> simp_all

/-! ### legacy options (for the code in /repo: both repairs in) -/

def repaired : LegacyFlags := ⟨true, true⟩

theorem firstKey_absent {a b : KeyClass} (h : (firstKey a b == .absent) = true) :
    a = .absent ∧ b = .absent := by
  unfold firstKey at h
  cases a <;> cases b <;> simp_all

theorem legacy_no_publisher_key_rejected (l : Legacy) (h : l.pubKey = .absent) (h' : l.jwtKey = .absent) :
    ∃ e, provisionLegacy repaired l = .error e := by
  apply not_ok_error
  intro e he
  unfold provisionLegacy at he
  obtain ⟨h1, -⟩ := ite_ok he
  simp [h, h'] at h1

theorem legacy_no_subscriber_key_rejected (l : Legacy) (h : l.subKey = .absent) (h' : l.jwtKey = .absent)
    (ha : l.anonymous = false) : ∃ e, provisionLegacy repaired l = .error e := by
  apply not_ok_error
  intro e he
  unfold provisionLegacy at he
  obtain ⟨-, he⟩ := ite_ok he
  obtain ⟨h2, -⟩ := ite_ok he
  simp [h, h', ha, repaired] at h2

theorem legacy_fail_closed (l : Legacy) (e : Effective) (h : provisionLegacy repaired l = .ok e) :
    (e.subAlg = none → e.anonymous = true) ∧ e.anonymous = l.anonymous ∧ e.subscriptions = l.subscriptions ∧
    keyfuncOk (firstKey l.pubKey l.jwtKey) e.pubAlg = true ∧
    (∀ o ∈ l.publishOrigins, o.valid = true) ∧ (∀ o ∈ l.corsOrigins, o.valid = true) ∧
    e.publishOrigins = l.publishOrigins.map (·.text) := by
  unfold provisionLegacy at h
  dsimp only at h
  obtain ⟨h1, h⟩ := ite_ok h
  obtain ⟨h2, h⟩ := ite_ok h
  obtain ⟨h3, h⟩ := ite_ok h
  obtain ⟨h4, h⟩ := ite_ok h
  obtain ⟨h5, h⟩ := ite_ok h
  cases h
  obtain ⟨h5, h6⟩ := origins_ok h5
  refine ⟨?_, rfl, rfl, bnot_not h3, h5, h6, rfl⟩
  dsimp only
  intro hn
  by_cases hk : (firstKey l.subKey l.jwtKey == .absent) = true
  · obtain ⟨ha, hb⟩ := firstKey_absent hk
    cases han : l.anonymous with
    | true => rfl
    | false => simp [ha, hb, han, repaired] at h2
  · rw [if_neg hk] at hn; cases hn

/-- A duration set by the user is the one in effect — also 0 ("disabled"). -/
theorem legacy_durations_applied (l : Legacy) (e : Effective) (h : provisionLegacy repaired l = .ok e) :
    (∀ x, l.wt = some x → e.wt = x) ∧ (∀ x, l.dt = some x → e.dt = x) ∧ (∀ x, l.hb = some x → e.hb = x) ∧
    (l.defaults = true → l.wt = none → e.wt = defaultWT) ∧
    (l.dt = none → e.dt = defaultDT) ∧ (l.hb = none → e.hb = defaultHB) := by
  unfold provisionLegacy at h
  dsimp only at h
  obtain ⟨h1, h⟩ := ite_ok h
  obtain ⟨h2, h⟩ := ite_ok h
  obtain ⟨h3, h⟩ := ite_ok h
  obtain ⟨h4, h⟩ := ite_ok h
  obtain ⟨h5, h⟩ := ite_ok h
  cases h
  dsimp only
  refine ⟨?_, ?_, ?_, ?_, ?_, ?_⟩
  · intro x hx; rw [hx]; dsimp only [Option.getD]
    by_cases hd : x = defaultWT <;> simp [hd]
  · intro x hx; rw [hx]; simp [repaired]
  · intro x hx; rw [hx]; simp [repaired]
  · intro hd hx; rw [hx, hd]; simp
  · intro hx; rw [hx]; cases l.defaults <;> simp [repaired]
  · intro hx; rw [hx]; cases l.defaults <;> simp [repaired]

/-- The obligation against /repo (regenerated from config.go on every run). -/
theorem repo_legacy_flags : Facts.legacyFlags = repaired := by decide

/-- Witnesses for the code as found (findings F10, F12): publisher key only ⇒ a hub with no
    subscriber key although anonymous is off; heartbeat 0 ⇒ 40 s. -/
theorem C19_counterexample_found :
    (∃ e, provisionLegacy ⟨false, false⟩ { pubKey := .text } = .ok e ∧ e.subAlg = none ∧ e.anonymous = false) ∧
    (∃ e, provisionLegacy ⟨false, false⟩ { jwtKey := .text, hb := some 0 } = .ok e ∧ e.hb = 40000) := by
  exact ⟨⟨_, rfl, rfl, rfl⟩, ⟨_, rfl, rfl⟩⟩
end Mercure.C19


#print axioms Mercure.C19.caddy_no_publisher_key_rejected
#print axioms Mercure.C19.caddy_no_subscriber_key_rejected
#print axioms Mercure.C19.caddy_invalid_rejected
#print axioms Mercure.C19.caddy_effective
#print axioms Mercure.C19.caddy_fail_closed
#print axioms Mercure.C19.caddy_absent_is_restrictive
#print axioms Mercure.C19.keyfunc_families
#print axioms Mercure.C19.legacy_no_publisher_key_rejected
#print axioms Mercure.C19.legacy_no_subscriber_key_rejected
#print axioms Mercure.C19.legacy_fail_closed
#print axioms Mercure.C19.legacy_durations_applied
#print axioms Mercure.C19.repo_legacy_flags
#print axioms Mercure.C19.C19_counterexample_found
