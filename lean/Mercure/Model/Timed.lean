import Mercure.Model.Basic
/-
  Mercure.Model.Timed — the connection loop of `SubscribeHandler` (subscribe.go:96-155,
  getWriteDeadline, write, setDispatchWriteDeadline) as a timed automaton under a virtual clock.
  Times are milliseconds since the connection was accepted (t0 = 0); 0 for a timeout = disabled.

  Same-instant races (two timers, or a timer and an arrival, due at the same millisecond) are
  resolved by Go's `select` at random; the model fixes the order disconnection < heartbeat <
  arrival, and the correspondence generator avoids such ties (DESIGN §5.1, acceptor note).
-/
namespace Mercure.Timed

structure Cfg where
  wt  : Nat                 -- write timeout (maximum duration of the connection)
  dt  : Nat                 -- dispatch timeout
  hb  : Nat                 -- heartbeat interval
  exp : Option Nat          -- expiry of the subscriber's token (ms after t0), if any
  deriving DecidableEq, Repr

/-- `getWriteDeadline`: the earlier of t0 + wt and the token expiry; `none` = no deadline. -/
def Cfg.deadline (c : Cfg) : Option Nat :=
  let d : Option Nat := if c.wt != 0 then some c.wt else none
  match c.exp, d with
  | some e, some d => some (min e d)
  | some e, none => some e
  | none, d => d

inductive Ev where
  | comment                 -- ":\n" written (the initial one and the heartbeats)
  | event (id : Nat)        -- an update written
  | failed                  -- a write attempt that failed (deadline passed)
  | selfClose               -- the hub ended the connection (disconnection timer)
  | clientClose             -- the request context was cancelled
  | endWrite                -- the handler returned because a write failed
  deriving DecidableEq, Repr

structure St where
  hbDue   : Option Nat      -- when the heartbeat timer fires
  discDue : Option Nat      -- when the disconnection timer fires
  trace   : List (Nat × Ev) := []   -- reversed
  done    : Bool := false
  deriving Repr

/-- A write attempted at time `t` succeeds iff no deadline is armed or t is strictly before it.
    During the write the armed deadline is min(wd, t + dt) (or wd when dt = 0 or there is no wd:
    `setDispatchWriteDeadline` returns early when `now + dt` is after a zero deadline). -/
def writeOk (c : Cfg) (t : Nat) : Bool :=
  match c.deadline with
  | none => true
  | some d => t < d

def St.write (c : Cfg) (s : St) (t : Nat) (e : Ev) (rearm : Bool) : St :=
  if writeOk c t then
    { s with trace := (t, e) :: s.trace, hbDue := if c.hb != 0 && rearm then some (t + c.hb) else s.hbDue }
  else { s with trace := (t, .endWrite) :: (t, .failed) :: s.trace, done := true }

/-- The state right after `registerSubscriber`: headers and the first comment are written at t0
    (before the controller exists: no deadline applies), timers armed. -/
def init (c : Cfg) : St :=
  { hbDue := if c.hb != 0 then some c.hb else none,
    discDue := if c.wt != 0 then some ((c.deadline.getD 0) - c.dt) else none,
    trace := [(0, .comment)] }

def optLe (a : Option Nat) (t : Nat) : Bool := match a with | some x => x ≤ t | none => false

/-- Run the loop against arrivals (time, id) in non-decreasing time order, an optional client close
    time, up to `horizon`. `fuel` bounds the number of loop iterations. -/
def loop (c : Cfg) (close : Option Nat) (horizon : Nat) : Nat → St → List (Nat × Nat) → St
  | 0, s, _ => s
  | fuel + 1, s, arr =>
    if s.done then s else
    -- the next instant at which something is due
    let cands : List Nat := (s.discDue.toList ++ s.hbDue.toList ++ (arr.head?.map (·.1)).toList ++ close.toList)
    match cands.foldl (fun m x => match m with | none => some x | some y => some (min x y)) (none : Option Nat) with
    | none => s
    | some t =>
      if t > horizon then s
      else if optLe close t then { s with trace := (t, .clientClose) :: s.trace, done := true }
      else if optLe s.discDue t then { s with trace := (t, .selfClose) :: s.trace, done := true }
      else if optLe s.hbDue t then loop c close horizon fuel (s.write c t .comment true) arr
      else match arr with
        | (_, id) :: rest => loop c close horizon fuel (s.write c t (.event id) true) rest
        | [] => s

def run (c : Cfg) (arr : List (Nat × Nat)) (close : Option Nat) (horizon : Nat) : List (Nat × Ev) :=
  (loop c close horizon (arr.length + (if c.hb != 0 then horizon / c.hb else 0) + 4) (init c) arr).trace.reverse

end Mercure.Timed
