package main

import (
	"encoding/base64"
	"fmt"
	"net/url"
	"strings"
	"time"

	"verifharness/pkg/h"
	"verifharness/pkg/jws"
)

func init() { register("tokens", "C03", runTokens) }

type tokCase struct {
	Cfg      hubCfg `json:"cfg"`
	Mutation string `json:"mutation"`
	Token    string `json:"token"`
	Endpoint string `json:"endpoint"` // pub | sub | api
	Carrier  string `json:"carrier"`
}

var allAlgs = []string{"HS256", "HS384", "HS512", "RS256", "RS384", "RS512", "ES256", "ES384", "ES512", "EdDSA"}

const b64chars = "ABCDEFGHIJKLMNOPQRSTUVWXYZabcdefghijklmnopqrstuvwxyz0123456789-_"

// mutations of a valid token (parent signed by k with claims cj); each returns name + token.
func mutations(rr *h.Rand, k, other *jws.Key, cj string, now time.Time, claimKey string) (out [][2]string) {
	parent := jws.Mint(k, cj)
	add := func(name, tok string) { out = append(out, [2]string{name, tok}) }
	add("valid", parent)
	parts := strings.Split(parent, ".")
	// algorithm confusion
	add("alg-none", jws.MintAlg("none", k, nil, cj))
	add("alg-none-keeps-signature", jws.B64([]byte(`{"alg":"none","typ":"JWT"}`))+"."+parts[1]+"."+parts[2])
	for _, a := range []string{"HS256", "HS384", "HS512"} {
		if a != k.Alg {
			add("alg-"+a+"-keyed-with-configured-key-material", jws.MintAlg(a, k, k.ConfigKey(), cj))
		}
	}
	// sibling of the same family: same key, other hash
	for _, a := range allAlgs {
		if a != k.Alg && a[:2] == k.Alg[:2] && a[:2] != "ES" && a != "EdDSA" {
			add("alg-sibling-"+a+"-same-key", jws.MintAlg(a, k, k.Secret, cj))
		}
	}
	if strings.HasPrefix(k.Alg, "RS") {
		add("alg-PS256-same-key", jws.MintAlg("PS256", k, nil, cj))
	}
	// header says the configured alg, signature made by another key / the other role's key
	if other != nil {
		add("signed-with-other-role-key", jws.Mint(other, cj))
	}
	add("signed-with-unrelated-key", jws.Mint(jws.NewKey(k.Alg, 777), cj))
	// segments
	for si, name := range []string{"header", "payload", "signature"} {
		p := append([]string(nil), parts...)
		seg := p[si]
		if len(seg) > 1 {
			p[si] = seg[:len(seg)-1]
			add(name+"-truncated", strings.Join(p, "."))
			i := rr.Intn(len(seg))
			c := b64chars[(strings.IndexByte(b64chars, seg[i])+1+rr.Intn(62))%64]
			p[si] = seg[:i] + string(c) + seg[i+1:]
			add(name+"-char-flipped", strings.Join(p, "."))
			p[si] = seg + "="
			add(name+"-padded", strings.Join(p, "."))
			p[si] = seg[:i] + "!" + seg[i:]
			add(name+"-junk-char", strings.Join(p, "."))
		}
	}
	// non-canonical base64 of the same signature bytes (trailing bits set) — same bytes, so still verifies
	if sig := parts[2]; len(sig)%4 == 2 || len(sig)%4 == 3 {
		last := strings.IndexByte(b64chars, sig[len(sig)-1])
		alt := sig[:len(sig)-1] + string(b64chars[last|1])
		if raw, err := base64.RawURLEncoding.DecodeString(alt); err == nil && alt != sig {
			if raw2, _ := base64.RawURLEncoding.DecodeString(sig); string(raw) == string(raw2) {
				add("signature-noncanonical-base64-same-bytes", parts[0]+"."+parts[1]+"."+alt)
			}
		}
	}
	// payload re-encoded (same JSON value, other text), old signature
	add("payload-reencoded-keeps-signature", parts[0]+"."+jws.B64([]byte(" "+cj))+"."+parts[2])
	// separators
	add("two-segments", parts[0]+"."+parts[1])
	add("four-segments", parent+".x")
	add("empty-signature", parts[0]+"."+parts[1]+".")
	add("double-dot", parts[0]+".."+parts[1]+"."+parts[2])
	add("leading-dot", "."+parent)
	// exp / nbf
	withClaim := func(extra string) string { return jws.Mint(k, strings.TrimSuffix(cj, "}")+","+extra+"}") }
	u := now.Unix()
	add("exp-past-1h", withClaim(fmt.Sprintf(`"exp":%d`, u-3600)))
	add("exp-past-3s", withClaim(fmt.Sprintf(`"exp":%d`, u-3)))
	add("exp-future-1h", withClaim(fmt.Sprintf(`"exp":%d`, u+3600)))
	add("exp-future-float", withClaim(fmt.Sprintf(`"exp":%d.75`, u+3600)))
	add("exp-string-number", withClaim(fmt.Sprintf(`"exp":"%d"`, u-3600)))
	add("exp-not-a-number", withClaim(`"exp":"tomorrow"`))
	add("exp-null", withClaim(`"exp":null`))
	add("nbf-future-1h", withClaim(fmt.Sprintf(`"nbf":%d`, u+3600)))
	add("nbf-past-1h", withClaim(fmt.Sprintf(`"nbf":%d`, u-3600)))
	add("exp-future-nbf-future", withClaim(fmt.Sprintf(`"exp":%d,"nbf":%d`, u+7200, u+3600)))
	add("iat-future", withClaim(fmt.Sprintf(`"iat":%d`, u+3600)))
	// claims shape
	add("claims-not-object", jws.Mint(k, `"x"`))
	add("mercure-wrong-type", jws.Mint(k, `{"mercure":"x"}`))
	add(claimKey+"-wrong-type", jws.Mint(k, `{"mercure":{"`+claimKey+`":"*"}}`))
	add("aud-array", withClaim(`"aud":["a","b"]`))
	add("aud-number", withClaim(`"aud":5`))
	add("trailing-json", parts[0]+"."+jws.B64([]byte(cj+" {}"))+"."+jws.B64(jws.SignWith(k.Alg, k, k.Secret, parts[0]+"."+jws.B64([]byte(cj+" {}")))))

	return out
}

func runTokens(c *h.Ctx, r *h.Report) {
	r.Rule = "for each configured algorithm family (HS256/384/512, RS256/384/512, ES256/384/512, EdDSA; publisher and subscriber keys distinct) the harness mints valid tokens with its OWN JWS encoder and applies structured mutations (alg swap incl. none and HMAC keyed with the public-key PEM, sibling alg with the same key, PS256, other role's key, each segment truncated / char-flipped / padded / junk, non-canonical base64, re-encoded payload, separators added/removed, exp/nbf offsets, wrong claim types); token facts are recomputed by the harness's own decoder+verifier and fed to the model; the verdict is compared on publish, subscribe (header/query/cookie, anonymous on and off) and the subscription API. Non-trivial = mutated token whose unmutated parent was accepted on that endpoint; distinct by (alg, mutation, endpoint, carrier, anonymous)."
	algs := allAlgs
	if !c.Thorough() {
		algs = []string{"HS256", "HS512", "RS256", "ES256", "ES384", "EdDSA", "RS384", "HS384", "ES512", "RS512"}
	}
	reps := c.Scale(1, 6)
	for rep := 0; rep < reps; rep++ {
		for ai, alg := range algs {
			for _, anon := range []bool{false, true} {
				rr := c.Rand.Fork()
				subAlg := algs[(ai+1+rep)%len(algs)]
				if rr.Bool() {
					subAlg = alg
				}
				cfg := hubCfg{PubAlg: alg, SubAlg: subAlg, Anonymous: anon, Subscriptions: true, Origins: []string{"*"}}
				f := newFixture(cfg, nil)
				now := time.Now()
				pubMut := mutations(rr, f.pubKey, f.subKey, `{"mercure":{"publish":["*"],"payload":"P"}}`, now, "publish")
				subMut := mutations(rr, f.subKey, f.pubKey, `{"mercure":{"subscribe":["*"],"payload":"S"}}`, now, "subscribe")

				type rq struct {
					cs tokCase
					a  authParts
				}
				var rqs []rq
				carriers := func(tok string) map[string]authParts {
					return map[string]authParts{
						"header": {Headers: []string{"Bearer " + tok}},
						"query":  {Query: []string{tok}},
						"cookie": {Cookies: []string{tok}, Origin: "https://x.example"},
					}
				}
				for _, m := range pubMut {
					for cn, a := range carriers(m[1]) {
						rqs = append(rqs, rq{tokCase{cfg, m[0], m[1], "pub", cn}, a})
					}
				}
				for _, m := range subMut {
					for cn, a := range carriers(m[1]) {
						rqs = append(rqs, rq{tokCase{cfg, m[0], m[1], "sub", cn}, a})
						if cn == "header" {
							rqs = append(rqs, rq{tokCase{cfg, m[0], m[1], "api", cn}, a})
						}
					}
				}
				// replay across roles: a token accepted in its own role is then presented to the other role
				both := `{"mercure":{"publish":["*"],"subscribe":["*"],"payload":"X"}}`
				subSigned, pubSigned := jws.Mint(f.subKey, both), jws.Mint(f.pubKey, both)
				for cn, a := range carriers(subSigned) {
					rqs = append(rqs, rq{tokCase{cfg, "cross-role: subscriber-signed, first used to subscribe", subSigned, "sub", cn}, a},
						rq{tokCase{cfg, "cross-role: subscriber-signed, replayed on publish", subSigned, "pub", cn}, a})
				}
				for cn, a := range carriers(pubSigned) {
					rqs = append(rqs, rq{tokCase{cfg, "cross-role: publisher-signed, first used to publish", pubSigned, "pub", cn}, a},
						rq{tokCase{cfg, "cross-role: publisher-signed, replayed on subscribe", pubSigned, "sub", cn}, a})
					if cn == "header" {
						rqs = append(rqs, rq{tokCase{cfg, "cross-role: publisher-signed, replayed on the API", pubSigned, "api", cn}, a})
					}
				}
				// rights come from the presented, validated token alone: a token that is refused (signed with the other
				// role's key) carrying the namespaced claim with every right, then a valid token whose rights do not
				// cover the request — whatever the hub kept from the refused one must not widen them
				nsAll := `{"https://mercure.rocks/":{"publish":["*"],"subscribe":["*"],"payload":"F"}}`
				restricted := `{"mercure":{"publish":["other"],"subscribe":["other"],"payload":"R"}}`
				forgedP, forgedS := jws.Mint(f.subKey, nsAll), jws.Mint(f.pubKey, nsAll)
				restrP, restrS := jws.Mint(f.pubKey, restricted), jws.Mint(f.subKey, restricted)
				for _, cn := range []string{"header", "query", "cookie"} {
					rqs = append(rqs, rq{tokCase{cfg, "forged: namespaced claim with every right, other role's key", forgedP, "pub", cn}, carriers(forgedP)[cn]},
						rq{tokCase{cfg, "restricted (after a refused token with every right)", restrP, "pub", cn}, carriers(restrP)[cn]})
				}
				rqs = append(rqs, rq{tokCase{cfg, "forged: namespaced claim with every right, other role's key", forgedS, "api", "header"}, carriers(forgedS)["header"]},
					rq{tokCase{cfg, "restricted (after a refused token with every right)", restrS, "api", "header"}, carriers(restrS)["header"]})
				// and every valid token once more at the end (an answer must not depend on what was seen before)
				for _, m := range pubMut[:1] {
					for cn, a := range carriers(m[1]) {
						rqs = append(rqs, rq{tokCase{cfg, "valid (again)", m[1], "pub", cn}, a})
					}
				}
				lines := []string{f.cfgLine(), "or.reset"}
				seen := map[string]bool{}
				for _, q := range rqs {
					if !seen[q.cs.Token] {
						seen[q.cs.Token] = true
						lines = append(lines, f.tokLine(q.cs.Token, now))
					}
				}
				pre := len(lines)
				for _, q := range rqs {
					switch q.cs.Endpoint {
					case "pub":
						lines = append(lines, h.Line(append(append([]string{"pub"}, q.a.wire(true)...), "1", h.HexList([]string{"t"}), "", "0", h.Hex("d"), h.Hex("i"), "")...))
					case "sub":
						lines = append(lines, h.Line(append(append([]string{"sub.decide"}, q.a.wire(false)...), h.HexList([]string{"t"}), "", "", "~")...))
					case "api":
						lines = append(lines, h.Line(append(append([]string{"api.auth"}, q.a.wire(false)...), h.Hex(hubURL+"/subscriptions"))...))
					}
				}
				ans := c.Driver.Ask(lines)[pre:]
				parentOK := map[string]bool{}
				for i, q := range rqs {
					r.Evaluations++
					var status int
					var model string
					switch q.cs.Endpoint {
					case "pub":
						status = f.doPublish(q.a, "application/x-www-form-urlencoded", "topic=t&data=d&id=i", "").Status()
						model = strings.Fields(ans[i])[0]
					case "sub":
						status = f.doGet(q.a, hubURL, url.Values{"topic": {"t"}}, nil).Status()
						model = strings.Fields(ans[i])[0]
					case "api":
						status = f.doGet(q.a, hubURL+"/subscriptions", nil, nil).Status()
						model = map[string]string{"1": "200", "0": "401"}[ans[i]]
					}
					impl := fmt.Sprint(status)
					if impl != model {
						r.Disagree(h.Disagreement{Class: "C03.validate/" + q.cs.Endpoint, Case: q.cs, Model: ans[i], Impl: impl, At: i})
					}
					key := q.cs.Endpoint + "/" + q.cs.Carrier
					if q.cs.Mutation == "valid" || strings.Contains(q.cs.Mutation, "first used") {
						parentOK[key] = status == 200
					}
					// harness-alone oracle: a token its own verifier rejects must be refused with 401
					role := "s"
					k := f.subKey
					if q.cs.Endpoint == "pub" {
						role, k = "p", f.pubKey
					}
					fa := jws.Analyse(q.cs.Token, map[string]*jws.Key{role: k}, now)
					good := fa.WellFormed && fa.SigOK[role] && fa.ExpOK && fa.NbfOK
					if !good && status != 401 {
						r.Violate(h.Violation{Key: "C03:unverifiable-token-not-refused",
							What:   fmt.Sprintf("%s endpoint (%s carrier, anonymous=%v, alg %s) answered %d to a token mutated by %q", q.cs.Endpoint, q.cs.Carrier, anon, k.Alg, status, q.cs.Mutation),
							Replay: map[string]any{"family": "tokens", "case": q.cs}})
					}
					if strings.HasPrefix(q.cs.Mutation, "restricted (after") && status == 200 {
						r.Violate(h.Violation{Key: "C03:rights-granted-beyond-the-presented-token",
							What:   fmt.Sprintf("%s endpoint (%s carrier, alg %s): a valid token whose claims do not cover the request was answered 200 right after a refused token carrying every right", q.cs.Endpoint, q.cs.Carrier, k.Alg),
							Replay: map[string]any{"family": "tokens", "case": q.cs, "preceded_by": rqs[i-1].cs, "note": "two requests in sequence on one hub: the refused token first, then this one (topic 't')"}})
					}
					if good && status != 200 {
						r.Count("valid-token-refused:" + q.cs.Mutation)
					}
					r.Count(fmt.Sprintf("%s:%d", q.cs.Endpoint, status))
					if q.cs.Mutation != "valid" && parentOK[key] {
						r.Nontrivial(fmt.Sprint(alg, subAlg, q.cs.Mutation, q.cs.Endpoint, q.cs.Carrier, anon))
					}
					if i%97 == 0 {
						r.Sample(map[string]any{"alg": k.Alg, "mutation": q.cs.Mutation, "endpoint": q.cs.Endpoint, "carrier": q.cs.Carrier, "anonymous": anon, "status": status})
					}
				}
				f.tr.Close()
			}
		}
	}
}
