#!/bin/bash
# Rebuild extract + driver + harness (hooks on) against /repo's working tree.
set -e
cd /verif
export GOFLAGS=-mod=mod GOPROXY=off GOEXPERIMENT=synctest
unset GOSUMDB
mkdir -p .build
cp /repo/go.sum harness/go.sum
echo '{"Replace": {"/repo/verif_export_verif.go": "/verif/harness/overlay/verif_export.go"}}' > .build/overlay.json
(cd harness && go build -o ../.build/extract ./cmd/extract && go build -tags verif -overlay ../.build/overlay.json -o ../.build/vh ./cmd/vh)
(cd lean && lake build driver 2>&1 | grep -v "^✔" | grep -v "Build completed" || true)
