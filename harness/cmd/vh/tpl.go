package main

import (
	"fmt"
	"strings"

	"verifharness/pkg/gen"
	"verifharness/pkg/h"

	"github.com/yosida95/uritemplate/v3"
)

func init() { register("tpl", "C11", runTpl) }

// tpl — the template library as the hub uses it (uritemplate.New, Template.Regexp().MatchString) against the
// Lean model of both (Model/Template): validity of every generated selector, and the answer for every
// (selector, topic) pair. The library itself is the reference here: a disagreement means the *model* of the
// library is wrong (or the vendored library changed), not the hub.

type tplCase struct {
	Sel    string   `json:"sel"`
	Topics []string `json:"topics"`
}

var tplGoodLit = []string{"a", "b", "Z", "0", "_", "-", ".", "~", "/", ":", "?", "#", "[", "]", "@", "!", "$", "&", "'", "(", ")", "*", "+", ",", ";", "=", "%41", "é", "日本", "😀", "https://example.com/", "users/"}

var tplGoodVar = []string{"x", "id", "a_b", "v1", "a.b", "%41", "X9", "topic", "subscriber"}

var tplLitAtoms = []string{"a", "b", "Z", "0", "_", "-", ".", "~", "/", ":", "?", "#", "[", "]", "@", "!", "$", "&", "'", "(", ")", "*", "+", ",", ";", "=", "%41", "%zz", "%", "é", "日本", "😀", " ", "\"", "<", ">", "\\", "^", "`", "|", "}", "\x7f", " ", "﷐", "�", "\U0001fffe", "\U000e0001", "\U000e1000"}

var tplVarAtoms = []string{"x", "id", "a_b", "v1", "a.b", ".a", "a.", "a..b", "%41", "%4", "é", "a-b", "", "X9"}

func tplExpr(r *h.Rand) string {
	op := h.Pick(r, []string{"", "", "", "+", "#", ".", "/", ";", "?", "&"})
	if r.Chance(1, 25) {
		op = h.Pick(r, []string{"=", ",", "!", "@", "|", "-", "*"})
	}
	n := 1 + r.Intn(3)
	vs := make([]string, n)
	for i := range vs {
		v := h.Pick(r, tplGoodVar)
		if r.Chance(1, 20) {
			v = h.Pick(r, tplVarAtoms)
		}
		switch r.Intn(8) {
		case 0:
			v += ":" + h.Pick(r, []string{"1", "3", "9999", "12", "2", "5", "10000", "0", "01", "", "x"})
		case 1:
			v += "*"
		case 2:
			if r.Chance(1, 4) {
				v += "*:2"
			}
		}
		vs[i] = v
	}
	e := "{" + op + strings.Join(vs, ",") + "}"
	switch r.Intn(60) {
	case 0:
		e = "{" + op + strings.Join(vs, ",")
	case 1:
		e = e + "}"
	case 2:
		e = "{" + e
	case 3:
		e = "{}"
	}

	return e
}

func tplTemplate(r *h.Rand) string {
	var b strings.Builder
	for i := 1 + r.Intn(4); i > 0; i-- {
		if r.Chance(2, 3) {
			for k := r.Intn(3); k >= 0; k-- {
				if r.Chance(1, 15) {
					b.WriteString(h.Pick(r, tplLitAtoms))
				} else {
					b.WriteString(h.Pick(r, tplGoodLit))
				}
			}
		}
		if r.Chance(3, 4) {
			b.WriteString(tplExpr(r))
		}
	}

	return b.String()
}

var tplValues = []string{"", "a", "b", "foo", "a_b", "x/y", "é", "hello world", "50%", "a,b", "1", "k=v", "a&b", "a.b", "a;b", "?", "#", "%41", "日本"}

func tplTopics(r *h.Rand, sel string, t *uritemplate.Template) []string {
	var out []string
	if t != nil {
		for i := 0; i < 3; i++ {
			e := gen.Expand(r, t)
			out = append(out, e, gen.Perturb(r, e), e+h.Pick(r, []string{"?q", "#f", " ", "é", "/", ",", "=", "&", ";", ".", "%41", "%4", "%"}))
		}
		// a value per variable from a wider vocabulary
		vals := uritemplate.Values{}
		for _, n := range t.Varnames() {
			switch r.Intn(4) {
			case 0:
				vals.Set(n, uritemplate.List(h.Pick(r, tplValues), h.Pick(r, tplValues), h.Pick(r, tplValues)))
			case 1:
				vals.Set(n, uritemplate.KV("k", h.Pick(r, tplValues), "k2", h.Pick(r, tplValues)))
			default:
				vals.Set(n, uritemplate.String(h.Pick(r, tplValues)))
			}
		}
		if s, err := t.Expand(vals); err == nil {
			out = append(out, s)
		}
	}
	// the selector itself, its literal skeleton, and a random string over the literal vocabulary
	out = append(out, sel, strings.NewReplacer("{", "", "}", "").Replace(sel), "")
	var b strings.Builder
	for k := r.Intn(5); k >= 0; k-- {
		b.WriteString(h.Pick(r, tplLitAtoms))
	}
	out = append(out, b.String())

	return dedupe(out)
}

func runTplCase(c *h.Ctx, r *h.Report, cs tplCase) {
	t, err := uritemplate.New(cs.Sel)
	lines := []string{h.Line("tpl.valid", h.Hex(cs.Sel))}
	impl := []string{h.B(err == nil)}
	for _, topic := range cs.Topics {
		lines = append(lines, h.Line("tpl.match", h.Hex(cs.Sel), h.Hex(topic)))
		if err != nil {
			impl = append(impl, "invalid")
		} else {
			impl = append(impl, h.B(t.Regexp().MatchString(topic)))
		}
	}
	ans := c.Driver.Ask(lines)
	for i := range lines {
		r.Evaluations++
		if ans[i] != impl[i] {
			what := "validity of " + fmt.Sprintf("%q", cs.Sel)
			if i > 0 {
				what = fmt.Sprintf("selector %q topic %q", cs.Sel, cs.Topics[i-1])
			}
			r.Disagree(h.Disagreement{Class: "C11.template-library", Case: tplCase{Sel: cs.Sel, Topics: cs.Topics[max(i-1, 0):max(i, 1)]}, Model: ans[i], Impl: impl[i] + "  <= " + what, At: i})

			break
		}
	}
	if err == nil {
		r.Count("selector:valid")
		yes, no := false, false
		for i := 1; i < len(impl); i++ {
			yes = yes || impl[i] == "1"
			no = no || impl[i] == "0"
		}
		if yes && no {
			r.Nontrivial(cs.Sel)
		}
	} else {
		r.Count("selector:invalid")
	}
}

func runTpl(c *h.Ctx, r *h.Report) {
	r.Rule = "templates from a grammar wider than the one the other families use (every operator incl. the reserved ones, 1-3 variables with prefix / explode modifiers valid and invalid, dotted and percent-encoded names, literals over the whole literal vocabulary incl. characters the parser rejects, unbalanced braces) and, for each, topics: expansions for strings / lists / key-value values, perturbed expansions, expansions followed by a reserved character, the selector itself, its literal skeleton, random literal text. `uritemplate.New` and `Template.Regexp().MatchString` (the library, called directly) against the Lean model `Template.parse` / `Template.matchTemplate` (a backtracking matcher over the structure of the generated regular expression). Non-trivial = valid template with both a matching and a non-matching topic; distinct by selector."
	if c.Replay != "" {
		var rp struct {
			Case tplCase `json:"case"`
		}
		readReplay(c.Replay, &rp)
		runTplCase(c, r, rp.Case)

		return
	}
	// corpus: the shapes documented in the library's own tests and the hub's documentation
	for _, sel := range []string{"https://example.com/books/{id}", "https://example.com/{+path}", "{/a,b}", "{?q,page}", "{&x*}", "{;v:3}", "{#frag}", "{.ext*}", "/.well-known/mercure/subscriptions/{topic}/{subscriber}", "{a}{b}", "x{a,b*}y", "{", "}", "{a}}", "{a:0}", "{a:9999}", "{a:10000}", "{%41}", "{a..b}", "é{x}", "%zz{x}"} {
		rr := c.Rand.Fork()
		t, _ := uritemplate.New(sel)
		runTplCase(c, r, tplCase{Sel: sel, Topics: tplTopics(rr, sel, t)})
	}
	n := c.Scale(4000, 60000)
	for i := 0; i < n; i++ {
		rr := c.Rand.Fork()
		var sel string
		switch rr.Intn(4) {
		case 0:
			sel = gen.Template(rr)
		default:
			sel = tplTemplate(rr)
		}
		t, _ := uritemplate.New(sel)
		cs := tplCase{Sel: sel, Topics: tplTopics(rr, sel, t)}
		runTplCase(c, r, cs)
		if i < 3 {
			r.Sample(cs)
		}
	}
}
