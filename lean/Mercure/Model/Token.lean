import Mercure.Model.Claims
import Mercure.Model.Form
/-
  Mercure.Model.Token — from the compact serialisation of a token to the facts the decision model uses
  (`AbsToken`, Model/Auth): what golang-jwt v5's `Parser.ParseUnverified` does before any key is consulted.

      parts := strings.Split(token, ".")                       exactly three
      header  := base64.RawURLEncoding.DecodeString(parts[0])  → json.Unmarshal into map[string]interface{}
      claims  := base64.RawURLEncoding.DecodeString(parts[1])  → json.Unmarshal into &claims{}   (Model/Claims)
      alg     := header["alg"].(string)                        → jwt.GetSigningMethod(alg)
      sig     := base64.RawURLEncoding.DecodeString(parts[2])

  `base64.RawURLEncoding.DecodeString` (non-strict, no padding): the alphabet A–Z a–z 0–9 - _ ; `\r` and `\n`
  are skipped wherever they occur; any other character, or a final group of one character, is an error;
  the unused low bits of a final group are not checked.

  Signature verification (Go crypto) and the clock stay facts supplied by the harness.
-/
namespace Mercure.TokenBytes
open Mercure.ClaimsJson

def b64val (c : Char) : Option Nat :=
  let n := c.toNat
  if 65 ≤ n && n ≤ 90 then some (n - 65)
  else if 97 ≤ n && n ≤ 122 then some (n - 71)
  else if 48 ≤ n && n ≤ 57 then some (n + 4)
  else if c == '-' then some 62
  else if c == '_' then some 63
  else none

/-- the 6-bit values of the text, `\r` and `\n` skipped; `none` on any other character -/
def sextets : Str → Option (List Nat)
  | [] => some []
  | c :: rest =>
    if c == '\r' || c == '\n' then sextets rest
    else match b64val c with
      | none => none
      | some v => (sextets rest).map (v :: ·)

def bytesOfSextets : List Nat → Option (List UInt8)
  | a :: b :: c :: d :: rest =>
    (bytesOfSextets rest).map fun t =>
      UInt8.ofNat (a * 4 + b / 16) :: UInt8.ofNat (b % 16 * 16 + c / 4) :: UInt8.ofNat (c % 4 * 64 + d) :: t
  | [a, b, c] => some [UInt8.ofNat (a * 4 + b / 16), UInt8.ofNat (b % 16 * 16 + c / 4)]
  | [a, b] => some [UInt8.ofNat (a * 4 + b / 16)]
  | [_] => none
  | [] => some []

/-- `base64.RawURLEncoding.DecodeString` -/
def b64decode (s : Str) : Option (List UInt8) := (sextets s).bind bytesOfSextets

/-- `strings.Split(s, ".")` -/
def splitDots (s : Str) : List Str :=
  let rec go : Str → Str → List Str
    | [], cur => [cur.reverse]
    | c :: rest, cur => if c == '.' then cur.reverse :: go rest [] else go rest (c :: cur)
  go s []

/-- the methods registered with golang-jwt (`jwt.GetSigningMethod`) -/
def knownAlgs : List String :=
  ["HS256", "HS384", "HS512", "RS256", "RS384", "RS512", "ES256", "ES384", "ES512", "PS256", "PS384", "PS512", "EdDSA", "none"]

/-- the header's `alg`: the header must be a JSON object; the last member named exactly "alg" counts
    (a Go map: no case folding, later members overwrite); it must be a string -/
def headerAlg (hdr : Str) : Option Str :=
  match parseJSON hdr with
  | some (.obj kvs) =>
    match (kvs.reverse.find? fun kv => kv.1 == "alg".toList) with
    | some (_, .str a) => some a
    | _ => none
  | _ => none

inductive Derived where
  | outOfModel                                   -- a segment decodes to bytes that are not UTF-8
  | malformed                                    -- ParseUnverified fails: the token grants nothing
  | ok (alg : Str) (c : C)

/-- What `ParseUnverified` extracts from the compact serialisation. -/
def derive (tok : Str) : Derived :=
  match splitDots tok with
  | [h, p, s] =>
    match b64decode h, b64decode p, b64decode s with
    | some hb, some pb, some _ =>
      match Form.toStr hb, Form.toStr pb with
      | some hs, some ps =>
        match headerAlg hs, decode ps with
        | some a, some c => if knownAlgs.contains (String.ofList a) then .ok a c else .malformed
        | _, _ => .malformed
      | _, _ => .outOfModel
    | _, _, _ => .malformed
  | _ => .malformed

end Mercure.TokenBytes
