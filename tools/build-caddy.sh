#!/bin/bash
# Build the Caddy-module harness (vhc) against /repo's working tree; output path as $1 (default .build/vhc).
set -e
cd /verif
out=${1:-/verif/.build/vhc}
export GOFLAGS=-mod=mod GOPROXY=off CGO_ENABLED=0
unset GOSUMDB GOEXPERIMENT
mkdir -p .build
sort -u /repo/caddy/go.sum /repo/go.sum > harness-caddy/go.sum
echo '{"Replace": {"/repo/verif_export_verif.go": "/verif/harness/overlay/verif_export.go", "/repo/caddy/verif_export_verif.go": "/verif/harness-caddy/overlay/verif_export_caddy.go"}}' > .build/overlay-caddy.json
(cd harness-caddy && go build -tags verif -overlay ../.build/overlay-caddy.json -o "$out" .)
