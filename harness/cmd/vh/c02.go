package main

import (
	"encoding/hex"
	"encoding/json"
	"fmt"
	"hash/fnv"
	"net/url"
	"os"
	"path/filepath"
	"regexp"
	"strings"
	"time"

	"verifharness/pkg/gen"
	"verifharness/pkg/h"
	"verifharness/pkg/jws"

	"github.com/dunglas/mercure"
)

func init() { register("pub", "C02", runPub) }

type pubCase struct {
	Cfg         hubCfg   `json:"cfg"`
	ClaimsJSON  string   `json:"claims_json"`
	Carrier     string   `json:"carrier"` // header | query | cookie
	ContentType string   `json:"content_type"`
	Body        string   `json:"body"`
	RawQuery    string   `json:"raw_query"`
	Topics      []string `json:"topics"`
	// large bodies: the marker @PAD@ in Body stands for Pad bytes of padString (kept out of the replay file);
	// Big* are what the generator put after the padded data field
	Pad        int    `json:"pad,omitempty"`
	BigPrivate bool   `json:"big_private,omitempty"`
	BigID      string `json:"big_id,omitempty"`
	BigType    string `json:"big_type,omitempty"`
}

func (cs pubCase) body() string {
	if cs.Pad == 0 {
		return cs.Body
	}

	return strings.Replace(cs.Body, "@PAD@", padString(cs.Pad), 1)
}

var uuidRe = regexp.MustCompile(`^urn:uuid:[0-9a-f]{8}-[0-9a-f]{4}-4[0-9a-f]{3}-[89ab][0-9a-f]{3}-[0-9a-f]{12}$`)

func scratchDir() string {
	d, err := os.MkdirTemp("", "vh-")
	if err != nil {
		panic(err)
	}

	return d
}

func newBolt(dir string, size uint64, freq float64) *mercure.BoltTransport {
	t, err := mercure.NewBoltTransport(zapNop(), filepath.Join(dir, "h.db"), "", size, freq)
	if err != nil {
		panic(err)
	}

	return t
}

// watcher: a subscriber with topic "*" and claim "*", registered directly on the transport.
func addWatcher(f *fixture) *mercure.LocalSubscriber {
	tss, _ := mercure.NewTopicSelectorStoreLRU(0, 0)
	s := mercure.NewLocalSubscriber("", zapNop(), tss)
	s.SetTopics([]string{"*"}, []string{"*"})
	if err := f.tr.AddSubscriber(s); err != nil {
		panic(err)
	}

	return s
}

func drain(s *mercure.LocalSubscriber) []*mercure.Update {
	var us []*mercure.Update
	for {
		select {
		case u, ok := <-s.Receive():
			if !ok {
				return us
			}
			us = append(us, u)
		default:
			return us
		}
	}
}

func lastID(f *fixture) string {
	id, _, _ := f.tr.(mercure.TransportSubscribers).GetSubscribers()

	return id
}

func runPub(c *h.Ctx, r *h.Report) {
	r.Rule = "POST requests through Hub.ServeHTTP on both transports: publish claim in {absent, null, [], literals, templates, '*' at every position, namespaced fallback} built relative to the generated topics, with overlapping selectors (a topic covered twice) in one case out of four (each topic covered by a literal / a template / '*' / not covered; forbidden topic at every position), 1-5 topics, private absent/empty/any value, retry in a grammar of valid and invalid numerals, content types and malformed bodies, credential in header/query/cookie, compatibility mode on/off. After each request a '*' watcher, the transport's last event id and (Bolt) the stored history are compared with the model's state. Non-trivial = mixed covered/forbidden topic list, or refusal after successful authentication; distinct by content."
	o := gen.NewOracle()
	n := c.Scale(1500, 20000)
	now := time.Now()
	type fx struct {
		f   *fixture
		w   *mercure.LocalSubscriber
		dir string
		acc []string // accepted update ids, in order
	}
	fixtures := map[string]*fx{}
	getFx := func(cfg hubCfg) *fx {
		k := fmt.Sprint(cfg)
		if x, ok := fixtures[k]; ok {
			return x
		}
		x := &fx{}
		var tr mercure.Transport
		if cfg.Bolt {
			x.dir = scratchDir()
			tr = newBolt(x.dir, 0, 0)
		}
		x.f = newFixture(cfg, tr)
		x.w = addWatcher(x.f)
		fixtures[k] = x

		return x
	}
	defer func() {
		for _, x := range fixtures {
			x.f.tr.Close()
			if x.dir != "" {
				os.RemoveAll(x.dir)
			}
		}
	}()

	var cases []pubCase
	if c.Replay != "" {
		var rp struct {
			Case pubCase `json:"case"`
		}
		readReplay(c.Replay, &rp)
		cases = []pubCase{rp.Case}
	} else {
		for i := 0; i < n; i++ {
			cases = append(cases, genPubCase(c.Rand.Fork(), o))
		}
		cases = append(cases, largePubCases(c.Rand.Fork())...)
		cases = append(cases, collidingPubCases(c.Rand.Fork())...)
	}

	for _, cs := range cases {
		x := getFx(cs.Cfg)
		f := x.f
		body := cs.body()
		tok := jws.Mint(f.pubKey, cs.ClaimsJSON)
		a := authParts{}
		switch cs.Carrier {
		case "header":
			a.Headers = []string{"Bearer " + tok}
		case "query":
			a.Query = []string{tok}
		default:
			a.Cookies = []string{tok}
			a.Origin = "https://allowed.example"
		}
		// the harness's own reading of the body (net/url is the trusted base for form decoding)
		formOk := true
		var form url.Values
		if strings.HasPrefix(cs.ContentType, "application/x-www-form-urlencoded") {
			var err error
			// (the form-size limit of net/http's ParseForm is part of the reading)
			if len(body) > 10<<20 {
				formOk = false
			} else {
				form, err = url.ParseQuery(body)
				formOk = err == nil
			}
		}
		var claimSels []string
		fa := jws.Analyse(tok, map[string]*jws.Key{"p": f.pubKey}, now)
		eff := fa.Claims.Mercure
		if fa.Claims.Namespaced != nil {
			eff = *fa.Claims.Namespaced
		}
		claimSels = eff.Publish
		topics := form["topic"]
		lines := []string{f.cfgLine(), "or.reset"}
		lines = append(lines, o.Lines(dedupe(claimSels), dedupe(topics))...)
		lines = append(lines, f.tokLine(tok, now))
		lines = append(lines, h.Line(append(append([]string{"pub"}, a.wire(true)...), h.B(formOk), h.HexList(topics), h.Hex(form.Get("retry")),
			h.B(len(form["private"]) != 0), h.Hex(form.Get("data")), h.Hex(form.Get("id")), h.Hex(form.Get("type")))...))
		// the fields the hub reads from the body, by the model's own form decoding (Model/Form) — not only by net/url
		if strings.HasPrefix(cs.ContentType, "application/x-www-form-urlencoded") {
			if mf, gf := c.Driver.Ask1(h.Line("form.fields", hex.EncodeToString([]byte(body)))), goFields(body); mf != gf {
				r.Disagree(h.Disagreement{Class: "C02.form-fields", Case: cs, Model: short(mf), Impl: short(gf)})
			}
		}
		ans := c.Driver.Ask(lines)
		model := ans[len(ans)-1]

		before := lastID(f)
		w := f.doPublish(a, cs.ContentType, body, cs.RawQuery)
		got := drain(x.w)
		after := lastID(f)
		r.Evaluations++
		status := w.Status()
		r.Count(fmt.Sprintf("status:%d", status))
		r.Count("carrier:" + cs.Carrier)
		if cs.Cfg.Bolt {
			r.Count("transport:bolt")
		} else {
			r.Count("transport:local")
		}

		var impl string
		if status == 200 {
			if len(got) != 1 {
				r.Violate(h.Violation{Key: "C02:accepted-publish-delivered-not-exactly-once",
					What: fmt.Sprintf("a 200 publish delivered %d updates to the '*' watcher", len(got)), Replay: map[string]any{"family": "pub", "case": cs}})
				impl = fmt.Sprintf("200 delivered=%d", len(got))
			} else {
				u := got[0]
				id := u.ID
				genID := form.Get("id") == ""
				if w.Body() != u.ID || after != u.ID || (genID && !uuidRe.MatchString(u.ID)) {
					r.Violate(h.Violation{Key: "C02:id-not-echoed",
						What: fmt.Sprintf("publish answered body %q, delivered id %q, transport last id %q", w.Body(), u.ID, after), Replay: map[string]any{"family": "pub", "case": cs}})
				}
				if genID {
					id = ""
				}
				x.acc = append(x.acc, u.ID)
				if cs.Pad > 0 {
					r.Count("large-body:accepted")
					// what the publisher put after a large data field is part of the update (implementation alone)
					if cs.BigPrivate && !u.Private {
						r.Violate(h.Violation{Key: "C01:update-posted-as-private-dispatched-as-public",
							What: fmt.Sprintf("a publish whose body (%d bytes) carries private=on after the data field was dispatched with Private=false: every subscriber of the topic receives it", len(body)), Replay: map[string]any{"family": "pub", "case": cs}})
					}
					if u.ID != cs.BigID || u.Type != cs.BigType || u.Data != padString(cs.Pad) {
						r.Violate(h.Violation{Key: "C12:dispatched-update-differs-from-what-was-posted",
							What: fmt.Sprintf("posted id %q type %q data of %d bytes (body %d bytes); dispatched id %q type %q data of %d bytes", cs.BigID, cs.BigType, cs.Pad, len(body), u.ID, u.Type, len(u.Data)), Replay: map[string]any{"family": "pub", "case": cs}})
					}
				}
				// what is dispatched is what was posted in the body and checked against the claim — not more
				posted := map[string]bool{}
				for _, t := range topics {
					posted[t] = true
				}
				for _, t := range u.Topics {
					if !posted[t] {
						r.Violate(h.Violation{Key: "C02:dispatched-update-carries-a-topic-that-was-not-authorised",
							What: fmt.Sprintf("the update dispatched for a publish of body topics %q (URL query %q) carries topic %q, which was never matched against the publish claim", topics, cs.RawQuery, t), Replay: map[string]any{"family": "pub", "case": cs}})
					}
				}
				impl = fmt.Sprintf("200 id=%s topics=%s priv=%s retry=%d type=%s data=%s", h.Hex(id), h.HexList(sortedCopy(u.Topics, topics)), h.B(u.Private), u.Retry, h.Hex(u.Type), h.Hex(u.Data))
			}
		} else {
			impl = fmt.Sprintf("%d %s", status, h.Hex(w.Body()))
			// the "no effect at all" half, checked on the implementation alone
			if len(got) != 0 || after != before || status < 400 || status > 499 || strings.Contains(w.Body(), "urn:uuid:") {
				r.Violate(h.Violation{Key: "C02:refused-publish-had-an-effect",
					What:   fmt.Sprintf("a publish answered %d delivered %d updates; last event id %q -> %q; body %q", status, len(got), before, after, w.Body()),
					Replay: map[string]any{"family": "pub", "case": cs}})
			}
		}
		if impl != model {
			r.Disagree(h.Disagreement{Class: "C02.publish", Case: cs, Model: short(model), Impl: short(impl)})
		}
		// the rule, evaluated by the harness alone
		covered, forbidden := 0, 0
		for _, t := range topics {
			ok := false
			for _, s := range claimSels {
				ok = ok || s == "*" || o.Spec(t, s)
			}
			if ok {
				covered++
			} else {
				forbidden++
			}
		}
		private := len(form["private"]) != 0
		authorised := claimSels != nil && (forbidden == 0 || (cs.Cfg.Compat7 && !private))
		if status == 200 && !(authorised && formOk && len(topics) > 0) {
			r.Violate(h.Violation{Key: "C02:dispatched-without-authorisation-for-every-topic",
				What:   fmt.Sprintf("publish of topics %q (private=%v, compat7=%v) with publish claim %q was accepted", topics, private, cs.Cfg.Compat7, claimSels),
				Replay: map[string]any{"family": "pub", "case": cs}})
		}
		if (covered > 0 && forbidden > 0) || (status != 200 && claimSels != nil) {
			r.Nontrivial(fmt.Sprint(cs))
		}
		if covered > 0 && forbidden > 0 {
			r.Count("topics:mixed-covered-forbidden")
		}
		r.Sample(cs)
	}

	// Bolt: the stored history is exactly the accepted updates, in order
	for _, x := range fixtures {
		if !x.f.cfg.Bolt {
			continue
		}
		tss, _ := mercure.NewTopicSelectorStoreLRU(0, 0)
		s := mercure.NewLocalSubscriber("earliest", zapNop(), tss)
		s.SetTopics([]string{"*"}, []string{"*"})
		if len(x.acc) > 900 {
			continue // beyond the subscriber buffer; covered by C07/C13
		}
		if err := x.f.tr.AddSubscriber(s); err != nil {
			panic(err)
		}
		var ids []string
		for _, u := range drain(s) {
			ids = append(ids, u.ID)
		}
		r.Evaluations++
		if strings.Join(ids, "\n") != strings.Join(x.acc, "\n") {
			r.Violate(h.Violation{Key: "C02:stored-history-differs-from-accepted-updates",
				What: fmt.Sprintf("stored %d updates, accepted %d", len(ids), len(x.acc)), Replay: map[string]any{"family": "pub", "note": "history mismatch at end of run", "stored": ids, "accepted": x.acc}})
		}
	}
}

// sortedCopy: MatchAny sorts Update.Topics in place (encode); compare as the posted order when it is a permutation.
func sortedCopy(got, posted []string) []string {
	if len(got) != len(posted) {
		return got
	}
	cnt := map[string]int{}
	for _, t := range got {
		cnt[t]++
	}
	for _, t := range posted {
		cnt[t]--
	}
	for _, v := range cnt {
		if v != 0 {
			return got
		}
	}

	return posted
}

func genPubCase(rr *h.Rand, o *gen.Oracle) pubCase {
	cs := pubCase{Cfg: hubCfg{PubAlg: "HS256", SubAlg: "HS256", Compat7: rr.Chance(1, 3), Bolt: rr.Chance(1, 3), Origins: []string{"https://allowed.example"}}}
	cs.Carrier = h.Pick(rr, []string{"header", "header", "query", "cookie"})
	nt := 1 + rr.Intn(5)
	if rr.Chance(1, 25) {
		nt = 0
	}
	var claim []string
	for i := 0; i < nt; i++ {
		var topic string
		switch rr.Intn(9) {
		case 7, 8: // a claim `literal{var}`: the topic shares the literal; its remainder is an expansion of the variable or is not
			lit := "https://example.com/" + gen.Literal(rr, false) + "/"
			claim = append(claim, lit+"{id}")
			topic = lit + h.Pick(rr, []string{"1", "abc", "a,b", "%41", "1?role=admin", "a#f", "a:b", "a b", "é", "%zz", "a@b", "a=b", "a+b", "a;b", "a/b", ""})
		case 0, 5: // covered by an equal literal
			topic = gen.Literal(rr, false)
			claim = append(claim, topic)
		case 1, 6: // covered by a template
			t := gen.Template(rr)
			if o.Valid(t) {
				topic = gen.Expand(rr, tplOf(t))
				claim = append(claim, t)
			} else {
				topic = t
			}
		case 2: // near-miss of a template
			t := gen.Template(rr)
			if o.Valid(t) {
				topic = gen.Perturb(rr, gen.Expand(rr, tplOf(t)))
				claim = append(claim, t)
			} else {
				topic = "nm"
			}
		default: // not covered
			topic = "forbidden/" + gen.Literal(rr, false)
		}
		cs.Topics = append(cs.Topics, topic)
		// overlapping selectors: a topic covered twice (its own literal besides the template, or the same
		// selector again) must not make up for another topic that no selector covers
		if len(claim) > 0 && rr.Chance(1, 4) {
			if rr.Bool() {
				claim = append(claim, claim[len(claim)-1])
			} else {
				claim = append(claim, topic)
			}
		}
	}
	if rr.Chance(1, 5) {
		claim = append(claim, "*")
	}
	h.Shuffle(rr, claim)
	h.Shuffle(rr, cs.Topics)
	cj, _ := json.Marshal(claim)
	if claim == nil {
		cj = []byte("[]")
	}
	switch rr.Intn(14) {
	case 10: // namespaced claim present, its publish member absent (the plain claim is ignored then)
		cs.ClaimsJSON = `{"mercure":{"publish":["*"]},"https://mercure.rocks/":{"subscribe":["*"]}}`
	case 11:
		cs.ClaimsJSON = `{"https://mercure.rocks/":{"publish":null,"subscribe":["*"]}}`
	case 12:
		cs.ClaimsJSON = `{"https://mercure.rocks/":{"publish":[]}}`
	case 13:
		cs.ClaimsJSON = `{"https://mercure.rocks/":{"publish":` + string(cj) + `}}`
	case 0:
		cs.ClaimsJSON = `{"mercure":{"subscribe":["*"]}}` // publish absent
	case 1:
		cs.ClaimsJSON = `{"mercure":{"publish":null}}`
	case 2:
		cs.ClaimsJSON = `{"mercure":{"publish":[]}}`
	case 3:
		cs.ClaimsJSON = `{"mercure":{"publish":["nothing"]},"https://mercure.rocks/":{"publish":` + string(cj) + `}}`
	case 4:
		cs.ClaimsJSON = `{"mercure":{"publish":["*"]},"https://mercure.rocks/":{"publish":` + string(cj) + `}}`
	default:
		cs.ClaimsJSON = `{"mercure":{"publish":` + string(cj) + `}}`
	}
	form := url.Values{}
	for _, t := range cs.Topics {
		form.Add("topic", t)
	}
	switch rr.Intn(4) {
	case 0:
		form.Set("private", "")
	case 1:
		form.Set("private", h.Pick(rr, []string{"on", "0", "false", "x"}))
	}
	if rr.Chance(1, 3) {
		form.Set("retry", h.Pick(rr, []string{"0", "10", "3000", "42", "1", "10", "abc", "-1", "18446744073709551615", "18446744073709551616", " 5", "+5", "1_0", "００", "007", "1e3", "0x10"}))
	}
	if rr.Bool() {
		form.Set("id", h.Pick(rr, []string{"id-1", "urn:x", "é", "earliest", "a b"}))
	}
	if rr.Bool() {
		form.Set("type", h.Pick(rr, []string{"t", "message", "é"}))
	}
	form.Set("data", h.Pick(rr, []string{"", "d", "line1\nline2", "é日本", "a\r\nb"}))
	cs.Body = form.Encode()
	cs.ContentType = "application/x-www-form-urlencoded"
	switch rr.Intn(30) {
	case 0:
		cs.ContentType = "text/plain"
	case 1:
		cs.ContentType = "multipart/form-data; boundary=x"
	case 2:
		cs.ContentType = ""
	case 3:
		cs.Body = "topic=%zz&data=x"
	case 4:
		cs.Body += ";x=1"
	case 5:
		cs.ContentType = "application/x-www-form-urlencoded; charset=utf-8"
	}
	if rr.Chance(1, 6) {
		cs.RawQuery = "topic=from-url&private=1&retry=zz"
	}

	return cs
}

// largePubCases: bodies of 1 MiB and more (legal: net/http accepts forms up to 10 MiB), the fields a client
// usually sends after `data` (private, id, type) placed after a large data field; and one body over the limit.
func largePubCases(rr *h.Rand) []pubCase {
	var out []pubCase
	for _, sz := range []int{1<<20 + 17, 3 << 20, 10<<20 - 64, 10<<20 + 1} {
		cs := pubCase{Cfg: hubCfg{PubAlg: "HS256", SubAlg: "HS256", Bolt: rr.Bool(), Origins: []string{"https://allowed.example"}},
			Carrier: "header", ClaimsJSON: `{"mercure":{"publish":["*"]}}`, ContentType: "application/x-www-form-urlencoded",
			Topics: []string{"https://example.com/big"}, BigPrivate: true, BigID: "big-" + h.Itoa(sz), BigType: "large"}
		pre, post := "topic="+url.QueryEscape(cs.Topics[0])+"&data=", "&private=on&id="+cs.BigID+"&type="+cs.BigType
		cs.Pad = sz - len(pre) - len(post)
		cs.Body = pre + "@PAD@" + post
		out = append(out, cs)
	}

	return out
}

// collidingPubCases: a claim template, a topic it covers and a topic it does not cover whose match-cache keys
// (m_<selector>_<topic>) collide under FNV-32a, the hash of the sharded cache (birthday search). Posted one after
// the other on the same hub — covered first, then forbidden, and the other way round on the other transport: a
// cache that identifies an entry by anything coarser than its whole key answers the second from the first.
func collidingPubCases(rr *h.Rand) []pubCase {
	h32 := func(s string) uint32 {
		f := fnv.New32a()
		f.Write([]byte(s))

		return f.Sum32()
	}
	base := fmt.Sprintf("https://example.com/s%d", rr.Intn(100000))
	sel := base + "/books/{id}"
	seen := map[uint32]string{}
	const n = 1 << 17
	for i := 0; i < n; i++ {
		t := fmt.Sprintf("%s/books/%d", base, i)
		seen[h32("m_"+sel+"_"+t)] = t
	}
	var out []pubCase
	for i := 0; i < 8*n && len(out) < 8; i++ {
		t := fmt.Sprintf("%s/admin/alerts/%d", base, i)
		t1, ok := seen[h32("m_"+sel+"_"+t)]
		if !ok {
			continue
		}
		bolt := len(out)%4 >= 2
		mk := func(topic string) pubCase {
			return pubCase{Cfg: hubCfg{PubAlg: "HS256", SubAlg: "HS256", Bolt: bolt, Origins: []string{"https://allowed.example"}}, Carrier: "header",
				ClaimsJSON: `{"mercure":{"publish":["` + sel + `"]}}`, ContentType: "application/x-www-form-urlencoded", Topics: []string{topic},
				Body: url.Values{"topic": {topic}, "data": {"x"}, "private": {"on"}}.Encode()}
		}
		if bolt {
			out = append(out, mk(t), mk(t1), mk(t))
		} else {
			out = append(out, mk(t1), mk(t), mk(t1))
		}
	}

	return out
}
