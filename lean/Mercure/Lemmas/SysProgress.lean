import Mercure.Model.Sys
/-
  Deadlock freedom over the region-level model (`Mercure.Sys`), repaired flags.
  Put helper lemmas in this namespace only.
-/
namespace Mercure.Sys.Progress
open Mercure.Sys

/-! ### list plumbing -/

theorem zipIdx_map_getElem? {α} (l : List α) (i : Nat) (f : α → α) (j : Nat) :
    (l.zipIdx.map (fun p => if p.2 == i then f p.1 else p.1))[j]? = if j = i then l[j]?.map f else l[j]? := by
  simp [List.getElem?_map, List.getElem?_zipIdx]
  cases l[j]? <;> simp
  split <;> simp_all

theorem zipIdx_map_eq_set {α} (l : List α) (i : Nat) (f : α → α) (a : α) (h : l[i]? = some a) :
    l.zipIdx.map (fun p => if p.2 == i then f p.1 else p.1) = l.set i (f a) := by
  apply List.ext_getElem?
  intro j
  rw [zipIdx_map_getElem?, List.getElem?_set]
  by_cases hj : j = i
  · subst hj
    obtain ⟨hl, he⟩ := List.getElem?_eq_some_iff.1 h
    simp [hl, he]
  · have : ¬ i = j := fun e => hj e.symm
    simp [hj, this]

@[simp] theorem setThread_threads_getElem? (σ : Sys) (i j : Nat) (F : Thread → Thread) :
    (setThread σ i F).threads[j]? = if j = i then σ.threads[j]?.map F else σ.threads[j]? :=
  zipIdx_map_getElem? ..
@[simp] theorem setThread_flags (σ : Sys) (i : Nat) (F : Thread → Thread) : (setThread σ i F).flags = σ.flags := rfl
@[simp] theorem setThread_tr (σ : Sys) (i : Nat) (F : Thread → Thread) : (setThread σ i F).tr = σ.tr := rfl
@[simp] theorem setThread_subs (σ : Sys) (i : Nat) (F : Thread → Thread) : (setThread σ i F).subs = σ.subs := rfl
@[simp] theorem setThread_panic (σ : Sys) (i : Nat) (F : Thread → Thread) : (setThread σ i F).panic = σ.panic := rfl
@[simp] theorem setTr_tr (σ : Sys) (g : Tr → Tr) : (setTr σ g).tr = g σ.tr := rfl
@[simp] theorem setTr_flags (σ : Sys) (g : Tr → Tr) : (setTr σ g).flags = σ.flags := rfl
@[simp] theorem setTr_subs (σ : Sys) (g : Tr → Tr) : (setTr σ g).subs = σ.subs := rfl
@[simp] theorem setTr_threads (σ : Sys) (g : Tr → Tr) : (setTr σ g).threads = σ.threads := rfl
@[simp] theorem setTr_panic (σ : Sys) (g : Tr → Tr) : (setTr σ g).panic = σ.panic := rfl
@[simp] theorem setSub_tr (σ : Sys) (s : Nat) (f : Sub → Sub) : (setSub σ s f).tr = σ.tr := rfl
@[simp] theorem setSub_flags (σ : Sys) (s : Nat) (f : Sub → Sub) : (setSub σ s f).flags = σ.flags := rfl
@[simp] theorem setSub_threads (σ : Sys) (s : Nat) (f : Sub → Sub) : (setSub σ s f).threads = σ.threads := rfl
@[simp] theorem setSub_panic (σ : Sys) (s : Nat) (f : Sub → Sub) : (setSub σ s f).panic = σ.panic := rfl
@[simp] theorem setSub_subs_length (σ : Sys) (s : Nat) (f : Sub → Sub) : (setSub σ s f).subs.length = σ.subs.length := by
  simp [setSub]
theorem setSub_subs_getElem? (σ : Sys) (s j : Nat) (f : Sub → Sub) :
    (setSub σ s f).subs[j]? = if j = s then σ.subs[j]?.map f else σ.subs[j]? :=
  zipIdx_map_getElem? ..

@[simp] theorem getSub_setThread (σ : Sys) (i : Nat) (F : Thread → Thread) (s : Nat) :
    getSub (setThread σ i F) s = getSub σ s := rfl
@[simp] theorem getSub_setTr (σ : Sys) (g : Tr → Tr) (s : Nat) : getSub (setTr σ g) s = getSub σ s := rfl

theorem getSub_eq (σ : Sys) (s : Nat) : getSub σ s = (σ.subs[s]?).getD { topics := [] } := by
  simp [getSub]

theorem getSub_of_ge (σ : Sys) (s : Nat) (h : σ.subs.length ≤ s) : getSub σ s = { topics := [] } := by
  rw [getSub_eq, List.getElem?_eq_none h]; rfl

theorem getSub_setSub (σ : Sys) (s s' : Nat) (f : Sub → Sub) :
    getSub (setSub σ s f) s' = if s' = s ∧ s < σ.subs.length then f (getSub σ s) else getSub σ s' := by
  rw [getSub_eq, setSub_subs_getElem?, getSub_eq, getSub_eq]
  by_cases h : s' = s
  · subst h
    by_cases h2 : s' < σ.subs.length
    · simp [h2]
    · simp [h2]
  · simp [h]

theorem setTr_id (σ : Sys) : setTr σ (fun t => t) = σ := rfl

theorem setSub_id (σ : Sys) (s : Nat) : setSub σ s (fun b => b) = σ := by
  have : σ.subs.zipIdx.map (fun p => if p.2 == s then p.1 else p.1) = σ.subs := by
    apply List.ext_getElem?
    intro j
    rw [zipIdx_map_getElem? σ.subs s (fun b => b) j]; cases σ.subs[j]? <;> simp
  show ({ σ with subs := σ.subs.zipIdx.map (fun p => if p.2 == s then p.1 else p.1) } : Sys) = σ
  rw [this]


/-! ### regions -/

def isSub : Frame → Bool
  | .sDispatch .. | .sReady .. | .sDisconnect .. => true
  | _ => false

/-- Stacks have at most two frames; a callee is always a subscriber procedure on a transport one. -/
def okStack : List Frame → Bool
  | [] => true
  | [_] => true
  | [f, g] => isSub f && !isSub g
  | _ => false

def frameOut : Frame → Option Nat
  | .sDispatch s _ _ pc => if 4 ≤ pc then some s else none
  | .sReady s pc _ => if 2 ≤ pc then some s else none
  | .sDisconnect s pc => if 2 ≤ pc then some s else none
  | _ => none

def holdsOut : List Frame → Option Nat
  | fr :: _ => frameOut fr
  | [] => none

def frameLive : Frame → Option Nat
  | .sReady s pc _ => if 1 ≤ pc then some s else none
  | _ => none

def holdsLive : List Frame → Option Nat
  | fr :: _ => frameLive fr
  | [] => none

def frameWriter (k : Kind) : Frame → Bool
  | .tDispatch _ pc _ => decide (2 ≤ pc)
  | .tAdd _ pc _ _ _ => match k with | .bolt => pc == 2 | .local => pc == 2 || decide (4 ≤ pc)
  | .tRemove _ pc => decide (2 ≤ pc)
  | .tClose pc _ => match k with | .bolt => decide (3 ≤ pc) | .local => decide (2 ≤ pc)
  | _ => false

def holdsWriter (k : Kind) (stk : List Frame) : Bool := stk.any (frameWriter k)

def frameOnce : Frame → Bool
  | .tClose pc _ => decide (1 ≤ pc)
  | _ => false

def inOnce (stk : List Frame) : Bool := stk.any frameOnce

def frameReading : Frame → Bool
  | .tAdd _ pc _ _ _ => decide (4 ≤ pc) && pc != 7
  | _ => false

def reading (stk : List Frame) : Bool := stk.any frameReading

def frameAdmin : Frame → Bool
  | .tDispatch _ pc _ => pc == 9
  | .tAdd _ pc _ _ _ => pc == 7 || pc == 8
  | .tClose pc _ => pc == 9
  | _ => false

def adminTop : List Frame → Bool
  | fr :: _ => frameAdmin fr
  | [] => false

@[simp] theorem holdsOut_cons (fr : Frame) (rest : List Frame) : holdsOut (fr :: rest) = frameOut fr := rfl
@[simp] theorem holdsOut_nil : holdsOut [] = none := rfl
@[simp] theorem holdsLive_cons (fr : Frame) (rest : List Frame) : holdsLive (fr :: rest) = frameLive fr := rfl
@[simp] theorem holdsLive_nil : holdsLive [] = none := rfl
@[simp] theorem adminTop_cons (fr : Frame) (rest : List Frame) : adminTop (fr :: rest) = frameAdmin fr := rfl
@[simp] theorem adminTop_nil : adminTop [] = false := rfl
@[simp] theorem okStack_nil : okStack [] = true := rfl
@[simp] theorem okStack_single (f : Frame) : okStack [f] = true := rfl
@[simp] theorem okStack_pair (f g : Frame) : okStack [f, g] = (isSub f && !isSub g) := rfl
@[simp] theorem holdsWriter_cons (k : Kind) (fr : Frame) (rest : List Frame) :
    holdsWriter k (fr :: rest) = (frameWriter k fr || holdsWriter k rest) := rfl
@[simp] theorem holdsWriter_nil (k : Kind) : holdsWriter k [] = false := rfl
@[simp] theorem inOnce_cons (fr : Frame) (rest : List Frame) : inOnce (fr :: rest) = (frameOnce fr || inOnce rest) := rfl
@[simp] theorem inOnce_nil : inOnce [] = false := rfl
@[simp] theorem reading_cons (fr : Frame) (rest : List Frame) : reading (fr :: rest) = (frameReading fr || reading rest) := rfl
@[simp] theorem reading_nil : reading [] = false := rfl

/-- The lock/region invariant (administrative frames may be on top). -/
structure InvX (σ : Sys) : Prop where
  flags : σ.flags = Flags.repaired
  ok : ∀ (j : Nat) (th : Thread), σ.threads[j]? = some th → okStack th.stack = true
  outF : ∀ s j, (getSub σ s).outOwner = some j → ∃ th : Thread, σ.threads[j]? = some th ∧ holdsOut th.stack = some s
  outB : ∀ (s j : Nat) (th : Thread), σ.threads[j]? = some th → holdsOut th.stack = some s → s < σ.subs.length →
          (getSub σ s).outOwner = some j
  liveF : ∀ s j, (getSub σ s).liveOwner = some j → ∃ th : Thread, σ.threads[j]? = some th ∧ holdsLive th.stack = some s
  wrF : ∀ j, σ.tr.writer = some j → ∃ th : Thread, σ.threads[j]? = some th ∧ holdsWriter σ.tr.kind th.stack = true
  onceF : ∀ j, σ.tr.onceRunning = some j → ∃ th : Thread, σ.threads[j]? = some th ∧ inOnce th.stack = true
  rd : σ.tr.kind = .bolt → σ.tr.readers ≤ σ.threads.countP (fun t => reading t.stack)

structure Inv (σ : Sys) : Prop extends InvX σ where
  noAdm : ∀ (j : Nat) (th : Thread), σ.threads[j]? = some th → adminTop th.stack = false

/-! ### generic resource lemmas -/

theorem res_fwd {threads threads' : List Thread} {i : Nat} {th : Thread} {stk' : List Frame}
    (holds : List Frame → Bool) (own own' : Option Nat)
    (hth : threads[i]? = some th)
    (hi : ∃ th', threads'[i]? = some th' ∧ th'.stack = stk')
    (ho : ∀ j, j ≠ i → threads'[j]? = threads[j]?)
    (h : ∀ j, own = some j → ∃ t, threads[j]? = some t ∧ holds t.stack = true)
    (eff : (own' = own ∧ (holds th.stack = true → holds stk' = true)) ∨ (own' = some i ∧ holds stk' = true) ∨ own' = none) :
    ∀ j, own' = some j → ∃ t, threads'[j]? = some t ∧ holds t.stack = true := by
  intro j hj
  obtain ⟨th', hth', hs'⟩ := hi
  rcases eff with ⟨e, hh⟩ | ⟨e, hh⟩ | e
  · rw [e] at hj
    obtain ⟨t, ht, hht⟩ := h j hj
    by_cases hji : j = i
    · subst hji
      rw [hth] at ht; cases ht
      exact ⟨th', hth', by rw [hs']; exact hh hht⟩
    · exact ⟨t, by rw [ho j hji]; exact ht, hht⟩
  · rw [e] at hj; cases hj
    exact ⟨th', hth', by rw [hs']; exact hh⟩
  · rw [e] at hj; cases hj

theorem res_bwd {threads threads' : List Thread} {i : Nat} {th : Thread} {stk' : List Frame}
    (holds : List Frame → Bool) (own own' : Option Nat)
    (hth : threads[i]? = some th)
    (hi : ∃ th', threads'[i]? = some th' ∧ th'.stack = stk')
    (ho : ∀ j, j ≠ i → threads'[j]? = threads[j]?)
    (h : ∀ j t, threads[j]? = some t → holds t.stack = true → own = some j)
    (eff : (own' = own ∧ (holds stk' = true → holds th.stack = true)) ∨ (own = none ∧ own' = some i)
        ∨ (holds th.stack = true ∧ holds stk' = false)) :
    ∀ j t, threads'[j]? = some t → holds t.stack = true → own' = some j := by
  intro j t ht hht
  obtain ⟨th', hth', hs'⟩ := hi
  by_cases hji : j = i
  · subst hji
    rw [hth'] at ht; cases ht
    rw [hs'] at hht
    rcases eff with ⟨e, hh⟩ | ⟨e, e'⟩ | ⟨e, e'⟩
    · rw [e]; exact h j th hth (hh hht)
    · exact e'
    · rw [e'] at hht; cases hht
  · rw [ho j hji] at ht
    have := h j t ht hht
    rcases eff with ⟨e, hh⟩ | ⟨e, e'⟩ | ⟨e, e'⟩
    · rw [e]; exact this
    · rw [e] at this; cases this
    · have h2 := h i th hth e
      rw [this] at h2; cases h2; exact absurd rfl hji

/-! ### micro-steps -/

/-- The shape of every micro-step of thread `i`. -/
def mk (σ : Sys) (s0 : Nat) (f : Sub → Sub) (g : Tr → Tr) (i : Nat) (stk' : List Frame)
    (r : Option Ret) (l : Option Bool) : Sys :=
  setThread (setTr (setSub σ s0 f) g) i (fun t => retOf stk' t r l)

@[simp] theorem retOf_stack (stk : List Frame) (t : Thread) (r l) : (retOf stk t r l).stack = stk := rfl

def LockEff (own : Sub → Option Nat) (holds : List Frame → Option Nat) (σ : Sys) (i s0 : Nat) (f : Sub → Sub)
    (stk stk' : List Frame) : Prop :=
  ((∀ b, own (f b) = own b) ∧ holds stk' = holds stk)
  ∨ ((∀ b, own (f b) = some i) ∧ own (getSub σ s0) = none ∧ holds stk = none ∧ holds stk' = some s0)
  ∨ ((∀ b, own (f b) = none) ∧ holds stk = some s0 ∧ holds stk' = none)

def OwnEff (own own' : Option Nat) (i : Nat) (h h' : Bool) : Prop :=
  (own' = own ∧ (h = true → h' = true)) ∨ (own' = some i ∧ h' = true) ∨ own' = none

def RdEff (rd rd' : Nat) (h h' : Bool) : Prop :=
  ∀ c, h.toNat ≤ c → rd ≤ c → rd' ≤ c - h.toNat + h'.toNat

section
variable {σ : Sys} {s0 : Nat} {f : Sub → Sub} {g : Tr → Tr} {i : Nat} {stk' : List Frame}
  {r : Option Ret} {l : Option Bool} {th : Thread}

theorem mk_thr_i (hth : σ.threads[i]? = some th) :
    ∃ th', (mk σ s0 f g i stk' r l).threads[i]? = some th' ∧ th'.stack = stk' := by
  refine ⟨retOf stk' th r l, ?_, rfl⟩
  simp [mk, hth]

theorem mk_thr_o : ∀ j, j ≠ i → (mk σ s0 f g i stk' r l).threads[j]? = σ.threads[j]? := by
  intro j hj
  simp [mk, hj]

theorem getSub_mk (s : Nat) :
    getSub (mk σ s0 f g i stk' r l) s = if s = s0 ∧ s0 < σ.subs.length then f (getSub σ s0) else getSub σ s := by
  simp [mk, getSub_setSub]

theorem lock_fwd (own : Sub → Option Nat) (holds : List Frame → Option Nat)
    (hdef : own { topics := [] } = none)
    (hth : σ.threads[i]? = some th)
    (h : ∀ s j, own (getSub σ s) = some j → ∃ t, σ.threads[j]? = some t ∧ holds t.stack = some s)
    (eff : LockEff own holds σ i s0 f th.stack stk') :
    ∀ s j, own (getSub (mk σ s0 f g i stk' r l) s) = some j →
      ∃ t, (mk σ s0 f g i stk' r l).threads[j]? = some t ∧ holds t.stack = some s := by
  intro s
  have key := res_fwd (threads := σ.threads) (threads' := (mk σ s0 f g i stk' r l).threads)
    (fun stk => holds stk == some s) (own (getSub σ s)) (own (getSub (mk σ s0 f g i stk' r l) s))
    hth (mk_thr_i hth) mk_thr_o (by simpa using h s)
  simp only [beq_iff_eq] at key
  apply key
  rw [getSub_mk]
  by_cases hs : s = s0 ∧ s0 < σ.subs.length
  · obtain ⟨rfl, hlen⟩ := hs
    rw [if_pos ⟨rfl, hlen⟩]
    rcases eff with ⟨e, hh⟩ | ⟨e, _, _, hh⟩ | ⟨e, _, _⟩
    · left; exact ⟨e _, by rw [hh]; exact id⟩
    · right; left; exact ⟨e _, hh⟩
    · right; right; exact e _
  · rw [if_neg hs]
    by_cases hlen : s < σ.subs.length
    · have hne : s ≠ s0 := fun e => hs ⟨e, e ▸ hlen⟩
      left; refine ⟨rfl, ?_⟩
      rcases eff with ⟨_, hh⟩ | ⟨_, _, h1, h2⟩ | ⟨_, h1, h2⟩
      · rw [hh]; exact id
      · rw [h1]; intro hc; cases hc
      · rw [h1]; intro hc; cases hc; exact absurd rfl hne
    · right; right
      rw [getSub_of_ge σ s (Nat.le_of_not_lt hlen)]; exact hdef

theorem lock_bwd (own : Sub → Option Nat) (holds : List Frame → Option Nat)
    (hth : σ.threads[i]? = some th)
    (h : ∀ s j t, σ.threads[j]? = some t → holds t.stack = some s → s < σ.subs.length → own (getSub σ s) = some j)
    (eff : LockEff own holds σ i s0 f th.stack stk') :
    ∀ s j t, (mk σ s0 f g i stk' r l).threads[j]? = some t → holds t.stack = some s →
      s < (mk σ s0 f g i stk' r l).subs.length → own (getSub (mk σ s0 f g i stk' r l) s) = some j := by
  intro s j t ht hht hlen0
  have hlen : s < σ.subs.length := by simpa [mk] using hlen0
  clear hlen0
  have key := res_bwd (threads := σ.threads) (threads' := (mk σ s0 f g i stk' r l).threads)
    (fun stk => holds stk == some s) (own (getSub σ s)) (own (getSub (mk σ s0 f g i stk' r l) s))
    hth (mk_thr_i hth) mk_thr_o (by intro j t h1 h2; exact h s j t h1 (by simpa using h2) hlen)
  simp only [beq_iff_eq] at key
  refine key ?_ j t ht hht
  rw [getSub_mk]
  by_cases hs : s = s0
  · subst hs
    rw [if_pos ⟨rfl, hlen⟩]
    rcases eff with ⟨e, hh⟩ | ⟨e, h0, _, hh⟩ | ⟨e, h1, h2⟩
    · left; exact ⟨e _, by rw [hh]; exact id⟩
    · right; left; exact ⟨h0, e _⟩
    · right; right; refine ⟨h1, ?_⟩; rw [h2]; simp
  · rw [if_neg (fun h => hs h.1)]
    left; refine ⟨rfl, ?_⟩
    rcases eff with ⟨_, hh⟩ | ⟨_, _, h1, h2⟩ | ⟨_, h1, h2⟩
    · rw [hh]; exact id
    · rw [h2]; intro hc; cases hc; exact absurd rfl hs
    · rw [h2]; intro hc; cases hc

theorem countP_mk (p : Thread → Bool) (hth : σ.threads[i]? = some th) :
    (mk σ s0 f g i stk' r l).threads.countP p
      = σ.threads.countP p - (p th).toNat + (p (retOf stk' th r l)).toNat ∧ (p th).toNat ≤ σ.threads.countP p := by
  obtain ⟨hl, he⟩ := List.getElem?_eq_some_iff.1 hth
  have e : (mk σ s0 f g i stk' r l).threads = σ.threads.set i (retOf stk' th r l) :=
    zipIdx_map_eq_set σ.threads i (fun t => retOf stk' t r l) th hth
  rw [e, List.countP_set hl, he]
  have := List.boole_getElem_le_countP (p := p) hl
  rw [he] at this
  constructor
  · cases p th <;> cases p (retOf stk' th r l) <;> simp
  · cases h : p th <;> simp [h] at this ⊢; exact this

theorem invX_mk (h : InvX σ) (hth : σ.threads[i]? = some th)
    (hok : okStack stk' = true)
    (hk : (g σ.tr).kind = σ.tr.kind)
    (hout : LockEff Sub.outOwner holdsOut σ i s0 f th.stack stk')
    (hlive : LockEff Sub.liveOwner holdsLive σ i s0 f th.stack stk')
    (hwr : OwnEff σ.tr.writer (g σ.tr).writer i (holdsWriter σ.tr.kind th.stack) (holdsWriter σ.tr.kind stk'))
    (honce : OwnEff σ.tr.onceRunning (g σ.tr).onceRunning i (inOnce th.stack) (inOnce stk'))
    (hrd : σ.tr.kind = .bolt → RdEff σ.tr.readers (g σ.tr).readers (reading th.stack) (reading stk')) :
    InvX (mk σ s0 f g i stk' r l) := by
  have hi := mk_thr_i (s0 := s0) (f := f) (g := g) (stk' := stk') (r := r) (l := l) hth
  have ho := mk_thr_o (σ := σ) (s0 := s0) (f := f) (g := g) (i := i) (stk' := stk') (r := r) (l := l)
  have htr : (mk σ s0 f g i stk' r l).tr = g σ.tr := rfl
  refine ⟨h.flags, ?_, ?_, ?_, ?_, ?_, ?_, ?_⟩
  · intro j t ht
    by_cases hj : j = i
    · subst hj
      obtain ⟨t', ht', hs'⟩ := hi
      rw [ht'] at ht; cases ht; rw [hs']; exact hok
    · rw [ho j hj] at ht; exact h.ok j t ht
  · exact lock_fwd Sub.outOwner holdsOut rfl hth h.outF hout
  · exact lock_bwd Sub.outOwner holdsOut hth h.outB hout
  · exact lock_fwd Sub.liveOwner holdsLive rfl hth h.liveF hlive
  · rw [htr, hk]
    exact res_fwd (holdsWriter σ.tr.kind) σ.tr.writer (g σ.tr).writer hth hi ho h.wrF hwr
  · rw [htr]
    exact res_fwd inOnce σ.tr.onceRunning (g σ.tr).onceRunning hth hi ho h.onceF honce
  · rw [htr, hk]
    intro hb
    obtain ⟨e, hle⟩ := countP_mk (s0 := s0) (f := f) (g := g) (stk' := stk') (r := r) (l := l)
      (fun t => reading t.stack) hth
    rw [e]
    exact hrd hb _ hle (h.rd hb)

end


theorem admin_none_of_not_top (σ : Sys) (i : Nat) (h : ∀ th, σ.threads[i]? = some th → adminTop th.stack = false) :
    admin σ i = none := by
  unfold admin
  split
  · rfl
  · rename_i th hth
    have := h th hth
    split <;> simp_all [frameAdmin]

theorem scanLoop_shape (fl : Flags) (sb : Sub) (s toSeq fuel : Nat) (l : List (Nat × Upd)) (resp : Resp) :
    scanLoop fl sb s toSeq fuel l resp = [.tAdd s 4 toSeq [] resp] ∨
    ∃ u more, scanLoop fl sb s toSeq fuel l resp = [.sDispatch s u true 0, .tAdd s 8 toSeq more resp] := by
  induction fuel generalizing l with
  | zero => cases l <;> simp [scanLoop]
  | succ n ih =>
    cases l with
    | nil => simp [scanLoop]
    | cons e more =>
      simp only [scanLoop]
      split
      · simp
      · split
        · right; exact ⟨_, _, rfl⟩
        · split
          · simp
          · exact ih more

structure Conds (σ : Sys) (i s0 : Nat) (f : Sub → Sub) (g : Tr → Tr) (stk stk' : List Frame) : Prop where
  ok : okStack stk' = true
  kind : (g σ.tr).kind = σ.tr.kind
  out : LockEff Sub.outOwner holdsOut σ i s0 f stk stk'
  live : LockEff Sub.liveOwner holdsLive σ i s0 f stk stk'
  wr : OwnEff σ.tr.writer (g σ.tr).writer i (holdsWriter σ.tr.kind stk) (holdsWriter σ.tr.kind stk')
  once : OwnEff σ.tr.onceRunning (g σ.tr).onceRunning i (inOnce stk) (inOnce stk')
  rd : σ.tr.kind = .bolt → RdEff σ.tr.readers (g σ.tr).readers (reading stk) (reading stk')

theorem invX_mk' {σ : Sys} {s0 : Nat} {f : Sub → Sub} {g : Tr → Tr} {i : Nat} {stk' : List Frame}
    {r : Option Ret} {l : Option Bool} {th : Thread}
    (h : InvX σ) (hth : σ.threads[i]? = some th) (c : Conds σ i s0 f g th.stack stk') :
    InvX (mk σ s0 f g i stk' r l) :=
  invX_mk h hth c.ok c.kind c.out c.live c.wr c.once c.rd

/-- What the scan loop leaves on the stack: the read transaction stays open. -/
theorem scanLoop_facts (fl : Flags) (sb : Sub) (s toSeq fuel : Nat) (l : List (Nat × Upd)) (resp : Resp) (k : Kind) :
    okStack (scanLoop fl sb s toSeq fuel l resp) = true ∧
    holdsOut (scanLoop fl sb s toSeq fuel l resp) = none ∧
    holdsLive (scanLoop fl sb s toSeq fuel l resp) = none ∧
    holdsWriter k (scanLoop fl sb s toSeq fuel l resp) = (match k with | .bolt => false | .local => true) ∧
    inOnce (scanLoop fl sb s toSeq fuel l resp) = false ∧
    reading (scanLoop fl sb s toSeq fuel l resp) = true ∧
    adminTop (scanLoop fl sb s toSeq fuel l resp) = false := by
  rcases scanLoop_shape fl sb s toSeq fuel l resp with e | ⟨u, more, e⟩ <;> rw [e] <;> cases k <;>
    simp [isSub, frameOut, frameLive, frameWriter, frameOnce, frameReading, frameAdmin]


theorem rest_nil_of_base {fr : Frame} {rest : List Frame} (h : okStack (fr :: rest) = true) (hb : isSub fr = false) :
    rest = [] := by
  match rest, h with
  | [], _ => rfl
  | [g], h => simp [okStack, hb] at h
  | _ :: _ :: _, h => simp [okStack] at h

theorem rest_of_sub {fr : Frame} {rest : List Frame} (h : okStack (fr :: rest) = true) :
    rest = [] ∨ ∃ g, rest = [g] ∧ isSub g = false := by
  match rest, h with
  | [], _ => exact Or.inl rfl
  | [g], h => right; simp [okStack] at h; exact ⟨g, rfl, h.2⟩
  | _ :: _ :: _, h => simp [okStack] at h

section
variable {σ : Sys} {s0 : Nat} {f : Sub → Sub} {g : Tr → Tr} {i : Nat} {stk' : List Frame}
  {r : Option Ret} {l : Option Bool} {th : Thread}

theorem mk_none_eq : setThread σ i (fun t => retOf stk' t r l) = mk σ 0 (fun b => b) (fun t => t) i stk' r l := by
  simp [mk, setSub_id, setTr_id]
theorem mk_tr_eq : setThread (setTr σ g) i (fun t => retOf stk' t r l) = mk σ 0 (fun b => b) g i stk' r l := by
  simp [mk, setSub_id]
theorem mk_sub_eq : setThread (setSub σ s0 f) i (fun t => retOf stk' t r l) = mk σ s0 f (fun t => t) i stk' r l := rfl
theorem mk_both_eq : setThread (setTr (setSub σ s0 f) g) i (fun t => retOf stk' t r l) = mk σ s0 f g i stk' r l := rfl

theorem mk_admin_post (hx : InvX σ) (hth : σ.threads[i]? = some th)
    (c : Conds σ i 0 (fun b => b) g th.stack stk')
    (hnt : adminTop stk' = false ∧ holdsOut stk' = none) :
    InvX (mk σ 0 (fun b => b) g i stk' r l) ∧
    (∀ th', (mk σ 0 (fun b => b) g i stk' r l).threads[i]? = some th' →
      adminTop th'.stack = false ∧ holdsOut th'.stack = none) ∧
    (∀ j, j ≠ i → (mk σ 0 (fun b => b) g i stk' r l).threads[j]? = σ.threads[j]?) ∧
    (mk σ 0 (fun b => b) g i stk' r l).subs = σ.subs ∧
    (mk σ 0 (fun b => b) g i stk' r l).panic = σ.panic := by
  refine ⟨invX_mk' hx hth c, ?_, mk_thr_o, ?_, rfl⟩
  · intro th' h'
    obtain ⟨t, ht, hs⟩ := mk_thr_i (s0 := 0) (f := fun b => b) (g := g) (stk' := stk') (r := r) (l := l) hth
    rw [ht] at h'; cases h'; rw [hs]; exact hnt
  · simp [mk, setSub_id]
end

macro "conds_simp" : tactic =>
  `(tactic| simp_all [isSub, frameOut, frameLive, frameWriter, frameOnce, frameReading, frameAdmin,
      LockEff, OwnEff, RdEff])

macro "admin_leaf" : tactic =>
  `(tactic| (cases ‹some _ = some _›
             first | rw [mk_tr_eq] | rw [mk_none_eq]
             refine mk_admin_post ‹InvX _› ‹_ = some _› ?_ ?_
             · constructor
               all_goals conds_simp
             · conds_simp))

theorem admin_some {σ σ' : Sys} {i : Nat} (hx : InvX σ) (h : admin σ i = some σ') :
    InvX σ' ∧ (∀ th', σ'.threads[i]? = some th' → adminTop th'.stack = false ∧ holdsOut th'.stack = none) ∧
    (∀ j, j ≠ i → σ'.threads[j]? = σ.threads[j]?) ∧ σ'.subs = σ.subs ∧ σ'.panic = σ.panic := by
  cases hth : σ.threads[i]? with
  | none => simp [admin, hth] at h
  | some th =>
    have hok := hx.ok i th hth
    have hfl := hx.flags
    unfold admin at h
    simp only [hth] at h
    split at h
    · rename_i u recips rest hstk
      have hrest : rest = [] := rest_nil_of_base (hstk ▸ hok) rfl
      subst hrest
      split at h
      · admin_leaf
      · split at h
        · rename_i hc; rw [hfl] at hc; cases hc
        · admin_leaf
        · admin_leaf
    · rename_i s toSeq scan resp rest hstk
      have hrest : rest = [] := rest_nil_of_base (hstk ▸ hok) rfl
      subst hrest
      split at h
      · admin_leaf
      · split at h
        · admin_leaf
        · split at h
          · admin_leaf
          · rename_i e more _ _
            rcases scanLoop_shape σ.flags (getSub σ s) s toSeq (more.length + 1) more resp with e | ⟨u, more', e⟩ <;>
              rw [e] at h <;> cases hk : σ.tr.kind <;> admin_leaf
    · rename_i rest hstk
      have hrest : rest = [] := rest_nil_of_base (hstk ▸ hok) rfl
      subst hrest
      split at h
      · admin_leaf
      · admin_leaf
    · rename_i todo rest hstk
      have hrest : rest = [] := rest_nil_of_base (hstk ▸ hok) rfl
      subst hrest
      split at h
      · admin_leaf
      · split at h
        · admin_leaf
        · admin_leaf
    · cases h


theorem adminTop_of_admin_none {σ : Sys} {i : Nat} {th : Thread} (hth : σ.threads[i]? = some th)
    (h : admin σ i = none) : adminTop th.stack = false := by
  cases hb : adminTop th.stack with
  | false => rfl
  | true =>
    exfalso
    unfold admin at h
    simp only [hth] at h
    split at h
    · split at h
      · cases h
      · split at h <;> cases h
    · split at h
      · cases h
      · split at h
        · cases h
        · split at h <;> cases h
    · split at h <;> cases h
    · split at h
      · cases h
      · split at h <;> cases h
    · rename_i hn1 hn2 hn3 hn4
      cases hs : th.stack with
      | nil => rw [hs] at hb; cases hb
      | cons fr rest =>
        rw [hs] at hb
        cases fr <;> simp [frameAdmin] at hb
        · subst hb; exact hn1 _ _ _ hs
        · rcases hb with rfl | rfl
          · exact hn3 _ _ _ _ _ hs
          · exact hn2 _ _ _ _ _ hs
        · subst hb; exact hn4 _ _ hs

theorem inv_normalize {σ1 : Sys} {i : Nat} (hx : InvX σ1)
    (hno : ∀ j, j ≠ i → ∀ th, σ1.threads[j]? = some th → adminTop th.stack = false)
    (fuel : Nat) (hfuel : 2 ≤ fuel) : Inv (normalize i fuel σ1) := by
  obtain ⟨n, rfl⟩ : ∃ n, fuel = n + 2 := ⟨fuel - 2, by omega⟩
  show Inv (match admin σ1 i with | some σ' => normalize i (n + 1) σ' | none => σ1)
  cases ha : admin σ1 i with
  | none =>
    refine ⟨hx, ?_⟩
    intro j th hj
    by_cases hji : j = i
    · subst hji; exact adminTop_of_admin_none hj ha
    · exact hno j hji th hj
  | some σ2 =>
    obtain ⟨hx2, hn2', ho2, _, _⟩ := admin_some hx ha
    have hn2 := fun th h => (hn2' th h).1
    show Inv (match admin σ2 i with | some σ' => normalize i n σ' | none => σ2)
    rw [admin_none_of_not_top σ2 i hn2]
    refine ⟨hx2, ?_⟩
    intro j th hj
    by_cases hji : j = i
    · subst hji; exact hn2 th hj
    · rw [ho2 j hji] at hj; exact hno j hji th hj

theorem inv_cont {σ : Sys} {s0 : Nat} {f : Sub → Sub} {g : Tr → Tr} {i : Nat} {stk' : List Frame}
    {r : Option Ret} {l : Option Bool} {th : Thread}
    (h : Inv σ) (hth : σ.threads[i]? = some th) (fuel : Nat) (hfuel : 2 ≤ fuel)
    (c : Conds σ i s0 f g th.stack stk') : Inv (normalize i fuel (mk σ s0 f g i stk' r l)) :=
  inv_normalize (invX_mk' h.toInvX hth c)
    (by intro j hj th' h'; rw [mk_thr_o j hj] at h'; exact h.noAdm j th' h') fuel hfuel

theorem inv_panic {σ : Sys} (h : Inv σ) (p : Option String) :
    Inv { flags := σ.flags, tr := σ.tr, subs := σ.subs, threads := σ.threads, panic := p } :=
  ⟨⟨h.flags, h.ok, h.outF, h.outB, h.liveF, h.wrF, h.onceF, h.rd⟩, h.noAdm⟩


structure FlagFacts (σ : Sys) : Prop where
  f1 : σ.flags.closeOnOverflow = true
  f2 : σ.flags.readyGuard = true
  f3 : σ.flags.disconnectRecheck = true
  f4 : σ.flags.localMatchLocked = true
  f5 : σ.flags.lastSeqOnOpen = true
  f6 : σ.flags.cutBeforeDispatch = true

theorem flagFacts {σ : Sys} (h : σ.flags = Flags.repaired) : FlagFacts σ := by
  constructor <;> rw [h] <;> rfl

macro "leaf" : tactic =>
  `(tactic| (first
      | assumption
      | (apply inv_panic; assumption)
      | (first | rw [mk_both_eq] | rw [mk_sub_eq] | rw [mk_tr_eq] | rw [mk_none_eq]
         refine inv_cont ‹Inv _› ‹_ = some _› _ (by omega) ?_
         constructor
         all_goals conds_simp)))

set_option linter.unusedSimpArgs false

macro "step_all" hf:ident hp:ident hth:ident hstk:ident : tactic =>
  `(tactic| (simp [step, $hp:ident, $hth:ident, $hstk:ident, ($hf).f1, ($hf).f2, ($hf).f3, ($hf).f4, ($hf).f5, ($hf).f6]
             repeat' split
             all_goals leaf))

theorem sub_rest_facts {fr : Frame} {rest : List Frame} (hok : okStack (fr :: rest) = true) :
    holdsOut rest = none ∧ holdsLive rest = none ∧ okStack rest = true ∧
    (∀ fr', isSub fr' = true → okStack (fr' :: rest) = true) := by
  rcases rest_of_sub hok with rfl | ⟨g, rfl, hg⟩
  · simp
  · refine ⟨?_, ?_, rfl, ?_⟩
    · cases g <;> simp_all [isSub, frameOut]
    · cases g <;> simp_all [isSub, frameLive]
    · intro fr' h'; simp [h', hg]

theorem inv_step_sDispatch {σ : Sys} {i : Nat} {th : Thread} {s : Nat} {u : Upd} {hist : Bool} {pc : Nat}
    {rest : List Frame}
    (h : Inv σ) (hp : σ.panic = none) (hth : σ.threads[i]? = some th)
    (hstk : th.stack = .sDispatch s u hist pc :: rest) : Inv (step σ i).σ := by
  have hok := h.ok i th hth
  rw [hstk] at hok
  have hf := flagFacts h.flags
  obtain ⟨hro, hrl, hrk, hrk'⟩ := sub_rest_facts hok
  clear hok
  rcases pc with _|_|_|_|_|_|_|pc <;> step_all hf hp hth hstk

theorem inv_step_sReady {σ : Sys} {i : Nat} {th : Thread} {s : Nat} {q : List Upd} {pc : Nat}
    {rest : List Frame}
    (h : Inv σ) (hp : σ.panic = none) (hth : σ.threads[i]? = some th)
    (hstk : th.stack = .sReady s pc q :: rest) : Inv (step σ i).σ := by
  have hok := h.ok i th hth
  rw [hstk] at hok
  have hf := flagFacts h.flags
  obtain ⟨hro, hrl, hrk, hrk'⟩ := sub_rest_facts hok
  clear hok
  rcases pc with _|_|_|_|_|_|pc <;> step_all hf hp hth hstk

theorem inv_step_sDisconnect {σ : Sys} {i : Nat} {th : Thread} {s : Nat} {pc : Nat}
    {rest : List Frame}
    (h : Inv σ) (hp : σ.panic = none) (hth : σ.threads[i]? = some th)
    (hstk : th.stack = .sDisconnect s pc :: rest) : Inv (step σ i).σ := by
  have hok := h.ok i th hth
  rw [hstk] at hok
  have hf := flagFacts h.flags
  obtain ⟨hro, hrl, hrk, hrk'⟩ := sub_rest_facts hok
  clear hok
  rcases pc with _|_|_|_|pc <;> step_all hf hp hth hstk


section
variable (fl : Flags) (sb : Sub) (s toSeq fuel : Nat) (l : List (Nat × Upd)) (resp : Resp)
@[simp] theorem okStack_scanLoop : okStack (scanLoop fl sb s toSeq fuel l resp) = true :=
  (scanLoop_facts fl sb s toSeq fuel l resp .bolt).1
@[simp] theorem holdsOut_scanLoop : holdsOut (scanLoop fl sb s toSeq fuel l resp) = none :=
  (scanLoop_facts fl sb s toSeq fuel l resp .bolt).2.1
@[simp] theorem holdsLive_scanLoop : holdsLive (scanLoop fl sb s toSeq fuel l resp) = none :=
  (scanLoop_facts fl sb s toSeq fuel l resp .bolt).2.2.1
@[simp] theorem holdsWriter_scanLoop_bolt : holdsWriter .bolt (scanLoop fl sb s toSeq fuel l resp) = false :=
  (scanLoop_facts fl sb s toSeq fuel l resp .bolt).2.2.2.1
@[simp] theorem holdsWriter_scanLoop_local : holdsWriter .local (scanLoop fl sb s toSeq fuel l resp) = true :=
  (scanLoop_facts fl sb s toSeq fuel l resp .local).2.2.2.1
@[simp] theorem inOnce_scanLoop : inOnce (scanLoop fl sb s toSeq fuel l resp) = false :=
  (scanLoop_facts fl sb s toSeq fuel l resp .bolt).2.2.2.2.1
@[simp] theorem reading_scanLoop : reading (scanLoop fl sb s toSeq fuel l resp) = true :=
  (scanLoop_facts fl sb s toSeq fuel l resp .bolt).2.2.2.2.2.1
@[simp] theorem adminTop_scanLoop : adminTop (scanLoop fl sb s toSeq fuel l resp) = false :=
  (scanLoop_facts fl sb s toSeq fuel l resp .bolt).2.2.2.2.2.2
end

macro "step_all'" hf:ident hp:ident hth:ident hstk:ident hk:ident : tactic =>
  `(tactic| (simp [step, $hp:ident, $hth:ident, $hstk:ident, $hk:ident, ($hf).f1, ($hf).f2, ($hf).f3, ($hf).f4, ($hf).f5, ($hf).f6]
             repeat' split
             all_goals leaf))

theorem inv_step_tDispatch {σ : Sys} {i : Nat} {th : Thread} {u : Upd} {pc : Nat} {rs : List Nat}
    {rest : List Frame}
    (h : Inv σ) (hp : σ.panic = none) (hth : σ.threads[i]? = some th)
    (hstk : th.stack = .tDispatch u pc rs :: rest) : Inv (step σ i).σ := by
  have hok := h.ok i th hth
  rw [hstk] at hok
  have hf := flagFacts h.flags
  have hr := rest_nil_of_base hok rfl
  subst hr
  clear hok
  cases hk : σ.tr.kind
  · rcases pc with _|_|_|pc <;> step_all' hf hp hth hstk hk
  · rcases pc with _|_|pc <;> step_all' hf hp hth hstk hk

theorem inv_step_tRemove {σ : Sys} {i : Nat} {th : Thread} {s : Nat} {pc : Nat}
    {rest : List Frame}
    (h : Inv σ) (hp : σ.panic = none) (hth : σ.threads[i]? = some th)
    (hstk : th.stack = .tRemove s pc :: rest) : Inv (step σ i).σ := by
  have hok := h.ok i th hth
  rw [hstk] at hok
  have hf := flagFacts h.flags
  have hr := rest_nil_of_base hok rfl
  subst hr
  clear hok
  cases hk : σ.tr.kind <;> rcases pc with _|_|pc <;> step_all' hf hp hth hstk hk

theorem inv_step_tClose {σ : Sys} {i : Nat} {th : Thread} {pc : Nat} {todo : List Nat}
    {rest : List Frame}
    (h : Inv σ) (hp : σ.panic = none) (hth : σ.threads[i]? = some th)
    (hstk : th.stack = .tClose pc todo :: rest) : Inv (step σ i).σ := by
  have hok := h.ok i th hth
  rw [hstk] at hok
  have hf := flagFacts h.flags
  have hr := rest_nil_of_base hok rfl
  subst hr
  clear hok
  cases hk : σ.tr.kind
  · rcases pc with _|_|_|_|pc <;> step_all' hf hp hth hstk hk
  · rcases pc with _|_|_|pc <;> step_all' hf hp hth hstk hk

theorem inv_step_tList {σ : Sys} {i : Nat} {th : Thread} {rest : List Frame}
    (h : Inv σ) (hp : σ.panic = none) (hth : σ.threads[i]? = some th)
    (hstk : th.stack = .tList :: rest) : Inv (step σ i).σ := by
  have hok := h.ok i th hth
  rw [hstk] at hok
  have hf := flagFacts h.flags
  have hr := rest_nil_of_base hok rfl
  subst hr
  clear hok
  cases hk : σ.tr.kind <;> step_all' hf hp hth hstk hk

theorem inv_step_uRecv {σ : Sys} {i : Nat} {th : Thread} {s : Nat} {rest : List Frame}
    (h : Inv σ) (hp : σ.panic = none) (hth : σ.threads[i]? = some th)
    (hstk : th.stack = .uRecv s :: rest) : Inv (step σ i).σ := by
  have hok := h.ok i th hth
  rw [hstk] at hok
  have hf := flagFacts h.flags
  have hr := rest_nil_of_base hok rfl
  subst hr
  clear hok
  cases hk : σ.tr.kind <;> step_all' hf hp hth hstk hk

theorem inv_step_tAdd {σ : Sys} {i : Nat} {th : Thread} {s pc toSeq : Nat} {scan : List (Nat × Upd)} {resp : Resp}
    {rest : List Frame}
    (h : Inv σ) (hp : σ.panic = none) (hth : σ.threads[i]? = some th)
    (hstk : th.stack = .tAdd s pc toSeq scan resp :: rest) : Inv (step σ i).σ := by
  have hok := h.ok i th hth
  have hna := h.noAdm i th hth
  rw [hstk] at hok hna
  have hf := flagFacts h.flags
  have hr := rest_nil_of_base hok rfl
  subst hr
  clear hok
  cases hk : σ.tr.kind <;> rcases pc with _|_|_|_|_|_|_|_|_|pc <;> step_all' hf hp hth hstk hk


theorem inv_step {σ : Sys} (h : Inv σ) (i : Nat) : Inv (step σ i).σ := by
  cases hp : σ.panic with
  | some msg => simp [step, hp]; exact h
  | none =>
    cases hth : σ.threads[i]? with
    | none => simp [step, hp, hth]; exact h
    | some th =>
      cases hstk : th.stack with
      | nil => simp [step, hp, hth, hstk]; exact h
      | cons fr rest =>
        cases fr with
        | sDispatch s u hist pc => exact inv_step_sDispatch h hp hth hstk
        | sReady s pc q => exact inv_step_sReady h hp hth hstk
        | sDisconnect s pc => exact inv_step_sDisconnect h hp hth hstk
        | tDispatch u pc rs => exact inv_step_tDispatch h hp hth hstk
        | tAdd s pc toSeq scan resp => exact inv_step_tAdd h hp hth hstk
        | tRemove s pc => exact inv_step_tRemove h hp hth hstk
        | tClose pc todo => exact inv_step_tClose h hp hth hstk
        | tList => exact inv_step_tList h hp hth hstk
        | uRecv s => exact inv_step_uRecv h hp hth hstk

theorem inv_run {σ : Sys} (h : Inv σ) (sched : List Nat) : Inv (run σ sched) := by
  induction sched generalizing σ with
  | nil => exact h
  | cons i is ih => exact ih (inv_step h i)

theorem getSub_fresh (flags : Flags) (kind : Kind) (size : Nat) (subs : List Sub) (ops : List Op)
    (hfresh : ∀ b ∈ subs, ∃ topics req cap, b = Sub.fresh topics req cap) (s : Nat) :
    (getSub (Sys.init flags kind size subs ops) s).outOwner = none ∧
    (getSub (Sys.init flags kind size subs ops) s).liveOwner = none := by
  rw [getSub_eq]
  show ((subs[s]?).getD { topics := [] }).outOwner = none ∧ ((subs[s]?).getD { topics := [] }).liveOwner = none
  cases hs : subs[s]? with
  | none => exact ⟨rfl, rfl⟩
  | some b =>
    obtain ⟨t, r, c, rfl⟩ := hfresh b (List.mem_of_getElem? hs)
    exact ⟨rfl, rfl⟩

theorem init_thread (flags : Flags) (kind : Kind) (size : Nat) (subs : List Sub) (ops : List Op) (j : Nat) (th : Thread)
    (h : (Sys.init flags kind size subs ops).threads[j]? = some th) : ∃ o, th.stack = Op.start o := by
  simp [Sys.init] at h
  obtain ⟨o, _, rfl⟩ := h
  exact ⟨o, rfl⟩

theorem inv_init (kind : Kind) (size : Nat) (subs : List Sub) (ops : List Op)
    (hfresh : ∀ b ∈ subs, ∃ topics req cap, b = Sub.fresh topics req cap) :
    Inv (Sys.init Flags.repaired kind size subs ops) := by
  refine ⟨⟨rfl, ?_, ?_, ?_, ?_, ?_, ?_, ?_⟩, ?_⟩
  · intro j th h
    obtain ⟨o, e⟩ := init_thread _ _ _ _ _ j th h
    rw [e]; cases o <;> rfl
  · intro s j h
    rw [(getSub_fresh _ kind size subs ops hfresh s).1] at h; cases h
  · intro s j th h hh
    obtain ⟨o, e⟩ := init_thread _ _ _ _ _ j th h
    rw [e] at hh; cases o <;> simp [Op.start, frameOut] at hh
  · intro s j h
    rw [(getSub_fresh _ kind size subs ops hfresh s).2] at h; cases h
  · intro j h; cases h
  · intro j h; cases h
  · intro _; exact Nat.zero_le _
  · intro j th h
    obtain ⟨o, e⟩ := init_thread _ _ _ _ _ j th h
    rw [e]; cases o <;> rfl

theorem inv_reach (kind : Kind) (size : Nat) (subs : List Sub) (ops : List Op)
    (wf : WellFormed subs ops) (sched : List Nat) : Inv (reach Flags.repaired kind size subs ops sched) :=
  inv_run (inv_init kind size subs ops wf.fresh) sched


macro "move_all" hf:ident hp:ident hth:ident hstk:ident : tactic =>
  `(tactic| (simp [step, $hp:ident, $hth:ident, $hstk:ident, ($hf).f1, ($hf).f2, ($hf).f3, ($hf).f4, ($hf).f5, ($hf).f6]
             repeat' split
             all_goals simp_all [frameOut, frameLive, frameWriter, frameOnce, frameReading, isSub]))

section
variable {σ : Sys} {i : Nat} {th : Thread} {fr : Frame} {rest : List Frame}

/-- A thread inside an `outMutex` region needs no lock. -/
theorem move_out (hf : FlagFacts σ) (hp : σ.panic = none) (hth : σ.threads[i]? = some th)
    (hstk : th.stack = fr :: rest) {s : Nat} (ho : frameOut fr = some s) : (step σ i).moved = true := by
  cases fr with
  | sDispatch s u hist pc => rcases pc with _|_|_|_|_|_|_|pc <;> move_all hf hp hth hstk
  | sReady s pc q => rcases pc with _|_|_|_|_|_|pc <;> move_all hf hp hth hstk
  | sDisconnect s pc => rcases pc with _|_|_|_|pc <;> move_all hf hp hth hstk
  | _ => simp [frameOut] at ho


/-- A thread holding `liveMutex` waits at most for `outMutex`. -/
theorem move_live (hf : FlagFacts σ) (hp : σ.panic = none) (hth : σ.threads[i]? = some th)
    (hstk : th.stack = fr :: rest) {s : Nat} (hl : frameLive fr = some s)
    (hout : ∀ s, (getSub σ s).outOwner = none) : (step σ i).moved = true := by
  cases fr with
  | sReady s pc q => rcases pc with _|_|_|_|_|_|pc <;> move_all hf hp hth hstk
  | _ => simp [frameLive] at hl

/-- A subscriber procedure waits only for subscriber mutexes. -/
theorem move_sub (hf : FlagFacts σ) (hp : σ.panic = none) (hth : σ.threads[i]? = some th)
    (hstk : th.stack = fr :: rest) (hs : isSub fr = true)
    (hout : ∀ s, (getSub σ s).outOwner = none) (hlive : ∀ s, (getSub σ s).liveOwner = none) :
    (step σ i).moved = true := by
  cases fr with
  | sDispatch s u hist pc => rcases pc with _|_|_|_|_|_|_|pc <;> move_all hf hp hth hstk
  | sReady s pc q => rcases pc with _|_|_|_|_|_|pc <;> move_all hf hp hth hstk
  | sDisconnect s pc => rcases pc with _|_|_|_|pc <;> move_all hf hp hth hstk
  | _ => simp [isSub] at hs

/-- The end of the read transaction needs no lock. -/
theorem move_reading (_hf : FlagFacts σ) (hp : σ.panic = none) (hth : σ.threads[i]? = some th)
    (hstk : th.stack = fr :: rest) (hr : frameReading fr = true) : (step σ i).moved = true := by
  cases fr with
  | tAdd s pc toSeq scan resp => rcases pc with _|_|_|_|pc <;> move_all _hf hp hth hstk
  | _ => simp [frameReading] at hr

/-- The holder of the transport lock waits at most for the readers to drain. -/
theorem move_writer (hf : FlagFacts σ) (hp : σ.panic = none) (hth : σ.threads[i]? = some th)
    (hstk : th.stack = fr :: rest) (hw : frameWriter σ.tr.kind fr = true)
    (hrd : σ.tr.kind = .bolt → σ.tr.readers = 0) : (step σ i).moved = true := by
  cases hk : σ.tr.kind <;> rw [hk] at hw <;> simp only [hk, true_implies, reduceCtorEq, false_implies] at hrd
  · cases fr with
    | tDispatch u pc rs => rcases pc with _|_|_|pc <;> move_all hf hp hth hstk
    | tAdd s pc toSeq scan resp => rcases pc with _|_|_|_|pc <;> move_all hf hp hth hstk
    | tRemove s pc => rcases pc with _|_|pc <;> move_all hf hp hth hstk
    | tClose pc todo => rcases pc with _|_|_|_|pc <;> move_all hf hp hth hstk
    | _ => simp [frameWriter] at hw
  · cases fr with
    | tDispatch u pc rs => rcases pc with _|_|pc <;> move_all hf hp hth hstk
    | tAdd s pc toSeq scan resp => rcases pc with _|_|_|_|pc <;> move_all hf hp hth hstk
    | tRemove s pc => rcases pc with _|_|pc <;> move_all hf hp hth hstk
    | tClose pc todo => rcases pc with _|_|_|pc <;> move_all hf hp hth hstk
    | _ => simp [frameWriter] at hw

/-- With every lock free and no reader, only `once.Do` can block. -/
theorem move_free (hf : FlagFacts σ) (hp : σ.panic = none) (hth : σ.threads[i]? = some th)
    (hstk : th.stack = fr :: rest)
    (hout : ∀ s, (getSub σ s).outOwner = none) (hlive : ∀ s, (getSub σ s).liveOwner = none)
    (hwr : σ.tr.writer = none) (hrd : σ.tr.kind = .bolt → σ.tr.readers = 0)
    (honce : (∃ pc todo, fr = .tClose pc todo ∧ pc = 0) → σ.tr.onceRunning = none) :
    (step σ i).moved = true := by
  by_cases hs : isSub fr = true
  · exact move_sub hf hp hth hstk hs hout hlive
  · cases hk : σ.tr.kind <;> simp only [hk, true_implies, reduceCtorEq, false_implies] at hrd
    · cases fr with
      | tDispatch u pc rs => rcases pc with _|_|_|pc <;> move_all hf hp hth hstk
      | tAdd s pc toSeq scan resp => rcases pc with _|_|_|_|pc <;> move_all hf hp hth hstk
      | tRemove s pc => rcases pc with _|_|pc <;> move_all hf hp hth hstk
      | tClose pc todo => rcases pc with _|_|_|_|pc <;> move_all hf hp hth hstk
      | tList => move_all hf hp hth hstk
      | uRecv s => move_all hf hp hth hstk
      | _ => simp [isSub] at hs
    · cases fr with
      | tDispatch u pc rs => rcases pc with _|_|pc <;> move_all hf hp hth hstk
      | tAdd s pc toSeq scan resp => rcases pc with _|_|_|_|pc <;> move_all hf hp hth hstk
      | tRemove s pc => rcases pc with _|_|pc <;> move_all hf hp hth hstk
      | tClose pc todo => rcases pc with _|_|_|pc <;> move_all hf hp hth hstk
      | tList => move_all hf hp hth hstk
      | uRecv s => move_all hf hp hth hstk
      | _ => simp [isSub] at hs

end

theorem any_shape (P : Frame → Bool) {stk : List Frame} (hok : okStack stk = true) (h : stk.any P = true) :
    ∃ fr rest, stk = fr :: rest ∧ (isSub fr = true ∨ (P fr = true ∧ rest = [])) := by
  match stk, hok, h with
  | [], _, h => simp at h
  | [f], _, h =>
    refine ⟨f, [], rfl, ?_⟩
    right; simpa using h
  | [f, g], hok, _ =>
    refine ⟨f, [g], rfl, ?_⟩
    left; simp at hok; exact hok.1
  | _ :: _ :: _ :: _, hok, _ => simp [okStack] at hok

theorem exists_unfinished {σ : Sys} (hn : σ.allDone = false) :
    ∃ (i : Nat) (th : Thread) (fr : Frame) (rest : List Frame), σ.threads[i]? = some th ∧ th.stack = fr :: rest := by
  have : ¬ (∀ t ∈ σ.threads, Thread.finished t = true) := by
    intro hall
    have : σ.allDone = true := by simp [Sys.allDone, List.all_eq_true]; exact hall
    rw [this] at hn; cases hn
  obtain ⟨t, ht⟩ := Classical.not_forall.1 this
  obtain ⟨hmem, hfin⟩ := Classical.not_imp.1 ht
  obtain ⟨i, hi⟩ := List.mem_iff_getElem?.1 hmem
  cases hs : t.stack with
  | nil => exfalso; apply hfin; simp [Thread.finished, hs]
  | cons fr rest => exact ⟨i, t, fr, rest, hi, hs⟩

theorem progress {σ : Sys} (h : Inv σ) (hp : σ.panic = none) (hn : σ.allDone = false) :
    ∃ i, (step σ i).moved = true := by
  have hf := flagFacts h.flags
  -- (a) an `outMutex` is held
  by_cases hout : ∀ s, (getSub σ s).outOwner = none
  rotate_left
  · obtain ⟨s, hs⟩ := Classical.not_forall.1 hout
    cases ho : (getSub σ s).outOwner with
    | none => exact absurd ho hs
    | some j =>
      obtain ⟨th, hth, hh⟩ := h.outF s j ho
      cases hstk : th.stack with
      | nil => rw [hstk] at hh; cases hh
      | cons fr rest => rw [hstk] at hh; exact ⟨j, move_out hf hp hth hstk hh⟩
  -- (b) a `liveMutex` is held
  by_cases hlive : ∀ s, (getSub σ s).liveOwner = none
  rotate_left
  · obtain ⟨s, hs⟩ := Classical.not_forall.1 hlive
    cases ho : (getSub σ s).liveOwner with
    | none => exact absurd ho hs
    | some j =>
      obtain ⟨th, hth, hh⟩ := h.liveF s j ho
      cases hstk : th.stack with
      | nil => rw [hstk] at hh; cases hh
      | cons fr rest => rw [hstk] at hh; exact ⟨j, move_live hf hp hth hstk hh hout⟩
  -- (c) a read transaction is open
  by_cases hrd : σ.tr.kind = .bolt → σ.tr.readers = 0
  rotate_left
  · obtain ⟨hk, hr⟩ := Classical.not_imp.1 hrd
    have hpos : 0 < σ.threads.countP (fun t => reading t.stack) := by
      have := h.rd hk; omega
    obtain ⟨t, hmem, hread⟩ := List.countP_pos_iff.1 hpos
    obtain ⟨j, hj⟩ := List.mem_iff_getElem?.1 hmem
    obtain ⟨fr, rest, hstk, hcase⟩ := any_shape frameReading (h.ok j t hj) hread
    rcases hcase with hs | ⟨hr', _⟩
    · exact ⟨j, move_sub hf hp hj hstk hs hout hlive⟩
    · exact ⟨j, move_reading hf hp hj hstk hr'⟩
  -- (d) the transport lock is held
  cases hw : σ.tr.writer with
  | some j =>
    obtain ⟨th, hth, hh⟩ := h.wrF j hw
    obtain ⟨fr, rest, hstk, hcase⟩ := any_shape (frameWriter σ.tr.kind) (h.ok j th hth) hh
    rcases hcase with hs | ⟨hw', _⟩
    · exact ⟨j, move_sub hf hp hth hstk hs hout hlive⟩
    · exact ⟨j, move_writer hf hp hth hstk hw' hrd⟩
  | none =>
    obtain ⟨i0, th0, fr0, rest0, hth0, hstk0⟩ := exists_unfinished hn
    by_cases honce : (∃ pc todo, fr0 = .tClose pc todo ∧ pc = 0) → σ.tr.onceRunning = none
    · exact ⟨i0, move_free hf hp hth0 hstk0 hout hlive hw hrd honce⟩
    · -- (e) the Once is running: its runner is past `once.Do`
      obtain ⟨_, hne⟩ := Classical.not_imp.1 honce
      cases ho : σ.tr.onceRunning with
      | none => exact absurd ho hne
      | some j =>
        obtain ⟨th, hth, hh⟩ := h.onceF j ho
        obtain ⟨fr, rest, hstk, hcase⟩ := any_shape frameOnce (h.ok j th hth) hh
        rcases hcase with hs | ⟨ho', _⟩
        · exact ⟨j, move_sub hf hp hth hstk hs hout hlive⟩
        · refine ⟨j, move_free hf hp hth hstk hout hlive hw hrd ?_⟩
          rintro ⟨pc, todo, rfl, rfl⟩
          simp [frameOnce] at ho'

theorem no_deadlock_of_no_panic (kind : Kind) (size : Nat) (subs : List Sub) (ops : List Op)
    (wf : WellFormed subs ops) (sched : List Nat)
    (hpn : (reach Flags.repaired kind size subs ops sched).panic = none)
    (hn : (reach Flags.repaired kind size subs ops sched).allDone = false) :
    ∃ i, (step (reach Flags.repaired kind size subs ops sched) i).moved = true :=
  progress (inv_reach kind size subs ops wf sched) hpn hn


/-! ### no panic: the send/close sites are guarded -/

def frameS : Frame → Nat
  | .sDispatch s _ _ _ | .sReady s _ _ | .sDisconnect s _ => s
  | _ => 0

/-- What a thread inside an `outMutex` region knows about the subscriber. -/
def safeAt : Frame → Sub → Prop
  | .sDispatch _ _ _ pc, b =>
    (pc = 5 ∨ pc = 6 → b.disconnected = false) ∧ (7 ≤ pc → b.disconnected = true ∧ b.outClosed = false)
  | .sReady _ pc _, b =>
    (pc = 3 ∨ pc = 4 → b.disconnected = false) ∧ (pc = 5 → b.disconnected = true ∧ b.outClosed = false)
  | .sDisconnect _ pc, b =>
    (pc = 3 → b.disconnected = false) ∧ (4 ≤ pc → b.disconnected = true ∧ b.outClosed = false)
  | _, _ => True

structure Inv2 (σ : Sys) : Prop where
  closed : ∀ s, (getSub σ s).outClosed = true → (getSub σ s).disconnected = true
  safe : ∀ (j : Nat) (th : Thread) (fr : Frame) (rest : List Frame), σ.threads[j]? = some th →
    th.stack = fr :: rest → frameS fr < σ.subs.length → safeAt fr (getSub σ (frameS fr))

theorem safeAt_of_not_out {fr : Frame} (b : Sub) (h : frameOut fr = none) : safeAt fr b := by
  cases fr <;> simp [frameOut, safeAt] at h ⊢ <;> constructor <;> intros <;> omega

theorem frameOut_eq_frameS {fr : Frame} {s : Nat} (h : frameOut fr = some s) : frameS fr = s := by
  cases fr <;> simp [frameOut, frameS] at h ⊢ <;> exact h.2

theorem safeAt_congr {fr : Frame} {b b' : Sub} (h1 : b'.disconnected = b.disconnected)
    (h2 : b'.outClosed = b.outClosed) (h : safeAt fr b) : safeAt fr b' := by
  cases fr <;> simp [safeAt, h1, h2] at h ⊢ <;> exact h

section
variable {σ : Sys} {s0 : Nat} {f : Sub → Sub} {g : Tr → Tr} {i : Nat} {stk' : List Frame}
  {r : Option Ret} {l : Option Bool} {th : Thread}

@[simp] theorem getSub_mk_id (s : Nat) : getSub (mk σ s0 (fun b => b) g i stk' r l) s = getSub σ s := by
  rw [getSub_mk]; split
  · rename_i h; rw [h.1]
  · rfl

theorem getSub_mk_self (h : s0 < σ.subs.length) : getSub (mk σ s0 f g i stk' r l) s0 = f (getSub σ s0) := by
  rw [getSub_mk, if_pos ⟨rfl, h⟩]

theorem inv2_mk (h : InvX σ) (h2 : Inv2 σ) (hth : σ.threads[i]? = some th)
    (hself : holdsOut stk' = none ∨ ∃ fr' rest', stk' = fr' :: rest' ∧
      (frameS fr' < σ.subs.length →
        safeAt fr' (if frameS fr' = s0 then f (getSub σ s0) else getSub σ (frameS fr'))))
    (hclosed : s0 < σ.subs.length → ((getSub σ s0).outClosed = true → (getSub σ s0).disconnected = true) →
      (f (getSub σ s0)).outClosed = true → (f (getSub σ s0)).disconnected = true)
    (hoth : (∀ b, (f b).disconnected = b.disconnected ∧ (f b).outClosed = b.outClosed) ∨ holdsOut th.stack = some s0) :
    Inv2 (mk σ s0 f g i stk' r l) := by
  constructor
  · intro s
    rw [getSub_mk]
    split
    · rename_i hc; exact hclosed hc.2 (h2.closed s0)
    · exact h2.closed s
  · intro j t fr rest ht hs hlen
    have hlen' : frameS fr < σ.subs.length := by simpa [mk] using hlen
    by_cases hji : j = i
    · subst hji
      obtain ⟨t', ht', hs'⟩ := mk_thr_i (s0 := s0) (f := f) (g := g) (stk' := stk') (r := r) (l := l) hth
      rw [ht'] at ht; cases ht
      rw [hs'] at hs
      rcases hself with hno | ⟨fr', rest', e, hsafe⟩
      · rw [hs] at hno; exact safeAt_of_not_out _ hno
      · rw [hs] at e; cases e
        have := hsafe hlen'
        rw [getSub_mk]
        by_cases hc : frameS fr = s0
        · rw [if_pos hc] at this; rw [if_pos ⟨hc, hc ▸ hlen'⟩]; exact this
        · rw [if_neg hc] at this; rw [if_neg (fun h => hc h.1)]; exact this
    · rw [mk_thr_o j hji] at ht
      have old := h2.safe j t fr rest ht hs hlen'
      rw [getSub_mk]
      split
      · rename_i hc
        rw [← hc.1]
        rcases hoth with hsame | hout
        · exact safeAt_congr (hsame _).1 (hsame _).2 old
        · cases ho : frameOut fr with
          | none => exact safeAt_of_not_out _ ho
          | some s' =>
            exfalso
            have e1 : s' = s0 := by rw [← frameOut_eq_frameS ho]; exact hc.1
            subst e1
            have o1 := h.outB s' j t ht (by rw [hs]; exact ho) hc.2
            have o2 := h.outB s' i th hth hout hc.2
            rw [o1] at o2; cases o2; exact hji rfl
      · exact old


theorem normalize_cases {σ1 : Sys} {i : Nat} (hx : InvX σ1) (fuel : Nat) (hfuel : 2 ≤ fuel) :
    normalize i fuel σ1 = σ1 ∨ ∃ σ2, admin σ1 i = some σ2 ∧ normalize i fuel σ1 = σ2 := by
  obtain ⟨n, rfl⟩ : ∃ n, fuel = n + 2 := ⟨fuel - 2, by omega⟩
  show (match admin σ1 i with | some σ' => normalize i (n + 1) σ' | none => σ1) = σ1 ∨
    ∃ σ2, admin σ1 i = some σ2 ∧ (match admin σ1 i with | some σ' => normalize i (n + 1) σ' | none => σ1) = σ2
  cases ha : admin σ1 i with
  | none => left; rfl
  | some σ2 =>
    right
    refine ⟨σ2, rfl, ?_⟩
    obtain ⟨_, hn2, _⟩ := admin_some hx ha
    show (match admin σ2 i with | some σ' => normalize i n σ' | none => σ2) = σ2
    rw [admin_none_of_not_top σ2 i (fun th h => (hn2 th h).1)]

theorem inv2_admin {σ σ' : Sys} {i : Nat} (hx : InvX σ) (h2 : Inv2 σ) (ha : admin σ i = some σ') : Inv2 σ' := by
  obtain ⟨_, hn, ho, hsubs, _⟩ := admin_some hx ha
  have hg : ∀ s, getSub σ' s = getSub σ s := by intro s; simp [getSub, hsubs]
  constructor
  · intro s; rw [hg]; exact h2.closed s
  · intro j t fr rest ht hs hlen
    rw [hg]
    rw [hsubs] at hlen
    by_cases hji : j = i
    · subst hji
      have := (hn t ht).2
      rw [hs] at this
      exact safeAt_of_not_out _ this
    · rw [ho j hji] at ht
      exact h2.safe j t fr rest ht hs hlen

theorem inv2_cont (h : Inv σ) (h2 : Inv2 σ) (hp : σ.panic = none) (hth : σ.threads[i]? = some th)
    (fuel : Nat) (hfuel : 2 ≤ fuel)
    (c : Conds σ i s0 f g th.stack stk')
    (hself : holdsOut stk' = none ∨ ∃ fr' rest', stk' = fr' :: rest' ∧
      (frameS fr' < σ.subs.length →
        safeAt fr' (if frameS fr' = s0 then f (getSub σ s0) else getSub σ (frameS fr'))))
    (hclosed : s0 < σ.subs.length → ((getSub σ s0).outClosed = true → (getSub σ s0).disconnected = true) →
      (f (getSub σ s0)).outClosed = true → (f (getSub σ s0)).disconnected = true)
    (hoth : (∀ b, (f b).disconnected = b.disconnected ∧ (f b).outClosed = b.outClosed) ∨ holdsOut th.stack = some s0) :
    Inv2 (normalize i fuel (mk σ s0 f g i stk' r l)) ∧ (normalize i fuel (mk σ s0 f g i stk' r l)).panic = none := by
  have hx1 := invX_mk' (r := r) (l := l) h.toInvX hth c
  have h21 := inv2_mk (g := g) (r := r) (l := l) h.toInvX h2 hth hself hclosed hoth
  have hp1 : (mk σ s0 f g i stk' r l).panic = none := hp
  rcases normalize_cases hx1 fuel hfuel with e | ⟨σ2, ha, e⟩
  · rw [e]; exact ⟨h21, hp1⟩
  · rw [e]
    refine ⟨inv2_admin hx1 h21 ha, ?_⟩
    obtain ⟨_, _, _, _, hpp⟩ := admin_some hx1 ha
    rw [hpp]; exact hp1

end

theorem getSub_default_of_ge {σ : Sys} {s : Nat} (h : ¬ s < σ.subs.length) :
    (getSub σ s).outClosed = false ∧ (getSub σ s).disconnected = false := by
  rw [getSub_of_ge σ s (Nat.le_of_not_lt h)]; exact ⟨rfl, rfl⟩

@[simp] theorem ite_getSub (σ : Sys) (s s0 : Nat) [Decidable (s = s0)] :
    (if s = s0 then getSub σ s0 else getSub σ s) = getSub σ s := by
  split
  · rename_i h; rw [h]
  · rfl

theorem open_of_connected {σ : Sys} (h2 : Inv2 σ) (s : Nat) :
    (getSub σ s).disconnected = false → (getSub σ s).outClosed = false := by
  intro hd
  cases hc : (getSub σ s).outClosed with
  | false => rfl
  | true => have := h2.closed s hc; rw [hd] at this; cases this

/-- The channel is open at every send/close site. -/
def noBoom : Frame → Sub → Prop
  | .sDispatch _ _ _ pc, b => (pc = 5 ∨ 7 ≤ pc) → b.outClosed = false
  | .sReady _ pc _, b => (pc = 3 ∨ pc = 5) → b.outClosed = false
  | .sDisconnect _ pc, b => 4 ≤ pc → b.outClosed = false
  | _, _ => True

theorem noBoom_of_inv2 {σ : Sys} {i : Nat} {th : Thread} {fr : Frame} {rest : List Frame}
    (h2 : Inv2 σ) (hth : σ.threads[i]? = some th) (hstk : th.stack = fr :: rest) :
    noBoom fr (getSub σ (frameS fr)) := by
  by_cases hlen : frameS fr < σ.subs.length
  · have hsafe := h2.safe i th fr rest hth hstk hlen
    have hcl := h2.closed (frameS fr)
    cases fr <;> simp only [safeAt, noBoom, frameS, implies_true] at hsafe hcl ⊢
    · rintro (rfl | h7)
      · cases hc : (getSub σ ‹Nat›).outClosed with
        | false => rfl
        | true => have h1 := hcl hc; have h2 := hsafe.1 (Or.inl rfl); rw [h1] at h2; cases h2
      · exact (hsafe.2 h7).2
    · rintro (rfl | rfl)
      · cases hc : (getSub σ ‹Nat›).outClosed with
        | false => rfl
        | true => have h1 := hcl hc; have h2 := hsafe.1 (Or.inl rfl); rw [h1] at h2; cases h2
      · exact (hsafe.2 rfl).2
    · intro h4; exact (hsafe.2 h4).2
  · have := (getSub_default_of_ge hlen).1
    cases fr <;> simp_all [noBoom]

macro "data_simp" : tactic =>
  `(tactic| simp_all (config := { contextual := true }) [isSub, frameOut, frameLive, frameWriter, frameOnce,
      frameReading, frameAdmin, safeAt, noBoom, frameS])

theorem mk_none_eq' {σ : Sys} {i : Nat} {stk' : List Frame} {r : Option Ret} {l : Option Bool} (s0 : Nat) :
    setThread σ i (fun t => retOf stk' t r l) = mk σ s0 (fun b => b) (fun t => t) i stk' r l := by
  simp [mk, setSub_id, setTr_id]
theorem mk_tr_eq' {σ : Sys} {g : Tr → Tr} {i : Nat} {stk' : List Frame} {r : Option Ret} {l : Option Bool} (s0 : Nat) :
    setThread (setTr σ g) i (fun t => retOf stk' t r l) = mk σ s0 (fun b => b) g i stk' r l := by
  simp [mk, setSub_id]

macro "leaf2" s:term : tactic =>
  `(tactic| (first
      | (exact ⟨‹Inv2 _›, ‹_ = none›⟩)
      | (first | rw [mk_both_eq] | rw [mk_sub_eq] | rw [mk_tr_eq' $s] | rw [mk_none_eq' $s]
         refine inv2_cont ‹Inv _› ‹Inv2 _› ‹_ = none› ‹_ = some _› _ (by omega) ?_ ?_ ?_ ?_
         · constructor
           all_goals conds_simp
         all_goals data_simp)
      | (exfalso; data_simp)))

macro "step_all2" hf:ident hp:ident hth:ident hstk:ident s:term : tactic =>
  `(tactic| (simp [step, $hp:ident, $hth:ident, $hstk:ident, ($hf).f1, ($hf).f2, ($hf).f3, ($hf).f4, ($hf).f5, ($hf).f6]
             repeat' split
             all_goals leaf2 $s))

theorem inv2_step_sDispatch {σ : Sys} {i : Nat} {th : Thread} {s : Nat} {u : Upd} {hist : Bool} {pc : Nat}
    {rest : List Frame}
    (h : Inv σ) (h2 : Inv2 σ) (hp : σ.panic = none) (hth : σ.threads[i]? = some th)
    (hstk : th.stack = .sDispatch s u hist pc :: rest) : Inv2 (step σ i).σ ∧ (step σ i).σ.panic = none := by
  have hok := h.ok i th hth
  rw [hstk] at hok
  have hf := flagFacts h.flags
  obtain ⟨hro, hrl, hrk, hrk'⟩ := sub_rest_facts hok
  clear hok
  have hsafe := h2.safe i th _ _ hth hstk
  have hnb := noBoom_of_inv2 h2 hth hstk
  have hcl := open_of_connected h2 s
  rcases pc with _|_|_|_|_|_|_|pc <;> step_all2 hf hp hth hstk s


theorem inv2_step_sReady {σ : Sys} {i : Nat} {th : Thread} {s : Nat} {q : List Upd} {pc : Nat}
    {rest : List Frame}
    (h : Inv σ) (h2 : Inv2 σ) (hp : σ.panic = none) (hth : σ.threads[i]? = some th)
    (hstk : th.stack = .sReady s pc q :: rest) : Inv2 (step σ i).σ ∧ (step σ i).σ.panic = none := by
  have hok := h.ok i th hth
  rw [hstk] at hok
  have hf := flagFacts h.flags
  obtain ⟨hro, hrl, hrk, hrk'⟩ := sub_rest_facts hok
  clear hok
  have hsafe := h2.safe i th _ _ hth hstk
  have hnb := noBoom_of_inv2 h2 hth hstk
  have hcl := open_of_connected h2 s
  rcases pc with _|_|_|_|_|_|pc <;> step_all2 hf hp hth hstk s

theorem inv2_step_sDisconnect {σ : Sys} {i : Nat} {th : Thread} {s : Nat} {pc : Nat}
    {rest : List Frame}
    (h : Inv σ) (h2 : Inv2 σ) (hp : σ.panic = none) (hth : σ.threads[i]? = some th)
    (hstk : th.stack = .sDisconnect s pc :: rest) : Inv2 (step σ i).σ ∧ (step σ i).σ.panic = none := by
  have hok := h.ok i th hth
  rw [hstk] at hok
  have hf := flagFacts h.flags
  obtain ⟨hro, hrl, hrk, hrk'⟩ := sub_rest_facts hok
  clear hok
  have hsafe := h2.safe i th _ _ hth hstk
  have hnb := noBoom_of_inv2 h2 hth hstk
  have hcl := open_of_connected h2 s
  rcases pc with _|_|_|_|pc <;> step_all2 hf hp hth hstk s


macro "step_all2'" hf:ident hp:ident hth:ident hstk:ident hk:ident : tactic =>
  `(tactic| (simp [step, $hp:ident, $hth:ident, $hstk:ident, $hk:ident, ($hf).f1, ($hf).f2, ($hf).f3, ($hf).f4, ($hf).f5, ($hf).f6]
             repeat' split
             all_goals leaf2 0))

theorem inv2_step_tDispatch {σ : Sys} {i : Nat} {th : Thread} {u : Upd} {pc : Nat} {rs : List Nat}
    {rest : List Frame}
    (h : Inv σ) (h2 : Inv2 σ) (hp : σ.panic = none) (hth : σ.threads[i]? = some th)
    (hstk : th.stack = .tDispatch u pc rs :: rest) : Inv2 (step σ i).σ ∧ (step σ i).σ.panic = none := by
  have hok := h.ok i th hth
  rw [hstk] at hok
  have hf := flagFacts h.flags
  have hr := rest_nil_of_base hok rfl
  subst hr
  clear hok
  cases hk : σ.tr.kind
  · rcases pc with _|_|_|pc <;> step_all2' hf hp hth hstk hk
  · rcases pc with _|_|pc <;> step_all2' hf hp hth hstk hk

theorem inv2_step_tRemove {σ : Sys} {i : Nat} {th : Thread} {s : Nat} {pc : Nat}
    {rest : List Frame}
    (h : Inv σ) (h2 : Inv2 σ) (hp : σ.panic = none) (hth : σ.threads[i]? = some th)
    (hstk : th.stack = .tRemove s pc :: rest) : Inv2 (step σ i).σ ∧ (step σ i).σ.panic = none := by
  have hok := h.ok i th hth
  rw [hstk] at hok
  have hf := flagFacts h.flags
  have hr := rest_nil_of_base hok rfl
  subst hr
  clear hok
  cases hk : σ.tr.kind <;> rcases pc with _|_|pc <;> step_all2' hf hp hth hstk hk

theorem inv2_step_tClose {σ : Sys} {i : Nat} {th : Thread} {pc : Nat} {todo : List Nat}
    {rest : List Frame}
    (h : Inv σ) (h2 : Inv2 σ) (hp : σ.panic = none) (hth : σ.threads[i]? = some th)
    (hstk : th.stack = .tClose pc todo :: rest) : Inv2 (step σ i).σ ∧ (step σ i).σ.panic = none := by
  have hok := h.ok i th hth
  rw [hstk] at hok
  have hf := flagFacts h.flags
  have hr := rest_nil_of_base hok rfl
  subst hr
  clear hok
  cases hk : σ.tr.kind
  · rcases pc with _|_|_|_|pc <;> step_all2' hf hp hth hstk hk
  · rcases pc with _|_|_|pc <;> step_all2' hf hp hth hstk hk

theorem inv2_step_tList {σ : Sys} {i : Nat} {th : Thread} {rest : List Frame}
    (h : Inv σ) (h2 : Inv2 σ) (hp : σ.panic = none) (hth : σ.threads[i]? = some th)
    (hstk : th.stack = .tList :: rest) : Inv2 (step σ i).σ ∧ (step σ i).σ.panic = none := by
  have hok := h.ok i th hth
  rw [hstk] at hok
  have hf := flagFacts h.flags
  have hr := rest_nil_of_base hok rfl
  subst hr
  clear hok
  cases hk : σ.tr.kind <;> step_all2' hf hp hth hstk hk

theorem inv2_step_uRecv {σ : Sys} {i : Nat} {th : Thread} {s : Nat} {rest : List Frame}
    (h : Inv σ) (h2 : Inv2 σ) (hp : σ.panic = none) (hth : σ.threads[i]? = some th)
    (hstk : th.stack = .uRecv s :: rest) : Inv2 (step σ i).σ ∧ (step σ i).σ.panic = none := by
  have hok := h.ok i th hth
  rw [hstk] at hok
  have hf := flagFacts h.flags
  have hr := rest_nil_of_base hok rfl
  subst hr
  clear hok
  cases hk : σ.tr.kind <;> step_all2' hf hp hth hstk hk

theorem inv2_step_tAdd_kind {σ : Sys} {i : Nat} {th : Thread} {s pc toSeq : Nat} {scan : List (Nat × Upd)}
    {resp : Resp} {k : Kind}
    (h : Inv σ) (h2 : Inv2 σ) (hp : σ.panic = none) (hth : σ.threads[i]? = some th)
    (hstk : th.stack = [.tAdd s pc toSeq scan resp]) (hk : σ.tr.kind = k)
    (hna : frameAdmin (.tAdd s pc toSeq scan resp) = false) :
    Inv2 (step σ i).σ ∧ (step σ i).σ.panic = none := by
  have hf := flagFacts h.flags
  cases k <;> rcases pc with _|_|_|_|_|_|_|_|_|pc <;> step_all2' hf hp hth hstk hk

theorem inv2_step_tAdd {σ : Sys} {i : Nat} {th : Thread} {s pc toSeq : Nat} {scan : List (Nat × Upd)} {resp : Resp}
    {rest : List Frame}
    (h : Inv σ) (h2 : Inv2 σ) (hp : σ.panic = none) (hth : σ.threads[i]? = some th)
    (hstk : th.stack = .tAdd s pc toSeq scan resp :: rest) : Inv2 (step σ i).σ ∧ (step σ i).σ.panic = none := by
  have hok := h.ok i th hth
  have hna := h.noAdm i th hth
  rw [hstk] at hok hna
  have hr := rest_nil_of_base hok rfl
  subst hr
  exact inv2_step_tAdd_kind h h2 hp hth hstk rfl hna

theorem inv2_step {σ : Sys} (h : Inv σ) (h2 : Inv2 σ) (hp : σ.panic = none) (i : Nat) :
    Inv2 (step σ i).σ ∧ (step σ i).σ.panic = none := by
  cases hth : σ.threads[i]? with
  | none => simp [step, hp, hth]; exact h2
  | some th =>
    cases hstk : th.stack with
    | nil => simp [step, hp, hth, hstk]; exact h2
    | cons fr rest =>
      cases fr with
      | sDispatch s u hist pc => exact inv2_step_sDispatch h h2 hp hth hstk
      | sReady s pc q => exact inv2_step_sReady h h2 hp hth hstk
      | sDisconnect s pc => exact inv2_step_sDisconnect h h2 hp hth hstk
      | tDispatch u pc rs => exact inv2_step_tDispatch h h2 hp hth hstk
      | tAdd s pc toSeq scan resp => exact inv2_step_tAdd h h2 hp hth hstk
      | tRemove s pc => exact inv2_step_tRemove h h2 hp hth hstk
      | tClose pc todo => exact inv2_step_tClose h h2 hp hth hstk
      | tList => exact inv2_step_tList h h2 hp hth hstk
      | uRecv s => exact inv2_step_uRecv h h2 hp hth hstk

theorem inv2_run {σ : Sys} (h : Inv σ) (h2 : Inv2 σ) (hp : σ.panic = none) (sched : List Nat) :
    Inv2 (run σ sched) ∧ (run σ sched).panic = none := by
  induction sched generalizing σ with
  | nil => exact ⟨h2, hp⟩
  | cons i is ih =>
    obtain ⟨h2', hp'⟩ := inv2_step h h2 hp i
    exact ih (inv_step h i) h2' hp'

theorem inv2_init (flags : Flags) (kind : Kind) (size : Nat) (subs : List Sub) (ops : List Op)
    (hfresh : ∀ b ∈ subs, ∃ topics req cap, b = Sub.fresh topics req cap) :
    Inv2 (Sys.init flags kind size subs ops) := by
  constructor
  · intro s hc
    exfalso
    rw [getSub_eq] at hc
    change ((subs[s]?).getD { topics := [] }).outClosed = true at hc
    cases hs : subs[s]? with
    | none => rw [hs] at hc; cases hc
    | some b =>
      obtain ⟨t, r, c, rfl⟩ := hfresh b (List.mem_of_getElem? hs)
      rw [hs] at hc; cases hc
  · intro j th fr rest h hs _
    obtain ⟨o, e⟩ := init_thread _ _ _ _ _ j th h
    rw [e] at hs
    apply safeAt_of_not_out
    cases o <;> cases hs <;> rfl

/-- No send on / close of a closed channel is reachable. -/
theorem no_panic_reach (kind : Kind) (size : Nat) (subs : List Sub) (ops : List Op)
    (wf : WellFormed subs ops) (sched : List Nat) :
    (reach Flags.repaired kind size subs ops sched).panic = none :=
  (inv2_run (inv_init kind size subs ops wf.fresh) (inv2_init _ kind size subs ops wf.fresh) rfl sched).2



/-- **No deadlock**: in every reachable state in which some operation has not returned, some
    thread can take a step (locks are acquired in the order transport < liveMutex < outMutex; a
    read transaction never waits for the transport lock; Close waits for readers only while
    holding the transport lock). -/
theorem no_deadlock (kind : Kind) (size : Nat) (subs : List Sub) (ops : List Op)
    (wf : WellFormed subs ops) (sched : List Nat)
    (hn : (reach Flags.repaired kind size subs ops sched).allDone = false) :
    ∃ i, (step (reach Flags.repaired kind size subs ops sched) i).moved = true :=
  progress (inv_reach kind size subs ops wf sched) (no_panic_reach kind size subs ops wf sched) hn

end Mercure.Sys.Progress

#print axioms Mercure.Sys.Progress.no_deadlock_of_no_panic
#print axioms Mercure.Sys.Progress.no_panic_reach
#print axioms Mercure.Sys.Progress.no_deadlock
