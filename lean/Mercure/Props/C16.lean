import Mercure.Model.Timed
import Mercure.Lemmas.Timed
/-
  C16 — Connections respect heartbeat cadence, maximum duration and token expiry.
  Over the timed model of the connection loop, for all timeouts (0 = disabled), expiry absent or
  anywhere, arbitrary arrival times, optional client close, any horizon — and for EVERY resolution
  `ch` of the same-instant races that Go's `select` resolves at random (`runCh … ch`; `run` is the
  resolution `[]`, `runAll` enumerates exactly the traces `runCh … ch`: `runAll_sound`, `runCh_mem_runAll`).

  Partial by nature: that net/http honours SetWriteDeadline and that `select` serves a due timer
  promptly are runtime assumptions; the virtual clock of the correspondence makes them exact.
-/
namespace Mercure.C16
open Mercure.Timed

def Ev.isWrite : Ev → Bool
  | .comment => true
  | .event _ => true
  | _ => false

def Ev.isEnd : Ev → Bool
  | .selfClose => true
  | .clientClose => true
  | .endWrite => true
  | _ => false

/-- Times of the successful writes, in order. -/
def writeTimes (tr : List (Nat × Ev)) : List Nat := (tr.filter (fun p => Ev.isWrite p.2)).map (·.1)

/-- Every two consecutive elements are related. -/
def Chain (R : Nat → Nat → Prop) : List Nat → Prop
  | [] => True
  | [_] => True
  | a :: b :: l => R a b ∧ Chain R (b :: l)

def Sorted (arr : List (Nat × Nat)) : Prop := arr.Pairwise (fun a b => a.1 ≤ b.1)

theorem isEnd_eq_isE (e : Ev) : Ev.isEnd e = isE e := by cases e <;> rfl

theorem writeTimes_eq_wtimes (tr : List (Nat × Ev)) : writeTimes tr = wtimes tr := by
  have : (fun p : Nat × Ev => Ev.isWrite p.2) = (fun p => isW p.2) := by
    funext p; cases p.2 <;> rfl
  simp only [writeTimes, wtimes, this]

/-- The write deadline is the earlier of the maximum duration and the token expiry. -/
theorem deadline_is_earlier_of (c : Cfg) :
    (c.wt = 0 ∧ c.exp = none → c.deadline = none) ∧
    (c.wt ≠ 0 → c.exp = none → c.deadline = some c.wt) ∧
    (c.wt = 0 → ∀ e, c.exp = some e → c.deadline = some e) ∧
    (c.wt ≠ 0 → ∀ e, c.exp = some e → c.deadline = some (min e c.wt)) := by
  refine ⟨?_, ?_, ?_, ?_⟩
  · rintro ⟨h1, h2⟩; simp [Cfg.deadline, h1, h2]
  · intro h1 h2; simp [Cfg.deadline, h1, h2]
  · intro h1 e h2; simp [Cfg.deadline, h1, h2]
  · intro h1 e h2; simp [Cfg.deadline, h1, h2]

/-- Nothing is written successfully at or after the deadline. -/
theorem no_write_after_deadline (c : Cfg) (arr : List (Nat × Nat)) (close : Option Nat) (hz d : Nat)
    (ch : List Nat) (hd : c.deadline = some d) (hpos : 0 < d) :
    ∀ p ∈ runCh c arr close hz ch, Ev.isWrite p.2 = true → p.1 < d := by
  intro p hp hw
  refine run_write_lt c arr close hz d ch hd hpos p hp ?_
  cases h : p.2 <;> simp [h, Ev.isWrite] at hw <;> rfl

/-- On an open stream something is written at least once per heartbeat interval: consecutive
    successful writes are at most `hb` apart… -/
theorem heartbeat_gap (c : Cfg) (arr : List (Nat × Nat)) (close : Option Nat) (hz : Nat) (ch : List Nat)
    (hs : Sorted arr) (hh : c.hb ≠ 0) :
    Chain (fun a b => b ≤ a + c.hb) (writeTimes (runCh c arr close hz ch)) := by
  have _ := hs
  have h := run_heartbeat_gap c arr close hz ch hh
  rw [writeTimes_eq_wtimes]
  generalize wtimes (runCh c arr close hz ch) = l at h
  induction l with
  | nil => trivial
  | cons a l ih =>
    cases l with
    | nil => trivial
    | cons b l => exact ⟨h.1, ih h.2⟩

/-- …and a stream that has not been ended is never silent for a whole interval up to the horizon. -/
theorem heartbeat_until_horizon (c : Cfg) (arr : List (Nat × Nat)) (close : Option Nat) (hz : Nat)
    (ch : List Nat) (hs : Sorted arr) (hh : c.hb ≠ 0)
    (hopen : ∀ p ∈ runCh c arr close hz ch, Ev.isEnd p.2 = false) :
    ∃ t, (writeTimes (runCh c arr close hz ch)).getLast? = some t ∧ hz < t + c.hb := by
  rw [writeTimes_eq_wtimes]
  rcases run_heartbeat_until_horizon c arr close hz ch hs hh with ⟨p, hp, hpe⟩ | h
  · have := hopen p hp
    rw [isEnd_eq_isE, hpe] at this
    cases this
  · exact h

/-- With a maximum duration configured the hub ends the connection itself exactly one dispatch
    timeout before the deadline (at once if that instant is already past) — and not earlier —
    unless the client left first.

    CHANGED for nondeterministic ties: the new hypothesis `hlt : d - c.dt < d` (the disconnection instant is
    strictly before the write deadline, i.e. `c.dt ≠ 0` and `d ≠ 0`). Without it the statement is false for
    some resolutions (`self_disconnect_tie_counterexample`); what holds in general is
    `self_disconnect_or_deadline_at_tie`, and for the fixed order of `run` the statement holds as before
    (`self_disconnect_exact_fixed_order`). Conclusion unchanged; note that under ties a comment or events may
    be written at the instant `d - c.dt` itself, before the `selfClose` entry (`p.1 ≤ d - c.dt` allows it). -/
theorem self_disconnect_exact (c : Cfg) (arr : List (Nat × Nat)) (close : Option Nat) (hz d : Nat)
    (ch : List Nat)
    (hs : Sorted arr) (hw : c.wt ≠ 0) (hd : c.deadline = some d) (hhz : d - c.dt ≤ hz)
    (hc : ∀ x, close = some x → d - c.dt < x) (hlt : d - c.dt < d) :
    (runCh c arr close hz ch).getLast? = some (d - c.dt, .selfClose) ∧
    (∀ p ∈ (runCh c arr close hz ch).dropLast, Ev.isEnd p.2 = false ∧ p.2 ≠ .failed ∧ p.1 ≤ d - c.dt) := by
  obtain ⟨tr, h1, h2⟩ := run_self_disconnect c arr close hz d ch hs hw hd hhz hc hlt
  rw [h1]
  refine ⟨by simp, ?_⟩
  rw [List.dropLast_concat]
  intro p hp
  obtain ⟨h3, h4, h5⟩ := h2 p hp
  exact ⟨by rw [isEnd_eq_isE]; exact h3, h4, h5⟩

/-- The old statement of `self_disconnect_exact`, unchanged, for the fixed order close < disconnection <
    heartbeat < arrival (`run`). -/
theorem self_disconnect_exact_fixed_order (c : Cfg) (arr : List (Nat × Nat)) (close : Option Nat) (hz d : Nat)
    (hs : Sorted arr) (hw : c.wt ≠ 0) (hd : c.deadline = some d) (hhz : d - c.dt ≤ hz)
    (hc : ∀ x, close = some x → d - c.dt < x) :
    (run c arr close hz).getLast? = some (d - c.dt, .selfClose) ∧
    (∀ p ∈ (run c arr close hz).dropLast, Ev.isEnd p.2 = false ∧ p.2 ≠ .failed ∧ p.1 ≤ d - c.dt) := by
  obtain ⟨tr, h1, h2⟩ := run_self_disconnect_fixed c arr close hz d hs hw hd hhz hc
  rw [h1]
  refine ⟨by simp, ?_⟩
  rw [List.dropLast_concat]
  intro p hp
  obtain ⟨h3, h4, h5⟩ := h2 p hp
  exact ⟨by rw [isEnd_eq_isE]; exact h3, h4, h5⟩

/-- What holds for every resolution of the ties without `d - c.dt < d`: the connection ends exactly at
    `d - c.dt`, either by the disconnection timer or — only when `d - c.dt = d` — by a write that `select`
    served at that same instant before the timer and that hit the deadline. Nothing earlier in the trace is
    an end or a failure, or later than `d - c.dt`. -/
theorem self_disconnect_or_deadline_at_tie (c : Cfg) (arr : List (Nat × Nat)) (close : Option Nat) (hz d : Nat)
    (ch : List Nat)
    (hs : Sorted arr) (hw : c.wt ≠ 0) (hd : c.deadline = some d) (hhz : d - c.dt ≤ hz)
    (hc : ∀ x, close = some x → d - c.dt < x) :
    ∃ tr, (runCh c arr close hz ch = tr ++ [(d - c.dt, .selfClose)] ∨
        (¬ d - c.dt < d ∧ runCh c arr close hz ch = tr ++ [(d - c.dt, .failed), (d - c.dt, .endWrite)])) ∧
      ∀ p ∈ tr, Ev.isEnd p.2 = false ∧ p.2 ≠ .failed ∧ p.1 ≤ d - c.dt := by
  obtain ⟨tr, h1, h2⟩ := run_self_disconnect_tie c arr close hz d ch hs hw hd hhz hc
  refine ⟨tr, h1, fun p hp => ?_⟩
  obtain ⟨h3, h4, h5⟩ := h2 p hp
  exact ⟨by rw [isEnd_eq_isE]; exact h3, h4, h5⟩

/-- `self_disconnect_exact` without `d - c.dt < d` is false for some resolution of a tie: dispatch timeout 0,
    disconnection timer and heartbeat both due at 1000 = the deadline; choice 0 serves the timer, choice 1
    serves the heartbeat, whose write fails at the deadline. -/
theorem self_disconnect_tie_counterexample :
    let c : Cfg := { wt := 1000, dt := 0, hb := 1000, exp := none }
    c.deadline = some 1000 ∧
    runCh c [] none 2000 [0] = [(0, .comment), (1000, .selfClose)] ∧
    runCh c [] none 2000 [1] = [(0, .comment), (1000, .failed), (1000, .endWrite)] ∧
    (runCh c [] none 2000 [1]).getLast? ≠ some (1000 - c.dt, .selfClose) := by
  refine ⟨by decide +kernel, by decide +kernel, by decide +kernel, by decide +kernel⟩

/-- Without a maximum duration the hub never ends the connection by a timer… -/
theorem no_timer_without_max_duration (c : Cfg) (arr : List (Nat × Nat)) (close : Option Nat) (hz : Nat)
    (ch : List Nat) (hw : c.wt = 0) : ∀ p ∈ runCh c arr close hz ch, p.2 ≠ .selfClose := by
  exact run_no_selfClose c arr close hz ch hw

/-- …it ends it on its first write attempt at or after the token expiry (a token already expired
    when the request is made, e = 0, is refused by C03 before any stream exists)… -/
theorem ends_on_first_write_after_expiry (c : Cfg) (arr : List (Nat × Nat)) (close : Option Nat) (hz e : Nat)
    (ch : List Nat) (hw : c.wt = 0) (he : c.exp = some e) (hpos : 0 < e) :
    ∀ t, (t, Ev.failed) ∈ runCh c arr close hz ch →
      e ≤ t ∧ (runCh c arr close hz ch).getLast? = some (t, .endWrite) ∧
      (∀ p ∈ runCh c arr close hz ch, Ev.isWrite p.2 = true → p.1 < e) := by
  intro t ht
  have hd : c.deadline = some e := by simp [Cfg.deadline, hw, he]
  obtain ⟨h1, h2⟩ := run_failed c arr close hz e ch hd t ht
  exact ⟨h1, h2, no_write_after_deadline c arr close hz e ch hd hpos⟩

/-- …and never when the token does not expire. -/
theorem never_ends_without_deadline (c : Cfg) (arr : List (Nat × Nat)) (close : Option Nat) (hz : Nat)
    (ch : List Nat) (hw : c.wt = 0) (he : c.exp = none) :
    ∀ p ∈ runCh c arr close hz ch, p.2 ≠ .selfClose ∧ p.2 ≠ .failed ∧ p.2 ≠ .endWrite := by
  exact run_no_end c arr close hz ch hw (by simp [Cfg.deadline, hw, he])

/-! ### the acceptor `runAll` and the resolutions `runCh … ch` -/

/-- `run` is the resolution in which every tie goes to the first ready case (close, disconnection,
    heartbeat, arrival). -/
theorem run_eq_runCh_nil (c : Cfg) (arr : List (Nat × Nat)) (close : Option Nat) (hz : Nat) :
    run c arr close hz = runCh c arr close hz [] := rfl

/-- Every trace the acceptor accepts is the trace of some resolution: the theorems above apply to it. -/
theorem runAll_sound (c : Cfg) (arr : List (Nat × Nat)) (close : Option Nat) (hz : Nat) :
    ∀ tr ∈ runAll c arr close hz, ∃ ch, tr = runCh c arr close hz ch :=
  Mercure.Timed.runAll_sound c arr close hz

/-- The acceptor accepts the trace of every resolution. -/
theorem runCh_mem_runAll (c : Cfg) (arr : List (Nat × Nat)) (close : Option Nat) (hz : Nat) (ch : List Nat) :
    runCh c arr close hz ch ∈ runAll c arr close hz :=
  Mercure.Timed.runCh_mem_runAll c arr close hz ch

/-- A property of all resolutions is a property of everything the acceptor accepts (and conversely). -/
theorem forall_runAll_iff (c : Cfg) (arr : List (Nat × Nat)) (close : Option Nat) (hz : Nat)
    (P : List (Nat × Ev) → Prop) :
    (∀ tr ∈ runAll c arr close hz, P tr) ↔ ∀ ch, P (runCh c arr close hz ch) := by
  constructor
  · intro h ch; exact h _ (runCh_mem_runAll c arr close hz ch)
  · intro h tr htr
    obtain ⟨ch, rfl⟩ := runAll_sound c arr close hz tr htr
    exact h ch

/-! non-vacuity: the three traces replayed by hand against the real handler (DESIGN §4.4) -/
example : run { wt := 60000, dt := 5000, hb := 25000, exp := none } [(30000, 1)] none 200000
    = [(0, .comment), (25000, .comment), (30000, .event 1), (55000, .selfClose)] := by decide +kernel
example : run { wt := 0, dt := 5000, hb := 40000, exp := some 90000 } [] none 200000
    = [(0, .comment), (40000, .comment), (80000, .comment), (120000, .failed), (120000, .endWrite)] := by decide +kernel

/-! a genuine tie resolved two ways: the heartbeat and an arrival are both due at 1000. Choice 0 serves the
    heartbeat (a comment, then the event, both at 1000); choice 1 serves the arrival, whose write re-arms
    the heartbeat timer (no comment at 1000). Both satisfy the theorems; the acceptor accepts exactly these. -/
example : runCh { wt := 0, dt := 0, hb := 1000, exp := none } [(1000, 7)] none 1500 [0]
    = [(0, .comment), (1000, .comment), (1000, .event 7)] := by decide +kernel
example : runCh { wt := 0, dt := 0, hb := 1000, exp := none } [(1000, 7)] none 1500 [1]
    = [(0, .comment), (1000, .event 7)] := by decide +kernel
example : runAll { wt := 0, dt := 0, hb := 1000, exp := none } [(1000, 7)] none 1500
    = [[(0, .comment), (1000, .comment), (1000, .event 7)], [(0, .comment), (1000, .event 7)]] := by decide +kernel
/-! a tie between the disconnection timer and an arrival (dt ≠ 0): the arrival may be written first, at the
    same instant, and then the timer fires — `self_disconnect_exact` holds of both resolutions. -/
example : runCh { wt := 60000, dt := 5000, hb := 0, exp := none } [(55000, 1)] none 200000 [0]
    = [(0, .comment), (55000, .selfClose)] := by decide +kernel
example : runCh { wt := 60000, dt := 5000, hb := 0, exp := none } [(55000, 1)] none 200000 [1]
    = [(0, .comment), (55000, .event 1), (55000, .selfClose)] := by decide +kernel
/-! a tie between the client's close and the heartbeat: a comment may be written before the close. -/
example : runCh { wt := 0, dt := 0, hb := 1000, exp := none } [] (some 1000) 5000 [1]
    = [(0, .comment), (1000, .comment), (1000, .clientClose)] := by decide +kernel

end Mercure.C16

#print axioms Mercure.C16.deadline_is_earlier_of
#print axioms Mercure.C16.no_write_after_deadline
#print axioms Mercure.C16.heartbeat_gap
#print axioms Mercure.C16.heartbeat_until_horizon
#print axioms Mercure.C16.self_disconnect_exact
#print axioms Mercure.C16.self_disconnect_exact_fixed_order
#print axioms Mercure.C16.self_disconnect_or_deadline_at_tie
#print axioms Mercure.C16.self_disconnect_tie_counterexample
#print axioms Mercure.C16.no_timer_without_max_duration
#print axioms Mercure.C16.ends_on_first_write_after_expiry
#print axioms Mercure.C16.never_ends_without_deadline
#print axioms Mercure.C16.run_eq_runCh_nil
#print axioms Mercure.C16.runAll_sound
#print axioms Mercure.C16.runCh_mem_runAll
#print axioms Mercure.C16.forall_runAll_iff
