package main

import "strings"

// The harness's own SSE parser (W3C REC-eventsource-20150203 §7), independent of the Lean one.
type sseEvent struct {
	ID, Type, Data string
	Retry          string // "" when no retry field in this block
}

func sseParse(stream string) []sseEvent {
	var out []sseEvent
	var data, typ, lastID, retry string
	hasData := false
	// split into lines on CRLF | LF | CR
	var lines []string
	cur := strings.Builder{}
	for i := 0; i < len(stream); i++ {
		c := stream[i]
		switch c {
		case '\r':
			lines = append(lines, cur.String())
			cur.Reset()
			if i+1 < len(stream) && stream[i+1] == '\n' {
				i++
			}
		case '\n':
			lines = append(lines, cur.String())
			cur.Reset()
		default:
			cur.WriteByte(c)
		}
	}
	for _, l := range lines {
		switch {
		case l == "":
			if hasData {
				out = append(out, sseEvent{ID: lastID, Type: typ, Data: strings.TrimSuffix(data, "\n"), Retry: retry})
			}
			data, typ, retry, hasData = "", "", "", false
		case l[0] == ':':
		default:
			name, value := l, ""
			if i := strings.IndexByte(l, ':'); i >= 0 {
				name, value = l[:i], l[i+1:]
				value = strings.TrimPrefix(value, " ")
			}
			switch name {
			case "event":
				typ = value
			case "data":
				data += value + "\n"
				hasData = true
			case "id":
				lastID = value
			case "retry":
				ok := value != ""
				for _, ch := range value {
					if ch < '0' || ch > '9' {
						ok = false
					}
				}
				if ok {
					retry = strings.TrimLeft(value, "0")
					if retry == "" {
						retry = "0"
					}
				}
			}
		}
	}

	return out
}

// onlyCommentsAndEvents checks the stream contains nothing but ':' comment lines and event blocks
// made of event:/retry:/id:/data: fields.
func onlyCommentsAndEvents(stream string) bool {
	for _, l := range strings.Split(stream, "\n") {
		if l == "" || l[0] == ':' || strings.HasPrefix(l, "event: ") || strings.HasPrefix(l, "retry: ") ||
			strings.HasPrefix(l, "id: ") || strings.HasPrefix(l, "data: ") {
			continue
		}

		return false
	}

	return true
}
