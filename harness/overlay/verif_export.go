//go:build verif

package mercure

import (
	"encoding/json"
	"net/http"
)

// White-box accessors for the verification harness (/verif). This file is NOT part of the
// repository: it is injected at build time with `go build -tags verif -overlay`.

// VerifEncode exposes encode (on a copy: encode sorts its argument in place).
func VerifEncode(topics []string, private bool) string {
	cp := append([]string(nil), topics...)

	return encode(cp, private)
}

// VerifDecode exposes decode.
func VerifDecode(f string) ([]string, bool) { return decode(f) }

// VerifMatch exposes TopicSelectorStore.match.
func (tss *TopicSelectorStore) VerifMatch(topic, sel string) bool { return tss.match(topic, sel) }

// VerifAuthorize exposes authorize with the hub's own key functions; it returns
// "ok:<payload JSON>", "anon" or "err".
func VerifAuthorize(h *Hub, r *http.Request, publisher bool) string {
	var (
		c   *claims
		err error
	)
	if publisher {
		c, err = authorize(r, h.publisherJWTKeyFunc, h.publishOrigins, h.cookieName)
	} else {
		c, err = authorize(r, h.subscriberJWTKeyFunc, nil, h.cookieName)
	}
	switch {
	case err != nil:
		return "err"
	case c == nil:
		return "anon"
	}
	if c.Mercure.Payload == nil {
		return "ok:"
	}
	b, _ := json.Marshal(c.Mercure.Payload)

	return "ok:" + string(b)
}
