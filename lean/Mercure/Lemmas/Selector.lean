import Mercure.Model.Selector
/-
  Lemmas for C11: the weak-cache argument and injectivity of the length-prefixed key.
-/
namespace Mercure

/-! ### key shape proved injective: "m_" ++ dec(len sel) ++ "_" ++ sel ++ "_" ++ topic -/

def goodKeySegs : List Seg := [.lit ['m', '_'], .lenSel, .lit ['_'], .sel, .lit ['_'], .topic]

theorem utf8Len_cons (c : Char) (s : Str) : utf8Len (c :: s) = c.utf8Size + utf8Len s := by
  simp [utf8Len]

theorem utf8Len_pos_of_cons (c : Char) (s : Str) : 0 < utf8Len (c :: s) := by
  have := Char.utf8Size_pos c
  rw [utf8Len_cons]; omega

/-- Two prefixes of one string with the same byte length are the same prefix. -/
theorem prefix_eq_of_utf8Len_eq : ∀ (l₁ l₂ x y : Str),
    l₁ ++ x = l₂ ++ y → utf8Len l₁ = utf8Len l₂ → l₁ = l₂ ∧ x = y
  | [], [], x, y, h, _ => ⟨rfl, by simpa using h⟩
  | [], c :: l₂, _, _, _, hl => by
    have := utf8Len_pos_of_cons c l₂
    simp [utf8Len] at hl this; omega
  | c :: l₁, [], _, _, _, hl => by
    have := utf8Len_pos_of_cons c l₁
    simp [utf8Len] at hl this; omega
  | a :: l₁, b :: l₂, x, y, h, hl => by
    simp only [List.cons_append, List.cons.injEq] at h
    obtain ⟨hab, ht⟩ := h
    subst hab
    rw [utf8Len_cons, utf8Len_cons] at hl
    have := prefix_eq_of_utf8Len_eq l₁ l₂ x y ht (by omega)
    exact ⟨by rw [this.1], this.2⟩

/-- Splitting at the first separator is unambiguous when neither head contains it. -/
theorem append_sep_inj (c : Char) : ∀ (a b x y : Str), c ∉ a → c ∉ b →
    a ++ c :: x = b ++ c :: y → a = b ∧ x = y
  | [], [], x, y, _, _, h => by simpa using h
  | [], d :: b, x, y, _, hb, h => by
    simp only [List.nil_append, List.cons_append, List.cons.injEq] at h
    exact absurd (h.1 ▸ List.mem_cons_self) hb
  | d :: a, [], x, y, ha, _, h => by
    simp only [List.nil_append, List.cons_append, List.cons.injEq] at h
    exact absurd (h.1 ▸ List.mem_cons_self) ha
  | d :: a, e :: b, x, y, ha, hb, h => by
    simp only [List.cons_append, List.cons.injEq] at h
    have ha' : c ∉ a := fun hh => ha (List.mem_cons_of_mem _ hh)
    have hb' : c ∉ b := fun hh => hb (List.mem_cons_of_mem _ hh)
    have := append_sep_inj c a b x y ha' hb' h.2
    exact ⟨by rw [h.1, this.1], this.2⟩

theorem natDigits_injective {m n : Nat} (h : natDigits m = natDigits n) : m = n := by
  have h1 := @Nat.ofDigitChars_ten_toDigits m
  have h2 := @Nat.ofDigitChars_ten_toDigits n
  unfold natDigits at h
  rw [h] at h1
  omega

theorem mkKey_good (sel topic : Str) :
    mkKey goodKeySegs sel topic = 'm' :: '_' :: (natDigits (utf8Len sel) ++ '_' :: (sel ++ '_' :: topic)) := by
  simp [mkKey, goodKeySegs, Seg.render]

theorem goodKey_injective {s₁ t₁ s₂ t₂ : Str}
    (h : mkKey goodKeySegs s₁ t₁ = mkKey goodKeySegs s₂ t₂) : s₁ = s₂ ∧ t₁ = t₂ := by
  rw [mkKey_good, mkKey_good] at h
  simp only [List.cons.injEq, true_and] at h
  have hd := append_sep_inj '_' _ _ _ _ (by unfold natDigits; exact Nat.underscore_not_in_toDigits)
    (by unfold natDigits; exact Nat.underscore_not_in_toDigits) h
  have hn := natDigits_injective hd.1
  have := prefix_eq_of_utf8Len_eq s₁ s₂ _ _ hd.2 hn
  exact ⟨this.1, by simpa using this.2⟩

theorem goodKey_ne_tKey (s t s' : Str) : mkKey goodKeySegs s t ≠ tKey s' := by
  rw [mkKey_good]; simp [tKey]

/-! ### the weak-cache argument -/

/-- What a well-formed cache entry looks like. -/
def EntryOK (T : TemplateOracle) (segs : List Seg) (k : Str) (v : CVal) : Prop :=
  (∃ sel topic, k = mkKey segs sel topic ∧ v = .b sel (matchUncached T topic sel)) ∨
  (∃ sel, k = tKey sel ∧ v = .re sel ∧ T.valid sel = true ∧ containsChar sel '{' = true)

def Store.Inv (T : TemplateOracle) (segs : List Seg) (st : Store) : Prop :=
  ∀ sh ∈ st.shards, ∀ e ∈ sh, EntryOK T segs e.1 e.2

/-- The key expression is usable when hits are validated against the selector: for a fixed
    selector it is injective in the topic, and it is never equal to a "t_" key. -/
structure KeyOK (segs : List Seg) : Prop where
  inj_topic : ∀ s t₁ t₂, mkKey segs s t₁ = mkKey segs s t₂ → t₁ = t₂
  ne_t : ∀ s t s', mkKey segs s t ≠ tKey s'

/-- The key expression is usable on its own (no validation needed): injective in the pair. -/
structure KeyInj (segs : List Seg) : Prop where
  inj : ∀ s₁ t₁ s₂ t₂, mkKey segs s₁ t₁ = mkKey segs s₂ t₂ → s₁ = s₂ ∧ t₁ = t₂
  ne_t : ∀ s t s', mkKey segs s t ≠ tKey s'

theorem goodKey_inj : KeyInj goodKeySegs := ⟨fun _ _ _ _ h => goodKey_injective h, goodKey_ne_tKey⟩

theorem KeyInj.toOK {segs : List Seg} (h : KeyInj segs) : KeyOK segs :=
  ⟨fun s t₁ t₂ e => (h.inj s t₁ s t₂ e).2, h.ne_t⟩

/-- The key shape of /repo: "m_" ++ sel ++ "_" ++ topic — ambiguous in the pair, but injective in
    the topic once the selector is fixed, which is what the validated hit needs. -/
def repoKeySegs : List Seg := [.lit ['m', '_'], .sel, .lit ['_'], .topic]

theorem mkKey_repo (sel topic : Str) :
    mkKey repoKeySegs sel topic = 'm' :: '_' :: (sel ++ '_' :: topic) := by
  simp [mkKey, repoKeySegs, Seg.render]

theorem repoKey_ok : KeyOK repoKeySegs := by
  refine ⟨?_, ?_⟩
  · intro s t₁ t₂ h
    rw [mkKey_repo, mkKey_repo] at h
    simpa using h
  · intro s t s'
    rw [mkKey_repo]; simp [tKey]

theorem goodKey_ok : KeyOK goodKeySegs := goodKey_inj.toOK

theorem tKey_inj {a b : Str} (h : tKey a = tKey b) : a = b := by simpa [tKey] using h

theorem Shard.get_mem {s : Shard} {k : Str} {v : CVal} {s' : Shard}
    (h : s.get k = (some v, s')) : (k, v) ∈ s := by
  unfold Shard.get at h
  split at h
  · rename_i e he
    simp only [Prod.mk.injEq, Option.some.injEq] at h
    have hm := List.mem_of_find?_eq_some he
    have hk := List.find?_some he
    simp only [beq_iff_eq] at hk
    have : e = (k, v) := by
      cases e; simp_all
    exact this ▸ hm
  · simp at h

theorem Shard.get_sub {s : Shard} {k : Str} {r : Option CVal} {s' : Shard}
    (h : s.get k = (r, s')) : ∀ e ∈ s', e ∈ s := by
  unfold Shard.get at h
  split at h
  · rename_i e he
    simp only [Prod.mk.injEq] at h
    intro x hx
    rw [← h.2] at hx
    rcases List.mem_cons.1 hx with rfl | hx
    · exact List.mem_of_find?_eq_some he
    · exact (List.mem_filter.1 hx).1
  · simp only [Prod.mk.injEq] at h
    intro x hx; rw [← h.2] at hx; exact hx

theorem Shard.add_sub (cap : Nat) (s : Shard) (k : Str) (v : CVal) :
    ∀ e ∈ s.add cap k v, e = (k, v) ∨ e ∈ s := by
  intro e he
  unfold Shard.add at he
  have key : ∀ e ∈ ((k, v) :: s.filter (·.1 != k)), e = (k, v) ∨ e ∈ s := by
    intro e he
    rcases List.mem_cons.1 he with rfl | he
    · exact Or.inl rfl
    · exact Or.inr (List.mem_filter.1 he).1
  simp only at he
  split at he
  · exact key e (List.dropLast_subset _ he)
  · exact key e he

theorem Store.get_spec {T : TemplateOracle} {segs : List Seg} {st : Store} {k : Str}
    {r : Option CVal} {st' : Store} (hinv : st.Inv T segs) (h : st.get k = (r, st')) :
    st'.Inv T segs ∧ st'.enabled = st.enabled ∧ (∀ v, r = some v → EntryOK T segs k v) := by
  unfold Store.get at h
  simp only at h
  split at h
  · simp only [Prod.mk.injEq] at h
    obtain ⟨rfl, rfl⟩ := h
    exact ⟨hinv, rfl, by simp⟩
  · rename_i sh hsh
    have hshm : sh ∈ st.shards := List.mem_of_getElem? hsh
    generalize hg : sh.get k = g at h
    obtain ⟨r0, sh'⟩ := g
    simp only [Prod.mk.injEq] at h
    obtain ⟨rfl, rfl⟩ := h
    refine ⟨?_, rfl, ?_⟩
    · intro s hs e he
      rcases List.mem_or_eq_of_mem_set hs with hs | rfl
      · exact hinv s hs e he
      · exact hinv sh hshm e (Shard.get_sub hg e he)
    · intro v hv
      subst hv
      exact hinv sh hshm _ (Shard.get_mem hg)

theorem Store.set_spec {T : TemplateOracle} {segs : List Seg} {st : Store} {k : Str} {v : CVal}
    (hinv : st.Inv T segs) (hv : EntryOK T segs k v) :
    (st.set k v).Inv T segs ∧ (st.set k v).enabled = st.enabled := by
  unfold Store.set
  simp only
  split
  · exact ⟨hinv, rfl⟩
  · rename_i sh hsh
    have hshm : sh ∈ st.shards := List.mem_of_getElem? hsh
    refine ⟨?_, rfl⟩
    intro s hs e he
    rcases List.mem_or_eq_of_mem_set hs with hs | rfl
    · exact hinv s hs e he
    · rcases Shard.add_sub _ _ _ _ e he with rfl | he
      · exact hv
      · exact hinv sh hshm e he

end Mercure
