import Mercure.Model.Json
/-
  Lemmas about Mercure.Model.Json — round trip of the stored representation of an update.
  (core Lean only: no Mathlib)
-/
namespace Mercure.Json

/-! ### string literals -/

/-- a character that is written as itself is read as itself -/
theorem unquoteBody_lit (fuel : Nat) (c : Char) (rest : Str)
    (hc1 : c ≠ '"') (hc2 : c ≠ '\\') (h32 : 32 ≤ c.toNat) :
    unquoteBody (fuel + 1) (c :: rest) = (unquoteBody fuel rest).map (fun (v, r) => (c :: v, r)) := by
  generalize hR : (unquoteBody fuel rest).map _ = R
  unfold unquoteBody
  split
  · simp_all
  · simp_all
  · simp_all
  · simp_all
  · simp_all
  · simp_all
  · rename_i h1 h2
    simp only [List.cons.injEq, Nat.succ_eq_add_one, Nat.add_right_cancel_iff] at h1 h2
    obtain ⟨rfl, rfl⟩ := h2
    subst h1
    rw [if_neg (by omega)]
    exact hR

/-- the four digits `hex4 n` writes are read back as `n`, and `n` is no surrogate -/
def hexOK (n : Nat) : Prop :=
  hex4Val (hexDigit (n / 4096 % 16)) (hexDigit (n / 256 % 16)) (hexDigit (n / 16 % 16)) (hexDigit (n % 16)) = some n
    ∧ isSurrogate n = false

instance (n : Nat) : Decidable (hexOK n) := by unfold hexOK; infer_instance

theorem hexOK_small : ∀ m : Fin 32, hexOK m.val := by decide

theorem unquoteBody_u (fuel : Nat) (n : Nat) (tail : Str)
    (h : n < 32 ∨ n = 0x3c ∨ n = 0x3e ∨ n = 0x26 ∨ n = 0x2028 ∨ n = 0x2029) :
    unquoteBody (fuel + 1) ('\\' :: 'u' :: (hex4 n ++ tail))
      = (unquoteBody fuel tail).map (fun (v, r) => (Char.ofNat n :: v, r)) := by
  have key : hexOK n := by
    rcases h with h | h | h | h | h | h
    · exact hexOK_small ⟨n, h⟩
    all_goals (subst h; decide)
  obtain ⟨h2, h3⟩ := key
  simp [hex4, unquoteBody, h2, h3]

theorem char_eq_of_toNat (c : Char) (n : Nat) (h : c.toNat = n) : c = Char.ofNat n := by
  rw [← h, Char.ofNat_toNat]

/-- one written rune is read back as that rune, with one unit of fuel -/
theorem unquoteBody_escChar (fuel : Nat) (c : Char) (tail : Str) :
    unquoteBody (fuel + 1) (escChar c ++ tail) = (unquoteBody fuel tail).map (fun (v, r) => (c :: v, r)) := by
  unfold escChar
  split
  · rename_i h; simp at h; subst h; simp [unquoteBody]
  split
  · rename_i h; simp at h; subst h; simp [unquoteBody]
  split
  · rename_i h; simp at h; have := char_eq_of_toNat _ _ h; subst this; simp [unquoteBody]
  split
  · rename_i h; simp at h; have := char_eq_of_toNat _ _ h; subst this; simp [unquoteBody]
  split
  · rename_i h; simp at h; subst h; simp [unquoteBody]
  split
  · rename_i h; simp at h; subst h; simp [unquoteBody]
  split
  · rename_i h; simp at h; subst h; simp [unquoteBody]
  split
  · rename_i h
    have h' : c.toNat < 32 ∨ c.toNat = 0x3c ∨ c.toNat = 0x3e ∨ c.toNat = 0x26 ∨ c.toNat = 0x2028
        ∨ c.toNat = 0x2029 := by
      simp at h
      rcases h with ((((h | h) | h) | h) | h) | h
      · exact .inl h
      · subst h; decide
      · subst h; decide
      · subst h; decide
      · exact .inr (.inr (.inr (.inr (.inl h))))
      · exact .inr (.inr (.inr (.inr (.inr h))))
    have := unquoteBody_u fuel c.toNat tail h'
    rw [Char.ofNat_toNat] at this
    simpa using this
  · rename_i h1 h2 _ _ _ _ _ h8
    simp at h1 h2 h8
    exact unquoteBody_lit fuel c tail h1 h2 (by omega)

theorem length_escChar_pos (c : Char) : 1 ≤ (escChar c).length := by
  unfold escChar
  repeat' split
  all_goals simp [hex4]

theorem length_le_escape (s : Str) : s.length ≤ (escape s).length := by
  induction s with
  | nil => simp [escape]
  | cons c cs ih => simp [escape]; have := length_escChar_pos c; omega

/-- with one unit of fuel per rune (and one for the closing quote) the body is read back -/
theorem unquoteBody_escape (s : Str) : ∀ (fuel : Nat) (rest : Str), s.length + 1 ≤ fuel →
    unquoteBody fuel (escape s ++ '"' :: rest) = some (s, rest) := by
  induction s with
  | nil =>
    intro fuel rest h
    obtain ⟨f, rfl⟩ : ∃ f, fuel = f + 1 := ⟨fuel - 1, by omega⟩
    simp [escape, unquoteBody]
  | cons c cs ih =>
    intro fuel rest h
    obtain ⟨f, rfl⟩ : ∃ f, fuel = f + 1 := ⟨fuel - 1, by omega⟩
    simp only [escape, List.append_assoc]
    rw [unquoteBody_escChar, ih f rest (by simpa using h)]
    rfl

/-- a string literal decodes to the string it was written from, whatever follows -/
theorem parseStr_str (s rest : Str) : parseStr (str s ++ rest) = some (s, rest) := by
  simp only [str, List.cons_append, parseStr, List.append_assoc, List.nil_append]
  apply unquoteBody_escape
  have := length_le_escape s
  simp; omega

/-! ### no raw control character -/

theorem hexDigit_ge : ∀ k : Fin 16, 32 ≤ (hexDigit k.val).toNat := by decide

theorem hexDigit_mod_ge (n : Nat) : 32 ≤ (hexDigit (n % 16)).toNat :=
  hexDigit_ge ⟨n % 16, Nat.mod_lt _ (by decide)⟩

theorem escChar_no_control (c : Char) : ∀ x ∈ escChar c, 32 ≤ x.toNat := by
  unfold escChar
  split
  · decide
  split
  · decide
  split
  · decide
  split
  · decide
  split
  · decide
  split
  · decide
  split
  · decide
  split
  · intro x hx
    simp only [hex4, List.mem_cons, List.not_mem_nil, or_false] at hx
    rcases hx with rfl | rfl | rfl | rfl | rfl | rfl
    · decide
    · decide
    all_goals exact hexDigit_mod_ge _
  · rename_i h
    intro x hx
    simp at hx h
    subst hx
    omega

/-- the escaped form carries no raw control character, so the stored value is valid JSON text -/
theorem escape_no_control (s : Str) : ∀ c ∈ escape s, 32 ≤ c.toNat := by
  induction s with
  | nil => simp [escape]
  | cons a as ih =>
    intro c hc
    simp only [escape, List.mem_append] at hc
    rcases hc with hc | hc
    · exact escChar_no_control a c hc
    · exact ih c hc

/-! ### literals, booleans, numbers -/

theorem expect_append (p rest : Str) : expect p (p ++ rest) = some rest := by
  simp [expect]

theorem parseBool_bool_aux (b : Bool) (rest : Str) : parseBool (bool b ++ rest) = some (b, rest) := by
  cases b
  · simp only [bool, parseBool]
    simp [expect]
  · simp only [bool, parseBool, expect_append, if_true]

set_option linter.unusedVariables false in
theorem parseBool_bool (b : Bool) (rest : Str) (h : rest.head? ≠ none) : parseBool (bool b ++ rest) = some (b, rest) :=
  parseBool_bool_aux b rest

theorem takeWhile_digits_append (ds rest : Str) (hd : ∀ c ∈ ds, c.isDigit = true)
    (hr : ∀ c, rest.head? = some c → c.isDigit = false) :
    (ds ++ rest).takeWhile Char.isDigit = ds ∧ (ds ++ rest).dropWhile Char.isDigit = rest := by
  induction ds with
  | nil =>
    cases rest with
    | nil => simp
    | cons r rs => simp [hr r rfl]
  | cons d ds ih =>
    have hd' := hd d (by simp)
    have := ih (fun c hc => hd c (by simp [hc]))
    simp [hd', this]

/-- no leading zero: the first digit of a positive number is not `0` -/
theorem head_toDigits_ne_zero (n : Nat) (h : 0 < n) : (Nat.toDigits 10 n).head? ≠ some '0' := by
  induction n using Nat.strongRecOn with
  | _ n ih =>
    rw [Nat.toDigits_eq_if (by decide)]
    split
    · rename_i hlt
      have : ∀ m : Fin 10, 0 < m.val → [Nat.digitChar m.val].head? ≠ some '0' := by decide
      exact this ⟨n, hlt⟩ h
    · rename_i hge
      have hne : Nat.toDigits 10 (n / 10) ≠ [] := Nat.toDigits_ne_nil
      have := ih (n / 10) (by omega) (by omega)
      cases hh : Nat.toDigits 10 (n / 10) with
      | nil => exact absurd hh hne
      | cons a as => rw [hh] at this; simpa using this

theorem parseNat_toDigits (n : Nat) (h : n < 2 ^ 64) (rest : Str) (hr : ∀ c, rest.head? = some c → c.isDigit = false) :
    parseNat (Nat.toDigits 10 n ++ rest) = some (n, rest) := by
  have hd : ∀ c ∈ Nat.toDigits 10 n, c.isDigit = true :=
    fun c hc => Nat.isDigit_of_mem_toDigits (by decide) (by decide) hc
  obtain ⟨h1, h2⟩ := takeWhile_digits_append _ _ hd hr
  unfold parseNat
  simp only [h1, h2]
  have hne : Nat.toDigits 10 n ≠ [] := Nat.toDigits_ne_nil
  have hlead : ((Nat.toDigits 10 n).length > 1 && (Nat.toDigits 10 n).head? == some '0') = false := by
    cases n with
    | zero => simp
    | succ m =>
      have := head_toDigits_ne_zero (m + 1) (by omega)
      simp [this]
  simp [hne, hlead, Nat.ofDigitChars_ten_toDigits, h]

/-! ### arrays of strings -/

theorem length_strArrayBody (l : List Str) : l.length ≤ (strArrayBody l).length := by
  induction l with
  | nil => simp
  | cons x xs ih =>
    cases xs with
    | nil => simp [strArrayBody, str]
    | cons y ys => simp [strArrayBody, str] at ih ⊢; omega

theorem parseStrArrayBody_strArrayBody (x : Str) (xs : List Str) : ∀ (fuel : Nat) (rest : Str),
    (x :: xs).length ≤ fuel →
    parseStrArrayBody fuel (strArrayBody (x :: xs) ++ ']' :: rest) = some (x :: xs, rest) := by
  induction xs generalizing x with
  | nil =>
    intro fuel rest h
    obtain ⟨f, rfl⟩ : ∃ f, fuel = f + 1 := ⟨fuel - 1, by simp at h; omega⟩
    simp [strArrayBody, parseStrArrayBody, parseStr_str]
  | cons y ys ih =>
    intro fuel rest h
    obtain ⟨f, rfl⟩ : ∃ f, fuel = f + 1 := ⟨fuel - 1, by simp at h; omega⟩
    simp only [strArrayBody, List.append_assoc, parseStrArrayBody, parseStr_str, List.cons_append]
    rw [ih y f rest (by simpa using h)]
    rfl

theorem parseStrArray_strArray (l : List Str) (rest : Str) :
    parseStrArray (strArray l ++ rest) = some (l, rest) := by
  cases l with
  | nil =>
    show parseStrArray ("null".toList ++ rest) = some ([], rest)
    unfold parseStrArray
    rw [expect_append]
  | cons x xs =>
    have hlen := length_strArrayBody (x :: xs)
    have key := parseStrArrayBody_strArrayBody x xs ((strArrayBody (x :: xs) ++ ']' :: rest).length + 1) rest
      (by simp at hlen ⊢; omega)
    have hq : ∃ t, strArrayBody (x :: xs) = '"' :: t := by
      cases xs <;> simp [strArrayBody, str]
    obtain ⟨t, ht⟩ := hq
    rw [ht] at key
    simp [strArray, parseStrArray, expect, ht]
    simpa using key

/-! ### the stored update -/

/-- **Round trip**: what `dispatchHistory` decodes is what `Dispatch` stored. -/
theorem parseUpdate_update (d : Bool) (u : Update) (h : u.retry < 2 ^ 64) :
    parseUpdate (update d u) = some (d, u) := by
  have hn := parseNat_toDigits u.retry h ['}'] (by intro c hc; simp at hc; subst hc; decide)
  unfold parseUpdate update
  simp only [List.append_assoc]
  simp only [expect_append, Option.bind_eq_bind, Option.bind_some, parseStrArray_strArray,
    parseBool_bool_aux, parseStr_str, hn]
  cases u
  simp

/-- two different updates are never stored as the same bytes -/
theorem update_injective (d d' : Bool) (u u' : Update) (h : u.retry < 2 ^ 64) (h' : u'.retry < 2 ^ 64)
    (e : update d u = update d' u') : d = d' ∧ u = u' := by
  have := parseUpdate_update d u h
  rw [e, parseUpdate_update d' u' h'] at this
  simp at this
  exact ⟨this.1.symm, this.2.symm⟩

end Mercure.Json
