import Mercure.Model.Publish
/-
  Mercure.Model.Form — how the body of a POST becomes the fields `PublishHandler` reads:
      r.ParseForm()  →  r.PostForm["topic"], r.PostForm.Get("retry" | "data" | "id" | "type"), len(r.PostForm["private"])
  For `Content-Type: application/x-www-form-urlencoded` that is `url.ParseQuery(body)` (net/url, go1.24):
  split on '&'; a piece containing ';' is an error; an empty piece is skipped; cut at the first '=';
  `QueryUnescape` key and value ('+' ↦ space, `%XX` ↦ the byte, anything else after '%' is an error);
  the first error is remembered, the remaining pieces are still parsed; `ParseForm` returns that error
  and the hub answers 400.

  Everything is on bytes (`List UInt8`): percent-decoding can produce any byte string. The fields handed to
  the rest of the model are `Str`; a value that is not valid UTF-8 has no `Str` — `fieldsOf` answers `none`
  ("outside the modelled domain"; the properties quantify over UTF-8 strings).
-/
namespace Mercure.Form

abbrev Bytes := List UInt8

def hexVal (b : UInt8) : Option Nat :=
  if 48 ≤ b.toNat && b.toNat ≤ 57 then some (b.toNat - 48)
  else if 97 ≤ b.toNat && b.toNat ≤ 102 then some (b.toNat - 87)
  else if 65 ≤ b.toNat && b.toNat ≤ 70 then some (b.toNat - 55)
  else none

/-- `url.QueryUnescape` -/
def unescape : Bytes → Option Bytes
  | [] => some []
  | 37 :: a :: b :: rest =>                                   -- '%'
    match hexVal a, hexVal b, unescape rest with
    | some x, some y, some r => some (UInt8.ofNat (x * 16 + y) :: r)
    | _, _, _ => none
  | 37 :: _ => none
  | 43 :: rest => (unescape rest).map (32 :: ·)                -- '+'
  | c :: rest => (unescape rest).map (c :: ·)

/-- split at every occurrence of `sep` -/
def splitOn (sep : UInt8) : Bytes → List Bytes
  | [] => [[]]
  | c :: rest =>
    if c == sep then [] :: splitOn sep rest
    else match splitOn sep rest with
      | [] => [[c]]
      | p :: ps => (c :: p) :: ps

/-- `strings.Cut(piece, "=")`: key and value (empty when there is no '=') -/
def cutEq (p : Bytes) : Bytes × Bytes :=
  (p.takeWhile (· != 61), (p.dropWhile (· != 61)).drop 1)

/-- `url.ParseQuery`: the decoded pairs in order of appearance and whether an error was met. -/
def parseQuery (q : Bytes) : List (Bytes × Bytes) × Bool :=
  (splitOn 38 q).foldl (fun (acc : List (Bytes × Bytes) × Bool) piece =>
    if piece.contains 59 then (acc.1, true)                    -- ';'
    else if piece.isEmpty then acc
    else
      let (k, v) := cutEq piece
      match unescape k with
      | none => (acc.1, true)
      | some k' =>
        match unescape v with
        | none => (acc.1, true)
        | some v' => (acc.1 ++ [(k', v')], acc.2)) ([], false)

/-- net/http `maxFormSize`: the largest `application/x-www-form-urlencoded` body `ParseForm` reads. -/
def maxFormSize : Nat := 10485760

/-- `http.Request.ParseForm` on a POST with an `application/x-www-form-urlencoded` body (request.go
    `parsePostForm`): the body is read through `io.LimitReader(body, maxFormSize+1)`; more than
    `maxFormSize` bytes is the error "http: POST too large" with no values at all; otherwise the **whole**
    body goes to `url.ParseQuery`. No prefix of a body is ever parsed on its own. -/
def parsePostForm (body : Bytes) : List (Bytes × Bytes) × Bool :=
  if maxFormSize < body.length then ([], true) else parseQuery body

/-- `Values[key]` -/
def valuesOf (kvs : List (Bytes × Bytes)) (key : Str) : List Bytes :=
  (kvs.filter (·.1 == utf8Bytes key)).map (·.2)

/-- `Values.Get(key)` -/
def getFirst (kvs : List (Bytes × Bytes)) (key : Str) : Bytes :=
  ((valuesOf kvs key).head?).getD []

def toStr (b : Bytes) : Option Str := (String.fromUTF8? ⟨b.toArray⟩).map String.toList

structure Fields where
  formOk : Bool
  topics : List Str
  retry  : Str
  priv   : Bool
  data   : Str
  id     : Str
  type   : Str
  deriving DecidableEq, Repr

/-- What `PublishHandler` reads from an `application/x-www-form-urlencoded` body; `none` when a field it
    reads is not valid UTF-8. -/
def fieldsOf (body : Bytes) : Option Fields := do
  let (kvs, err) := parsePostForm body
  let topics ← (valuesOf kvs "topic".toList).mapM toStr
  let retry ← toStr (getFirst kvs "retry".toList)
  let data ← toStr (getFirst kvs "data".toList)
  let id ← toStr (getFirst kvs "id".toList)
  let type ← toStr (getFirst kvs "type".toList)
  pure { formOk := !err, topics := topics, retry := retry, priv := !(valuesOf kvs "private".toList).isEmpty,
         data := data, id := id, type := type }

/-! ### what a client sends: `url.QueryEscape` / `url.Values.Encode` without the sorting -/

def hexUpper (n : Nat) : UInt8 := if n < 10 then UInt8.ofNat (48 + n) else UInt8.ofNat (55 + n)

/-- `shouldEscape(c, encodeQueryComponent)`: letters, digits and `- _ . ~` are kept -/
def keep (b : UInt8) : Bool :=
  let n := b.toNat
  (48 ≤ n && n ≤ 57) || (65 ≤ n && n ≤ 90) || (97 ≤ n && n ≤ 122) || n == 45 || n == 95 || n == 46 || n == 126

/-- `url.QueryEscape` -/
def escape : Bytes → Bytes
  | [] => []
  | b :: rest =>
    (if keep b then [b] else if b == 32 then [43] else [37, hexUpper (b.toNat / 16), hexUpper (b.toNat % 16)]) ++ escape rest

def encodePair (kv : Bytes × Bytes) : Bytes := escape kv.1 ++ [61] ++ escape kv.2

/-- the pairs joined with '&', in the order given -/
def encodePairs : List (Bytes × Bytes) → Bytes
  | [] => []
  | [kv] => encodePair kv
  | kv :: rest => encodePair kv ++ [38] ++ encodePairs rest

end Mercure.Form
