package main

import (
	"encoding/json"
	"fmt"
	"hash/fnv"
	"net/url"
	"os"
	"strings"
	"sync"
	"time"

	"verifharness/pkg/jws"

	"github.com/dunglas/mercure"

	"verifharness/pkg/gen"
	"verifharness/pkg/h"
)

func init() {
	register("hub", "C01", runHub)
	register("overflow", "C13", runOverflow)
	register("hubevents", "C17", func(c *h.Ctx, r *h.Report) { runHubGen(c, r, "events") })
	register("hubapi", "C18", func(c *h.Ctx, r *h.Report) { runHubGen(c, r, "api") })
}

func runOverflow(c *h.Ctx, r *h.Report) {
	r.Rule = "histories around the buffer capacity (1000) through the real handlers under synctest: a subscriber whose writer is stalled while capacity-1 … capacity+3 matching updates are published (overflow during live delivery at exactly capacity+1 pending: 1 in flight + capacity buffered), then released; other subscribers reading normally; on Bolt, replays from 'earliest' and from a stored id larger / smaller than the buffer (overflow during history replay); subscriptions API listing afterwards. A scale stage registers 1023 / 1025 / 2100+ subscribers on each transport (some removed again): all listed, an update handed to exactly the connected ones, Close ends every one (implementation-only oracles). Full observable state compared with the model after every op; the property's oracle (a subscriber that missed an update is ended and no longer listed, the others got everything) evaluated on the implementation alone. Non-trivial = case in which some buffer overflowed; distinct by content."
	o := gen.NewOracle()
	g := installCountingUUID()
	manySubscribers(c, r)
	n := c.Scale(20, 400)
	for i := 0; i < n; i++ {
		cs := genOverflowCase(c.Rand.Fork(), 1000)
		runHubCase(c, r, o, cs, g)
		r.Nontrivial(fmt.Sprint(cs))
		if i < 2 {
			r.Sample(cs.Ops)
		}
	}
}

type hubPool struct {
	topics []string // concrete topics
	sels   []string // selectors: literals equal to topics, templates covering topics, '*', non-matching
}

func mkPool(rr *h.Rand, o *gen.Oracle) hubPool {
	var p hubPool
	for i := 0; i < 2; i++ {
		t := gen.Template(rr)
		if o.Valid(t) {
			p.sels = append(p.sels, t)
			p.topics = append(p.topics, gen.Expand(rr, tplOf(t)), gen.Expand(rr, tplOf(t)))
		}
	}
	for i := 0; i < 3; i++ {
		l := "https://example.com/" + gen.Literal(rr, false)
		p.topics = append(p.topics, l)
		p.sels = append(p.sels, l)
	}
	// the commonest template shape — a literal and one trailing variable — with topics that share the literal
	// prefix but whose remainder is not an expansion of the variable (reserved characters, space, non-ASCII,
	// one more path segment): claims made of such a template must not open those topics
	base := "https://example.com/" + gen.Literal(rr, false)
	p.sels = append(p.sels, base+"/{id}")
	p.topics = append(p.topics, base+"/1", base+"/1"+h.Pick(rr, []string{"?fields=price", "#reviews", ":x", " y", "é", "/deeper", "%zz"}))
	if len(p.sels) > 0 && strings.Contains(p.sels[0], "{") {
		p.topics = append(p.topics, gen.Expand(rr, tplOf(p.sels[0]))+h.Pick(rr, []string{"?q", "#f", " ", "é", "/"}))
	}
	p.sels = append(p.sels, "*", "https://example.com/none", "a b")
	p.topics = append(p.topics, "a b")
	p.topics = dedupe(p.topics)
	p.sels = dedupe(p.sels)

	return p
}

var (
	collOnce     sync.Once
	collA, collB string
)

// collidingTemplates: a claim-like template and a catch-all template with FNV-32a("t_"+a) == FNV-32a("t_"+b)
// (birthday search, once per process).
func collidingTemplates() (string, string) {
	collOnce.Do(func() {
		h32 := func(s string) uint32 {
			f := fnv.New32a()
			f.Write([]byte(s))

			return f.Sum32()
		}
		seen := map[uint32]int{}
		for i := 0; i < 1<<17; i++ {
			seen[h32(fmt.Sprintf("t_https://example.com/users/%d/{resource}", i))] = i
		}
		for j := 0; j < 1<<20; j++ {
			b := fmt.Sprintf("{+v%d}", j)
			if i, ok := seen[h32("t_"+b)]; ok {
				collA, collB = fmt.Sprintf("https://example.com/users/%d/{resource}", i), b

				return
			}
		}
		collA, collB = "https://example.com/users/1/{resource}", "{+v}"
	})

	return collA, collB
}

func claimsJSON(key string, sels []string, payload string) string {
	m := map[string]interface{}{key: sels}
	if sels == nil {
		m = map[string]interface{}{}
	}
	if payload != "" {
		m["payload"] = payload
	}
	b, _ := json.Marshal(map[string]interface{}{"mercure": m})

	return string(b)
}

func genHubCase(rr *h.Rand, o *gen.Oracle, focus string) hubCase {
	cs := hubCase{Cfg: hubCfg{PubAlg: "HS256", SubAlg: "HS256", Anonymous: rr.Chance(2, 3), Origins: []string{"https://allowed.example"},
		Subscriptions: rr.Chance(1, 3), Compat7: rr.Chance(1, 5), Bolt: rr.Bool()}}
	if cs.Cfg.Bolt && rr.Chance(1, 3) {
		cs.Size = uint64(1 + rr.Intn(5))
	}
	p := mkPool(rr, o)
	if focus == "events" || focus == "api" {
		cs.Cfg.Subscriptions = true
		p.sels = append(p.sels, "a b", "x/y?z#w", "é ü", "100%", "a+b", ".", "..", "a/../b", "a//b", "./x", "{weird", "https://example.com/{id}")
	}
	if focus == "events" {
		watch := claimsJSON("subscribe", []string{"*"}, "w")
		cs.Ops = append(cs.Ops, hubOp{Op: "sub", Label: 1000, Topics: []string{"*"}, Claims: watch},
			hubOp{Op: "sub", Label: 1001, Topics: []string{"/.well-known/mercure/subscriptions/{topic}/{subscriber}"}, Claims: watch})
	}
	nops := 8 + rr.Intn(25)
	next := 0
	var live []int
	var ids []string
	// a connection whose SetWriteDeadline fails and one whose write fails are not mixed in one history: if both died
	// of the same publication the order of their end events would be the runtime's
	hasDL, hasFail := false, false
	if focus == "" && rr.Chance(1, 6) {
		// two template selectors whose compiled-template cache keys collide under the cache's 32-bit shard hash:
		// the subscriber is authorised for one user's resources and subscribes to a catch-all template; a private
		// update about another user must not reach it, whatever the selector cache holds
		a, b := collidingTemplates()
		cs.Ops = append(cs.Ops, hubOp{Op: "sub", Label: 2000, Topics: []string{b}, Claims: claimsJSON("subscribe", []string{a}, ""), Carrier: "header"})
		form := url.Values{"topic": {"https://example.com/users/other/payslips"}, "private": {"on"}, "data": {"secret"}, "id": {"collide"}}
		cs.Ops = append(cs.Ops, hubOp{Op: "pub", Form: form, Claims: claimsJSON("publish", []string{"*"}, ""), Carrier: "header"})
	}
	if focus == "" && rr.Chance(1, 6) {
		// topics of several hundred bytes that share a long prefix and differ only at the end, one matched by the
		// subscriber's template and one not (in either order): the recipients must not depend on what was matched before
		base := "https://example.com/"
		long := strings.Repeat(h.Pick(rr, []string{"a", "ab", "x1"}), 300+rr.Intn(200))
		cs.Ops = append(cs.Ops, hubOp{Op: "sub", Label: 2100, Topics: []string{base + "{id}"}, Claims: claimsJSON("subscribe", []string{base + "{id}"}, ""), Carrier: "header"})
		t1, t2 := base+long, base+long+"/comments"
		if rr.Bool() {
			t1, t2 = t2, t1
		}
		for i, t := range []string{t1, t2, t1} {
			form := url.Values{"topic": {t}, "data": {"d"}, "id": {fmt.Sprintf("long-%d", i)}}
			if rr.Bool() {
				form.Set("private", "on")
			}
			cs.Ops = append(cs.Ops, hubOp{Op: "pub", Form: form, Claims: claimsJSON("publish", []string{"*"}, ""), Carrier: "header"})
		}
	}
	pubN := 0
	for k := 0; k < nops; k++ {
		x := rr.Intn(100)
		switch {
		case x < 40: // publish
			form := url.Values{}
			nt := 1 + rr.Intn(3)
			for i := 0; i < nt; i++ {
				form.Add("topic", h.Pick(rr, p.topics))
			}
			switch rr.Intn(4) {
			case 0:
				form.Set("private", "")
			case 1:
				form.Set("private", "on")
			}
			if rr.Chance(5, 6) {
				id := fmt.Sprintf("id%d", pubN)
				if len(ids) > 0 && rr.Chance(1, 5) {
					id = h.Pick(rr, ids) // a publisher may reuse an id: same id, different update
				}
				form.Set("id", id)
			}
			pubN++
			form.Set("data", h.Pick(rr, []string{"", "d", "l1\nl2", "é\r\nx", "data: y\n"})+fmt.Sprintf("#%d", pubN))
			if rr.Chance(1, 4) {
				form.Set("type", h.Pick(rr, []string{"t", "message"}))
			}
			if rr.Chance(1, 6) {
				form.Set("retry", h.Pick(rr, []string{"5", "3000"}))
			}
			var claim []string
			switch rr.Intn(6) {
			case 0:
				claim = []string{h.Pick(rr, p.sels)}
			default:
				claim = []string{"*"}
			}
			op := hubOp{Op: "pub", Form: form, Claims: claimsJSON("publish", claim, ""), Carrier: h.Pick(rr, []string{"header", "header", "query", "cookie"})}
			if rr.Chance(1, 15) {
				op.Claims = ""
			}
			cs.Ops = append(cs.Ops, op)
			if form.Get("id") != "" {
				ids = append(ids, form.Get("id"))
			}
		case x < 65 || len(live) == 0: // subscribe
			op := hubOp{Op: "sub", Label: next}
			for i := 1 + rr.Intn(2); i > 0; i-- {
				op.Topics = append(op.Topics, h.Pick(rr, p.sels))
			}
			if rr.Chance(1, 6) { // a repeated selector before a different one: [a, a, b]
				op.Topics = []string{op.Topics[0], op.Topics[0], h.Pick(rr, p.sels)}
			}
			if focus == "events" && rr.Chance(1, 3) {
				op.Topics = []string{"/.well-known/mercure/subscriptions/{topic}/{subscriber}"}
			}
			switch rr.Intn(5) {
			case 0: // anonymous
			case 1:
				op.Claims = claimsJSON("subscribe", []string{"*"}, h.Pick(rr, []string{"", "who"}))
			case 2:
				op.Claims = claimsJSON("subscribe", nil, "p")
			default:
				var cl []string
				for i := 1 + rr.Intn(2); i > 0; i-- {
					cl = append(cl, h.Pick(rr, p.sels))
				}
				op.Claims = claimsJSON("subscribe", cl, "")
			}
			op.Carrier = h.Pick(rr, []string{"header", "query", "cookie"})
			op.Head = rr.Chance(1, 7)
			if !hasFail && op.Claims == "" && rr.Chance(1, 6) {
				hasDL = true
				// the connection is torn down under the handler: every SetWriteDeadline fails, from the very first
				// one (right after registration); no replay, so that its first write attempt comes with a publication
				if rr.Bool() {
					op.DeadlineErr = true
				} else {
					op.FlushErr = true // or every flush fails, from the one that follows the headers
				}
			} else if rr.Chance(1, 2) {
				var id string
				switch rr.Intn(5) {
				case 0:
					id = "earliest"
				case 1:
					id = "unknown-id"
				default:
					if len(ids) > 0 {
						id = h.Pick(rr, ids)
					} else {
						id = "earliest"
					}
				}
				switch rr.Intn(4) {
				case 0:
					op.LeidH = id
				case 1:
					op.LeidQ = id
				case 2:
					op.LeidL = []string{id}
				default:
					op.LeidH = id
					op.LeidQ = "other"
				}
			}
			if rr.Chance(1, 12) {
				op.Topics = nil
			}
			cs.Ops = append(cs.Ops, op)
			live = append(live, next)
			next++
		case x < 75:
			j := rr.Intn(len(live))
			cs.Ops = append(cs.Ops, hubOp{Op: "disc", Label: live[j]})
			live = append(live[:j], live[j+1:]...)
		case x < 80:
			if hasDL {
				continue
			}
			hasFail = true
			cs.Ops = append(cs.Ops, hubOp{Op: "failnext", Label: h.Pick(rr, live)})
		case x < 84:
			cs.Ops = append(cs.Ops, hubOp{Op: "stall", Label: h.Pick(rr, live)})
		case x < 88:
			cs.Ops = append(cs.Ops, hubOp{Op: "unstall", Label: h.Pick(rr, live)})
		case x < 91:
			cs.Ops = append(cs.Ops, hubOp{Op: "restart"})
			live = nil
		case x < 93:
			cs.Ops = append(cs.Ops, hubOp{Op: "close"})
			live = nil
		default:
			if cs.Cfg.Subscriptions && (focus == "api" || rr.Chance(1, 2)) {
				op := hubOp{Op: h.Pick(rr, []string{"api.list", "api.list", "api.get"}), Claims: claimsJSON("subscribe", []string{"*"}, "")}
				if rr.Bool() || op.Op == "api.get" {
					op.Topic = h.Pick(rr, p.sels)
				}
				if op.Op == "api.get" && len(live) > 0 && rr.Chance(3, 4) {
					op.Sub = h.Itoa(h.Pick(rr, live))
				}
				switch rr.Intn(5) {
				case 0:
					op.Claims = ""
				case 1:
					op.Claims = claimsJSON("subscribe", []string{"https://example.com/none"}, "")
				case 2:
					op.Claims = claimsJSON("subscribe", []string{"/.well-known/mercure/subscriptions{/topic}{/subscriber}"}, "")
				}
				if rr.Chance(1, 6) && len(ids) > 0 {
					op.INM = h.Pick(rr, ids)
				}
				if rr.Chance(1, 5) {
					op.INM = "@last" // resolved when the op runs: the hub's current last event id
				}
				cs.Ops = append(cs.Ops, op)
			}
		}
	}

	if (focus == "events" || focus == "api") && cs.Cfg.Bolt && cs.Cfg.Subscriptions && cs.Size == 0 && rr.Chance(1, 4) {
		// a registration that fails half-way: an undecodable entry in the history makes the replay, and so
		// AddSubscriber, fail after the subscriber was announced (the model's `connectFail` operation)
		cs.Ops = append(cs.Ops, hubOp{Op: "pub", Form: url.Values{"topic": {"https://example.com/x"}, "id": {"before-corruption"}, "data": {"d"}}, Claims: claimsJSON("publish", []string{"*"}, "")},
			hubOp{Op: "corrupt"},
			hubOp{Op: "sub", Label: 900, Topics: []string{h.Pick(rr, p.sels), h.Pick(rr, p.sels)}, LeidQ: "earliest", Claims: claimsJSON("subscribe", []string{"*"}, "who")},
			hubOp{Op: "api.list", Claims: claimsJSON("subscribe", []string{"*"}, "")})
	}

	return cs
}

// runHubGen: the hub family with a generator focused on one concern (same machinery and oracles).
func runHubGen(c *h.Ctx, r *h.Report, focus string) {
	switch focus {
	case "events":
		r.Rule = "hub histories with subscription tracking always on: a '*'-claims watcher on '*' and a watcher on the documented template /.well-known/mercure/subscriptions/{topic}/{subscriber} connect first; then subscribers with 1-3 selectors drawn from reserved characters / templates / unicode / spaces connect and end in every way (client disconnect, failing write, stalled writer, hub close, restart, refused requests); both transports. Every stream, the index and the metrics are compared with the model after every op; the oracle 'event id is the percent-encoded subscription URL' is evaluated on the implementation alone. Non-trivial = case with a subscriber having >= 2 selectors or an abnormal end; distinct by content."
	case "api":
		r.Rule = "hub histories with the subscription API on: connects / disconnects / publishes, then the three endpoints (collection, per-selector collection, item — every listed id is dereferenced) with caller claims in {exact URL, template, '*', unrelated, absent}, If-None-Match, selectors exercising URL escaping; both transports; responses compared with the model; oracles 'listed = connected' on the implementation alone. Non-trivial = case with >= 2 connected subscribers at an API call; distinct by content."
	}
	o := gen.NewOracle()
	g := installCountingUUID()
	if c.Replay != "" {
		var rp struct {
			Case hubCase `json:"case"`
		}
		readReplay(c.Replay, &rp)
		runHubCase(c, r, o, rp.Case, g)

		return
	}
	if focus == "events" {
		// a tracked connection that the hub itself ends because its buffer overflowed (stalled writer, more than
		// the buffer's worth of matching updates): its end must be announced like any other
		for i, k := 0, c.Scale(3, 30); i < k; i++ {
			rr := c.Rand.Fork()
			cs := genOverflowCase(rr, 1000)
			cs.Cfg.Subscriptions = true
			cs.ExpectAll = false
			watch := claimsJSON("subscribe", []string{"*"}, "w")
			cs.Ops = append([]hubOp{{Op: "sub", Label: 1000, Topics: []string{"*"}, Claims: watch},
				{Op: "sub", Label: 1001, Topics: []string{"/.well-known/mercure/subscriptions/{topic}/{subscriber}"}, Claims: watch}}, cs.Ops...)
			runHubCase(c, r, o, cs, g)
			r.Count("case:tracked-connection-ended-by-overflow")
		}
	}
	n := c.Scale(300, 5000)
	for i := 0; i < n; i++ {
		cs := genHubCase(c.Rand.Fork(), o, focus)
		runHubCase(c, r, o, cs, g)
		if hubNontrivial(cs, focus) {
			r.Nontrivial(fmt.Sprint(cs))
		}
		r.Sample(cs.Ops)
	}
}

func hubNontrivial(cs hubCase, focus string) bool {
	multi, abnormal, subs, apiWith2 := false, false, 0, false
	priv := false
	for _, op := range cs.Ops {
		switch op.Op {
		case "sub":
			subs++
			multi = multi || len(op.Topics) >= 2
		case "failnext", "stall", "close", "restart":
			abnormal = true
		case "disc":
			subs--
		case "api.list", "api.get":
			apiWith2 = apiWith2 || subs >= 2
		case "pub":
			priv = priv || len(op.Form["private"]) != 0
		}
	}
	switch focus {
	case "events":
		return multi || abnormal
	case "api":
		return apiWith2
	}

	// default focus: a private publish while both a subscriber with claims and one without are connected
	withClaims, without := map[int]bool{}, map[int]bool{}
	for _, op := range cs.Ops {
		switch op.Op {
		case "sub":
			if op.Claims != "" {
				withClaims[op.Label] = true
			} else {
				without[op.Label] = true
			}
		case "disc":
			delete(withClaims, op.Label)
			delete(without, op.Label)
		case "close", "restart":
			withClaims, without = map[int]bool{}, map[int]bool{}
		case "pub":
			if len(op.Form["private"]) != 0 && len(withClaims) > 0 && len(without) > 0 {
				return true
			}
		}
	}

	return false
}

func runHub(c *h.Ctx, r *h.Report) {
	r.Rule = "operation histories (8-32 ops) through the real Hub.ServeHTTP inside a synctest bubble (quiescence detected with synctest.Wait after every op), both transports, subscriptions on/off, anonymous on/off: publish (1-3 topics, private absent/empty/on, explicit or generated ids, credential in header/query/cookie), subscribe (selectors from a pool of literals, templates covering the topics, '*', non-matching; claims in {none, '*', absent, relative to the pool}; Last-Event-ID via header / query / legacy query in {earliest, unknown, stored id}), client disconnect, failing write, stalled writer, restart, close, subscription API. After every op the full observable state (every stream parsed by the harness's own SSE parser, index, last event id, metrics) is compared with the model. Non-trivial = case containing a private publish while at least one subscriber with a token and one without are connected; distinct by content."
	o := gen.NewOracle()
	g := installCountingUUID()
	if c.Replay != "" {
		var rp struct {
			Case hubCase `json:"case"`
		}
		readReplay(c.Replay, &rp)
		runHubCase(c, r, o, rp.Case, g)

		return
	}
	for _, cs := range hubCorpus() {
		runHubCase(c, r, o, cs, g)
	}
	n := c.Scale(500, 8000)
	for i := 0; i < n; i++ {
		cs := genHubCase(c.Rand.Fork(), o, "")
		runHubCase(c, r, o, cs, g)
		if hubNontrivial(cs, "") {
			r.Nontrivial(fmt.Sprint(cs))
		}
		r.Sample(cs)
	}
}

// hubOracles evaluates the properties' own oracles on the implementation's behaviour alone
// (no reference to the Lean model): used to decide whether a disagreement is a defect of /repo.
// genOverflowCase: buffers around the capacity — a stalled subscriber under live load, and replays
// larger than the buffer.
// manySubscribers: "for all numbers of connected subscribers" beyond the sizes the histories reach — a few thousand
// subscribers registered on each transport (some removed again, some already disconnected), every one of them
// listed, an update handed to every one, and Close ends every one. Transport level, implementation-only oracles.
func manySubscribers(c *h.Ctx, r *h.Report) {
	tss, _ := mercure.NewTopicSelectorStoreLRU(0, 0)
	for _, kind := range []string{"local", "bolt"} {
		for _, n := range []int{1023, 1025, 2100 + c.Rand.Intn(300)} {
			dir := scratchDir()
			var tr mercure.Transport
			if kind == "bolt" {
				t, err := mercure.NewBoltTransport(zapNop(), dir+"/h.db", "", 0, 1)
				if err != nil {
					panic(err)
				}
				tr = t
			} else {
				tr = mercure.NewLocalTransport()
			}
			rp := map[string]any{"family": "overflow", "scenario": "many-subscribers", "transport": kind, "subscribers": n}
			subs := make([]*mercure.LocalSubscriber, n)
			removed := map[int]bool{}
			for i := range subs {
				subs[i] = mercure.NewLocalSubscriber("", zapNop(), tss)
				subs[i].SetTopics([]string{"t"}, nil)
				if err := tr.AddSubscriber(subs[i]); err != nil {
					panic(err)
				}
			}
			for i := 3; i < n; i += 97 {
				_ = tr.RemoveSubscriber(subs[i])
				removed[i] = true
			}
			_, listed, _ := tr.(mercure.TransportSubscribers).GetSubscribers()
			if len(listed) != n-len(removed) {
				r.Violate(h.Violation{Key: "C18:listed-subscribers-differ-from-connected", What: fmt.Sprintf("%s transport: %d subscribers registered, %d removed, GetSubscribers lists %d", kind, n, len(removed), len(listed)), Replay: rp})
			}
			if err := tr.Dispatch(&mercure.Update{Topics: []string{"t"}, Event: mercure.Event{ID: "x"}}); err != nil {
				panic(err)
			}
			missed := 0
			for i, s := range subs {
				got := len(drain(s))
				if (got == 1) == removed[i] {
					missed++
				}
			}
			if missed > 0 {
				r.Violate(h.Violation{Key: "C05:update-not-handed-to-exactly-the-connected-matching-subscribers", What: fmt.Sprintf("%s transport, %d subscribers: %d of them were wrongly served (a connected one missed the update or a removed one got it)", kind, n, missed), Replay: rp})
			}
			_ = tr.Close()
			var open []int
			for i, s := range subs {
				if !removed[i] && !mercure.VerifSubDisconnected(s) {
					open = append(open, i)
				}
			}
			if len(open) > 0 {
				v := h.Violation{Key: "C15:registered-subscriber-not-ended-by-close", What: fmt.Sprintf("%s transport: %d of %d subscribers registered before Close still have an open stream after Close returned (positions %v)", kind, len(open), n, open[:min(len(open), 8)]), Replay: rp}
				r.Violate(v)
			}
			os.RemoveAll(dir)
			r.Evaluations += 3
			r.Count("scenario:many-subscribers")
		}
	}
}

func genOverflowCase(rr *h.Rand, capacity int) hubCase {
	cs := hubCase{ExpectAll: true, AllPublic: true, Cfg: hubCfg{PubAlg: "HS256", SubAlg: "HS256", Anonymous: true, Bolt: rr.Bool(), Subscriptions: rr.Chance(1, 3)}}
	star := claimsJSON("publish", []string{"*"}, "")
	pubN := func(id string, n int) hubOp {
		return hubOp{Op: "pub", Form: url.Values{"topic": {"t"}, "id": {id}, "data": {"d"}}, Claims: star, Repeat: n}
	}
	cs.Ops = append(cs.Ops, hubOp{Op: "sub", Label: 0, Topics: []string{"*"}})
	cs.Ops = append(cs.Ops, hubOp{Op: "sub", Label: 1, Topics: []string{"t"}})
	cs.Ops = append(cs.Ops, hubOp{Op: "stall", Label: 1})
	// pending around the capacity: cap-1, cap, cap+1 (+1 in flight), cap+2
	n := capacity + h.Pick(rr, []int{-1, 0, 1, 2, 3})
	cs.Ops = append(cs.Ops, pubN("a", n))
	if rr.Bool() {
		cs.Ops = append(cs.Ops, hubOp{Op: "sub", Label: 2, Topics: []string{"*"}})
	}
	cs.Ops = append(cs.Ops, pubN("b", 1+rr.Intn(3)))
	if rr.Chance(1, 3) {
		// the hub is closed while a subscriber that was cut off is still in the list, followed by live ones
		cs.Ops = append(cs.Ops, hubOp{Op: "sub", Label: 5, Topics: []string{"other"}}, hubOp{Op: "close"})
	}
	cs.Ops = append(cs.Ops, hubOp{Op: "unstall", Label: 1})
	cs.Ops = append(cs.Ops, pubN("c", 2))
	if cs.Cfg.Bolt {
		// replay larger / smaller than the buffer
		cs.Ops = append(cs.Ops, hubOp{Op: "sub", Label: 3, Topics: []string{"t"}, LeidQ: "earliest"})
		cs.Ops = append(cs.Ops, hubOp{Op: "sub", Label: 4, Topics: []string{"t"}, LeidH: fmt.Sprintf("a-%d", n-capacity+rr.Intn(4))})
		cs.Ops = append(cs.Ops, pubN("d", 1))
	}
	if cs.Cfg.Subscriptions {
		cs.Ops = append(cs.Ops, hubOp{Op: "api.list", Claims: claimsJSON("subscribe", []string{"*"}, "")})
	}

	return cs
}

// histCompared: how often the stream of the first '*' watcher was compared with the hub's history (evidence counter).
var histCompared int

// liveVsHistory: how many connections had their stream compared with the filtered history.
var liveVsHistory int

func hubOracles(hr *hubRun, cs hubCase, o *gen.Oracle) []h.Violation {
	var vs []h.Violation
	add := func(key, what string) {
		vs = append(vs, h.Violation{Key: key, What: what, Replay: map[string]any{"family": "hub", "case": cs}})
	}
	// what the harness itself knows about the requests it made
	type subInfo struct {
		sels, claim []string
	}
	subs := map[int]subInfo{}
	type pubInfo struct {
		topics  []string
		private bool
		data    string
	}
	pubs := map[string][]pubInfo{}
	for _, op := range cs.Ops {
		switch op.Op {
		case "sub":
			si := subInfo{sels: op.Topics}
			if op.Claims != "" {
				fa := jws.Analyse(jws.Mint(jws.NewKey("HS256", 1), op.Claims), nil, time.Now())
				si.claim = fa.Claims.Mercure.Subscribe
			}
			subs[op.Label] = si
		case "pub":
			if id := op.Form.Get("id"); id != "" {
				reps := max(op.Repeat, 1)
				for i := 0; i < reps; i++ {
					k := id
					if reps > 1 {
						k = fmt.Sprintf("%s-%d", id, i)
					}
					pubs[k] = append(pubs[k], pubInfo{op.Form["topic"], len(op.Form["private"]) != 0, normEOL(op.Form.Get("data"))})
				}
			}
		}
	}
	pubCount := map[string]int{}
	for _, op := range cs.Ops {
		if op.Op == "pub" && op.Form.Get("id") != "" && max(op.Repeat, 1) == 1 {
			pubCount[op.Form.Get("id")]++
		}
	}
	matchAny := func(topics, sels []string) bool {
		for _, t := range topics {
			for _, x := range sels {
				if o.Spec(t, x) {
					return true
				}
			}
		}

		return false
	}
	open := 0
	for _, lc := range hr.conns {
		si := subs[lc.label]
		body := lc.w.Body()
		if !onlyCommentsAndEvents(body) || !strings.HasPrefix(body, ":\n") {
			add("C12:stream-contains-something-else", fmt.Sprintf("stream of connection %d is not made of ':' comments and events only", lc.label))
		}
		if ct := lc.w.Header().Get("Content-Type"); ct != "text/event-stream" || !strings.Contains(lc.w.Header().Get("Cache-Control"), "no-cache") {
			add("C12:stream-headers", fmt.Sprintf("connection %d: Content-Type %q Cache-Control %q", lc.label, ct, lc.w.Header().Get("Cache-Control")))
		}
		seen := map[string]int{}
		for _, e := range sseParse(body) {
			seen[e.ID]++
			var topics []string
			private := false
			if ps, ok := pubs[e.ID]; ok {
				// several publishes may share an id: the event must be one of them, identified by its payload
				found := false
				for _, p := range ps {
					if p.data == e.Data {
						topics, private, found = p.topics, p.private, true
					}
				}
				if !found {
					add("C12:event-payload-is-not-the-published-one", fmt.Sprintf("connection %d received an event with id %q and data %q; the updates published under that id carry other payloads", lc.label, e.ID, e.Data))

					continue
				}
				if len(ps) > 1 {
					// the least permissive reading: if any publish with this id AND payload is allowed, fine
					okAny := false
					for _, p := range ps {
						if p.data == e.Data && matchAny(p.topics, si.sels) && (!p.private || matchAny(p.topics, si.claim)) {
							okAny = true
						}
					}
					if !okAny {
						add("C01:private-update-delivered-without-authorisation", fmt.Sprintf("connection %d (subscribe claim %q) received the payload %q of an update with id %q that it is not authorised for", lc.label, si.claim, e.Data, e.ID))
					}

					continue
				}
			} else if strings.HasPrefix(e.Data, "{") && strings.Contains(e.Data, `"type": "Subscription"`) {
				var d struct {
					ID         string `json:"id"`
					Topic      string `json:"topic"`
					Subscriber string `json:"subscriber"`
				}
				json.Unmarshal([]byte(e.Data), &d)
				topics, private = []string{d.ID}, true
				if want := subscriptionURL(d.Topic, d.Subscriber); d.ID != want {
					add("C17:event-id-does-not-identify-its-subscription", fmt.Sprintf("subscription event for selector %q of subscriber %q has id %q; its subscription URL is %q", d.Topic, d.Subscriber, d.ID, want))
				}
				// C17: the event's topic/id is the percent-encoded subscription URL
				if !pctSubscriptionID(d.ID) {
					add("C17:event-id-not-percent-encoded", fmt.Sprintf("subscription event id %q is not a percent-encoded /.well-known/mercure/subscriptions/{topic}/{subscriber} URL", d.ID))
				}
			} else {
				continue // generated id of a plain publish: checked through the model only
			}
			if !matchAny(topics, si.sels) {
				add("C05:delivered-to-non-matching-subscriber", fmt.Sprintf("connection %d (selectors %q) received update %q with topics %q", lc.label, si.sels, e.ID, topics))
			}
			if private && !matchAny(topics, si.claim) {
				add("C01:private-update-delivered-without-authorisation", fmt.Sprintf("connection %d (subscribe claim %q) received private update %q with topics %q", lc.label, si.claim, e.ID, topics))
			}
		}
		for id, n := range seen {
			if n > max(pubCount[id], 1) && id != "" {
				add("C06:update-delivered-more-than-once", fmt.Sprintf("connection %d received update %q %d times", lc.label, id, n))
			}
		}
		if !lc.done.Load() {
			open++
		}
	}
	// C05/C06 — live delivery agrees with the history, connection by connection. With the persistent transport and
	// no retention the bucket holds every update the hub accepted (publications and subscription events), in the
	// accepted order, with its topics and its private flag. A connection that is still open, was never stalled and did
	// not ask for a replay has been handed exactly the entries stored since its registration that its selectors match
	// and, when private, its subscribe claim authorises (the harness's own reading of the protocol relation), in that
	// order — minus the events of its own registration. Implementation alone.
	if bt, ok := hr.f.tr.(*mercure.BoltTransport); ok && cs.Size == 0 && !hr.stopped {
		clean := true
		for _, op := range cs.Ops {
			switch op.Op {
			case "close", "restart", "stall", "corrupt":
				clean = false
			}
		}
		if clean {
			func() {
				defer func() { recover() }()
				keys, vals := mercure.VerifBoltRaw(bt)
				type ent struct {
					id      string
					topics  []string
					private bool
				}
				var hist []ent
				for i := range keys {
					var u mercure.Update
					if json.Unmarshal(vals[i], &u) != nil {
						return
					}
					hist = append(hist, ent{u.ID, u.Topics, u.Private})
				}
				for _, lc := range hr.conns {
					si, known := subs[lc.label]
					if !known || lc.done.Load() || lc.histLen < 0 || lc.histLen > len(hist) || hr.replayed[lc.label] || lc.w.deadlineErr || lc.w.flushErr {
						continue
					}
					own := sidOf[lc.label]
					var want, got []string
					for _, e := range hist[lc.histLen:] {
						// (a subscription event's update id is a generated UUID: it is its topic that names the subscriber)
						ownEvent := false
						for _, t := range e.topics {
							if own != "" && (strings.HasSuffix(t, "/"+url.QueryEscape(own)) || strings.HasSuffix(t, "/"+url.PathEscape(own))) {
								ownEvent = true
							}
						}
						if ownEvent {
							continue
						}
						if matchAny(e.topics, si.sels) && (!e.private || matchAny(e.topics, si.claim)) {
							want = append(want, e.id)
						}
					}
					for _, e := range sseParse(lc.w.Body()) {
						got = append(got, e.ID)
					}
					liveVsHistory++
					if strings.Join(got, "\n") != strings.Join(want, "\n") {
						for _, k := range []string{"C05", "C06"} {
							add(k+":live-stream-differs-from-the-history-it-matches", fmt.Sprintf("connection %d (selectors %q, subscribe claim %q), open and never stalled, received %q; the updates stored since its registration that it matches are %q", lc.label, si.sels, si.claim, got, want))
						}

						break
					}
				}
			}()
		}
	}
	// C12: one event per update, decoding to what was published (id, type, retry, data), in order — on the
	// stream of the '*' subscriber connected from the start and, with the persistent transport, on the
	// stream of a '*' subscriber that replays from 'earliest' after the last publication
	if cs.ExactStream && len(hr.conns) > 0 {
		var want []string
		lastPub := -1
		for i, op := range cs.Ops {
			if op.Op == "pub" {
				retry := op.Form.Get("retry")
				if retry == "0" {
					retry = ""
				}
				want = append(want, fmt.Sprintf("%s|%s|%s|%s", op.Form.Get("id"), op.Form.Get("type"), retry, normEOL(op.Form.Get("data"))))
				lastPub = i
			}
		}
		streams := map[int]string{hr.conns[0].label: "connected from the start"}
		if cs.Cfg.Bolt && cs.Size == 0 {
			for i, op := range cs.Ops {
				if op.Op == "sub" && i > lastPub && op.LeidQ == "earliest" && len(op.Topics) == 1 && op.Topics[0] == "*" {
					streams[op.Label] = "replaying from 'earliest'"
				}
			}
		}
		for _, lc := range hr.conns {
			how, ok := streams[lc.label]
			if !ok {
				continue
			}
			var got []string
			for _, e := range sseParse(lc.w.Body()) {
				got = append(got, fmt.Sprintf("%s|%s|%s|%s", e.ID, e.Type, e.Retry, e.Data))
			}
			same := len(got) == len(want)
			for i := range want {
				if same && got[i] != want[i] && !(strings.HasPrefix(want[i], "|") && strings.HasPrefix(got[i], "urn:uuid:") && got[i][strings.IndexByte(got[i], '|'):] == want[i]) {
					same = false
					add("C12:event-does-not-decode-to-what-was-published", fmt.Sprintf("event %d on the stream of the '*' subscriber %s decodes to (id|type|retry|data) %q, the %d-th update published was %q", i, how, got[i], i, want[i]))

					break
				}
			}
			if len(got) != len(want) {
				add("C12:not-one-event-per-update", fmt.Sprintf("%d updates published, %d events on the stream of the '*' subscriber %s", len(want), len(got), how))
			}
		}
	}
	// C08: the Last-Event-ID response header is truthful (Bolt, '*' subscribers, public updates)
	for _, lt := range hr.leidChecks {
		if lt.resp == lt.req && lt.req != "earliest" {
			// replay must be everything stored after the FIRST occurrence of the requested id
			idx := -1
			for i, id := range lt.stored {
				if id == lt.req {
					idx = i

					break
				}
			}
			var want []string
			if idx >= 0 {
				want = lt.stored[idx+1:]
			}
			got := lt.replayed()
			// a connection the hub has ended (replay larger than its buffer) got a gap-free prefix; one that is
			// still open must have got everything
			if lt.conn.done.Load() && idx >= 0 && len(got) <= len(want) {
				want = want[:len(got)]
			}
			if idx < 0 || strings.Join(got, "\n") != strings.Join(want, "\n") {
				add("C08:response-id-equals-requested-but-replay-incomplete", fmt.Sprintf("connection %d requested %q and was answered %q (= nothing lost), but the stored updates after it are %v and %v were replayed", lt.label, lt.req, lt.resp, want, got))
			}
		}
		if lt.req == "earliest" && lt.resp == "earliest" {
			stored := lt.stored
			if got := lt.replayed(); lt.conn.done.Load() && len(got) <= len(stored) {
				stored = stored[:len(got)]
			}
			if got := lt.replayed(); strings.Join(got, "\n") != strings.Join(stored, "\n") {
				add("C08:earliest-did-not-replay-whole-history", fmt.Sprintf("connection %d: stored %v, replayed %v", lt.label, lt.stored, got))
			}
		}
	}
	// C13: a subscriber that cannot be served is cut off, not starved
	if cs.ExpectAll {
		joined := map[int]int{}
		stalled := map[int]bool{}
		n := 0
		for _, op := range cs.Ops {
			switch op.Op {
			case "pub":
				n += max(op.Repeat, 1)
			case "sub":
				joined[op.Label] = n
			case "stall":
				stalled[op.Label] = true
			case "unstall":
				stalled[op.Label] = false
			}
		}
		for _, lc := range hr.conns {
			if lc.done.Load() || stalled[lc.label] || lc.epoch != hr.epoch {
				continue
			}
			got := len(sseParse(lc.w.Body()))
			if want := n - joined[lc.label]; got < want && subs[lc.label].sels != nil && !hr.replayed[lc.label] {
				add("C13:subscriber-starved-not-cut-off", fmt.Sprintf("connection %d is still open and listed at quiescence but has received only %d of the %d matching updates published since it connected: after its buffer overflowed the hub stopped feeding it without ending its stream", lc.label, got, want))
			}
		}
	}
	// C20: gauge = open streams, total = accepted connections
	if g := int(metricValue(hr.reg, "mercure_subscribers_connected")); g != open {
		add("C20:gauge-differs-from-open-streams", fmt.Sprintf("mercure_subscribers_connected=%d but %d streams are open", g, open))
	}
	if tot := int(metricValue(hr.reg, "mercure_subscribers_total")); tot != len(hr.conns) {
		add("C20:total-differs-from-accepted-streams", fmt.Sprintf("mercure_subscribers_total=%d but %d streams were accepted", tot, len(hr.conns)))
	}
	// C15: once the hub is closed, every stream whose writer is not blocked has ended
	if hr.stopped {
		for _, lc := range hr.conns {
			lc.mu.Lock()
			stalled := lc.gate != nil
			lc.mu.Unlock()
			if !stalled && !lc.done.Load() {
				add("C15:stream-open-after-close", fmt.Sprintf("the hub was closed but the stream of connection %d is still open", lc.label))
			}
		}
	}
	if up := int(metricValue(hr.reg, "mercure_updates_total")); up != hr.okPubs {
		add("C20:updates-counter-differs-from-successful-publishes", fmt.Sprintf("mercure_updates_total=%d but %d publish requests were answered with success", up, hr.okPubs))
	}
	// C17: exactly one active=true and (once gone) one active=false per selector, seen by a '*' watcher
	// that was connected first and is still connected (cases without close / restart)
	if cs.Cfg.Subscriptions && len(hr.conns) > 0 && !hr.conns[0].done.Load() {
		quiet := true
		stalled := map[int]bool{}
		for _, op := range cs.Ops {
			if op.Op == "close" || op.Op == "restart" {
				quiet = false
			}
			if op.Op == "stall" {
				stalled[op.Label] = true
			}
			if op.Op == "unstall" {
				delete(stalled, op.Label)
			}
		}
		// a writer still stalled at the end (or the watcher's own) leaves events in flight: not evaluated
		if len(stalled) > 0 {
			quiet = false
		}
		w0 := subs[hr.conns[0].label]
		if quiet && len(w0.sels) == 1 && w0.sels[0] == "*" && len(w0.claim) == 1 && w0.claim[0] == "*" {
			type key struct {
				sid, topic string
				active     bool
			}
			seen := map[key]int{}
			for _, e := range sseParse(hr.conns[0].w.Body()) {
				var d struct {
					Type, Subscriber, Topic string
					Active                  bool
				}
				if json.Unmarshal([]byte(e.Data), &d) == nil && d.Type == "Subscription" {
					seen[key{d.Subscriber, d.Topic, d.Active}]++
				}
			}
			// whoever the subscriber is (also one whose registration failed half-way and that never became a
			// connection): never more ends than starts, and for a subscriber that is not connected, as many
			accepted := map[string]bool{}
			for _, lc := range hr.conns {
				accepted[sidOf[lc.label]] = true
			}
			for k, nTrue := range seen {
				if !k.active {
					continue
				}
				nFalse := seen[key{k.sid, k.topic, false}]
				if nFalse > nTrue {
					add("C17:end-announced-more-often-than-start", fmt.Sprintf("subscriber %s selector %q: a '*' watcher saw %d active=true and %d active=false event(s)", k.sid, k.topic, nTrue, nFalse))
				}
				if !accepted[k.sid] && nFalse != nTrue {
					add("C17:refused-registration-not-announced-symmetrically", fmt.Sprintf("subscriber %s (its registration failed: it never became a connection) selector %q: %d active=true and %d active=false event(s)", k.sid, k.topic, nTrue, nFalse))
				}
			}
			for k, nFalse := range seen {
				if !k.active && seen[key{k.sid, k.topic, true}] == 0 {
					add("C17:end-announced-more-often-than-start", fmt.Sprintf("subscriber %s selector %q: %d active=false event(s) and no active=true", k.sid, k.topic, nFalse))
				}
			}
			// C05/C06: with the persistent transport (no retention) the history holds every update the hub accepted —
			// publications and subscription events alike — in the accepted order. The '*' watcher (claim '*') connected
			// first and still connected matches all of them: its stream is that history, minus the events of its own
			// registration (dispatched before it was registered). Compared by id, on the implementation alone.
			if bt, ok := hr.f.tr.(*mercure.BoltTransport); ok && cs.Size == 0 && !hr.stopped && sidOf[hr.conns[0].label] != "" {
				func() {
					defer func() { recover() }()
					_, stored := mercure.VerifBoltKeys(bt)
					own := "/" + url.PathEscape(sidOf[hr.conns[0].label])
					var want, got []string
					for _, id := range stored {
						if !strings.HasSuffix(id, own) && !strings.HasSuffix(id, "/"+url.QueryEscape(sidOf[hr.conns[0].label])) {
							want = append(want, id)
						}
					}
					for _, e := range sseParse(hr.conns[0].w.Body()) {
						got = append(got, e.ID)
					}
					// what was accepted before the watcher registered is not on its stream: its stream is a suffix of the history
					if len(got) <= len(want) {
						want = want[len(want)-len(got):]
						histCompared++
						for i := range want {
							if got[i] != want[i] {
								for _, k := range []string{"C05", "C06"} {
									add(k+":matching-connected-subscriber-was-not-handed-an-accepted-update", fmt.Sprintf("the '*' watcher connected from the start received %q at position %d of its stream; the %d-th accepted update (history of the hub) is %q, which it matches and never received in that place", got[i], i, i, want[i]))
								}

								break
							}
						}
					}
				}()
			}
			for _, lc := range hr.conns[1:] {
				if sidOf[lc.label] == "" {
					// the connection ended within its own registration (its replay overflowed its buffer): it was
					// gone from the index before the harness could learn its subscriber id — its events cannot be
					// attributed, the "never more ends than starts" clauses above still cover them
					continue
				}
				mult := map[string]int{}
				for _, t := range subs[lc.label].sels {
					mult[t]++
				}
				for t, m := range mult {
					if got := seen[key{sidOf[lc.label], t, true}]; got != m {
						add("C17:start-not-announced-exactly-once", fmt.Sprintf("connection %d subscribes %d time(s) to selector %q; a '*' watcher saw %d active=true event(s) for it", lc.label, m, t, got))
					}
					wantEnd := 0
					if lc.done.Load() {
						wantEnd = m
					}
					if got := seen[key{sidOf[lc.label], t, false}]; got != wantEnd {
						add("C17:end-not-announced-exactly-once", fmt.Sprintf("connection %d (gone=%v) selector %q: a '*' watcher saw %d active=false event(s), expected %d", lc.label, lc.done.Load(), t, got, wantEnd))
					}
				}
			}
		}
	}
	// C18 / C13: the index lists exactly the open connections of the current hub
	if !hr.stopped {
		_, listed, _ := hr.f.tr.(mercure.TransportSubscribers).GetSubscribers()
		want := map[string]bool{}
		for _, lc := range hr.conns {
			if !lc.done.Load() && lc.epoch == hr.epoch {
				want[sidOf[lc.label]] = true
			}
		}
		for _, s := range listed {
			if !want[s.ID] {
				add("C18:listed-subscriber-is-not-connected", fmt.Sprintf("subscriber %s (connection %s) is listed but its stream has ended", s.ID, hr.labelOf(s.ID)))
				// C13: "cut off …, after which it is no longer listed as a subscriber"
				add("C13:ended-subscriber-still-listed", fmt.Sprintf("the stream of subscriber %s (connection %s) has ended (handler returned) but the hub still lists it at quiescence", s.ID, hr.labelOf(s.ID)))
			}
			delete(want, s.ID)
		}
		for sid := range want {
			add("C18:connected-subscriber-not-listed", fmt.Sprintf("connection %s is open but not listed", hr.labelOf(sid)))
		}
	}

	return vs
}

// subscriptionURL: /.well-known/mercure/subscriptions/{topic}/{subscriber}, each segment percent-encoded
// (the harness's own rendering of the documented template).
func subscriptionURL(topic, subscriber string) string {
	esc := func(s string) string { return strings.ReplaceAll(url.QueryEscape(s), "+", "%20") }

	return "/.well-known/mercure/subscriptions/" + esc(topic) + "/" + esc(subscriber)
}

func pctSubscriptionID(id string) bool {
	const pre = "/.well-known/mercure/subscriptions/"
	if !strings.HasPrefix(id, pre) {
		return false
	}
	segs := strings.Split(id[len(pre):], "/")
	if len(segs) != 2 {
		return false
	}
	for _, s := range segs {
		for i := 0; i < len(s); i++ {
			c := s[i]
			switch {
			case c >= 'a' && c <= 'z', c >= 'A' && c <= 'Z', c >= '0' && c <= '9', c == '-', c == '.', c == '_', c == '~':
			case c == '%' && i+2 < len(s) && isHex(s[i+1]) && isHex(s[i+2]):
				i += 2
			default:
				return false
			}
		}
	}

	return true
}

func isHex(c byte) bool { return c >= '0' && c <= '9' || c >= 'a' && c <= 'f' || c >= 'A' && c <= 'F' }

// hubCorpus: hand-written and minimised past cases, run first.
func hubCorpus() []hubCase {
	star := claimsJSON("publish", []string{"*"}, "")
	sub := claimsJSON("subscribe", []string{"*"}, "who")
	pub := func(id string) hubOp {
		return hubOp{Op: "pub", Form: url.Values{"topic": {"t"}, "id": {id}, "data": {"d"}}, Claims: star}
	}
	var out []hubCase
	for _, bolt := range []bool{false, true} {
		// a connection whose writer is stalled survives a restart and finishes afterwards
		out = append(out, hubCase{Cfg: hubCfg{PubAlg: "HS256", SubAlg: "HS256", Anonymous: true, Subscriptions: true, Bolt: bolt}, Ops: []hubOp{
			{Op: "sub", Label: 0, Topics: []string{"*"}, Claims: sub},
			{Op: "sub", Label: 1, Topics: []string{"t", "a b"}},
			{Op: "stall", Label: 1}, pub("x1"), pub("x2"), {Op: "restart"},
			{Op: "sub", Label: 2, Topics: []string{"*"}, Claims: sub, LeidQ: "earliest"},
			{Op: "unstall", Label: 1}, pub("x3"), {Op: "disc", Label: 2}, {Op: "close"}, pub("x4"),
			{Op: "sub", Label: 3, Topics: []string{"*"}},
		}})
		// failing write, then events for the others
		out = append(out, hubCase{Cfg: hubCfg{PubAlg: "HS256", SubAlg: "HS256", Anonymous: true, Subscriptions: true, Bolt: bolt}, Ops: []hubOp{
			{Op: "sub", Label: 0, Topics: []string{"/.well-known/mercure/subscriptions/{topic}/{subscriber}"}, Claims: sub},
			{Op: "sub", Label: 1, Topics: []string{"t"}},
			{Op: "failnext", Label: 1}, pub("y1"), pub("y2"),
			{Op: "api.list", Claims: sub}, {Op: "api.list", Claims: sub, Topic: "t"},
		}})
	}

	return out
}
