import Mercure.Model.Timed
/-
  Mercure.Lemmas.Timed — invariants of the timed connection loop (`Mercure.Timed.loop`), used by C16.
-/
namespace Mercure.Timed

/-! ### minimum of the candidate instants -/

def minOf (l : List Nat) : Option Nat :=
  l.foldl (fun m x => match m with | none => some x | some y => some (min x y)) (none : Option Nat)

theorem foldl_min_some (l : List Nat) (y : Nat) :
    ∃ t, l.foldl (fun m x => match m with | none => some x | some y => some (min x y)) (some y) = some t ∧
      (t = y ∨ t ∈ l) ∧ t ≤ y ∧ ∀ x ∈ l, t ≤ x := by
  induction l generalizing y with
  | nil => exact ⟨y, rfl, Or.inl rfl, Nat.le_refl _, by simp⟩
  | cons a l ih =>
    simp only [List.foldl_cons]
    obtain ⟨t, h1, h2, h3, h4⟩ := ih (min a y)
    refine ⟨t, h1, ?_, by omega, ?_⟩
    · rcases h2 with h | h
      · by_cases hay : a ≤ y
        · right; simp; left; omega
        · left; omega
      · right; simp [h]
    · intro x hx
      simp at hx
      rcases hx with rfl | hx
      · omega
      · exact h4 x hx

theorem minOf_none {l : List Nat} (h : minOf l = none) : l = [] := by
  cases l with
  | nil => rfl
  | cons a l =>
    obtain ⟨t, h1, _⟩ := foldl_min_some l a
    simp [minOf, h1] at h

theorem minOf_some {l : List Nat} {t : Nat} (h : minOf l = some t) : t ∈ l ∧ ∀ x ∈ l, t ≤ x := by
  cases l with
  | nil => simp [minOf] at h
  | cons a l =>
    obtain ⟨t', h1, h2, h3, h4⟩ := foldl_min_some l a
    simp only [minOf, List.foldl_cons, h1, Option.some.injEq] at h
    subst h
    refine ⟨?_, ?_⟩
    · rcases h2 with h | h <;> simp [h]
    · intro x hx
      simp at hx
      rcases hx with rfl | hx
      · exact h3
      · exact h4 x hx

/-! ### one iteration of the loop, as a relation -/

inductive Next where
  | stop (s : St)
  | cont (s : St) (arr : List (Nat × Nat))

/-- `t` is not later than any candidate instant. -/
structure IsNext (close : Option Nat) (s : St) (arr : List (Nat × Nat)) (t : Nat) : Prop where
  le_disc : ∀ x, s.discDue = some x → t ≤ x
  le_hb : ∀ x, s.hbDue = some x → t ≤ x
  le_arr : ∀ a rest, arr = a :: rest → t ≤ a.1
  le_close : ∀ x, close = some x → t ≤ x

def Next.st : Next → St
  | .stop s => s
  | .cont s _ => s

inductive Step (c : Cfg) (close : Option Nat) (hz : Nat) (s : St) (arr : List (Nat × Nat)) : Next → Prop
  | done : s.done = true → Step c close hz s arr (.stop s)
  | idle : s.done = false → s.discDue = none → s.hbDue = none → arr = [] → close = none →
      Step c close hz s arr (.stop s)
  | horizon (t : Nat) : s.done = false → IsNext close s arr t → hz < t → Step c close hz s arr (.stop s)
  | close (t : Nat) : s.done = false → IsNext close s arr t → t ≤ hz → close = some t →
      Step c close hz s arr (.stop { s with trace := (t, .clientClose) :: s.trace, done := true })
  | disc (t : Nat) : s.done = false → IsNext close s arr t → t ≤ hz → (∀ x, close = some x → t < x) →
      s.discDue = some t →
      Step c close hz s arr (.stop { s with trace := (t, .selfClose) :: s.trace, done := true })
  | hb (t : Nat) : s.done = false → IsNext close s arr t → t ≤ hz → (∀ x, close = some x → t < x) →
      (∀ x, s.discDue = some x → t < x) → s.hbDue = some t →
      Step c close hz s arr (.cont (s.write c t .comment true) arr)
  | arr (t id : Nat) (rest : List (Nat × Nat)) : s.done = false → IsNext close s arr t → t ≤ hz →
      (∀ x, close = some x → t < x) → (∀ x, s.discDue = some x → t < x) → (∀ x, s.hbDue = some x → t < x) →
      arr = (t, id) :: rest →
      Step c close hz s arr (.cont (s.write c t (.event id) true) rest)

theorem optLe_true {a : Option Nat} {t : Nat} : optLe a t = true ↔ ∃ x, a = some x ∧ x ≤ t := by
  cases a <;> simp [optLe]

theorem optLe_false {a : Option Nat} {t : Nat} (h : ¬ optLe a t = true) : ∀ x, a = some x → t < x := by
  intro x hx; subst hx; simp [optLe] at h; exact h

theorem mem_cands {s : St} {arr : List (Nat × Nat)} {close : Option Nat} {x : Nat} :
    x ∈ (s.discDue.toList ++ s.hbDue.toList ++ (arr.head?.map (·.1)).toList ++ close.toList) ↔
      s.discDue = some x ∨ s.hbDue = some x ∨ (∃ a rest, arr = a :: rest ∧ x = a.1) ∨ close = some x := by
  cases arr <;> simp [Option.mem_toList]

theorem loop_succ (c : Cfg) (close : Option Nat) (hz fuel : Nat) (s : St) (arr : List (Nat × Nat)) :
    ∃ n, Step c close hz s arr n ∧
      loop c close hz (fuel + 1) s arr =
        (match n with | .stop s' => s' | .cont s' arr' => loop c close hz fuel s' arr') := by
  rw [loop]
  by_cases hd : s.done = true
  · exact ⟨.stop s, .done hd, by simp [hd]⟩
  simp only [hd, Bool.false_eq_true, if_false]
  have hd' : s.done = false := by simpa using hd
  split
  · rename_i hm
    have hm' := minOf_none hm
    have h1 : s.discDue = none := by
      cases h : s.discDue with
      | none => rfl
      | some x => have : x ∈ ([] : List Nat) := by rw [← hm']; exact mem_cands.2 (Or.inl h)
                  simp at this
    have h2 : s.hbDue = none := by
      cases h : s.hbDue with
      | none => rfl
      | some x => have : x ∈ ([] : List Nat) := by rw [← hm']; exact mem_cands.2 (Or.inr (Or.inl h))
                  simp at this
    have h3 : arr = [] := by
      cases h : arr with
      | nil => rfl
      | cons a r => have : a.1 ∈ ([] : List Nat) := by
                      rw [← hm']; exact mem_cands.2 (Or.inr (Or.inr (Or.inl ⟨a, r, h, rfl⟩)))
                    simp at this
    have h4 : close = none := by
      cases h : close with
      | none => rfl
      | some x => have : x ∈ ([] : List Nat) := by rw [← hm']; exact mem_cands.2 (Or.inr (Or.inr (Or.inr h)))
                  simp at this
    exact ⟨.stop s, .idle hd' h1 h2 h3 h4, rfl⟩
  · rename_i t hm
    obtain ⟨hmem, hle⟩ := minOf_some hm
    have hn : IsNext close s arr t :=
      ⟨fun x h => hle x (mem_cands.2 (Or.inl h)),
       fun x h => hle x (mem_cands.2 (Or.inr (Or.inl h))),
       fun a r h => hle a.1 (mem_cands.2 (Or.inr (Or.inr (Or.inl ⟨a, r, h, rfl⟩)))),
       fun x h => hle x (mem_cands.2 (Or.inr (Or.inr (Or.inr h))))⟩
    by_cases hh : t > hz
    · exact ⟨.stop s, .horizon t hd' hn hh, by simp [hh]⟩
    have hh' : t ≤ hz := by omega
    simp only [hh, if_false]
    by_cases hc : optLe close t = true
    · obtain ⟨x, hx, hxt⟩ := optLe_true.1 hc
      have : x = t := by have := hn.le_close x hx; omega
      subst this
      exact ⟨_, .close x hd' hn hh' hx, by simp [hc]⟩
    have hc' := optLe_false hc
    simp only [hc]
    by_cases hdi : optLe s.discDue t = true
    · obtain ⟨x, hx, hxt⟩ := optLe_true.1 hdi
      have : x = t := by have := hn.le_disc x hx; omega
      subst this
      exact ⟨_, .disc x hd' hn hh' hc' hx, by simp [hdi]⟩
    have hdi' := optLe_false hdi
    simp only [hdi]
    by_cases hb : optLe s.hbDue t = true
    · obtain ⟨x, hx, hxt⟩ := optLe_true.1 hb
      have : x = t := by have := hn.le_hb x hx; omega
      subst this
      exact ⟨_, .hb x hd' hn hh' hc' hdi' hx, by simp [hb]⟩
    have hb' := optLe_false hb
    simp only [hb]
    rcases mem_cands.1 hmem with h | h | ⟨a, r, h, ha⟩ | h
    · exact absurd (hdi' t h) (Nat.lt_irrefl _)
    · exact absurd (hb' t h) (Nat.lt_irrefl _)
    · subst h
      obtain ⟨a1, id⟩ := a
      simp only at ha
      subst ha
      exact ⟨_, .arr _ id r hd' hn hh' hc' hdi' hb' rfl, rfl⟩
    · exact absurd (hc' t h) (Nat.lt_irrefl _)

/-! ### induction principles -/

theorem loop_safe {c : Cfg} {close : Option Nat} {hz : Nat} (Inv : St → Prop)
    (hcont : ∀ s arr s' arr', Inv s → Step c close hz s arr (.cont s' arr') → Inv s')
    (hstop : ∀ s arr s', Inv s → Step c close hz s arr (.stop s') → Inv s') :
    ∀ fuel s arr, Inv s → Inv (loop c close hz fuel s arr) := by
  intro fuel
  induction fuel with
  | zero => intro s arr h; simpa [loop] using h
  | succ n ih =>
    intro s arr h
    obtain ⟨nx, hs, he⟩ := loop_succ c close hz n s arr
    rw [he]
    cases nx with
    | stop s' => exact hstop s arr s' h hs
    | cont s' arr' => exact ih s' arr' (hcont s arr s' arr' h hs)

/-! ### writes -/

def isW : Ev → Bool
  | .comment => true
  | .event _ => true
  | _ => false

def isE : Ev → Bool
  | .selfClose => true
  | .clientClose => true
  | .endWrite => true
  | _ => false

theorem write_cases (c : Cfg) (s : St) (t : Nat) (e : Ev) :
    (writeOk c t = true ∧ s.write c t e true =
      { s with trace := (t, e) :: s.trace, hbDue := if c.hb = 0 then s.hbDue else some (t + c.hb) }) ∨
    (writeOk c t = false ∧ s.write c t e true =
      { s with trace := (t, .endWrite) :: (t, .failed) :: s.trace, done := true }) := by
  unfold St.write
  cases h : writeOk c t
  · right; simp
  · left; by_cases h0 : c.hb = 0 <;> simp [h0]

theorem writeOk_of_deadline {c : Cfg} {d : Nat} (hd : c.deadline = some d) (t : Nat) :
    writeOk c t = decide (t < d) := by
  simp [writeOk, hd]

theorem writeOk_of_no_deadline {c : Cfg} (hd : c.deadline = none) (t : Nat) : writeOk c t = true := by
  simp [writeOk, hd]

/-- Entries appended by one iteration. -/
theorem step_forall {c : Cfg} {close : Option Nat} {hz : Nat} (P : Nat × Ev → Prop)
    {s : St} {arr : List (Nat × Nat)} {n : Next} (hs : Step c close hz s arr n)
    (h : ∀ p ∈ s.trace, P p) :
    (∀ t, P (t, .clientClose)) → (∀ t, s.discDue = some t → P (t, .selfClose)) →
    (∀ t e, isW e = true → writeOk c t = true → P (t, e)) →
    (∀ t, writeOk c t = false → P (t, .failed) ∧ P (t, .endWrite)) →
    ∀ p ∈ n.st.trace, P p := by
  intro h1 h2 h3 h4
  cases hs with
  | done _ => exact h
  | idle _ _ _ _ _ => exact h
  | horizon t _ _ _ => exact h
  | close t _ _ _ _ => simp only [Next.st, List.mem_cons]; rintro p (rfl | hp); exact h1 t; exact h p hp
  | disc t _ _ _ _ hd => simp only [Next.st, List.mem_cons]; rintro p (rfl | hp); exact h2 t hd; exact h p hp
  | hb t _ _ _ _ _ _ =>
    rcases write_cases c s t .comment with ⟨hok, hw⟩ | ⟨hok, hw⟩ <;> simp only [Next.st, hw, List.mem_cons]
    · rintro p (rfl | hp); exact h3 t _ rfl hok; exact h p hp
    · rintro p (rfl | rfl | hp); exact (h4 t hok).2; exact (h4 t hok).1; exact h p hp
  | arr t id rest _ _ _ _ _ _ _ =>
    rcases write_cases c s t (.event id) with ⟨hok, hw⟩ | ⟨hok, hw⟩ <;> simp only [Next.st, hw, List.mem_cons]
    · rintro p (rfl | hp); exact h3 t _ rfl hok; exact h p hp
    · rintro p (rfl | rfl | hp); exact (h4 t hok).2; exact (h4 t hok).1; exact h p hp

theorem step_discDue {c : Cfg} {close : Option Nat} {hz : Nat} {s : St} {arr : List (Nat × Nat)} {n : Next}
    (hs : Step c close hz s arr n) : n.st.discDue = s.discDue := by
  cases hs with
  | done _ => rfl
  | idle _ _ _ _ _ => rfl
  | horizon t _ _ _ => rfl
  | close t _ _ _ _ => rfl
  | disc t _ _ _ _ _ => rfl
  | hb t _ _ _ _ _ _ =>
    rcases write_cases c s t .comment with ⟨_, hw⟩ | ⟨_, hw⟩ <;> simp only [Next.st, hw]
  | arr t id rest _ _ _ _ _ _ _ =>
    rcases write_cases c s t (.event id) with ⟨_, hw⟩ | ⟨_, hw⟩ <;> simp only [Next.st, hw]

/-- A property of trace entries established by every kind of step holds of the whole trace. -/
theorem loop_forall {c : Cfg} {close : Option Nat} {hz : Nat} (P : Nat × Ev → Prop) (dd : Option Nat)
    (h1 : ∀ t, P (t, .clientClose)) (h2 : ∀ t, dd = some t → P (t, .selfClose))
    (h3 : ∀ t e, isW e = true → writeOk c t = true → P (t, e))
    (h4 : ∀ t, writeOk c t = false → P (t, .failed) ∧ P (t, .endWrite))
    (fuel : Nat) (s : St) (arr : List (Nat × Nat)) (hdd : s.discDue = dd) (h : ∀ p ∈ s.trace, P p) :
    ∀ p ∈ (loop c close hz fuel s arr).trace, P p := by
  have := loop_safe (c := c) (close := close) (hz := hz)
    (Inv := fun s => s.discDue = dd ∧ ∀ p ∈ s.trace, P p) ?_ ?_ fuel s arr ⟨hdd, h⟩
  · exact this.2
  · intro s arr s' arr' ⟨hd, h⟩ hs
    exact ⟨(step_discDue hs).trans hd, step_forall P hs h h1 (fun t ht => h2 t (hd ▸ ht)) h3 h4⟩
  · intro s arr s' ⟨hd, h⟩ hs
    exact ⟨(step_discDue hs).trans hd, step_forall P hs h h1 (fun t ht => h2 t (hd ▸ ht)) h3 h4⟩

theorem mem_run {c : Cfg} {arr : List (Nat × Nat)} {close : Option Nat} {hz : Nat} {p : Nat × Ev} :
    p ∈ run c arr close hz ↔
      p ∈ (loop c close hz (arr.length + (if c.hb != 0 then hz / c.hb else 0) + 4) (init c) arr).trace := by
  simp [run]

theorem init_discDue_none {c : Cfg} (hw : c.wt = 0) : (init c).discDue = none := by simp [init, hw]

theorem init_discDue {c : Cfg} {d : Nat} (hw : c.wt ≠ 0) (hd : c.deadline = some d) :
    (init c).discDue = some (d - c.dt) := by simp [init, hw, hd]

/-- C16/2 -/
theorem run_write_lt (c : Cfg) (arr : List (Nat × Nat)) (close : Option Nat) (hz d : Nat)
    (hd : c.deadline = some d) (hpos : 0 < d) :
    ∀ p ∈ run c arr close hz, isW p.2 = true → p.1 < d := by
  intro p hp
  refine loop_forall (fun p => isW p.2 = true → p.1 < d) (init c).discDue ?_ ?_ ?_ ?_ _ _ _ rfl ?_ p
    (mem_run.1 hp)
  · intro t; simp [isW]
  · intro t _; simp [isW]
  · intro t e _ hok _; simpa [writeOk_of_deadline hd] using hok
  · intro t _; simp [isW]
  · intro p hp; simp [init] at hp; subst hp; intro _; exact hpos

/-- C16/6 -/
theorem run_no_selfClose (c : Cfg) (arr : List (Nat × Nat)) (close : Option Nat) (hz : Nat) (hw : c.wt = 0) :
    ∀ p ∈ run c arr close hz, p.2 ≠ .selfClose := by
  intro p hp
  refine loop_forall (fun p => p.2 ≠ .selfClose) none ?_ ?_ ?_ ?_ _ _ _ (init_discDue_none hw) ?_ p
    (mem_run.1 hp)
  · intro t; simp
  · intro t h; simp at h
  · intro t e he _; cases e <;> simp [isW] at he ⊢
  · intro t _; simp
  · intro p hp; simp [init] at hp; subst hp; simp

/-- C16/8 -/
theorem run_no_end (c : Cfg) (arr : List (Nat × Nat)) (close : Option Nat) (hz : Nat)
    (hw : c.wt = 0) (hd : c.deadline = none) :
    ∀ p ∈ run c arr close hz, p.2 ≠ .selfClose ∧ p.2 ≠ .failed ∧ p.2 ≠ .endWrite := by
  intro p hp
  refine loop_forall (fun p => p.2 ≠ .selfClose ∧ p.2 ≠ .failed ∧ p.2 ≠ .endWrite) none ?_ ?_ ?_ ?_ _ _ _
    (init_discDue_none hw) ?_ p (mem_run.1 hp)
  · intro t; simp
  · intro t h; simp at h
  · intro t e he _; cases e <;> simp [isW] at he ⊢
  · intro t h; simp [writeOk_of_no_deadline hd] at h
  · intro p hp; simp [init] at hp; subst hp; simp

/-- C16/7 (the part that holds for every expiry, including 0) -/
theorem run_failed (c : Cfg) (arr : List (Nat × Nat)) (close : Option Nat) (hz e : Nat)
    (hd : c.deadline = some e) :
    ∀ t, (t, Ev.failed) ∈ run c arr close hz →
      e ≤ t ∧ (run c arr close hz).getLast? = some (t, .endWrite) := by
  have key := loop_safe (c := c) (close := close) (hz := hz)
    (Inv := fun s => (∀ t, (t, Ev.failed) ∉ s.trace) ∨
      (s.done = true ∧ ∃ t, e ≤ t ∧ s.trace.head? = some (t, .endWrite) ∧
        ∀ t', (t', Ev.failed) ∈ s.trace → t' = t)) ?_ ?_
    (arr.length + (if c.hb != 0 then hz / c.hb else 0) + 4) (init c) arr (Or.inl (by simp [init]))
  · intro t ht
    rw [mem_run] at ht
    rcases key with h | ⟨_, t0, h1, h2, h3⟩
    · exact absurd ht (h t)
    · have := h3 t ht
      subst this
      exact ⟨h1, by rw [run, List.getLast?_reverse]; exact h2⟩
  · intro s arr s' arr' h hs
    have hw : ∀ t ev, s.done = false → ev ≠ Ev.failed →
        (∀ t1, (t1, Ev.failed) ∉ (s.write c t ev true).trace) ∨
        ((s.write c t ev true).done = true ∧ ∃ t0, e ≤ t0 ∧
          (s.write c t ev true).trace.head? = some (t0, .endWrite) ∧
          ∀ t', (t', Ev.failed) ∈ (s.write c t ev true).trace → t' = t0) := by
      intro t ev hdn hev
      have hnf : ∀ t, (t, Ev.failed) ∉ s.trace := by
        rcases h with h | ⟨hd', _⟩
        · exact h
        · rw [hdn] at hd'; cases hd'
      rcases write_cases c s t ev with ⟨hok, hw⟩ | ⟨hok, hw⟩ <;> rw [hw]
      · left; intro t'; simp only [List.mem_cons, not_or]
        refine ⟨?_, hnf t'⟩
        intro heq; cases heq; exact hev rfl
      · right
        refine ⟨rfl, t, ?_, rfl, ?_⟩
        · simpa [writeOk_of_deadline hd] using hok
        · intro t'; simp only [List.mem_cons]
          rintro (h | h | h)
          · cases h
          · cases h; rfl
          · exact absurd h (hnf t')
    cases hs with
    | hb t hdn _ _ _ _ _ => exact hw t .comment hdn (by simp)
    | arr t id rest hdn _ _ _ _ _ _ => exact hw t (.event id) hdn (by simp)
  · intro s arr s' h hs
    have hnf : s.done = false → ∀ t, (t, Ev.failed) ∉ s.trace := by
      intro hdn
      rcases h with h | ⟨hd', _⟩
      · exact h
      · rw [hdn] at hd'; cases hd'
    cases hs with
    | done _ => exact h
    | idle _ _ _ _ _ => exact h
    | horizon t _ _ _ => exact h
    | close t hdn _ _ _ => left; intro t'; simpa using hnf hdn t'
    | disc t hdn _ _ _ _ => left; intro t'; simpa using hnf hdn t'

/-! ### successful write times and chains -/

/-- Times of the successful writes of a trace (same order as the trace). -/
def wtimes (tr : List (Nat × Ev)) : List Nat := (tr.filter (fun p => isW p.2)).map (·.1)

theorem wtimes_cons_w {t : Nat} {e : Ev} {tr : List (Nat × Ev)} (h : isW e = true) :
    wtimes ((t, e) :: tr) = t :: wtimes tr := by simp [wtimes, h]

theorem wtimes_cons_nw {t : Nat} {e : Ev} {tr : List (Nat × Ev)} (h : isW e = false) :
    wtimes ((t, e) :: tr) = wtimes tr := by simp [wtimes, h]

theorem wtimes_reverse (tr : List (Nat × Ev)) : wtimes tr.reverse = (wtimes tr).reverse := by
  simp [wtimes, List.filter_reverse]

def ChainL (R : Nat → Nat → Prop) : List Nat → Prop
  | [] => True
  | [_] => True
  | a :: b :: l => R a b ∧ ChainL R (b :: l)

theorem chainL_cons {R : Nat → Nat → Prop} {a : Nat} {l : List Nat} :
    ChainL R (a :: l) ↔ (∀ b, l.head? = some b → R a b) ∧ ChainL R l := by
  cases l <;> simp [ChainL]

theorem chainL_concat {R : Nat → Nat → Prop} {b : Nat} {l : List Nat} :
    ChainL R (l ++ [b]) ↔ ChainL R l ∧ ∀ a, l.getLast? = some a → R a b := by
  induction l with
  | nil => simp [ChainL]
  | cons x l ih =>
    rw [List.cons_append, chainL_cons, chainL_cons, ih]
    cases l with
    | nil => simp [ChainL]
    | cons y l =>
      simp only [List.cons_append, List.head?_cons, Option.some.injEq, forall_eq', List.getLast?_cons_cons]
      constructor
      · rintro ⟨h1, h2, h3⟩; exact ⟨⟨h1, h2⟩, h3⟩
      · rintro ⟨⟨h1, h2⟩, h3⟩; exact ⟨h1, h2, h3⟩

theorem chainL_reverse {R : Nat → Nat → Prop} {l : List Nat} :
    ChainL R l.reverse ↔ ChainL (fun a b => R b a) l := by
  induction l with
  | nil => simp [ChainL]
  | cons x l ih =>
    rw [List.reverse_cons, chainL_concat, chainL_cons, ih, List.getLast?_reverse]
    exact and_comm

/-- After a write, the state either has the new entry and a re-armed heartbeat, or is done with the
    same successful writes. -/
theorem wtimes_write (c : Cfg) (s : St) (t : Nat) (e : Ev) (he : isW e = true) :
    (writeOk c t = true ∧ (s.write c t e true).done = s.done ∧
      (s.write c t e true).discDue = s.discDue ∧
      (s.write c t e true).trace = (t, e) :: s.trace ∧
      wtimes (s.write c t e true).trace = t :: wtimes s.trace ∧
      (s.write c t e true).hbDue = if c.hb = 0 then s.hbDue else some (t + c.hb)) ∨
    (writeOk c t = false ∧ (s.write c t e true).done = true ∧
      (s.write c t e true).discDue = s.discDue ∧
      (s.write c t e true).trace = (t, .endWrite) :: (t, .failed) :: s.trace ∧
      wtimes (s.write c t e true).trace = wtimes s.trace) := by
  rcases write_cases c s t e with ⟨hok, hw⟩ | ⟨hok, hw⟩ <;> rw [hw]
  · exact Or.inl ⟨hok, rfl, rfl, rfl, wtimes_cons_w he, rfl⟩
  · refine Or.inr ⟨hok, rfl, rfl, rfl, ?_⟩
    show wtimes (_ :: _ :: _) = _
    rw [wtimes_cons_nw (by rfl), wtimes_cons_nw (by rfl)]

/-- C16/3 -/
theorem run_heartbeat_gap (c : Cfg) (arr : List (Nat × Nat)) (close : Option Nat) (hz : Nat)
    (hh : c.hb ≠ 0) :
    ChainL (fun a b => b ≤ a + c.hb) (wtimes (run c arr close hz)) := by
  have key := loop_safe (c := c) (close := close) (hz := hz)
    (Inv := fun s => ChainL (fun a b => a ≤ b + c.hb) (wtimes s.trace) ∧
      (s.done = false → ∃ last, (wtimes s.trace).head? = some last ∧ s.hbDue = some (last + c.hb))) ?_ ?_
    (arr.length + (if c.hb != 0 then hz / c.hb else 0) + 4) (init c) arr ?_
  · rw [run, wtimes_reverse, chainL_reverse]; exact key.1
  · intro s arr s' arr' ⟨h1, h2⟩ hs
    have hw : ∀ t e, isW e = true → s.done = false → (∀ x, s.hbDue = some x → t ≤ x) →
        ChainL (fun a b => a ≤ b + c.hb) (wtimes (s.write c t e true).trace) ∧
        ((s.write c t e true).done = false → ∃ last, (wtimes (s.write c t e true).trace).head? = some last ∧
          (s.write c t e true).hbDue = some (last + c.hb)) := by
      intro t e he hdn hle
      obtain ⟨last, hl1, hl2⟩ := h2 hdn
      rcases wtimes_write c s t e he with ⟨_, w1, _, _, w2, w3⟩ | ⟨_, w1, _, _, w2⟩
      · rw [w2, w3, chainL_cons]
        refine ⟨⟨?_, h1⟩, fun _ => ⟨t, rfl, by simp [hh]⟩⟩
        intro b hb
        rw [hl1] at hb; cases hb
        exact hle _ hl2
      · rw [w2, w1]; exact ⟨h1, fun h => by cases h⟩
    cases hs with
    | hb t hdn hn _ _ _ _ => exact hw t .comment rfl hdn hn.le_hb
    | arr t id rest hdn hn _ _ _ _ _ => exact hw t (.event id) rfl hdn hn.le_hb
  · intro s arr s' ⟨h1, h2⟩ hs
    cases hs with
    | done _ => exact ⟨h1, h2⟩
    | idle _ _ _ _ _ => exact ⟨h1, h2⟩
    | horizon t _ _ _ => exact ⟨h1, h2⟩
    | close t hdn _ _ _ =>
      refine ⟨?_, fun h => by cases h⟩
      show ChainL _ (wtimes (_ :: _)); rw [wtimes_cons_nw (by rfl)]; exact h1
    | disc t hdn _ _ _ _ =>
      refine ⟨?_, fun h => by cases h⟩
      show ChainL _ (wtimes (_ :: _)); rw [wtimes_cons_nw (by rfl)]; exact h1
  · refine ⟨by simp [init, wtimes, isW, ChainL], fun _ => ⟨0, by simp [init, wtimes, isW], by simp [init, hh]⟩⟩

/-! ### time is monotone and the fuel of `run` suffices -/

/-- Arrivals are sorted; while the loop runs, the heartbeat timer is armed one interval after the
    latest successful write, which is not after any remaining arrival. -/
def Mono (c : Cfg) (s : St) (arr : List (Nat × Nat)) : Prop :=
  arr.Pairwise (fun a b => a.1 ≤ b.1) ∧
  (s.done = false → (c.hb = 0 ∧ s.hbDue = none) ∨
    (c.hb ≠ 0 ∧ ∃ last, (wtimes s.trace).head? = some last ∧ s.hbDue = some (last + c.hb) ∧
      ∀ a ∈ arr, last ≤ a.1))

/-- Remaining arrivals + heartbeats that still fit before the horizon (+1 while running). -/
def mu (c : Cfg) (hz : Nat) (s : St) (arr : List (Nat × Nat)) : Nat :=
  if s.done then 0
  else arr.length + (match s.hbDue with | some due => (hz + c.hb - due) / c.hb | none => 0) + 1

theorem le_all_of_head {arr : List (Nat × Nat)} {t : Nat} (hp : arr.Pairwise (fun a b => a.1 ≤ b.1))
    (h : ∀ a rest, arr = a :: rest → t ≤ a.1) : ∀ a ∈ arr, t ≤ a.1 := by
  cases arr with
  | nil => simp
  | cons a rest =>
    have h1 := h a rest rfl
    rw [List.pairwise_cons] at hp
    intro b hb
    rcases List.mem_cons.1 hb with rfl | hb
    · exact h1
    · exact Nat.le_trans h1 (hp.1 b hb)

theorem div_step {hb hz t : Nat} (h0 : hb ≠ 0) (ht : t ≤ hz) :
    (hz + hb - (t + hb)) / hb < (hz + hb - t) / hb := by
  have e1 : hz + hb - (t + hb) = hz - t := by omega
  have e2 : hz + hb - t = (hz - t) + hb := by omega
  rw [e1, e2, Nat.add_div_right _ (Nat.pos_of_ne_zero h0)]
  exact Nat.lt_succ_self _

theorem mono_cont {c : Cfg} {close : Option Nat} {hz : Nat} {s s' : St} {arr arr' : List (Nat × Nat)}
    (hm : Mono c s arr) (hs : Step c close hz s arr (.cont s' arr')) :
    Mono c s' arr' ∧ mu c hz s' arr' < mu c hz s arr := by
  obtain ⟨hp, hm⟩ := hm
  cases hs with
  | hb t hdn hn hle _ _ hhb =>
    rcases hm hdn with ⟨_, h2⟩ | ⟨h0, last, hl1, hl2, hl3⟩
    · rw [h2] at hhb; cases hhb
    have htl : t = last + c.hb := by rw [hl2] at hhb; cases hhb; rfl
    rcases wtimes_write c s t .comment rfl with ⟨_, w1, _, _, w2, w3⟩ | ⟨_, w1, _, _, w2⟩
    · refine ⟨⟨hp, fun _ => Or.inr ⟨h0, t, by rw [w2]; rfl, by rw [w3]; simp [h0], ?_⟩⟩, ?_⟩
      · exact le_all_of_head hp hn.le_arr
      · simp only [mu, w1, hdn, w3, h0, hhb, if_false, Bool.false_eq_true]
        have := div_step h0 hle
        omega
    · refine ⟨⟨hp, fun h => by rw [w1] at h; cases h⟩, ?_⟩
      simp only [mu, w1, hdn, if_true, if_false, Bool.false_eq_true]
      omega
  | arr t id rest hdn hn hle _ _ hhb harr =>
    subst harr
    rw [List.pairwise_cons] at hp
    rcases wtimes_write c s t (.event id) rfl with ⟨_, w1, _, _, w2, w3⟩ | ⟨_, w1, _, _, w2⟩
    · rcases hm hdn with ⟨h0, h2⟩ | ⟨h0, last, hl1, hl2, hl3⟩
      · refine ⟨⟨hp.2, fun _ => Or.inl ⟨h0, by rw [w3]; simp [h0, h2]⟩⟩, ?_⟩
        simp only [mu, w1, hdn, w3, h0, h2, if_true, if_false, Bool.false_eq_true, List.length_cons]
        omega
      · refine ⟨⟨hp.2, fun _ => Or.inr ⟨h0, t, by rw [w2]; rfl, by rw [w3]; simp [h0], hp.1⟩⟩, ?_⟩
        simp only [mu, w1, hdn, w3, h0, hl2, if_false, Bool.false_eq_true, List.length_cons]
        have hlt : last ≤ t := hl3 _ (List.mem_cons_self ..)
        have : (hz + c.hb - (t + c.hb)) / c.hb ≤ (hz + c.hb - (last + c.hb)) / c.hb :=
          Nat.div_le_div_right (by omega)
        omega
    · refine ⟨⟨hp.2, fun h => by rw [w1] at h; cases h⟩, ?_⟩
      simp only [mu, w1, hdn, if_true, if_false, Bool.false_eq_true]
      omega

theorem loop_total {c : Cfg} {close : Option Nat} {hz : Nat} (Inv : St → Prop) (Post : St → Prop)
    (hcont : ∀ s arr s' arr', Mono c s arr → Inv s → Step c close hz s arr (.cont s' arr') → Inv s')
    (hstop : ∀ s arr s', Mono c s arr → Inv s → Step c close hz s arr (.stop s') → Post s') :
    ∀ fuel s arr, Mono c s arr → Inv s → mu c hz s arr < fuel → Post (loop c close hz fuel s arr) := by
  intro fuel
  induction fuel with
  | zero => intro s arr _ _ h; exact absurd h (Nat.not_lt_zero _)
  | succ n ih =>
    intro s arr hm h hf
    obtain ⟨nx, hs, he⟩ := loop_succ c close hz n s arr
    rw [he]
    cases nx with
    | stop s' => exact hstop s arr s' hm h hs
    | cont s' arr' =>
      obtain ⟨hm', hlt⟩ := mono_cont hm hs
      exact ih s' arr' hm' (hcont s arr s' arr' hm h hs) (by omega)

theorem mono_init (c : Cfg) {arr : List (Nat × Nat)} (hp : arr.Pairwise (fun a b => a.1 ≤ b.1)) :
    Mono c (init c) arr := by
  refine ⟨hp, fun _ => ?_⟩
  by_cases h0 : c.hb = 0
  · exact Or.inl ⟨h0, by simp [init, h0]⟩
  · exact Or.inr ⟨h0, 0, by simp [init, wtimes, isW], by simp [init, h0], by simp⟩

theorem mu_init (c : Cfg) (arr : List (Nat × Nat)) (hz : Nat) :
    mu c hz (init c) arr < arr.length + (if c.hb != 0 then hz / c.hb else 0) + 4 := by
  by_cases h0 : c.hb = 0
  · simp [mu, init, h0]
  · simp [mu, init, h0]

/-- C16/4 -/
theorem run_heartbeat_until_horizon (c : Cfg) (arr : List (Nat × Nat)) (close : Option Nat) (hz : Nat)
    (hs : arr.Pairwise (fun a b => a.1 ≤ b.1)) (hh : c.hb ≠ 0) :
    (∃ p ∈ run c arr close hz, isE p.2 = true) ∨
    ∃ t, (wtimes (run c arr close hz)).getLast? = some t ∧ hz < t + c.hb := by
  have key := loop_total (c := c) (close := close) (hz := hz)
    (Inv := fun s => s.done = true → ∃ p ∈ s.trace, isE p.2 = true)
    (Post := fun s => (∃ p ∈ s.trace, isE p.2 = true) ∨
      ∃ t, (wtimes s.trace).head? = some t ∧ hz < t + c.hb) ?_ ?_
    (arr.length + (if c.hb != 0 then hz / c.hb else 0) + 4) (init c) arr (mono_init c hs)
    (by simp [init]) (mu_init c arr hz)
  · rcases key with ⟨p, hp, hpe⟩ | ⟨t, h1, h2⟩
    · exact Or.inl ⟨p, mem_run.2 hp, hpe⟩
    · exact Or.inr ⟨t, by rw [run, wtimes_reverse, List.getLast?_reverse]; exact h1, h2⟩
  · intro s arr s' arr' _ _ hst
    have hw : ∀ t e, isW e = true → s.done = false →
        (s.write c t e true).done = true → ∃ p ∈ (s.write c t e true).trace, isE p.2 = true := by
      intro t e he hdn
      rcases wtimes_write c s t e he with ⟨_, w1, _, _, _, _⟩ | ⟨_, _, _, w2, _⟩
      · rw [w1, hdn]; intro h; cases h
      · intro _; rw [w2]; exact ⟨(t, .endWrite), by simp, rfl⟩
    cases hst with
    | hb t hdn _ _ _ _ _ => exact hw t .comment rfl hdn
    | arr t id rest hdn _ _ _ _ _ _ => exact hw t (.event id) rfl hdn
  · intro s arr s' hm h hst
    cases hst with
    | done hdn => exact Or.inl (h hdn)
    | idle hdn _ h2 _ _ =>
      rcases hm.2 hdn with ⟨h0, _⟩ | ⟨_, last, _, hl2, _⟩
      · exact absurd h0 hh
      · rw [h2] at hl2; cases hl2
    | horizon t hdn hn hlt =>
      rcases hm.2 hdn with ⟨h0, _⟩ | ⟨_, last, hl1, hl2, _⟩
      · exact absurd h0 hh
      · have := hn.le_hb _ hl2
        exact Or.inr ⟨last, hl1, by omega⟩
    | close t _ _ _ _ => exact Or.inl ⟨(t, .clientClose), by simp, rfl⟩
    | disc t _ _ _ _ _ => exact Or.inl ⟨(t, .selfClose), by simp, rfl⟩

/-- C16/5 -/
theorem run_self_disconnect (c : Cfg) (arr : List (Nat × Nat)) (close : Option Nat) (hz d : Nat)
    (hs : arr.Pairwise (fun a b => a.1 ≤ b.1)) (hw : c.wt ≠ 0) (hd : c.deadline = some d)
    (hhz : d - c.dt ≤ hz) (hc : ∀ x, close = some x → d - c.dt < x) :
    ∃ tr, run c arr close hz = tr ++ [(d - c.dt, .selfClose)] ∧
      ∀ p ∈ tr, isE p.2 = false ∧ p.2 ≠ .failed ∧ p.1 ≤ d - c.dt := by
  have key := loop_total (c := c) (close := close) (hz := hz)
    (Inv := fun s =>
      (s.done = false ∧ s.discDue = some (d - c.dt) ∧
        ∀ p ∈ s.trace, isE p.2 = false ∧ p.2 ≠ .failed ∧ p.1 ≤ d - c.dt) ∨
      (s.done = true ∧ ∃ tr, s.trace = (d - c.dt, .selfClose) :: tr ∧
        ∀ p ∈ tr, isE p.2 = false ∧ p.2 ≠ .failed ∧ p.1 ≤ d - c.dt))
    (Post := fun s => ∃ tr, s.trace = (d - c.dt, .selfClose) :: tr ∧
        ∀ p ∈ tr, isE p.2 = false ∧ p.2 ≠ .failed ∧ p.1 ≤ d - c.dt) ?_ ?_
    (arr.length + (if c.hb != 0 then hz / c.hb else 0) + 4) (init c) arr (mono_init c hs)
    (Or.inl ⟨rfl, init_discDue hw hd, by simp [init, isE]⟩) (mu_init c arr hz)
  · obtain ⟨tr, h1, h2⟩ := key
    refine ⟨tr.reverse, by rw [run, h1, List.reverse_cons], ?_⟩
    intro p hp; exact h2 p (List.mem_reverse.1 hp)
  · intro s arr s' arr' _ h hst
    have hwr : ∀ t e, isW e = true → s.done = false → (∀ x, s.discDue = some x → t < x) →
        (s.write c t e true).done = false ∧ (s.write c t e true).discDue = some (d - c.dt) ∧
        ∀ p ∈ (s.write c t e true).trace, isE p.2 = false ∧ p.2 ≠ .failed ∧ p.1 ≤ d - c.dt := by
      intro t e he hdn hlt
      rcases h with ⟨_, h2, h3⟩ | ⟨h1, _⟩
      · have htd := hlt _ h2
        rcases wtimes_write c s t e he with ⟨_, w1, w2, w3, _, _⟩ | ⟨hok, _, _, _, _⟩
        · refine ⟨w1.trans hdn, w2.trans h2, ?_⟩
          rw [w3]; intro p hp
          rcases List.mem_cons.1 hp with rfl | hp
          · refine ⟨?_, ?_, by show t ≤ _; omega⟩ <;> cases e <;> simp [isW, isE] at he ⊢
          · exact h3 p hp
        · rw [writeOk_of_deadline hd] at hok
          have : ¬ t < d := by simpa using hok
          omega
      · rw [hdn] at h1; cases h1
    cases hst with
    | hb t hdn _ _ _ hlt _ => exact Or.inl (hwr t .comment rfl hdn hlt)
    | arr t id rest hdn _ _ _ hlt _ _ => exact Or.inl (hwr t (.event id) rfl hdn hlt)
  · intro s arr s' _ h hst
    cases hst with
    | done hdn =>
      rcases h with ⟨h1, _⟩ | ⟨_, h2⟩
      · rw [hdn] at h1; cases h1
      · exact h2
    | idle hdn h1 _ _ _ =>
      rcases h with ⟨_, h2, _⟩ | ⟨h2, _⟩
      · rw [h1] at h2; cases h2
      · rw [hdn] at h2; cases h2
    | horizon t hdn hn hlt =>
      rcases h with ⟨_, h2, _⟩ | ⟨h2, _⟩
      · have := hn.le_disc _ h2; omega
      · rw [hdn] at h2; cases h2
    | close t hdn hn _ hcl =>
      rcases h with ⟨_, h2, _⟩ | ⟨h2, _⟩
      · have := hn.le_disc _ h2; have := hc t hcl; omega
      · rw [hdn] at h2; cases h2
    | disc t hdn _ _ _ hdd =>
      rcases h with ⟨_, h2, h3⟩ | ⟨h2, _⟩
      · rw [h2] at hdd; cases hdd
        exact ⟨s.trace, rfl, h3⟩
      · rw [hdn] at h2; cases h2

/-- C16/7 with the missing hypothesis `0 < e`. -/
theorem run_ends_on_first_write_after_expiry (c : Cfg) (arr : List (Nat × Nat)) (close : Option Nat)
    (hz e : Nat) (hd : c.deadline = some e) (hpos : 0 < e) :
    ∀ t, (t, Ev.failed) ∈ run c arr close hz →
      e ≤ t ∧ (run c arr close hz).getLast? = some (t, .endWrite) ∧
      (∀ p ∈ run c arr close hz, isW p.2 = true → p.1 < e) := by
  intro t ht
  obtain ⟨h1, h2⟩ := run_failed c arr close hz e hd t ht
  exact ⟨h1, h2, run_write_lt c arr close hz e hd hpos⟩

/-- The third conjunct of C16/7 as stated (without `0 < e`) fails when the token is already expired
    at t0: the failed write exists, yet the initial comment is a successful write at time 0 = e. -/
theorem expiry_zero_counterexample :
    let c : Cfg := { wt := 0, dt := 0, hb := 1, exp := some 0 }
    run c [] none 1 = [(0, .comment), (1, .failed), (1, .endWrite)] ∧
    (1, Ev.failed) ∈ run c [] none 1 ∧
    ¬ (∀ p ∈ run c [] none 1, isW p.2 = true → p.1 < 0) := by
  refine ⟨by decide +kernel, by decide +kernel, ?_⟩
  intro h
  exact Nat.not_lt_zero _ (h (0, .comment) (by decide +kernel) rfl)

end Mercure.Timed
