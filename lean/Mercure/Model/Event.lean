import Mercure.Model.Basic
/-
  Mercure.Model.Event — event.go (`Event.String`) and the reference SSE parser
  (W3C REC-eventsource-20150203 §7 "Interpreting an event stream", the one the spec cites).
-/
namespace Mercure

structure Event where
  data  : Str
  id    : Str
  type  : Str
  retry : Nat
  deriving DecidableEq, Repr

def dataSep : Str := "\ndata: ".toList

/-- strings.NewReplacer("\r\n", "\ndata: ", "\r", "\ndata: ", "\n", "\ndata: ").Replace
    The pattern list (in priority order) is a regenerated fact; this is its meaning for that list. -/
def replaceEOL : Str → Str
  | [] => []
  | '\r' :: '\n' :: cs => dataSep ++ replaceEOL cs
  | '\r' :: cs => dataSep ++ replaceEOL cs
  | '\n' :: cs => dataSep ++ replaceEOL cs
  | c :: cs => c :: replaceEOL cs

/-- `Event.String` (event.go:24-39). -/
def Event.encode (e : Event) : Str :=
  (if e.type != [] then "event: ".toList ++ e.type ++ ['\n'] else []) ++
  (if e.retry != 0 then "retry: ".toList ++ Nat.toDigits 10 e.retry ++ ['\n'] else []) ++
  "id: ".toList ++ e.id ++ "\ndata: ".toList ++ replaceEOL e.data ++ ['\n', '\n']

/-! ### reference parser -/

/-- Split a stream into lines; a line ends with CRLF, LF or CR. Returns the complete lines
    and the unterminated remainder. -/
def splitLinesAux : Str → Str → List Str → List Str × Str
  | [], cur, acc => (acc.reverse, cur.reverse)
  | '\r' :: '\n' :: cs, cur, acc => splitLinesAux cs [] (cur.reverse :: acc)
  | '\r' :: cs, cur, acc => splitLinesAux cs [] (cur.reverse :: acc)
  | '\n' :: cs, cur, acc => splitLinesAux cs [] (cur.reverse :: acc)
  | c :: cs, cur, acc => splitLinesAux cs (c :: cur) acc

def splitLines (s : Str) : List Str × Str := splitLinesAux s [] []

structure ParsedEvent where
  id    : Str
  type  : Str
  data  : Str
  retry : Option Nat      -- reconnection time set by a `retry` field of this event block, if any
  deriving DecidableEq, Repr

structure PSt where
  dataBuf  : Str := []
  typeBuf  : Str := []
  lastId   : Str := []
  retry    : Option Nat := none
  out      : List ParsedEvent := []    -- reversed

def allDigits (s : Str) : Bool := s != [] && s.all Char.isDigit

def digitsToNat (s : Str) : Nat := Nat.ofDigitChars 10 s 0

def splitField (line : Str) : Str × Str :=
  match line.span (· != ':') with
  | (name, []) => (name, [])
  | (name, _ :: rest) => (name, match rest with | ' ' :: r => r | r => r)

def processLine (st : PSt) (line : Str) : PSt :=
  if line == [] then
    -- dispatch
    if st.dataBuf == [] then { st with dataBuf := [], typeBuf := [], retry := none }
    else
      let d := st.dataBuf.dropLast   -- the buffer always ends with LF here
      { st with dataBuf := [], typeBuf := [], retry := none,
                out := { id := st.lastId, type := st.typeBuf, data := d, retry := st.retry } :: st.out }
  else if line.head? == some ':' then st
  else
    let (name, value) := splitField line
    if name == "event".toList then { st with typeBuf := value }
    else if name == "data".toList then { st with dataBuf := st.dataBuf ++ value ++ ['\n'] }
    else if name == "id".toList then { st with lastId := value }
    else if name == "retry".toList then
      if allDigits value then { st with retry := some (digitsToNat value) } else st
    else st

/-- Events dispatched by a conformant parser fed the whole stream `s` (an unterminated last line
    and a pending, undispatched event are discarded, as the REC says for end of file). -/
def parseSSE (s : Str) : List ParsedEvent :=
  ((splitLines s).1.foldl processLine {}).out.reverse

/-- LF-normalised payload: what the parser must return for `data`. -/
def normaliseEOL : Str → Str
  | [] => []
  | '\r' :: '\n' :: cs => '\n' :: normaliseEOL cs
  | '\r' :: cs => '\n' :: normaliseEOL cs
  | c :: cs => c :: normaliseEOL cs

/-- What the hub writes on a subscriber stream: SSE comments (":\n", also the heartbeat) and events. -/
inductive Chunk where
  | comment
  | event (e : Event)

def Chunk.bytes : Chunk → Str
  | .comment => [':', '\n']
  | .event e => e.encode

def noLineBreak (s : Str) : Prop := '\r' ∉ s ∧ '\n' ∉ s

/-- What a conformant client must see for one published event. -/
def Event.expected (e : Event) : ParsedEvent :=
  { id := e.id, type := e.type, data := normaliseEOL e.data,
    retry := if e.retry = 0 then none else some e.retry }

def Chunk.events : List Chunk → List Event
  | [] => []
  | .comment :: cs => Chunk.events cs
  | .event e :: cs => e :: Chunk.events cs

end Mercure
