// Package verifsched is the cooperative scheduler behind the controlled-schedule family (DESIGN §5.3).
// The instrumented copy of /repo's sources (built with -overlay, never written into /repo) calls
// Yield before every synchronisation operation; when no scheduler is installed these calls are no-ops.
package verifsched

import (
	"fmt"
	"sync"
)

type tryLocker interface {
	TryLock() bool
}

type tryRLocker interface {
	TryRLock() bool
}

// Event is what a thread reports when it parks.
type Event struct {
	Thread  int
	Label   string // the synchronisation operation the thread is about to perform
	Blocked bool   // it tried to acquire a lock and failed
	Done    bool   // the operation returned
	Panic   string // the operation panicked
}

type Sched struct {
	once    map[*sync.Once]int // 0 untouched, 1 running, 2 done
	mu      sync.Mutex
	current int
	resume  []chan struct{}
	parked  chan Event
	readers int // open bbolt read transactions (db.Close waits for them)
}

var cur *Sched

// Install makes s the active scheduler (nil uninstalls).
func Install(s *Sched) { cur = s }

func New() *Sched {
	heldMu.Lock()
	held = map[any]int{}
	heldMu.Unlock()

	return &Sched{parked: make(chan Event), once: map[*sync.Once]int{}}
}

// bufLen overrides the subscriber buffer length in the instrumented build (0 = keep /repo's constant).
var bufLen int

func SetBufLen(n int) { bufLen = n }

// BufLen is what the instrumented `outBufferLength` evaluates to.
func BufLen(def int) int {
	if bufLen > 0 {
		return bufLen
	}

	return def
}

// OnceDo is sync.Once.Do made cooperative: a second caller parks (blocked) while the first is inside.
func OnceDo(o *sync.Once, label string, f func()) {
	s := cur
	if s == nil {
		if g := OnYield; g != nil {
			g(label)
		}
		o.Do(f)

		return
	}
	s.yield(label, false)
	for s.once[o] == 1 {
		s.yield(label, true)
	}
	if s.once[o] == 2 {
		return
	}
	s.once[o] = 1
	defer func() { s.once[o] = 2 }()
	o.Do(f)
}

// Spawn registers an operation as thread len(resume) and starts its goroutine, parked at "start".
func (s *Sched) Spawn(op func()) int {
	id := len(s.resume)
	ch := make(chan struct{})
	s.resume = append(s.resume, ch)
	go func() {
		<-ch
		defer func() {
			if p := recover(); p != nil {
				s.parked <- Event{Thread: id, Done: true, Panic: fmt.Sprint(p)}

				return
			}
			s.parked <- Event{Thread: id, Done: true}
		}()
		op()
	}()

	return id
}

// Step resumes thread id until it parks again and returns what it reported.
func (s *Sched) Step(id int) Event {
	s.current = id
	s.resume[id] <- struct{}{}

	return <-s.parked
}

func (s *Sched) yield(label string, blocked bool) {
	id := s.current
	s.parked <- Event{Thread: id, Label: label, Blocked: blocked}
	<-s.resume[id]
}

// OnYield, when set and no scheduler is installed, is called at every synchronisation point
// (used by the crash family to kill the process at the n-th one).
var OnYield func(label string)

// Yield parks the calling thread before the synchronisation operation `label`.
func Yield(label string) {
	if s := cur; s != nil {
		s.yield(label, false)

		return
	}
	if f := OnYield; f != nil {
		f(label)
	}
}

// lock state of the instrumented mutexes (key: the mutex; -1 = write-locked, n > 0 = n readers), kept so that
// releasing a lock that is not held is a panic of the offending thread — which the schedule reports — and not
// the runtime's fatal error.
var (
	heldMu sync.Mutex
	held   = map[any]int{}
)

func mark(m any, d int) {
	heldMu.Lock()
	if d == -1 {
		held[m] = -1
	} else {
		held[m] += d
	}
	heldMu.Unlock()
}

// Unlock releases a write lock taken through Lock.
func Unlock(m interface{ Unlock() }) {
	heldMu.Lock()
	st, known := held[m]
	if known && st == -1 {
		delete(held, m)
	}
	heldMu.Unlock()
	if !known || st != -1 {
		panic("sync: Unlock of unlocked mutex")
	}
	m.Unlock()
}

// RUnlock releases a read lock taken through RLock.
func RUnlock(m interface{ RUnlock() }) {
	heldMu.Lock()
	st := held[m]
	if st > 0 {
		held[m] = st - 1
		if st == 1 {
			delete(held, m)
		}
	}
	heldMu.Unlock()
	if st <= 0 {
		panic("sync: RUnlock of unlocked RWMutex")
	}
	m.RUnlock()
}

// Lock acquires m cooperatively: it never blocks the OS thread while other threads are parked.
func Lock(m interface {
	tryLocker
	Lock()
}, label string) {
	s := cur
	if s == nil {
		if f := OnYield; f != nil {
			f(label)
		}
		m.Lock()
		mark(m, -1)

		return
	}
	s.yield(label, false)
	for !m.TryLock() {
		s.yield(label, true)
	}
	mark(m, -1)
}

func RLock(m interface {
	tryRLocker
	RLock()
}, label string) {
	s := cur
	if s == nil {
		if f := OnYield; f != nil {
			f(label)
		}
		m.RLock()
		mark(m, 1)

		return
	}
	s.yield(label, false)
	for !m.TryRLock() {
		s.yield(label, true)
	}
	mark(m, 1)
}

// Send performs a channel send cooperatively: `try` is a non-blocking attempt, `block` the plain send. A send
// that cannot proceed parks the thread as blocked instead of blocking the OS thread, so that a thread waiting
// for ever on a channel shows up as a deadlock of the schedule and not as a hang of the harness.
func Send(label string, try func() bool, block func()) {
	s := cur
	if s == nil {
		if f := OnYield; f != nil {
			f(label)
		}
		// no scheduler: the caller is the only thread that runs; a send that cannot proceed now never will
		if !try() {
			panic("send would block for ever: " + label)
		}
		_ = block

		return
	}
	s.yield(label, false)
	for !try() {
		s.yield(label, true)
	}
}

// ViewEnter / ViewExit bracket a bbolt read transaction; CloseWait parks db.Close while one is open.
func ViewEnter() {
	if s := cur; s != nil {
		s.readers++
	}
}

func ViewExit() {
	if s := cur; s != nil {
		s.readers--
	}
}

func CloseWait(label string) {
	s := cur
	if s == nil {
		if f := OnYield; f != nil {
			f(label)
		}

		return
	}
	s.yield(label, false)
	for s.readers > 0 {
		s.yield(label, true)
	}
}

// OnKillPoint, when set, is called at every kill point: places inside a bbolt write transaction (before the
// sequence is taken, before the Put, before each Delete of the retention cleanup) and inside bbolt's own
// Commit (before the dirty pages are written, before the meta page is written, after it). Kill points are
// not scheduling points: the thread does not yield, the model's db.Update stays one step.
var OnKillPoint func(label string)

func KillPoint(label string) {
	if OnKillPoint != nil {
		OnKillPoint(label)
	}
}
