import Mercure.Lemmas.BoltStore
import Mercure.Lemmas.Retention
import Mercure.Model.Retention64
import Mercure.Generated.Facts
/-
  C10 — History retention keeps a contiguous most-recent window of the configured size.
-/
namespace Mercure.C10
open Mercure

/-- The retained history is always a contiguous suffix of the accepted updates: no update is
    discarded while an older one is kept — for every size, every cleanup coin sequence. -/
theorem retained_is_suffix (size : Nat) (ps : List (Bool × Update)) :
    ∃ k, ((rRun size ps).db.map (·.2)) = (rRun size ps).acc.drop k ∧
         ((rRun size ps).db.map (·.1)) = List.range' (k + 1) ((rRun size ps).acc.length - k) :=
  Mercure.rRun_suffix size ps

theorem accepted_is_published (size : Nat) (ps : List (Bool × Update)) :
    (rRun size ps).acc = ps.map (·.2) ∧ (rRun size ps).seq = ps.length :=
  Mercure.rRun_acc size ps

/-- It never holds fewer than min(published, size) updates. -/
theorem retained_ge_min (size : Nat) (hs : 0 < size) (ps : List (Bool × Update)) :
    min ps.length size ≤ (rRun size ps).db.length :=
  Mercure.rRun_ge_min size hs ps

/-- When cleanup runs on every publication it holds exactly that many. -/
theorem retained_eq_min_when_always_cleaning (size : Nat) (hs : 0 < size) (ps : List (Bool × Update))
    (hc : ∀ p ∈ ps, p.1 = true) :
    (rRun size ps).db.length = min ps.length size :=
  Mercure.rRun_eq_min size hs ps hc

/-- Size 0 means nothing is ever discarded. -/
theorem size_zero_keeps_all (ps : List (Bool × Update)) :
    (rRun 0 ps).db.map (·.2) = ps.map (·.2) :=
  Mercure.rRun_zero ps

/-- Consequently a replay from any retained id is complete: with unique ids, negotiating from the
    id of a retained update returns that id and exactly the accepted updates after it. -/
theorem replay_from_retained_complete (size : Nat) (ps : List (Bool × Update))
    (huniq : ((ps.map (·.2)).map (·.id)).Nodup) (hne : ∀ p ∈ ps, p.2.id ≠ earliest)
    (i : Nat) (e : Nat × Update) (he : (rRun size ps).db[i]? = some e) :
    negotiate (rRun size ps).db e.2.id = (e.2.id, (ps.map (·.2)).drop e.1) :=
  Mercure.rRun_replay size ps huniq hne i e he

/-! ### machine width -/
section Width
open Mercure.Retention64

/-- `cleanup` on uint64 deletes exactly the keys the `Nat`-level `retain` drops — for every 64-bit
    size, last sequence number and key (no wrap-around: the guard `size ≥ last` precedes the
    subtraction). -/
theorem cleanup64_refines_retain (size lastID key : BitVec 64) :
    deletes size lastID key =
      (!(size.toNat == 0 || size.toNat ≥ lastID.toNat) && decide (key.toNat ≤ lastID.toNat - size.toNat)) := by
  unfold deletes removeUntil
  by_cases h0 : size = 0#64
  · subst h0; simp
  · have hs : size.toNat ≠ 0 := by
      intro h; apply h0; apply BitVec.eq_of_toNat_eq; simpa using h
    have hbeq : (size == 0#64) = false := by simpa using h0
    have hsz : (size.toNat == 0) = false := by simpa using hs
    by_cases hle : lastID.toNat ≤ size.toNat
    · have hu : lastID.ule size = true := by simpa [BitVec.ule] using hle
      have hd : decide (size.toNat ≥ lastID.toNat) = true := by simpa using hle
      rw [hbeq, hu, hsz, hd]; rfl
    · have hu : lastID.ule size = false := by simpa [BitVec.ule] using hle
      have hd : decide (size.toNat ≥ lastID.toNat) = false := by simpa using hle
      have hsub : (lastID - size).toNat = lastID.toNat - size.toNat := by
        rw [BitVec.toNat_sub]; have := lastID.isLt; have := size.isLt; omega
      rw [hbeq, hu, hsz, hd]
      simp only [Bool.or_self, Bool.false_eq_true, if_false, Bool.not_false, Bool.true_and]
      simp only [BitVec.ule, hsub]

/-- The retained window computed at machine width is the model's: filtering a bucket with `deletes`
    is `retain`. -/
theorem retain64 (size lastID : BitVec 64) (db : List (Nat × Update))
    (hk : ∀ e ∈ db, e.1 < 2 ^ 64) :
    db.filter (fun e => !deletes size lastID (BitVec.ofNat 64 e.1)) = retain size.toNat lastID.toNat db := by
  unfold retain
  by_cases hg : (size.toNat == 0 || size.toNat ≥ lastID.toNat) = true
  · rw [if_pos hg]
    apply List.filter_eq_self.mpr
    intro e _
    rw [cleanup64_refines_retain, hg]; rfl
  · rw [if_neg hg]
    apply List.filter_congr
    intro e he
    have hlt := hk e he
    rw [cleanup64_refines_retain]
    have : (size.toNat == 0 || size.toNat ≥ lastID.toNat) = false := by simpa using hg
    rw [this]
    simp only [Bool.not_false, Bool.true_and, BitVec.toNat_ofNat, Nat.mod_eq_of_lt hlt]
    by_cases hc : e.1 ≤ lastID.toNat - size.toNat
    · simp [hc]
    · simp [hc]; omega

/-- Witness for the signed rewrite (seeded change N-C10): with size 2^64−1 and three stored updates it
    deletes the key just written, the unsigned code deletes nothing. -/
theorem signed_rewrite_deletes_everything :
    deletesSigned (BitVec.ofNat 64 (2 ^ 64 - 1)) 3#64 3#64 = true ∧
    deletes (BitVec.ofNat 64 (2 ^ 64 - 1)) 3#64 3#64 = false := by decide

/-- The obligation against /repo (regenerated from bolt.go on every run): the guard of `cleanup` is
    the unsigned `t.size >= lastID`, the bound is `lastID - t.size`, and the function converts
    neither to a signed type. -/
theorem repo_cleanup_guard : Facts.cleanupUnsignedGuard = true := by decide
end Width

/-! non-vacuity -/
example : ((rRun 2 [(false, ⟨['a'], [], false, [], [], 0⟩), (false, ⟨['b'], [], false, [], [], 0⟩),
                    (false, ⟨['c'], [], false, [], [], 0⟩), (true, ⟨['d'], [], false, [], [], 0⟩)]).db.map (·.1)) = [3, 4] := by
  decide +kernel

/-- **Also when the configuration changes at a restart** (another `size`, another cleanup frequency,
    on the same database file): whatever size is in force at each publication and whatever the coins,
    the retained history is a contiguous suffix of the accepted updates stored under consecutive
    sequence numbers ending at the last one — no update is discarded while an older one is kept. -/
theorem retained_is_suffix_any_sizes (ps : List (Nat × Bool × Update)) :
    ∃ k, k ≤ ps.length ∧ (rRunV ps).db.map (·.2) = (rRunV ps).acc.drop k ∧
         (rRunV ps).db.map (·.1) = List.range' (k + 1) (ps.length - k) ∧ (rRunV ps).acc.length = ps.length :=
  Mercure.rRunV_suffix ps

/-! ### at the level of the bytes in the bucket (Model/BoltStore) -/

/-- `persist` + `cleanup` on the bucket's bytes (big-endian keys compared as bytes, the delete loop
    reading `Uint64(k[:8])`) is `rPublish` on the abstract history: after any publication history the
    bucket holds exactly the keys and values of `(rRun size ps).db`, about which the theorems above speak. -/
theorem byte_level_retention_is_rRun (debug : Bool) (size : Nat) (ps : List (Bool × Update)) (hlen : ps.length < 2 ^ 64) :
    BoltStore.WellFormed debug (ps.foldl (BoltStore.persist size debug) {}).bucket (rRun size ps).db ∧
    (ps.foldl (BoltStore.persist size debug) {}).seq = (rRun size ps).seq :=
  BoltStore.run_refines debug size ps hlen

/-- so the stored keys are a contiguous run of sequence numbers ending at the last one -/
theorem byte_level_keys_contiguous (debug : Bool) (size : Nat) (ps : List (Bool × Update)) (hlen : ps.length < 2 ^ 64) :
    ∃ k, (ps.foldl (BoltStore.persist size debug) {}).bucket.map (fun e => BoltStore.be64Val e.1)
      = List.range' (k + 1) (ps.length - k) := by
  obtain ⟨k, _, hk⟩ := retained_is_suffix size ps
  obtain ⟨h1, _, h3⟩ := (BoltStore.wf_iff _ _ _).1 (BoltStore.run_refines debug size ps hlen).1
  refine ⟨k, ?_⟩
  have hacc := (accepted_is_published size ps).1
  rw [hacc, List.length_map] at hk
  rw [← hk, h1, List.map_map]
  apply List.map_congr_left
  intro e he
  have hb := BoltStore.be64Val_enc debug e (h3 e he)
  simpa [Function.comp] using hb

end Mercure.C10

#print axioms Mercure.C10.retained_is_suffix
#print axioms Mercure.C10.accepted_is_published
#print axioms Mercure.C10.retained_ge_min
#print axioms Mercure.C10.retained_eq_min_when_always_cleaning
#print axioms Mercure.C10.size_zero_keeps_all
#print axioms Mercure.C10.replay_from_retained_complete
#print axioms Mercure.C10.cleanup64_refines_retain
#print axioms Mercure.C10.retain64
#print axioms Mercure.C10.signed_rewrite_deletes_everything
#print axioms Mercure.C10.repo_cleanup_guard
#print axioms Mercure.C10.byte_level_retention_is_rRun
#print axioms Mercure.C10.byte_level_keys_contiguous
#print axioms Mercure.C10.retained_is_suffix_any_sizes
