// vhc — the Caddy half of the C19 correspondence: every generated set of `mercure` directives goes
// through the real module (UnmarshalCaddyfile + Provision, in process, no server), the effective
// options of the resulting hub are read back and probed, and compared with the Lean model.
package main

import (
	"context"
	"encoding/json"
	"fmt"
	"net/http"
	"net/url"
	"os"
	"strconv"
	"strings"
	"time"

	"verifharness/pkg/h"
	"verifharness/pkg/jws"

	"github.com/caddyserver/caddy/v2"
	"github.com/caddyserver/caddy/v2/caddyconfig/caddyfile"
	"github.com/dunglas/mercure"
	mcaddy "github.com/dunglas/mercure/caddy"
)

type originArg struct {
	Text  string `json:"text"`
	Valid bool   `json:"valid"`
}

var originPool = []originArg{
	{"https://a.example", true}, {"http://localhost:3000", true}, {"*", true}, {"null", true},
	{"a.example", false}, {"https://a.example/path", false}, {"https://user@a.example", false},
	{"https://a.example?x=1", false}, {"https://a.example#f", false}, {"mailto:x", false},
}

var keys = map[string]*jws.Key{}

func key(class string) (*jws.Key, string) {
	if class == "absent" {
		return nil, ""
	}
	k, ok := keys[class]
	if !ok {
		k = jws.NewKey(map[string]string{"text": "HS256", "rsa": "RS256", "ec": "ES256", "ed": "EdDSA"}[class], 6)
		keys[class] = k
	}

	return k, string(k.ConfigKey())
}

type cfgCase struct {
	Anonymous     bool        `json:"anonymous"`
	Subscriptions bool        `json:"subscriptions"`
	WT, DT, HB    *string     `json:"-"`
	WTs           *string     `json:"write_timeout"`
	DTs           *string     `json:"dispatch_timeout"`
	HBs           *string     `json:"heartbeat"`
	PubClass      string      `json:"publisher_jwt_key"`
	PubAlg        *string     `json:"publisher_jwt_alg"`
	SubClass      string      `json:"subscriber_jwt_key"`
	SubAlg        *string     `json:"subscriber_jwt_alg"`
	POrigins      []originArg `json:"publish_origins"`
	COrigins      []originArg `json:"cors_origins"`
	Cookie        *string     `json:"cookie_name"`
	Compat        *string     `json:"protocol_version_compatibility"`
	Transport     string      `json:"transport"` // local | bolt | url | default | both (directive + URL: the URL wins)
	TPath         bool        `json:"transport_path_given"`
	TBucket       *string     `json:"transport_bucket_name"`
	TSize         *string     `json:"transport_size"`
	TFreq         *string     `json:"transport_cleanup_frequency"`
	UKind         string      `json:"transport_url_kind"` // local | bolt-abs | bolt-rel | bolt-nopath | unknown
	USize         *string     `json:"transport_url_size"`
	UFreq         *string     `json:"transport_url_cleanup_frequency"`
	UBucket       *string     `json:"transport_url_bucket_name"`
	// EnvURL: MERCURE_TRANSPORT_URL=bolt://<dir>/e.db?size=4 is in the process environment while the configuration is read
	EnvURL       bool  `json:"env_transport_url,omitempty"`
	Junk         bool  `json:"misspelt_directive"`
	ViaJSON      bool  `json:"via_json"`
	Placeholders int   `json:"placeholders"` // bit 0: HMAC key via {env.…}; bits 1,2: absent publisher / subscriber key written as a placeholder resolving to ""
	Order        []int `json:"order"`
}

// quote: Caddyfile quoted strings do not interpret \n; backtick-quoted tokens keep newlines literally.
func quote(s string) string {
	if strings.ContainsAny(s, "\n") {
		return "`" + s + "`"
	}

	return strconv.Quote(s)
}

func (cs cfgCase) caddyfile(dir string) string {
	var ds []string
	if cs.Anonymous {
		ds = append(ds, "anonymous")
	}
	if cs.Subscriptions {
		ds = append(ds, "subscriptions")
	}
	dur := func(name string, v *string) {
		if v != nil {
			ds = append(ds, name+" "+*v)
		}
	}
	dur("write_timeout", cs.WTs)
	dur("dispatch_timeout", cs.DTs)
	dur("heartbeat", cs.HBs)
	jwt := func(name, class string, alg *string) {
		if class == "absent" {
			return
		}
		_, text := key(class)
		l := name + " " + quote(text)
		switch {
		case class == "text" && cs.Placeholders&1 != 0:
			l = name + " {env.VERIF_HMAC_KEY}" // a placeholder that resolves to the key
		}
		if alg != nil {
			l += " " + quote(*alg)
		}
		ds = append(ds, l)
	}
	// a key given as a placeholder that resolves to nothing is no key at all
	if cs.PubClass == "absent" && cs.Placeholders&2 != 0 {
		ds = append(ds, "publisher_jwt {env.VERIF_UNSET_KEY}")
	}
	if cs.SubClass == "absent" && cs.Placeholders&4 != 0 {
		ds = append(ds, "subscriber_jwt {env.VERIF_UNSET_KEY} HS256")
	}
	jwt("publisher_jwt", cs.PubClass, cs.PubAlg)
	jwt("subscriber_jwt", cs.SubClass, cs.SubAlg)
	orig := func(name string, os []originArg) {
		if len(os) == 0 {
			return
		}
		l := name
		for _, o := range os {
			l += " " + quote(o.Text)
		}
		ds = append(ds, l)
	}
	orig("publish_origins", cs.POrigins)
	orig("cors_origins", cs.COrigins)
	if cs.Cookie != nil {
		ds = append(ds, "cookie_name "+quote(*cs.Cookie))
	}
	if cs.Compat != nil {
		ds = append(ds, "protocol_version_compatibility "+*cs.Compat)
	}
	switch cs.Transport {
	case "local", "both":
		ds = append(ds, "transport local")
	case "bolt":
		var sub []string
		if cs.TPath {
			sub = append(sub, "path "+quote(dir+"/c.db"))
		}
		opt := func(name string, v *string) {
			if v != nil {
				sub = append(sub, name+" "+quote(*v))
			}
		}
		opt("bucket_name", cs.TBucket)
		opt("size", cs.TSize)
		opt("cleanup_frequency", cs.TFreq)
		if len(sub) == 0 {
			ds = append(ds, "transport bolt")
		} else {
			ds = append(ds, "transport bolt {\n\t\t"+strings.Join(sub, "\n\t\t")+"\n\t}")
		}
	}
	if cs.Transport == "url" || cs.Transport == "both" {
		ds = append(ds, "transport_url "+quote(cs.transportURL(dir)))
	}
	if cs.Junk {
		ds = append(ds, "anonymus")
	}
	// order
	out := make([]string, 0, len(ds))
	used := map[int]bool{}
	for _, i := range cs.Order {
		if i < len(ds) && !used[i] {
			used[i] = true
			out = append(out, ds[i])
		}
	}
	for i := range ds {
		if !used[i] {
			out = append(out, ds[i])
		}
	}

	return "mercure {\n\t" + strings.Join(out, "\n\t") + "\n}"
}

func (cs cfgCase) transportURL(dir string) string {
	q := url.Values{}
	set := func(k string, v *string) {
		if v != nil {
			q.Set(k, *v)
		}
	}
	set("size", cs.USize)
	set("cleanup_frequency", cs.UFreq)
	set("bucket_name", cs.UBucket)
	base := ""
	switch cs.UKind {
	case "local":
		return "local://local"
	case "bolt-abs":
		base = "bolt://" + dir + "/u.db"
	case "bolt-rel":
		base = "bolt://u.db"
	case "bolt-nopath":
		base = "bolt://"
	default:
		base = "redis://u.db"
	}
	if len(q) != 0 {
		base += "?" + q.Encode()
	}

	return base
}

func envTransportURL(dir string) string { return "bolt://" + dir + "/e.db?size=4" }

// jsonRoundTrip: what encoding/json makes of a size that caddyconfig.JSONModuleObject re-encodes through a
// map[string]any (float64) — a library as a parameter of the model, consulted from 2^53 on.
func jsonRoundTrip(n uint64) string {
	b, _ := json.Marshal(map[string]any{"size": float64(n)})
	var v struct {
		Size uint64 `json:"size"`
	}
	if json.Unmarshal(b, &v) != nil {
		return "err"
	}

	return strconv.FormatUint(v.Size, 10)
}

// floatWire: strconv.ParseFloat is a parameter of the model: the verdict and the value rendered canonically.
func floatWire(s string) string {
	f, err := strconv.ParseFloat(s, 64)
	if err != nil {
		return "0:"
	}

	return "1:" + h.Hex(strconv.FormatFloat(f, 'g', -1, 64))
}

// transportLine: what the configuration says about the transport, for the model.
func (cs cfgCase) transportLine(dir string) string {
	f := []string{"cfg.transport"}
	switch cs.Transport {
	case "local", "both":
		f = append(f, "dir=local")
	case "bolt":
		f = append(f, "dir=bolt")
		if cs.TPath {
			f = append(f, "path="+h.Hex(dir+"/c.db"))
		} else {
			f = append(f, "path=-")
		}
		f = append(f, "bucket="+optHex(cs.TBucket), "size="+optHex(cs.TSize))
		if cs.TSize != nil {
			if n, err := strconv.ParseUint(*cs.TSize, 10, 64); err == nil && n >= 1<<53 {
				f = append(f, "sizert="+jsonRoundTrip(n))
			}
		}
		if cs.TFreq != nil {
			f = append(f, "freq="+floatWire(*cs.TFreq))
		} else {
			f = append(f, "freq=-")
		}
	default:
		f = append(f, "dir=none")
	}
	if cs.Transport == "url" || cs.Transport == "both" {
		u, err := url.Parse(cs.transportURL(dir))
		if err != nil {
			panic(err)
		}
		q := u.Query()
		f = append(f, "url=1", "scheme="+h.Hex(u.Scheme), "upath="+h.Hex(u.Path), "host="+h.Hex(u.Host), "usize="+h.Hex(q.Get("size")),
			"ufreq="+h.Hex(q.Get("cleanup_frequency")), "ufreqarg="+floatWire(q.Get("cleanup_frequency")), "ubucket="+h.Hex(q.Get("bucket_name")))
	} else {
		f = append(f, "url=0")
	}
	if cs.EnvURL {
		u, _ := url.Parse(envTransportURL(dir))
		q := u.Query()
		f = append(f, "env=1", "escheme="+h.Hex(u.Scheme), "eupath="+h.Hex(u.Path), "ehost="+h.Hex(u.Host), "eusize="+h.Hex(q.Get("size")),
			"eufreq="+h.Hex(q.Get("cleanup_frequency")), "eufreqarg="+floatWire(q.Get("cleanup_frequency")), "eubucket="+h.Hex(q.Get("bucket_name")))
	}

	return h.Line(f...)
}

func durMS(s string) (int, bool) {
	d, err := caddy.ParseDuration(s)
	if err != nil {
		return 0, false
	}

	return int(d.Milliseconds()), true
}

func optHex(a *string) string {
	if a == nil {
		return "-"
	}

	return h.Hex(*a)
}

func originsWire(os []originArg) string {
	if len(os) == 0 {
		return "-"
	}
	var p []string
	for _, o := range os {
		p = append(p, h.Hex(o.Text)+":"+h.B(o.Valid))
	}

	return strings.Join(p, ",")
}

type rw struct {
	hdr    http.Header
	status int
	body   strings.Builder
}

func (w *rw) Header() http.Header { return w.hdr }
func (w *rw) WriteHeader(s int) {
	if w.status == 0 {
		w.status = s
	}
}
func (w *rw) Write(p []byte) (int, error) {
	if w.status == 0 {
		w.status = 200
	}
	w.body.Write(p)
	return len(p), nil
}
func (w *rw) Flush()                           {}
func (w *rw) SetWriteDeadline(time.Time) error { return nil }

func probe(hub *mercure.Hub, publisher bool, cands map[string]*jws.Key) string {
	var accepted []string
	for _, alg := range []string{"HS256", "HS384", "HS512", "RS256", "RS384", "RS512", "ES256", "EdDSA"} {
		fam := alg[:2]
		for class, k := range cands {
			if k == nil {
				continue
			}
			if !(fam == "HS" || (fam == "RS" && class == "rsa") || (fam == "ES" && class == "ec") || (fam == "Ed" && class == "ed")) {
				continue
			}
			secret := k.ConfigKey()
			tok := jws.MintAlg(alg, k, secret, `{"mercure":{"publish":["*"],"subscribe":["*"]}}`)
			var r *http.Request
			if publisher {
				r, _ = http.NewRequest(http.MethodPost, "http://h/.well-known/mercure", strings.NewReader("topic=t&data=d"))
				r.Header.Set("Content-Type", "application/x-www-form-urlencoded")
			} else {
				ctx, cancel := context.WithCancel(context.Background())
				cancel()
				r, _ = http.NewRequestWithContext(ctx, http.MethodGet, "http://h/.well-known/mercure?topic=t", nil)
			}
			r.Header.Set("Authorization", "Bearer "+tok)
			w := &rw{hdr: http.Header{}}
			func() {
				defer func() {
					if p := recover(); p != nil && os.Getenv("VHC_DEBUG") != "" {
						fmt.Println("probe panic:", p)
					}
				}()
				hub.ServeHTTP(w, r)
			}()
			if os.Getenv("VHC_DEBUG") != "" {
				fmt.Println("probe", publisher, alg, class, w.status, w.body.String())
			}
			if w.status == 200 {
				accepted = append(accepted, alg)

				break
			}
		}
	}

	// every algorithm the hub accepts for this role: exactly the configured one, or the configuration is
	// not the one in effect
	if len(accepted) > 0 {
		return strings.Join(accepted, "+")
	}

	return "?"
}

func main() {
	if len(os.Args) < 2 {
		fmt.Fprintln(os.Stderr, "usage: vhc <report.json>")
		os.Exit(2)
	}
	seed := uint64(1)
	if s := os.Getenv("VERIF_SEED"); s != "" {
		if v, err := strconv.ParseUint(s, 10, 64); err == nil {
			seed = v
		}
	}
	tier := os.Getenv("VERIF_TIER")
	if tier == "" {
		tier = "quick"
	}
	c := &h.Ctx{Seed: seed, Tier: tier, Rand: h.NewRand(seed)}
	c.Driver = h.StartDriver()
	r := h.NewReport("C19", "cfgcaddy", seed, tier)
	r.Rule = "sets of `mercure` Caddyfile directives in random order through the real module in process (caddyfile dispenser -> UnmarshalCaddyfile -> Provision with a caddy context; a sample also through the JSON form): anonymous, subscriptions, write_timeout / dispatch_timeout / heartbeat in {unset, 0, valid, unparsable}, publisher_jwt / subscriber_jwt with key in {absent, a placeholder resolving to nothing, HMAC secret (literal or through an {env.…} placeholder), RSA / EC / Ed25519 public PEM} x algorithm in {unset, HS256, HS384, RS256, ES256, EdDSA, RS512, PS256, none, hs256}, publish_origins / cors_origins from a pool of valid and invalid origins, cookie_name, protocol_version_compatibility in {unset, 7, 6, 8, x}, transport in {none (bolt with defaults), `transport local`, `transport bolt { path? bucket_name? size? cleanup_frequency? }`, `transport_url` (local://, bolt:// absolute / relative / without path, unknown scheme; size / cleanup_frequency / bucket_name query parameters), directive and URL together} with sizes and frequencies from pools of well-formed and malformed arguments (leading zeros, 2^64-1, 2^64, signs, underscores, empty, exponent / hex floats); the transport in effect (kind, file, bucket, size, cleanup frequency) is read back; for a few provisioned bolt handlers a second handler with other parameters is provisioned on the same file while the first runs (refused, or running with its own parameters), a misspelt directive. The effective options are read back through a white-box accessor and the verification key/algorithm of each role is found by probing; compared with the model. Oracles on the implementation alone: a provisioned hub has a publisher key, and a subscriber key unless anonymous. JWKS URLs need the network: excluded. Non-trivial = configuration that gets past directive parsing; distinct by content."
	_, hk := key("text")
	os.Setenv("VERIF_HMAC_KEY", hk)
	os.Unsetenv("VERIF_UNSET_KEY")
	dir, _ := os.MkdirTemp("", "vhc-")
	defer os.RemoveAll(dir)
	os.Chdir(dir) // the default bolt transport writes ./bolt.db
	n := c.Scale(1000, 20000)
	algPool := []string{"HS256", "HS384", "RS256", "ES256", "EdDSA", "RS512", "PS256", "none", "hs256", ""}
	classes := []string{"absent", "text", "text", "rsa", "ec", "ed"}
	pickS := func(rr *h.Rand, pool []string, p, q int) *string {
		if !rr.Chance(p, q) {
			return nil
		}
		s := h.Pick(rr, pool)

		return &s
	}
	secondHandlers := 0
	for i := 0; i < n; i++ {
		rr := c.Rand.Fork()
		cs := cfgCase{Anonymous: rr.Chance(1, 3), Subscriptions: rr.Chance(1, 3), Junk: rr.Chance(1, 10), ViaJSON: rr.Chance(1, 5)}
		if rr.Chance(1, 3) {
			cs.Placeholders = rr.Intn(8)
		}
		durPool := []string{"0", "10s", "1m", "90s", "2h"}
		if rr.Chance(1, 12) {
			durPool = []string{"abc", "10s", "-5x"}
		}
		cs.WTs, cs.DTs, cs.HBs = pickS(rr, durPool, 1, 3), pickS(rr, durPool, 1, 3), pickS(rr, durPool, 1, 3)
		cs.PubClass, cs.SubClass = h.Pick(rr, classes), h.Pick(rr, classes)
		cs.PubAlg, cs.SubAlg = pickS(rr, algPool, 1, 2), pickS(rr, algPool, 1, 2)
		if rr.Chance(2, 3) {
			m := map[string]string{"text": "HS256", "rsa": "RS256", "ec": "ES256", "ed": "EdDSA"}
			if a, ok := m[cs.PubClass]; ok {
				cs.PubAlg = &a
			}
			if a, ok := m[cs.SubClass]; ok {
				cs.SubAlg = &a
			}
		}
		for k := rr.Intn(3); k > 0; k-- {
			o := h.Pick(rr, originPool)
			if rr.Chance(3, 4) {
				o = originPool[rr.Intn(4)]
			}
			cs.POrigins = append(cs.POrigins, o)
		}
		if rr.Chance(1, 4) {
			cs.COrigins = append(cs.COrigins, h.Pick(rr, originPool))
		}
		cs.Cookie = pickS(rr, []string{"myCookie", "mercureAuthorization", "c"}, 1, 4)
		cs.Compat = pickS(rr, []string{"7", "7", "6", "8", "x"}, 1, 4)
		cs.Transport = h.Pick(rr, []string{"local", "local", "bolt", "bolt", "url", "url", "default", "both"})
		sizePool := []string{"0", "5", "100", "007", "010", "9007199254740993", "18446744073709551615", "18446744073709551616", "-1", "1_0", "abc", "", "1e3", "+3", "3 "}
		freqPool := []string{"0", "1", "0.5", "0.3", "1e-1", ".5", "x", "", "0x1p-2", "1_0", "2"}
		if !rr.Chance(1, 4) { // mostly well-formed
			sizePool, freqPool = sizePool[:6], freqPool[:6]
		}
		bucketPool := []string{"updates", "b", "", "my bucket"}
		cs.TPath = rr.Chance(3, 4)
		cs.TBucket, cs.TSize, cs.TFreq = pickS(rr, bucketPool, 1, 3), pickS(rr, sizePool, 1, 2), pickS(rr, freqPool, 1, 2)
		if rr.Chance(1, 8) {
			// the layout of the shipped Caddyfile when the variable is not set: anonymous subscribers, the subscriber
			// key given through a placeholder that resolves to nothing
			cs.SubClass, cs.SubAlg, cs.Anonymous = "absent", nil, true
			cs.Placeholders |= 4
			if cs.PubClass == "absent" {
				cs.PubClass = "text"
			}
		}
		cs.EnvURL = rr.Chance(1, 4)
		cs.UKind = h.Pick(rr, []string{"local", "bolt-abs", "bolt-abs", "bolt-rel", "bolt-rel", "bolt-nopath", "unknown"})
		cs.UBucket, cs.USize, cs.UFreq = pickS(rr, bucketPool, 1, 3), pickS(rr, sizePool, 1, 2), pickS(rr, freqPool, 1, 2)
		for k := 0; k < 12; k++ {
			cs.Order = append(cs.Order, rr.Intn(12))
		}
		dir := fmt.Sprintf("%s/c%d", dir, i) // fresh files for every case
		os.MkdirAll(dir, 0o755)
		os.Chdir(dir) // relative paths (bolt.db, u.db) land here
		text := cs.caddyfile(dir)

		// ---- implementation
		var hub *mercure.Hub
		var stage string
		var err error
		m := &mcaddy.Mercure{}
		cancelCtx := func() {}
		func() {
			defer func() {
				if p := recover(); p != nil {
					err, stage = fmt.Errorf("panic: %v", p), "panic"
				}
			}()
			d := caddyfile.NewTestDispenser(text)
			if cs.EnvURL {
				os.Setenv("MERCURE_TRANSPORT_URL", envTransportURL(dir))
				r.Count("MERCURE_TRANSPORT_URL set in the environment")
			}
			err = m.UnmarshalCaddyfile(d)
			os.Unsetenv("MERCURE_TRANSPORT_URL")
			if err != nil {
				stage = "unmarshal"

				return
			}
			if cs.ViaJSON {
				b, jerr := json.Marshal(m)
				if jerr != nil {
					err, stage = jerr, "json"

					return
				}
				m = &mcaddy.Mercure{}
				if err = json.Unmarshal(b, m); err != nil {
					stage = "json"

					return
				}
			}
			ctx, cancel := caddy.NewContext(caddy.Context{Context: context.Background()})
			cancelCtx = cancel
			if err = m.Provision(ctx); err != nil {
				stage = "provision"
				m.Cleanup() // as Caddy does for a module whose provisioning failed

				return
			}
			hub = mcaddy.VerifHub(m)
		}()

		// ---- model line
		bad := false
		ms := func(v *string) string {
			if v == nil {
				return "-"
			}
			x, ok := durMS(*v)
			if !ok {
				bad = true

				return "-"
			}

			return h.Itoa(x)
		}
		wt, dt, hb := ms(cs.WTs), ms(cs.DTs), ms(cs.HBs)
		compat := "-"
		if cs.Compat != nil {
			if v, e := strconv.Atoi(*cs.Compat); e == nil {
				compat = h.Itoa(v)
			} else {
				bad = true
			}
		}
		line := h.Line("cfg.caddy", "anon="+h.B(cs.Anonymous), "subs="+h.B(cs.Subscriptions), "wt="+wt, "dt="+dt, "hb="+hb,
			"pubKey="+cs.PubClass, "pubAlg="+optHex(cs.PubAlg), "subKey="+cs.SubClass, "subAlg="+optHex(cs.SubAlg),
			"porigins="+originsWire(cs.POrigins), "corigins="+originsWire(cs.COrigins), "cookie="+optHex(cs.Cookie), "compat="+compat, "bad="+h.B(bad))
		model := c.Driver.Ask1(line)
		tmodel := c.Driver.Ask1(cs.transportLine(dir))
		r.Evaluations += 2
		impl := "err"
		rp := map[string]any{"family": "cfgcaddy", "case": cs, "caddyfile": text}
		if err == nil {
			o := mercure.VerifHubOptions(hub)
			pk, _ := key(cs.PubClass)
			sk, _ := key(cs.SubClass)
			pubAlg := probe(hub, true, map[string]*jws.Key{cs.PubClass: pk})
			subAlg := "-"
			if o.HasSubscriberKey {
				subAlg = h.Hex(probe(hub, false, map[string]*jws.Key{cs.SubClass: sk}))
			}
			// implementation alone (C19 C03 C01): no subscriber key configured — absent, or given through a placeholder that
			// resolves to nothing — means no subscriber key in effect: every subscriber is anonymous, and in particular a
			// token signed with the empty string, or with the text of the placeholder, is not "verified"
			if cs.SubClass == "absent" {
				forged := ""
				for _, secret := range []string{"", "{env.VERIF_UNSET_KEY}"} {
					tok := jws.MintAlg("HS256", nil, []byte(secret), `{"mercure":{"subscribe":["*"],"payload":"forged"}}`)
					req, _ := http.NewRequest(http.MethodGet, "http://hub.test/.well-known/mercure?topic=t", nil)
					req.Header.Set("Authorization", "Bearer "+tok)
					if who := mercure.VerifAuthorize(hub, req, false); strings.HasPrefix(who, "ok") {
						forged = fmt.Sprintf("%q", secret)
					}
				}
				if o.HasSubscriberKey || forged != "" {
					for _, k := range []string{"C19", "C03", "C01"} {
						r.Violate(h.Violation{Key: k + ":subscriber-key-in-effect-although-none-configured",
							What:   fmt.Sprintf("no subscriber key is configured, yet the hub verifies subscriber tokens (key function present: %v; a token HMAC-signed with %s is accepted with its subscribe claim — private updates included):\n%s", o.HasSubscriberKey, forged, text),
							Replay: rp})
					}
				}
				r.Count("no subscriber key configured: forged-token probes")
			}
			if strings.Contains(pubAlg, "+") || strings.Contains(subAlg, "2b") {
				r.Violate(h.Violation{Key: "C19:tokens-of-another-algorithm-accepted",
					What: "the provisioned hub accepts tokens signed with more than the one configured algorithm (publisher: " + pubAlg + "):\n" + text, Replay: rp})
			}
			impl = fmt.Sprintf("ok anon=%s subs=%s wt=%d dt=%d hb=%d pubAlg=%s subAlg=%s porigins=%s corigins=%s cookie=%s compat7=%s",
				h.B(o.Anonymous), h.B(o.Subscriptions), o.WriteTimeout.Milliseconds(), o.DispatchTimeout.Milliseconds(), o.Heartbeat.Milliseconds(),
				h.Hex(pubAlg), subAlg, h.HexList(o.PublishOrigins), h.HexList(o.CORSOrigins), h.Hex(o.CookieName), h.B(o.Compat7))
			switch t := mercure.VerifHubTransport(hub).(type) {
			case *mercure.BoltTransport:
				p, b, sz, fr := mercure.VerifBoltConfig(t)
				impl += fmt.Sprintf(" | ok kind=bolt path=%s bucket=%s size=%d freq=%s", h.Hex(p), h.Hex(b), sz, h.Hex(strconv.FormatFloat(fr, 'g', -1, 64)))
				// implementation alone: a transport that the configuration names is the one in effect, whatever the environment holds
				if cs.EnvURL && cs.Transport != "default" && strings.HasSuffix(p, "/e.db") {
					r.Violate(h.Violation{Key: "C19:environment-variable-overrides-the-configured-transport",
						What:   fmt.Sprintf("the block configures its transport (%s) but the hub runs on %s, the value of MERCURE_TRANSPORT_URL:\n%s", cs.Transport, p, text),
						Replay: rp})
				}
				r.Count("transport in effect: bolt")
			case *mercure.LocalTransport:
				impl += " | ok kind=local"
				r.Count("transport in effect: local")
			default:
				impl += fmt.Sprintf(" | ok kind=%T", t)
			}
			if !o.HasPublisherKey || (!o.HasSubscriberKey && !o.Anonymous) {
				r.Violate(h.Violation{Key: "C19:caddy-hub-started-without-required-key",
					What: "the Caddy module provisioned a hub without a publisher key, or without a subscriber key although anonymous subscribers are not allowed:\n" + text, Replay: rp})
			}
			// anonymous probe
			ctx, cancel := context.WithCancel(context.Background())
			cancel()
			rq, _ := http.NewRequestWithContext(ctx, http.MethodGet, "http://h/.well-known/mercure?"+url.Values{"topic": {"t"}}.Encode(), nil)
			w := &rw{hdr: http.Header{}}
			hub.ServeHTTP(w, rq)
			if !cs.Anonymous && w.status == 200 {
				r.Violate(h.Violation{Key: "C19:anonymous-subscribers-accepted-although-not-allowed", What: "Caddy configuration without `anonymous` accepts a subscriber with no token:\n" + text, Replay: rp})
			}
			// a second handler in the same process on the same database file with other parameters: either it is
			// refused at start-up (the file is locked) or it runs with ITS parameters — never with the first one's
			if bt, ok := mercure.VerifHubTransport(hub).(*mercure.BoltTransport); ok && cs.Transport == "bolt" && secondHandlers < c.Scale(6, 60) {
				secondHandlers++
				p1, b1, sz1, _ := mercure.VerifBoltConfig(bt)
				wantSize := sz1 + 2
				// every other time the second handler names the SAME bucket as the running one (a reload that only changes
				// the size of the window), otherwise another bucket of the same file
				wantBucket, bucketLine := "second", "bucket_name second"
				if secondHandlers%2 == 0 {
					// the same bucket, written the way the first handler's block writes it (or not at all)
					wantBucket, bucketLine = b1, ""
					if cs.TBucket != nil {
						bucketLine = "bucket_name " + quote(*cs.TBucket)
					}
				}
				text2 := fmt.Sprintf("mercure {\n\tanonymous\n\tpublisher_jwt \"aDiuNYysDgJJAF7U9YqukGjeLbiudJSIDSHf5KkZ\"\n\ttransport bolt {\n\t\tpath %s\n\t\tsize %d\n\t\t%s\n\t\tcleanup_frequency 1\n\t}\n}", quote(p1), wantSize, bucketLine)
				m2 := &mcaddy.Mercure{}
				var err2 error
				func() {
					defer func() {
						if p := recover(); p != nil {
							err2 = fmt.Errorf("panic: %v", p)
						}
					}()
					if err2 = m2.UnmarshalCaddyfile(caddyfile.NewTestDispenser(text2)); err2 != nil {
						return
					}
					ctx2, cancel2 := caddy.NewContext(caddy.Context{Context: context.Background()})
					defer cancel2()
					if err2 = m2.Provision(ctx2); err2 != nil {
						m2.Cleanup()

						return
					}
					if bt2, ok := mercure.VerifHubTransport(mcaddy.VerifHub(m2)).(*mercure.BoltTransport); ok {
						_, b2, sz2, _ := mercure.VerifBoltConfig(bt2)
						if sz2 != wantSize || b2 != wantBucket {
							for _, key := range []string{"C19", "C10"} {
								r.Violate(h.Violation{Key: key + ":handler-runs-with-another-handlers-transport-parameters",
									What: fmt.Sprintf("a second handler configured with size %d and bucket %q on the database file of a running handler was provisioned with size %d and bucket %q:\n%s\n--- while this one was running ---\n%s", wantSize, wantBucket, sz2, b2, text2, text), Replay: rp})
							}
						}
					}
					m2.Cleanup()
				}()
				if err2 != nil {
					r.Count("second handler on the same file: refused at start-up")
				} else {
					r.Count("second handler on the same file: provisioned")
				}
			}
			m.Cleanup()
			cancelCtx()
			r.Count("provisioned")
			r.Nontrivial(text)
		} else {
			cancelCtx()
			r.Count("rejected:" + stage)
			if stage == "provision" {
				r.Nontrivial(text)
			}
		}
		mm := model
		if strings.HasPrefix(mm, "err:") || strings.HasPrefix(tmodel, "err:") {
			if strings.HasPrefix(tmodel, "err:") && !strings.HasPrefix(mm, "err:") {
				r.Count("rejected by the model because of the transport: " + tmodel)
			}
			mm = "err"
		} else {
			mm += " | " + tmodel
		}
		if mm != impl {
			r.Disagree(h.Disagreement{Class: "C19.provisionCaddy", Case: map[string]any{"case": cs, "caddyfile": text}, Model: model, Impl: impl + fmt.Sprintf(" (%s: %v)", stage, err)})
		}
		if i < 4 {
			r.Sample(map[string]any{"caddyfile": text, "impl": impl})
		}
	}
	jwksStage(r)
	r.DriverLines = c.Driver.N
	c.Driver.Close()
	r.Write(os.Args[1])
	fmt.Printf("family=cfgcaddy property=C19 evaluations=%d distinct_nontrivial=%d disagreements=%d violations=%d\n", r.Evaluations, r.DistinctNontrivial, len(r.Disagreements), len(r.Violations))
}
