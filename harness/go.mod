module verifharness

go 1.23.0

toolchain go1.24.0

require (
	github.com/dunglas/mercure v0.0.0
	github.com/gofrs/uuid v4.4.0+incompatible
	github.com/prometheus/client_golang v1.20.5
	github.com/prometheus/client_model v0.6.1
	github.com/spf13/viper v1.19.0
	github.com/yosida95/uritemplate/v3 v3.0.2
	go.etcd.io/bbolt v1.4.0
	go.uber.org/zap v1.27.0
)

require (
	github.com/MauriceGit/skiplist v0.0.0-20211105230623-77f5c8d3e145 // indirect
	github.com/RoaringBitmap/roaring v1.9.4 // indirect
	github.com/beorn7/perks v1.0.1 // indirect
	github.com/bits-and-blooms/bitset v1.20.0 // indirect
	github.com/cespare/xxhash/v2 v2.3.0 // indirect
	github.com/felixge/httpsnoop v1.0.4 // indirect
	github.com/fsnotify/fsnotify v1.8.0 // indirect
	github.com/golang-jwt/jwt/v5 v5.2.1 // indirect
	github.com/gorilla/handlers v1.5.2 // indirect
	github.com/gorilla/mux v1.8.1 // indirect
	github.com/hashicorp/golang-lru v1.0.2 // indirect
	github.com/hashicorp/hcl v1.0.0 // indirect
	github.com/kevburnsjr/skipfilter v0.0.1 // indirect
	github.com/klauspost/compress v1.17.11 // indirect
	github.com/magiconair/properties v1.8.9 // indirect
	github.com/mitchellh/mapstructure v1.5.0 // indirect
	github.com/munnerz/goautoneg v0.0.0-20191010083416-a7dc8b61c822 // indirect
	github.com/pelletier/go-toml/v2 v2.2.3 // indirect
	github.com/prometheus/common v0.62.0 // indirect
	github.com/prometheus/procfs v0.15.1 // indirect
	github.com/sagikazarmark/slog-shim v0.1.0 // indirect
	github.com/spf13/afero v1.12.0 // indirect
	github.com/spf13/cast v1.7.1 // indirect
	github.com/spf13/pflag v1.0.6 // indirect
	github.com/subosito/gotenv v1.6.0 // indirect
	github.com/unrolled/secure v1.17.0 // indirect
	go.uber.org/multierr v1.11.0 // indirect
	golang.org/x/crypto v0.33.0 // indirect
	golang.org/x/net v0.35.0 // indirect
	golang.org/x/sys v0.30.0 // indirect
	golang.org/x/text v0.22.0 // indirect
	google.golang.org/protobuf v1.36.5 // indirect
	gopkg.in/ini.v1 v1.67.0 // indirect
	gopkg.in/yaml.v3 v3.0.1 // indirect
)

replace github.com/dunglas/mercure => /repo
