import Mercure.Lemmas.HubEvents
/-
  C18 — The subscription API lists exactly the connected subscribers, authorized only.
-/
namespace Mercure.C18
open Mercure

variable (M : Str → Str → Bool) (tokP tokS : Str → Option Claims)
variable (cfg : HubCfg) (kind : Kind) (size cap : Nat)

/-- At every quiescent point of an open hub the index holds exactly the connections of the current hub
    incarnation that are not gone. -/
theorem index_is_connected (ops : List HubOp) (hf : FreshLabels ops) :
    let st := HubSt.reach M tokP tokS cfg kind size cap ops
    st.closed = false → st.index = (st.conns.filter (fun c => !c.done && c.epoch == st.epoch)).map (·.label) :=
  Mercure.reach_index_connected M tokP tokS cfg kind size cap ops hf

/-- The collection: one document per (indexed subscriber, selector); restricted to one selector when requested. -/
theorem list_exact (st : HubSt) (a : AuthReq) (url topic inm : Str)
    (h : (st.apiList M tokS a url topic inm).status = 200) :
    (st.apiList M tokS a url topic inm).docs =
      (st.index.filterMap (getConn st.conns)).flatMap (fun c => subDocsOf st.cfg M c topic true) ∧
    (st.apiList M tokS a url topic inm).lastEventID = st.lastEventID := by
  unfold HubSt.apiList at h ⊢
  by_cases h1 : (!apiAuthorized st.cfg M tokS a url) = true
  · simp [h1] at h
  · by_cases h2 : (inm == st.lastEventID) = true
    · simp [h1, h2] at h
    · simp [h1, h2]

theorem list_all_selectors (st : HubSt) (c : Conn) :
    (subDocsOf st.cfg M c [] true).map (·.topic) = c.sels := by
  simp [subDocsOf, getSubscriptions, List.map_map, Function.comp_def]

theorem list_filtered (st : HubSt) (c : Conn) (topic : Str) (ht : topic ≠ []) :
    ∀ d ∈ subDocsOf st.cfg M c topic true, d.topic = topic ∧ d.subscriber = c.sid ∧ d.active = true := by
  intro d hd
  rw [mem_subDocsOf] at hd
  obtain ⟨t, _, hp, rfl⟩ := hd
  rcases hp with h0 | ⟨_, h2⟩
  · exact absurd h0 ht
  · exact ⟨h2, rfl, rfl⟩

/-- Every listed id, when dereferenced, returns that same subscription (M reflexive, as `matchSpec` is). -/
theorem deref_roundtrip (hM : ∀ t, M t t = true) (st : HubSt) (hu : (st.conns.map (·.sid)).Nodup)
    (a : AuthReq) (url url' topic inm : Str)
    (h : (st.apiList M tokS a url topic inm).status = 200)
    (ha : apiAuthorized st.cfg M tokS a url' = true) (hinm : inm ≠ st.lastEventID)
    (d : Subscription) (hd : d ∈ (st.apiList M tokS a url topic inm).docs) (hne : d.topic ≠ []) :
    (st.apiGet M tokS a url' d.topic d.subscriber inm).status = 200 ∧
    (st.apiGet M tokS a url' d.topic d.subscriber inm).docs = [d] := by
  have _hne := hne
  rw [(list_exact M tokS st a url topic inm h).1, List.mem_flatMap] at hd
  obtain ⟨c, hc, hdc⟩ := hd
  rw [mem_subDocsOf] at hdc
  obtain ⟨t, ht, _, hdeq⟩ := hdc
  have hdt : d.topic = t := by rw [hdeq]
  have hds : d.subscriber = c.sid := by rw [hdeq]
  rw [hdt] at hne
  rw [hdt, hds]
  have hmem : ∀ c' ∈ st.index.filterMap (getConn st.conns), c' ∈ st.conns := by
    intro c' hc'
    rw [List.mem_filterMap] at hc'
    obtain ⟨l, _, hl⟩ := hc'
    exact List.mem_of_find?_eq_some hl
  have hmt : matchTopics M c.sels c.allowed [t] false = true := by
    rw [matchTopics_eq]
    simp only [List.any_cons, List.any_nil, Bool.or_false, Bool.not_false, Bool.true_or, Bool.and_true]
    exact List.any_eq_true.2 ⟨t, ht, hM t⟩
  have key : ∀ x ∈ ((st.index.filterMap (getConn st.conns)).filter (·.sid == c.sid)).flatMap
      (fun c' => (subDocsOf st.cfg M c' t true).filter (·.topic == t)), x = d := by
    intro x hx
    rw [List.mem_flatMap] at hx
    obtain ⟨c', hc', hx⟩ := hx
    rw [List.mem_filter] at hc' hx
    have : c' = c := eq_of_sid_eq hu (hmem c' hc'.1) (hmem c hc) (by simpa using hc'.2)
    subst this
    obtain ⟨hx1, hx2⟩ := hx
    rw [mem_subDocsOf] at hx1
    obtain ⟨t', _, _, hxeq⟩ := hx1
    have : t' = t := by rw [hxeq] at hx2; simpa using hx2
    rw [hxeq, hdeq, this]
  have ne : d ∈ ((st.index.filterMap (getConn st.conns)).filter (·.sid == c.sid)).flatMap
      (fun c' => (subDocsOf st.cfg M c' t true).filter (·.topic == t)) := by
    rw [List.mem_flatMap]
    refine ⟨c, List.mem_filter.2 ⟨hc, by simp⟩, List.mem_filter.2 ⟨?_, by simp [hdt]⟩⟩
    rw [mem_subDocsOf]
    exact ⟨t, ht, Or.inr ⟨hmt, rfl⟩, hdeq⟩
  unfold HubSt.apiGet
  simp only [ha, Bool.not_true, Bool.false_eq_true, ↓reduceIte, beq_iff_eq, hinm]
  split
  · rename_i d' rest heq
    have : d' = d := key d' (by rw [heq]; exact List.mem_cons_self)
    simp [this]
  · rename_i heq
    rw [heq] at ne
    cases ne

/-- Unknown subscriber ⇒ 404. -/
theorem unknown_is_404 (st : HubSt) (a : AuthReq) (url topic sub inm : Str)
    (ha : apiAuthorized st.cfg M tokS a url = true) (hinm : inm ≠ st.lastEventID)
    (hs : ∀ c ∈ st.conns, c.sid ≠ sub) :
    (st.apiGet M tokS a url topic sub inm).status = 404 := by
  have hnil : (st.index.filterMap (getConn st.conns)).filter (·.sid == sub) = [] := by
    rw [List.filter_eq_nil_iff]
    intro c hc
    rw [List.mem_filterMap] at hc
    obtain ⟨l, _, hl⟩ := hc
    have : c ∈ st.conns := List.mem_of_find?_eq_some hl
    simpa using hs c this
  unfold HubSt.apiGet
  simp only [ha, hnil]
  simp [hinm]

/-- If-None-Match equal to the hub's last event id ⇒ 304. -/
theorem etag_not_modified (st : HubSt) (a : AuthReq) (url topic : Str)
    (ha : apiAuthorized st.cfg M tokS a url = true) :
    (st.apiList M tokS a url topic st.lastEventID).status = 304 := by
  unfold HubSt.apiList
  simp [ha]

/-- Whenever subscriber tokens are configured every endpoint refuses callers whose
    `mercure.subscribe` selectors do not match the requested URL. -/
theorem api_authz (st : HubSt) (hk : st.cfg.subKey = true) (a : AuthReq) (url topic sub inm : Str)
    (h : (st.apiList M tokS a url topic inm).status ≠ 401 ∨ (st.apiGet M tokS a url topic sub inm).status ≠ 401) :
    ∃ c sels, authorize st.cfg.minHeader st.cfg.minQuery tokS a [] = .ok (some c) ∧
      c.mercure.subscribe = some sels ∧ ∃ x ∈ sels, M url x = true := by
  have hauth : apiAuthorized st.cfg M tokS a url = true := by
    rcases h with h | h
    · unfold HubSt.apiList at h
      split at h
      · simp at h
      · simp_all
    · unfold HubSt.apiGet at h
      split at h
      · simp at h
      · simp_all
  unfold apiAuthorized at hauth
  rw [hk] at hauth
  simp only [Bool.not_true, Bool.false_eq_true, ↓reduceIte] at hauth
  split at hauth
  · rename_i c hc
    split at hauth
    · rename_i sels' hs'
      refine ⟨c, sels', hc, hs', ?_⟩
      simpa [canReceive] using hauth
    · simp at hauth
  · simp at hauth


/-- Subscriber ids are unique in every reachable state (the hypothesis of `deref_roundtrip`).
    The model's counting UUID generator (`uuidOf`) wraps at 16^12, hence the bound on the number of ids
    handed out so far; real UUIDs (uuid.NewV4) are assumed fresh — trusted base. -/
theorem sids_unique (ops : List HubOp)
    (hb : (HubSt.reach M tokP tokS cfg kind size cap ops).uuid ≤ 16 ^ 12) :
    ((HubSt.reach M tokP tokS cfg kind size cap ops).conns.map (·.sid)).Nodup :=
  Mercure.reach_sids_unique M tokP tokS cfg kind size cap ops hb

end Mercure.C18

#print axioms Mercure.C18.index_is_connected
#print axioms Mercure.C18.list_exact
#print axioms Mercure.C18.list_all_selectors
#print axioms Mercure.C18.list_filtered
#print axioms Mercure.C18.deref_roundtrip
#print axioms Mercure.C18.unknown_is_404
#print axioms Mercure.C18.etag_not_modified
#print axioms Mercure.C18.api_authz
#print axioms Mercure.C18.sids_unique
