import Mercure.Lemmas.Retention
import Mercure.Lemmas.BoltStore
import Mercure.Lemmas.SysDurable
import Mercure.Generated.Facts
/-
  C09 — Acknowledged and delivered updates are durable and atomic across crashes.
  Over the region-level model (Mercure.Sys, Bolt transport), for every schedule; a crash may occur
  in ANY state (`restart` drops every volatile component and keeps the committed store).

  Partial by nature: that one bbolt transaction is atomic and durable, and that the file always
  reopens, are assumptions (the model's `db.Update` is a single step); they are exercised by the
  kill runs of the correspondence (SIGKILL at every synchronisation point inside and around a
  publish), not proved.
-/
namespace Mercure.C09
open Mercure.Sys

/-- Whatever has been handed to any subscriber had been persisted before. -/
theorem delivered_implies_stored (size : Nat) (subs : List Sub) (ops : List Op) (wf : WellFormed subs ops) (sched : List Nat) :
    ∀ b ∈ (reach Flags.repaired .bolt size subs ops sched).subs, ∀ u ∈ b.enq,
      u ∈ (reach Flags.repaired .bolt size subs ops sched).tr.accepted :=
  Durable.delivered_was_accepted size subs ops wf sched

/-- A publish that was acknowledged had persisted its update. -/
theorem acked_implies_stored (size : Nat) (subs : List Sub) (ops : List Op) (wf : WellFormed subs ops) (sched : List Nat) :
    ∀ th ∈ (reach Flags.repaired .bolt size subs ops sched).threads, ∀ u, th.op = .dispatch u → th.ret = some .ok →
      u ∈ (reach Flags.repaired .bolt size subs ops sched).tr.accepted :=
  Durable.acked_was_accepted size subs ops wf sched

/-- The store is the accepted sequence minus a discarded prefix, each update at the position it
    was given when accepted. -/
theorem store_is_suffix_at_fixed_positions (size : Nat) (subs : List Sub) (ops : List Op) (wf : WellFormed subs ops) (sched : List Nat) :
    let σ := reach Flags.repaired .bolt size subs ops sched
    σ.tr.seq = σ.tr.accepted.length ∧
    ∃ k, σ.tr.db.map (·.2) = σ.tr.accepted.drop k ∧ σ.tr.db.map (·.1) = List.range' (k + 1) (σ.tr.accepted.length - k) :=
  Durable.store_is_suffix_at_fixed_positions size subs ops wf sched

/-- Without retention nothing accepted is ever missing; with retention the last `size` are there. -/
theorem nothing_lost_without_retention (subs : List Sub) (ops : List Op) (wf : WellFormed subs ops) (sched : List Nat) :
    (reach Flags.repaired .bolt 0 subs ops sched).tr.db.map (·.2) = (reach Flags.repaired .bolt 0 subs ops sched).tr.accepted :=
  Durable.nothing_lost_without_retention subs ops wf sched

theorem recent_are_stored (size : Nat) (subs : List Sub) (ops : List Op) (hs : 0 < size) (wf : WellFormed subs ops) (sched : List Nat) :
    let σ := reach Flags.repaired .bolt size subs ops sched
    ∀ j, σ.tr.accepted.length - size ≤ j → ∀ u, σ.tr.accepted[j]? = some u → (j + 1, u) ∈ σ.tr.db :=
  Durable.recent_are_stored size subs ops hs wf sched

/-- Killed at any instant and restarted: the committed store, its sequence counter and positions
    are intact; the hub reports the id of the last stored update; the sequence is reloaded. An
    interrupted publish is wholly present or wholly absent because persisting is one step. -/
theorem crash_restart_keeps_committed (σ : Sys) (subs' : List Sub) (ops' : List Op) :
    (restart σ subs' ops').tr.db = σ.tr.db ∧ (restart σ subs' ops').tr.seq = σ.tr.seq ∧
    (restart σ subs' ops').tr.accepted = σ.tr.accepted ∧
    (restart σ subs' ops').tr.lastId = (match σ.tr.db.getLast? with | some e => .id e.2.id | none => .earliest) ∧
    (σ.flags.lastSeqOnOpen = true → (restart σ subs' ops').tr.lastSeq = σ.tr.seq) ∧
    (restart σ subs' ops').tr.closedCh = false ∧ (restart σ subs' ops').tr.index = [] :=
  Durable.crash_restart_keeps_committed σ subs' ops'

/-- No step rewrites or reorders what is stored: an entry stays where it is or is discarded by retention. -/
theorem positions_are_stable (σ : Sys) (i : Nat) (e : Nat × Upd) (he : e ∈ σ.tr.db) :
    e ∈ (step σ i).σ.tr.db ∨ (σ.tr.size ≠ 0 ∧ e.1 + σ.tr.size ≤ (step σ i).σ.tr.seq) :=
  Durable.step_keeps_positions σ i e he

/-- The obligation against /repo (regenerated): the sequence is reloaded when the transport is reopened. -/
theorem repo_flags : Facts.sysFlags.lastSeqOnOpen = true := by decide

/-! ### at the level of the bytes in the bucket (Model/BoltStore) -/

/-- "At the same position": a stored update's position is its key, and bbolt's byte order on the keys
    the hub writes is the numeric order of the sequence numbers, whatever the ids are. -/
theorem key_order_is_sequence_order (a b : Nat) (ha : a < 2 ^ 64) (hb : b < 2 ^ 64) (x y : BoltStore.Bytes) (hab : a ≠ b) :
    BoltStore.bytesLt (BoltStore.be64 a ++ x) (BoltStore.be64 b ++ y) = decide (a < b) :=
  BoltStore.bytesLt_key a b ha hb x y hab

/-- The sequence number and the id are read back from a key exactly as they were written. -/
theorem key_roundtrip (seq : Nat) (h : seq < 2 ^ 64) (id : Str) :
    BoltStore.be64Val (BoltStore.mkKey seq id) = seq ∧ BoltStore.keyIdBytes (BoltStore.mkKey seq id) = utf8Bytes id :=
  ⟨BoltStore.be64Val_be64 seq h _, BoltStore.keyIdBytes_mkKey seq id⟩

/-- Any publication history: the bucket holds, byte for byte, the keys and JSON values of the abstract
    retained history — which the theorems above (and C10's) describe — and reading it back the way the
    code does returns that history. -/
theorem bucket_bytes_are_the_history (debug : Bool) (size : Nat) (ps : List (Bool × Update)) (hlen : ps.length < 2 ^ 64)
    (hr : ∀ p ∈ ps, p.2.retry < 2 ^ 64) :
    BoltStore.abs (ps.foldl (BoltStore.persist size debug) {}).bucket = some (rRun size ps).db := by
  have h := BoltStore.run_refines debug size ps hlen
  refine BoltStore.abs_wellFormed BoltStore.rt_holds debug _ _ h.1 ?_
  intro e he
  obtain ⟨k, hk, _⟩ := Mercure.rRun_suffix size ps
  have hacc := (Mercure.rRun_acc size ps).1
  have : e.2 ∈ (rRun size ps).acc := by
    have : e.2 ∈ (rRun size ps).db.map (·.2) := List.mem_map_of_mem he
    rw [hk] at this
    exact List.mem_of_mem_drop this
  rw [hacc] at this
  obtain ⟨p, hp, hpe⟩ := List.mem_map.1 this
  rw [← hpe]
  exact hr p hp

end Mercure.C09

#print axioms Mercure.C09.delivered_implies_stored
#print axioms Mercure.C09.acked_implies_stored
#print axioms Mercure.C09.store_is_suffix_at_fixed_positions
#print axioms Mercure.C09.nothing_lost_without_retention
#print axioms Mercure.C09.recent_are_stored
#print axioms Mercure.C09.crash_restart_keeps_committed
#print axioms Mercure.C09.positions_are_stable
#print axioms Mercure.C09.repo_flags
#print axioms Mercure.C09.key_order_is_sequence_order
#print axioms Mercure.C09.key_roundtrip
#print axioms Mercure.C09.bucket_bytes_are_the_history
