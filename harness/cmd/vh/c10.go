package main

import (
	"fmt"
	"net/url"
	"os"
	"strconv"
	"strings"

	"verifharness/pkg/h"

	"github.com/dunglas/mercure"
)

func init() { register("retention", "C10", runRetention) }

type retCase struct {
	Size     uint64  `json:"size"`
	Freq     float64 `json:"cleanup_frequency"`
	Payloads []int   `json:"payload_sizes"`
	Restarts []int   `json:"restart_before"` // indices of publishes preceded by a close+reopen
	// configuration changes at a restart: index of the publish -> the size / frequency the hub is reopened with
	Resize map[int]uint64  `json:"resize,omitempty"`
	Refreq map[int]float64 `json:"refreq,omitempty"`
	// SizeText: the window is configured the way an operator writes it, through the transport URL
	// (bolt://…?size=<text>&cleanup_frequency=…); Size is its decimal value. Empty = NewBoltTransport is called directly.
	SizeText string `json:"size_text,omitempty"`
}

func joinU(xs []uint64) string {
	p := make([]string, len(xs))
	for i, x := range xs {
		p[i] = fmt.Sprint(x)
	}

	return strings.Join(p, " ")
}

func runRetCase(c *h.Ctx, r *h.Report, cs retCase) {
	dir := scratchDir()
	defer os.RemoveAll(dir)
	size, freq := cs.Size, cs.Freq
	open := func() *mercure.BoltTransport {
		if cs.SizeText != "" && size == cs.Size {
			u, _ := url.Parse("bolt://" + dir + "/h.db?size=" + url.QueryEscape(cs.SizeText) + "&cleanup_frequency=" + strconv.FormatFloat(freq, 'g', -1, 64))
			tr, err := mercure.DeprecatedNewBoltTransport(u, zapNop())
			if err != nil {
				// a decimal numeral was refused: nothing is retained wrongly (the hub does not start); the configuration
				// families (C19) compare the refusal with the model. Fall back to the direct constructor.
				r.Count("case:size text refused by the URL factory")
				t, err2 := mercure.NewBoltTransport(zapNop(), dir+"/h.db", "", size, freq)
				if err2 != nil {
					panic(err2)
				}

				return t
			}

			return tr.(*mercure.BoltTransport)
		}
		t, err := mercure.NewBoltTransport(zapNop(), dir+"/h.db", "", size, freq)
		if err != nil {
			panic(err)
		}

		return t
	}
	t := open()
	lines := []string{h.Line("ret.new", fmt.Sprint(cs.Size))}
	impl := []string{"ok"}
	restart := map[int]bool{}
	for _, i := range cs.Restarts {
		restart[i] = true
	}
	multi := false
	failed := 0
	var prev []uint64
	for i, sz := range cs.Payloads {
		if restart[i] {
			t.Close()
			if v, ok := cs.Resize[i]; ok {
				size = v
				lines = append(lines, h.Line("ret.resize", fmt.Sprint(v)))
				impl = append(impl, "ok")
			}
			if v, ok := cs.Refreq[i]; ok {
				freq = v
			}
			t = open()
		}
		if sz < 0 {
			// a publication that fails INSIDE the write transaction (key too large for bbolt): refused, no effect
			if err := t.Dispatch(&mercure.Update{Topics: []string{"t"}, Event: mercure.Event{ID: strings.Repeat("k", 40000)}}); err == nil {
				r.Violate(h.Violation{Key: "C10:oversized-id-accepted", What: "a 40000-byte id was accepted", Replay: map[string]any{"family": "retention", "case": cs}})
			}
			failed++
		}
		id := fmt.Sprintf("u%d", i+1)
		if err := t.Dispatch(&mercure.Update{Topics: []string{"t"}, Event: mercure.Event{ID: id, Data: strings.Repeat("x", max(sz, 0))}}); err != nil {
			panic(err)
		}
		seqs, _ := mercure.VerifBoltKeys(t)
		if ks, vs := mercure.VerifBoltValueIDs(t); len(ks) == len(vs) {
			for j := range ks {
				if ks[j] != vs[j] {
					r.Violate(h.Violation{Key: "C10:stored-value-is-not-the-accepted-update", What: fmt.Sprintf("entry with key id %q holds a value whose id is %q", ks[j], vs[j]), Replay: map[string]any{"family": "retention", "case": cs}})
				}
			}
		}
		r.Evaluations++
		lines = append(lines, h.Line("ret.pub", h.Hex(id), joinU(seqs)))
		impl = append(impl, "ok")
		n := uint64(i + 1)
		// the property's oracle, on the implementation alone
		contiguous := true
		for j := range seqs {
			if seqs[j] != seqs[0]+uint64(j) {
				contiguous = false
			}
		}
		endsAtLast := len(seqs) > 0 && seqs[len(seqs)-1] == n
		minKept := n
		if cs.Size > 0 && cs.Size < n {
			minKept = cs.Size
		}
		changed := len(cs.Resize) > 0 || len(cs.Refreq) > 0 // the count clauses speak of one configuration
		bad := ""
		switch {
		case !contiguous || !endsAtLast:
			bad = "retained history is not a contiguous suffix"
		case changed:
		case uint64(len(seqs)) < minKept:
			bad = fmt.Sprintf("retained %d < min(published, size) = %d", len(seqs), minKept)
		case cs.Size == 0 && uint64(len(seqs)) != n:
			bad = "size 0 discarded something"
		case cs.Freq == 1 && cs.Size > 0 && uint64(len(seqs)) != minKept:
			bad = fmt.Sprintf("cleanup on every publication retained %d, expected exactly %d", len(seqs), minKept)
		}
		if bad != "" {
			key := "C10:retained-not-contiguous-suffix"
			if contiguous && endsAtLast {
				key = "C10:retained-count"
			}
			r.Violate(h.Violation{Key: key,
				What:   fmt.Sprintf("size=%d frequency=%v after %d publishes the bucket holds sequences [%s]: %s", cs.Size, cs.Freq, n, joinU(seqs), bad),
				Replay: map[string]any{"family": "retention", "case": retCase{Size: cs.Size, Freq: cs.Freq, Payloads: cs.Payloads[:i+1], Restarts: cs.Restarts, SizeText: cs.SizeText}}})
		}
		if len(prev)+1-len(seqs) >= 2 {
			multi = true
		}
		prev = seqs
	}
	t.Close()
	ans := c.Driver.Ask(lines)
	for i := range lines {
		if ans[i] != impl[i] {
			r.Disagree(h.Disagreement{Class: "C10.retention", Case: cs, Model: ans[i], Impl: strings.SplitN(lines[i], "\t", 3)[2], At: i})

			break
		}
	}
	if multi {
		r.Count("case:multi-key-cleanup")
		r.Nontrivial(fmt.Sprint(cs))
	}
	if len(cs.Restarts) > 0 {
		r.Count("case:with-restart")
	}
	if len(cs.Resize) > 0 {
		r.Count("case:restart-with-another-configuration")
	}
	if failed > 0 {
		r.Count("case:with-failed-transaction")
	}
	r.Count(fmt.Sprintf("freq:%v", cs.Freq))
	r.Count(fmt.Sprintf("size:%d", cs.Size))
	r.Sample(cs)
}

func runRetention(c *h.Ctx, r *h.Report) {
	r.Rule = "publish histories on a real BoltTransport: size in {0,1,2,3,5,50} and, in one case out of eight, around the limits of the integer types (2^31-1 … 2^64-1), cleanup frequency in {0, 0.25, 0.5, 1} (the coin is the runtime's: the model runs as an acceptor — after every publish the bucket's sequence numbers, read back through a white-box accessor, must be one of the two outcomes 'cleanup ran' / 'cleanup skipped'), 5-120 publishes, payloads up to 8 KiB so keys span several B-tree pages, close+reopen in between (one restart in three with ANOTHER size / cleanup frequency on the same file: contiguity must survive, the count clauses are then not evaluated), publications whose write transaction fails (oversized id) interleaved. The property's oracle (contiguous suffix ending at the last sequence, at least min(n,size) kept, exactly that many when cleanup always runs, size 0 keeps all) is evaluated on the implementation alone. Non-trivial = history in which one cleanup removed two or more keys; distinct by content."
	if c.Replay != "" {
		var rp struct {
			Case retCase `json:"case"`
		}
		readReplay(c.Replay, &rp)
		runRetCase(c, r, rp.Case)

		return
	}
	// corpus first
	runRetCase(c, r, retCase{Size: 3, Freq: 0.5, Payloads: make([]int, 40)})
	// a backlog older than the window at the moment cleanup runs on every publication: reopened with a smaller size
	runRetCase(c, r, retCase{Size: 10, Freq: 1, Payloads: make([]int, 26), Restarts: []int{20}, Resize: map[int]uint64{20: 5}, Refreq: map[int]float64{20: 1}})
	runRetCase(c, r, retCase{Size: 0, Freq: 1, Payloads: make([]int, 12), Restarts: []int{8}, Resize: map[int]uint64{8: 3}, Refreq: map[int]float64{8: 1}})
	// the window written in the transport URL, the way operators write numbers: leading zeros are still decimal
	for _, txt := range []string{"010", "0100", "08", "00012", "7"} {
		v, _ := strconv.ParseUint(txt, 10, 64)
		runRetCase(c, r, retCase{Size: v, SizeText: txt, Freq: 1, Payloads: make([]int, int(v)+15), Restarts: []int{int(v) + 3}})
		r.Count("case:size-from-url-text")
	}
	n := c.Scale(300, 4000)
	for i := 0; i < n; i++ {
		rr := c.Rand.Fork()
		cs := retCase{Size: h.Pick(rr, []uint64{0, 1, 2, 3, 5, 50}), Freq: h.Pick(rr, []float64{0, 0.25, 0.5, 0.5, 0.25, 1})}
		if rr.Chance(1, 8) { // sizes around the limits of the integer types: "for all sizes"
			cs.Size = h.Pick(rr, []uint64{1<<31 - 1, 1 << 31, 1 << 32, 1<<63 - 1, 1 << 63, 1<<63 + 999, 1<<64 - 1})
		}
		np := 5 + rr.Intn(60)
		if cs.Size == 50 {
			np += 60
		}
		for k := 0; k < np; k++ {
			sz := rr.Intn(64)
			if rr.Chance(1, 5) {
				sz = 1000 + rr.Intn(7000)
			}
			if rr.Chance(1, 30) {
				sz = -1 // preceded by a publication whose write transaction fails
			}
			cs.Payloads = append(cs.Payloads, sz)
			if rr.Chance(1, 25) {
				cs.Restarts = append(cs.Restarts, k)
				if rr.Chance(1, 3) { // reopened with another configuration on the same file
					if cs.Resize == nil {
						cs.Resize, cs.Refreq = map[int]uint64{}, map[int]float64{}
					}
					cs.Resize[k] = h.Pick(rr, []uint64{0, 1, 2, 3, 5, 8})
					cs.Refreq[k] = h.Pick(rr, []float64{0, 0.5, 1, 1})
				}
			}
		}
		runRetCase(c, r, cs)
	}
}
