import Mercure.Lemmas.Selector
import Mercure.Lemmas.Template
import Mercure.Generated.Facts
/-
  C11 — Topic selector matching follows the protocol and caching never changes an answer.

  Statements only (helpers live in Lemmas/Selector.lean).
-/
namespace Mercure.C11
open Mercure

/-- The protocol's relation, spelled out. -/
theorem matchSpec_iff (T : TemplateOracle) (t x : Str) :
    matchSpec T t x = true ↔
      x = ['*'] ∨ t = x ∨ (containsChar x '{' = true ∧ T.valid x = true ∧ T.expands x t = true) := by
  simp [matchSpec, matchUncached, Bool.and_eq_true, and_assoc, or_assoc]

/-- An invalid template matches only itself. -/
theorem invalid_template_matches_only_itself (T : TemplateOracle) (t x : Str)
    (hx : T.valid x = false) (hs : x ≠ ['*']) : matchSpec T t x = true ↔ t = x := by
  simp [matchSpec_iff, hx, hs]

/-- getRegexp returns the selector itself (its compiled form) exactly when it is a valid template
    containing '{', whatever the cache holds, and keeps the cache well-formed. -/
theorem getRegexp_spec {T : TemplateOracle} {segs : List Seg} (hk : KeyOK segs) {st : Store}
    (hinv : st.Inv T segs) (sel : Str) :
    (Store.getRegexp T st sel).2.Inv T segs ∧
    (Store.getRegexp T st sel).2.enabled = st.enabled ∧
    (Store.getRegexp T st sel).1 =
      (if containsChar sel '{' && T.valid sel then some sel else none) := by
  unfold Store.getRegexp
  by_cases hc : containsChar sel '{' = true
  · rw [if_neg (by simp [hc])]
    by_cases he : st.enabled = true
    · rw [if_pos he]
      generalize hg : st.get (tKey sel) = g
      obtain ⟨r, st1⟩ := g
      obtain ⟨hinv1, hen1, hr⟩ := Store.get_spec hinv hg
      cases r with
      | none =>
        by_cases hv : T.valid sel = true
        · have := Store.set_spec (k := tKey sel) (v := .re sel) hinv1 (Or.inr ⟨sel, rfl, rfl, hv, hc⟩)
          simp only [hv, if_true]
          exact ⟨this.1, by rw [this.2, hen1], by simp [hc]⟩
        · simp only [hv]
          exact ⟨hinv1, hen1, by simp [hc]⟩
      | some v =>
        have hv := hr v rfl
        rcases hv with ⟨s, t, hkey, _⟩ | ⟨s, hkey, hvv, hvalid, _⟩
        · exact absurd hkey.symm (hk.ne_t s t sel)
        · have : s = sel := (tKey_inj hkey).symm
          subst this; subst hvv
          exact ⟨hinv1, hen1, by simp [hc, hvalid]⟩
    · rw [if_neg he]
      by_cases hv : T.valid sel = true
      · rw [if_pos hv]; exact ⟨hinv, rfl, by simp [hc, hv]⟩
      · rw [if_neg hv]; exact ⟨hinv, rfl, by simp [hc, hv]⟩
  · rw [if_pos (by simp [hc])]
    exact ⟨hinv, rfl, by simp [hc]⟩

/-- The miss path computes the uncached answer and keeps the cache well-formed. -/
theorem matchMiss_spec {T : TemplateOracle} {segs : List Seg} (hk : KeyOK segs) {st : Store}
    (hinv : st.Inv T segs) (topic sel : Str) (k : Option Str)
    (hkk : ∀ k', k = some k' → k' = mkKey segs sel topic) :
    (Store.matchMiss T st k topic sel).1 = matchUncached T topic sel ∧
    (Store.matchMiss T st k topic sel).2.Inv T segs := by
  unfold Store.matchMiss
  have hgspec := getRegexp_spec hk hinv sel
  rcases hgg : Store.getRegexp T st sel with ⟨r2, st2⟩
  rw [hgg] at hgspec
  obtain ⟨hinv2, _, hr⟩ := hgspec
  simp only at hr hinv2 ⊢
  cases r2 with
  | none =>
    have hans : false = matchUncached T topic sel := by
      unfold matchUncached
      by_cases hcv : (containsChar sel '{' && T.valid sel) = true
      · rw [if_pos hcv] at hr; cases hr
      · simp only [Bool.not_eq_true] at hcv; simp [hcv]
    exact ⟨hans, hinv2⟩
  | some s' =>
    have hs : s' = sel ∧ (containsChar sel '{' && T.valid sel) = true := by
      by_cases hcv : (containsChar sel '{' && T.valid sel) = true
      · rw [if_pos hcv] at hr; exact ⟨Option.some.inj hr, hcv⟩
      · rw [if_neg hcv] at hr; cases hr
    have hans : T.expands s' topic = matchUncached T topic sel := by
      unfold matchUncached; rw [hs.1]; simp [hs.2]
    cases k with
    | none => exact ⟨hans, hinv2⟩
    | some k' =>
      refine ⟨hans, ?_⟩
      have hk' := hkk k' rfl
      exact (Store.set_spec hinv2 (Or.inl ⟨sel, topic, hk', by rw [hans]⟩)).1

/-- **Cache transparency, one lookup.** For a well-formed cache of any capacity and shard count
    (including the disabled cache), with hits validated against the selector and a usable key
    expression, the answer of `match` is the protocol's relation, and the cache stays well-formed. -/
theorem match_eq_spec {T : TemplateOracle} {segs : List Seg} (hk : KeyOK segs) {st : Store}
    (hinv : st.Inv T segs) (topic sel : Str) :
    (Store.match T segs true st topic sel).1 = matchSpec T topic sel ∧
    (Store.match T segs true st topic sel).2.Inv T segs := by
  unfold Store.match
  by_cases h0 : (sel == ['*'] || topic == sel) = true
  · rw [if_pos h0]
    refine ⟨?_, hinv⟩
    simp only [Bool.or_eq_true, beq_iff_eq] at h0
    simp [matchSpec, h0]
  · rw [if_neg h0]
    have hspec : matchSpec T topic sel = matchUncached T topic sel := by
      simp only [Bool.or_eq_true, not_or, Bool.not_eq_true] at h0
      unfold matchSpec; rw [h0.1, h0.2]; simp
    rw [hspec]
    by_cases he : st.enabled = true
    · rw [if_pos he]
      dsimp only
      rcases hg : st.get (mkKey segs sel topic) with ⟨r, st1⟩
      obtain ⟨hinv1, _, hr⟩ := Store.get_spec hinv hg
      have hmiss := matchMiss_spec hk hinv1 topic sel (some (mkKey segs sel topic))
        (by intro k' h; exact (Option.some.inj h).symm)
      cases r with
      | none => exact hmiss
      | some v =>
        have hv := hr v rfl
        cases v with
        | re s => exact hmiss
        | b s v =>
          simp only [Bool.not_true, Bool.false_or]
          by_cases hs : (s == sel) = true
          · rw [if_pos hs]
            have hs' : s = sel := by simpa using hs
            subst hs'
            rcases hv with ⟨s', t, hkey, hvv⟩ | ⟨s', _, hvv, _, _⟩
            · simp only [CVal.b.injEq] at hvv
              obtain ⟨rfl, rfl⟩ := hvv
              have := hk.inj_topic _ _ _ hkey
              subst this
              exact ⟨rfl, hinv1⟩
            · exact absurd hvv (by simp)
          · rw [if_neg hs]; exact hmiss
    · rw [if_neg he]
      exact matchMiss_spec hk hinv topic sel none (by intro k' h; cases h)

/-- A history of lookups, threading the store. -/
def runLookups (T : TemplateOracle) (segs : List Seg) : Store → List (Str × Str) → List Bool × Store
  | st, [] => ([], st)
  | st, (t, x) :: rest =>
    let r := Store.match T segs true st t x
    let rr := runLookups T segs r.2 rest
    (r.1 :: rr.1, rr.2)

theorem Store.new_inv (T : TemplateOracle) (segs : List Seg) (cap shards : Nat) :
    (Store.new cap shards).Inv T segs := by
  intro sh hsh e he
  unfold Store.new at hsh
  split at hsh
  · simp at hsh
  · simp only [List.mem_replicate] at hsh
    rw [hsh.2] at he; simp at he

/-- **Cache transparency, every history.** Whatever pairs were evaluated before, in whatever
    order, against a cache of any capacity and any number of shards (0 = disabled, 1, 2, …):
    every answer is the protocol's relation. -/
theorem cache_transparent {T : TemplateOracle} {segs : List Seg} (hk : KeyOK segs)
    (st : Store) (hinv : st.Inv T segs) (ls : List (Str × Str)) :
    (runLookups T segs st ls).1 = ls.map (fun p => matchSpec T p.1 p.2) := by
  induction ls generalizing st with
  | nil => rfl
  | cons p rest ih =>
    obtain ⟨t, x⟩ := p
    have h := match_eq_spec hk hinv t x
    simp only [runLookups, List.map_cons, h.1, ih _ h.2]

theorem cache_transparent_fresh {T : TemplateOracle} {segs : List Seg} (hk : KeyOK segs)
    (cap shards : Nat) (ls : List (Str × Str)) :
    (runLookups T segs (Store.new cap shards) ls).1 = ls.map (fun p => matchSpec T p.1 p.2) :=
  cache_transparent hk _ (Store.new_inv T segs cap shards) ls

/-- The obligations against the **regenerated** facts of /repo's `match`: the key expression is
    one of the shapes proved usable, and a hit is validated against the selector. -/
theorem repo_key_ok : KeyOK Facts.matchKeySegs ∧ Facts.matchHitValidated = true ∧
    Facts.matchKeyRecognised = true := by
  refine ⟨?_, by decide, by decide⟩
  have h : Facts.matchKeySegs = repoKeySegs ∨ Facts.matchKeySegs = goodKeySegs := by decide
  rcases h with h | h
  · rw [h]; exact repoKey_ok
  · rw [h]; exact goodKey_ok

/-- C11 for the code as it is now (`Store.match` instantiated with the regenerated facts, as the
    driver runs it in the correspondence check). -/
theorem C11_repo (T : TemplateOracle) (cap shards : Nat) (ls : List (Str × Str)) :
    (runLookups T Facts.matchKeySegs (Store.new cap shards) ls).1
      = ls.map (fun p => matchSpec T p.1 p.2) :=
  cache_transparent_fresh repo_key_ok.1 cap shards ls

/-- Concurrent evaluation (thread-modular form): a lookup's answer is a function of what its own
    `Get`s return; if every value a `Get` may return is a well-formed entry for its key — which every
    `Set` of every thread preserves (`Store.set_spec`, `getRegexp_spec`, `matchMiss_spec`) — the
    answer is the spec: a well-formed entry stored for the *same selector* under the lookup's key
    holds the protocol's answer. -/
theorem concurrent_hit_is_spec {T : TemplateOracle} {segs : List Seg} (hk : KeyOK segs)
    (topic sel : Str) (v : Bool) (h0 : (sel == ['*'] || topic == sel) = false)
    (hv : EntryOK T segs (mkKey segs sel topic) (.b sel v)) : v = matchSpec T topic sel := by
  have hspec : matchSpec T topic sel = matchUncached T topic sel := by
    simp only [Bool.or_eq_false_iff] at h0
    unfold matchSpec; rw [h0.1, h0.2]; simp
  rcases hv with ⟨s, t, hkey, hvv⟩ | ⟨s, _, hvv, _, _⟩
  · simp only [CVal.b.injEq] at hvv
    obtain ⟨rfl, rfl⟩ := hvv
    have := hk.inj_topic _ _ _ hkey
    subst this
    rw [hspec]
  · exact absurd hvv (by simp)

/-! non-vacuity: a concrete non-trivial store and history meet the hypotheses -/
example : (runLookups { valid := fun _ => true, expands := fun s t => s.head? == t.head? }
    repoKeySegs (Store.new 1 1)
    [("a_c".toList, "a_{x}".toList), ("{x}_a_c".toList, "a".toList), ("a_c".toList, "a_{x}".toList)]).1
    = [true, false, true] := by decide +kernel

/-- A history of lookups against the *unvalidated* store (the code before the F5 repair). -/
def runLookupsUnvalidated (T : TemplateOracle) (segs : List Seg) : Store → List (Str × Str) → List Bool
  | _, [] => []
  | st, (t, x) :: rest =>
    let r := Store.match T segs false st t x
    r.1 :: runLookupsUnvalidated T segs r.2 rest

/-- The witness that the key expression `"m_" ++ sel ++ "_" ++ topic` *without* validation breaks
    the property (finding F5, repaired in /repo): the second answer comes out of the cache as `true`. -/
theorem C11_counterexample_unvalidated :
    runLookupsUnvalidated { valid := fun _ => true, expands := fun s t => s.head? == t.head? }
      repoKeySegs (Store.new 10000 256)
      [("a_c".toList, "a_{x}".toList), ("{x}_a_c".toList, "a".toList)] = [true, true]
    ∧ matchSpec { valid := fun _ => true, expands := fun s t => s.head? == t.head? }
        "{x}_a_c".toList "a".toList = false := by decide +kernel

/-! ### the template library as a definition (Model/Template) instead of a parameter -/

/-- With the Lean model of `uritemplate.New` / `Template.Regexp().MatchString` in the place of the
    oracle, the store of /repo answers the protocol's relation for that concrete library model —
    any cache size, any shard count, any history of lookups. -/
theorem C11_repo_concrete (cap shards : Nat) (ls : List (Str × Str)) :
    (runLookups Template.oracle Facts.matchKeySegs (Store.new cap shards) ls).1
      = ls.map (fun p => matchSpec Template.oracle p.1 p.2) :=
  C11_repo Template.oracle cap shards ls

/-- "…of which the topic is an expansion": for a template whose expressions are all `{name}` — the
    shape of nearly every selector in use — **every expansion matches**, whatever values the variables
    take (any scalar sequence, or undefined). -/
theorem expansion_matches (items : List Template.Item) (h : Template.Level1 items) (vals : Str → Option Str) :
    Template.matchTemplate items (Template.expand1 vals items) = true :=
  Template.expansion_matches items h vals

/-- and conversely for the commonest shape, `literal{var}`: it matches exactly the literal followed by
    unreserved characters, commas and `%XX` triplets — never a topic that continues with `/`, `?`, `#`,
    `:`, a space, a non-ASCII character or a stray `%`. -/
theorem lit_var_matches_iff (p : Str) (v : Template.VarSpec) (hv : v.explode = false) (t : Str) :
    Template.matchTemplate [.lit p, .expr .simple [v]] t = true ↔ ∃ w, t = p ++ w ∧ Template.ClassStr w :=
  Template.lit_var_matches_iff p v hv t

/-- a template without expression matches only itself -/
theorem literal_template_matches_itself (l t : Str) : Template.matchTemplate [.lit l] t = true ↔ t = l :=
  Template.matchItems_single_lit l t

/-! non-vacuity / sanity on concrete selectors (kernel evaluation of the parser; the matcher is defined
    by well-founded recursion and is exercised by the `tpl` family instead) -/
example : Template.parse "https://example.com/books/{id}".toList
    = some [.lit "https://example.com/books/".toList, .expr .simple [{ name := "id".toList }]] := by decide +kernel
example : Template.parse "{/a,b*}{?q:3}".toList
    = some [.expr .slash [{ name := ['a'] }, { name := ['b'], explode := true }], .expr .query [{ name := ['q'], maxlen := 3 }]] := by decide +kernel
example : Template.valid "{a:0}".toList = false ∧ Template.valid "{a..b}".toList = false ∧ Template.valid "a}".toList = false
    ∧ Template.valid "{!a}".toList = false ∧ Template.valid "%zz".toList = false ∧ Template.valid "{a".toList = false := by decide +kernel


end Mercure.C11

#print axioms Mercure.C11.matchSpec_iff
#print axioms Mercure.C11.invalid_template_matches_only_itself
#print axioms Mercure.C11.match_eq_spec
#print axioms Mercure.C11.cache_transparent
#print axioms Mercure.C11.repo_key_ok
#print axioms Mercure.C11.C11_repo
#print axioms Mercure.C11.concurrent_hit_is_spec
#print axioms Mercure.C11.C11_counterexample_unvalidated
#print axioms Mercure.C11.C11_repo_concrete
#print axioms Mercure.C11.expansion_matches
#print axioms Mercure.C11.lit_var_matches_iff
#print axioms Mercure.C11.literal_template_matches_itself
