import Mercure.Lemmas.SubList
import Mercure.Generated.Facts
/-
  C05 — Each update is handed to exactly the connected subscribers that match it.

  Statements only (helpers live in Lemmas/SubList.lean).
-/
namespace Mercure.C05
open Mercure

/-- `decode ∘ encode` returns the sorted topic list and the private flag, for every list of
    strings (U+0000 / U+0001, empty strings and duplicates included). -/
theorem decode_encode (ts : List Str) (p : Bool) (h : ts ≠ []) :
    decode (encode ts p) = (sortStrs ts, p) :=
  Mercure.decode_encode ts p h

/-- Two updates share an index signature only if they have the same topics (up to order) and the
    same private flag: one cached answer is never reused for a different update shape. -/
theorem encode_injective (ts ts' : List Str) (p p' : Bool) (h : ts ≠ []) (h' : ts' ≠ [])
    (e : encode ts p = encode ts' p') : sortStrs ts = sortStrs ts' ∧ p = p' := by
  have h1 := decode_encode ts p h
  have h2 := decode_encode ts' p' h'
  rw [e, h2] at h1
  exact ⟨(Prod.mk.inj h1).1.symm, (Prod.mk.inj h1).2.symm⟩

/-- What the subscriber-side loop computes. -/
theorem matchTopics_iff (M : Str → Str → Bool) (subs allowed ts : List Str) (p : Bool) :
    matchTopics M subs allowed ts p =
      (ts.any (fun t => subs.any (M t)) && (!p || ts.any (fun t => allowed.any (M t)))) :=
  Mercure.matchTopics_eq M subs allowed ts p

/-- Order and duplicates of topics and selectors are irrelevant. -/
theorem matchTopics_perm (M : Str → Str → Bool) {subs subs' allowed allowed' ts ts' : List Str}
    (p : Bool) (h1 : ∀ x, x ∈ subs ↔ x ∈ subs') (h2 : ∀ x, x ∈ allowed ↔ x ∈ allowed')
    (h3 : ∀ x, x ∈ ts ↔ x ∈ ts') :
    matchTopics M subs allowed ts p = matchTopics M subs' allowed' ts' p :=
  Mercure.matchTopics_congr M p h1 h2 h3

abbrev Op := SfOp
abbrev run {V : Type} := @sfRun V

/-- **Exactness for every history.** After any sequence of adds, removes, dispatches and evictions,
    with any cache capacity, a dispatch returns exactly the currently indexed values that pass the
    test for that signature — matching results never go stale. -/
theorem matchAny_exact {V : Type} (test : V → Str → Bool) (cap : Nat) (ops : List (Op V)) (k : Str) :
    ((run test cap ops).matchAny test k).1 = (run test cap ops).list.filter (fun e => test e.2 k) :=
  Mercure.matchAny_exact_of_inv test _ k (Mercure.sfRun_inv test cap ops)

/-- A subscriber added after similar updates were dispatched receives the next one. -/
theorem added_later_receives {V : Type} (test : V → Str → Bool) (cap : Nat) (ops : List (Op V))
    (k : Str) (v : V) (hv : test v k = true) :
    ∃ id, (id, v) ∈ ((run test cap (ops ++ [.add v])).matchAny test k).1 := by
  rw [matchAny_exact]
  refine ⟨(run test cap ops).next, ?_⟩
  simp [run, sfRun, List.foldl_append, sfApply, SkipFilter.add, hv]

/-- A removed subscriber receives nothing more. -/
theorem removed_receives_nothing {V : Type} (test : V → Str → Bool) (cap : Nat) (ops : List (Op V))
    (k : Str) (id : Nat) (v : V) :
    (id, v) ∉ ((run test cap (ops ++ [.remove id])).matchAny test k).1 := by
  rw [matchAny_exact]
  simp [run, sfRun, List.foldl_append, sfApply, SkipFilter.removeId]

/-- The index test the hub installs: `MatchTopics(decode signature)`; with `decode_encode` the
    recipients of an update are the connected subscribers matching its topics and private flag. -/
theorem recipients_exact (M : Str → Str → Bool) (spec : Nat → List Str × List Str) (cap : Nat)
    (ops : List (Op Nat)) (ts : List Str) (p : Bool) (h : ts ≠ []) :
    let test := fun (v : Nat) (key : Str) =>
      matchTopics M (spec v).1 (spec v).2 (decode key).1 (decode key).2
    ((run test cap ops).matchAny test (encode ts p)).1 =
      (run test cap ops).list.filter (fun e => matchTopics M (spec e.2).1 (spec e.2).2 ts p) := by
  intro test
  rw [matchAny_exact]
  congr 1
  funext e
  simp only [test, decode_encode ts p h]
  exact matchTopics_perm M p (fun _ => Iff.rfl) (fun _ => Iff.rfl)
    (fun x => mem_sortStrs)

/-- The encoder modelled is the one in /repo: escape and delimiter scalars and the replacer pairs are
    regenerated from subscriberlist.go on every run. -/
theorem repo_sublist_facts :
    Char.ofNat Facts.sublistEscape = escChar ∧ Char.ofNat Facts.sublistDelim = delimChar ∧
    Facts.sublistReplacer = ["string(escape)", "string([]rune{escape,escape})", "string(delim)", "string([]rune{escape,delim})"] := by
  decide +kernel

/-! non-vacuity -/
example : (decode (encode [['b'], [Char.ofNat 0, 'a'], []] true)) = ([[], [Char.ofNat 0, 'a'], ['b']], true) := by
  decide +kernel

end Mercure.C05

#print axioms Mercure.C05.decode_encode
#print axioms Mercure.C05.encode_injective
#print axioms Mercure.C05.matchTopics_iff
#print axioms Mercure.C05.matchTopics_perm
#print axioms Mercure.C05.matchAny_exact
#print axioms Mercure.C05.added_later_receives
#print axioms Mercure.C05.removed_receives_nothing
#print axioms Mercure.C05.recipients_exact
#print axioms Mercure.C05.repo_sublist_facts
