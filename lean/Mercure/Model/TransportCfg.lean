import Mercure.Model.Basic
/-
  Mercure.Model.TransportCfg — which transport a configuration yields, and with which parameters:
  the Caddy `transport` directive (caddy/mercure.go "transport", caddy/bolt.go, caddy/local.go), the
  deprecated `transport_url` (caddy/mercure.go createTransportLegacy, config.go NewHubFromViper →
  transport.go NewTransport → bolt.go DeprecatedNewBoltTransport / local.go DeprecatedNewLocalTransport)
  and NewBoltTransport's defaults.

  Libraries as parameters: URL parsing (the harness passes scheme / path / host / query values as
  net/url parsed them) and strconv.ParseFloat (the harness passes the verdict and a canonical
  rendering of the value). strconv.ParseUint(s, 10, 64) is modelled here (`parseUint64`).
-/
namespace Mercure.TransportCfg

/-- strconv.ParseUint(s, 10, 64): one or more ASCII digits, no sign, no underscore, value < 2^64. -/
def digitVal (c : Char) : Option Nat :=
  if '0' ≤ c ∧ c ≤ '9' then some (c.toNat - '0'.toNat) else none

def digitsVal : Str → Nat → Option Nat
  | [], acc => some acc
  | c :: cs, acc => match digitVal c with
    | some d => digitsVal cs (acc * 10 + d)
    | none => none

def parseUint64 (s : Str) : Option Nat :=
  if s == [] then none else
  match digitsVal s 0 with
  | some n => if n < 2 ^ 64 then some n else none
  | none => none

/-- An argument handed to strconv.ParseFloat: did it parse, and the value rendered canonically. -/
structure FloatArg where
  valid : Bool
  canon : Str
  deriving DecidableEq, Repr

inductive Kind where | bolt | local_
  deriving DecidableEq, Repr

structure Eff where
  kind   : Kind
  path   : Str := []      -- bolt only
  bucket : Str := []      -- bolt only
  size   : Nat := 0       -- bolt only; 0 = keep everything
  freq   : Str := []      -- bolt only; canonical rendering of the cleanup frequency
  deriving DecidableEq, Repr

inductive Err where
  | badSize | badFrequency | missingPath | noSuchTransport | missingArg
  deriving DecidableEq, Repr

def defaultBucket : Str := "updates".toList
def defaultPath : Str := "bolt.db".toList
/-- BoltDefaultCleanupFrequency, applied by the URL form only. -/
def defaultFreqURL : Str := "0.3".toList
/-- The zero value the Caddy module passes when `cleanup_frequency` is omitted ("never clean up"). -/
def zeroFreq : Str := "0".toList

/-- NewBoltTransport: defaults for an empty path / bucket name. -/
def newBolt (path bucket : Str) (size : Nat) (freq : Str) : Eff :=
  { kind := .bolt, path := if path == [] then defaultPath else path,
    bucket := if bucket == [] then defaultBucket else bucket, size := size, freq := freq }

/-- The sub-directives of `transport bolt { … }` (caddy/bolt.go UnmarshalCaddyfile): `none` = not given. -/
structure BoltBlock where
  path   : Option Str := none
  bucket : Option Str := none
  size   : Option Str := none
  freq   : Option FloatArg := none
  deriving Repr

/-- the `size` sub-directive: absent = 0; given = strconv.ParseUint, after which the module is
    re-encoded by caddyconfig.JSONModuleObject through a `map[string]any`, i.e. through a float64:
    exact below 2^53; from 2^53 on the result is encoding/json's business (`rt`, a parameter: the
    harness reports what the library does — 2^64-1 is rejected, 2^53+1 becomes 2^53). -/
def blockSize (rt : Nat → Option Nat) : Option Str → Option Nat
  | none => some 0
  | some s => match parseUint64 s with
    | none => none
    | some n => if n < 2 ^ 53 then some n else rt n

def provisionBoltBlock (rt : Nat → Option Nat) (b : BoltBlock) : Except Err Eff :=
  match blockSize rt b.size with
  | none => .error .badSize
  | some size =>
    match b.freq with
    | some f => if !f.valid then .error .badFrequency
                else .ok (newBolt (b.path.getD []) (b.bucket.getD []) size f.canon)
    | none => .ok (newBolt (b.path.getD []) (b.bucket.getD []) size zeroFreq)

/-- A parsed transport URL: query values are what `url.Values.Get` returns ("" when absent). -/
structure URL where
  scheme : Str
  path   : Str
  host   : Str
  size   : Str := []
  freq   : Str := []          -- text of cleanup_frequency ("" = absent)
  freqArg : FloatArg := ⟨false, []⟩   -- ParseFloat's verdict on `freq` (meaningful when freq ≠ "")
  bucket : Str := []
  deriving Repr

/-- the `size` query parameter: "" = absent = 0 -/
def urlSize (s : Str) : Option Nat := if s == [] then some 0 else parseUint64 s

/-- transport.go NewTransport + the two registered factories. -/
def provisionURL (u : URL) : Except Err Eff :=
  if u.scheme == "local".toList then .ok { kind := .local_ }
  else if u.scheme == "bolt".toList then
    match urlSize u.size with
    | none => .error .badSize
    | some size =>
      if u.freq != [] && !u.freqArg.valid then .error .badFrequency else
      let freq := if u.freq == [] then defaultFreqURL else u.freqArg.canon
      let path := if u.path == [] then u.host else u.path
      if path == [] then .error .missingPath else
      .ok (newBolt path u.bucket size freq)
  else .error .noSuchTransport

/-- What the `mercure` directive block says about the transport. -/
inductive Directive where
  | local_                       -- transport local
  | bolt (b : BoltBlock)         -- transport bolt { … }
  deriving Repr

/-- caddy/mercure.go Provision: the URL, when present, wins; without either, the bolt module with no
    sub-directive. -/
def provisionCaddyTransport (rt : Nat → Option Nat) (dir : Option Directive) (url : Option URL) : Except Err Eff :=
  match url with
  | some u => provisionURL u
  | none =>
    match dir with
    | none => provisionBoltBlock rt {}
    | some .local_ => .ok { kind := .local_ }
    | some (.bolt b) => provisionBoltBlock rt b

/-- caddy/mercure.go UnmarshalCaddyfile, "BC layer with old versions of the built-in Caddyfile": the environment
    variable MERCURE_TRANSPORT_URL stands in for `transport_url` **only when the block configures no transport at
    all** — neither a `transport` directive nor a `transport_url`. -/
def effectiveURL (dir : Option Directive) (url env : Option URL) : Option URL :=
  match url, dir with
  | some u, _ => some u
  | none, some _ => none
  | none, none => env

/-- Provision with the process environment taken into account. -/
def provisionCaddyTransportEnv (rt : Nat → Option Nat) (dir : Option Directive) (url env : Option URL) : Except Err Eff :=
  provisionCaddyTransport rt dir (effectiveURL dir url env)

/-- config.go SetConfigDefaults: `transport_url` defaults to bolt://updates.db. -/
def legacyDefaultURL : URL := { scheme := "bolt".toList, path := [], host := "updates.db".toList }

/-- config.go NewHubFromViper: the URL when set (or defaulted); otherwise NewHub's local transport. -/
def provisionLegacyTransport (defaults : Bool) (url : Option URL) : Except Err Eff :=
  match url with
  | some u => provisionURL u
  | none => if defaults then provisionURL legacyDefaultURL else .ok { kind := .local_ }

end Mercure.TransportCfg
