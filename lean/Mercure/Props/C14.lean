import Mercure.Lemmas.SysSafety
import Mercure.Lemmas.SysProgress
import Mercure.Generated.Facts
/-
  C14 — No interleaving of hub operations panics, deadlocks or races.
  Over the region-level model (Mercure.Sys), for every schedule, any number of threads, both transports.

  Partial by nature: memory-model-level race freedom is argued from the lock discipline (the
  regenerated flag `localMatchLocked`: every SubscriberList.MatchAny runs under the exclusive
  transport lock) and cross-checked dynamically with the race detector; skipfilter / roaring
  internals are covered by that contract, not modelled.
-/
namespace Mercure.C14
open Mercure.Sys

/-- **No panic**: no schedule of any well-formed set of operations reaches a send on, or a close
    of, a closed channel. -/
theorem no_panic (kind : Kind) (size : Nat) (subs : List Sub) (ops : List Op)
    (wf : WellFormed subs ops) (sched : List Nat) :
    (reach Flags.repaired kind size subs ops sched).panic = none :=
  Safety.no_panic kind size subs ops wf sched

/-- The invariant behind it: a closed channel is always flagged (and every send / close happens
    under outMutex after re-reading the flag). -/
theorem closed_implies_flag (kind : Kind) (size : Nat) (subs : List Sub) (ops : List Op)
    (wf : WellFormed subs ops) (sched : List Nat) :
    ∀ b ∈ (reach Flags.repaired kind size subs ops sched).subs, b.outClosed = true → b.disconnected = true :=
  Safety.closed_implies_flag kind size subs ops wf sched

/-- **No deadlock**: in every reachable state in which some operation has not returned, some thread
    can take a step (locks are acquired in the order transport < liveMutex < outMutex; a read
    transaction never waits for the transport lock; Close waits for readers only while holding it). -/
theorem no_deadlock (kind : Kind) (size : Nat) (subs : List Sub) (ops : List Op)
    (wf : WellFormed subs ops) (sched : List Nat)
    (hn : (reach Flags.repaired kind size subs ops sched).allDone = false) :
    ∃ i, (step (reach Flags.repaired kind size subs ops sched) i).moved = true :=
  Progress.no_deadlock kind size subs ops wf sched hn

/-- The obligation against /repo: all six repairs are in the sources (regenerated on every run),
    in particular MatchAny is only ever called under the exclusive transport lock. -/
theorem repo_flags : Facts.sysFlags = Flags.repaired ∧ Facts.sysFlags.localMatchLocked = true := by decide

/-- Witness for the code as found (F7): AddSubscriber with history ‖ Dispatch ‖ Close — Ready sends
    the queued live update on the channel Close has closed. -/
theorem C14_counterexample_send_on_closed :
    (reach Flags.found .bolt 0 [Sub.fresh [0] .earliest 3] [.add 0, .dispatch ⟨1, 0⟩, .close]
      (List.replicate 4 0 ++ List.replicate 12 1 ++ List.replicate 8 2 ++ List.replicate 8 0)).panic
      = some "send on closed channel" := by
  decide +kernel

/-- Witness for the code as found (F8): two concurrent Disconnects both pass the unlocked test. -/
theorem C14_counterexample_double_close :
    (reach Flags.found .local 0 [Sub.fresh [0] .none 3] [.disconnect 0, .disconnect 0]
      [0, 1, 0, 0, 0, 1, 1, 1]).panic = some "close of closed channel" := by
  decide +kernel

end Mercure.C14

#print axioms Mercure.C14.no_panic
#print axioms Mercure.C14.closed_implies_flag
#print axioms Mercure.C14.no_deadlock
#print axioms Mercure.C14.repo_flags
#print axioms Mercure.C14.C14_counterexample_send_on_closed
#print axioms Mercure.C14.C14_counterexample_double_close
