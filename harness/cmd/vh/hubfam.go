package main

import (
	"context"
	"encoding/json"
	"fmt"
	"net/http"
	"net/url"
	"os"
	"runtime"
	"sort"
	"strings"
	"sync"
	"sync/atomic"
	"testing/synctest"
	"time"

	"verifharness/pkg/gen"
	"verifharness/pkg/h"
	"verifharness/pkg/jws"

	"github.com/dunglas/mercure"
	"github.com/gofrs/uuid"
	"github.com/prometheus/client_golang/prometheus"
	dto "github.com/prometheus/client_model/go"
)

// ---------- deterministic UUIDs: the n-th uuid.NewV4() is 00000000-0000-4000-8000-<n as 12 hex> ----------

type countingGen struct {
	uuid.Generator
	n atomic.Uint64
}

func (g *countingGen) NewV4() (uuid.UUID, error) {
	n := g.n.Add(1) - 1
	var u uuid.UUID
	u[6], u[8] = 0x40, 0x80
	for i := 0; i < 6; i++ {
		u[15-i] = byte(n >> (8 * i))
	}

	return u, nil
}

func installCountingUUID() *countingGen {
	g := &countingGen{Generator: uuid.NewGen()}
	uuid.DefaultGenerator = g

	return g
}

// ---------- history cases ----------

type hubOp struct {
	Op      string     `json:"op"` // pub | sub | disc | stall | unstall | failnext | close | restart | api.list | api.get
	Label   int        `json:"label,omitempty"`
	Claims  string     `json:"claims,omitempty"` // JSON of the token claims; "" = no credential
	Carrier string     `json:"carrier,omitempty"`
	Topics  []string   `json:"topics,omitempty"`
	Form    url.Values `json:"form,omitempty"`
	LeidH   string     `json:"leid_header,omitempty"`
	LeidQ   string     `json:"leid_query,omitempty"`
	LeidL   []string   `json:"leid_legacy,omitempty"`
	Repeat  int        `json:"repeat,omitempty"` // pub: number of identical-shape publishes (ids suffixed)
	Topic   string     `json:"topic,omitempty"`  // api
	Sub     string     `json:"sub,omitempty"`    // api.get: label of the subscriber ("" = unknown id)
	INM     string     `json:"if_none_match,omitempty"`
	// sub: every SetWriteDeadline on this connection's ResponseWriter fails (connection torn down under the handler);
	// to the model this is a connection whose next write fails
	DeadlineErr bool `json:"deadline_err,omitempty"`
	// FlushErr: every flush of this connection fails, from the one that follows the headers (the client reset the
	// connection while it was being registered); Head: the subscription is requested with the HEAD method
	FlushErr bool `json:"flush_err,omitempty"`
	Head     bool `json:"head,omitempty"`
}

type hubCase struct {
	// ExpectAll: every publish is authorised and matches every subscriber, so a connection still open
	// and unstalled at the end must have received every update published after it connected.
	ExpectAll bool `json:"expect_all,omitempty"`
	// ExactStream: connection 0 subscribes to everything from the start: its stream must be exactly the
	// sequence of publishes (id, type, LF-normalised data), one event each.
	ExactStream bool `json:"exact_stream,omitempty"`
	// AllPublic: every publish is public, authorised and on a topic every '*' subscriber matches.
	AllPublic bool    `json:"all_public,omitempty"`
	Cfg       hubCfg  `json:"cfg"`
	Size      uint64  `json:"size"`
	Ops       []hubOp `json:"ops"`
}

type liveConn struct {
	nsels  int
	epoch  int
	label  int
	w      *fakeRW
	cancel context.CancelFunc
	done   atomic.Bool
	gate   chan struct{}
	mu     sync.Mutex
	dlTold bool // the model has been told that this connection (failing SetWriteDeadline) is gone
	// histLen: number of history entries stored when this connection was being registered (Bolt; -1 = unknown)
	histLen int
}

// leidCheck: what a reconnecting '*' subscriber asked for, what it was answered, what was stored then.
type leidCheck struct {
	label     int
	req, resp string
	stored    []string
	conn      *liveConn
	n         int // events on the stream right after registration = the replayed ones
}

func (lt *leidCheck) replayed() []string {
	evs := sseParse(lt.conn.w.Body())
	var ids []string
	for i := 0; i < lt.n && i < len(evs); i++ {
		ids = append(ids, evs[i].ID)
	}

	return ids
}

type hubRun struct {
	f          *fixture
	dir        string
	cs         hubCase
	conns      []*liveConn
	reg        *prometheus.Registry
	metrics    *mercure.PrometheusMetrics
	panics     []string
	pmu        sync.Mutex
	replayed   map[int]bool // connections that asked for a replay (their expected count differs)
	// lastPubID: the id answered to the last accepted publication, and the hub incarnation it was made in
	lastPubID    string
	lastPubEpoch int
	lastPubFresh bool // no operation other than publications and API requests since then (no hub-generated update)
	leidChecks []*leidCheck
	okPubs     int
	extra      []h.Violation // oracle findings collected while the case runs
	epoch      int           // restarts so far
	stopped    bool          // the current hub has been stopped
}

func (hr *hubRun) recoverPanic(where string) {
	if p := recover(); p != nil {
		hr.pmu.Lock()
		hr.panics = append(hr.panics, fmt.Sprintf("%s: %v", where, p))
		hr.pmu.Unlock()
	}
}

func (hr *hubRun) stop() {
	defer hr.recoverPanic("Hub.Stop")
	hr.f.hub.Stop()
}

func (hr *hubRun) open() {
	var tr mercure.Transport
	if hr.cs.Cfg.Bolt {
		t, err := mercure.NewBoltTransport(zapNop(), hr.dir+"/h.db", "", hr.cs.Size, 1)
		if err != nil {
			panic(err)
		}
		tr = t
	}
	hr.f = newFixture(hr.cs.Cfg, tr, mercure.WithHeartbeat(0), mercure.WithWriteTimeout(0), mercure.WithDispatchTimeout(0), mercure.WithMetrics(hr.metrics))
}

func metricValue(reg *prometheus.Registry, name string) float64 {
	mfs, _ := reg.Gather()
	for _, mf := range mfs {
		if mf.GetName() == name {
			m := mf.GetMetric()[0]
			if mf.GetType() == dto.MetricType_GAUGE {
				return m.GetGauge().GetValue()
			}

			return m.GetCounter().GetValue()
		}
	}

	return -1
}

// wait: quiescence; then connections whose write failed are let go one at a time, in connection order,
// round by round (each round = the connections found parked at its start), which is the order in which
// the model's settle loop ends them. Without this, two connections killed by the same publication would
// announce their ends in an order chosen by the Go scheduler.
func (hr *hubRun) wait() {
	synctest.Wait()
	for {
		var batch []*liveConn
		for _, lc := range hr.conns {
			if lc.w.failParked() {
				batch = append(batch, lc)
			}
		}
		if len(batch) == 0 {
			return
		}
		for _, lc := range batch {
			lc.w.releaseFail()
			synctest.Wait()
		}
	}
}

// gatedWrite: block while the connection is stalled.
func (lc *liveConn) gateFn() {
	lc.mu.Lock()
	g := lc.gate
	lc.mu.Unlock()
	if g != nil {
		<-g
	}
}

func (hr *hubRun) request(op hubOp, method string, path string, q url.Values, body string, now time.Time) (*http.Request, authParts, string) {
	a := authParts{}
	tok := ""
	if op.Claims != "" {
		k := hr.f.subKey
		if method == http.MethodPost {
			k = hr.f.pubKey
		}
		tok = jws.Mint(k, op.Claims)
		switch op.Carrier {
		case "query":
			a.Query = []string{tok}
		case "cookie":
			a.Cookies = []string{tok}
			a.Origin = "https://allowed.example"
		default:
			a.Headers = []string{"Bearer " + tok}
		}
	}
	r, _ := http.NewRequest(method, "http://hub.test"+path, strings.NewReader(body))
	if q == nil {
		q = url.Values{}
	}
	a.apply(r, hr.f.cookie, q)
	r.URL.RawQuery = q.Encode()

	return r, a, tok
}

func showEvents(evs []sseEvent) string {
	var p []string
	for _, e := range evs {
		rt := e.Retry
		if rt == "" {
			rt = "0"
		}
		p = append(p, fmt.Sprintf("%s/%s/%s/%s", h.Hex(e.ID), h.Hex(e.Type), rt, h.Hex(canonData(e.Data))))
	}

	return strings.Join(p, " ")
}

// canonData: subscription-event bodies are JSON; render them the way the model does.
func canonData(d string) string {
	if !strings.HasPrefix(d, "{") {
		return d
	}
	var s struct {
		ID         string      `json:"id"`
		Type       string      `json:"type"`
		Subscriber string      `json:"subscriber"`
		Topic      string      `json:"topic"`
		Active     bool        `json:"active"`
		Payload    interface{} `json:"payload"`
		Context    string      `json:"@context"`
	}
	if json.Unmarshal([]byte(d), &s) != nil || s.Type != "Subscription" || s.Context != "https://mercure.rocks/" {
		return d
	}

	return "sub|" + s.ID + "|" + s.Subscriber + "|" + s.Topic + "|" + h.B(s.Active) + "|" + jws.PayloadJSON(s.Payload)
}

// derefListed: C18's oracle on the implementation alone — one document per (connected subscriber,
// selector), ids pairwise distinct per (subscriber, selector position), and every listed id, when
// dereferenced, returns that same subscription.
func (hr *hubRun) derefListed(op hubOp, w *fakeRW, now time.Time, cs hubCase) {
	var coll struct {
		LastEventID   string `json:"lastEventID"`
		Subscriptions []struct {
			ID, Subscriber, Topic string
		} `json:"subscriptions"`
	}
	if json.Unmarshal([]byte(w.Body()), &coll) != nil {
		return
	}
	rp := map[string]any{"family": "hub", "case": cs}
	// the last event id the API reports is the id of the newest stored update (read from the bucket itself, not
	// from the transport's memory) — also right after a restart on an existing history
	if bt, isBolt := hr.f.tr.(*mercure.BoltTransport); isBolt && !hr.stopped {
		_, ids := mercure.VerifBoltKeys(bt)
		want := "earliest"
		if len(ids) > 0 {
			want = ids[len(ids)-1]
		}
		if coll.LastEventID != want {
			hr.extra = append(hr.extra, h.Violation{Key: "C18:last-event-id-is-not-the-newest-stored-update", What: fmt.Sprintf("the collection reports lastEventID %q; the newest stored update is %q", coll.LastEventID, want), Replay: rp})
		}
	}
	// without a history (local transport) the hub's last event id is the id of the last update it accepted in this
	// incarnation — whoever was connected when it was published. (With subscription tracking the hub's own events are
	// updates too: not evaluated then.)
	if _, isLocal := hr.f.tr.(*mercure.LocalTransport); isLocal && !hr.stopped && (!cs.Cfg.Subscriptions || hr.lastPubFresh) {
		want := "earliest"
		if hr.lastPubID != "" && hr.lastPubEpoch == hr.epoch {
			want = hr.lastPubID
		}
		if (hr.lastPubFresh || hr.lastPubID == "") && coll.LastEventID != want && !(cs.Cfg.Subscriptions && !hr.lastPubFresh) {
			hr.extra = append(hr.extra, h.Violation{Key: "C18:last-event-id-is-not-the-last-accepted-update", What: fmt.Sprintf("the collection reports lastEventID %q; the last publication accepted by this hub was answered %q", coll.LastEventID, want), Replay: rp})
		}
	}
	if op.Topic == "" && !hr.stopped {
		want := 0
		for _, lc := range hr.conns {
			if !lc.done.Load() && lc.epoch == hr.epoch {
				want += lc.nsels
			}
		}
		if len(coll.Subscriptions) != want {
			hr.extra = append(hr.extra, h.Violation{Key: "C18:collection-size", What: fmt.Sprintf("the collection lists %d documents; the connected subscribers have %d (subscriber, selector) pairs", len(coll.Subscriptions), want), Replay: rp})
		}
	}
	for _, d := range coll.Subscriptions {
		if d.Topic == "" {
			continue
		}
		if op.Topic != "" && d.Topic != op.Topic {
			hr.extra = append(hr.extra, h.Violation{Key: "C18:per-selector-collection-not-restricted-to-that-selector",
				What: fmt.Sprintf("the collection for selector %q lists a subscription whose selector is %q (subscriber %q)", op.Topic, d.Topic, d.Subscriber), Replay: rp})

			break
		}
		if want := subscriptionURL(d.Topic, d.Subscriber); d.ID != want {
			hr.extra = append(hr.extra, h.Violation{Key: "C18:listed-id-does-not-identify-its-subscription",
				What: fmt.Sprintf("the collection lists selector %q of subscriber %q under id %q; its subscription URL is %q", d.Topic, d.Subscriber, d.ID, want), Replay: rp})

			break
		}
		req, _, _ := hr.request(hubOp{Claims: claimsJSON("subscribe", []string{"*"}, ""), Carrier: "header"}, http.MethodGet, d.ID, nil, "", now)
		rw := newRW()
		hr.f.hub.ServeHTTP(rw, req)
		var one struct{ ID, Subscriber, Topic string }
		json.Unmarshal([]byte(rw.Body()), &one)
		if rw.Status() != 200 || one.ID != d.ID || one.Subscriber != d.Subscriber || one.Topic != d.Topic {
			hr.extra = append(hr.extra, h.Violation{Key: "C18:listed-id-does-not-dereference-to-itself",
				What: fmt.Sprintf("the collection lists {id %q, subscriber %q, topic %q}; GET %q answers %d {id %q, subscriber %q, topic %q}", d.ID, d.Subscriber, d.Topic, d.ID, rw.Status(), one.ID, one.Subscriber, one.Topic), Replay: rp})

			break
		}
	}
}

func (hr *hubRun) obs() string {
	var cs []string
	for _, lc := range hr.conns {
		cs = append(cs, fmt.Sprintf("%d:%s:[%s]", lc.label, h.B(lc.done.Load()), showEvents(sseParse(lc.w.Body()))))
	}
	last, subs, _ := hr.f.tr.(mercure.TransportSubscribers).GetSubscribers()
	var idx []string
	for _, s := range subs {
		idx = append(idx, hr.labelOf(s.ID))
	}

	return fmt.Sprintf("conns=%s index=%s last=%s metrics=%d,%d,%d", strings.Join(cs, ";"), strings.Join(idx, " "), h.Hex(last),
		int(metricValue(hr.reg, "mercure_subscribers_total")), int(metricValue(hr.reg, "mercure_subscribers_connected")), int(metricValue(hr.reg, "mercure_updates_total")))
}

var sidOf = map[int]string{} // label -> subscriber id, learnt from the index after each connect

func (hr *hubRun) labelOf(sid string) string {
	for l, s := range sidOf {
		if s == sid {
			return h.Itoa(l)
		}
	}

	return "?" + sid
}

// runHubCase runs one history; when it exhibits a violation (or a disagreement) not reported yet, the
// history is first shrunk — operations are removed greedily while the same violation key (or the same
// correspondence class) still shows — so that the replay file holds a minimal operation sequence.
func runHubCase(c *h.Ctx, r *h.Report, o *gen.Oracle, cs hubCase, uuidGen *countingGen) {
	try := func(cs hubCase) *h.Report {
		t := h.NewReport(r.Property, r.Family, r.Seed, r.Tier)
		runHubCaseRaw(c, t, o, cs, uuidGen)

		return t
	}
	t := try(cs)
	r.Evaluations += t.Evaluations
	for k, v := range t.Distribution {
		r.CountN(k, v)
	}
	if c.Replay != "" || (len(t.Violations) == 0 && len(t.Disagreements) == 0) {
		for _, v := range t.Violations {
			r.Violate(v)
		}
		for _, d := range t.Disagreements {
			r.Disagree(d)
		}

		return
	}
	shrink := func(has func(*h.Report) bool) (hubCase, *h.Report) {
		best, bt := cs, t
		budget := 200
		for changed := true; changed && budget > 0; {
			changed = false
			for i := len(best.Ops) - 1; i >= 0 && budget > 0; i-- {
				cand := best
				cand.Ops = append(append([]hubOp{}, best.Ops[:i]...), best.Ops[i+1:]...)
				budget--
				if ct := try(cand); has(ct) {
					best, bt, changed = cand, ct, true
				}
			}
		}
		r.CountN("shrink: operations removed from a failing history", len(cs.Ops)-len(best.Ops))

		return best, bt
	}
	known := map[string]bool{}
	for _, v := range r.Violations {
		known[v.Key] = true
	}
	shrunk := 0
	for _, v := range t.Violations {
		if known[v.Key] || shrunk >= 3 {
			r.Violate(v)

			continue
		}
		shrunk++
		key := v.Key
		_, bt := shrink(func(x *h.Report) bool {
			for _, w := range x.Violations {
				if w.Key == key {
					return true
				}
			}

			return false
		})
		for _, w := range bt.Violations {
			if w.Key == key {
				r.Violate(w)
			}
		}
	}
	for _, d := range t.Disagreements {
		if len(r.Disagreements) >= 3 {
			r.Disagree(d)

			continue
		}
		class := d.Class
		_, bt := shrink(func(x *h.Report) bool { return len(x.Disagreements) > 0 && x.Disagreements[0].Class == class })
		r.Disagree(bt.Disagreements[0])
	}
}

func runHubCaseRaw(c *h.Ctx, r *h.Report, o *gen.Oracle, cs hubCase, uuidGen *countingGen) {
	var lines, impl []string
	violations := []h.Violation{}
	dir := ""
	if cs.Cfg.Bolt {
		dir = scratchDir()
		defer os.RemoveAll(dir)
	}
	uuidGen.n.Store(0)
	for k := range sidOf {
		delete(sidOf, k)
	}
	stuck := ""
	defer func() {
		if stuck == "" {
			return
		}
		// goroutines of the hub are blocked for ever although every client is gone and the hub was stopped:
		// a handler waiting on a channel nobody will feed, a Close waiting for it, …
		rp := map[string]any{"family": "hub", "case": cs}
		keys := []string{"C13:hub-goroutine-blocked-forever", "C14:hub-goroutine-blocked-forever", "C15:hub-goroutine-blocked-forever",
			// a handler that never returns never runs its shutdown: the stream is never accounted as ended (C20) and,
			// with subscription tracking, its end is never announced (C17)
			"C20:stream-never-accounted-as-ended-(handler-blocked-forever)"}
		if cs.Cfg.Subscriptions {
			keys = append(keys, "C17:end-never-announced-(handler-blocked-forever)")
		}
		for _, k := range keys {
			r.Violate(h.Violation{Key: k, What: "after this history, with every client gone and the hub stopped, goroutines of the hub remain blocked for ever (" + stuck + ")", Replay: rp})
		}
	}()
	bubble := func() {
		hr := &hubRun{cs: cs, dir: dir}
		hr.reg = prometheus.NewRegistry()
		hr.metrics = mercure.NewPrometheusMetrics(hr.reg)
		hr.open()
		now := time.Now()
		kind := "local"
		if cs.Cfg.Bolt {
			kind = "bolt"
		}
		// oracle table for every selector/topic the case mentions
		var sels, topics []string
		for _, op := range cs.Ops {
			topics = append(topics, op.Form["topic"]...)
			sels = append(sels, op.Topics...)
			if op.Claims != "" {
				fa := jws.Analyse(jws.Mint(jws.NewKey("HS256", 1), op.Claims), nil, now)
				sels = append(sels, fa.Claims.Mercure.Publish...)
				sels = append(sels, fa.Claims.Mercure.Subscribe...)
			}
		}
		// subscription ids are topics too, and API URLs are matched against claims
		extraTopics := hubExtraTopics(cs)
		lines = append(lines, hr.f.cfgLine(), "or.reset")
		lines = append(lines, o.Lines(dedupe(sels), dedupe(append(topics, extraTopics...)))...)
		lines = append(lines, h.Line("hub.new", kind, h.Itoa(int(cs.Size))))
		for range lines {
			impl = append(impl, "")
		}
		seenTok := map[string]bool{}
		addTok := func(tok string) {
			if tok != "" && !seenTok[tok] {
				seenTok[tok] = true
				lines = append(lines, hr.f.tokLine(tok, now))
				impl = append(impl, "")
			}
		}
		unmodelled := false // set when a fault was injected that the model cannot follow: the oracles go on alone
		corrupted := false  // the newest history entry has been made undecodable
		emit := func(line, got string) {
			if unmodelled {
				return
			}
			lines = append(lines, line)
			impl = append(impl, got)
		}
		for _, op := range cs.Ops {
			if op.Op != "pub" && !strings.HasPrefix(op.Op, "api.") {
				hr.lastPubFresh = false
			}
			switch op.Op {
			case "pub":
				reps := max(op.Repeat, 1)
				for i := 0; i < reps; i++ {
					form := url.Values{}
					for k, v := range op.Form {
						form[k] = v
					}
					if reps > 1 && form.Get("id") != "" {
						form.Set("id", fmt.Sprintf("%s-%d", form.Get("id"), i))
					}
					req, a, tok := hr.request(op, http.MethodPost, hubURL, nil, form.Encode(), now)
					req.Header.Set("Content-Type", "application/x-www-form-urlencoded")
					addTok(tok)
					w := newRW()
					status := func() (st int) {
						defer func() {
							if recover() != nil {
								st = 500
							}
						}()
						hr.f.hub.ServeHTTP(w, req)

						return w.Status()
					}()
					hr.wait()
					body := w.Body()
					if status == 500 {
						body = ""
					}
					if status == 200 {
						hr.okPubs++
						// fresh: nobody is connected, so this publication cannot make the hub generate an update of its own
						// (no stream can end because of it)
						open := 0
						for _, lc := range hr.conns {
							if !lc.done.Load() {
								open++
							}
						}
						hr.lastPubID, hr.lastPubEpoch, hr.lastPubFresh = body, hr.epoch, open == 0
					}
					emit(h.Line(append(append([]string{"hub.pub"}, a.wire(true)...), "1", h.HexList(form["topic"]), h.Hex(form.Get("retry")),
						h.B(len(form["private"]) != 0), h.Hex(form.Get("data")), h.Hex(form.Get("id")), h.Hex(form.Get("type")))...),
						fmt.Sprintf("%d %s", status, h.Hex(body)))
				}
			case "sub":
				q := url.Values{"topic": op.Topics}
				if op.LeidQ != "" {
					q.Set("lastEventID", op.LeidQ)
				}
				for _, v := range op.LeidL {
					q.Add("Last-Event-ID", v)
				}
				ctx, cancel := context.WithCancel(context.Background())
				method := http.MethodGet
				if op.Head {
					method = http.MethodHead // routed to the same handler: a stream like any other
					r.Count("subscription requested with HEAD")
				}
				req, a, tok := hr.request(op, method, hubURL, q, "", now)
				req = req.WithContext(ctx)
				if op.LeidH != "" {
					req.Header.Set("Last-Event-ID", op.LeidH)
				}
				addTok(tok)
				lc := &liveConn{label: op.Label, w: newRW(), cancel: cancel, epoch: hr.epoch, nsels: len(op.Topics), histLen: -1}
				if hr.replayed == nil {
					hr.replayed = map[int]bool{}
				}
				hr.replayed[op.Label] = op.LeidH != "" || op.LeidQ != "" || op.LeidL != nil
				lc.w.onWrite = nil
				lc.w.gateFn = lc.gateFn
				lc.w.holdFail = true
				lc.w.deadlineErr = op.DeadlineErr
				lc.w.flushErr = op.FlushErr
				hr.conns = append(hr.conns, lc)
				go func() {
					defer lc.done.Store(true)
					defer hr.recoverPanic("subscribe handler")
					hr.f.hub.ServeHTTP(lc.w, req)
				}()
				var storedBefore []string
				if bt, ok := hr.f.tr.(*mercure.BoltTransport); ok && !hr.stopped {
					func() {
						defer func() { recover() }()
						_, storedBefore = mercure.VerifBoltKeys(bt)
					}()
				}
				hr.wait()
				if storedBefore != nil || !hr.stopped {
					lc.histLen = len(storedBefore)
				}
				status := lc.w.Status()
				body := ""
				leid := "~"
				if status != 200 {
					body = lc.w.Body()
					hr.conns = hr.conns[:len(hr.conns)-1] // refused: not a connection
					cancel()
				} else {
					if v, ok := lc.w.Header()["Last-Event-Id"]; ok {
						leid = h.Hex(v[0])
						// carrier precedence, on the implementation alone: the id the hub negotiates about is the header's when
						// it is not empty, else the lastEventID parameter's, else (version-7 compatibility only) the first
						// legacy Last-Event-ID parameter. When that id is stored, the answer names it.
						want := op.LeidH
						if want == "" {
							want = op.LeidQ
						}
						if want == "" && cs.Cfg.Compat7 && len(op.LeidL) > 0 {
							want = op.LeidL[0]
						}
						// (no retention: with a bounded history the connection's own subscription event may evict the id between
						// this reading of the bucket and the scan — a false alarm of the first version of this oracle)
						if _, isBolt := hr.f.tr.(*mercure.BoltTransport); isBolt && cs.Size == 0 && want != "" && want != "earliest" {
							stored := false
							for _, id := range storedBefore {
								stored = stored || id == want
							}
							if stored && v[0] != want {
								for _, k := range []string{"C08", "C07"} {
									hr.extra = append(hr.extra, h.Violation{Key: k + ":negotiated-about-another-carrier-than-the-protocol's",
										What:   fmt.Sprintf("Last-Event-ID header %q, lastEventID parameter %q, legacy parameter %q (compat7=%v): the protocol's carrier gives %q, which is stored, but the hub answered %q", op.LeidH, op.LeidQ, op.LeidL, cs.Cfg.Compat7, want, v[0]),
										Replay: map[string]any{"family": "hub", "case": cs}})
								}
							}
						}
						if _, isBolt := hr.f.tr.(*mercure.BoltTransport); isBolt && len(op.Topics) == 1 && (op.Topics[0] == "*" || cs.ExpectAll) && cs.AllPublic && !(cs.ExpectAll && cs.Cfg.Subscriptions) {
							req := op.LeidH
							if req == "" {
								req = op.LeidQ
							}
							if req != "" {
								hr.leidChecks = append(hr.leidChecks, &leidCheck{label: op.Label, req: req, resp: v[0], stored: storedBefore, conn: lc, n: len(sseParse(lc.w.Body()))})
							}
						}
					}
					// learn the subscriber id of this connection: the newest entry of the index not yet known
					_, subs, _ := hr.f.tr.(mercure.TransportSubscribers).GetSubscribers()
					for _, s := range subs {
						if strings.HasPrefix(hr.labelOf(s.ID), "?") {
							sidOf[op.Label] = s.ID
						}
					}
				}
				legacy := "~"
				if op.LeidL != nil {
					legacy = h.HexList(op.LeidL)
				}
				subOp := "hub.sub"
				if corrupted {
					// after the fault injection a replay from 'earliest' reaches the undecodable entry: the model's
					// operation for a registration that fails half-way; a subscription without replay is unaffected;
					// any other replay may or may not reach the entry: not modelled
					switch {
					case op.LeidH == "" && op.LeidQ == "" && op.LeidL == nil:
					case (op.LeidH == "earliest" || (op.LeidH == "" && op.LeidQ == "earliest")) && cs.Cfg.Bolt && cs.Size == 0:
						subOp = "hub.subfail"
						r.Count("registration failing half-way (model: connectFail)")
					default:
						unmodelled = true
					}
				}
				emit(h.Line(append(append([]string{subOp, h.Itoa(op.Label)}, a.wire(false)...), h.HexList(op.Topics), h.Hex(op.LeidH), h.Hex(op.LeidQ), legacy)...),
					fmt.Sprintf("%d %s leid=%s", status, h.Hex(body), leid))
				if op.DeadlineErr && status == 200 {
					r.Count("connection whose SetWriteDeadline fails")
				}
				if op.FlushErr && status == 200 {
					r.Count("connection whose flushes fail from the first one")
				}
			case "disc":
				for _, lc := range hr.conns {
					if lc.label == op.Label {
						// the client is gone: every later write fails, a blocked write fails now
						lc.w.mu.Lock()
						lc.w.failAt = 1
						lc.w.mu.Unlock()
						lc.mu.Lock()
						if lc.gate != nil {
							close(lc.gate)
							lc.gate = nil
						}
						lc.mu.Unlock()
						lc.cancel()
					}
				}
				hr.wait()
				emit(h.Line("hub.disc", h.Itoa(op.Label)), "ok")
			case "stall", "unstall":
				for _, lc := range hr.conns {
					if lc.label == op.Label {
						lc.mu.Lock()
						if op.Op == "stall" && lc.gate == nil {
							lc.gate = make(chan struct{})
						} else if op.Op == "unstall" && lc.gate != nil {
							close(lc.gate)
							lc.gate = nil
						}
						lc.mu.Unlock()
					}
				}
				hr.wait()
				emit(h.Line("hub.stall", h.Itoa(op.Label), h.B(op.Op == "stall")), "ok")
			case "failnext":
				for _, lc := range hr.conns {
					if lc.label == op.Label {
						lc.w.mu.Lock()
						lc.w.failAt = lc.w.writes + 1
						lc.w.mu.Unlock()
					}
				}
				emit(h.Line("hub.failnext", h.Itoa(op.Label)), "ok")
			case "corrupt":
				if bt, ok := hr.f.tr.(*mercure.BoltTransport); ok && !hr.stopped {
					mercure.VerifBoltCorruptLast(bt)
					corrupted = true
				}
			case "close":
				hr.stopped = true
				hr.stop()
				hr.wait()
				emit("hub.close", "ok")
			case "restart":
				hr.stop()
				hr.wait()
				hr.open()
				hr.epoch++
				hr.stopped = false
				emit("hub.restart", "ok")
			case "api.list", "api.get":
				path := hubURL + "/subscriptions"
				sid := ""
				if op.Op == "api.get" || op.Topic != "" {
					path += "/" + url.QueryEscape(op.Topic)
				}
				if op.Op == "api.get" {
					sid = "urn:uuid:unknown"
					if op.Sub != "" {
						var l int
						fmt.Sscan(op.Sub, &l)
						if s, ok := sidOf[l]; ok {
							sid = s
						}
					}
					path += "/" + url.QueryEscape(sid)
				}
				req, a, tok := hr.request(op, http.MethodGet, path, nil, "", now)
				if op.INM == "@last" {
					op.INM = ""
					if ts, ok := hr.f.tr.(mercure.TransportSubscribers); ok && !hr.stopped {
						func() {
							defer func() { recover() }()
							op.INM, _, _ = ts.GetSubscribers()
						}()
					}
				}
				if op.INM != "" {
					req.Header.Set("If-None-Match", op.INM)
				}
				addTok(tok)
				w := newRW()
				hr.f.hub.ServeHTTP(w, req)
				got := showAPIResp(w)
				if (op.Claims == "" || strings.Contains(op.Claims, "https://example.com/none")) && w.Status() != 401 && w.Status() != 404 {
					hr.extra = append(hr.extra, h.Violation{Key: "C18:unauthorised-caller-not-refused",
						What:   fmt.Sprintf("GET %s with %s and If-None-Match %q was answered %d; a caller without a matching mercure.subscribe selector must get 401", req.URL.RequestURI(), map[bool]string{true: "no token", false: "a token for an unrelated selector"}[op.Claims == ""], op.INM, w.Status()),
						Replay: map[string]any{"family": "hub", "case": cs}})
				}
				if op.Op == "api.list" && w.Status() == 200 {
					hr.derefListed(op, w, now, cs)
				}
				if op.Op == "api.list" {
					emit(h.Line(append(append([]string{"hub.api.list"}, a.wire(false)...), h.Hex(req.URL.RequestURI()), h.Hex(op.Topic), h.Hex(op.INM))...), got)
				} else {
					emit(h.Line(append(append([]string{"hub.api.get"}, a.wire(false)...), h.Hex(req.URL.RequestURI()), h.Hex(op.Topic), h.Hex(sid), h.Hex(op.INM))...), got)
				}
			}
			// a connection whose SetWriteDeadline fails: its first event is written (no write timeout is configured, so
			// no deadline is set before the write), then re-arming the default deadline fails and the handler ends the
			// stream — to the model, a client that goes away right after that event
			for _, lc := range hr.conns {
				lc.w.mu.Lock()
				died := ((lc.w.deadlineErr && lc.w.dlCalls > 1) || (lc.w.flushErr && lc.w.flCalls > 1)) && !lc.dlTold
				lc.w.mu.Unlock()
				if died {
					lc.dlTold = true
					emit(h.Line("hub.disc", h.Itoa(lc.label)), "ok")
				}
			}
			emit("hub.obs", hr.obs())
		}
		violations = append(hubOracles(hr, cs, o), hr.extra...)
		// end: release everything so the bubble can finish
		for _, lc := range hr.conns {
			lc.mu.Lock()
			if lc.gate != nil {
				close(lc.gate)
				lc.gate = nil
			}
			lc.mu.Unlock()
			lc.cancel()
		}
		hr.wait()
		// every client is gone (context cancelled, writes fail): a handler that has still not returned never will
		hung := false
		for _, lc := range hr.conns {
			if !lc.done.Load() {
				hung = true
			}
		}
		if hung {
			// stopping the hub now could wait for that handler for ever (a bbolt read transaction it holds): leave
			// the bubble; synctest reports the blocked goroutines and the case is filed as a violation
			return
		}
		hr.stop()
		hr.wait()
		for _, p := range hr.panics {
			violations = append(violations, h.Violation{Key: "C14:panic:" + p, What: "panic in a sequential history: " + p, Replay: map[string]any{"family": "hub", "case": cs}})
		}
	}
	func() {
		defer func() {
			if p := recover(); p != nil {
				msg := fmt.Sprint(p)
				if !strings.Contains(msg, "deadlock") {
					panic(p)
				}
				buf := make([]byte, 1<<16)
				buf = buf[:runtime.Stack(buf, true)]
				where := ""
				for _, blk := range strings.Split(string(buf), "\n\n") {
					if strings.Contains(blk, "synctest") && strings.Contains(blk, "dunglas/mercure.") {
						ls := strings.Split(blk, "\n")
						for _, l := range ls {
							if strings.HasPrefix(l, "github.com/dunglas/mercure.") {
								where += strings.SplitN(l, "(", 2)[0] + " <- "
							}
						}
						where += "; "
					}
				}
				stuck = msg + ": " + where
			}
		}()
		synctest.Run(bubble)
	}()
	ans := c.Driver.Ask(lines)
	for i := range lines {
		if impl[i] == "" {
			continue
		}
		r.Evaluations++
		if ans[i] != impl[i] {
			m, g := clipDiff(ans[i], impl[i])
			r.Disagree(h.Disagreement{Class: "hub." + strings.SplitN(lines[i], "\t", 2)[0], Case: cs, Model: m, Impl: g, At: i, Ops: clipAll(lines[max(0, i-3) : i+1])})

			break
		}
	}
	for _, v := range violations {
		r.Violate(v)
	}
}

func clip(s string) string {
	if len(s) > 1500 {
		return s[:1500] + "…"
	}

	return s
}

// clipDiff keeps a window around the first difference of two long answers.
func clipDiff(a, b string) (string, string) {
	if len(a) <= 1500 && len(b) <= 1500 {
		return a, b
	}
	k := 0
	for k < len(a) && k < len(b) && a[k] == b[k] {
		k++
	}
	win := func(s string) string {
		lo, hi := max(0, k-700), min(len(s), k+700)

		return fmt.Sprintf("…[%d]%s…", lo, s[lo:hi])
	}

	return win(a), win(b)
}

func clipAll(ss []string) []string {
	out := make([]string, len(ss))
	for i, s := range ss {
		out[i] = clip(s)
	}

	return out
}

func showAPIResp(w *fakeRW) string {
	st := w.Status()
	if st != 200 {
		last := ""
		if st == 404 {
			last = w.Header().Get("ETag")
		}

		return fmt.Sprintf("%d last=%s docs=", st, h.Hex(last))
	}
	type doc struct {
		ID         string      `json:"id"`
		Subscriber string      `json:"subscriber"`
		Topic      string      `json:"topic"`
		Active     bool        `json:"active"`
		Payload    interface{} `json:"payload"`
		Last       string      `json:"lastEventID"`
	}
	var coll struct {
		doc
		Subscriptions []doc  `json:"subscriptions"`
		Type          string `json:"type"`
	}
	if err := json.Unmarshal([]byte(w.Body()), &coll); err != nil {
		return "200 unparsable " + w.Body()
	}
	docs := coll.Subscriptions
	if coll.Type == "Subscription" {
		docs = []doc{coll.doc}
	}
	var p []string
	for _, d := range docs {
		p = append(p, fmt.Sprintf("%s,%s,%s,%s,%s", h.Hex(d.ID), h.Hex(d.Subscriber), h.Hex(d.Topic), h.B(d.Active), h.Hex(jws.PayloadJSON(d.Payload))))
	}
	last := coll.Last
	if w.Header().Get("ETag") != last {
		last = "ETAG-MISMATCH:" + w.Header().Get("ETag") + "/" + last
	}

	return fmt.Sprintf("200 last=%s docs=%s", h.Hex(last), strings.Join(p, ";"))
}

// hubExtraTopics: subscription ids (topics of subscription events) and API URLs for the oracle table.
func hubExtraTopics(cs hubCase) []string {
	var out []string
	n := 0
	for _, op := range cs.Ops {
		n++
		if op.Op == "pub" {
			n += op.Repeat
		}
	}
	for _, op := range cs.Ops {
		if op.Op == "sub" {
			for _, t := range op.Topics {
				for i := 0; i < n+len(cs.Ops)*4+4; i++ {
					sid := fmt.Sprintf("urn:uuid:00000000-0000-4000-8000-%012x", i)
					out = append(out, "/.well-known/mercure/subscriptions/"+url.QueryEscape(t)+"/"+url.QueryEscape(sid))
					out = append(out, "/.well-known/mercure/subscriptions/"+strings.ReplaceAll(url.QueryEscape(t), "+", "%20")+"/"+url.QueryEscape(sid))
				}
			}
		}
		if op.Op == "api.list" || op.Op == "api.get" {
			out = append(out, hubURL+"/subscriptions")
			out = append(out, hubURL+"/subscriptions/"+url.QueryEscape(op.Topic))
			for i := 0; i < n+len(cs.Ops)*4+4; i++ {
				sid := fmt.Sprintf("urn:uuid:00000000-0000-4000-8000-%012x", i)
				out = append(out, hubURL+"/subscriptions/"+url.QueryEscape(op.Topic)+"/"+url.QueryEscape(sid))
			}
			out = append(out, hubURL+"/subscriptions/"+url.QueryEscape(op.Topic)+"/"+url.QueryEscape("urn:uuid:unknown"))
		}
	}

	return out
}

func sortedKeys(m map[string]bool) []string {
	var ks []string
	for k := range m {
		ks = append(ks, k)
	}
	sort.Strings(ks)

	return ks
}
