import Mercure.Lemmas.Hub
/-
  C15 — Closing the hub ends every stream and rejects later operations (operation-level part;
  the interleavings of an in-flight close are in the region-level model).
-/
namespace Mercure.C15
open Mercure

variable (M : Str → Str → Bool) (tokP tokS : Str → Option Claims)

/-- Every subscriber registered before the close has its stream ended. -/
theorem close_ends_registered (st : HubSt) (ho : st.closed = false) :
    ∀ c ∈ (st.close M).conns, c.label ∈ st.index → c.closedOut = true :=
  Mercure.close_ends_registered M st ho

/-- Closing twice is harmless. -/
theorem close_idempotent (st : HubSt) : (st.close M).close M = st.close M :=
  Mercure.close_idempotent M st

/-- A publish attempted after close is rejected and has no effect at all. -/
theorem after_close_publish_rejected (st : HubSt) (r : PubReq) :
    ((st.close M).publish M tokP r).1 = st.close M ∧ ((st.close M).publish M tokP r).2.status ≠ 200 :=
  Mercure.closed_publish_noop M tokP (st.close M) (Mercure.close_closed M st) r

/-- A subscribe attempted after close is rejected and registers nothing. -/
theorem after_close_subscribe_rejected (st : HubSt) (label : Nat) (r : SubReq) :
    let res := (st.close M).connect M tokS label r
    res.2.status ≠ 200 ∧ res.1.conns = (st.close M).conns ∧ res.1.index = (st.close M).index ∧
    res.1.db = (st.close M).db ∧ res.1.accepted = (st.close M).accepted ∧ res.1.closed = true :=
  Mercure.closed_connect_rejected M tokS (st.close M) (Mercure.close_closed M st) label r

/-- The history file can be reopened at once: same content, and the hub reports the id of the last
    stored update as its last event id. -/
theorem reopen_keeps_history (st : HubSt) (hk : st.kind = .bolt) :
    (st.restart M).db = st.db ∧ (st.restart M).seq = st.seq ∧ (st.restart M).closed = false ∧
    (st.restart M).lastEventID = (match st.db.getLast? with | some e => e.2.id | none => earliest) :=
  Mercure.restart_keeps_history M st hk

/-- …and (no retention) it contains every acknowledged update: the stored history is exactly the
    sequence of accepted updates, after any history including closes and restarts. -/
theorem history_is_accepted (cfg : HubCfg) (cap : Nat) (ops : List HubOp) :
    let st := HubSt.reach M tokP tokS cfg .bolt 0 cap ops
    st.db.map (·.2) = st.accepted :=
  Mercure.reach_db_accepted M tokP tokS cfg cap ops

end Mercure.C15

#print axioms Mercure.C15.close_ends_registered
#print axioms Mercure.C15.close_idempotent
#print axioms Mercure.C15.after_close_publish_rejected
#print axioms Mercure.C15.after_close_subscribe_rejected
#print axioms Mercure.C15.reopen_keeps_history
#print axioms Mercure.C15.history_is_accepted
