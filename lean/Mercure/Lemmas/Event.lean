import Mercure.Model.Event
/-
  Lemmas for C12 (SSE serialisation round-trip).
-/
namespace Mercure

/-! ### line splitting -/

def lines (s : Str) : List Str := (splitLines s).1

theorem splitLinesAux_acc (s cur : Str) (acc acc' : List Str) :
    (splitLinesAux s cur (acc ++ acc')).1 = acc'.reverse ++ (splitLinesAux s cur acc).1 := by
  induction s, cur, acc using splitLinesAux.induct generalizing acc' with
  | case1 cur acc => simp [splitLinesAux]
  | case2 cs cur acc ih => simpa [splitLinesAux] using ih acc'
  | case3 cs cur acc h ih =>
    rw [splitLinesAux, splitLinesAux]
    · simpa using ih acc'
    all_goals assumption
  | case4 cs cur acc ih => simpa [splitLinesAux] using ih acc'
  | case5 c cs cur acc h1 h2 h3 ih =>
    rw [splitLinesAux, splitLinesAux]
    · simpa using ih acc'
    all_goals assumption

theorem splitLinesAux_cons_other (c : Char) (cs cur : Str) (acc : List Str)
    (h1 : c ≠ '\r') (h2 : c ≠ '\n') :
    splitLinesAux (c :: cs) cur acc = splitLinesAux cs (c :: cur) acc := by
  rw [splitLinesAux]
  · intro cs1 h; exact absurd h h1
  · exact h1
  · exact h2

theorem splitLinesAux_line (line rest cur : Str) (acc : List Str) (h : noLineBreak line) :
    splitLinesAux (line ++ '\n' :: rest) cur acc
      = splitLinesAux rest [] ((cur.reverse ++ line) :: acc) := by
  induction line generalizing cur with
  | nil => simp [splitLinesAux]
  | cons c cs ih =>
    have hc : c ≠ '\r' ∧ c ≠ '\n' := by
      constructor
      · intro hc; exact h.1 (by simp [hc])
      · intro hc; exact h.2 (by simp [hc])
    have hcs : noLineBreak cs := by
      constructor
      · intro hm; exact h.1 (by simp [hm])
      · intro hm; exact h.2 (by simp [hm])
    rw [List.cons_append, splitLinesAux_cons_other _ _ _ _ hc.1 hc.2, ih _ hcs]
    simp

theorem lines_line (line rest : Str) (h : noLineBreak line) :
    lines (line ++ '\n' :: rest) = line :: lines rest := by
  unfold lines splitLines
  rw [splitLinesAux_line _ _ _ _ h]
  have := splitLinesAux_acc rest [] [] [line]
  simpa using this

theorem lines_nil : lines [] = [] := rfl

/-! processLine on the lines the hub writes -/
theorem processLine_data (st : PSt) (v : Str) :
    processLine st ("data: ".toList ++ v) = { st with dataBuf := st.dataBuf ++ v ++ ['\n'] } := rfl
theorem processLine_id (st : PSt) (v : Str) :
    processLine st ("id: ".toList ++ v) = { st with lastId := v } := rfl
theorem processLine_event (st : PSt) (v : Str) :
    processLine st ("event: ".toList ++ v) = { st with typeBuf := v } := rfl
theorem processLine_retry (st : PSt) (v : Str) (h : allDigits v = true) :
    processLine st ("retry: ".toList ++ v) = { st with retry := some (digitsToNat v) } := by
  have : processLine st ("retry: ".toList ++ v)
      = if allDigits v then { st with retry := some (digitsToNat v) } else st := rfl
  rw [this, if_pos h]
theorem processLine_comment (st : PSt) : processLine st [':'] = st := rfl
theorem processLine_blank (st : PSt) (h : st.dataBuf ≠ []) : processLine st [] =
   { st with dataBuf := [], typeBuf := [], retry := none,
                out := { id := st.lastId, type := st.typeBuf, data := st.dataBuf.dropLast, retry := st.retry } :: st.out } := by
  have : processLine st [] = if st.dataBuf == [] then { st with dataBuf := [], typeBuf := [], retry := none } else
     { st with dataBuf := [], typeBuf := [], retry := none,
                out := { id := st.lastId, type := st.typeBuf, data := st.dataBuf.dropLast, retry := st.retry } :: st.out } := rfl
  rw [this, if_neg]
  simpa using h

theorem noLineBreak_append {a b : Str} (ha : noLineBreak a) (hb : noLineBreak b) :
    noLineBreak (a ++ b) := by
  unfold noLineBreak at *
  simp [ha.1, ha.2, hb.1, hb.2]

theorem noLineBreak_nil : noLineBreak [] := by simp [noLineBreak]

theorem noLineBreak_data : noLineBreak "data: ".toList := by
  unfold noLineBreak; decide

theorem dataSep_eq : dataSep = '\n' :: "data: ".toList := rfl

def dispatched (st : PSt) (d : Str) : PSt :=
  { st with dataBuf := [], typeBuf := [], retry := none,
            out := { id := st.lastId, type := st.typeBuf, data := d, retry := st.retry } :: st.out }

/-- one complete data line -/
theorem fold_data_line (pre t : Str) (st : PSt) (hpre : noLineBreak pre) :
    (lines ("data: ".toList ++ (pre ++ '\n' :: t))).foldl processLine st
      = (lines t).foldl processLine { st with dataBuf := st.dataBuf ++ pre ++ ['\n'] } := by
  rw [← List.append_assoc, lines_line _ _ (noLineBreak_append noLineBreak_data hpre),
    List.foldl_cons, processLine_data]

theorem replaceEOL_cons_other (c : Char) (cs : Str) (h1 : c ≠ '\r') (h2 : c ≠ '\n') :
    replaceEOL (c :: cs) = c :: replaceEOL cs := by
  rw [replaceEOL]
  · intro cs1 h; exact absurd h h1
  · exact h1
  · exact h2

theorem normaliseEOL_cons_other (c : Char) (cs : Str) (h1 : c ≠ '\r') :
    normaliseEOL (c :: cs) = c :: normaliseEOL cs := by
  rw [normaliseEOL]
  · intro cs1 h; exact absurd h h1
  · exact h1

theorem fold_data (d pre rest : Str) (st : PSt) (hpre : noLineBreak pre) :
    (lines ("data: ".toList ++ (pre ++ (replaceEOL d ++ '\n' :: '\n' :: rest)))).foldl processLine st
      = (lines rest).foldl processLine (dispatched st (st.dataBuf ++ pre ++ normaliseEOL d)) := by
  induction d using replaceEOL.induct generalizing pre st with
  | case1 =>
    rw [replaceEOL, List.nil_append, fold_data_line _ _ _ hpre]
    have := lines_line [] rest noLineBreak_nil
    rw [List.nil_append] at this
    rw [this, List.foldl_cons, processLine_blank _ (by simp)]
    simp [dispatched, normaliseEOL]
  | case2 cs ih =>
    rw [replaceEOL]
    simp only [dataSep_eq, List.cons_append, List.append_assoc]
    rw [fold_data_line _ _ _ hpre]
    have := ih [] { st with dataBuf := st.dataBuf ++ pre ++ ['\n'] } noLineBreak_nil
    rw [List.nil_append] at this
    rw [this]
    simp [dispatched, normaliseEOL]
  | case3 cs h ih =>
    rw [replaceEOL, normaliseEOL]
    rotate_left
    · exact h
    · exact h
    simp only [dataSep_eq, List.cons_append, List.append_assoc]
    rw [fold_data_line _ _ _ hpre]
    have := ih [] { st with dataBuf := st.dataBuf ++ pre ++ ['\n'] } noLineBreak_nil
    rw [List.nil_append] at this
    rw [this]
    simp [dispatched]
  | case4 cs ih =>
    rw [replaceEOL, normaliseEOL_cons_other _ _ (by decide)]
    simp only [dataSep_eq, List.cons_append, List.append_assoc]
    rw [fold_data_line _ _ _ hpre]
    have := ih [] { st with dataBuf := st.dataBuf ++ pre ++ ['\n'] } noLineBreak_nil
    rw [List.nil_append] at this
    rw [this]
    simp [dispatched]
  | case5 c cs h1 h2 h3 ih =>
    rw [replaceEOL_cons_other _ _ h2 h3, normaliseEOL_cons_other _ _ h2]
    have hpre' : noLineBreak (pre ++ [c]) := by
      refine noLineBreak_append hpre ?_
      unfold noLineBreak
      simp only [List.mem_singleton]
      exact ⟨fun h => h2 h.symm, fun h => h3 h.symm⟩
    have := ih (pre ++ [c]) st hpre'
    simp only [List.append_assoc, List.cons_append, List.nil_append] at this ⊢
    exact this

theorem noLineBreak_event : noLineBreak "event: ".toList := by unfold noLineBreak; decide
theorem noLineBreak_id : noLineBreak "id: ".toList := by unfold noLineBreak; decide
theorem noLineBreak_retry : noLineBreak "retry: ".toList := by unfold noLineBreak; decide

theorem fold_event_line (v t : Str) (st : PSt) (hv : noLineBreak v) :
    (lines ("event: ".toList ++ (v ++ '\n' :: t))).foldl processLine st
      = (lines t).foldl processLine { st with typeBuf := v } := by
  rw [← List.append_assoc, lines_line _ _ (noLineBreak_append noLineBreak_event hv),
    List.foldl_cons, processLine_event]

theorem fold_id_line (v t : Str) (st : PSt) (hv : noLineBreak v) :
    (lines ("id: ".toList ++ (v ++ '\n' :: t))).foldl processLine st
      = (lines t).foldl processLine { st with lastId := v } := by
  rw [← List.append_assoc, lines_line _ _ (noLineBreak_append noLineBreak_id hv),
    List.foldl_cons, processLine_id]

theorem allDigits_toDigits (n : Nat) : allDigits (Nat.toDigits 10 n) = true := by
  unfold allDigits
  simp only [Bool.and_eq_true, bne_iff_ne, ne_eq, List.all_eq_true]
  exact ⟨Nat.toDigits_ne_nil, fun c hc => Nat.isDigit_of_mem_toDigits (by decide) (by decide) hc⟩

theorem noLineBreak_toDigits (n : Nat) : noLineBreak (Nat.toDigits 10 n) := by
  constructor <;> intro h <;>
    exact absurd (Nat.isDigit_of_mem_toDigits (by decide) (by decide) h) (by decide)

theorem fold_retry_line (n : Nat) (t : Str) (st : PSt) :
    (lines ("retry: ".toList ++ (Nat.toDigits 10 n ++ '\n' :: t))).foldl processLine st
      = (lines t).foldl processLine { st with retry := some n } := by
  rw [← List.append_assoc,
    lines_line _ _ (noLineBreak_append noLineBreak_retry (noLineBreak_toDigits n)),
    List.foldl_cons, processLine_retry _ _ (allDigits_toDigits n)]
  simp [digitsToNat, Nat.ofDigitChars_ten_toDigits]

theorem fold_comment (t : Str) (st : PSt) :
    (lines (':' :: '\n' :: t)).foldl processLine st = (lines t).foldl processLine st := by
  have : noLineBreak [':'] := by unfold noLineBreak; decide
  have := lines_line [':'] t this
  simp only [List.cons_append, List.nil_append] at this
  rw [this, List.foldl_cons, processLine_comment]

theorem encode_append (e : Event) (rest : Str) :
    e.encode ++ rest =
      let y := "id: ".toList ++ (e.id ++ '\n' :: ("data: ".toList ++ ([] ++ (replaceEOL e.data ++ '\n' :: '\n' :: rest))))
      let x := if e.retry != 0 then "retry: ".toList ++ (Nat.toDigits 10 e.retry ++ '\n' :: y) else y
      if e.type != [] then "event: ".toList ++ (e.type ++ '\n' :: x) else x := by
  have hd : "\ndata: ".toList = '\n' :: "data: ".toList := rfl
  unfold Event.encode
  split <;> split <;>
    simp only [List.append_assoc, List.cons_append, List.nil_append, hd]

theorem fold_event (e : Event) (hid : noLineBreak e.id) (hty : noLineBreak e.type)
    (st : PSt) (h1 : st.dataBuf = []) (h2 : st.typeBuf = []) (h3 : st.retry = none) (rest : Str) :
    (lines (e.encode ++ rest)).foldl processLine st
      = (lines rest).foldl processLine
          { dataBuf := [], typeBuf := [], lastId := e.id, retry := none, out := e.expected :: st.out } := by
  obtain ⟨db, tb, lid, rt, out⟩ := st
  simp only at h1 h2 h3
  subst h1 h2 h3
  rw [encode_append]
  by_cases ht : e.type = [] <;> by_cases hr : e.retry = 0 <;>
    simp only [ht, hr, bne_self_eq_false, Bool.false_eq_true, if_false, if_true, bne_iff_ne, ne_eq,
      not_false_eq_true] <;>
    simp only [fold_event_line _ _ _ hty, fold_retry_line, fold_id_line _ _ _ hid,
      fold_data _ _ _ _ noLineBreak_nil] <;>
    simp [dispatched, Event.expected, ht, hr]

theorem fold_stream (cs : List Chunk)
    (h : ∀ e ∈ Chunk.events cs, noLineBreak e.id ∧ noLineBreak e.type)
    (st : PSt) (h1 : st.dataBuf = []) (h2 : st.typeBuf = []) (h3 : st.retry = none) :
    ((lines (cs.flatMap Chunk.bytes)).foldl processLine st).out
      = ((Chunk.events cs).map Event.expected).reverse ++ st.out := by
  induction cs generalizing st with
  | nil => simp [Chunk.events, lines_nil]
  | cons c cs ih =>
    cases c with
    | comment =>
      rw [List.flatMap_cons]
      simp only [Chunk.bytes, Chunk.events, List.cons_append, List.nil_append] at h ⊢
      rw [fold_comment, ih h st h1 h2 h3]
    | event e =>
      rw [List.flatMap_cons]
      simp only [Chunk.bytes, Chunk.events] at h ⊢
      have he := h e (by simp)
      rw [fold_event e he.1 he.2 st h1 h2 h3, ih (fun e' he' => h e' (by simp [he'])) _ rfl rfl rfl]
      simp

/-- `parseSSE` in terms of `lines` and a final state. -/
theorem parseSSE_of_fold (s : Str) (evs : List ParsedEvent)
    (h : ((lines s).foldl processLine {}).out = evs.reverse) : parseSSE s = evs := by
  unfold parseSSE
  change (List.foldl processLine {} (lines s)).out.reverse = _
  rw [h, List.reverse_reverse]

/-- One event, any payload: the reference parser decodes the serialisation to exactly one event
    carrying the published id, type, retry and LF-normalised data. -/
theorem parse_encode (e : Event) (hid : noLineBreak e.id) (hty : noLineBreak e.type) :
    parseSSE e.encode = [e.expected] := by
  have := fold_stream [.event e] (by
    intro e' he'
    simp only [Chunk.events, List.mem_singleton] at he'
    subst he'
    exact ⟨hid, hty⟩) {} rfl rfl rfl
  apply parseSSE_of_fold
  simpa [Chunk.bytes, Chunk.events] using this

/-- The whole stream: comments and events in any order decode to exactly the published events. -/
theorem parse_stream (cs : List Chunk)
    (h : ∀ e ∈ Chunk.events cs, noLineBreak e.id ∧ noLineBreak e.type) :
    parseSSE (cs.flatMap Chunk.bytes) = (Chunk.events cs).map Event.expected := by
  apply parseSSE_of_fold
  rw [fold_stream cs h {} rfl rfl rfl]
  simp

end Mercure
