package main

import (
	"fmt"
	"net/url"
	"strconv"
	"strings"

	"verifharness/pkg/gen"
	"verifharness/pkg/h"

	"github.com/dunglas/mercure"
)

func init() {
	register("sse", "C12", runSSE)
	register("hubsse", "C12", func(c *h.Ctx, r *h.Report) { runHubFocus(c, r, "payload") })
}

var payloadAtoms = []string{"", "a", "line", "\n", "\r", "\r\n", "\n\n", "data: x", "id: 7", "event: e", "retry: 1", ":", ": c", " ", "  lead", "é", "日本", "😀", " ", " ", "\u0085", "\t", "{\"k\":1}", "a:b", "\r\r\n", "x\n"}

func genPayload(rr *h.Rand) string {
	var b strings.Builder
	for n := rr.Intn(7); n > 0; n-- {
		b.WriteString(h.Pick(rr, payloadAtoms))
	}

	return b.String()
}

func genLineFree(rr *h.Rand) string {
	var b strings.Builder
	for n := rr.Intn(4); n > 0; n-- {
		b.WriteString(h.Pick(rr, []string{"a", "urn:x", " ", ":", "é", "id", "data: ", "😀", " ", "%", "a b"}))
	}

	return b.String()
}

func normEOL(s string) string {
	s = strings.ReplaceAll(s, "\r\n", "\n")

	return strings.ReplaceAll(s, "\r", "\n")
}

func runSSE(c *h.Ctx, r *h.Report) {
	r.Rule = "events built from a payload grammar (empty, LF / CR / CRLF mixes, trailing newlines, lines that look like SSE fields or comments, leading spaces, U+2028/2029/0085, astral scalars), ids and types free of line breaks (with ':' and leading spaces), retry in {0, small, 2^64-1}: Event.String of /repo vs the Lean Event.encode; the bytes parsed by the harness's own W3C parser must give exactly one event equal to (id, type, retry, LF-normalised data) — the property's oracle — and the Lean reference parser must agree. Non-trivial = payload containing a line break or a field look-alike; distinct by content."
	n := c.Scale(4000, 60000)
	type ev struct {
		e mercure.Event
	}
	var evs []mercure.Event
	var lines []string
	for i := 0; i < n; i++ {
		rr := c.Rand.Fork()
		e := mercure.Event{Data: genPayload(rr), ID: genLineFree(rr), Type: genLineFree(rr)}
		switch rr.Intn(5) {
		case 0:
			e.Retry = uint64(1 + rr.Intn(100000))
		case 1:
			e.Retry = ^uint64(0)
		}
		evs = append(evs, e)
		lines = append(lines, h.Line("sse.enc", h.Hex(e.Data), h.Hex(e.ID), h.Hex(e.Type), strconv.FormatUint(e.Retry, 10)))
	}
	ans := c.Driver.Ask(lines)
	var plines []string
	for i, e := range evs {
		r.Evaluations++
		impl := e.String()
		if h.UnHex(ans[i]) != impl {
			r.Disagree(h.Disagreement{Class: "C12.Event.encode", Case: e, Model: ans[i], Impl: h.Hex(impl), At: i})
		}
		got := sseParse(impl)
		wantRetry := ""
		if e.Retry != 0 {
			wantRetry = strconv.FormatUint(e.Retry, 10)
		}
		ok := len(got) == 1 && got[0].ID == e.ID && got[0].Type == e.Type && got[0].Data == normEOL(e.Data) && got[0].Retry == wantRetry && onlyCommentsAndEvents(impl)
		if !ok {
			r.Violate(h.Violation{Key: "C12:event-does-not-decode-to-what-was-published",
				What:   fmt.Sprintf("Event%+q serialises to %q which a conformant parser decodes to %+q", e, impl, got),
				Replay: map[string]any{"family": "sse", "event": e}})
		}
		plines = append(plines, h.Line("sse.parse", h.Hex(":\n"+impl+":\n")))
		if strings.ContainsAny(e.Data, "\r\n") || strings.Contains(e.Data, ":") {
			r.Nontrivial(fmt.Sprintf("%q", e))
		}
		if strings.Contains(e.Data, "\r") {
			r.Count("payload:has-CR")
		}
		if strings.Contains(e.Data, "\n") {
			r.Count("payload:has-LF")
		}
		if e.Data == "" {
			r.Count("payload:empty")
		}
		if i%400 == 0 {
			r.Sample(map[string]any{"event": e, "bytes": impl})
		}
	}
	ans = c.Driver.Ask(plines)
	for i, e := range evs {
		got := sseParse(":\n" + e.String() + ":\n")
		var p []string
		for _, g := range got {
			rt := g.Retry
			if rt == "" {
				rt = "-"
			}
			p = append(p, fmt.Sprintf("%s/%s/%s/%s", h.Hex(g.ID), h.Hex(g.Type), rt, h.Hex(g.Data)))
		}
		if strings.Join(p, ";") != ans[i] {
			r.Disagree(h.Disagreement{Class: "C12.parseSSE-vs-harness-parser", Case: e, Model: ans[i], Impl: strings.Join(p, ";"), At: i})
		}
	}
}

// runHubFocus: hub histories with a generator focused on one concern.
func runHubFocus(c *h.Ctx, r *h.Report, focus string) {
	o := gen.NewOracle()
	g := installCountingUUID()
	switch focus {
	case "payload":
		r.Rule = "end to end: a live '*' subscriber, then 5-25 publishes with payloads / ids / types from the C12 grammar through POST form encoding, then a subscriber replaying from 'earliest' (Bolt: re-serialised through JSON), on both transports; every stream is parsed by the harness's own W3C parser and compared with the model (one event per update, decoding to what was published; ids echoed; generated ids are urn:uuid). Non-trivial = case with a payload containing CR or LF; distinct by content."
	}
	n := c.Scale(150, 3000)
	for i := 0; i < n; i++ {
		rr := c.Rand.Fork()
		cs := hubCase{ExactStream: true, Cfg: hubCfg{PubAlg: "HS256", SubAlg: "HS256", Anonymous: true, Bolt: i%2 == 0}}
		cs.Ops = append(cs.Ops, hubOp{Op: "sub", Label: 0, Topics: []string{"*"}})
		np := 5 + rr.Intn(21)
		crlf := false
		prevID := ""
		for k := 0; k < np; k++ {
			form := url.Values{"topic": {"t"}}
			d := genPayload(rr)
			crlf = crlf || strings.ContainsAny(d, "\r\n")
			form.Set("data", d)
			if rr.Chance(3, 4) {
				form.Set("id", fmt.Sprintf("i%d-%s", k, genLineFree(rr)))
				if prevID != "" && rr.Chance(1, 4) {
					form.Set("id", prevID) // same id as the previous update, different content
				}
				prevID = form.Get("id")
			}
			if rr.Bool() {
				form.Set("type", genLineFree(rr))
			}
			if rr.Chance(1, 4) {
				form.Set("retry", h.Pick(rr, []string{"1", "2500", "18446744073709551615"}))
			}
			cs.Ops = append(cs.Ops, hubOp{Op: "pub", Form: form, Claims: claimsJSON("publish", []string{"*"}, "")})
		}
		cs.Ops = append(cs.Ops, hubOp{Op: "sub", Label: 1, Topics: []string{"*"}, LeidQ: "earliest"})
		runHubCase(c, r, o, cs, g)
		if crlf {
			r.Nontrivial(fmt.Sprint(cs))
		}
		r.Sample(cs.Ops[1])
	}
}
