import Mercure.Model.Subscriber
import Mercure.Model.Event
/-
  Mercure.Model.Publish — publish.go (`PublishHandler`) and the hub options it consults (hub.go).
-/
namespace Mercure

structure HubCfg where
  pubAlg         : Str := "HS256".toList
  subKey         : Bool := true              -- subscriberJWTKeyFunc != nil
  subAlg         : Str := "HS256".toList
  anonymous      : Bool := false
  publishOrigins : List Str := []
  compat7        : Bool := false             -- isBackwardCompatiblyEnabledWith(7)
  subscriptions  : Bool := false
  minHeader      : Nat := 48
  minQuery       : Nat := 41
  spacePlus      : Bool := true              -- ids escaped with url.QueryEscape (space ↦ '+')
  deriving Repr

/-- An update as accepted by the hub. `id = []` means "none supplied": the transport assigns a fresh one. -/
structure Update where
  id     : Str
  topics : List Str
  priv   : Bool
  data   : Str
  type   : Str
  retry  : Nat
  deriving DecidableEq, Repr

structure PubReq where
  auth     : AuthReq
  formOk   : Bool          -- r.ParseForm() == nil
  topics   : List Str      -- r.PostForm["topic"]
  retryStr : Str           -- r.PostForm.Get("retry")
  priv     : Bool          -- len(r.PostForm["private"]) != 0
  data     : Str
  id       : Str
  type     : Str
  deriving Repr

/-- strconv.ParseUint(s, 10, 64): decimal digits only, non-empty, < 2^64. -/
def parseUint64 (s : Str) : Option Nat :=
  if s != [] && s.all Char.isDigit then
    let n := Nat.ofDigitChars 10 s 0
    if n < 2 ^ 64 then some n else none
  else none

inductive PubOut where
  | refused (status : Nat) (body : Str)
  | accepted (u : Update)
  deriving Repr

def unauthorizedBody : Str := "Unauthorized\n".toList
def badRequestBody : Str := "Bad Request\n".toList

/-- `PublishHandler` (publish.go:14-88) up to the call of `transport.Dispatch`. `M` is the selector
    relation (the store; = matchSpec by C11), `tok` validates a compact token under the publisher key. -/
def publish (cfg : HubCfg) (M : Str → Str → Bool) (tok : Str → Option Claims) (r : PubReq) : PubOut :=
  match authorize cfg.minHeader cfg.minQuery tok r.auth cfg.publishOrigins with
  | .error _ => .refused 401 unauthorizedBody
  | .ok none => .refused 401 unauthorizedBody
  | .ok (some c) =>
    match c.mercure.publish with
    | none => .refused 401 unauthorizedBody
    | some ps =>
      if !r.formOk then .refused 400 badRequestBody else
      if r.topics == [] then .refused 400 "Missing \"topic\" parameter\n".toList else
      let retryE : Option Nat := if r.retryStr == [] then some 0 else parseUint64 r.retryStr
      match retryE with
      | none => .refused 400 "Invalid \"retry\" parameter\n".toList
      | some retry =>
        if !(canDispatch M r.topics ps) && (r.priv || !cfg.compat7) then .refused 401 unauthorizedBody
        else .accepted { id := r.id, topics := r.topics, priv := r.priv, data := r.data, type := r.type, retry := retry }

end Mercure
