import Mercure.Lemmas.Hub
/-
  C20 — Metrics equal what actually happened (at every quiescent point of every history).
-/
namespace Mercure.C20
open Mercure

variable (M : Str → Str → Bool) (tokP tokS : Str → Option Claims)
variable (cfg : HubCfg) (kind : Kind) (size cap : Nat)

/-- The gauge is the number of open streams, the subscribers counter the number of streams ever
    accepted, the updates counter the number of publish requests answered with success. -/
theorem metrics_eq_what_happened (ops : List HubOp) :
    let st := HubSt.reach M tokP tokS cfg kind size cap ops
    st.metrics.gauge = st.openStreams ∧ st.metrics.total = st.conns.length ∧ st.metrics.updates = st.okPubs :=
  Mercure.reach_metrics M tokP tokS cfg kind size cap ops

/-- "Open streams" is what it says: the accepted connections whose shutdown has not completed. -/
theorem open_streams_are_unfinished_connections (ops : List HubOp) (hf : FreshLabels ops) :
    let st := HubSt.reach M tokP tokS cfg kind size cap ops
    st.openStreams = ((st.conns.filter (fun c => !c.done)).length : Int) :=
  Mercure.reach_open_streams M tokP tokS cfg kind size cap ops hf

/-- Rejected or failed publishes count for nothing (and change nothing at all). -/
theorem refused_publish_counts_nothing (st : HubSt) (r : PubReq)
    (h : (st.publish M tokP r).2.status ≠ 200) : (st.publish M tokP r).1 = st :=
  Mercure.publish_refused_noop M tokP st r h

/-- Rejected subscriptions count for nothing. -/
theorem refused_subscribe_counts_nothing (st : HubSt) (label : Nat) (r : SubReq)
    (h : (st.connect M tokS label r).2.status ≠ 200) :
    let st' := (st.connect M tokS label r).1
    st'.conns = st.conns ∧ st'.index = st.index ∧ st'.metrics = st.metrics ∧ st'.okPubs = st.okPubs ∧
    st'.openStreams = st.openStreams ∧ st'.db = st.db :=
  Mercure.connect_refused_noop M tokS st label r h

end Mercure.C20

#print axioms Mercure.C20.metrics_eq_what_happened
#print axioms Mercure.C20.open_streams_are_unfinished_connections
#print axioms Mercure.C20.refused_publish_counts_nothing
#print axioms Mercure.C20.refused_subscribe_counts_nothing
