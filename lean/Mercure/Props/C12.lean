import Mercure.Lemmas.BoltStore
import Mercure.Lemmas.Event
import Mercure.Generated.Facts
/-
  C12 — Every update is written as exactly one SSE event decoding to what was published.
-/
namespace Mercure.C12
open Mercure

/-- For any data payload (empty, multi-line, CR / CRLF line ends, text that looks like SSE fields)
    and any id / type free of line breaks, the bytes written form exactly one event that the
    reference parser (W3C REC-eventsource-20150203) decodes to the published id, type, retry and
    data with line ends normalised to LF. -/
theorem parse_encode (e : Event) (hid : noLineBreak e.id) (hty : noLineBreak e.type) :
    parseSSE e.encode = [e.expected] :=
  Mercure.parse_encode e hid hty

/-- The stream contains nothing but such events and ':' comments, and decodes to exactly the
    events written, in order. -/
theorem parse_stream (cs : List Chunk)
    (h : ∀ e ∈ Chunk.events cs, noLineBreak e.id ∧ noLineBreak e.type) :
    parseSSE (cs.flatMap Chunk.bytes) = (Chunk.events cs).map Event.expected :=
  Mercure.parse_stream cs h

/-- The serialiser modelled is the one in /repo: the replacer pairs (in priority order) and the
    three format strings of `Event.String` are regenerated from event.go on every run. -/
theorem repo_event_format :
    Facts.eventReplacer = ["\r\n".toList, "\ndata: ".toList, "\r".toList, "\ndata: ".toList, "\n".toList, "\ndata: ".toList]
    ∧ Facts.eventFormats = ["event: %s\n".toList, "retry: %d\n".toList, "id: %s\ndata: %s\n\n".toList] := by
  decide +kernel

/-! non-vacuity: a payload with every kind of line end and field look-alikes -/
example : parseSSE ({ data := "a\r\nid: x\r\rdata: y\n".toList, id := "urn:1".toList, type := "t:u".toList, retry := 30 } : Event).encode
    = [{ id := "urn:1".toList, type := "t:u".toList, data := "a\nid: x\n\ndata: y\n".toList, retry := some 30 }] := by
  decide +kernel

/-! ### the persistent transport: stored as JSON, replayed from JSON -/

/-- What the Bolt transport stores for an update (`json.Marshal(*update)`) decodes
    (`json.Unmarshal` in `dispatchHistory`) to exactly that update — every id, topic, type, payload
    (any scalar sequence: quotes, backslashes, control characters, `<>&`, U+2028/9, astral characters,
    text that looks like an escape) and every 64-bit retry. So a replayed event is the published one. -/
theorem stored_value_roundtrip (debug : Bool) (u : Update) (h : u.retry < 2 ^ 64) :
    Json.parseUpdate (Json.update debug u) = some (debug, u) :=
  Json.parseUpdate_update debug u h

/-- Two different updates are never stored as the same bytes. -/
theorem stored_value_injective (d d' : Bool) (u u' : Update) (h : u.retry < 2 ^ 64) (h' : u'.retry < 2 ^ 64)
    (e : Json.update d u = Json.update d' u') : d = d' ∧ u = u' :=
  Json.update_injective d d' u u' h h' e

/-- The stored text never contains a raw control character (it is valid JSON whatever the payload). -/
theorem stored_strings_have_no_raw_control (s : Str) : ∀ c ∈ Json.escape s, 32 ≤ c.toNat :=
  Json.escape_no_control s

/-- A whole replay: decoding the values of a history scan yields the stored updates themselves,
    in order (byte-level `scan` + `decodeAll` = the abstract `negotiate`). -/
theorem replayed_events_are_the_stored_ones (debug : Bool) (b : BoltStore.Bucket) (db : List (Nat × Update))
    (req : Str) (toSeq : Nat) (wf : BoltStore.WellFormed debug b db)
    (hr : ∀ e ∈ db, e.2.retry < 2 ^ 64) (hto : ∀ e ∈ db, e.1 ≤ toSeq) :
    BoltStore.decodeAll (BoltStore.scan (BoltStore.reqBytes req) toSeq b).2 = some (negotiate db req).2 :=
  (BoltStore.scan_refines BoltStore.rt_holds debug b db req toSeq wf hr hto).2

/-- The JSON shape modelled is the one in /repo: the exported fields of `Update` (with the embedded
    `Event` flattened), their Go types, no struct tag, no custom (un)marshaller — regenerated from
    update.go / event.go on every run — and bolt.go stores `json.Marshal(*update)` and reads it back
    with `json.Unmarshal`. -/
theorem repo_json_fields :
    Facts.updateJSONFields = ["Topics:[]string", "Private:bool", "Debug:bool", "Data:string", "ID:string", "Type:string", "Retry:uint64"]
    ∧ Facts.updateJSONNames = Json.fieldNames
    ∧ Facts.boltValueCodec = "encoding/json" := by
  decide +kernel

/-! non-vacuity: a payload with quotes, a backslash, controls, HTML-sensitive and astral characters -/
def sampleUpdate : Update :=
  { id := "i\"d".toList, topics := ["a<b".toList, [Char.ofNat 0, Char.ofNat 0x2028]], priv := true,
    data := "x\r\n\\u0041\ty😀".toList, type := [], retry := 18446744073709551615 }

example : Json.parseUpdate (Json.update false sampleUpdate) = some (false, sampleUpdate) := by
  decide +kernel

end Mercure.C12

#print axioms Mercure.C12.parse_encode
#print axioms Mercure.C12.parse_stream
#print axioms Mercure.C12.repo_event_format
#print axioms Mercure.C12.stored_value_roundtrip
#print axioms Mercure.C12.stored_value_injective
#print axioms Mercure.C12.stored_strings_have_no_raw_control
#print axioms Mercure.C12.replayed_events_are_the_stored_ones
#print axioms Mercure.C12.repo_json_fields
