import Mercure.Model.Config
import Mercure.Generated.Facts
import Mercure.Model.TransportCfg
/-
  C19 — Configuration is applied faithfully and fails closed.
  Over the model of the Caddy module (UnmarshalCaddyfile + Provision) and of the legacy viper options
  (ValidateConfig + NewHubFromViper), for every combination of directives / options and argument classes.
-/
namespace Mercure.C19
open Mercure.Config

/-! ### helpers -/

theorem ite_ok {α : Type} {p : Prop} [Decidable p] {x : Err} {t : Except Err α} {e : α}
    (h : (if p then Except.error x else t) = .ok e) : ¬ p ∧ t = .ok e := by
  by_cases hp : p
  · rw [if_pos hp] at h; cases h
  · rw [if_neg hp] at h; exact ⟨hp, h⟩

theorem not_ok_error {α : Type} {x : Except Err α} (h : ∀ e, x ≠ .ok e) : ∃ e, x = .error e := by
  cases x with
  | error e => exact ⟨e, rfl⟩
  | ok a => exact absurd rfl (h a)

theorem origins_ok {l₁ l₂ : List Origin}
    (h : ¬ ((!(l₁.all (·.valid)) || !(l₂.all (·.valid))) = true)) :
    (∀ o ∈ l₁, o.valid = true) ∧ (∀ o ∈ l₂, o.valid = true) := by
  simpa using h

theorem bnot_not {b : Bool} (h : ¬ (!b) = true) : b = true := by cases b <;> simp_all

theorem sub_ok {k : KeyClass} {b : Bool} (h : ¬ (k != .absent && !b) = true) (hk : k ≠ .absent) :
    b = true := by cases b <;> simp_all

/-- inversion of `provisionCaddy.go` -/
theorem go_ok (c : Caddy) (b : Bool) (e : Effective) (h : provisionCaddy.go c b = .ok e) :
    c.pubKey ≠ .absent ∧ ¬ (c.subKey = .absent ∧ c.anonymous = false) ∧
    keyfuncOk c.pubKey (match c.pubAlg with | some a => if a == [] then hs256 else a | none => hs256) = true ∧
    (c.subKey ≠ .absent → keyfuncOk c.subKey (match c.subAlg with | some a => if a == [] then hs256 else a | none => hs256) = true) ∧
    (∀ o ∈ c.publishOrigins, o.valid = true) ∧ (∀ o ∈ c.corsOrigins, o.valid = true) ∧
    e = { anonymous := c.anonymous, subscriptions := c.subscriptions,
          wt := c.wt.getD defaultWT, dt := c.dt.getD defaultDT, hb := c.hb.getD defaultHB,
          pubAlg := (match c.pubAlg with | some a => if a == [] then hs256 else a | none => hs256),
          subAlg := if c.subKey == .absent then none else some (match c.subAlg with | some a => if a == [] then hs256 else a | none => hs256),
          publishOrigins := c.publishOrigins.map (·.text), corsOrigins := c.corsOrigins.map (·.text),
          cookieName := (match c.cookieName with | some n => if n == [] then defaultCookie else n | none => defaultCookie),
          compat7 := b } := by
  unfold provisionCaddy.go at h
  dsimp only at h
  obtain ⟨h1, h⟩ := ite_ok h
  obtain ⟨h2, h⟩ := ite_ok h
  obtain ⟨h3, h⟩ := ite_ok h
  obtain ⟨h4, h⟩ := ite_ok h
  obtain ⟨h5, h⟩ := ite_ok h
  cases h
  obtain ⟨h5, h6⟩ := origins_ok h5
  refine ⟨?_, ?_, bnot_not h3, sub_ok h4, h5, h6, rfl⟩
  · simpa using h1
  · simpa using h2

/-- inversion of `provisionCaddy` -/
theorem caddy_ok (c : Caddy) (e : Effective) (h : provisionCaddy c = .ok e) :
    c.badArgs = false ∧ (c.compat = none ∨ c.compat = some 7) ∧
    provisionCaddy.go c (c.compat == some 7) = .ok e := by
  unfold provisionCaddy at h
  obtain ⟨hb, h⟩ := ite_ok h
  have hb : c.badArgs = false := by simpa using hb
  cases hc : c.compat with
  | none => rw [hc] at h; exact ⟨hb, .inl rfl, h⟩
  | some v =>
    rw [hc] at h
    obtain ⟨hv, h⟩ := ite_ok h
    have : v = 7 := by simpa using hv
    subst this
    exact ⟨hb, .inr rfl, h⟩

/-! ### Caddy module -/

/-- A configuration that lacks a publisher key is rejected at start-up. -/
theorem caddy_no_publisher_key_rejected (c : Caddy) (h : c.pubKey = .absent) :
    ∃ e, provisionCaddy c = .error e := by
  apply not_ok_error
  intro e he
  exact (go_ok _ _ _ (caddy_ok _ _ he).2.2).1 h

/-- …so is one that lacks a subscriber key without anonymous mode. -/
theorem caddy_no_subscriber_key_rejected (c : Caddy) (h : c.subKey = .absent) (ha : c.anonymous = false) :
    ∃ e, provisionCaddy c = .error e := by
  apply not_ok_error
  intro e he
  exact (go_ok _ _ _ (caddy_ok _ _ he).2.2).2.1 ⟨h, ha⟩

/-- Invalid origins, protocol versions other than 7 and malformed directives are rejected. -/
theorem caddy_invalid_rejected (c : Caddy)
    (h : c.badArgs = true ∨ (∃ v, c.compat = some v ∧ v ≠ 7) ∨
         (∃ o ∈ c.publishOrigins, o.valid = false) ∨ (∃ o ∈ c.corsOrigins, o.valid = false)) :
    ∃ e, provisionCaddy c = .error e := by
  apply not_ok_error
  intro e he
  obtain ⟨hb, hc, hg⟩ := caddy_ok _ _ he
  obtain ⟨_, _, _, _, hp, hco, _⟩ := go_ok _ _ _ hg
  rcases h with h | ⟨v, hv, hv7⟩ | ⟨o, ho, hov⟩ | ⟨o, ho, hov⟩
  · rw [hb] at h; cases h
  · rcases hc with hc | hc
    · rw [hc] at hv; cases hv
    · rw [hc] at hv; cases hv; exact hv7 rfl
  · rw [hp o ho] at hov; cases hov
  · rw [hco o ho] at hov; cases hov

/-- Whatever starts is exactly what was configured; omitted options take their defaults. -/
theorem caddy_effective (c : Caddy) (e : Effective) (h : provisionCaddy c = .ok e) :
    e.anonymous = c.anonymous ∧ e.subscriptions = c.subscriptions ∧
    e.wt = c.wt.getD defaultWT ∧ e.dt = c.dt.getD defaultDT ∧ e.hb = c.hb.getD defaultHB ∧
    e.publishOrigins = c.publishOrigins.map (·.text) ∧ e.corsOrigins = c.corsOrigins.map (·.text) ∧
    e.compat7 = (c.compat == some 7) ∧
    e.cookieName = (match c.cookieName with | some n => if n == [] then defaultCookie else n | none => defaultCookie) ∧
    e.pubAlg = (match c.pubAlg with | some a => if a == [] then hs256 else a | none => hs256) ∧
    e.subAlg = (if c.subKey == .absent then none
                else some (match c.subAlg with | some a => if a == [] then hs256 else a | none => hs256)) := by
  obtain ⟨_, _, hg⟩ := caddy_ok _ _ h
  obtain ⟨_, _, _, _, _, _, he⟩ := go_ok _ _ _ hg
  subst he
  exact ⟨rfl, rfl, rfl, rfl, rfl, rfl, rfl, rfl, rfl, rfl, rfl⟩

/-- Fail closed: a hub that starts has a usable publisher key and algorithm, a usable subscriber key
    unless anonymous subscribers are allowed, and only valid origins. -/
theorem caddy_fail_closed (c : Caddy) (e : Effective) (h : provisionCaddy c = .ok e) :
    c.pubKey ≠ .absent ∧ keyfuncOk c.pubKey e.pubAlg = true ∧
    (e.subAlg = none → e.anonymous = true) ∧
    (∀ a, e.subAlg = some a → keyfuncOk c.subKey a = true) ∧
    (∀ o ∈ c.publishOrigins, o.valid = true) ∧ (∀ o ∈ c.corsOrigins, o.valid = true) := by
  obtain ⟨_, _, hg⟩ := caddy_ok _ _ h
  obtain ⟨h1, h2, h3, h4, h5, h6, he⟩ := go_ok _ _ _ hg
  subst he
  refine ⟨h1, h3, ?_, ?_, h5, h6⟩
  · dsimp only
    intro hn
    by_cases hk : c.subKey = .absent
    · cases ha : c.anonymous with
      | true => rfl
      | false => exact absurd ⟨hk, ha⟩ h2
    · rw [if_neg (by simpa using hk)] at hn; cases hn
  · dsimp only
    intro a ha
    by_cases hk : c.subKey = .absent
    · rw [if_pos (by simpa using hk)] at ha; cases ha
    · rw [if_neg (by simpa using hk)] at ha
      cases ha
      exact h4 hk

/-- Omitted security options take their restrictive defaults. -/
theorem caddy_absent_is_restrictive (k k' : KeyClass) (e : Effective)
    (h : provisionCaddy { pubKey := k, subKey := k' } = .ok e) :
    e.anonymous = false ∧ e.subscriptions = false ∧ e.publishOrigins = [] ∧ e.corsOrigins = [] ∧
    e.compat7 = false ∧ e.cookieName = defaultCookie ∧ e.wt = defaultWT ∧ e.dt = defaultDT ∧ e.hb = defaultHB := by
  obtain ⟨_, _, hg⟩ := caddy_ok _ _ h
  obtain ⟨_, _, _, _, _, _, he⟩ := go_ok _ _ _ hg
  subst he
  exact ⟨rfl, rfl, rfl, rfl, rfl, rfl, rfl, rfl, rfl⟩

/-- Only the exact algorithm families are accepted, each with its own kind of key. -/
theorem keyfunc_families (k : KeyClass) (alg : Str) (h : keyfuncOk k alg = true) :
    (algFamily alg = .hmac) ∨ (algFamily alg = .rsa ∧ k = .rsaPem) ∨ (algFamily alg = .ec ∧ k = .ecPem) ∨
    (algFamily alg = .ed ∧ k = .edPem) := by
  unfold keyfuncOk at h
  cases hk : k <;> cases ha : algFamily alg <;> simp_all

/-! ### legacy options (for the code in /repo: both repairs in) -/

def repaired : LegacyFlags := ⟨true, true⟩

theorem firstKey_absent {a b : KeyClass} (h : (firstKey a b == .absent) = true) :
    a = .absent ∧ b = .absent := by
  unfold firstKey at h
  cases a <;> cases b <;> simp_all

theorem legacy_no_publisher_key_rejected (l : Legacy) (h : l.pubKey = .absent) (h' : l.jwtKey = .absent) :
    ∃ e, provisionLegacy repaired l = .error e := by
  apply not_ok_error
  intro e he
  unfold provisionLegacy at he
  obtain ⟨h1, -⟩ := ite_ok he
  simp [h, h'] at h1

theorem legacy_no_subscriber_key_rejected (l : Legacy) (h : l.subKey = .absent) (h' : l.jwtKey = .absent)
    (ha : l.anonymous = false) : ∃ e, provisionLegacy repaired l = .error e := by
  apply not_ok_error
  intro e he
  unfold provisionLegacy at he
  obtain ⟨-, he⟩ := ite_ok he
  obtain ⟨h2, -⟩ := ite_ok he
  simp [h, h', ha, repaired] at h2

theorem legacy_fail_closed (l : Legacy) (e : Effective) (h : provisionLegacy repaired l = .ok e) :
    (e.subAlg = none → e.anonymous = true) ∧ e.anonymous = l.anonymous ∧ e.subscriptions = l.subscriptions ∧
    keyfuncOk (firstKey l.pubKey l.jwtKey) e.pubAlg = true ∧
    (∀ o ∈ l.publishOrigins, o.valid = true) ∧ (∀ o ∈ l.corsOrigins, o.valid = true) ∧
    e.publishOrigins = l.publishOrigins.map (·.text) := by
  unfold provisionLegacy at h
  dsimp only at h
  obtain ⟨h1, h⟩ := ite_ok h
  obtain ⟨h2, h⟩ := ite_ok h
  obtain ⟨h3, h⟩ := ite_ok h
  obtain ⟨h4, h⟩ := ite_ok h
  obtain ⟨h5, h⟩ := ite_ok h
  cases h
  obtain ⟨h5, h6⟩ := origins_ok h5
  refine ⟨?_, rfl, rfl, bnot_not h3, h5, h6, rfl⟩
  dsimp only
  intro hn
  by_cases hk : (firstKey l.subKey l.jwtKey == .absent) = true
  · obtain ⟨ha, hb⟩ := firstKey_absent hk
    cases han : l.anonymous with
    | true => rfl
    | false => simp [ha, hb, han, repaired] at h2
  · rw [if_neg hk] at hn; cases hn

/-- A duration set by the user is the one in effect — also 0 ("disabled"). -/
theorem legacy_durations_applied (l : Legacy) (e : Effective) (h : provisionLegacy repaired l = .ok e) :
    (∀ x, l.wt = some x → e.wt = x) ∧ (∀ x, l.dt = some x → e.dt = x) ∧ (∀ x, l.hb = some x → e.hb = x) ∧
    (l.defaults = true → l.wt = none → e.wt = defaultWT) ∧
    (l.dt = none → e.dt = defaultDT) ∧ (l.hb = none → e.hb = defaultHB) := by
  unfold provisionLegacy at h
  dsimp only at h
  obtain ⟨h1, h⟩ := ite_ok h
  obtain ⟨h2, h⟩ := ite_ok h
  obtain ⟨h3, h⟩ := ite_ok h
  obtain ⟨h4, h⟩ := ite_ok h
  obtain ⟨h5, h⟩ := ite_ok h
  cases h
  dsimp only
  refine ⟨?_, ?_, ?_, ?_, ?_, ?_⟩
  · intro x hx; rw [hx]; dsimp only [Option.getD]
    by_cases hd : x = defaultWT <;> simp [hd]
  · intro x hx; rw [hx]; simp [repaired]
  · intro x hx; rw [hx]; simp [repaired]
  · intro hd hx; rw [hx, hd]; simp
  · intro hx; rw [hx]; cases l.defaults <;> simp [repaired]
  · intro hx; rw [hx]; cases l.defaults <;> simp [repaired]

/-- The obligation against /repo (regenerated from config.go on every run). -/
theorem repo_legacy_flags : Facts.legacyFlags = repaired := by decide

/-- Witnesses for the code as found (findings F10, F12): publisher key only ⇒ a hub with no
    subscriber key although anonymous is off; heartbeat 0 ⇒ 40 s. -/
theorem C19_counterexample_found :
    (∃ e, provisionLegacy ⟨false, false⟩ { pubKey := .text } = .ok e ∧ e.subAlg = none ∧ e.anonymous = false) ∧
    (∃ e, provisionLegacy ⟨false, false⟩ { jwtKey := .text, hb := some 0 } = .ok e ∧ e.hb = 40000) := by
  exact ⟨⟨_, rfl, rfl, rfl⟩, ⟨_, rfl, rfl⟩⟩

/-! ### transport: which one, with which parameters (Caddy `transport` directive, `transport_url`) -/
section Transport
open Mercure.TransportCfg

theorem digitsVal_append (a b : Str) (acc : Nat) :
    digitsVal (a ++ b) acc = (digitsVal a acc).bind (digitsVal b) := by
  induction a generalizing acc with
  | nil => rfl
  | cons c cs ih =>
    simp only [List.cons_append, digitsVal]
    cases digitVal c with
    | none => rfl
    | some d => exact ih _

/-- `parseUint64` accepts exactly the non-empty digit strings whose value fits in 64 bits, and
    returns that value. -/
theorem parseUint64_spec (s : Str) (n : Nat) :
    parseUint64 s = some n ↔ s ≠ [] ∧ digitsVal s 0 = some n ∧ n < 2 ^ 64 := by
  unfold parseUint64
  by_cases hs : s = []
  · subst hs; simp
  · have : (s == []) = false := by simpa using hs
    rw [this]
    simp only [Bool.false_eq_true, if_false]
    cases h : digitsVal s 0 with
    | none => simp [hs]
    | some m =>
      simp only
      by_cases hm : m < 2 ^ 64
      · rw [if_pos hm]
        constructor
        · intro e; cases e; exact ⟨hs, rfl, hm⟩
        · intro ⟨_, e, _⟩; cases e; rfl
      · rw [if_neg hm]
        constructor
        · intro e; cases e
        · intro ⟨_, e, hn⟩; cases e; exact absurd hn hm

/-- A size that is given and well-formed is the size in effect (directive form) — exactly, below 2^53;
    from 2^53 on it is whatever the JSON re-encoding through a float64 makes of it (`rt`). -/
theorem bolt_block_size_applied (rt : Nat → Option Nat) (b : BoltBlock) (e : Eff) (s : Str)
    (hs : b.size = some s) (h : provisionBoltBlock rt b = .ok e) :
    e.kind = .bolt ∧ ∃ n, parseUint64 s = some n ∧ (n < 2 ^ 53 → e.size = n) ∧ (¬ n < 2 ^ 53 → rt n = some e.size) := by
  unfold provisionBoltBlock at h
  rw [hs] at h
  simp only [blockSize] at h
  cases hp : parseUint64 s with
  | none => rw [hp] at h; cases h
  | some n =>
    rw [hp] at h
    simp only at h
    cases hsz : (if n < 2 ^ 53 then some n else rt n) with
    | none => rw [hsz] at h; cases h
    | some sz =>
      rw [hsz] at h
      simp only at h
      have hsize : e.size = sz ∧ e.kind = .bolt := by
        cases hf : b.freq with
        | none => rw [hf] at h; cases h; exact ⟨rfl, rfl⟩
        | some f =>
          rw [hf] at h
          simp only at h
          by_cases hv : (!f.valid) = true
          · rw [if_pos hv] at h; cases h
          · rw [if_neg hv] at h; cases h; exact ⟨rfl, rfl⟩
      refine ⟨hsize.2, n, rfl, ?_, ?_⟩
      · intro hn; rw [if_pos hn] at hsz; cases hsz; exact hsize.1
      · intro hn; rw [if_neg hn] at hsz; rw [hsize.1]; exact hsz

/-- A malformed size or frequency never yields a transport (directive form): fail closed. -/
theorem bolt_block_invalid_rejected (rt : Nat → Option Nat) (b : BoltBlock) :
    ((∃ s, b.size = some s ∧ parseUint64 s = none) ∨ (∃ f, b.freq = some f ∧ f.valid = false)) →
    ∃ err, provisionBoltBlock rt b = .error err := by
  intro h
  unfold provisionBoltBlock
  rcases h with ⟨s, hs, hp⟩ | ⟨f, hf, hv⟩
  · rw [hs]; simp only [blockSize]; rw [hp]; exact ⟨_, rfl⟩
  · cases hsz : blockSize rt b.size with
    | none => exact ⟨_, rfl⟩
    | some sz => simp only [hf, hv]; exact ⟨_, rfl⟩

/-- Omitted sub-directives: nothing is ever discarded (size 0), bucket `updates`, file `bolt.db`; the
    cleanup frequency the module passes is the zero value. -/
theorem bolt_block_defaults (rt : Nat → Option Nat) :
    provisionBoltBlock rt {} = .ok { kind := .bolt, path := defaultPath, bucket := defaultBucket, size := 0, freq := zeroFreq } := by
  rfl

/-- URL form: the parameters given are the ones in effect; an omitted cleanup frequency is 0.3. -/
theorem url_effective (u : URL) (e : Eff) (hb : u.scheme = "bolt".toList) (h : provisionURL u = .ok e) :
    e.kind = .bolt ∧
    (u.size = [] → e.size = 0) ∧ (u.size ≠ [] → parseUint64 u.size = some e.size) ∧
    (u.freq = [] → e.freq = defaultFreqURL) ∧ (u.freq ≠ [] → u.freqArg.valid = true ∧ e.freq = u.freqArg.canon) ∧
    (u.bucket = [] → e.bucket = defaultBucket) ∧ (u.bucket ≠ [] → e.bucket = u.bucket) ∧
    e.path = (if u.path = [] then u.host else u.path) ∧ e.path ≠ [] := by
  unfold provisionURL at h
  have hl : (u.scheme == "local".toList) = false := by rw [hb]; decide
  have hbb : (u.scheme == "bolt".toList) = true := by rw [hb]; decide
  rw [hl, hbb] at h
  simp only [Bool.false_eq_true, if_false, if_true] at h
  cases hsz : urlSize u.size with
  | none => rw [hsz] at h; cases h
  | some size =>
    rw [hsz] at h
    simp only at h
    unfold urlSize at hsz
    by_cases hfr : (u.freq != [] && !u.freqArg.valid) = true
    · rw [if_pos hfr] at h; cases h
    · rw [if_neg hfr] at h
      by_cases hp : (if u.path == [] then u.host else u.path) == []
      · simp only [hp, if_true] at h; cases h
      · simp only [hp] at h
        have hp' : (if u.path == [] then u.host else u.path) ≠ [] := by simpa using hp
        cases h
        have hpathne : (if u.path = [] then u.host else u.path) ≠ [] := by
          by_cases h0 : u.path = []
          · simp [h0] at hp' ⊢; exact hp'
          · simp [h0]
        have hpe : (if u.path == [] then u.host else u.path) = (if u.path = [] then u.host else u.path) := by
          by_cases h0 : u.path = [] <;> simp [h0]
        refine ⟨rfl, ?_, ?_, ?_, ?_, ?_, ?_, ?_, ?_⟩
        · intro h0; simp [h0] at hsz; simp [newBolt, hsz]
        · intro h0
          have : (u.size == []) = false := by simpa using h0
          rw [this] at hsz; simpa [newBolt] using hsz
        · intro h0; simp [newBolt, h0]
        · intro h0
          have hne : (u.freq != []) = true := by simpa using h0
          rw [hne] at hfr
          have hv : u.freqArg.valid = true := by
            cases hvv : u.freqArg.valid <;> simp [hvv] at hfr ⊢
          exact ⟨hv, by simp [newBolt, h0]⟩
        · intro h0; simp [newBolt, h0]
        · intro h0; simp [newBolt, h0]
        · simp only [newBolt]; rw [hpe]; simp [hpathne]
        · simp only [newBolt]; rw [hpe]; simp [hpathne]

/-- URL form, fail closed: an unknown scheme, a malformed size or frequency, or no path give no transport. -/
theorem url_invalid_rejected (u : URL) :
    (u.scheme ≠ "local".toList ∧ u.scheme ≠ "bolt".toList) ∨
    (u.scheme = "bolt".toList ∧ (
      (u.size ≠ [] ∧ parseUint64 u.size = none) ∨ (u.freq ≠ [] ∧ u.freqArg.valid = false) ∨
      (u.path = [] ∧ u.host = []))) →
    ∃ err, provisionURL u = .error err := by
  intro h
  unfold provisionURL
  rcases h with ⟨h1, h2⟩ | ⟨hb, h⟩
  · have a : (u.scheme == "local".toList) = false := by simpa using h1
    have b : (u.scheme == "bolt".toList) = false := by simpa using h2
    rw [a, b]; exact ⟨_, rfl⟩
  · have hl : (u.scheme == "local".toList) = false := by rw [hb]; decide
    have hbb : (u.scheme == "bolt".toList) = true := by rw [hb]; decide
    rw [hl, hbb]
    simp only [Bool.false_eq_true, if_false, if_true]
    rcases h with ⟨hs, hp⟩ | ⟨hf, hv⟩ | ⟨hp, hh⟩
    · have : (u.size == []) = false := by simpa using hs
      unfold urlSize
      rw [this]; simp only [Bool.false_eq_true, if_false]; rw [hp]; exact ⟨_, rfl⟩
    · cases hsz : urlSize u.size with
      | none => exact ⟨_, rfl⟩
      | some sz =>
        have : (u.freq != [] && !u.freqArg.valid) = true := by simp [hf, hv]
        simp only [this, if_true]; exact ⟨_, rfl⟩
    · cases hsz : urlSize u.size with
      | none => exact ⟨_, rfl⟩
      | some sz =>
        simp only
        by_cases hfr : (u.freq != [] && !u.freqArg.valid) = true
        · rw [if_pos hfr]; exact ⟨_, rfl⟩
        · rw [if_neg hfr]; simp [hp, hh]

/-- The deprecated URL, when present, decides alone; `transport local` gives the local transport;
    with neither, the bolt module with its defaults. -/
theorem caddy_transport_selection (rt : Nat → Option Nat) (d : Option Directive) (u : URL) :
    provisionCaddyTransport rt d (some u) = provisionURL u ∧
    provisionCaddyTransport rt (some .local_) none = .ok { kind := .local_ } ∧
    provisionCaddyTransport rt none none = provisionBoltBlock rt {} := ⟨rfl, rfl, rfl⟩

/-- **The environment never overrides the configuration.** MERCURE_TRANSPORT_URL is consulted only when the block
    names no transport at all; a `transport` directive or a `transport_url` is applied as written, whatever the
    process environment holds. -/
theorem env_never_overrides_configuration (rt : Nat → Option Nat) (d : Option Directive) (u : Option URL) (env : Option URL)
    (h : d ≠ none ∨ u ≠ none) :
    provisionCaddyTransportEnv rt d u env = provisionCaddyTransport rt d u := by
  unfold provisionCaddyTransportEnv effectiveURL
  cases u with
  | some u => rfl
  | none =>
    cases d with
    | some d => rfl
    | none => simp at h

/-- … and with no transport configured the variable stands in for `transport_url` (absent: the bolt module's
    defaults, as before). -/
theorem env_is_the_fallback (rt : Nat → Option Nat) (env : Option URL) :
    provisionCaddyTransportEnv rt none none env = provisionCaddyTransport rt none env := rfl

/-- Legacy options: a URL that is set decides; unset, the documented default bolt://updates.db (keep
    everything, cleanup frequency 0.3) when the defaults are loaded, the local transport otherwise. -/
theorem legacy_transport_selection (u : URL) (d : Bool) :
    provisionLegacyTransport d (some u) = provisionURL u ∧
    provisionLegacyTransport true none =
      .ok { kind := .bolt, path := "updates.db".toList, bucket := defaultBucket, size := 0, freq := defaultFreqURL } ∧
    provisionLegacyTransport false none = .ok { kind := .local_ } := ⟨rfl, rfl, rfl⟩

/-- Non-vacuity / rendering round-trip on concrete arguments: "100" is 100, "007" is 7, 2^64 and
    "1_0", "+1", "" are rejected. -/
theorem parseUint64_examples :
    parseUint64 "100".toList = some 100 ∧ parseUint64 "007".toList = some 7 ∧
    parseUint64 "18446744073709551615".toList = some (2 ^ 64 - 1) ∧
    parseUint64 "18446744073709551616".toList = none ∧ parseUint64 "1_0".toList = none ∧
    parseUint64 "+1".toList = none ∧ parseUint64 [] = none := by decide
end Transport

end Mercure.C19


namespace Mercure.C19
open Mercure.Config in
/-- A role's key source is a function of **that role's directives only** (`roleKeySource` takes nothing else: the
    independence of the two roles is by construction, and is what the correspondence check probes — tokens of set A and
    of set B on both endpoints of hubs provisioned with every combination of the two JWK Set URLs). What the function
    says: a non-empty JWK Set URL wins over the role's literal key, whatever that key is … -/
theorem jwks_url_wins (u : Str) (hu : u ≠ []) (k : Config.KeyClass) : Config.roleKeySource (some u) k = .jwks u := by
  simp [Config.roleKeySource, hu]

/-- … and without one the role verifies with its literal key, or with nothing when none is given. -/
theorem no_jwks_url_uses_the_key (k : Config.KeyClass) :
    Config.roleKeySource none k = (if k = .absent then Config.KeySource.none else .key k) := by
  cases k <;> rfl
end Mercure.C19

#print axioms Mercure.C19.caddy_no_publisher_key_rejected
#print axioms Mercure.C19.caddy_no_subscriber_key_rejected
#print axioms Mercure.C19.caddy_invalid_rejected
#print axioms Mercure.C19.caddy_effective
#print axioms Mercure.C19.caddy_fail_closed
#print axioms Mercure.C19.caddy_absent_is_restrictive
#print axioms Mercure.C19.keyfunc_families
#print axioms Mercure.C19.legacy_no_publisher_key_rejected
#print axioms Mercure.C19.legacy_no_subscriber_key_rejected
#print axioms Mercure.C19.legacy_fail_closed
#print axioms Mercure.C19.legacy_durations_applied
#print axioms Mercure.C19.repo_legacy_flags
#print axioms Mercure.C19.C19_counterexample_found
#print axioms Mercure.C19.parseUint64_spec
#print axioms Mercure.C19.bolt_block_size_applied
#print axioms Mercure.C19.bolt_block_invalid_rejected
#print axioms Mercure.C19.bolt_block_defaults
#print axioms Mercure.C19.url_effective
#print axioms Mercure.C19.url_invalid_rejected
#print axioms Mercure.C19.caddy_transport_selection
#print axioms Mercure.C19.env_never_overrides_configuration
#print axioms Mercure.C19.jwks_url_wins
#print axioms Mercure.C19.no_jwks_url_uses_the_key
#print axioms Mercure.C19.env_is_the_fallback
#print axioms Mercure.C19.parseUint64_examples
#print axioms Mercure.C19.legacy_transport_selection
