import Mercure.Model.Publish
/-
  Mercure.Model.Json — the bytes the Bolt transport stores: `json.Marshal(*update)` (bolt.go `Dispatch`)
  and what `json.Unmarshal(v, &update)` (bolt.go `dispatchHistory`) makes of them.

  Go side (encoding/json, go1.24, `escapeHTML = true`, input strings valid UTF-8):
    type Update struct { Topics []string; Private bool; Debug bool; Event }      (update.go)
    type Event  struct { Data string; ID string; Type string; Retry uint64 }     (event.go)
  No field carries a tag: the keys are the Go field names, in declaration order, the embedded struct's
  fields last. The field list is a *regenerated fact* (`Facts.updateJSONFields`); `Props/C12.repo_json_fields`
  discharges that it is the list this model writes.

  The decoder accepts the encoder's layout (fixed key order, no insignificant white space) with *every*
  spelling of a string that JSON allows (`\uXXXX`, surrogate pairs, `\/`, …) — the part of
  `json.Unmarshal` in which a stored value can differ from what was published. Anything else is `none`
  ("outside the modelled fragment"), never a guess.
-/
namespace Mercure.Json

def hexDigit (n : Nat) : Char := if n < 10 then Char.ofNat (48 + n) else Char.ofNat (87 + n)

/-- four lower-case hexadecimal digits -/
def hex4 (n : Nat) : Str :=
  [hexDigit (n / 4096 % 16), hexDigit (n / 256 % 16), hexDigit (n / 16 % 16), hexDigit (n % 16)]

/-- encoding/json `appendString` for one rune of a valid UTF-8 string. -/
def escChar (c : Char) : Str :=
  if c == '"' then ['\\', '"']
  else if c == '\\' then ['\\', '\\']
  else if c.toNat == 8 then ['\\', 'b']
  else if c.toNat == 12 then ['\\', 'f']
  else if c == '\n' then ['\\', 'n']
  else if c == '\r' then ['\\', 'r']
  else if c == '\t' then ['\\', 't']
  else if c.toNat < 32 || c == '<' || c == '>' || c == '&' || c.toNat == 0x2028 || c.toNat == 0x2029 then
    '\\' :: 'u' :: hex4 c.toNat
  else [c]

def escape : Str → Str
  | [] => []
  | c :: cs => escChar c ++ escape cs

def str (s : Str) : Str := '"' :: (escape s ++ ['"'])

def bool (b : Bool) : Str := if b then "true".toList else "false".toList

def strArrayBody : List Str → Str
  | [] => []
  | [x] => str x
  | x :: xs => str x ++ (',' :: strArrayBody xs)

/-- `[]string`: a nil slice is `null` (the model's `[]`); the hub never stores an empty non-nil slice. -/
def strArray (l : List Str) : Str :=
  if l.isEmpty then "null".toList else '[' :: (strArrayBody l ++ [']'])

/-- `json.Marshal(*update)`; `debug` is `Update.Debug` (the hub's debug option; not part of the model's update). -/
def update (debug : Bool) (u : Update) : Str :=
  "{\"Topics\":".toList ++ strArray u.topics ++
  ",\"Private\":".toList ++ bool u.priv ++
  ",\"Debug\":".toList ++ bool debug ++
  ",\"Data\":".toList ++ str u.data ++
  ",\"ID\":".toList ++ str u.id ++
  ",\"Type\":".toList ++ str u.type ++
  ",\"Retry\":".toList ++ Nat.toDigits 10 u.retry ++ ['}']

/-! ### decoding -/

def hexVal (c : Char) : Option Nat :=
  if '0' ≤ c && c ≤ '9' then some (c.toNat - 48)
  else if 'a' ≤ c && c ≤ 'f' then some (c.toNat - 87)
  else if 'A' ≤ c && c ≤ 'F' then some (c.toNat - 55)
  else none

/-- `getu4` without the leading `\u` -/
def hex4Val (a b c d : Char) : Option Nat :=
  match hexVal a, hexVal b, hexVal c, hexVal d with
  | some a, some b, some c, some d => some (a * 4096 + b * 256 + c * 16 + d)
  | _, _, _, _ => none

def replacement : Char := Char.ofNat 0xFFFD

def isSurrogate (n : Nat) : Bool := 0xD800 ≤ n && n < 0xE000

/-- `utf16.DecodeRune` -/
def decodeSurrogates (hi lo : Nat) : Option Char :=
  if 0xD800 ≤ hi && hi < 0xDC00 && 0xDC00 ≤ lo && lo < 0xE000 then
    some (Char.ofNat ((hi - 0xD800) * 1024 + (lo - 0xDC00) + 0x10000))
  else none

/-- The body of a string literal, after the opening quote: the decoded value and what follows the
    closing quote (encoding/json `unquote`; a literal control character is a syntax error). The fuel
    is the input length (each step consumes at least one character). -/
def unquoteBody : Nat → Str → Option (Str × Str)
  | 0, _ => none
  | _ + 1, [] => none
  | _ + 1, '"' :: rest => some ([], rest)
  | fuel + 1, '\\' :: 'u' :: a :: b :: c :: d :: rest =>
    match hex4Val a b c d with
    | none => none
    | some n =>
      if isSurrogate n then
        let pair : Option (Char × Str) :=
          match rest with
          | '\\' :: 'u' :: a' :: b' :: c' :: d' :: rest' =>
            (match hex4Val a' b' c' d' with
             | some m => (decodeSurrogates n m).map (fun ch => (ch, rest'))
             | none => none)
          | _ => none
        match pair with
        | some (ch, rest') => (unquoteBody fuel rest').map (fun (v, r) => (ch :: v, r))
        | none => (unquoteBody fuel rest).map (fun (v, r) => (replacement :: v, r))
      else (unquoteBody fuel rest).map (fun (v, r) => (Char.ofNat n :: v, r))
  | fuel + 1, '\\' :: e :: rest =>
    let ch : Option Char :=
      if e == '"' then some '"' else if e == '\\' then some '\\' else if e == '/' then some '/'
      else if e == 'b' then some (Char.ofNat 8) else if e == 'f' then some (Char.ofNat 12)
      else if e == 'n' then some '\n' else if e == 'r' then some '\r' else if e == 't' then some '\t'
      else none
    match ch with
    | some ch => (unquoteBody fuel rest).map (fun (v, r) => (ch :: v, r))
    | none => none
  | _ + 1, ['\\'] => none
  | fuel + 1, c :: rest =>
    if c.toNat < 32 then none else (unquoteBody fuel rest).map (fun (v, r) => (c :: v, r))

/-- a string literal at the head of the input -/
def parseStr : Str → Option (Str × Str)
  | '"' :: rest => unquoteBody (rest.length + 1) rest
  | _ => none

/-- expect a literal prefix -/
def expect (p : Str) (s : Str) : Option Str :=
  if p.isPrefixOf s then some (s.drop p.length) else none

def parseBool (s : Str) : Option (Bool × Str) :=
  match expect "true".toList s with
  | some r => some (true, r)
  | none => (expect "false".toList s).map (fun r => (false, r))

/-- `uint64` literal: one or more digits, no leading zero unless it is "0" (JSON number grammar);
    a value that does not fit 64 bits is an `UnmarshalTypeError` in Go. -/
def parseNat (s : Str) : Option (Nat × Str) :=
  let ds := s.takeWhile Char.isDigit
  let rest := s.dropWhile Char.isDigit
  if ds.isEmpty then none
  else if ds.length > 1 && ds.head? == some '0' then none
  else
    let n := Nat.ofDigitChars 10 ds 0
    if n < 2 ^ 64 then some (n, rest) else none

/-- the elements of a non-empty array of strings after the opening bracket -/
def parseStrArrayBody : Nat → Str → Option (List Str × Str)
  | 0, _ => none
  | fuel + 1, s =>
    match parseStr s with
    | none => none
    | some (x, ',' :: rest) => (parseStrArrayBody fuel rest).map (fun (xs, r) => (x :: xs, r))
    | some (x, ']' :: rest) => some ([x], rest)
    | some _ => none

def parseStrArray (s : Str) : Option (List Str × Str) :=
  match expect "null".toList s with
  | some r => some ([], r)
  | none =>
    match s with
    | '[' :: ']' :: rest => some ([], rest)
    | '[' :: rest => parseStrArrayBody (rest.length + 1) rest
    | _ => none

/-- `json.Unmarshal(v, &update)` on the encoder's layout: the `Debug` flag and the update. -/
def parseUpdate (s : Str) : Option (Bool × Update) := do
  let s ← expect "{\"Topics\":".toList s
  let (topics, s) ← parseStrArray s
  let s ← expect ",\"Private\":".toList s
  let (priv, s) ← parseBool s
  let s ← expect ",\"Debug\":".toList s
  let (debug, s) ← parseBool s
  let s ← expect ",\"Data\":".toList s
  let (data, s) ← parseStr s
  let s ← expect ",\"ID\":".toList s
  let (id, s) ← parseStr s
  let s ← expect ",\"Type\":".toList s
  let (type, s) ← parseStr s
  let s ← expect ",\"Retry\":".toList s
  let (retry, s) ← parseNat s
  if s == ['}'] then
    pure (debug, { id := id, topics := topics, priv := priv, data := data, type := type, retry := retry })
  else none

/-- The keys `update` writes, in order (compared with the regenerated `Facts.updateJSONFields`). -/
def fieldNames : List String := ["Topics", "Private", "Debug", "Data", "ID", "Type", "Retry"]

end Mercure.Json
