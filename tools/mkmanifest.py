#!/usr/bin/env python3
"""Regenerates MANIFEST.json from the table below (keeps it valid at all times)."""
import json, os
ROOT = os.path.dirname(os.path.dirname(os.path.abspath(__file__)))
base = json.load(open("/root/.vp/BASELINE.json"))
props = [json.loads(l) for l in open(os.path.join(ROOT, "properties.jsonl"))]

TB = ("Trusted: Lean 4.33 kernel; axioms ⊆ {propext, Classical.choice, Quot.sound} (audited per theorem on every run); "
      "the hand-written model is tied to /repo by the sampled correspondence check (Go harness driving the real code in-process "
      "against the compiled Lean driver) and by regenerated source facts — both trusted, not proved. ")

SEQ = ("Operation-level model: every public operation (publish, connect incl. history replay, client close, stalled/failing writer, hub close, restart) is atomic and followed by quiescence; interleavings inside operations are covered by the region-level model (C06/C07/C13/C14) and its controlled-schedule correspondence. ")

REGION = ("Region-level model (lean/Mercure/Model/Sys.lean): threads with program counters over the synchronisation operations of LocalSubscriber / BoltTransport / LocalTransport, any number of threads, every schedule. Tied to /repo by (a) six variant flags regenerated from the sources on every run (obligation: all repaired) and (b) the controlled-schedule correspondence: the three files holding the hub's synchronisation are rewritten (go/ast, build overlay) to yield before every lock / atomic / channel / Once / bbolt / subscriber-list operation, exactly one goroutine runs at a time following a generated schedule, and the model — as acceptor — must predict every next label, blocked-or-not, return value and the final state. ")

CLAIMED = {
 "C06": dict(
   text="Theorems over every schedule of the region-level model (any number of concurrent publishers, registrations with or without history, disconnections, removals, consumers, Close): FIFO (received ++ buffered = sent); Bolt: the store is the accepted sequence with sequence numbers 1..n (one total order); what a subscriber has been sent is always a gap-free prefix of (what it is owed from the history, then every update accepted after it was indexed) filtered to what it matches — exactly once, in that order — and all of it at quiescence if it stayed connected; local transport: exactly the matching updates that entered fan-out after it was indexed, in the one fan-out order, all of them at quiescence; nothing before registration. Operation level: the stored history is the accepted order after any history of handler operations. Obligation against regenerated flags: the whole fan-out runs under the exclusive transport lock on both transports. Tie: controlled schedules (acceptor mode; thorough: every schedule with <= 2 preemptions of 17 small configurations) with oracles 'no duplicate / contiguous run of the history / nothing missed at quiescence' on the implementation alone; hub histories through the HTTP handlers.",
   note=TB + REGION + "Stated for retention size 0 at region level (with retention the history part is what is still stored: C10). 'Keeps up' = no overflow: an overflowing subscriber gets a prefix (C13).",
   technique="Lean 4 proof (inductive invariants over all schedules of the region-level model, 3200 lines) + regenerated-flag obligation + controlled-schedule acceptor correspondence",
   design="§8 C06, §15"),
 "C07": dict(
   text="Theorems: (region level, every schedule, publishes placed anywhere relative to registration / history scan / go-live, disconnections, overflow, Close) the sequence a reconnecting subscriber has been sent is a gap-free prefix of its ideal sequence — the stored updates following the requested id (all for 'earliest'), then everything accepted after it was indexed, those it matches, each once, in history order — and exactly that sequence at quiescence if still connected; (operation level) a reconnection with the id of a retained update replays exactly the accepted updates that follow it for every retention size and cleanup coin sequence; a restart keeps the history; obligation against regenerated flags: the scan stops before an entry stored after registration, the sequence is reloaded on open; witness theorems: [u2,u2] on the code as found (F2/F3), [u2] for the same schedule on the repaired code. Tie: junction-targeting controlled schedules (with/without restart, buffers 1-3 and 1000) and hub histories with replays larger than the buffer. Byte level (Model/BoltStore, Model/Json): the scan of dispatchHistory run on the bucket's bytes (ids compared as k[8:], cut at BigEndian.Uint64(k[:8]) > toSeq, values decoded from JSON) is proved to announce the id and replay the updates that the abstract negotiation computes, for every bucket the hub can have written; family store compares keys and values byte for byte and runs scans for ids that are stored, repeated, proper suffixes/prefixes of stored ids, 'earliest', unknown.",
   note=TB + REGION + "Region level stated for retention size 0; restart is a separate phase (the restarted transport reloads its sequence: flag lastSeqOnOpen, theorem C09.crash_restart_keeps_committed).",
   technique="Lean 4 proof (inductive invariants over all schedules; negotiation and retention by induction; witnesses by kernel evaluation) + regenerated-flag obligation + controlled-schedule acceptor correspondence",
   design="§8 C07, §15"),
 "C09": dict(
   text="Theorems over every schedule of the region-level model (Bolt): whatever was handed to a subscriber had been persisted before; a Dispatch that returned without error had persisted its update; the store is the accepted sequence minus a discarded prefix with every update at the position it was given (positions never change); nothing is lost without retention, the last `size` are stored with it; a crash in ANY state followed by a restart keeps the committed store, its sequence and positions, reports the last stored id and reloads the sequence. Tie: the instrumented transport in a child process SIGKILLs itself at every synchronisation point inside and around every publish (retention on/off); the parent reopens the file (bbolt and NewBoltTransport) and compares with the model's crash+restart; oracles on the file alone. Byte level: byte order of the keys the hub writes is the numeric order of the sequence numbers whatever the ids (key_order_is_sequence_order), keys read back as written (key_roundtrip), and after any publication history the bucket holds byte for byte the encoding of the abstract retained history (bucket_bytes_are_the_history); family store reads raw keys and values back after every publication.",
   note=TB + REGION + "PARTIAL: atomicity/durability of one bbolt transaction and 'the file always reopens' are assumptions (the model's db.Update is one step), exercised by the kill runs — which include every point inside the transaction (bucket, sequence, Put, cleanup, each Delete) and inside bbolt's own Commit (before the data pages, between data and meta page, after the meta page; instrumented copy of bbolt's tx.go) — not proved; a process kill keeps the page cache, so torn or reordered writes of a power loss are not simulated.",
   technique="Lean 4 proof (inductive invariant over all schedules) + kill-point enumeration correspondence",
   design="§8 C09"),
 "C13": dict(
   text="Theorems over every schedule: parked before a channel send a publisher always moves (the send succeeds or overflows at once); a thread only ever waits for a lock held by another thread, for open read transactions or for a running Once — never for a subscriber's buffer; and at quiescence a subscriber is flagged disconnected exactly when its stream has been ended (overflow live, during replay or while queued before go-live; client; hub) — cut off, not starved (witness theorem for the code as found: flagged but never closed, F6). Tie: hub histories around the buffer capacity (999..1003 pending, stalled writer, replays larger than the buffer) under synctest, and controlled schedules with capacity 1-3.",
   note=TB + REGION + "PARTIAL: 'bounded time' is proved as 'never waits for a consumer'; wall-clock bounds belong to the runtime. In the instrumented build the channel capacity is overridable (the only semantic difference from /repo).",
   technique="Lean 4 proof (inductive invariant over all schedules of the region-level model) + regenerated-flag obligation + controlled-schedule acceptor correspondence",
   design="§8 C13"),
 "C14": dict(
   text="Theorem: no schedule of any well-formed set of operations (Dispatch, AddSubscriber with/without history, RemoveSubscriber, GetSubscribers, Disconnect, consumer receive, Close; both transports; any number of threads) reaches a send on or close of a closed channel; a closed channel is always flagged. Obligation against the regenerated flags: every repair is in the sources, in particular MatchAny only runs under the exclusive transport lock. Witness theorems for the code as found (send on closed channel F7, close of closed channel F8). Tie: controlled schedules (acceptor mode, deadlock detection), the race detector on an unsteered stress of both transports, hub histories (panic oracle).",
   note=TB + REGION + "PARTIAL: memory-model-level race freedom is argued from the lock discipline and cross-checked dynamically (-race); skipfilter / roaring internals are covered by contract, not modelled. Deadlock freedom: checked on every controlled schedule; the theorem is listed in DESIGN.md when proved.",
   technique="Lean 4 proof (inductive invariant over all schedules) + regenerated-flag obligation + controlled-schedule acceptor correspondence + race detector",
   design="§8 C14"),
 "C16": dict(
   text="Theorems over the timed model of the connection loop, for all timeouts (0 = disabled), expiry absent or anywhere, arbitrary sorted arrival times, optional client close, any horizon AND every resolution of same-instant races (Go's select among the ready cases is a choice parameter of the model: runCh … ch, for all ch): the deadline is the earlier of maximum duration and token expiry; nothing is written at or after it; consecutive writes are at most one heartbeat apart and an open stream is never silent for a whole interval; with a maximum duration the hub ends the connection itself exactly at deadline − dispatch timeout (not earlier; when the dispatch timeout is 0 that instant is the deadline itself and a write that select serves first at that very instant fails and ends the connection there instead: self_disconnect_or_deadline_at_tie, counterexample to the unconditional statement kept as a theorem); without one it never ends it by a timer and ends it on the first write attempt at or after the expiry. Tie: the real SubscribeHandler inside a synctest bubble (virtual clock) with a ResponseWriter enforcing the armed write deadline; (virtual time, write | failed write | return) traces must be one of the traces the model produces over all resolutions (runAll, proved sound and complete for runCh); publishes and client closes are also placed on purpose on the instant a timer is due.",
   note=TB + "PARTIAL: that net/http honours SetWriteDeadline and that select serves a due timer promptly are runtime assumptions (exact under the virtual clock). Same-instant races are part of the model (choice parameter) and of the generator.",
   technique="Lean 4 proof (loop invariants by induction on fuel, for every resolution of same-instant races) + acceptor-mode correspondence under a virtual clock",
   design="§8 C16"),
 "C19": dict(
   text="Theorems over the model of the Caddy module (UnmarshalCaddyfile + Provision) and of the legacy options (ValidateConfig + NewHubFromViper): no publisher key ⇒ rejected; no subscriber key without anonymous ⇒ rejected; invalid origin / version / directive ⇒ rejected; what starts has exactly the configured values or the documented defaults; a started hub has a usable publisher key, and a subscriber key unless anonymous; a duration set to 0 is disabled; the transport in effect (kind, file, bucket, history size, cleanup frequency) is the configured one for the `transport` directive, the deprecated transport_url and the legacy option — a well-formed size is applied (strconv.ParseUint modelled: digits only, < 2^64), a malformed size / frequency, an unknown scheme or a missing path is rejected, the URL wins over the directive, omitted parameters take the code's defaults. The repairs of config.go are regenerated facts (witnesses for F10, F12). Tie: random directive sets through the real Caddy module in process (Caddyfile and JSON forms, transports in directive and URL form with well-formed and malformed parameters, read back from the transport that was built) and viper maps through NewHubFromViper; effective options read back and verification key/algorithm probed with the harness's own tokens.",
   note=TB + "Argument classes (PEM parsing, URL parsing, duration and float parsing, encoding/json's float64 round trip of sizes >= 2^53 in the directive form) are decided by libraries and classified by the harness. JWKS URLs need the network: excluded.",
   technique="Lean 4 proof (decision logic) + regenerated-fact obligation + differential correspondence through the real Caddy module and viper path",
   design="§8 C19"),
 "C01": dict(
   text="Theorem over every history of public operations on both transports: everything ever handed to a connection — by live fan-out, history replay or subscription events (the ghost log `enq` is fed by every enqueue site) — matched its subscription and, when private, one of the selectors of a mercure.subscribe claim validated under the subscriber key; anonymous connections never receive a private update; subscription events are always private. Tie: histories through the real Hub.ServeHTTP under synctest (every stream parsed and compared with the model after every op), plus controlled schedules on the transports; oracle 'no private update on an unauthorised stream' evaluated on the implementation alone.",
   note=TB + SEQ + "Token verification is C03's; selector semantics C11's.",
   technique="Lean 4 proof (inductive invariant over operation histories of the hub model) + differential correspondence through the HTTP handlers under a virtual clock",
   design="§8 C01"),
 "C15": dict(
   text="Theorems: closing marks every registered subscriber's stream ended; a publish after close changes nothing and is not answered 200; a subscribe after close is refused and registers nothing; closing twice is the identity; a restart keeps the stored history and reports the last stored id; without retention the stored history is exactly the accepted updates after any history including closes and restarts. Region level: see C14's model (close_ends_registered / after_close_rejected). Tie: hub histories with close/restart (also while a cut-off slow consumer is still listed), and controlled schedules with Close racing the other operations over 2-4 registered subscribers some of which have already ended; oracles 'transport closed ⇒ every subscriber registered before the close began has its channel closed' (also evaluated at the instant each Close call returns, two overlapping Close calls included), 'nothing started after a returned Close is accepted' and 'hub closed ⇒ every stream whose writer is not blocked has ended'; obligation against a regenerated fact: Close's walk over the subscriber list never stops early.",
   note=TB + SEQ,
   technique="Lean 4 proof (operation-level lemmas + history invariant) + differential correspondence (hub histories, controlled schedules)",
   design="§8 C15"),
 "C17": dict(
   text="Theorems over every history: with tracking on, each accepted connection produced exactly one active=true event per selector (in selector order, before it is indexed) and exactly one active=false per selector once it is gone while the hub is open, none before; none at all with tracking off; a registration that fails half-way (AddSubscriber error after the announcement: the model's connectFail operation, driven by fault injection in the harness) is announced exactly once per selector with active=true and once with active=false and leaves nothing behind (not a connection, not in the subscriber list); events only for accepted connections or such failed registrations; each event is one private update whose topic is the subscription id; the escaping round-trips and — for the escaping in /repo, regenerated on every run — yields percent-encoded ids (witness theorem for the old '+' escaping, F11). Tie: hub histories with a '*' watcher and a template watcher, selectors with reserved characters / spaces / unicode, every way of ending.",
   note=TB + SEQ + "On a closed hub nobody is left to tell: active=false is not dispatched there (stated).",
   technique="Lean 4 proof (ghost event log invariant over histories; byte-level escaping lemmas) + regenerated-fact obligation + differential correspondence",
   design="§8 C17"),
 "C18": dict(
   text="Theorems: on an open hub the index holds exactly the not-yet-gone connections of the current incarnation; the collection is one document per (indexed subscriber, selector), filtered to one selector on request; every listed id dereferences to the same document (given unique subscriber ids, proved for reachable states); unknown ⇒ 404; If-None-Match equal to the last event id ⇒ 304; with subscriber keys configured every endpoint refuses callers without a matching mercure.subscribe selector. Tie: hub histories followed by the three endpoints with every listed id dereferenced, caller claims in {exact, template, '*', unrelated, absent}.",
   note=TB + SEQ + "gorilla/mux routing on the encoded path is library behaviour (compared, not modelled).",
   technique="Lean 4 proof (history invariant + endpoint lemmas) + differential correspondence",
   design="§8 C18"),
 "C20": dict(
   text="Theorems over every history: gauge = number of accepted connections whose shutdown has not completed, subscribers counter = number of streams ever accepted, updates counter = number of publishes answered 200; refused publishes and subscribes change nothing. Tie: a PrometheusMetrics on a private registry read after every op of the hub histories (every way a stream can end, refused requests mixed in) and compared with the model; oracle on the implementation alone.",
   note=TB + SEQ,
   technique="Lean 4 proof (history invariant) + differential correspondence",
   design="§8 C20"),
 "C08": dict(
   text="Theorems: carrier precedence of the requested id (header, else lastEventID, else the legacy parameter only under version-7 compatibility); a Last-Event-ID response header exactly when one was requested; for the Bolt negotiation over any stored history: response = requested iff the id is stored (then everything after its first occurrence is replayed), 'earliest' replays the whole retained history, in every other case the response differs and nothing is replayed; the local transport always answers 'earliest'. Tie: the real SubscribeHandler on all 2^3 carrier combinations x id classes x compat x histories (empty, truncated by retention, containing 'earliest' as an id) x transports, response header and replayed stream compared with the model. Byte level: the announced id computed on the raw keys is the one the abstract negotiation announces (byte_level_announced_id); a requested id that is only part of a stored key is never found (family store).",
   note=TB + "Sequential negotiation (nothing published during the scan); publishes concurrent with the scan are C07's.",
   technique="Lean 4 proof (list induction on the stored history) + differential correspondence through the HTTP handler",
   design="§8 C08"),
 "C10": dict(
   text="Theorems over the retention machine (append under the next sequence, then delete every key <= last-size when the cleanup coin says so), for every size and every coin sequence: the retained history is a contiguous suffix of the accepted updates with consecutive sequence numbers, it never holds fewer than min(n,size), exactly that many when cleanup always runs, size 0 keeps everything, and a replay from any retained id returns exactly the accepted updates after it; at machine width (BitVec 64) the guard `size >= last` and the bound `last - size` of cleanup delete exactly the keys the Nat-level model drops, for every 64-bit size, last sequence and key (no wrap-around), the shape of that guard being a fact regenerated from bolt.go on every run (witness theorem: the signed-arithmetic rewrite deletes everything for size 2^64-1). Tie: real BoltTransport histories (sizes up to 2^64-1) with the model as acceptor of the runtime's coin (bucket keys read back after every publish), payloads spanning B-tree pages, restarts; the property's oracle is also evaluated on the implementation alone. Also proved when the retention size changes between publications (restart with another configuration on the same file): retained_is_suffix_any_sizes. Byte level: persist + cleanup on the bucket's bytes is the abstract machine (byte_level_retention_is_rRun, byte_level_keys_contiguous).",
   note=TB + "bbolt's B+tree/cursor semantics are not modelled (the correspondence is what found the cursor-skip defect F4, now fixed in /repo).",
   technique="Lean 4 proof (invariant by induction over publish/coin histories) + acceptor-mode correspondence on the real Bolt file",
   design="§8 C10"),
 "C12": dict(
   text="Theorems: for every payload string and every id/type free of line breaks, the reference W3C parser applied to Event.encode yields exactly one event with the published id, type, retry and LF-normalised data; a stream made of ':' comments and events in any order decodes to exactly the events written. The replacer pairs and format strings of Event.String are regenerated from event.go and checked against the model. Persistent transport: the stored JSON value decodes to exactly the published update (every scalar sequence, every 64-bit retry), and the values of a history scan decode to the stored updates in order. Tie: Event.String vs the Lean encoder on a payload grammar, the harness's own parser vs the Lean parser, and end-to-end POST -> live and replayed streams on both transports. End to end (post_to_event): for all UTF-8 topics/data/id/type and every 64-bit retry, if the hub accepts the form-encoded request, the update carries exactly the posted fields (Model/Form: url.ParseQuery on bytes, round trip proved), its stored JSON decodes to it, and the written bytes parse to exactly one event with the posted id, type, retry and LF-normalised data.",
   note=TB + "The JSON form stored by the Bolt transport is modelled byte for byte (Model/Json) and its round trip proved (stored_value_roundtrip; family store compares the stored bytes with the model's); form decoding of the POST body is library behaviour (compared end to end, not proved). Ids/types containing line breaks are outside the property (the hub accepts them).",
   technique="Lean 4 proof (round-trip by induction over the payload and over the chunk list) + differential correspondence",
   design="§8 C12"),
 "C02": dict(
   text="Theorems over the executable model of PublishHandler: a POST is accepted iff it carries a valid publisher token whose mercure.publish is defined and covers every topic ('*' or a matching selector, at any position) or the version-7 mode applies to a non-private update, and the body is well-formed; every refusal is a 4xx with a fixed text; canDispatch is position-independent. The model is run against Hub.ServeHTTP on both transports on generated requests; after every request a '*' watcher, the last event id and the Bolt history are checked for 'no effect'. The fields the handler reads from the body are those of the Lean model of url.ParseQuery (Model/Form; family form: Go vs model on raw bodies).",
   note=TB + "Token verification is C03's; the selector relation is C11's (matchSpec). A hub built with no publisher key is outside the property's configurations (C19).",
   technique="Lean 4 proof (decision logic, list induction) + differential correspondence through the HTTP handler",
   design="§8 C02"),
 "C03": dict(
   text="Theorems: validate grants claims iff the token is well-formed, its header alg is exactly the configured one, the signature verifies under the role's key and exp/nbf hold; a presented token that does not validate is an error on publish, subscribe (anonymous on and off) and the subscription API — never a downgrade to anonymous. Tie: the harness mints tokens with its own JWS encoder for all ten accepted algorithms, applies ~50 structured mutations, recomputes the token facts with its own decoder/verifier and compares the hub's verdict on the three endpoints.",
   note=TB + "PARTIAL: that golang-jwt/Go crypto compute the signature verdict soundly is in the trusted base; the theorems cover the decision logic around verification. Non-canonical base64 of the same signature bytes decodes to the same bytes and is treated as the same token.",
   technique="Lean 4 proof (decision logic) + differential correspondence with an independent JWS implementation",
   design="§8 C03"),
 "C04": dict(
   text="Theorems over authorize (shared by the three endpoints): header-only, query-over-cookie, no fall-through, anonymous iff no credential at all, cookie on POST honoured iff the effective origin (Origin, else origin of a parsable Referer) is a configured publish origin, safe methods skip the rule, anonymous never publishes / subscribes iff allowed / never lists. Tie: the abstract credential table is enumerated exhaustively (127k requests) through Hub.ServeHTTP with two tokens of different rights; model and implementation must agree on every row.",
   note=TB + "net/http cookie, header and URL parsing are library behaviour (the harness builds requests with net/http).",
   technique="Lean 4 proof (case analysis of the decision function) + exhaustive enumeration of the abstract table on the implementation",
   design="§8 C04"),
 "C05": dict(
   text="Theorems: decode(encode ts p) = (sort ts, p) for every list of strings (U+0000/U+0001, empty, duplicates); MatchTopics is the order-insensitive subscribed∧(¬private∨authorised) predicate; for every history of add/remove/dispatch/evict on the index, with any cache size, a dispatch returns exactly the indexed values passing the test (inductive invariant over the exact skipfilter model). Tie: NewSubscriberList with sizes {1,2,8,default} on generated histories, recipients compared as sets, and against the naive predicate.",
   note=TB + "skipfilter/skiplist/roaring/golang-lru enter through the exact executable model checked differentially; concurrent MatchAny is C14's business.",
   technique="Lean 4 proof (round-trip by induction; refinement invariant over operation histories) + differential correspondence",
   design="§8 C05"),
 "C11": dict(
   text="Theorem over an exact executable model of the sharded-LRU selector store: for every lookup history, capacity and shard count (0 = disabled) every answer equals the protocol's relation (cache transparency by a weak-cache invariant; thread-modular form for concurrent evaluation). The key expression and the hit validation are regenerated from topicselector.go on every run and the obligation is re-proved against them; the model is run against the real store on generated and collision-seeking histories. The template library itself is no longer a parameter only: Model/Template is an executable model of uritemplate.New and Template.Regexp().MatchString (family tpl: library vs model), with theorems expansion_matches (every expansion of a level-1 template matches) and lit_var_matches_iff (literal{var} matches exactly the literal followed by unreserved characters, commas and %XX).",
   note=TB + "RFC 6570 semantics (yosida95/uritemplate + Go regexp) enters as the TemplateOracle parameter: partial on that side.",
   technique="Lean 4 proof (invariant + induction over lookup histories) + regenerated-fact obligation + differential correspondence",
   design="§8 C11"),
}

checks = []
for p in props:
    i = p["id"]
    if i in CLAIMED:
        c = CLAIMED[i]
        checks.append({
            "property_id": i,
            "quick_cmd": f"./check {i} quick",
            "thorough_cmd": f"./check {i} thorough",
            "evidence_file": f"/verif/evidence/{i}.json",
            "replay_cmd_template": f"./check {i} quick --replay {{path}}",
            "engine": "lean4+correspondence",
            "level_claimed": {"category": "proof", "text": c["text"], "design_ref": c["design"]},
            "level_note": c["note"],
            "technique": c["technique"],
        })
na = [{"property_id": p["id"], "reason": "not claimed yet: the model/theorems/correspondence for this property are still being built (see DESIGN.md §13); Lean proof is applicable"}
      for p in props if p["id"] not in CLAIMED]
m = {
 "version": 1,
 "setup_cmd": "./setup.sh",
 "hooks": {
   "guard": "verif",
   "enable": "go build -tags verif -overlay /verif/.build/overlay.json (white-box accessors in /verif/harness/overlay are injected at build time; nothing is written into /repo)",
   "baseline_off_cmd": base["cmd"],
   "source_commits": [],
   "add_only": True,
 },
 "engines": [{"name": "lean4+correspondence", "path": "/verif/check", "serves_properties": sorted(CLAIMED),
              "kind_free_text": "Lean 4 theorems over a hand-written executable model (lean/), tied to /repo by a Go differential harness (harness/) and a go/ast fact extractor"}],
 "checks": checks,
 "not_applicable": na,
 "notes": "Fix commits in /repo are listed in known_findings.json under 'fixed'. See DESIGN.md.",
}
json.dump(m, open(os.path.join(ROOT, "MANIFEST.json"), "w"), indent=1, ensure_ascii=False)
print("claimed:", sorted(CLAIMED), "not yet:", len(na))
