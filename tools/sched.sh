#!/bin/bash
# build + run the sched family once, print the first disagreement
cd /verif && timeout 300 tools/build.sh 2>&1 | tail -3
(timeout -s QUIT ${T:-120} .build/vhs ${FAM:-sched} /tmp/sched.json > /tmp/sched.out 2>&1; echo exit=$?; tail -1 /tmp/sched.out | cut -c1-300)
python3 -c "
import json;d=json.load(open('/tmp/sched.json'));print({k:v for k,v in d['distribution'].items() if not k.startswith('steps')});
for v in d['violations'][:6]: print(v['key'], v['what'][:200])
for x in d['disagreements'][:1]:
  print(x['class'],x['at']); print('MODEL',x['model'][-900:]); print('IMPL ',x['impl'][-900:]); print(x['ops']); print(json.dumps(x['case']))"
