// Package jws is the harness's OWN compact-JWS encoder, decoder and verifier (crypto/* only;
// golang-jwt is never used here). It mints the tokens sent to the hub and recomputes the
// abstract token facts (well-formedness, header alg, signature verdict, exp/nbf) the Lean model
// consumes — so that the hub's verdict is compared with an independent one (DESIGN §8 C03).
package jws

import (
	"crypto"
	"crypto/ecdsa"
	"crypto/ed25519"
	"crypto/elliptic"
	"crypto/hmac"
	"crypto/rsa"
	"crypto/sha256"
	"crypto/sha512"
	"crypto/x509"
	"encoding/base64"
	"encoding/json"
	"encoding/pem"
	"hash"
	"io"
	"math"
	"math/big"
	"strings"
	"time"
)

// Key is one configured role key.
type Key struct {
	Alg    string
	Secret []byte // HMAC
	RSA    *rsa.PrivateKey
	EC     *ecdsa.PrivateKey
	Ed     ed25519.PrivateKey
}

// detRand is a deterministic io.Reader for key generation.
type detRand struct{ s uint64 }

func (d *detRand) Read(p []byte) (int, error) {
	for i := range p {
		d.s += 0x9e3779b97f4a7c15
		z := d.s
		z = (z ^ (z >> 30)) * 0xbf58476d1ce4e5b9
		z = (z ^ (z >> 27)) * 0x94d049bb133111eb
		p[i] = byte(z ^ (z >> 31))
	}

	return len(p), nil
}

var rsaCache = map[uint64]*rsa.PrivateKey{}

func NewKey(alg string, seed uint64) *Key {
	var rd io.Reader = &detRand{seed}
	k := &Key{Alg: alg}
	switch {
	case strings.HasPrefix(alg, "HS"):
		k.Secret = make([]byte, 40)
		rd.Read(k.Secret)
		// printable, so that it can also go through a Caddyfile / viper
		for i := range k.Secret {
			k.Secret[i] = "abcdefghijklmnopqrstuvwxyzABCDEFGHIJKLMNOPQRSTUVWXYZ0123456789"[int(k.Secret[i])%62]
		}
	case strings.HasPrefix(alg, "RS"), strings.HasPrefix(alg, "PS"):
		if c, ok := rsaCache[seed]; ok {
			k.RSA = c
		} else {
			key, err := rsa.GenerateKey(rd, 2048)
			if err != nil {
				panic(err)
			}
			rsaCache[seed] = key
			k.RSA = key
		}
	case strings.HasPrefix(alg, "ES"):
		var c elliptic.Curve
		switch alg {
		case "ES256":
			c = elliptic.P256()
		case "ES384":
			c = elliptic.P384()
		default:
			c = elliptic.P521()
		}
		key, err := ecdsa.GenerateKey(c, rd)
		if err != nil {
			panic(err)
		}
		k.EC = key
	case alg == "EdDSA":
		seedb := make([]byte, ed25519.SeedSize)
		rd.Read(seedb)
		k.Ed = ed25519.NewKeyFromSeed(seedb)
	default:
		panic("jws: unsupported alg " + alg)
	}

	return k
}

// ConfigKey returns what is passed to the hub as the role key: the HMAC secret or the PEM of the public key.
func (k *Key) ConfigKey() []byte {
	var pub any
	switch {
	case k.Secret != nil:
		return k.Secret
	case k.RSA != nil:
		pub = &k.RSA.PublicKey
	case k.EC != nil:
		pub = &k.EC.PublicKey
	default:
		pub = k.Ed.Public()
	}
	der, err := x509.MarshalPKIXPublicKey(pub)
	if err != nil {
		panic(err)
	}

	return pem.EncodeToMemory(&pem.Block{Type: "PUBLIC KEY", Bytes: der})
}

func hashFor(alg string) (crypto.Hash, func() hash.Hash) {
	switch alg[2:] {
	case "256":
		return crypto.SHA256, sha256.New
	case "384":
		return crypto.SHA384, sha512.New384
	default:
		return crypto.SHA512, sha512.New
	}
}

func B64(b []byte) string { return base64.RawURLEncoding.EncodeToString(b) }

// SignWith signs signingInput with method alg using key material of k (k.Alg may differ: used for
// key-confusion attacks, e.g. HMAC keyed with the PEM of the public key).
func SignWith(alg string, k *Key, hmacSecret []byte, signingInput string) []byte {
	switch {
	case alg == "none":
		return nil
	case strings.HasPrefix(alg, "HS"):
		_, nh := hashFor(alg)
		m := hmac.New(nh, hmacSecret)
		m.Write([]byte(signingInput))

		return m.Sum(nil)
	case strings.HasPrefix(alg, "RS"):
		ch, nh := hashFor(alg)
		hh := nh()
		hh.Write([]byte(signingInput))
		s, err := rsa.SignPKCS1v15(nil, k.RSA, ch, hh.Sum(nil))
		if err != nil {
			panic(err)
		}

		return s
	case strings.HasPrefix(alg, "PS"):
		ch, nh := hashFor(alg)
		hh := nh()
		hh.Write([]byte(signingInput))
		s, err := rsa.SignPSS(&detRand{1}, k.RSA, ch, hh.Sum(nil), &rsa.PSSOptions{SaltLength: rsa.PSSSaltLengthEqualsHash})
		if err != nil {
			panic(err)
		}

		return s
	case strings.HasPrefix(alg, "ES"):
		_, nh := hashFor(alg)
		hh := nh()
		hh.Write([]byte(signingInput))
		r, s, err := ecdsa.Sign(&detRand{2}, k.EC, hh.Sum(nil))
		if err != nil {
			panic(err)
		}
		n := (k.EC.Curve.Params().BitSize + 7) / 8
		out := make([]byte, 2*n)
		r.FillBytes(out[:n])
		s.FillBytes(out[n:])

		return out
	case alg == "EdDSA":
		return ed25519.Sign(k.Ed, []byte(signingInput))
	}
	panic("jws: cannot sign with " + alg)
}

// Mint builds a compact token: header {"alg":alg,"typ":"JWT"}, the given claims JSON, signed with k.
func Mint(k *Key, claimsJSON string) string {
	return MintAlg(k.Alg, k, k.Secret, claimsJSON)
}

func MintAlg(alg string, k *Key, hmacSecret []byte, claimsJSON string) string {
	hdr, _ := json.Marshal(map[string]string{"alg": alg, "typ": "JWT"})
	si := B64(hdr) + "." + B64([]byte(claimsJSON))

	return si + "." + B64(SignWith(alg, k, hmacSecret, si))
}

// ---------------------------------------------------------------- independent decoding

type MClaim struct {
	Publish   []string    `json:"publish"`
	Subscribe []string    `json:"subscribe"`
	Payload   interface{} `json:"payload"`
}

type numericDate struct {
	set bool
	t   time.Time
}

func (n *numericDate) UnmarshalJSON(b []byte) error {
	if string(b) == "null" {
		return nil
	}
	var f json.Number
	if err := json.Unmarshal(b, &f); err != nil {
		return err
	}
	v, err := f.Float64()
	if err != nil {
		return err
	}
	// second precision, truncated (RFC 7519 NumericDate as golang-jwt reads it by default)
	n.set = true
	n.t = time.Unix(int64(math.Trunc(v)), 0)

	return nil
}

type audience []string

func (a *audience) UnmarshalJSON(b []byte) error {
	var v interface{}
	if err := json.Unmarshal(b, &v); err != nil {
		return err
	}
	switch x := v.(type) {
	case nil, string:
	case []interface{}:
		for _, e := range x {
			if _, ok := e.(string); !ok {
				return &json.UnsupportedValueError{}
			}
		}
	default:
		return &json.UnsupportedValueError{}
	}

	return nil
}

type Claims struct {
	Mercure    MClaim       `json:"mercure"`
	Namespaced *MClaim      `json:"https://mercure.rocks/"`
	Iss        string       `json:"iss"`
	Sub        string       `json:"sub"`
	Aud        audience     `json:"aud"`
	Exp        *numericDate `json:"exp"`
	Nbf        *numericDate `json:"nbf"`
	Iat        *numericDate `json:"iat"`
	Jti        string       `json:"jti"`
}

// Facts are the abstract token facts of the Lean model (Model/Auth.lean AbsToken).
type Facts struct {
	WellFormed bool
	Alg        string
	SigOK      map[string]bool // role -> verifies under that role's configured key with method Alg
	ExpOK      bool
	NbfOK      bool
	Claims     Claims
	ExpMs      int64 // -1 when absent
}

var knownAlgs = map[string]bool{"HS256": true, "HS384": true, "HS512": true, "RS256": true, "RS384": true, "RS512": true,
	"ES256": true, "ES384": true, "ES512": true, "PS256": true, "PS384": true, "PS512": true, "EdDSA": true, "none": true}

// Analyse decodes token on its own and verifies it against each role key.
func Analyse(token string, roles map[string]*Key, now time.Time) Facts {
	f := Facts{SigOK: map[string]bool{}, ExpOK: true, NbfOK: true, ExpMs: -1}
	parts := strings.Split(token, ".")
	if len(parts) != 3 {
		return f
	}
	hb, err := base64.RawURLEncoding.DecodeString(parts[0])
	if err != nil {
		return f
	}
	var hdr map[string]interface{}
	if json.Unmarshal(hb, &hdr) != nil || hdr == nil {
		return f
	}
	pb, err := base64.RawURLEncoding.DecodeString(parts[1])
	if err != nil {
		return f
	}
	if json.Unmarshal(pb, &f.Claims) != nil {
		return f
	}
	alg, ok := hdr["alg"].(string)
	if !ok || !knownAlgs[alg] {
		return f
	}
	f.Alg = alg
	sig, err := base64.RawURLEncoding.DecodeString(parts[2])
	if err != nil {
		return f
	}
	f.WellFormed = true
	si := parts[0] + "." + parts[1]
	for role, k := range roles {
		f.SigOK[role] = k != nil && alg == k.Alg && verify(alg, k, si, sig)
	}
	if f.Claims.Exp != nil && f.Claims.Exp.set {
		f.ExpOK = now.Before(f.Claims.Exp.t)
		f.ExpMs = f.Claims.Exp.t.UnixMilli()
	}
	if f.Claims.Nbf != nil && f.Claims.Nbf.set {
		f.NbfOK = !now.Before(f.Claims.Nbf.t)
	}

	return f
}

func verify(alg string, k *Key, si string, sig []byte) bool {
	switch {
	case strings.HasPrefix(alg, "HS"):
		_, nh := hashFor(alg)
		m := hmac.New(nh, k.Secret)
		m.Write([]byte(si))

		return hmac.Equal(m.Sum(nil), sig)
	case strings.HasPrefix(alg, "RS"):
		ch, nh := hashFor(alg)
		hh := nh()
		hh.Write([]byte(si))

		return rsa.VerifyPKCS1v15(&k.RSA.PublicKey, ch, hh.Sum(nil), sig) == nil
	case strings.HasPrefix(alg, "ES"):
		_, nh := hashFor(alg)
		hh := nh()
		hh.Write([]byte(si))
		n := (k.EC.Curve.Params().BitSize + 7) / 8
		if len(sig) != 2*n {
			return false
		}
		r := new(big.Int).SetBytes(sig[:n])
		s := new(big.Int).SetBytes(sig[n:])

		return ecdsa.Verify(&k.EC.PublicKey, hh.Sum(nil), r, s)
	case alg == "EdDSA":
		return ed25519.Verify(k.Ed.Public().(ed25519.PublicKey), []byte(si), sig)
	}

	return false
}

// PayloadJSON is the canonical text of the payload claim ("" when absent or null).
func PayloadJSON(p interface{}) string {
	if p == nil {
		return ""
	}
	b, _ := json.Marshal(p)

	return string(b)
}
