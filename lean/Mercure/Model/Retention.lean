import Mercure.Model.Hub
/-
  Mercure.Model.Retention — bolt.go `persist` + `cleanup` as a history machine: every publish
  appends under the next sequence number and then, if the cleanup coin says so, deletes every key
  ≤ last − size. A restart changes nothing (the bucket sequence is stored in the file).
-/
namespace Mercure

structure RSt where
  acc : List Update := []            -- every accepted update, never truncated
  db  : List (Nat × Update) := []    -- the bucket
  seq : Nat := 0
  deriving Repr

/-- One publish; `coin = true` means the cleanup ran in this transaction. -/
def rPublish (size : Nat) (st : RSt) (cu : Bool × Update) : RSt :=
  let seq' := st.seq + 1
  let db' := st.db ++ [(seq', cu.2)]
  { acc := st.acc ++ [cu.2], seq := seq', db := if cu.1 then retain size seq' db' else db' }

def rRun (size : Nat) (ps : List (Bool × Update)) : RSt := ps.foldl (rPublish size) {}

/-- The same machine when the retention size may change between publications (the hub restarted with
    another `size` on the same database file): each publication carries the size in force. -/
def rRunV (ps : List (Nat × Bool × Update)) : RSt := ps.foldl (fun st p => rPublish p.1 st p.2) {}

end Mercure
