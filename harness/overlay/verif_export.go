//go:build verif

package mercure

import (
	"encoding/binary"
	"encoding/hex"
	"encoding/json"
	"net/http"
	"strconv"
	"strings"
	"sync/atomic"
	"time"

	"github.com/golang-jwt/jwt/v5"
	bolt "go.etcd.io/bbolt"
)

// White-box accessors for the verification harness (/verif). This file is NOT part of the
// repository: it is injected at build time with `go build -tags verif -overlay`.

// VerifEncode exposes encode (on a copy: encode sorts its argument in place).
func VerifEncode(topics []string, private bool) string {
	cp := append([]string(nil), topics...)

	return encode(cp, private)
}

// VerifDecode exposes decode.
func VerifDecode(f string) ([]string, bool) { return decode(f) }

// VerifMatch exposes TopicSelectorStore.match.
func (tss *TopicSelectorStore) VerifMatch(topic, sel string) bool { return tss.match(topic, sel) }

// VerifAuthorize exposes authorize with the hub's own key functions; it returns
// "ok:<payload JSON>", "anon" or "err".
func VerifAuthorize(h *Hub, r *http.Request, publisher bool) string {
	var (
		c   *claims
		err error
	)
	if publisher {
		c, err = authorize(r, h.publisherJWTKeyFunc, h.publishOrigins, h.cookieName)
	} else {
		c, err = authorize(r, h.subscriberJWTKeyFunc, nil, h.cookieName)
	}
	switch {
	case err != nil:
		return "err"
	case c == nil:
		return "anon"
	}
	if c.Mercure.Payload == nil {
		return "ok:"
	}
	b, _ := json.Marshal(c.Mercure.Payload)

	return "ok:" + string(b)
}

// VerifBoltKeys returns the (sequence, id) of every stored update, in key order.
func VerifBoltKeys(t *BoltTransport) (seqs []uint64, ids []string) {
	_ = t.db.View(func(tx *bolt.Tx) error {
		b := tx.Bucket([]byte(t.bucketName))
		if b == nil {
			return nil
		}
		c := b.Cursor()
		for k, _ := c.First(); k != nil; k, _ = c.Next() {
			seqs = append(seqs, binary.BigEndian.Uint64(k[:8]))
			ids = append(ids, string(k[8:]))
		}

		return nil
	})

	return
}

// VerifSubState exposes the flags and the live queue of a subscriber (read at quiescence only).
func VerifSubState(s *LocalSubscriber) (disconnected, ready bool, liveQueue []string, resp string) {
	for _, u := range s.liveQueue {
		liveQueue = append(liveQueue, u.ID)
	}
	resp = "-"
	select {
	case v := <-s.responseLastEventID:
		resp = v
	default:
	}

	return s.disconnected > 0, s.ready > 0, liveQueue, resp
}

// VerifBoltLastSeq exposes the in-memory lastSeq field.
func VerifBoltLastSeq(t *BoltTransport) uint64 { return t.lastSeq }

// VerifBoltBucketSequence: the bucket's own sequence counter (what NextSequence continues from).
func VerifBoltBucketSequence(t *BoltTransport) (seq uint64) {
	_ = t.db.View(func(tx *bolt.Tx) error {
		if b := tx.Bucket([]byte(t.bucketName)); b != nil {
			seq = b.Sequence()
		}

		return nil
	})

	return
}

// VerifOptions exposes the effective options of a hub.
type VerifOptions struct {
	Anonymous, Subscriptions, HasPublisherKey, HasSubscriberKey bool
	WriteTimeout, DispatchTimeout, Heartbeat                    time.Duration
	PublishOrigins, CORSOrigins                                 []string
	CookieName                                                  string
	Compat7                                                     bool
}

func VerifHubOptions(h *Hub) VerifOptions {
	return VerifOptions{
		Anonymous: h.anonymous, Subscriptions: h.subscriptions,
		HasPublisherKey: h.publisherJWTKeyFunc != nil, HasSubscriberKey: h.subscriberJWTKeyFunc != nil,
		WriteTimeout: h.writeTimeout, DispatchTimeout: h.dispatchTimeout, Heartbeat: h.heartbeat,
		PublishOrigins: h.publishOrigins, CORSOrigins: h.corsOrigins, CookieName: h.cookieName,
		Compat7: h.isBackwardCompatiblyEnabledWith(7),
	}
}

// VerifHubTransport: the transport the hub was built with.
func VerifHubTransport(h *Hub) Transport { return h.transport }

// VerifBoltConfig: the parameters in effect in a Bolt transport.
func VerifBoltConfig(t *BoltTransport) (path, bucket string, size uint64, cleanupFrequency float64) {
	return t.db.Path(), t.bucketName, t.size, t.cleanupFrequency
}

// VerifSubDisconnected: has the subscriber's stream been ended (flag read atomically, no side effect).
func VerifSubDisconnected(s *LocalSubscriber) bool { return atomic.LoadInt32(&s.disconnected) > 0 }

// VerifBoltCorruptLast overwrites the value of the newest stored entry with something json.Unmarshal refuses
// (fault injection for "registration fails half-way").
func VerifBoltCorruptLast(t *BoltTransport) {
	t.db.Update(func(tx *bolt.Tx) error {
		b := tx.Bucket([]byte(t.bucketName))
		if b == nil {
			return nil
		}
		if k, _ := b.Cursor().Last(); k != nil {
			return b.Put(append([]byte{}, k...), []byte("{not json"))
		}

		return nil
	})
}

// VerifBoltValueIDs: for every stored entry, the id inside the stored JSON value ("<undecodable>" when it
// does not decode) next to the id in its key.
func VerifBoltValueIDs(t *BoltTransport) (keyIDs, valueIDs []string) {
	_ = t.db.View(func(tx *bolt.Tx) error {
		b := tx.Bucket([]byte(t.bucketName))
		if b == nil {
			return nil
		}
		c := b.Cursor()
		for k, v := c.First(); k != nil; k, v = c.Next() {
			keyIDs = append(keyIDs, string(k[8:]))
			var u Update
			if err := json.Unmarshal(v, &u); err != nil {
				valueIDs = append(valueIDs, "<undecodable>")
			} else {
				valueIDs = append(valueIDs, u.ID)
			}
		}

		return nil
	})

	return
}

// VerifSubPending: updates waiting in the subscriber's buffer and live queue (read while every other
// thread is parked; no side effect).
func VerifSubPending(s *LocalSubscriber) int { return len(s.out) + len(s.liveQueue) }

// VerifBoltRaw: every (key, value) of the bucket as stored, in cursor order (copies).
func VerifBoltRaw(t *BoltTransport) (keys, values [][]byte) {
	_ = t.db.View(func(tx *bolt.Tx) error {
		b := tx.Bucket([]byte(t.bucketName))
		if b == nil {
			return nil
		}
		c := b.Cursor()
		for k, v := c.First(); k != nil; k, v = c.Next() {
			keys = append(keys, append([]byte{}, k...))
			values = append(values, append([]byte{}, v...))
		}

		return nil
	})

	return
}

// VerifBoltLastEventID exposes the in-memory lastEventID field.
func VerifBoltLastEventID(t *BoltTransport) string { return t.lastEventID }

// VerifDecodeClaims: `json.Unmarshal(payload, &claims{})` — what golang-jwt's ParseWithClaims does with the claims
// segment — with the hub's own claims type, rendered canonically (before validateJWT's namespaced replacement).
func VerifDecodeClaims(payload []byte) string {
	var c claims
	if err := json.Unmarshal(payload, &c); err != nil {
		return "invalid"
	}
	optL := func(l []string) string {
		if l == nil {
			return "~"
		}
		if len(l) == 0 {
			return "-"
		}
		p := make([]string, len(l))
		for i, s := range l {
			p[i] = hex.EncodeToString([]byte(s))
		}

		return strings.Join(p, ",")
	}
	showM := func(m *mercureClaim) string {
		pay := ""
		if m.Payload != nil {
			b, _ := json.Marshal(m.Payload)
			pay = string(b)
		}

		return optL(m.Publish) + "/" + optL(m.Subscribe) + "/" + hex.EncodeToString([]byte(pay))
	}
	showD := func(d *jwt.NumericDate) string {
		if d == nil {
			return "-"
		}

		return strconv.FormatInt(d.Unix(), 10)
	}
	ns := "~"
	if c.MercureNamespaced != nil {
		ns = showM(c.MercureNamespaced)
	}

	return "m=" + showM(&c.Mercure) + " ns=" + ns + " exp=" + showD(c.ExpiresAt) + " nbf=" + showD(c.NotBefore)
}
