import Mercure.Model.Timed
import Mercure.Lemmas.Timed
/-
  C16 — Connections respect heartbeat cadence, maximum duration and token expiry.
  Over the timed model of the connection loop, for all timeouts (0 = disabled), expiry absent or
  anywhere, arbitrary arrival times, optional client close, any horizon.

  Partial by nature: that net/http honours SetWriteDeadline and that `select` serves a due timer
  promptly are runtime assumptions; the virtual clock of the correspondence makes them exact.
-/
namespace Mercure.C16
open Mercure.Timed

def Ev.isWrite : Ev → Bool
  | .comment => true
  | .event _ => true
  | _ => false

def Ev.isEnd : Ev → Bool
  | .selfClose => true
  | .clientClose => true
  | .endWrite => true
  | _ => false

/-- Times of the successful writes, in order. -/
def writeTimes (tr : List (Nat × Ev)) : List Nat := (tr.filter (fun p => Ev.isWrite p.2)).map (·.1)

/-- Every two consecutive elements are related. -/
def Chain (R : Nat → Nat → Prop) : List Nat → Prop
  | [] => True
  | [_] => True
  | a :: b :: l => R a b ∧ Chain R (b :: l)

def Sorted (arr : List (Nat × Nat)) : Prop := arr.Pairwise (fun a b => a.1 ≤ b.1)

/-- The write deadline is the earlier of the maximum duration and the token expiry. -/
theorem deadline_is_earlier_of (c : Cfg) :
    (c.wt = 0 ∧ c.exp = none → c.deadline = none) ∧
    (c.wt ≠ 0 → c.exp = none → c.deadline = some c.wt) ∧
    (c.wt = 0 → ∀ e, c.exp = some e → c.deadline = some e) ∧
    (c.wt ≠ 0 → ∀ e, c.exp = some e → c.deadline = some (min e c.wt)) := by
  refine ⟨?_, ?_, ?_, ?_⟩
  · rintro ⟨h1, h2⟩; simp [Cfg.deadline, h1, h2]
  · intro h1 h2; simp [Cfg.deadline, h1, h2]
  · intro h1 e h2; simp [Cfg.deadline, h1, h2]
  · intro h1 e h2; simp [Cfg.deadline, h1, h2]

/-- Nothing is written successfully at or after the deadline. -/
theorem no_write_after_deadline (c : Cfg) (arr : List (Nat × Nat)) (close : Option Nat) (hz d : Nat)
    (hd : c.deadline = some d) (hpos : 0 < d) :
    ∀ p ∈ run c arr close hz, Ev.isWrite p.2 = true → p.1 < d := by
  intro p hp hw
  refine run_write_lt c arr close hz d hd hpos p hp ?_
  cases h : p.2 <;> simp [h, Ev.isWrite] at hw <;> rfl

/-- On an open stream something is written at least once per heartbeat interval: consecutive
    successful writes are at most `hb` apart… -/
theorem heartbeat_gap (c : Cfg) (arr : List (Nat × Nat)) (close : Option Nat) (hz : Nat)
    (hs : Sorted arr) (hh : c.hb ≠ 0) :
    Chain (fun a b => b ≤ a + c.hb) (writeTimes (run c arr close hz)) := by
  have _ := hs
  have h := run_heartbeat_gap c arr close hz hh
  have e1 : writeTimes (run c arr close hz) = wtimes (run c arr close hz) := by
    have : (fun p : Nat × Ev => Ev.isWrite p.2) = (fun p => isW p.2) := by
      funext p; cases p.2 <;> rfl
    simp only [writeTimes, wtimes, this]
  rw [e1]
  generalize wtimes (run c arr close hz) = l at h
  induction l with
  | nil => trivial
  | cons a l ih =>
    cases l with
    | nil => trivial
    | cons b l => exact ⟨h.1, ih h.2⟩

/-- …and a stream that has not been ended is never silent for a whole interval up to the horizon. -/
theorem heartbeat_until_horizon (c : Cfg) (arr : List (Nat × Nat)) (close : Option Nat) (hz : Nat)
    (hs : Sorted arr) (hh : c.hb ≠ 0)
    (hopen : ∀ p ∈ run c arr close hz, Ev.isEnd p.2 = false) :
    ∃ t, (writeTimes (run c arr close hz)).getLast? = some t ∧ hz < t + c.hb := by
  have e1 : writeTimes (run c arr close hz) = wtimes (run c arr close hz) := by
    have : (fun p : Nat × Ev => Ev.isWrite p.2) = (fun p => isW p.2) := by
      funext p; cases p.2 <;> rfl
    simp only [writeTimes, wtimes, this]
  rw [e1]
  rcases run_heartbeat_until_horizon c arr close hz hs hh with ⟨p, hp, hpe⟩ | h
  · have := hopen p hp
    cases h : p.2 <;> simp [h, Ev.isEnd, isE] at this hpe
  · exact h

/-- With a maximum duration configured the hub ends the connection itself exactly one dispatch
    timeout before the deadline (at once if that instant is already past) — and not earlier —
    unless the client left first. -/
theorem self_disconnect_exact (c : Cfg) (arr : List (Nat × Nat)) (close : Option Nat) (hz d : Nat)
    (hs : Sorted arr) (hw : c.wt ≠ 0) (hd : c.deadline = some d) (hhz : d - c.dt ≤ hz)
    (hc : ∀ x, close = some x → d - c.dt < x) :
    (run c arr close hz).getLast? = some (d - c.dt, .selfClose) ∧
    (∀ p ∈ (run c arr close hz).dropLast, Ev.isEnd p.2 = false ∧ p.2 ≠ .failed ∧ p.1 ≤ d - c.dt) := by
  obtain ⟨tr, h1, h2⟩ := run_self_disconnect c arr close hz d hs hw hd hhz hc
  rw [h1]
  refine ⟨by simp, ?_⟩
  rw [List.dropLast_concat]
  intro p hp
  obtain ⟨h3, h4, h5⟩ := h2 p hp
  refine ⟨?_, h4, h5⟩
  cases h : p.2 <;> simp [h, Ev.isEnd, isE] at h3 ⊢

/-- Without a maximum duration the hub never ends the connection by a timer… -/
theorem no_timer_without_max_duration (c : Cfg) (arr : List (Nat × Nat)) (close : Option Nat) (hz : Nat)
    (hw : c.wt = 0) : ∀ p ∈ run c arr close hz, p.2 ≠ .selfClose := by
  exact run_no_selfClose c arr close hz hw

/-- …it ends it on its first write attempt at or after the token expiry (a token already expired
    when the request is made, e = 0, is refused by C03 before any stream exists)… -/
theorem ends_on_first_write_after_expiry (c : Cfg) (arr : List (Nat × Nat)) (close : Option Nat) (hz e : Nat)
    (hw : c.wt = 0) (he : c.exp = some e) (hpos : 0 < e) :
    ∀ t, (t, Ev.failed) ∈ run c arr close hz →
      e ≤ t ∧ (run c arr close hz).getLast? = some (t, .endWrite) ∧
      (∀ p ∈ run c arr close hz, Ev.isWrite p.2 = true → p.1 < e) := by
  intro t ht
  have hd : c.deadline = some e := by simp [Cfg.deadline, hw, he]
  obtain ⟨h1, h2⟩ := run_failed c arr close hz e hd t ht
  exact ⟨h1, h2, no_write_after_deadline c arr close hz e hd hpos⟩

/-- …and never when the token does not expire. -/
theorem never_ends_without_deadline (c : Cfg) (arr : List (Nat × Nat)) (close : Option Nat) (hz : Nat)
    (hw : c.wt = 0) (he : c.exp = none) :
    ∀ p ∈ run c arr close hz, p.2 ≠ .selfClose ∧ p.2 ≠ .failed ∧ p.2 ≠ .endWrite := by
  exact run_no_end c arr close hz hw (by simp [Cfg.deadline, hw, he])

/-! non-vacuity: the three traces replayed by hand against the real handler (DESIGN §4.4) -/
example : run { wt := 60000, dt := 5000, hb := 25000, exp := none } [(30000, 1)] none 200000
    = [(0, .comment), (25000, .comment), (30000, .event 1), (55000, .selfClose)] := by decide +kernel
example : run { wt := 0, dt := 5000, hb := 40000, exp := some 90000 } [] none 200000
    = [(0, .comment), (40000, .comment), (80000, .comment), (120000, .failed), (120000, .endWrite)] := by decide +kernel

end Mercure.C16

#print axioms Mercure.C16.deadline_is_earlier_of
#print axioms Mercure.C16.no_write_after_deadline
#print axioms Mercure.C16.heartbeat_gap
#print axioms Mercure.C16.heartbeat_until_horizon
#print axioms Mercure.C16.self_disconnect_exact
#print axioms Mercure.C16.no_timer_without_max_duration
#print axioms Mercure.C16.ends_on_first_write_after_expiry
#print axioms Mercure.C16.never_ends_without_deadline
