import Mercure.Model.Publish
/-
  Mercure.Model.Subscribe — subscribe.go: the decisions of `registerSubscriber`
  (authorisation, topics, requested last event id) and of the subscription API (`initSubscription`).
-/
namespace Mercure

structure LeidReq where
  header  : Str                  -- r.Header.Get("Last-Event-ID")
  query   : Str                  -- query.Get("lastEventID")
  legacy  : Option (List Str)    -- query["Last-Event-ID"]; none = key absent
  deriving Repr

/-- `retrieveLastEventID` (subscribe.go:257-279). -/
def requestedLEID (compat7 : Bool) (r : LeidReq) : Str :=
  if r.header != [] then r.header
  else if r.query != [] then r.query
  else match r.legacy with
    | some (v :: _) => if compat7 then v else []
    | _ => []

structure SubReq where
  auth   : AuthReq
  topics : List Str              -- r.URL.Query()["topic"]
  leid   : LeidReq
  deriving Repr

inductive SubDecision where
  | refused (status : Nat) (body : Str)
  | accepted (claims : Option Claims) (privateTopics : List Str) (lastEventID : Str)
  deriving Repr

/-- `registerSubscriber` (subscribe.go:158-190) up to `SetTopics`. -/
def subscribeDecision (cfg : HubCfg) (tok : Str → Option Claims) (r : SubReq) : SubDecision :=
  let a : Except AuthErr (Option Claims) :=
    if cfg.subKey then authorize cfg.minHeader cfg.minQuery tok r.auth [] else .ok none
  match a with
  | .error _ => .refused 401 unauthorizedBody
  | .ok c =>
    if cfg.subKey && c.isNone && !cfg.anonymous then .refused 401 unauthorizedBody
    else if r.topics == [] then .refused 400 "Missing \"topic\" parameter.\n".toList
    else
      let priv := match c with
        | some cl => cl.mercure.subscribe.getD []
        | none => []
      .accepted c priv (requestedLEID cfg.compat7 r.leid)

/-- `initSubscription`'s authorisation (subscription.go:113-121): `true` = may proceed. -/
def apiAuthorized (cfg : HubCfg) (M : Str → Str → Bool) (tok : Str → Option Claims) (a : AuthReq)
    (currentURL : Str) : Bool :=
  if !cfg.subKey then true else
  match authorize cfg.minHeader cfg.minQuery tok a [] with
  | .ok (some c) =>
    match c.mercure.subscribe with
    | some sels => canReceive M [currentURL] sels
    | none => false
  | _ => false

end Mercure
