package main

import (
	"fmt"
	"net/url"

	"verifharness/pkg/gen"
	"verifharness/pkg/h"
)

func init() { register("leid", "C08", runLeid) }

// runLeid: histories (empty / plain / truncated by retention / containing an update whose id is the
// literal "earliest"), then one subscribe per combination of the three carriers of the requested id
// x requested id class, on both transports, compat on/off — through the real SubscribeHandler.
func runLeid(c *h.Ctx, r *h.Report) {
	r.Rule = "a history of 0-12 publishes (retention size in {0,1,3}; ids explicit, possibly repeated ([v1 v2 v1]: negotiation resumes after the FIRST occurrence), one of them possibly the literal 'earliest'), then subscribers for the 2^3 combinations of {Last-Event-ID header, lastEventID query, legacy Last-Event-ID query} x requested id in {first stored, middle, last, discarded by retention, unknown, 'earliest'} (different ids in different carriers so precedence is observable) x compat7 on/off x both transports, in one Bolt case out of three with a hub restart before one of the negotiations, through the real handler; the Last-Event-ID response header and the replayed stream are compared with the model. Non-trivial = case with at least two carriers set to different ids or a history truncated by retention; distinct by content."
	o := gen.NewOracle()
	g := installCountingUUID()
	n := c.Scale(120, 1500)
	star := claimsJSON("publish", []string{"*"}, "")
	for i := 0; i < n; i++ {
		rr := c.Rand.Fork()
		cs := hubCase{AllPublic: true, Cfg: hubCfg{PubAlg: "HS256", SubAlg: "HS256", Anonymous: true, Compat7: rr.Bool(), Bolt: i%4 != 0}}
		if cs.Cfg.Bolt {
			cs.Size = h.Pick(rr, []uint64{0, 0, 1, 3})
		}
		np := rr.Intn(13)
		if rr.Chance(1, 8) {
			np = 0
		}
		var ids []string
		for k := 0; k < np; k++ {
			id := fmt.Sprintf("e%d", k)
			if rr.Chance(1, 20) {
				id = "earliest"
			}
			if len(ids) > 0 && rr.Chance(1, 5) {
				id = h.Pick(rr, ids) // publisher-chosen ids may repeat: [v1 v2 v1]
			}
			ids = append(ids, id)
			cs.Ops = append(cs.Ops, hubOp{Op: "pub", Form: url.Values{"topic": {"t"}, "id": {id}, "data": {"d"}}, Claims: star})
		}
		pickID := func() string {
			switch rr.Intn(6) {
			case 0:
				return "earliest"
			case 1:
				return "unknown"
			default:
				if len(ids) == 0 {
					return "unknown"
				}

				return h.Pick(rr, ids)
			}
		}
		// the hub restarted on its history file: negotiation right after a restart, before any new publication
		restartAt := -1
		if cs.Cfg.Bolt && rr.Chance(1, 3) {
			restartAt = rr.Intn(8)
			if rr.Bool() {
				restartAt = 0
			}
		}
		label := 0
		nontrivial := cs.Size > 0 && uint64(np) > cs.Size
		for mask := 0; mask < 8; mask++ {
			if mask == restartAt {
				cs.Ops = append(cs.Ops, hubOp{Op: "restart"})
				r.Count("restart before a negotiation")
			}
			op := hubOp{Op: "sub", Label: label, Topics: []string{"*"}}
			label++
			if mask&1 != 0 {
				op.LeidH = pickID()
			}
			if mask&2 != 0 {
				op.LeidQ = pickID()
			}
			if mask&4 != 0 {
				op.LeidL = []string{pickID()}
				if rr.Chance(1, 6) {
					op.LeidL = []string{}
				}
			}
			if (mask&1 != 0 && mask&2 != 0 && op.LeidH != op.LeidQ) || (mask == 6 && len(op.LeidL) > 0 && op.LeidL[0] != op.LeidQ) {
				nontrivial = true
			}
			cs.Ops = append(cs.Ops, op)
			if rr.Chance(1, 3) {
				id := fmt.Sprintf("m%d", label)
				ids = append(ids, id)
				cs.Ops = append(cs.Ops, hubOp{Op: "pub", Form: url.Values{"topic": {"t"}, "id": {id}, "data": {"d"}}, Claims: star})
			}
		}
		runHubCase(c, r, o, cs, g)
		if nontrivial {
			r.Nontrivial(fmt.Sprint(cs))
		}
		r.Count(fmt.Sprintf("size:%d", cs.Size))
		if cs.Cfg.Bolt {
			r.Count("transport:bolt")
		} else {
			r.Count("transport:local")
		}
		r.Sample(cs.Ops[len(cs.Ops)-1])
	}
}
