package main

import (
	"fmt"
	"net/http"
	"net/url"
	"os"
	"strconv"
	"strings"
	"time"

	"verifharness/pkg/h"
	"verifharness/pkg/jws"

	"github.com/dunglas/mercure"
	"github.com/spf13/viper"
)

func init() { register("cfglegacy", "C19", runCfgLegacy) }

type originArg struct {
	Text  string `json:"text"`
	Valid bool   `json:"valid"`
}

// originPool: the harness's own classification ("*", "null", or scheme://host[:port] only).
var originPool = []originArg{
	{"https://a.example", true}, {"http://localhost:3000", true}, {"*", true}, {"null", true},
	{"a.example", false}, {"https://a.example/path", false}, {"https://user@a.example", false},
	{"https://a.example?x=1", false}, {"https://a.example#f", false}, {"mailto:x", false}, {"://bad", false},
}

type keyArg struct {
	Class string `json:"class"` // absent | text | rsa | ec | ed
	Text  string `json:"-"`
}

var cfgKeys = map[string]*jws.Key{}

func cfgKey(class string) (keyArg, *jws.Key) {
	switch class {
	case "absent":
		return keyArg{Class: "absent"}, nil
	case "text":
		k := jws.NewKey("HS256", 5)

		return keyArg{"text", string(k.ConfigKey())}, k
	}
	alg := map[string]string{"rsa": "RS256", "ec": "ES256", "ed": "EdDSA"}[class]
	k, ok := cfgKeys[class]
	if !ok {
		k = jws.NewKey(alg, 6)
		cfgKeys[class] = k
	}

	return keyArg{class, string(k.ConfigKey())}, k
}

var algPool = []string{"", "HS256", "HS384", "RS256", "ES256", "EdDSA", "RS512", "PS256", "none", "HS999", "hs256"}

type legacyCase struct {
	Defaults      bool        `json:"defaults"`
	Jwt, Pub, Sub keyArg      `json:"-"`
	JwtClass      string      `json:"jwt_key"`
	PubClass      string      `json:"publisher_jwt_key"`
	SubClass      string      `json:"subscriber_jwt_key"`
	JwtAlg        *string     `json:"jwt_algorithm"`
	PubAlg        *string     `json:"publisher_jwt_algorithm"`
	SubAlg        *string     `json:"subscriber_jwt_algorithm"`
	Anonymous     bool        `json:"allow_anonymous"`
	Subs          bool        `json:"subscriptions"`
	WT, DT, HB    *int        `json:"-"`
	WTms          *int        `json:"write_timeout_ms"`
	DTms          *int        `json:"dispatch_timeout_ms"`
	HBms          *int        `json:"heartbeat_interval_ms"`
	POrigins      []originArg `json:"publish_allowed_origins"`
	COrigins      []originArg `json:"cors_allowed_origins"`
	// transport_url: unset | local | bolt-abs | bolt-rel | bolt-nopath | unknown, with query parameters
	UKind   string  `json:"transport_url_kind"`
	USize   *string `json:"transport_url_size"`
	UFreq   *string `json:"transport_url_cleanup_frequency"`
	UBucket *string `json:"transport_url_bucket_name"`
}

func (cs legacyCase) transportURL(dir string) string {
	q := url.Values{}
	set := func(k string, v *string) {
		if v != nil {
			q.Set(k, *v)
		}
	}
	set("size", cs.USize)
	set("cleanup_frequency", cs.UFreq)
	set("bucket_name", cs.UBucket)
	base := ""
	switch cs.UKind {
	case "local":
		return "local://local"
	case "bolt-abs":
		base = "bolt://" + dir + "/u.db"
	case "bolt-rel":
		base = "bolt://u.db"
	case "bolt-nopath":
		base = "bolt://"
	default:
		base = "redis://u.db"
	}
	if len(q) != 0 {
		base += "?" + q.Encode()
	}

	return base
}

// floatWire: strconv.ParseFloat is a parameter of the model: the verdict and the value rendered canonically.
func floatWire(s string) string {
	f, err := strconv.ParseFloat(s, 64)
	if err != nil {
		return "0:"
	}

	return "1:" + h.Hex(strconv.FormatFloat(f, 'g', -1, 64))
}

func originsWire(os []originArg) string {
	if len(os) == 0 {
		return "-"
	}
	var p []string
	for _, o := range os {
		p = append(p, h.Hex(o.Text)+":"+h.B(o.Valid))
	}

	return strings.Join(p, ",")
}

func optAlgWire(a *string) string {
	if a == nil {
		return "-"
	}

	return h.Hex(*a)
}

func optIntWire(a *int) string {
	if a == nil {
		return "-"
	}

	return h.Itoa(*a)
}

func showEffective(o mercure.VerifOptions, pubAlg, subAlg string) string {
	sa := "-"
	if o.HasSubscriberKey {
		sa = h.Hex(subAlg)
	}

	return fmt.Sprintf("ok anon=%s subs=%s wt=%d dt=%d hb=%d pubAlg=%s subAlg=%s porigins=%s corigins=%s cookie=%s compat7=%s",
		h.B(o.Anonymous), h.B(o.Subscriptions), o.WriteTimeout.Milliseconds(), o.DispatchTimeout.Milliseconds(), o.Heartbeat.Milliseconds(),
		h.Hex(pubAlg), sa, h.HexList(o.PublishOrigins), h.HexList(o.CORSOrigins), h.Hex(o.CookieName), h.B(o.Compat7))
}

// probeAlg finds, by sending tokens, which (key, alg) the hub really verifies with for a role.
// crossRoleAccepted: the first algorithm under which the hub derives the token's own identity (payload "cross") from a
// token signed with key k, on the endpoint of the given role; "" when none. Uses the hub's own authorize (white-box
// accessor), so "anonymous because no key is configured" is not mistaken for acceptance.
func crossRoleAccepted(hub *mercure.Hub, publisher bool, class string, k *jws.Key) string {
	for _, alg := range []string{"HS256", "HS384", "HS512", "RS256", "RS384", "RS512", "ES256", "EdDSA"} {
		fam := alg[:2]
		if !(fam == "HS" || (fam == "RS" && class == "rsa") || (fam == "ES" && class == "ec") || (fam == "Ed" && class == "ed")) {
			continue
		}
		var secret []byte
		if fam == "HS" {
			secret = k.ConfigKey()
		}
		tok := jws.MintAlg(alg, k, secret, `{"mercure":{"publish":["*"],"subscribe":["*"],"payload":"cross"}}`)
		method := http.MethodGet
		if publisher {
			method = http.MethodPost
		}
		req, _ := http.NewRequest(method, "http://hub.test"+hubURL, nil)
		req.Header.Set("Authorization", "Bearer "+tok)
		if who := mercure.VerifAuthorize(hub, req, publisher); strings.HasPrefix(who, "ok") {
			return alg
		}
	}

	return ""
}

func probeAlg(hub *mercure.Hub, publisher bool, cands map[string]*jws.Key) string {
	f := &fixture{hub: hub, cookie: "mercureAuthorization"}
	var accepted []string
	for _, alg := range []string{"HS256", "HS384", "HS512", "RS256", "RS384", "RS512", "ES256", "ES384", "ES512", "EdDSA"} {
		fam := alg[:2]
		for class, k := range cands {
			if k == nil {
				continue
			}
			ok := fam == "HS" || (fam == "RS" && class == "rsa") || (fam == "ES" && class == "ec" && alg == "ES256") || (fam == "Ed" && class == "ed")
			if !ok {
				continue
			}
			var tok string
			if fam == "HS" {
				// any configured key text is an HMAC secret (also the PEM of a public key)
				tok = jws.MintAlg(alg, k, k.ConfigKey(), `{"mercure":{"publish":["*"],"subscribe":["*"]}}`)
			} else {
				tok = jws.MintAlg(alg, k, nil, `{"mercure":{"publish":["*"],"subscribe":["*"]}}`)
			}
			a := authParts{Headers: []string{"Bearer " + tok}}
			var st int
			if publisher {
				st = f.doPublish(a, "application/x-www-form-urlencoded", "topic=t&data=d", "").Status()
			} else {
				// a valid token is accepted (200); an invalid one is 401 even when anonymous subscribers are allowed
				st = f.doGet(a, hubURL, url.Values{"topic": {"t"}}, nil).Status()
			}
			if st == 200 {
				accepted = append(accepted, alg)

				break
			}
		}
	}

	// every algorithm the hub accepts for this role: exactly the configured one, or the configuration is
	// not the one in effect
	if len(accepted) > 0 {
		return strings.Join(accepted, "+")
	}

	return "?"
}

func runLegacyCase(c *h.Ctx, r *h.Report, cs legacyCase) {
	v := viper.New()
	if cs.Defaults {
		mercure.SetConfigDefaults(v)
	}
	dir := scratchDir()
	defer os.RemoveAll(dir)
	if wd, err := os.Getwd(); err == nil {
		defer os.Chdir(wd)
	}
	os.Chdir(dir) // relative database paths (updates.db, u.db) land in the scratch directory
	tline := []string{"cfg.transport", "legacy=1", "defaults=" + h.B(cs.Defaults)}
	if cs.UKind != "" && cs.UKind != "unset" {
		tu := cs.transportURL(dir)
		v.Set("transport_url", tu)
		u, perr := url.Parse(tu)
		if perr != nil {
			panic(perr)
		}
		q := u.Query()
		tline = append(tline, "url=1", "scheme="+h.Hex(u.Scheme), "upath="+h.Hex(u.Path), "host="+h.Hex(u.Host), "usize="+h.Hex(q.Get("size")),
			"ufreq="+h.Hex(q.Get("cleanup_frequency")), "ufreqarg="+floatWire(q.Get("cleanup_frequency")), "ubucket="+h.Hex(q.Get("bucket_name")))
	} else {
		tline = append(tline, "url=0")
	}
	setKey := func(name string, k keyArg) {
		if k.Class != "absent" {
			v.Set(name, k.Text)
		}
	}
	setKey("jwt_key", cs.Jwt)
	setKey("publisher_jwt_key", cs.Pub)
	setKey("subscriber_jwt_key", cs.Sub)
	if cs.JwtAlg != nil {
		v.Set("jwt_algorithm", *cs.JwtAlg)
	}
	if cs.PubAlg != nil {
		v.Set("publisher_jwt_algorithm", *cs.PubAlg)
	}
	if cs.SubAlg != nil {
		v.Set("subscriber_jwt_algorithm", *cs.SubAlg)
	}
	if cs.Anonymous {
		v.Set("allow_anonymous", true)
	}
	if cs.Subs {
		v.Set("subscriptions", true)
	}
	dur := func(name string, ms *int) {
		if ms != nil {
			v.Set(name, time.Duration(*ms)*time.Millisecond)
		}
	}
	dur("write_timeout", cs.WTms)
	dur("dispatch_timeout", cs.DTms)
	dur("heartbeat_interval", cs.HBms)
	texts := func(os []originArg) []string {
		var t []string
		for _, o := range os {
			t = append(t, o.Text)
		}

		return t
	}
	if len(cs.POrigins) > 0 {
		v.Set("publish_allowed_origins", texts(cs.POrigins))
	}
	if len(cs.COrigins) > 0 {
		v.Set("cors_allowed_origins", texts(cs.COrigins))
	}
	var hub *mercure.Hub
	var err error
	func() {
		defer func() {
			if p := recover(); p != nil {
				err = fmt.Errorf("panic: %v", p)
			}
		}()
		hub, err = mercure.NewHubFromViper(v)
	}()
	line := h.Line("cfg.legacy", "defaults="+h.B(cs.Defaults), "jwtKey="+cs.Jwt.Class, "jwtAlg="+optAlgWire(cs.JwtAlg),
		"pubKey="+cs.Pub.Class, "pubAlg="+optAlgWire(cs.PubAlg), "subKey="+cs.Sub.Class, "subAlg="+optAlgWire(cs.SubAlg),
		"anon="+h.B(cs.Anonymous), "subs="+h.B(cs.Subs), "wt="+optIntWire(cs.WTms), "dt="+optIntWire(cs.DTms), "hb="+optIntWire(cs.HBms),
		"porigins="+originsWire(cs.POrigins), "corigins="+originsWire(cs.COrigins))
	model := c.Driver.Ask1(line)
	tmodel := c.Driver.Ask1(h.Line(tline...))
	r.Evaluations += 2
	impl := "err"
	rp := map[string]any{"family": "cfglegacy", "case": cs}
	if err == nil {
		o := mercure.VerifHubOptions(hub)
		_, jk := cfgKey(cs.Jwt.Class)
		_, pk := cfgKey(cs.Pub.Class)
		_, sk := cfgKey(cs.Sub.Class)
		pubAlg := probeAlg(hub, true, map[string]*jws.Key{cs.Pub.Class: pk, cs.Jwt.Class + "": jk})
		subAlg := "-"
		if o.HasSubscriberKey {
			subAlg = probeAlg(hub, false, map[string]*jws.Key{cs.Sub.Class: sk, cs.Jwt.Class + "": jk})
		}
		impl = showEffective(o, pubAlg, subAlg)
		if strings.Contains(pubAlg, "+") || strings.Contains(subAlg, "+") {
			r.Violate(h.Violation{Key: "C19:tokens-of-another-algorithm-accepted",
				What: fmt.Sprintf("legacy options %s: the hub accepts publisher tokens signed with %s and subscriber tokens signed with %s — more than the one configured algorithm per role", line, pubAlg, subAlg), Replay: rp})
		}
		switch t := mercure.VerifHubTransport(hub).(type) {
		case *mercure.BoltTransport:
			p, b, sz, fr := mercure.VerifBoltConfig(t)
			impl += fmt.Sprintf(" | ok kind=bolt path=%s bucket=%s size=%d freq=%s", h.Hex(p), h.Hex(b), sz, h.Hex(strconv.FormatFloat(fr, 'g', -1, 64)))
			r.Count("transport in effect: bolt")
		case *mercure.LocalTransport:
			impl += " | ok kind=local"
			r.Count("transport in effect: local")
		default:
			impl += fmt.Sprintf(" | ok kind=%T", t)
		}
		// fail-closed oracle on the implementation alone: a hub that started must not be weaker than configured
		anonProbe := (&fixture{hub: hub, cookie: "mercureAuthorization"}).doGet(authParts{}, hubURL, url.Values{"topic": {"t"}}, nil).Status()
		if !cs.Anonymous && anonProbe == 200 {
			r.Violate(h.Violation{Key: "C19:anonymous-subscribers-accepted-although-not-allowed",
				What:   fmt.Sprintf("legacy options %s start a hub that accepts a subscriber with no token although allow_anonymous is false", line),
				Replay: rp})
		}
		// the keys in effect are the configured ones: with neither subscriber_jwt_key nor jwt_key there is no
		// subscriber key at all (every subscriber is anonymous, a presented token is not even looked at) — in
		// particular the publisher's key does not verify subscriber tokens
		if cs.Sub.Class == "absent" && cs.Jwt.Class == "absent" {
			garbage := (&fixture{hub: hub, cookie: "mercureAuthorization"}).doGet(authParts{Headers: []string{"Bearer aaaaaaaaaaaaaaaaaaaaaaaaaaaaaaaaaaaa.bbbbbbbbbbbbbbbbbbbbbbbbbbbbbbbbbbbbbbbbbbbb.cccccccccccccccccccccccccccccccccccccccccc"}}, hubURL, url.Values{"topic": {"t"}}, nil).Status()
			if o.HasSubscriberKey || (cs.Anonymous && garbage != 200) {
				r.Violate(h.Violation{Key: "C19:subscriber-key-in-effect-although-none-configured",
					What:   fmt.Sprintf("legacy options %s configure no subscriber key, yet the hub verifies subscriber tokens (key function present: %v; a subscriber presenting an unverifiable token is answered %d instead of being treated as anonymous)", line, o.HasSubscriberKey, garbage),
					Replay: rp})
			}
		}
		// C03 — the two roles' keys are not interchangeable: a token that only verifies with a key configured for the
		// other role grants nothing (it is not even "verified": the identity the hub derives is never that token's)
		effPub, effSub := cs.Pub.Class, cs.Sub.Class
		if effPub == "absent" {
			effPub = cs.Jwt.Class
		}
		if effSub == "absent" {
			effSub = cs.Jwt.Class
		}
		if effPub != effSub {
			for _, probe := range []struct {
				class     string
				publisher bool
			}{{effPub, false}, {effSub, true}} {
				if probe.class == "absent" {
					continue
				}
				_, k := cfgKey(probe.class)
				if alg := crossRoleAccepted(hub, probe.publisher, probe.class, k); alg != "" {
					role := map[bool]string{true: "publisher", false: "subscriber"}[probe.publisher]
					for _, key := range []string{"C03", "C19"} {
						r.Violate(h.Violation{Key: key + ":token-verified-with-the-other-role's-key",
							What: fmt.Sprintf("legacy options %s: a %s token signed (%s) with the key configured only for the other role (%s) is verified and its claims are used", line, role, alg, probe.class), Replay: rp})
					}
				}
			}
			r.Count("roles with different keys: cross-role tokens probed")
		}
		if cs.HBms != nil && *cs.HBms == 0 && o.Heartbeat != 0 {
			r.Violate(h.Violation{Key: "C19:heartbeat-zero-not-applied",
				What: fmt.Sprintf("heartbeat_interval=0s (documented: 0s to disable) yields an effective heartbeat of %v", o.Heartbeat), Replay: rp})
		}
		if cs.DTms != nil && *cs.DTms == 0 && o.DispatchTimeout != 0 {
			r.Violate(h.Violation{Key: "C19:dispatch-timeout-zero-not-applied",
				What: fmt.Sprintf("dispatch_timeout=0s (documented: 0s to disable) yields an effective dispatch timeout of %v", o.DispatchTimeout), Replay: rp})
		}
		hub.Stop()
		r.Count("started")
	} else {
		r.Count("rejected")
	}
	m := model
	if strings.HasPrefix(m, "err:") || strings.HasPrefix(tmodel, "err:") {
		if !strings.HasPrefix(m, "err:") {
			r.Count("rejected by the model because of the transport: " + tmodel)
		}
		m = "err"
	} else {
		m += " | " + tmodel
	}
	if m != impl {
		r.Disagree(h.Disagreement{Class: "C19.provisionLegacy", Case: cs, Model: model, Impl: impl + fmt.Sprintf(" (%v)", err)})
	}
	if cs.Pub.Class != "absent" || cs.Jwt.Class != "absent" {
		r.Nontrivial(line)
	}
	r.Sample(map[string]any{"line": line, "impl": impl})
}

func runCfgLegacy(c *h.Ctx, r *h.Report) {
	r.Rule = "legacy viper options through NewHubFromViper (with and without SetConfigDefaults): jwt_key / publisher_jwt_key / subscriber_jwt_key in {absent, HMAC secret, RSA / EC / Ed25519 public PEM} x the three *_algorithm options in {unset, '', HS256, HS384, RS256, ES256, EdDSA, RS512, PS256, none, HS999, hs256} x allow_anonymous x subscriptions x the three durations in {unset, 0, other} x publish / CORS origins from a pool of valid and invalid origins x transport_url in {unset, local://, bolt:// absolute / relative / without path, unknown scheme} with size / cleanup_frequency / bucket_name parameters from pools of well-formed and malformed arguments. The effective options and the transport in effect (kind, file, bucket, size, cleanup frequency) are read back (white-box accessor) and the effective verification key/algorithm of each role is found by probing with tokens minted by the harness; compared with the model. Oracles on the implementation alone: a hub that starts never accepts anonymous subscribers unless allowed; a duration set to 0 is disabled. Non-trivial = configuration with a publisher key (so that start-up gets past the first check); distinct by content."
	// NewHubFromViper builds a zap production logger on stderr: silence it for this family
	if devnull, err := os.OpenFile(os.DevNull, os.O_WRONLY, 0); err == nil {
		saved := os.Stderr
		os.Stderr = devnull
		defer func() { os.Stderr = saved }()
	}
	pick := func(rr *h.Rand) *string {
		if rr.Chance(1, 2) {
			return nil
		}
		a := h.Pick(rr, algPool)

		return &a
	}
	pickDur := func(rr *h.Rand) *int {
		switch rr.Intn(4) {
		case 0:
			z := 0

			return &z
		case 1:
			d := h.Pick(rr, []int{1000, 15000, 600000, 40000, 5000})

			return &d
		}

		return nil
	}
	classes := []string{"absent", "absent", "text", "text", "rsa", "ec", "ed"}
	n := c.Scale(1500, 40000)
	for i := 0; i < n; i++ {
		rr := c.Rand.Fork()
		cs := legacyCase{Defaults: rr.Chance(3, 4), Anonymous: rr.Chance(1, 3), Subs: rr.Chance(1, 4)}
		cs.JwtClass, cs.PubClass, cs.SubClass = h.Pick(rr, classes), h.Pick(rr, classes), h.Pick(rr, classes)
		cs.Jwt, _ = cfgKey(cs.JwtClass)
		cs.Pub, _ = cfgKey(cs.PubClass)
		cs.Sub, _ = cfgKey(cs.SubClass)
		cs.JwtAlg, cs.PubAlg, cs.SubAlg = pick(rr), pick(rr), pick(rr)
		// bias towards consistent key/alg pairs so that many configurations start
		if rr.Chance(2, 3) {
			fix := func(class string, alg **string) {
				m := map[string]string{"text": "HS256", "rsa": "RS256", "ec": "ES256", "ed": "EdDSA"}
				if a, ok := m[class]; ok {
					*alg = &a
				}
			}
			fix(cs.PubClass, &cs.PubAlg)
			fix(cs.SubClass, &cs.SubAlg)
			if cs.PubClass == "absent" || cs.SubClass == "absent" {
				fix(cs.JwtClass, &cs.JwtAlg)
				if cs.PubClass == "absent" {
					cs.PubAlg = nil
				}
				if cs.SubClass == "absent" {
					cs.SubAlg = nil
				}
			}
		}
		cs.WTms, cs.DTms, cs.HBms = pickDur(rr), pickDur(rr), pickDur(rr)
		for k := rr.Intn(3); k > 0; k-- {
			o := h.Pick(rr, originPool)
			if rr.Chance(3, 4) {
				o = originPool[rr.Intn(4)]
			}
			cs.POrigins = append(cs.POrigins, o)
		}
		if rr.Chance(1, 4) {
			cs.COrigins = append(cs.COrigins, h.Pick(rr, originPool))
		}
		cs.UKind = h.Pick(rr, []string{"unset", "unset", "local", "local", "bolt-abs", "bolt-rel", "bolt-nopath", "unknown"})
		sizePool := []string{"0", "5", "100", "007", "010", "18446744073709551615", "18446744073709551616", "-1", "1_0", "abc", "1e3", "+3", "3 ", "0x10", "0b11", "0o17"}
		freqPool := []string{"0", "1", "0.5", "0.3", "1e-1", ".5", "x", "0x1p-2", "1_0", "2"}
		if !rr.Chance(1, 4) {
			sizePool, freqPool = sizePool[:5], freqPool[:6]
		}
		pickS := func(pool []string) *string {
			if !rr.Bool() {
				return nil
			}
			s := h.Pick(rr, pool)

			return &s
		}
		cs.USize, cs.UFreq, cs.UBucket = pickS(sizePool), pickS(freqPool), pickS([]string{"updates", "b", "", "my bucket"})
		runLegacyCase(c, r, cs)
	}
}
