import Mercure.Model.Auth
import Mercure.Model.Json
/-
  Mercure.Model.Claims — from the bytes of a token's payload segment to the hub's `claims` value:
      json.Unmarshal(payload, &claims{})            (golang-jwt v5 ParseWithClaims, default options)
  with   type claims struct { Mercure mercureClaim `json:"mercure"`
                               MercureNamespaced *mercureClaim `json:"https://mercure.rocks/"`
                               jwt.RegisteredClaims }
         type mercureClaim struct { Publish, Subscribe []string; Payload interface{} }   (authorization.go)

  Until now the harness decoded the payload with a mirror struct through encoding/json and handed the
  driver the decoded claims. This module is an independent definition of that decoding:

  * a JSON parser for the whole grammar (RFC 8259 as encoding/json's scanner accepts it: the four
    whitespace characters, literals, the number grammar, strings with every escape, arrays, objects,
    nothing after the value);
  * encoding/json's rules for storing a value into those Go types:
      - a key selects the field with exactly that name, else the field equal under simple case folding
        (ASCII letters, 'ſ' ~ 's', KELVIN SIGN ~ 'k'); unknown keys are skipped;
      - the members of an object are stored **in order, into the same struct**: a repeated key overwrites
        what it mentions and keeps the rest (two "mercure" objects merge);
      - `null` leaves a struct, a string and a string element as they are (a string element of a slice that is
        decoded a second time keeps the value the first decoding left at that index), makes a slice nil, a
        pointer nil, an interface nil;
      - `[]string` takes an array whose elements are strings (or null = ""), anything else is a type
        error; a type error anywhere in a known field makes the whole decoding fail (the token is invalid);
      - `*NumericDate` (exp, nbf, iat): a number, or a string spelling a number; truncated to the second;
      - `ClaimStrings` (aud): a string, an array of strings, or null; `iss`, `sub`, `jti`: strings.
  The payload claim (`interface{}`) is kept as the compact re-serialisation of the value (members in source
  order, numbers as written).

  Out of the model: input that is not valid UTF-8 (the driver receives `List Char`), nesting deeper than
  10000 (encoding/json's limit), numbers whose float64 rounding crosses a second boundary (more than 15
  significant digits) or does not fit int64.
-/
namespace Mercure.ClaimsJson

inductive JVal where
  | null
  | bool (b : Bool)
  | num (raw : Str)
  | str (s : Str)
  | arr (xs : List JVal)
  | obj (kvs : List (Str × JVal))
  deriving Repr

def isWs (c : Char) : Bool := c == ' ' || c == '\t' || c == '\n' || c == '\r'

def skipWs (s : Str) : Str := s.dropWhile isWs

/-- JSON number: `-? (0 | [1-9][0-9]*) (\. [0-9]+)? ([eE] [+-]? [0-9]+)?` — the text and the rest. -/
def parseNum (s : Str) : Option (Str × Str) :=
  let (sign, s1) := match s with
    | '-' :: r => (['-'], r)
    | _ => ([], s)
  let ds := s1.takeWhile Char.isDigit
  let r1 := s1.dropWhile Char.isDigit
  if ds.isEmpty then none
  else if ds.length > 1 && ds.head? == some '0' then none
  else
    let fracPart : Option (Str × Str) := match r1 with
      | '.' :: r =>
        let fd := r.takeWhile Char.isDigit
        if fd.isEmpty then none else some ('.' :: fd, r.dropWhile Char.isDigit)
      | _ => some ([], r1)
    match fracPart with
    | none => none
    | some (frac, r2) =>
      let expPart : Option (Str × Str) := match r2 with
        | e :: r =>
          if e == 'e' || e == 'E' then
            let (sg, r') := match r with
              | '+' :: q => (['+'], q)
              | '-' :: q => (['-'], q)
              | _ => ([], r)
            let ed := r'.takeWhile Char.isDigit
            if ed.isEmpty then none else some (e :: sg ++ ed, r'.dropWhile Char.isDigit)
          else some ([], r2)
        | [] => some ([], r2)
      match expPart with
      | none => none
      | some (ex, r3) => some (sign ++ ds ++ frac ++ ex, r3)

mutual
/-- one value, leading whitespace allowed -/
def parseVal : Nat → Str → Option (JVal × Str)
  | 0, _ => none
  | fuel + 1, s =>
    match skipWs s with
    | 'n' :: r => (Json.expect "ull".toList r).map (fun r => (.null, r))
    | 't' :: r => (Json.expect "rue".toList r).map (fun r => (.bool true, r))
    | 'f' :: r => (Json.expect "alse".toList r).map (fun r => (.bool false, r))
    | '"' :: r => (Json.parseStr ('"' :: r)).map (fun (v, r) => (.str v, r))
    | '[' :: r =>
      match skipWs r with
      | ']' :: r' => some (.arr [], r')
      | _ => parseElems fuel r []
    | '{' :: r =>
      match skipWs r with
      | '}' :: r' => some (.obj [], r')
      | _ => parseMembers fuel r []
    | t => (parseNum t).map (fun (n, r) => (.num n, r))
/-- the elements of a non-empty array (accumulator reversed) -/
def parseElems : Nat → Str → List JVal → Option (JVal × Str)
  | 0, _, _ => none
  | fuel + 1, s, acc =>
    match parseVal fuel s with
    | none => none
    | some (v, r) =>
      match skipWs r with
      | ',' :: r' => parseElems fuel r' (v :: acc)
      | ']' :: r' => some (.arr (v :: acc).reverse, r')
      | _ => none
/-- the members of a non-empty object (accumulator reversed) -/
def parseMembers : Nat → Str → List (Str × JVal) → Option (JVal × Str)
  | 0, _, _ => none
  | fuel + 1, s, acc =>
    match Json.parseStr (skipWs s) with
    | none => none
    | some (k, r) =>
      match skipWs r with
      | ':' :: r' =>
        match parseVal fuel r' with
        | none => none
        | some (v, r'') =>
          match skipWs r'' with
          | ',' :: r3 => parseMembers fuel r3 ((k, v) :: acc)
          | '}' :: r3 => some (.obj ((k, v) :: acc).reverse, r3)
          | _ => none
      | _ => none
end

/-- `json.Valid` + decoding into `interface{}`: one value, nothing but whitespace after it. -/
def parseJSON (s : Str) : Option JVal :=
  match parseVal (2 * s.length + 2) s with
  | some (v, r) => if skipWs r == [] then some v else none
  | none => none

/-! ### compact re-serialisation (for the `payload` claim) -/

def hex4 (n : Nat) : Str :=
  let d (k : Nat) : Char := if k < 10 then Char.ofNat (48 + k) else Char.ofNat (87 + k)
  [d (n / 4096 % 16), d (n / 256 % 16), d (n / 16 % 16), d (n % 16)]

/-- a string literal: `"` and `\` escaped, control characters as \u00XX, everything else literal -/
def quote (s : Str) : Str :=
  '"' :: (s.flatMap fun c =>
    if c == '"' then ['\\', '"'] else if c == '\\' then ['\\', '\\']
    else if c.toNat < 32 then ['\\', 'u'] ++ hex4 c.toNat else [c]) ++ ['"']

mutual
def render : JVal → Str
  | .null => "null".toList
  | .bool true => "true".toList
  | .bool false => "false".toList
  | .num raw => raw
  | .str s => quote s
  | .arr xs => '[' :: renderList xs ++ [']']
  | .obj kvs => '{' :: renderMembers kvs ++ ['}']
def renderList : List JVal → Str
  | [] => []
  | [x] => render x
  | x :: rest => render x ++ ',' :: renderList rest
def renderMembers : List (Str × JVal) → Str
  | [] => []
  | [(k, v)] => quote k ++ ':' :: render v
  | (k, v) :: rest => quote k ++ ':' :: render v ++ ',' :: renderMembers rest
end

/-! ### encoding/json: storing a value into the hub's claim types -/

/-- simple case folding of a key, as far as the field names of `claims` can tell -/
def foldChar (c : Char) : Char :=
  if 'A' ≤ c && c ≤ 'Z' then Char.ofNat (c.toNat + 32)
  else if c.toNat == 0x17F then 's'
  else if c.toNat == 0x212A then 'k'
  else c

def foldKey (k : Str) : Str := k.map foldChar

/-- the field a key selects among `names` (all lower case): exact name first, else equal under folding -/
def selectField (names : List Str) (k : Str) : Option Str :=
  if names.contains k then some k
  else names.find? (fun n => foldKey k == n)

/-- `[]string`. encoding/json decodes an array **into the slice that is already there**: the length is reset, the
    backing array is kept, and a `null` element is "no change" — so it leaves in place whatever an earlier
    decoding of the same field (a repeated key) had written at that index (the zero value "" where nothing was).
    `back` is that backing array (the cells written so far; the current slice is a prefix of it). `null` for the
    whole value makes the slice nil, `[]` makes a fresh empty slice: both drop the backing array. -/
def storeElems : List JVal → List Str → Option (List Str)
  | [], _ => some []
  | x :: xs, back =>
    match (match x with
      | JVal.str s => some s
      | JVal.null => some (back.headD [])
      | _ => none) with
    | none => none
    | some v => (storeElems xs back.tail).map (v :: ·)

def storeStrings (back : List Str) : JVal → Option (Option (List Str) × List Str)
  | .null => some (none, [])
  | .arr [] => some (some [], [])
  | .arr xs => (storeElems xs back).map fun r => (some r, r ++ back.drop r.length)
  | _ => none

/-- `string` -/
def storeString : JVal → Bool
  | .str _ => true
  | .null => true
  | _ => false

/-- jwt.ClaimStrings.UnmarshalJSON -/
def storeAudience : JVal → Bool
  | .null => true
  | .str _ => true
  | .arr xs => xs.all fun (x : JVal) => match x with | JVal.str _ => true | _ => false
  | _ => false

/-- the value of a decimal numeral with optional fraction and exponent, truncated toward zero to a whole
    number of seconds; `none` when negative (the hub's clock is after 1970: an instant before the epoch is
    reported as second 0 with the flag `neg`). -/
def truncSeconds (raw : Str) : Nat × Bool :=
  let (neg, s) := match raw with
    | '-' :: r => (true, r)
    | _ => (false, raw)
  let ip := s.takeWhile Char.isDigit
  let r1 := s.dropWhile Char.isDigit
  let (fp, r2) := match r1 with
    | '.' :: r => (r.takeWhile Char.isDigit, r.dropWhile Char.isDigit)
    | _ => ([], r1)
  let (eneg, ed) := match r2 with
    | _ :: '-' :: q => (true, q)
    | _ :: '+' :: q => (false, q)
    | _ :: q => (false, q)
    | [] => (false, [])
  let e := Nat.ofDigitChars 10 ed 0
  let mant := Nat.ofDigitChars 10 (ip ++ fp) 0         -- value = mant * 10^(e' - fp.length)
  let v :=
    if eneg then mant / 10 ^ (e + fp.length)
    else if e ≥ fp.length then mant * 10 ^ (e - fp.length)
    else mant / 10 ^ (fp.length - e)
  (v, neg && v != 0)

/-- `*jwt.NumericDate`: a number, or a string that spells one; null = absent -/
def storeDate : JVal → Option (Option (Nat × Bool))
  | .null => some none
  | .num raw => some (some (truncSeconds raw))
  | .str s =>
    match parseNum s with
    | some (raw, []) => some (some (truncSeconds raw))
    | _ => none
  | _ => none

/-- a `mercureClaim` being filled; `payload = none` is a nil interface -/
structure M where
  publish   : Option (List Str) := none
  subscribe : Option (List Str) := none
  payload   : Option JVal := none
  pubBack   : List Str := []          -- backing arrays of the two slices (see `storeStrings`)
  subBack   : List Str := []

def mFields : List Str := ["publish".toList, "subscribe".toList, "payload".toList]

/-- store the members of an object into a `mercureClaim`, in order -/
def storeMembersM : List (Str × JVal) → M → Option M
  | [], m => some m
  | (k, v) :: rest, m =>
    match selectField mFields k with
    | none => storeMembersM rest m
    | some f =>
      if f == "publish".toList then
        match storeStrings m.pubBack v with
        | some (p, b) => storeMembersM rest { m with publish := p, pubBack := b }
        | none => none
      else if f == "subscribe".toList then
        match storeStrings m.subBack v with
        | some (p, b) => storeMembersM rest { m with subscribe := p, subBack := b }
        | none => none
      else
        storeMembersM rest { m with payload := match v with | .null => none | v => some v }

/-- `mercureClaim` (a struct): null leaves it alone, an object is merged into it, anything else is a type error -/
def storeM (m : M) : JVal → Option M
  | .null => some m
  | .obj kvs => storeMembersM kvs m
  | _ => none

/-- `*mercureClaim`: null makes it nil, an object is merged into the pointee (allocated when nil) -/
def storeMPtr (m : Option M) : JVal → Option (Option M)
  | .null => some none
  | .obj kvs => (storeMembersM kvs (m.getD {})).map some
  | _ => none

/-- the `claims` value being filled -/
structure C where
  mercure    : M := {}
  namespaced : Option M := none
  exp        : Option (Nat × Bool) := none
  nbf        : Option (Nat × Bool) := none

def cFields : List Str :=
  ["mercure".toList, "https://mercure.rocks/".toList, "iss".toList, "sub".toList, "aud".toList,
   "exp".toList, "nbf".toList, "iat".toList, "jti".toList]

def storeMembersC : List (Str × JVal) → C → Option C
  | [], c => some c
  | (k, v) :: rest, c =>
    match selectField cFields k with
    | none => storeMembersC rest c
    | some f =>
      if f == "mercure".toList then
        match storeM c.mercure v with
        | some m => storeMembersC rest { c with mercure := m }
        | none => none
      else if f == "https://mercure.rocks/".toList then
        match storeMPtr c.namespaced v with
        | some m => storeMembersC rest { c with namespaced := m }
        | none => none
      else if f == "exp".toList then
        match storeDate v with
        | some d => storeMembersC rest { c with exp := d }
        | none => none
      else if f == "nbf".toList then
        match storeDate v with
        | some d => storeMembersC rest { c with nbf := d }
        | none => none
      else if f == "iat".toList then
        if (storeDate v).isSome then storeMembersC rest c else none
      else if f == "aud".toList then
        if storeAudience v then storeMembersC rest c else none
      else
        if storeString v then storeMembersC rest c else none

/-- `json.Unmarshal(payload, &claims{})`: `none` = an error (syntax or type): the token is invalid. -/
def decode (payload : Str) : Option C :=
  match parseJSON payload with
  | none => none
  | some .null => some {}
  | some (.obj kvs) => storeMembersC kvs {}
  | some _ => none

def M.toClaim (m : M) : MClaim :=
  { publish := m.publish, subscribe := m.subscribe,
    payload := match m.payload with | none => [] | some v => render v }

/-- The model's `Claims` (Model/Auth) of a payload; `exp` in whole seconds since the epoch. -/
def claimsOf (payload : Str) : Option Claims :=
  (decode payload).map fun c =>
    { mercure := c.mercure.toClaim, namespaced := c.namespaced.map M.toClaim, exp := c.exp.map (·.1) }

/-! ### what a well-behaved issuer writes -/

def strArray (l : List Str) : Str := '[' :: renderList (l.map JVal.str) ++ [']']

def optArray : Option (List Str) → Str
  | none => "null".toList
  | some l => strArray l

/-- `{"publish":…,"subscribe":…}` -/
def encodeM (publish subscribe : Option (List Str)) : Str :=
  "{\"publish\":".toList ++ optArray publish ++ ",\"subscribe\":".toList ++ optArray subscribe ++ ['}']

/-- a payload with the plain claim, optionally the namespaced one, optionally `exp` -/
def encode (publish subscribe : Option (List Str)) (ns : Option (Option (List Str) × Option (List Str))) (exp : Option Nat) : Str :=
  "{\"mercure\":".toList ++ encodeM publish subscribe ++
  (match ns with
   | none => []
   | some (p, s) => ",\"https://mercure.rocks/\":".toList ++ encodeM p s) ++
  (match exp with
   | none => []
   | some e => ",\"exp\":".toList ++ Nat.toDigits 10 e) ++ ['}']

end Mercure.ClaimsJson
