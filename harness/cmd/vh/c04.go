package main

import (
	"fmt"
	"net/http"
	"net/url"
	"strings"
	"time"

	"verifharness/pkg/gen"
	"verifharness/pkg/h"
	"verifharness/pkg/jws"

	"github.com/dunglas/mercure"
)

func init() { register("authz", "C04", runAuthz) }

type carrierState struct {
	name string
	vals []string // nil = absent
}

// runAuthz enumerates the abstract credential table exhaustively on the three endpoints
// (DESIGN §8 C04): {absent, valid-A, valid-B, invalid, malformed, duplicated, empty} for each carrier
// x endpoint x Origin/Referer situations x publish-origins configurations x cookie name x anonymous.
func runAuthz(c *h.Ctx, r *h.Report) {
	r.Rule = "exhaustive enumeration of the abstract credential table through Hub.ServeHTTP: header in {absent, Bearer A, Bearer B, Bearer invalid-signature, too short, no Bearer prefix, duplicated, empty} x query in {absent, A, B, invalid, short, duplicated, empty} x cookie in {absent, A, B, invalid, garbage, duplicated(A then B), empty}; POST publish x Origin {absent, allowed, not allowed, look-alikes of an allowed origin: suffix / port / prefix / scheme / case, 'null'} x Referer {absent, allowed, not allowed, unparsable, look-alikes} x publish origins {none, list, '*'} x topic {only-A-may, only-B-may}; GET subscribe and both subscription-API URLs x 3 Origin/Referer situations; all x cookie name {default, custom} x anonymous {on, off}. Tokens A and B carry different rights so the effective identity is observable. Non-trivial = request with at least two carriers present or a cookie on POST; distinct by (configuration, request)."
	r.Exhaustive = true
	now := time.Now()
	mk := func(k *jws.Key, claims string) string { return jws.Mint(k, claims) }

	for _, cookieName := range []string{"", "customCookie"} {
		for _, anon := range []bool{false, true} {
			for oi, origins := range [][]string{nil, {"https://allowed.example", "https://other.example"}, {"*"}, nil, nil} {
				cfg := hubCfg{PubAlg: "HS256", SubAlg: "HS256", Anonymous: anon, Origins: origins, CookieName: cookieName, Subscriptions: true}
				// configurations 3 and 4: no publish origins but CORS origins (a list containing the request origins
				// used below; '*'). CORS origins are not publish origins: the cookie rule must not see them. Only the
				// requests whose sole credential is the cookie are sent there.
				cookieOnly := oi >= 3
				if oi == 3 {
					cfg.Cors = []string{"https://allowed.example", "https://evil.example", "https://allowed.example:8443"}
				} else if oi == 4 {
					cfg.Cors = []string{"*"}
				}
				f := newFixture(cfg, nil)
				pubA := mk(f.pubKey, `{"mercure":{"publish":["tA"],"payload":"A"}}`)
				pubB := mk(f.pubKey, `{"mercure":{"publish":["tB"],"payload":"B"}}`)
				subA := mk(f.subKey, `{"mercure":{"subscribe":["/.well-known/mercure/subscriptions{?authorization}"],"payload":"A"}}`)
				subB := mk(f.subKey, `{"mercure":{"subscribe":["/.well-known/mercure/subscriptions/t{?authorization}"],"payload":"B"}}`)
				wrong := jws.NewKey("HS256", 99)
				pubX := mk(wrong, `{"mercure":{"publish":["*"],"payload":"X"}}`)
				subX := mk(wrong, `{"mercure":{"subscribe":["*"],"payload":"X"}}`)

				states := func(a, b, x string) (hs, qs, cs []carrierState) {
					hs = []carrierState{{"absent", nil}, {"A", []string{"Bearer " + a}}, {"B", []string{"Bearer " + b}}, {"invalid", []string{"Bearer " + x}},
						{"short", []string{"Bearer abc"}}, {"noprefix", []string{"Basic  " + a}}, {"dup", []string{"Bearer " + a, "Bearer " + b}}, {"empty", []string{""}}}
					qs = []carrierState{{"absent", nil}, {"A", []string{a}}, {"B", []string{b}}, {"invalid", []string{x}}, {"short", []string{"abc"}}, {"dup", []string{a, b}}, {"empty", []string{""}}}
					cs = []carrierState{{"absent", nil}, {"A", []string{a}}, {"B", []string{b}}, {"invalid", []string{x}}, {"garbage", []string{"abc"}}, {"dup", []string{a, b}}, {"empty", []string{""}}}

					return
				}
				type req struct {
					endpoint string // pub-tA | pub-tB | sub | api-all | api-topic
					a        authParts
					desc     string
				}
				var reqs []req
				// not-allowed origins include look-alikes of an allowed one (suffix, port, prefix, scheme, case)
				originStates := []string{"", "https://allowed.example", "https://evil.example", "https://allowed.example.evil.test",
					"https://allowed.example:8443", "https://allowed.exampl", "http://allowed.example", "https://ALLOWED.example", "null"}
				refererStates := []string{"", "https://allowed.example/page?x=1", "https://evil.example/", "https://%zz",
					"https://allowed.example.evil.test/x", "https://allowed.example:8443/", "https://evil.example/https://allowed.example"}
				hs, qs, cs := states(pubA, pubB, pubX)
				if cookieOnly {
					hs, qs = hs[:1], qs[:1]
				}
				for _, hd := range hs {
					for _, q := range qs {
						for _, ck := range cs {
							for _, o := range originStates {
								for _, rf := range refererStates {
									a := authParts{Headers: hd.vals, Query: q.vals, Cookies: ck.vals, Origin: o, Referer: rf, QSpell: len(reqs) / 2 % 3}
									// one request in two also carries a field named authorization in its body (a valid token of
									// either identity, or junk): the body is not a carrier
									a.BodyAuth = []string{"", pubA, "", pubB, "", "junk"}[len(reqs)/2%6]
									d := fmt.Sprintf("h=%s q=%s c=%s origin=%q referer=%q spelling=%d body-authorization=%s", hd.name, q.name, ck.name, o, rf, a.QSpell,
										map[string]string{"": "absent", pubA: "A", pubB: "B", "junk": "junk"}[a.BodyAuth])
									reqs = append(reqs, req{"pub-tA", a, d}, req{"pub-tB", a, d})
								}
							}
						}
					}
				}
				if oi == 0 { // GET endpoints do not depend on the publish origins
					hs, qs, cs = states(subA, subB, subX)
					for _, hd := range hs {
						for _, q := range qs {
							for _, ck := range cs {
								for _, or := range [][2]string{{"", ""}, {"https://evil.example", ""}, {"", "https://%zz"}} {
									a := authParts{Headers: hd.vals, Query: q.vals, Cookies: ck.vals, Origin: or[0], Referer: or[1]}
									d := fmt.Sprintf("h=%s q=%s c=%s origin=%q referer=%q", hd.name, q.name, ck.name, or[0], or[1])
									as := a
									as.QSpell = len(reqs) / 3 % 3
									reqs = append(reqs, req{"sub", as, d + fmt.Sprintf(" spelling=%d", as.QSpell)}, req{"api-all", a, d}, req{"api-topic", a, d})
								}
							}
						}
					}
				}

				// model side
				lines := []string{f.cfgLine(), "or.reset"}
				{
					o := gen.NewOracle()
					var urls []string
					for _, q := range reqs {
						if q.endpoint == "api-all" {
							urls = append(urls, apiURL(q.a, ""), apiURL(q.a, "/t"))
						}
					}
					lines = append(lines, o.Lines([]string{"/.well-known/mercure/subscriptions{?authorization}", "/.well-known/mercure/subscriptions/t{?authorization}", "*"}, dedupe(urls))...)
				}
				for _, t := range []string{pubA, pubB, subA, subB, pubX, subX, "abc", ""} {
					lines = append(lines, f.tokLine(t, now))
				}
				pre := len(lines)
				for _, q := range reqs {
					switch q.endpoint {
					case "pub-tA", "pub-tB":
						topic := q.endpoint[4:]
						lines = append(lines, h.Line(append(append([]string{"pub"}, q.a.wire(true)...), "1", h.HexList([]string{topic}), "", "0", h.Hex("d"), h.Hex("id1"), "")...))
					case "sub":
						lines = append(lines, h.Line(append(append([]string{"sub.decide"}, q.a.wire(false)...), h.HexList([]string{"t"}), "", "", "~")...))
					case "api-all":
						lines = append(lines, h.Line(append(append([]string{"api.auth"}, q.a.wire(false)...), h.Hex(apiURL(q.a, "")))...))
					case "api-topic":
						lines = append(lines, h.Line(append(append([]string{"api.auth"}, q.a.wire(false)...), h.Hex(apiURL(q.a, "/t")))...))
					}
				}
				ans := c.Driver.Ask(lines)[pre:]

				for i, q := range reqs {
					r.Evaluations++
					var impl, model string
					switch q.endpoint {
					case "pub-tA", "pub-tB":
						topic := q.endpoint[4:]
						body := "topic=" + topic + "&data=d&id=id1"
						if q.a.BodyAuth != "" {
							body += "&authorization=" + q.a.BodyAuth
							r.Count("pub:authorization field in the body")
						}
						w := f.doPublish(q.a, "application/x-www-form-urlencoded", body, "")
						impl = fmt.Sprint(w.Status())
						model = strings.Fields(ans[i])[0]
						r.Count("pub:" + impl)
						// the rule, evaluated by the harness on the implementation alone
						who := expectedIdentity(q.a, true, origins)
						want := "401"
						if who == topic[1:] {
							want = "200"
						}
						if impl != want {
							r.Violate(h.Violation{Key: "C04:publish-precedence-or-csrf",
								What:   fmt.Sprintf("POST with %s (publish origins %v) answered %s; the precedence/CSRF rule gives identity %q hence %s", q.desc, origins, impl, who, want),
								Replay: map[string]any{"family": "authz", "cfg": cfg, "endpoint": q.endpoint, "request": q.a}})
						}
					case "sub":
						w := f.doGet(q.a, hubURL, url.Values{"topic": {"t"}}, nil)
						impl = fmt.Sprint(w.Status()) + " " + whoOf(f, q.a, false)
						fs := strings.Fields(ans[i])
						model = fs[0]
						if len(fs) > 1 && strings.HasPrefix(fs[1], "who=") {
							model += " " + unhexWho(fs[1][4:])
						} else {
							model += " " + "err"
						}
						if w.Status() == 401 {
							impl = "401 err"
							if whoOf(f, q.a, false) == "anon" {
								impl = "401 anon"
								model = strings.Replace(model, "401 err", "401 "+modelAnon(fs), 1)
							}
						}
						r.Count("sub:" + fmt.Sprint(w.Status()))
						who := expectedIdentity(q.a, false, nil)
						want := 200
						if who == "err" || (who == "anon" && !anon) {
							want = 401
						}
						if w.Status() != want {
							r.Violate(h.Violation{Key: "C04:subscribe-precedence-or-anonymous",
								What:   fmt.Sprintf("GET subscribe with %s (anonymous=%v) answered %d; the rule gives identity %q hence %d", q.desc, anon, w.Status(), who, want),
								Replay: map[string]any{"family": "authz", "cfg": cfg, "endpoint": q.endpoint, "request": q.a}})
						}
					case "api-all", "api-topic":
						path := hubURL + "/subscriptions"
						if q.endpoint == "api-topic" {
							path += "/t"
						}
						w := f.doGet(q.a, path, nil, nil)
						impl = h.B(w.Status() == 200)
						model = ans[i]
						r.Count("api:" + fmt.Sprint(w.Status()))
						who := expectedIdentity(q.a, false, nil)
						reqURL := apiURL(q.a, map[string]string{"api-all": "", "api-topic": "/t"}[q.endpoint])
						want := (who == "A" && apiOracle.Spec(reqURL, "/.well-known/mercure/subscriptions{?authorization}")) ||
							(who == "B" && apiOracle.Spec(reqURL, "/.well-known/mercure/subscriptions/t{?authorization}"))
						if (w.Status() == 200) != want || (w.Status() != 200 && w.Status() != 401) {
							r.Violate(h.Violation{Key: "C04:api-precedence",
								What:   fmt.Sprintf("GET %s with %s answered %d; the rule gives identity %q", path, q.desc, w.Status(), who),
								Replay: map[string]any{"family": "authz", "cfg": cfg, "endpoint": q.endpoint, "request": q.a}})
						}
					}
					if impl != model {
						r.Disagree(h.Disagreement{Class: "C04.authorize/" + q.endpoint[:3], Case: map[string]any{"cfg": cfg, "endpoint": q.endpoint, "request": q.a, "desc": q.desc}, Model: ans[i], Impl: impl, At: i})
					}
					n := 0
					if q.a.Headers != nil {
						n++
					}
					if q.a.Query != nil {
						n++
					}
					if q.a.Cookies != nil {
						n++
					}
					if n >= 2 || (strings.HasPrefix(q.endpoint, "pub") && q.a.Cookies != nil) {
						r.Nontrivial(fmt.Sprint(cfg, q.endpoint, q.a))
					}
					if i%9973 == 0 {
						r.Sample(map[string]any{"cfg": cfg, "endpoint": q.endpoint, "request": q.desc, "impl": impl})
					}
				}
			}
		}
	}
}

var apiOracle = gen.NewOracle()

func modelAnon(fs []string) string { return "anon" }

func unhexWho(s string) string {
	if s == "anon" {
		return "anon"
	}
	if strings.HasPrefix(s, "ok:") {
		return "ok:" + h.UnHex(s[3:])
	}

	return s
}

func whoOf(f *fixture, a authParts, publisher bool) string {
	method := http.MethodGet
	if publisher {
		method = http.MethodPost
	}
	r, _ := http.NewRequest(method, "http://hub.test"+hubURL, nil)
	q := url.Values{}
	a.apply(r, f.cookie, q)
	r.URL.RawQuery = a.encode(q)

	return mercure.VerifAuthorize(f.hub, r, publisher)
}

// apiURL is r.URL.RequestURI() of the subscription-API request (the query carries the credential).
func apiURL(a authParts, suffix string) string {
	q := url.Values{}
	for _, v := range a.Query {
		q.Add("authorization", v)
	}
	u := hubURL + "/subscriptions" + suffix
	if len(q) > 0 {
		u += "?" + q.Encode()
	}

	return u
}

// expectedIdentity evaluates the property's rule directly (harness-side oracle, independent of the
// Lean model): header only if present; else query; else cookie (POST: origin check); "err" on any
// invalid higher-priority carrier. Returns "A", "B", "anon" or "err".
func expectedIdentity(a authParts, post bool, origins []string) string {
	tokID := func(tok string) string {
		fa := jws.Analyse(tok, nil, time.Now())
		if !fa.WellFormed {
			return "err"
		}
		p, _ := fa.Claims.Mercure.Payload.(string)
		if p == "A" || p == "B" {
			return p
		}

		return "err" // the wrong-key token "X"
	}
	if a.Headers != nil {
		if len(a.Headers) != 1 || len(a.Headers[0]) < 48 || !strings.HasPrefix(a.Headers[0], "Bearer ") {
			return "err"
		}

		return tokID(a.Headers[0][7:])
	}
	if a.Query != nil {
		if len(a.Query) != 1 || len(a.Query[0]) < 41 {
			return "err"
		}

		return tokID(a.Query[0])
	}
	if a.Cookies == nil {
		return "anon"
	}
	if post {
		origin := a.Origin
		if origin == "" {
			if a.Referer == "" {
				return "err"
			}
			u, err := url.Parse(a.Referer)
			if err != nil {
				return "err"
			}
			origin = u.Scheme + "://" + u.Host
		}
		ok := false
		for _, o := range origins {
			if o == "*" || o == origin {
				ok = true
			}
		}
		if !ok {
			return "err"
		}
	}

	return tokID(a.Cookies[0])
}
