#!/usr/bin/env python3
"""Run /repo's pinned baseline (guard off) and check that the 49 stable tests of BASELINE.json pass.
usage: baseline.py [repo]   (exit 0 iff every stable test passed)"""
import json, os, subprocess, sys
repo = sys.argv[1] if len(sys.argv) > 1 else "/repo"
base = json.load(open("/root/.vp/BASELINE.json"))
env = dict(os.environ, GOFLAGS="-mod=mod", GOPROXY="off")
env.pop("GOSUMDB", None)
passed, failed = set(), set()
# The always-failing TestNewBoltTransport panics and kills its test binary, which makes the full
# command flaky on 16 cores; --stable runs exactly the 49 stable tests by name instead.
stable_only = "--stable" in sys.argv
if stable_only:
    sys.argv.remove("--stable")
    repo = sys.argv[1] if len(sys.argv) > 1 else "/repo"
def names(pkg):
    top = sorted({t.split("::")[1].split("/")[0] for t in base["stable_pass"] if t.split("::")[0] == pkg})
    return "^(" + "|".join(top) + ")$"
PK = {".": "github.com/dunglas/mercure", "caddy": "github.com/dunglas/mercure/caddy", "common": "github.com/dunglas/mercure/common"}
for mod, pkgs in [(".", ["./...", ]), ("caddy", ["./..."])]:
    extra = []
    if stable_only:
        allnames = sorted({t.split("::")[1].split("/")[0] for t in base["stable_pass"]})
        extra = ["-run", "^(" + "|".join(allnames) + ")$"]
    p = subprocess.run(["go", "test", "-mod=mod", "-json", "-vet=off", "-count=1", "-timeout", "25m"] + extra + ["./..."],
                       cwd=os.path.join(repo, mod), env=env, stdout=subprocess.PIPE, stderr=subprocess.STDOUT, text=True)
    for line in p.stdout.splitlines():
        try:
            e = json.loads(line)
        except Exception:
            continue
        if e.get("Test") and e.get("Action") in ("pass", "fail"):
            (passed if e["Action"] == "pass" else failed).add(f"{e['Package']}::{e['Test']}")
missing = [t for t in base["stable_pass"] if t not in passed]
print(f"stable baseline tests passed: {len(base['stable_pass']) - len(missing)}/{len(base['stable_pass'])}; other passed={len(passed)} failed={sorted(failed)}")
for t in missing:
    print("NOT PASSED:", t)
sys.exit(1 if missing else 0)
