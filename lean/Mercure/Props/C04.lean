import Mercure.Model.Subscribe
import Mercure.Lemmas.Auth
import Mercure.Generated.Facts
/-
  C04 — Credential source precedence and the cookie CSRF rule are applied uniformly.
  All three endpoints call the same `authorize`; the endpoint-level corollaries are below.
-/
namespace Mercure.C04
open Mercure

variable (minH minQ : Nat) (tok : Str → Option Claims)

/-- The Authorization header, when present, is the only credential considered: the outcome does not
    depend on the query parameter, the cookie, the method, Origin, Referer or the publish origins. -/
theorem header_only (r r' : AuthReq) (po po' : List Str)
    (h : r.authHeaders ≠ none) (e : r.authHeaders = r'.authHeaders) :
    authorize minH minQ tok r po = authorize minH minQ tok r' po' := by
  unfold authorize
  rw [← e]
  cases hh : r.authHeaders with
  | none => exact absurd hh h
  | some hs => rfl

/-- Otherwise the query parameter, when present, is the only credential considered. -/
theorem query_over_cookie (r r' : AuthReq) (po po' : List Str)
    (h0 : r.authHeaders = none) (h0' : r'.authHeaders = none)
    (h : r.queryAuth ≠ none) (e : r.queryAuth = r'.queryAuth) :
    authorize minH minQ tok r po = authorize minH minQ tok r' po' := by
  unfold authorize
  rw [← e, h0, h0']
  cases hh : r.queryAuth with
  | none => exact absurd hh h
  | some hs => rfl

/-- A present but invalid / malformed / duplicated header is an error — never a fall-through to a
    lower-priority carrier and never anonymous; when it grants claims they are those of the token in
    the header. -/
theorem header_no_fallthrough (r : AuthReq) (po : List Str) (hs : List Str)
    (h : r.authHeaders = some hs) :
    authorize minH minQ tok r po ≠ .ok none ∧
    ∀ c, authorize minH minQ tok r po = .ok (some c) →
      ∃ hd, hs = [hd] ∧ hasPrefix bearerPrefix hd = true ∧ minH ≤ utf8Len hd ∧
            tok (hd.drop bearerPrefix.length) = some c := by
  unfold authorize
  rw [h]
  rcases hs with _ | ⟨hd, _ | ⟨hd', hs⟩⟩ <;> simp
  split
  · simp
  · rename_i hc
    simp at hc
    refine ⟨validateTok_ne_ok_none _ _, fun c hc' => ⟨hc.2, hc.1, validateTok_ok_some.mp hc'⟩⟩

theorem query_no_fallthrough (r : AuthReq) (po : List Str) (qs : List Str)
    (h0 : r.authHeaders = none) (h : r.queryAuth = some qs) :
    authorize minH minQ tok r po ≠ .ok none ∧
    ∀ c, authorize minH minQ tok r po = .ok (some c) → ∃ q, qs = [q] ∧ minQ ≤ utf8Len q ∧ tok q = some c := by
  unfold authorize
  rw [h0, h]
  rcases qs with _ | ⟨q, _ | ⟨q', qs⟩⟩ <;> simp
  split
  · simp
  · rename_i hc
    simp at hc
    refine ⟨validateTok_ne_ok_none _ _, fun c hc' => ⟨hc, validateTok_ok_some.mp hc'⟩⟩

/-- The origin a cookie-authenticated POST is judged by: `Origin`, else the origin of a parsable `Referer`. -/
def effOrigin (r : AuthReq) : Option Str :=
  if r.origin != [] then some r.origin else if r.referer == [] then none else r.refererOrigin

/-- A cookie credential on a POST is honoured only when the effective origin is one of the
    configured publish origins (or `*` is configured). -/
theorem cookie_post_needs_origin (r : AuthReq) (po : List Str) (c : Claims)
    (h0 : r.authHeaders = none) (h1 : r.queryAuth = none) (hp : r.isPost = true)
    (h : authorize minH minQ tok r po = .ok (some c)) :
    ∃ ck o, r.cookie = some ck ∧ tok ck = some c ∧ effOrigin r = some o ∧ (o ∈ po ∨ ['*'] ∈ po) := by
  rcases r with ⟨ah, qa, ck, ip, o, rf, ro⟩
  simp only at h0 h1 hp
  subst h0 h1 hp
  unfold authorize at h
  unfold effOrigin
  rcases ck with _ | ck <;> simp at h ⊢
  have key : ∀ origin : Str, (if ∃ x, x ∈ po ∧ (x = ['*'] ∨ origin = x) then validateTok tok ck
        else Except.error AuthErr.originNotAllowed) = Except.ok (some c) →
      tok ck = some c ∧ (origin ∈ po ∨ ['*'] ∈ po) := by
    intro origin hh
    split at hh
    · rename_i hx
      obtain ⟨x, hx, hx' | hx'⟩ := hx
      · subst hx'; exact ⟨validateTok_ok_some.mp hh, Or.inr hx⟩
      · subst hx'; exact ⟨validateTok_ok_some.mp hh, Or.inl hx⟩
    · simp at hh
  by_cases ho : o = []
  · simp only [ho, if_true] at h ⊢
    by_cases hr : rf = []
    · simp [hr] at h
    · simp only [hr, if_false] at h ⊢
      cases ro with
      | none => simp at h
      | some o' =>
        simp only at h
        obtain ⟨a, b⟩ := key o' h
        exact ⟨a, o', rfl, b⟩
  · simp only [ho, if_false] at h ⊢
    obtain ⟨a, b⟩ := key o h
    exact ⟨a, o, rfl, b⟩

/-- …and conversely it *is* honoured then (the rule is exact, not merely safe). -/
theorem cookie_post_allowed (r : AuthReq) (po : List Str) (ck o : Str)
    (h0 : r.authHeaders = none) (h1 : r.queryAuth = none) (hp : r.isPost = true)
    (hc : r.cookie = some ck) (ho : effOrigin r = some o) (hpo : o ∈ po ∨ ['*'] ∈ po) :
    authorize minH minQ tok r po = validateTok tok ck := by
  rcases r with ⟨ah, qa, ck', ip, o', rf, ro⟩
  simp only at h0 h1 hp hc
  subst h0 h1 hp hc
  unfold effOrigin at ho
  unfold authorize
  have key : (po.any (fun a => a == ['*'] || o == a)) = true := by
    rw [List.any_eq_true]
    rcases hpo with h | h
    · exact ⟨o, h, by simp⟩
    · exact ⟨['*'], h, by simp⟩
  simp only at ho ⊢
  by_cases ho' : o' = []
  · subst ho'
    by_cases hr : rf = []
    · subst hr; simp at ho
    · simp [hr] at ho
      subst ho
      simp [hr, key]
  · simp [ho'] at ho
    subst ho
    simp [ho', key]

/-- Safe methods skip the CSRF rule. -/
theorem safe_methods_skip_csrf (r : AuthReq) (po : List Str) (ck : Str)
    (h0 : r.authHeaders = none) (h1 : r.queryAuth = none) (hp : r.isPost = false)
    (hc : r.cookie = some ck) :
    authorize minH minQ tok r po = validateTok tok ck := by
  unfold authorize
  simp [h0, h1, hp, hc]

/-- A request is anonymous exactly when it carries no credential at all: an invalid credential is
    never downgraded to anonymous access. -/
theorem anonymous_iff_no_credential (r : AuthReq) (po : List Str) :
    authorize minH minQ tok r po = .ok none ↔
      (r.authHeaders = none ∧ r.queryAuth = none ∧ r.cookie = none) := by
  constructor
  · intro h
    cases h0 : r.authHeaders with
    | some hs => exact absurd h (header_no_fallthrough minH minQ tok r po hs h0).1
    | none =>
      cases h1 : r.queryAuth with
      | some qs => exact absurd h (query_no_fallthrough minH minQ tok r po qs h0 h1).1
      | none =>
        cases hc : r.cookie with
        | none => simp
        | some ck =>
          exfalso
          unfold authorize at h
          simp only [h0, h1, hc] at h
          repeat' split at h
          all_goals first | exact validateTok_ne_ok_none _ _ h | simp_all
  · rintro ⟨h0, h1, hc⟩
    unfold authorize
    simp [h0, h1, hc]

/-- Whatever is granted was validated under the role's key: claims only ever come from `tok`. -/
theorem claims_only_from_validated_token (r : AuthReq) (po : List Str) (c : Claims)
    (h : authorize minH minQ tok r po = .ok (some c)) : ∃ s, tok s = some c :=
  authorize_ok_some h

/-- An anonymous request can never publish. -/
theorem anonymous_never_publishes (cfg : HubCfg) (M : Str → Str → Bool) (r : PubReq)
    (h : authorize cfg.minHeader cfg.minQuery tok r.auth cfg.publishOrigins = .ok none) :
    publish cfg M tok r = .refused 401 unauthorizedBody := by
  unfold publish; rw [h]

/-- …and can subscribe only if the hub allows anonymous subscribers (when a subscriber key is configured). -/
theorem anonymous_subscribes_iff_allowed (cfg : HubCfg) (r : SubReq) (hk : cfg.subKey = true)
    (h : authorize cfg.minHeader cfg.minQuery tok r.auth [] = .ok none) (ht : r.topics ≠ []) :
    (∃ c p l, subscribeDecision cfg tok r = .accepted c p l) ↔ cfg.anonymous = true := by
  unfold subscribeDecision
  simp only [hk, if_true, h]
  cases ha : cfg.anonymous <;> simp [ht]

/-- The subscription API refuses anonymous callers whenever subscriber tokens are configured. -/
theorem anonymous_never_lists (cfg : HubCfg) (M : Str → Str → Bool) (a : AuthReq) (url : Str)
    (hk : cfg.subKey = true) (h : authorize cfg.minHeader cfg.minQuery tok a [] = .ok none) :
    apiAuthorized cfg M tok a url = false := by
  unfold apiAuthorized; simp [hk, h]

/-- The constants modelled are those of /repo (regenerated on every run). -/
theorem repo_auth_consts : Facts.bearerPrefix = bearerPrefix ∧ Facts.minHeaderLen = 48 ∧ Facts.minQueryLen = 41 := by
  decide +kernel

/-! non-vacuity: a POST with a valid cookie and an allowed Referer-derived origin is granted -/
example : authorize 48 41 (fun s => if s = ['k'] then some {} else none)
    { authHeaders := none, queryAuth := none, cookie := some ['k'], isPost := true, origin := [],
      referer := "https://a/x".toList, refererOrigin := some "https://a".toList } ["https://a".toList]
    = .ok (some {}) := by rfl

end Mercure.C04

#print axioms Mercure.C04.header_only
#print axioms Mercure.C04.query_over_cookie
#print axioms Mercure.C04.header_no_fallthrough
#print axioms Mercure.C04.query_no_fallthrough
#print axioms Mercure.C04.cookie_post_needs_origin
#print axioms Mercure.C04.cookie_post_allowed
#print axioms Mercure.C04.safe_methods_skip_csrf
#print axioms Mercure.C04.anonymous_iff_no_credential
#print axioms Mercure.C04.claims_only_from_validated_token
#print axioms Mercure.C04.anonymous_never_publishes
#print axioms Mercure.C04.anonymous_subscribes_iff_allowed
#print axioms Mercure.C04.anonymous_never_lists
#print axioms Mercure.C04.repo_auth_consts
