import Mercure.Lemmas.BoltStore
import Mercure.Lemmas.Retention
/-
  C08 — Last-Event-ID negotiation tells the subscriber truthfully whether it lost data.
-/
namespace Mercure.C08
open Mercure

/-- Carrier precedence: the header, else the `lastEventID` query parameter, else — only in
    version-7 compatibility mode — the first legacy `Last-Event-ID` query value. -/
theorem carrier_precedence (compat7 : Bool) (r : LeidReq) :
    requestedLEID compat7 r =
      (if r.header ≠ [] then r.header
       else if r.query ≠ [] then r.query
       else if compat7 = true then (match r.legacy with | some (v :: _) => v | _ => []) else []) := by
  obtain ⟨hd, q, leg⟩ := r
  unfold requestedLEID
  by_cases h1 : hd = []
  · by_cases h2 : q = []
    · rcases leg with _ | _ | ⟨v, t⟩ <;> cases compat7 <;> simp [h1, h2]
    · simp [h1, h2]
  · simp [h1]

theorem legacy_ignored_without_compat (r : LeidReq) (h1 : r.header = []) (h2 : r.query = []) :
    requestedLEID false r = [] := by
  rw [carrier_precedence]
  simp [h1, h2]

/-- The response carries a Last-Event-ID header exactly when one was requested (accepted
    connections on an open hub, both transports). -/
theorem header_iff_requested (M : Str → Str → Bool) (tok : Str → Option Claims) (st : HubSt) (label : Nat)
    (r : SubReq) (resp : SubResp) (st' : HubSt)
    (h : st.connect M tok label r = (st', resp)) (hs : resp.status = 200) :
    resp.respLEID.isSome = (requestedLEID st.cfg.compat7 r.leid != []) := by
  unfold HubSt.connect at h
  cases hd : subscribeDecision st.cfg tok r with
  | refused s b =>
    simp only [hd] at h
    cases h
    exact absurd hs (subscribeDecision_refused _ _ _ _ _ hd)
  | accepted c priv leid =>
    have hleid := subscribeDecision_leid _ _ _ _ _ _ hd
    simp only [hd] at h
    generalize hst1 : HubSt.subscriptionEvents M _ _ true = st1 at h
    by_cases hcl : st1.closed = true
    · rw [if_pos hcl] at h
      cases h
      cases hs
    · rw [if_neg hcl] at h
      rw [← hleid]
      by_cases hl : (leid == []) = true
      · simp only [hl, if_true] at h
        cases h
        simp at hl
        simp [hl]
      · simp only [hl] at h
        cases hk : st1.kind <;> simp only [hk] at h <;> cases h <;> simp at hl <;> simp [hl]

/-- Local transport: always `earliest` (there is no history). -/
theorem local_always_earliest (M : Str → Str → Bool) (tok : Str → Option Claims) (st : HubSt) (label : Nat)
    (r : SubReq) (resp : SubResp) (st' : HubSt) (hk : st.kind = .local)
    (h : st.connect M tok label r = (st', resp)) (x : Str) (hx : resp.respLEID = some x) : x = earliest := by
  unfold HubSt.connect at h
  cases hd : subscribeDecision st.cfg tok r with
  | refused s b =>
    simp only [hd] at h
    cases h
    cases hx
  | accepted c priv leid =>
    simp only [hd] at h
    generalize hst1 : HubSt.subscriptionEvents M _ _ true = st1 at h
    have hk1 : st1.kind = .local := by
      rw [← hst1, (subscriptionEvents_preserves M _ _ true).2.1]; exact hk
    by_cases hcl : st1.closed = true
    · rw [if_pos hcl] at h
      cases h
      cases hx
    · rw [if_neg hcl] at h
      by_cases hl : (leid == []) = true
      · simp only [hl, if_true] at h
        cases h
        cases hx
      · simp only [hl, hk1] at h
        cases h
        cases hx
        rfl

def ids (db : List (Nat × Update)) : List Str := db.map (·.2.id)

/-- `earliest` replays the whole retained history (possibly empty). -/
theorem earliest_whole_history (db : List (Nat × Update)) :
    negotiate db earliest = (earliest, db.map (·.2)) := by
  unfold negotiate
  rw [if_pos (beq_self_eq_true _)]

/-- The response equals the requested id exactly when replay resumes right after that event with
    nothing skipped. -/
theorem resp_eq_req_iff (db : List (Nat × Update)) (r : Str) (hr : r ≠ earliest) :
    (negotiate db r).1 = r ↔ r ∈ ids db := by
  constructor
  · intro h
    apply Classical.byContradiction
    intro hm
    exact (negotiate_fst_ne_of_not_mem db r hr hm).1 h
  · intro hm
    obtain ⟨i, hi⟩ := firstIdx_some_of_mem db r hm
    rw [negotiate_found db r hr i hi]

theorem found_replays_everything_after (db : List (Nat × Update)) (r : Str) (hr : r ≠ earliest)
    (hm : r ∈ ids db) :
    ∃ i, firstIdx db r = some i ∧ negotiate db r = (r, (db.drop (i + 1)).map (·.2)) := by
  obtain ⟨i, hi⟩ := firstIdx_some_of_mem db r hm
  exact ⟨i, hi, negotiate_found db r hr i hi⟩

/-- In every other case the response differs from the requested id and nothing is replayed: a
    client comparing the two detects every loss. -/
theorem otherwise_differs (db : List (Nat × Update)) (r : Str) (hr : r ≠ earliest) (hm : r ∉ ids db) :
    (negotiate db r).1 ≠ r ∧ (negotiate db r).2 = [] :=
  negotiate_fst_ne_of_not_mem db r hr hm

/-- `earliest` in the response means the whole retained history was replayed (given that no stored
    update is itself called "earliest"). -/
theorem resp_earliest_iff_whole_history (db : List (Nat × Update)) (r : Str) (hne : earliest ∉ ids db)
    (h : (negotiate db r).1 = earliest) : (negotiate db r).2 = db.map (·.2) := by
  by_cases hr : r = earliest
  · rw [hr, earliest_whole_history]
  · cases hf : firstIdx db r with
    | some i =>
      rw [negotiate_found db r hr i hf] at h
      exact absurd h hr
    | none =>
      rw [negotiate_not_found db r hr hf] at h ⊢
      cases hl : db.getLast? with
      | none =>
        have : db = [] := by simpa using hl
        rw [this]; rfl
      | some e =>
        rw [hl] at h
        exact absurd (List.mem_map.mpr ⟨e, List.mem_of_getLast? hl, h⟩) hne

/-! non-vacuity -/
example : negotiate [(3, ⟨['a'], [], false, [], [], 0⟩), (4, ⟨['b'], [], false, [], [], 0⟩), (5, ⟨['c'], [], false, [], [], 0⟩)] ['a']
    = (['a'], [⟨['b'], [], false, [], [], 0⟩, ⟨['c'], [], false, [], [], 0⟩]) := by decide +kernel
example : (negotiate [(3, ⟨['a'], [], false, [], [], 0⟩), (4, ⟨['b'], [], false, [], [], 0⟩)] ['z']).1 = ['b'] := by decide +kernel

/-! ### at the level of the bytes in the bucket (Model/BoltStore) -/

/-- The id the Bolt transport announces is computed by comparing `string(k[8:])` of the stored keys with
    the requested id, key after key in byte order. On every bucket the hub can have written this is the
    id `negotiate` announces — the one all the theorems above are about; in particular a requested id
    that is only a *part* of a stored key (a proper suffix or prefix of a stored id, bytes of the sequence
    prefix) is never "found". -/
theorem byte_level_announced_id (debug : Bool) (b : BoltStore.Bucket) (db : List (Nat × Update))
    (req : Str) (toSeq : Nat) (wf : BoltStore.WellFormed debug b db)
    (hr : ∀ e ∈ db, e.2.retry < 2 ^ 64) (hto : ∀ e ∈ db, e.1 ≤ toSeq) :
    BoltStore.respMatches (BoltStore.scan (BoltStore.reqBytes req) toSeq b).1 (negotiate db req).1 :=
  (BoltStore.scan_refines BoltStore.rt_holds debug b db req toSeq wf hr hto).1

/-- ids are compared as byte strings and that is the comparison of the strings themselves -/
theorem id_bytes_injective : Function.Injective utf8Bytes := BoltStore.utf8Bytes_injective

end Mercure.C08

#print axioms Mercure.C08.carrier_precedence
#print axioms Mercure.C08.legacy_ignored_without_compat
#print axioms Mercure.C08.header_iff_requested
#print axioms Mercure.C08.local_always_earliest
#print axioms Mercure.C08.earliest_whole_history
#print axioms Mercure.C08.resp_eq_req_iff
#print axioms Mercure.C08.found_replays_everything_after
#print axioms Mercure.C08.otherwise_differs
#print axioms Mercure.C08.resp_earliest_iff_whole_history
#print axioms Mercure.C08.byte_level_announced_id
#print axioms Mercure.C08.id_bytes_injective
