import Mercure.Model.Selector
/-
  Mercure.Model.Auth — authorization.go (authorize, validateJWT, canReceive, canDispatch),
  jwtkeyfunc.go (exact-algorithm key function).

  golang-jwt/v5 + Go crypto are the trusted base: a compact token enters as `AbsToken`, the facts
  the harness recomputes with its *own* decoder and verifier (DESIGN §7).
-/
namespace Mercure

structure MClaim where
  publish   : Option (List Str) := none     -- nil vs non-nil slice
  subscribe : Option (List Str) := none
  payload   : Str := []                     -- canonical JSON of `payload` ("" when absent/null)
  deriving DecidableEq, Repr

structure Claims where
  mercure    : MClaim := {}
  namespaced : Option MClaim := none        -- "https://mercure.rocks/" fallback
  exp        : Option Nat := none           -- ms since t0 of the run (virtual clock)
  deriving DecidableEq, Repr

/-- validateJWT's post-processing: the namespaced claim, when present, replaces the plain one. -/
def Claims.effective (c : Claims) : Claims :=
  match c.namespaced with
  | some m => { c with mercure := m }
  | none => c

structure AbsToken where
  wellFormed : Bool      -- 3 segments, base64url (no padding), header and claims JSON decode
  alg        : Str       -- header "alg"
  sigOk      : Bool      -- signature verifies under the role's configured key with method `alg`
  expOk      : Bool      -- exp absent or now < exp
  nbfOk      : Bool      -- nbf absent or now ≥ nbf
  claims     : Claims
  deriving Repr

/-- ParseWithClaims + createJWTKeyfunc: the key is returned only for the configured method. -/
def validate (cfgAlg : Str) (t : AbsToken) : Option Claims :=
  if t.wellFormed && t.alg == cfgAlg && t.sigOk && t.expOk && t.nbfOk then some t.claims.effective
  else none

inductive AuthErr where
  | invalidHeader | invalidQuery | invalidJWT | noOrigin | badReferer | originNotAllowed
  deriving DecidableEq, Repr

structure AuthReq where
  authHeaders   : Option (List Str)   -- r.Header["Authorization"]; none = key absent
  queryAuth     : Option (List Str)   -- r.URL.Query()["authorization"]
  cookie        : Option Str          -- value of the first cookie with the configured name
  isPost        : Bool
  origin        : Str                 -- r.Header.Get("Origin")
  referer       : Str                 -- r.Header.Get("Referer")
  refererOrigin : Option Str          -- url.Parse(referer) ok ⇒ scheme ++ "://" ++ host
  deriving Repr

def bearerPrefix : Str := "Bearer ".toList

def validateTok (tok : Str → Option Claims) (s : Str) : Except AuthErr (Option Claims) :=
  match tok s with
  | some c => .ok (some c)
  | none => .error .invalidJWT

/-- `authorize` (authorization.go:52-104). `tok` = validateJWT under the role's key function.
    minHeader = 48, minQuery = 41 are regenerated constants. -/
def authorize (minHeader minQuery : Nat) (tok : Str → Option Claims) (r : AuthReq)
    (publishOrigins : List Str) : Except AuthErr (Option Claims) :=
  match r.authHeaders with
  | some hs =>
    match hs with
    | [h] =>
      if utf8Len h < minHeader || !(hasPrefix bearerPrefix h) then .error .invalidHeader
      else validateTok tok (h.drop bearerPrefix.length)
    | _ => .error .invalidHeader
  | none =>
  match r.queryAuth with
  | some qs =>
    match qs with
    | [q] => if utf8Len q < minQuery then .error .invalidQuery else validateTok tok q
    | _ => .error .invalidQuery
  | none =>
  match r.cookie with
  | none => .ok none
  | some c =>
    if !r.isPost then validateTok tok c else
    let originE : Except AuthErr Str :=
      if r.origin != [] then .ok r.origin
      else if r.referer == [] then .error .noOrigin
      else match r.refererOrigin with
        | some o => .ok o
        | none => .error .badReferer
    match originE with
    | .error e => .error e
    | .ok origin =>
      if publishOrigins.any (fun a => a == ['*'] || origin == a) then validateTok tok c
      else .error .originNotAllowed

/-- `canReceive` (authorization.go:121-131). -/
def canReceive (M : Str → Str → Bool) (topics sels : List Str) : Bool :=
  topics.any (fun t => sels.any (fun x => M t x))

/-- `canDispatch` (authorization.go:133-157), loop structure preserved:
    a `*` returns true at once — but only when the scan of the *current* topic reaches it. -/
def canDispatchTopic (M : Str → Str → Bool) (topic : Str) : List Str → Option Bool
  -- some true = "return true"; none = matched, go on; some false = not matched
  | [] => some false
  | x :: xs => if x == ['*'] then some true else if M topic x then none else canDispatchTopic M topic xs

def canDispatch (M : Str → Str → Bool) : List Str → List Str → Bool
  | [], _ => true
  | t :: ts, sels =>
    match canDispatchTopic M t sels with
    | some true => true
    | some false => false
    | none => canDispatch M ts sels

end Mercure
